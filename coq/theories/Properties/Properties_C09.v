(* C09 — JitAllocator never hands out overlapping, misaligned or corrupted memory.
   This file holds ONLY the property theorems (each closed by `exact <lemma>`) and their Print Assumptions.

   Model: coq/theories/Jit/JitModel.v — bit-level, executable, extracted for the correspondence run.  Every block
   carries the list `b_live` of (start granule, length) of the spans handed out of it and not yet released
   (instrumentation that no decision reads).  `reach c st`: st is reachable from the initial state by any history of
   alloc (any size) / release / shrink / query / reset whose release and shrink arguments are live span starts or
   pointers outside every block (`valid_op`; stale or interior pointers are undefined behaviour of the API, DESIGN 7.11).
   `cfg_ok c`: positive granularity, >= 1 pools, positive block size, repaired variant (`fixed`); everything else
   (granularity 64/128/256, 1 or 3 pools, block size, padding on/off, immediate release on/off) is universally quantified. *)
From Coq Require Import ZArith List Bool.
From Verif Require Import Jit.JitModel Jit.JitBits Jit.JitBlockProofs Jit.JitProofs Jit.JitWitness.
From Verif Require Import Jit.JitBytes Jit.JitFill Jit.JitCursorModel Jit.JitCursorProofs Jit.JitWords.
From Verif Require Import Containers.BitVecModel.
From Verif Require Import Jit.JitSpec Jit.JitSpecProofs Jit.JitIter.
From Verif Require Import Containers.RangeIterModel.
From Verif Require Import Sections.SectionModel Sections.SectionProofs Sections.CopyProofs.
From Verif Require Import Jit.JitTablesCheck Jit.JitQuery Jit.JitReuse Jit.JitComplete Jit.JitRefine Jit.JitAnySize.
From Verif Require Jit.JitIterB.
From Verif Require Import Jit.JitLpModel Jit.JitLpProofs Jit.JitNorm.
From VerifGen Require JitTables.
From Verif Require Import Jit.JitModel.
From Verif Require Import Jit.JitStats Jit.JitVmModel Jit.JitVmProofs Jit.JitTree Jit.JitRuntimeModel Jit.JitRuntimeProofs.
Import ListNotations.
Local Open Scope Z_scope.

(* ---------------------------------------------------------------- the invariant over all histories *)
(* ginv: every block satisfies `binv` (bit vectors = live spans; counters exact; search window sound; incremental mode
   exact; largest-unused-area a bound unless dirty; full/empty flags exact), block ids unique, per-pool totals =
   sums over the pool's blocks, empty-block counter >= number of flagged blocks and <= 1 (0 flagged blocks under
   kImmediateRelease), allocation_count = number of live spans. *)
Theorem C09_invariant : forall c st, cfg_ok c -> reach c st -> ginv c st.
Proof. exact reach_ginv. Qed.
Print Assumptions C09_invariant.

Example C09_invariant_hyps_sat : cfg_ok cfg_f /\ reach cfg_f (run cfg_f (init_state cfg_f) [OAlloc 100; ORelease 0 64]).
Proof. exact (conj cfg_f_ok reach_example). Qed.

(* live spans: non-empty, inside their block (behind the padding granule), pairwise disjoint; blocks are identified
   by their id.  Offsets are granule indices: the byte offset is index * pool granularity in both the rx and the rw view. *)
Theorem C09_live_disjoint : forall c st, cfg_ok c -> reach c st ->
  forall b1 b2 sp1 sp2, In b1 (blocks st) -> In b2 (blocks st) -> In sp1 (b_live b1) -> In sp2 (b_live b2) ->
  (b_id b1 = b_id b2 -> b1 = b2) /\
  (1 <= snd sp1 /\ b_pad b1 <= fst sp1 /\ fst sp1 + snd sp1 <= b_area b1) /\
  (b1 = b2 -> forall i, in_span sp1 i -> in_span sp2 i -> sp1 = sp2).
Proof. exact live_spans_disjoint. Qed.
Print Assumptions C09_live_disjoint.

(* what a successful alloc returns: at least the requested size, less than one granule more, a multiple of the
   granularity; offset and length are multiples of the granularity of the pool the block belongs to; the span is live
   in the new state; and a NEW block is created only if no existing block of that pool has a free run of that length
   (released and shrunk-away memory is reusable — this is where window soundness is needed; false in the pinned tree) *)
Theorem C09_alloc_result : forall c st size st' id off len,
  cfg_ok c -> reach c st -> 0 <= size -> size + c_gran c <= two64 ->
  alloc c st size = (st', RAlloc Ok id off len) ->
  size <= len < size + c_gran c /\ len mod c_gran c = 0 /\
  exists b, In b (blocks st') /\ b_id b = id /\ b_pool b = size_to_pool c len /\
            off mod pool_gran c (b_pool b) = 0 /\ len mod pool_gran c (b_pool b) = 0 /\
            In (off / pool_gran c (b_pool b), len / pool_gran c (b_pool b)) (b_live b) /\
            (nextid st' <> nextid st ->
             forall b0, In b0 (blocks st) -> b_pool b0 = b_pool b -> no_room b0 (len / pool_gran c (b_pool b))).
Proof. exact alloc_result. Qed.
Print Assumptions C09_alloc_result.

(* block sizing (JitAllocator_calculate_ideal_block_size + the area computation of JitAllocator_new_block): whatever the
   pool's last block is, the block created for a request of `size` bytes has at least padding + request bytes, and its
   area (granules) holds the padding granule plus the request's granules — so the span placed at `initial_area_start`
   of a new block ends inside the block *)
Theorem C09_new_block_fits : forall c p last size,
  0 < c_gran c -> 0 <= p -> 0 < c_bsize c -> 1 <= size ->
  let g := pool_gran c p in
  (if c_pad c then size + g else size) <= ideal_block_size c p last size /\
  (if c_pad c then 1 else 0) + (size + g - 1) / g <= (ideal_block_size c p last size + g - 1) / g.
Proof. exact new_block_fits. Qed.
Print Assumptions C09_new_block_fits.

Example C09_alloc_result_hyps_sat :
  exists st', alloc cfg_f3 (init_state cfg_f3) 100 = (st', RAlloc Ok 0 128 128) /\ 0 <= 100 /\ 100 + c_gran cfg_f3 <= two64.
Proof. exact alloc_example. Qed.

(* evolution of the set of live spans `all_live` = {(block id, (start granule, length))}: a successful alloc adds exactly
   the returned span, a release of a live span removes exactly that span (and answers Ok; the block is deleted or
   kept as the pool's empty block); every other span stays live — nothing the allocator does hands the granules of
   a live span to anybody else (with C09_live_disjoint: the model-level content of "keeps its contents until released") *)
Theorem C09_alloc_frame : forall c st size st' id off len,
  cfg_ok c -> reach c st -> 0 <= size -> size + c_gran c <= two64 ->
  alloc c st size = (st', RAlloc Ok id off len) ->
  let g := pool_gran c (size_to_pool c len) in
  forall x, In x (all_live (blocks st')) <-> x = (id, (off / g, len / g)) \/ In x (all_live (blocks st)).
Proof. exact alloc_frame. Qed.
Print Assumptions C09_alloc_frame.

Theorem C09_release_frame : forall c st id off b s n,
  cfg_ok c -> reach c st -> find_block id (blocks st) = Some b ->
  s = off / pool_gran c (b_pool b) -> In (s, n) (b_live b) ->
  snd (release c st id off) = RRelease Ok id (negb (existsb (fun x => b_id x =? id) (blocks (fst (release c st id off))))) /\
  forall x, In x (all_live (blocks (fst (release c st id off)))) <-> In x (all_live (blocks st)) /\ x <> (id, (s, n)).
Proof. exact release_frame. Qed.
Print Assumptions C09_release_frame.

(* shrink of a live span (ns >= 1 bytes, m = ceil(ns / pool granularity) granules): larger than the span -> refused,
   same size -> no change, smaller -> exactly that span is replaced by its m-granule prefix *)
Theorem C09_shrink_frame : forall c st id off ns b s n,
  cfg_ok c -> reach c st -> find_block id (blocks st) = Some b ->
  s = off / pool_gran c (b_pool b) -> In (s, n) (b_live b) -> 1 <= ns ->
  let g := pool_gran c (b_pool b) in
  let m := (ns + g - 1) / g in
  (n < m -> shrink c st id off ns = (st, RShrink InvalidArgument id (n * g))) /\
  (m = n -> shrink c st id off ns = (st, RShrink Ok id (n * g))) /\
  (m < n -> snd (shrink c st id off ns) = RShrink Ok id (m * g) /\
            forall x, In x (all_live (blocks (fst (shrink c st id off ns)))) <->
                      x = (id, (s, m)) \/ (In x (all_live (blocks st)) /\ x <> (id, (s, n)))).
Proof. exact shrink_frame. Qed.
Print Assumptions C09_shrink_frame.

(* the bit vectors say exactly which granules are handed out (plus the padding granule), and the stop bits delimit
   every live span: release/shrink/query of a live span start see exactly that span *)
Theorem C09_bitvectors_exact : forall c st, cfg_ok c -> reach c st ->
  forall b, In b (blocks st) ->
  (forall i, Z.testbit (b_used b) i = true <-> ((i = 0 /\ b_pad b = 1) \/ covered (b_live b) i)) /\
  (forall s n, In (s, n) (b_live b) -> span_end b s = s + n).
Proof. exact bitvectors_exact. Qed.
Print Assumptions C09_bitvectors_exact.

(* search cache: every free granule of a non-full block lies in [search_start, search_end); an incremental block is
   used below search_start and free from it on; largest_unused_area bounds every free run unless the block is dirty;
   the executable window test used by the driver is true *)
Theorem C09_window_sound : forall c st, cfg_ok c -> reach c st ->
  forall b, In b (blocks st) ->
  (b_aused b < b_area b -> forall i, 0 <= i < b_area b -> Z.testbit (b_used b) i = false -> b_ss b <= i < b_se b) /\
  (b_incr b = true -> forall i, (0 <= i < b_ss b -> Z.testbit (b_used b) i = true) /\ (b_ss b <= i -> Z.testbit (b_used b) i = false)) /\
  (b_dirty b = false -> forall s m, 0 <= s -> s + m <= b_area b -> allfree (b_used b) s m -> m <= b_largest b) /\
  state_wsound st = true.
Proof. exact window_sound. Qed.
Print Assumptions C09_window_sound.

(* statistics(): allocation_count = number of live spans; used_size = sum over blocks of (padding granule + live
   granules) x pool granularity; reserved_size = sum over blocks of area x pool granularity *)
Theorem C09_stats_exact : forall c st, cfg_ok c -> reach c st ->
  s_allocs (statistics c st) = total_live (blocks st) /\
  s_used (statistics c st) =
    fold_right (fun b a => (b_pad b + sum_len (b_live b)) * pool_gran c (b_pool b) + a) 0 (blocks st) /\
  s_reserved (statistics c st) = fold_right (fun b a => b_area b * pool_gran c (b_pool b) + a) 0 (blocks st).
Proof. exact stats_exact. Qed.
Print Assumptions C09_stats_exact.

(* pointers outside every block are rejected and change nothing (any state, any variant) *)
Theorem C09_foreign_rejected : forall c st id off ns,
  find_block id (blocks st) = None ->
  release c st id off = (st, RRelease InvalidState 0 false) /\
  query c st id off = RQuery InvalidArgument 0 0 0 /\
  (ns <> 0 -> shrink c st id off ns = (st, RShrink InvalidArgument 0 0)).
Proof. exact foreign_rejected. Qed.
Print Assumptions C09_foreign_rejected.

(* at any time at most one block per pool has no live span (none under kImmediateRelease); block_count is exact *)
Theorem C09_empty_block_policy : forall c st, cfg_ok c -> reach c st ->
  forall p, 0 <= p < c_pools c ->
  sump nolivef p (blocks st) <= 1 /\ (c_imm c = true -> sump nolivef p (blocks st) = 0) /\
  p_count (get_pool st p) = sump onef p (blocks st).
Proof. exact empty_block_policy. Qed.
Print Assumptions C09_empty_block_policy.

(* reset: nothing remains accounted; kept blocks are clean; a hard reset or kImmediateRelease keeps no block *)
Theorem C09_reset_clears : forall c st hard, cfg_ok c -> reach c st ->
  acount (reset c st hard) = 0 /\
  (forall b, In b (blocks (reset c st hard)) -> b_live b = [] /\ b_aused b = b_pad b) /\
  (hard = true \/ c_imm c = true -> blocks (reset c st hard) = []).
Proof. exact reset_clears. Qed.
Print Assumptions C09_reset_clears.

Theorem C09_initialized_flag : forall c, cfg_ok c -> is_initialized c = true.
Proof. exact initialized_flag. Qed.
Print Assumptions C09_initialized_flag.

(* ---------------------------------------------------------------- block level (any variant for the structure) *)
Theorem C09_block_release : forall b s n, binv b -> In (s, n) (b_live b) -> binv (mark_released fixed b s (s + n)).
Proof. exact binv_release. Qed.
Print Assumptions C09_block_release.

Theorem C09_block_shrink : forall b s n m,
  binv b -> In (s, n) (b_live b) -> 1 <= m -> m < n -> binv (mark_shrunk b s (s + m) (s + n)).
Proof. exact binv_shrink. Qed.
Print Assumptions C09_block_shrink.

(* ---------------------------------------------------------------- the PINNED behaviour refutes the property
   (witnesses evaluated on the faithful model; each is a known finding with a proposed fix under fixes/) *)
Theorem C09_reusable_refuted_pinned :
  state_wsound (run cfg_p (init_state cfg_p) ops_713) = false /\
  length (blocks (run cfg_p (init_state cfg_p) (ops_713 ++ [OAlloc 4096; OAlloc 4032]))) = 2%nat /\
  state_wsound (run cfg_f (init_state cfg_f) ops_713) = true /\
  length (blocks (run cfg_f (init_state cfg_f) (ops_713 ++ [OAlloc 4096; OAlloc 4032]))) = 1%nat.
Proof. exact pinned_window_unsound. Qed.
Print Assumptions C09_reusable_refuted_pinned.

Theorem C09_initialized_flag_refuted_pinned : is_initialized cfg_p = false /\ is_initialized cfg_f = true.
Proof. exact pinned_not_initialized. Qed.
Print Assumptions C09_initialized_flag_refuted_pinned.

Theorem C09_empty_block_policy_refuted_pinned :
  sump nolivef 0 (blocks (run cfg_p_imm (init_state cfg_p_imm) [OAlloc 64; ORelease 0 64])) = 1 /\
  sump nolivef 0 (blocks (run cfg_f_imm (init_state cfg_f_imm) [OAlloc 64; ORelease 0 64])) = 0.
Proof. exact pinned_empty_block_retained. Qed.
Print Assumptions C09_empty_block_policy_refuted_pinned.

Theorem C09_reset_clears_refuted_pinned :
  acount (reset cfg_p (run cfg_p (init_state cfg_p) [OAlloc 256]) false) = 1 /\
  acount (reset cfg_f (run cfg_f (init_state cfg_f) [OAlloc 256]) false) = 0.
Proof. exact pinned_reset_keeps_count. Qed.
Print Assumptions C09_reset_clears_refuted_pinned.

(* ================================================================ round 2 *)

(* ---------------------------------------------------------------- byte level (block size a multiple of the largest pool
   granularity, as in every real configuration): a block's byte size is area x pool granularity, so the byte range of a
   live span — offset s*g, length n*g, the same in the rx and the rw view — lies inside the block's mapping, behind the
   padding granule.  (Would have made seeded change C09-1 a theorem-level obligation: see also C09_new_block_fits.) *)
Theorem C09_span_bytes_inside : forall c st, cfg_ok_bytes c -> reach c st ->
  forall b s n, In b (blocks st) -> In (s, n) (b_live b) ->
  let g := pool_gran c (b_pool b) in
  0 < g /\ b_pad b * g <= s * g /\ s * g + n * g <= b_bytes b /\ 1 * g <= n * g.
Proof. exact span_bytes_inside. Qed.
Print Assumptions C09_span_bytes_inside.

Example C09_span_bytes_inside_hyps_sat : cfg_ok_bytes cfg_f3.
Proof. constructor; [exact cfg_f3_ok|]. exists 256. reflexivity. Qed.

(* ---------------------------------------------------------------- content layer (granule level; bytes = granules x pool
   granularity of the block, `ev_bytes`).  fill_events = the ranges an operation overwrites with the fill pattern under
   kFillUnusedMemory: released span, shrunk-away tail, whole new block, spans of blocks kept by a reset. *)
Theorem C09_contents_kept : forall c st o, cfg_ok c -> reach c st -> valid_op c st o ->
  forall id sp, In (id, sp) (all_live (blocks st)) -> In (id, sp) (all_live (blocks (fst (step c st o)))) ->
  forall e k, In e (fill_events c st o) -> in_span sp k -> ~ in_ev e id k.
Proof. exact contents_kept. Qed.
Print Assumptions C09_contents_kept.

Theorem C09_fill_covers : forall c st o, cfg_ok c -> reach c st -> valid_op c st o ->
  forall id k, free_gran (fst (step c st o)) id k ->
  free_gran st id k \/ exists e, In e (fill_events c st o) /\ in_ev e id k.
Proof. exact fill_covers. Qed.
Print Assumptions C09_fill_covers.

(* ---------------------------------------------------------------- pool->cursor: the cursor-explicit semantics (insertBlock /
   removeBlock / pool.reset update rules, alloc's loop starting at the cursor and wrapping) keeps "cursor = first block of
   the pool" and therefore equals `step` — state and result — for every valid operation and history *)
Theorem C09_cursor_is_first : forall c cs o,
  cfg_ok c -> reach c (cs_st cs) -> Cinv c cs -> valid_op c (cs_st cs) o ->
  cs_st (fst (cstep c cs o)) = fst (step c (cs_st cs) o) /\
  snd (cstep c cs o) = snd (step c (cs_st cs) o) /\
  Cinv c (fst (cstep c cs o)).
Proof. exact cstep_eq. Qed.
Print Assumptions C09_cursor_is_first.

Theorem C09_cursor_histories : forall c ops, cfg_ok c -> forall cs, reach c (cs_st cs) -> Cinv c cs -> valid_hist c (cs_st cs) ops ->
  cs_st (crun c cs ops) = run c (cs_st cs) ops /\ Cinv c (crun c cs ops).
Proof. exact crun_eq. Qed.
Print Assumptions C09_cursor_histories.

Example C09_cursor_hyps_sat : Cinv cfg_f3 (init_cstate cfg_f3) /\ reach cfg_f3 (cs_st (init_cstate cfg_f3)).
Proof. split; [apply Cinv_init; exact cfg_f3_ok|apply reach_init]. Qed.

(* ---------------------------------------------------------------- word level (C18's generic-word-size models of the 64-bit
   code; `repr W ws u`: the word vector ws represents the bit mask u).  For EVERY word size, vector and argument: *)
Theorem C09_word_fill : forall W ws u i n,
  0 < W -> words_ok W ws -> 0 <= i -> 0 <= n -> i + n <= W * zlen ws ->
  repr W ws u -> repr W (bv_fill W ws i n) (set_range u i n).
Proof. exact fill_repr. Qed.
Print Assumptions C09_word_fill.

Theorem C09_word_clear : forall W ws u i n,
  0 < W -> words_ok W ws -> 0 <= i -> 0 <= n -> i + n <= W * zlen ws ->
  repr W ws u -> repr W (bv_clear W ws i n) (clear_range u i n).
Proof. exact clear_repr. Qed.
Print Assumptions C09_word_clear.

Theorem C09_word_set_bit : forall W ws u i (v : bool),
  0 < W -> words_ok W ws -> 0 <= i < W * zlen ws ->
  repr W ws u -> repr W (bv_set W ws i v) (if v then Z.setbit u i else Z.clearbit u i).
Proof. exact set_bit_repr. Qed.
Print Assumptions C09_word_set_bit.

Theorem C09_word_index_of : forall W ws u start (v : bool),
  0 < W -> words_ok W ws -> 0 <= start <= W * zlen ws -> repr W ws u ->
  match bv_index_of W ws start v with
  | Some r => find_bit u v start (W * zlen ws) = r
  | None => find_bit u v start (W * zlen ws) = W * zlen ws
  end.
Proof. exact index_of_repr. Qed.
Print Assumptions C09_word_index_of.

(* the scan loop of alloc over the word-level BitVectorRangeIterator = the bit-level scan.  PARTIAL: proved by exhaustive
   evaluation for word size 4 and all vectors of 1, 2 (all request sizes) and 3 words (size 2), all windows whose
   end is followed by no free granule in its word (what window soundness guarantees); the general statement for W = 64 is
   tied by the differential runs (C09 exact offsets + cache state, C18 command R). *)
Theorem C09_word_scan_partial :
  wscan_explore 1 (zrange 1 5) = true /\ wscan_explore 2 (zrange 1 9) = true /\ wscan_explore 3 [2] = true.
Proof. exact wscan_eq_scan_small_scope. Qed.
Print Assumptions C09_word_scan_partial.

Theorem C09_word_scan_other_word_sizes_partial :
  wscan_exploreW 3 3 [1; 2; 4] = true /\ wscan_exploreW 5 2 [2] = true.
Proof. exact wscan_eq_scan_other_word_sizes. Qed.
Print Assumptions C09_word_scan_other_word_sizes_partial.

(* without window soundness the word-level scan returns an index outside the window (the mechanism behind the out-of-block
   span of DESIGN 7.13): words 0111b 0111b, window [0, 5), request 2 *)
Theorem C09_word_scan_unsound_window_refuted :
  wscan 4 [7; 7] 0 5 2 = Found 7 /\ scan (mask_of 4 [7; 7]) 0 5 2 = NotFound 3 4 1.
Proof. exact wscan_unsound_window_refuted. Qed.
Print Assumptions C09_word_scan_unsound_window_refuted.

(* ---------------------------------------------------------------- the trace judge (JitSpec.v), run on the implementation's own
   answers by `c09 spec`, independent of the model's placement: a trace it accepts keeps its live spans non-empty and pairwise
   disjoint at every point, and every accepted alloc is >= the request, < one granule more, aligned to its pool's
   granularity, behind the padding and inside the block's byte size *)
Theorem C09_judge_sound : forall g0 pools pad, 0 < g0 -> forall evs live i final,
  twf live -> spec_run g0 pools pad live evs i = Datatypes.inr final -> twf final.
Proof. exact spec_run_sound. Qed.
Print Assumptions C09_judge_sound.

Theorem C09_judge_alloc : forall g0 pools pad live size blk off len bytes pool,
  0 < g0 -> alloc_ok g0 pools pad live size blk off len bytes pool = true ->
  let g := g0 * 2 ^ pool in
  1 <= size <= len /\ len < size + g0 /\ 0 <= pool < pools /\ len mod g = 0 /\ off mod g = 0 /\
  pad * g <= off /\ off + len <= bytes /\
  forall s, In s live -> disjoint_spans (blk, (off, len)) s.
Proof. exact alloc_ok_sound. Qed.
Print Assumptions C09_judge_alloc.

Example C09_judge_not_vacuous :
  spec_run 64 1 1 [] [EAlloc 100 0 64 128 131072 0; EAlloc 64 0 128 64 131072 0] 0 = Datatypes.inl 1 /\
  spec_run 64 1 1 [] [EAlloc 131009 0 64 131072 131072 0] 0 = Datatypes.inl 0 /\ twf [].
Proof. exact (conj spec_rejects_overlap (conj spec_rejects_outside_block twf_nil)). Qed.

(* ================================================================ round 3 *)

(* ---------------------------------------------------------------- the word level in full generality: for EVERY word size
   W > 0 (64 in the code), every word vector ws (representing the bit mask u), every window [start, E) such that no free
   bit lies between E and the end of its word, and every request n >= 1, the scan loop of JitAllocator::alloc over
   BitVectorRangeIterator<BitWord,0> (C18's model of init/next_range with the range hint; `wscan` adds alloc's
   `size_t range_size = range_end - range_start`, the first-fit test and the search_start/largest bookkeeping) returns
   exactly what the bit-level `scan` of the model returns.  Supersedes the bounded C09_word_scan_*_partial theorems. *)
Theorem C09_word_scan : forall W, 0 < W -> forall ws, words_ok W ws -> forall E, 0 <= E <= W * zlen ws ->
  (forall j, E <= j < Eup W E -> F W ws j = false) -> W * zlen ws < 2 ^ 64 ->
  forall u, repr W ws u -> forall start n, 0 <= start <= E -> 1 <= n ->
  wscan W ws start E n = scan u start E n.
Proof. exact wscan_eq_scan. Qed.
Print Assumptions C09_word_scan.

(* ... and the proviso is what window soundness provides: in every reachable state, for every non-full block whose used
   bit vector is held in W-bit words, the word-level scan over the block's search window is the model's scan *)
Theorem C09_alloc_scan_word_level : forall c st b W ws n,
  cfg_ok c -> reach c st -> In b (blocks st) -> b_aused b < b_area b ->
  0 < W -> words_ok W ws -> repr W ws (b_used b) -> b_area b = W * zlen ws -> W * zlen ws < 2 ^ 64 -> 1 <= n ->
  wscan W ws (b_ss b) (b_se b) n = scan (b_used b) (b_ss b) (b_se b) n.
Proof. exact alloc_scan_word_level. Qed.
Print Assumptions C09_alloc_scan_word_level.

(* ---------------------------------------------------------------- virtual memory as an oracle (JitVmModel.alloc_vm c st size vm:
   vm = does VirtMem::alloc / alloc_dual_mapping of JitAllocator_new_block succeed).  A failing request answers
   kOutOfMemory, keeps the invariant, and leaves the set of live spans, the statistics, the block ids and nextid unchanged
   (only search caches may have been refreshed by the block loop); if no new block was needed nothing differs from alloc *)
Theorem C09_vm_failure : forall c st size, cfg_ok c -> ginv c st ->
  let r := alloc_vm c st size false in
  ginv c (fst r) /\
  (snd r = RAlloc OutOfMemory 0 0 0 ->
     all_live (blocks (fst r)) = all_live (blocks st) /\ statistics c (fst r) = statistics c st /\
     nextid (fst r) = nextid st /\ map b_id (blocks (fst r)) = map b_id (blocks st)) /\
  (snd r <> RAlloc OutOfMemory 0 0 0 -> r = alloc c st size).
Proof. exact alloc_vm_fail. Qed.
Print Assumptions C09_vm_failure.

(* the allocator invariant over histories in which any alloc may hit a failing virtual-memory request *)
Theorem C09_invariant_with_vm_failures : forall c st, cfg_ok c -> reach_vm c st -> ginv c st.
Proof. exact reach_vm_ginv. Qed.
Print Assumptions C09_invariant_with_vm_failures.

(* ---------------------------------------------------------------- statistics with any number of pools *)
Theorem C09_stats_blocks : forall c st, cfg_ok c -> reach c st ->
  s_blocks (statistics c st) = Z.of_nat (length (blocks st)).
Proof. exact stats_blocks. Qed.
Print Assumptions C09_stats_blocks.

Theorem C09_stats_per_pool : forall c st p, cfg_ok c -> reach c st -> 0 <= p < c_pools c ->
  p_count (get_pool st p) = sump onef p (blocks st) /\
  p_tsize (get_pool st p) * pool_gran c p = sump (fun b => b_area b * pool_gran c (b_pool b)) p (blocks st) /\
  p_tused (get_pool st p) * pool_gran c p =
    sump (fun b => (b_pad b + sum_len (b_live b)) * pool_gran c (b_pool b)) p (blocks st).
Proof. exact stats_per_pool. Qed.
Print Assumptions C09_stats_per_pool.

(* ---------------------------------------------------------------- lookup of a block by address (ArenaTree::get with the block's
   range comparators) over any search tree whose in-order mappings are increasing and disjoint (the red-black shape is
   irrelevant; `range_get` is the same descent over C18's heap representation, `range_get_to_bst`): an address inside a
   block's mapping finds that block — which is what the model's find_block by id stands for — and an address outside every
   mapping finds nothing.  `base` = address oracle (block id -> rx base). *)
Theorem C09_tree_lookup : forall c st base t,
  cfg_ok_bytes c -> reach c st ->
  (forall e, In e (elems t) <-> exists b, In b (blocks st) /\ e = block_ent base b) ->
  ordered (elems t) ->
  (forall b off, In b (blocks st) -> 0 <= off < b_bytes b ->
     lookup t (base (b_id b) + off) = Some (b_id b) /\ find_block (b_id b) (blocks st) = Some b) /\
  (forall ptr, (forall b, In b (blocks st) -> ~ (base (b_id b) <= ptr < base (b_id b) + b_bytes b)) ->
     lookup t ptr = None).
Proof. exact tree_lookup_is_find_block. Qed.
Print Assumptions C09_tree_lookup.

Theorem C09_tree_lookup_heap : forall fuel h size_of n ptr,
  range_get fuel h size_of n ptr = match lookup (to_bst fuel h size_of n) ptr with Some i => i | None => 0 end.
Proof. exact range_get_to_bst. Qed.
Print Assumptions C09_tree_lookup_heap.

(* ================================================================ round 4 *)

(* ---------------------------------------------------------------- JitRuntime::_add / _release on top of the allocator (C10's
   `jit_add` gives error / final size / installed image of the flattened holder).  `rinv`: every installed image is recorded
   with a span that is live in the allocator, keys unique.  _add keeps rinv; on success the image has exactly the final
   code size, the span it owns is live, granule aligned and at least that large; _release of a live span keeps rinv;
   two different installed images never share a granule (no add overwrites earlier code, nothing is freed twice). *)
Theorem C09_runtime_add : forall c rs h fill,
  cfg_ok c -> rinv c rs -> wf_holder h -> data_len_ok h ->
  (forall n img h1, jit_add h fill = (EOk, n, img, h1) -> n + c_gran c <= JitModel.two64) ->
  rinv c (fst (rt_add c rs h fill)) /\
  (forall id off, snd (rt_add c rs h fill) = Some (id, off) ->
     exists n img h1 len b,
       jit_add h fill = (EOk, n, img, h1) /\ Z.of_nat (length img) = n /\ n <= len /\
       In b (blocks (r_st (fst (rt_add c rs h fill)))) /\ b_id b = id /\
       off mod pool_gran c (b_pool b) = 0 /\ len mod pool_gran c (b_pool b) = 0 /\
       In (off / pool_gran c (b_pool b), len / pool_gran c (b_pool b)) (b_live b) /\
       r_code (fst (rt_add c rs h fill)) = (id, (off / pool_gran c (b_pool b), len / pool_gran c (b_pool b)), img) :: r_code rs).
Proof. exact rt_add_ok. Qed.
Print Assumptions C09_runtime_add.

Theorem C09_runtime_release : forall c rs id off,
  cfg_ok c -> rinv c rs -> valid_ptr c (r_st rs) id off -> rinv c (fst (rt_release c rs id off)).
Proof. exact rt_release_ok. Qed.
Print Assumptions C09_runtime_release.

Theorem C09_runtime_code_disjoint : forall c rs e1 e2,
  cfg_ok c -> rinv c rs -> In e1 (r_code rs) -> In e2 (r_code rs) -> e1 <> e2 ->
  fst e1 <> fst e2 /\
  (fst (fst e1) = fst (fst e2) -> forall i, in_span (snd (fst e1)) i -> in_span (snd (fst e2)) i -> False).
Proof. exact rt_code_disjoint. Qed.
Print Assumptions C09_runtime_code_disjoint.

Example C09_runtime_hyps_sat : forall c, rinv c (mkR (init_state c) []).
Proof. exact rinv_init. Qed.

(* ================================================================ round 5 *)

(* ---------------------------------------------------------------- translator tie: coq/gen/JitTables.v is regenerated from the
   tree under test on every run (harness/c09_dump.cpp evaluates the REAL functions on grids of arguments); the model's
   constants, CreateParams normalisation (norm_gran / norm_bsize / norm_pools), size_to_pool and ideal_block_size give the
   same answer on every row *)
Theorem C09_tables_match_source :
  check_tables JitTables.consts JitTables.create_table JitTables.pool_table JitTables.ideal_table = true.
Proof. exact JitTables.tables_ok. Qed.
Print Assumptions C09_tables_match_source.

Theorem C09_tables_rows : 
  (forall r, In r JitTables.create_table -> check_create (snd JitTables.consts) r = true) /\
  (forall r, In r JitTables.pool_table -> check_pool r = true) /\
  (forall r, In r JitTables.ideal_table -> check_ideal r = true).
Proof. exact (check_tables_spec _ _ _ _ JitTables.tables_ok). Qed.
Print Assumptions C09_tables_rows.

(* ---------------------------------------------------------------- query() reflects exactly the live spans: an address inside a
   live span (any granule of it) answers Ok with the rest of that span from the queried granule on; an address of the block
   that no live span covers — free granules, released or shrunk-away memory, the initial padding granule, the tail beyond
   the area — answers InvalidArgument.  (Unknown blocks: C09_foreign_rejected.) *)
Theorem C09_query_exact : forall c st id off b,
  cfg_ok c -> reach c st -> find_block id (blocks st) = Some b ->
  let g := pool_gran c (b_pool b) in
  let k := off / g in
  (forall s n, In (s, n) (b_live b) -> s <= k < s + n -> query c st id off = RQuery Ok id (k * g) ((s + n - k) * g)) /\
  (~ covered (b_live b) k -> query c st id off = RQuery InvalidArgument 0 0 0).
Proof. exact query_exact. Qed.
Print Assumptions C09_query_exact.

(* non-vacuity, and the pinned behaviour (known finding C09/known/query-accepts-padding-granule, fixes/C09-query-padding.patch):
   the pinned allocator accepts the block base and returns the padding granule as a span *)
Theorem C09_query_padding_refuted_pinned :
  query cfg_p (run cfg_p (init_state cfg_p) [OAlloc 100]) 0 0 = RQuery Ok 0 0 64 /\
  query cfg_f (run cfg_f (init_state cfg_f) [OAlloc 100]) 0 0 = RQuery InvalidArgument 0 0 0 /\
  query cfg_f (run cfg_f (init_state cfg_f) [OAlloc 100]) 0 100 = RQuery Ok 0 64 128.
Proof. exact pinned_query_padding. Qed.
Print Assumptions C09_query_padding_refuted_pinned.

(* ---------------------------------------------------------------- what must NOT change: alloc / release / shrink that answer an
   error leave the whole allocator state exactly as it was (every state, every variant); query has no state result at all *)
Theorem C09_errors_change_nothing : forall c st,
  (forall size st' e id off len, alloc c st size = (st', RAlloc e id off len) -> e <> Ok -> st' = st) /\
  (forall id off st' e i d, release c st id off = (st', RRelease e i d) -> e <> Ok -> st' = st) /\
  (forall id off ns st' e i l, shrink c st id off ns = (st', RShrink e i l) -> e <> Ok -> st' = st).
Proof. exact errors_change_nothing. Qed.
Print Assumptions C09_errors_change_nothing.

Example C09_errors_change_nothing_hyps_sat :
  exists st', alloc cfg_f (init_state cfg_f) 0 = (st', RAlloc InvalidArgument 0 0 0) /\ InvalidArgument <> Ok.
Proof. eexists. split; [vm_compute; reflexivity|discriminate]. Qed.

(* ---------------------------------------------------------------- released memory is reusable, directly: after a release that
   keeps the block, a request that is routed to the same pool and fits into the released span never creates a new block *)
Theorem C09_release_then_alloc_reuses : forall c st id off b s n size st2 id2 off2 len2 b1,
  cfg_ok c -> reach c st -> find_block id (blocks st) = Some b ->
  s = off / pool_gran c (b_pool b) -> In (s, n) (b_live b) ->
  find_block id (blocks (fst (release c st id off))) = Some b1 ->
  0 <= size -> size + c_gran c <= JitModel.two64 ->
  alloc c (fst (release c st id off)) size = (st2, RAlloc Ok id2 off2 len2) ->
  size_to_pool c len2 = b_pool b -> len2 / pool_gran c (b_pool b) <= n ->
  nextid st2 = nextid (fst (release c st id off)).
Proof. exact release_then_alloc_reuses. Qed.
Print Assumptions C09_release_then_alloc_reuses.

Example C09_release_then_alloc_reuses_instance :
  nextid (run cfg_f (init_state cfg_f) [OAlloc 100; OAlloc 100; ORelease 0 64; OAlloc 64]) = 1 /\
  length (blocks (run cfg_f (init_state cfg_f) [OAlloc 100; OAlloc 100; ORelease 0 64; OAlloc 64])) = 1%nat.
Proof. vm_compute. split; reflexivity. Qed.

Theorem C09_shrink_then_alloc_reuses : forall c st id off ns b s n size st2 id2 off2 len2,
  cfg_ok c -> reach c st -> find_block id (blocks st) = Some b ->
  s = off / pool_gran c (b_pool b) -> In (s, n) (b_live b) -> 1 <= ns ->
  let g := pool_gran c (b_pool b) in
  let m := (ns + g - 1) / g in
  m < n ->
  0 <= size -> size + c_gran c <= JitModel.two64 ->
  alloc c (fst (shrink c st id off ns)) size = (st2, RAlloc Ok id2 off2 len2) ->
  size_to_pool c len2 = b_pool b -> len2 / g <= n - m ->
  nextid st2 = nextid (fst (shrink c st id off ns)).
Proof. exact shrink_then_alloc_reuses. Qed.
Print Assumptions C09_shrink_then_alloc_reuses.

Example C09_shrink_then_alloc_reuses_instance :
  nextid (run cfg_f (init_state cfg_f) [OAlloc 1000; OAlloc 100; OShrink 0 64 64; OAlloc 512]) = 1 /\
  map b_live (blocks (run cfg_f (init_state cfg_f) [OAlloc 1000; OAlloc 100; OShrink 0 64 64; OAlloc 512])) = [[(2, 8); (1, 1); (17, 2)]].
Proof. vm_compute. split; reflexivity. Qed.

(* ---------------------------------------------------------------- after everything has been released: nothing is accounted, only the
   padding granules count as used, at most one block per pool (none under kImmediateRelease) is retained *)
Theorem C09_all_released : forall c st, cfg_ok c -> reach c st -> all_live (blocks st) = [] ->
  s_allocs (statistics c st) = 0 /\
  s_used (statistics c st) = fold_right (fun b a => b_pad b * pool_gran c (b_pool b) + a) 0 (blocks st) /\
  (forall p, 0 <= p < c_pools c -> sump onef p (blocks st) <= 1 /\ (c_imm c = true -> sump onef p (blocks st) = 0)).
Proof. exact all_released_accounting. Qed.
Print Assumptions C09_all_released.

Example C09_all_released_instance :
  all_live (blocks (run cfg_f (init_state cfg_f) [OAlloc 100; OAlloc 70000; ORelease 0 64; ORelease 0 192])) = [] /\
  length (blocks (run cfg_f (init_state cfg_f) [OAlloc 100; OAlloc 70000; ORelease 0 64; ORelease 0 192])) = 1%nat /\
  length (blocks (run cfg_f_imm (init_state cfg_f_imm) [OAlloc 100; ORelease 0 64])) = 0%nat.
Proof. vm_compute. repeat split; reflexivity. Qed.

(* ---------------------------------------------------------------- the safety facts over histories in which any alloc may hit a failing
   virtual-memory request (reach_vm): live spans pairwise disjoint and inside their block, window soundness, exact count *)
Theorem C09_vm_histories_sound : forall c st, cfg_ok c -> reach_vm c st ->
  (forall b1 b2 sp1 sp2, In b1 (blocks st) -> In b2 (blocks st) -> In sp1 (b_live b1) -> In sp2 (b_live b2) ->
     (b_id b1 = b_id b2 -> b1 = b2) /\
     (1 <= snd sp1 /\ b_pad b1 <= fst sp1 /\ fst sp1 + snd sp1 <= b_area b1) /\
     (b1 = b2 -> forall i, in_span sp1 i -> in_span sp2 i -> sp1 = sp2)) /\
  (forall b, In b (blocks st) -> b_aused b < b_area b ->
     forall i, 0 <= i < b_area b -> Z.testbit (b_used b) i = false -> b_ss b <= i < b_se b) /\
  acount st = total_live (blocks st).
Proof. exact reach_vm_sound. Qed.
Print Assumptions C09_vm_histories_sound.

Example C09_vm_histories_hyps_sat : reach_vm cfg_f (fst (alloc_vm cfg_f (init_state cfg_f) 100 false)).
Proof. apply rv_fail. apply rv_init. Qed.

(* ================================================================ round 6 *)

(* ---------------------------------------------------------------- completeness of alloc: the answer class of EVERY size (any Z, any
   state, any variant): rounded = align_up(size, granularity) mod 2^64; 0 -> InvalidArgument, state unchanged; beyond
   2^31 - 1 -> TooLarge, state unchanged; otherwise Ok with exactly the rounded size (virtual memory permitting: see
   C09_vm_failure for the failing oracle) *)
Theorem C09_alloc_classification : forall c st size,
  let sz := rounded c size in
  (sz = 0 -> alloc c st size = (st, RAlloc InvalidArgument 0 0 0)) /\
  (2147483647 <= sz - 1 -> sz <> 0 -> alloc c st size = (st, RAlloc TooLarge 0 0 0)) /\
  (1 <= sz <= 2147483647 -> exists st' id off, alloc c st size = (st', RAlloc Ok id off sz)).
Proof. exact alloc_classification. Qed.
Print Assumptions C09_alloc_classification.

Example C09_alloc_classification_instances :
  rounded cfg_f 0 = 0 /\ rounded cfg_f 100 = 128 /\ rounded cfg_f 2147483648 = 2147483648 /\ rounded cfg_f (JitModel.two64 - 1) = 0.
Proof. vm_compute. repeat split; reflexivity. Qed.

(* ---------------------------------------------------------------- frame conditions on whole block records (any state, any variant):
   release and shrink leave every block with another id literally untouched (bit vectors, counters, search cache, flags);
   alloc leaves used/stop bits, area_used, the empty flag, live spans and geometry of every block it did not allocate from
   untouched (only their search cache may have been refreshed by the block loop) *)
Theorem C09_release_frame_blocks : forall c st id off b',
  In b' (blocks st) -> b_id b' <> id -> In b' (blocks (fst (release c st id off))).
Proof. exact release_frame_blocks. Qed.
Print Assumptions C09_release_frame_blocks.

Theorem C09_shrink_frame_blocks : forall c st id off ns b',
  In b' (blocks st) -> b_id b' <> id -> In b' (blocks (fst (shrink c st id off ns))).
Proof. exact shrink_frame_blocks. Qed.
Print Assumptions C09_shrink_frame_blocks.

Theorem C09_alloc_frame_blocks : forall c st size st' id off len,
  alloc c st size = (st', RAlloc Ok id off len) ->
  forall b, In b (blocks st) -> b_id b <> id -> exists b', In b' (blocks st') /\ same_content b b'.
Proof. exact alloc_frame_blocks. Qed.
Print Assumptions C09_alloc_frame_blocks.

Example C09_frame_blocks_instance :
  (* two blocks; releasing a span of block 1 leaves block 0 in the list unchanged *)
  let st := run cfg_f (init_state cfg_f) [OAlloc 100; OAlloc 200000] in
  length (blocks st) = 2%nat /\
  (forall b, In b (blocks st) -> b_id b = 0 -> In b (blocks (fst (release cfg_f st 1 64)))).
Proof. cbn zeta. split; [vm_compute; reflexivity|]. intros b Hb Hid. apply release_frame_blocks; [assumption|]. rewrite Hid. discriminate. Qed.

(* ---------------------------------------------------------------- BitVectorRangeIterator<T, B> for BOTH values of B (B = 0: alloc's scan,
   B = 1: JitAllocatorImpl_wipeOutBlock), every word size, every vector, every window [start, E) with no B-bit between E and
   the end of its word, every hint: the list of ALL ranges the iterator returns (C18's `ranges`) consists of ranges of B-bits
   inside the window and covers every B-bit of the window — nothing is skipped, nothing else is reported *)
Theorem C09_iterator_ranges_cover : forall W, 0 < W -> forall ws, words_ok W ws -> forall E, 0 <= E <= W * zlen ws ->
  forall bb : bool, (forall j, E <= j < JitIterB.Eup W E -> JitIterB.F W ws bb j = false) -> W * zlen ws < 2 ^ 64 ->
  forall start hint, 0 <= start <= E ->
  (forall s e, In (s, e) (ranges W bb ws start E hint) ->
     start <= s /\ s < e /\ e <= E /\ forall j, s <= j < e -> JitIterB.F W ws bb j = true) /\
  (forall j, start <= j < E -> JitIterB.F W ws bb j = true -> exists s e, In (s, e) (ranges W bb ws start E hint) /\ s <= j < e).
Proof. exact JitIterB.ranges_cover. Qed.
Print Assumptions C09_iterator_ranges_cover.

(* the wipe of a soft reset (B = 1 over the whole used bit vector of the kept block): the ranges it fills are exactly the set bits *)
Theorem C09_wipe_ranges_exact : forall W ws u hint,
  0 < W -> words_ok W ws -> W * zlen ws < 2 ^ 64 -> repr W ws u ->
  let rs := ranges W true ws 0 (W * zlen ws) hint in
  (forall s e, In (s, e) rs -> 0 <= s /\ s < e /\ e <= W * zlen ws /\ forall j, s <= j < e -> Z.testbit u j = true) /\
  (forall j, 0 <= j < W * zlen ws -> Z.testbit u j = true -> exists s e, In (s, e) rs /\ s <= j < e).
Proof. exact JitIterB.wipe_ranges_exact. Qed.
Print Assumptions C09_wipe_ranges_exact.

(* ... hence, in every reachable state: every granule of every live span (and the padding granule) of the block is overwritten by
   the wipe, and every wiped granule is padding or belongs to a live span (this is the statement the pinned tree violated:
   DESIGN round-1 defect reset-wipes-unused-ranges, fixed by 062060b) *)
Theorem C09_wipe_covers_live : forall c st b W ws hint,
  cfg_ok c -> reach c st -> In b (blocks st) ->
  0 < W -> words_ok W ws -> W * zlen ws < 2 ^ 64 -> repr W ws (b_used b) -> b_area b = W * zlen ws ->
  let rs := ranges W true ws 0 (W * zlen ws) hint in
  (forall sp j, In sp (b_live b) -> in_span sp j -> exists s e, In (s, e) rs /\ s <= j < e) /\
  (b_pad b = 1 -> exists s e, In (s, e) rs /\ s <= 0 < e) /\
  (forall s e j, In (s, e) rs -> s <= j < e -> (j = 0 /\ b_pad b = 1) \/ covered (b_live b) j).
Proof. exact JitIterB.wipe_covers_live. Qed.
Print Assumptions C09_wipe_covers_live.

Example C09_wipe_instance :
  (* one 8-bit word 0110_0111b: the B = 1 iterator returns [0,3) and [5,7); the B = 0 iterator [3,5) and [7,8) *)
  ranges 8 true [103] 0 8 1000 = [(0, 3); (5, 7)] /\ ranges 8 false [103] 0 8 1000 = [(3, 5); (7, 8)].
Proof. vm_compute. split; reflexivity. Qed.

(* ---------------------------------------------------------------- large pages as an oracle step of JitAllocator_new_block
   (kUseLargePages / kAlignBlockSizeToLargePage; lp = large page size of the host, ok = the large-page mapping succeeded):
   only the byte size of a new block changes; the allocator invariant is preserved for every page size and outcome; without
   large pages alloc_lp IS alloc; with them the block is a whole number of large pages and not smaller *)
Theorem C09_large_pages_invariant : forall c st size lp fl ok, cfg_ok c -> ginv c st -> ginv c (fst (alloc_lp c st size lp fl ok)).
Proof. exact ginv_alloc_lp. Qed.
Print Assumptions C09_large_pages_invariant.

Theorem C09_large_pages_none : forall c st size lp fl ok,
  lp = 0 \/ ok = false -> alloc_lp c st size lp fl ok = alloc c st size.
Proof. exact alloc_lp_none. Qed.
Print Assumptions C09_large_pages_none.

Theorem C09_large_pages_block_size : forall lp fl bytes, 0 < lp -> lp <= bytes \/ fl = true ->
  lp_bytes lp fl true bytes = JitModel.align_up bytes lp /\ bytes <= JitModel.align_up bytes lp /\ (JitModel.align_up bytes lp) mod lp = 0.
Proof. exact lp_bytes_on. Qed.
Print Assumptions C09_large_pages_block_size.

(* the allocator invariant over histories with every oracle: large pages of any size and outcome, failing VM requests *)
Theorem C09_invariant_all_oracles : forall c st, cfg_ok c -> reach_x c st -> ginv c st.
Proof. exact reach_x_ginv. Qed.
Print Assumptions C09_invariant_all_oracles.

Example C09_large_pages_instance :
  map b_bytes (blocks (fst (alloc_lp cfg_lp (init_state cfg_lp) 100 2097152 true true))) = [2097152] /\
  map b_bytes (blocks (fst (alloc_lp cfg_lp (init_state cfg_lp) 100 2097152 false true))) = [131072] /\
  map b_bytes (blocks (fst (alloc_lp cfg_lp (init_state cfg_lp) 3000000 2097152 false true))) = [4194304].
Proof. exact alloc_lp_example. Qed.

(* ---------------------------------------------------------------- translator, round 6: the answer class of the REAL JitAllocator::alloc for
   sizes 0, around 2^31 and around the 2^64 wrap-around (regenerated on every run into coq/gen/JitTables.v) is the class
   C09_alloc_classification computes *)
Theorem C09_alloc_classification_matches_source : forallb check_allocerr JitTables.allocerr_table = true.
Proof. exact JitTables.allocerr_ok. Qed.
Print Assumptions C09_alloc_classification_matches_source.

(* ---------------------------------------------------------------- the hypotheses cfg_ok / cfg_ok_bytes are discharged for every
   configuration JitAllocator can have: ANY CreateParams, normalised as JitAllocator_new_impl does (norm_gran / norm_bsize /
   norm_pools, tied to the source by C09_tables_match_source), on a host whose page granularity is a positive multiple of 1024 *)
Theorem C09_every_configuration_ok : forall g bs multi page_gran pad imm,
  0 < page_gran -> (1024 | page_gran) ->
  cfg_ok_bytes (mkConfig (norm_gran g) (norm_pools multi) (norm_bsize page_gran bs) pad imm fixed).
Proof. exact norm_cfg_ok. Qed.
Print Assumptions C09_every_configuration_ok.

(* ... so, e.g., byte-level containment holds without any hypothesis on the parameters (page granularity 64 KiB as on this host) *)
Theorem C09_span_bytes_inside_any_params : forall g bs multi pad imm st,
  let c := mkConfig (norm_gran g) (norm_pools multi) (norm_bsize 65536 bs) pad imm fixed in
  reach c st ->
  forall b s n, In b (blocks st) -> In (s, n) (b_live b) ->
  let gp := pool_gran c (b_pool b) in
  0 < gp /\ b_pad b * gp <= s * gp /\ s * gp + n * gp <= b_bytes b /\ 1 * gp <= n * gp.
Proof. exact span_bytes_inside_any_params. Qed.
Print Assumptions C09_span_bytes_inside_any_params.

(* ---------------------------------------------------------------- C09_alloc_result without its size hypotheses: for a granularity that
   divides 2^64 (every power of two, i.e. every configuration JitAllocator can have) and EVERY size — negative, huge, wrapping
   around at 2^64 — a successful alloc returns exactly `rounded c size`, which lies in [1, 2^31 - 1], and the span is live,
   aligned, and a new block is created only when no block of the pool has room *)
Theorem C09_alloc_result_any_size : forall c st size st' id off len,
  cfg_ok c -> (c_gran c | JitModel.two64) -> reach c st ->
  alloc c st size = (st', RAlloc Ok id off len) ->
  len = rounded c size /\ 1 <= len <= 2147483647 /\ len mod c_gran c = 0 /\
  exists b, In b (blocks st') /\ b_id b = id /\ b_pool b = size_to_pool c len /\
            off mod pool_gran c (b_pool b) = 0 /\ len mod pool_gran c (b_pool b) = 0 /\
            In (off / pool_gran c (b_pool b), len / pool_gran c (b_pool b)) (b_live b) /\
            (nextid st' <> nextid st ->
             forall b0, In b0 (blocks st) -> b_pool b0 = b_pool b -> no_room b0 (len / pool_gran c (b_pool b))).
Proof. exact alloc_result_any_size. Qed.
Print Assumptions C09_alloc_result_any_size.

Example C09_alloc_result_any_size_hyps_sat : (c_gran cfg_f | JitModel.two64) /\ rounded cfg_f (JitModel.two64 + 100) = 128.
Proof. split; [exists 288230376151711744; reflexivity|vm_compute; reflexivity]. Qed.

(* ---------------------------------------------------------------- soft reset, exactly (completeness direction of C09_reset_clears):
   without kImmediateRelease the blocks after reset(kSoft) are precisely the wiped first blocks of the pools — no other
   block survives, none is invented, and each keeps its identity, pool and mapping (wipe_block changes bit vectors and caches only) *)
Theorem C09_reset_exact : forall c st, cfg_ok c -> reach c st -> c_imm c = false ->
  forall b', In b' (blocks (reset c st false)) <->
             exists q b, 0 <= q < c_pools c /\ first_of_pool q (blocks st) = Some b /\ b' = wipe_block b.
Proof. exact reset_exact. Qed.
Print Assumptions C09_reset_exact.

Example C09_reset_exact_instance :
  let st := run cfg_f (init_state cfg_f) [OAlloc 100; OAlloc 200000; OAlloc 64] in
  map b_id (blocks st) = [0; 1] /\ map b_id (blocks (reset cfg_f st false)) = [0] /\
  map b_live (blocks (reset cfg_f st false)) = [[]].
Proof. vm_compute. repeat split. Qed.

(* ---------------------------------------------------------------- the property in BYTES: in every reachable state the live spans,
   as byte ranges (block, offset, length) = granule span x granularity of the block's pool, are non-empty and any two are the
   same span or disjoint (different block, or one ends before the other starts) *)
Theorem C09_live_bytes_disjoint : forall c st, cfg_ok_bytes c -> reach c st ->
  forall x y, In x (live_bytes c (blocks st)) -> In y (live_bytes c (blocks st)) ->
  1 <= t_len x /\ (x = y \/ disjoint_spans x y).
Proof. exact live_bytes_disjoint. Qed.
Print Assumptions C09_live_bytes_disjoint.

(* the proven judge never rejects the model: every successful alloc of the model passes alloc_ok (size bounds, pool range,
   alignment to the pool granularity, behind the padding, inside the block's bytes, no overlap with ANY byte range live
   before it) — the completeness direction of C09_judge_alloc, so judge and model cannot disagree on an alloc *)
Theorem C09_model_alloc_accepted : forall c st size st' id off len,
  cfg_ok_bytes c -> reach c st -> 1 <= size -> size + c_gran c <= JitModel.two64 ->
  alloc c st size = (st', RAlloc Ok id off len) ->
  exists b, In b (blocks st') /\ b_id b = id /\
    alloc_ok (c_gran c) (c_pools c) (b_pad b) (live_bytes c (blocks st)) size id off len (b_bytes b) (b_pool b) = true.
Proof. exact model_alloc_accepted. Qed.
Print Assumptions C09_model_alloc_accepted.

Example C09_live_bytes_instance :
  live_bytes cfg_f3 (blocks (run cfg_f3 (init_state cfg_f3) [OAlloc 100; OAlloc 65536; OAlloc 64])) =
  [(0, (128, 128)); (1, (256, 65536)); (2, (64, 64))].
Proof. vm_compute. reflexivity. Qed.

(* ... and its bookkeeping for release and shrink is the model's: a release of a live span's start address is found by the
   judge and leaves exactly the model's live byte ranges; a shrinking shrink is found with the old length, the new length
   passes the judge's bounds, and the resulting live byte ranges are the model's *)
Theorem C09_model_release_accepted : forall c st id off b s n,
  cfg_ok_bytes c -> reach c st -> find_block id (blocks st) = Some b ->
  off = s * pool_gran c (b_pool b) -> In (s, n) (b_live b) ->
  existsb (at_start id off) (live_bytes c (blocks st)) = true /\
  forall x, In x (live_bytes c (blocks (fst (release c st id off)))) <->
            In x (filter (fun y => negb (at_start id off y)) (live_bytes c (blocks st))).
Proof. exact model_release_accepted. Qed.
Print Assumptions C09_model_release_accepted.

Theorem C09_model_shrink_accepted : forall c st id off ns b s n,
  cfg_ok_bytes c -> reach c st -> find_block id (blocks st) = Some b ->
  off = s * pool_gran c (b_pool b) -> In (s, n) (b_live b) -> 1 <= ns ->
  let g := pool_gran c (b_pool b) in
  let m := (ns + g - 1) / g in
  m < n ->
  (exists y, find (at_start id off) (live_bytes c (blocks st)) = Some y /\ t_len y = n * g) /\
  1 <= m * g <= n * g /\
  snd (shrink c st id off ns) = RShrink Ok id (m * g) /\
  forall x, In x (live_bytes c (blocks (fst (shrink c st id off ns)))) <->
            x = (id, (off, m * g)) \/ In x (filter (fun y => negb (at_start id off y)) (live_bytes c (blocks st))).
Proof. exact model_shrink_accepted. Qed.
Print Assumptions C09_model_shrink_accepted.

Example C09_model_trace_accepted_instance :
  let st := run cfg_f3 (init_state cfg_f3) [OAlloc 100; OAlloc 65536; OAlloc 64; OShrink 1 256 1000; ORelease 0 128] in
  live_bytes cfg_f3 (blocks st) = [(1, (256, 1024)); (2, (64, 64))] /\
  spec_run 64 3 1 [] [EAlloc 100 0 128 128 65536 1; EAlloc 65536 1 256 65536 131072 2; EAlloc 64 2 64 64 65536 0;
                      EShrink 1 256 1024; ERelease 0 128] 0 = Datatypes.inr [(1, (256, 1024)); (2, (64, 64))].
Proof. vm_compute. split; reflexivity. Qed.

(* ---------------------------------------------------------------- every block carries the configured padding (0 or 1 granule) *)
Theorem C09_block_padding : forall c st, cfg_ok c -> reach c st -> forall b, In b (blocks st) -> b_pad b = cpad c.
Proof. exact reach_pad. Qed.
Print Assumptions C09_block_padding.

(* alloc in bytes: the live byte ranges after a successful alloc are exactly the old ones plus the returned (block, offset, length) *)
Theorem C09_alloc_bytes_frame : forall c st size st' id off len,
  cfg_ok_bytes c -> reach c st -> 1 <= size -> size + c_gran c <= JitModel.two64 ->
  alloc c st size = (st', RAlloc Ok id off len) ->
  forall x, In x (live_bytes c (blocks st')) <-> x = (id, (off, len)) \/ In x (live_bytes c (blocks st)).
Proof. exact model_alloc_bytes_frame. Qed.
Print Assumptions C09_alloc_bytes_frame.

(* the model REFINES the proven judge, over whole histories of any length: for every history whose release/shrink pointers are
   exactly what alloc returned (exact_run: what the correspondence harness issues), the trace of the model's own answers
   (trace: EAlloc with block bytes and pool, ERelease, EShrink with the answered length, EReset) is accepted by spec_run to
   the end, and the judge's final live set has exactly the members of the model's live byte ranges.  With C09_judge_sound
   this is the byte-level statement of the property for the model derived a second, independent way; for the check it means
   a judge rejection on a history on which implementation and model agree is impossible (fewer unexplained reports). *)
Theorem C09_model_trace_accepted : forall c ops, cfg_ok_bytes c -> exact_run c (init_state c) ops ->
  exists live', spec_run (c_gran c) (c_pools c) (cpad c) [] (trace c (init_state c) ops) 0 = Datatypes.inr live' /\
                sim c (run c (init_state c) ops) live'.
Proof. exact model_history_accepted. Qed.
Print Assumptions C09_model_trace_accepted.

Example C09_model_trace_accepted_hyps_sat :
  let ops := [OAlloc 100; OAlloc 65536; OAlloc 64; OShrink 1 256 1000; ORelease 0 128; OAlloc 2147483648; OReset false; OAlloc 64] in
  exact_run cfg_f3 (init_state cfg_f3) ops /\
  trace cfg_f3 (init_state cfg_f3) ops =
    [EAlloc 100 0 128 128 131072 1; EAlloc 65536 1 256 65536 131072 2; EAlloc 64 2 64 64 131072 0;
     EShrink 1 256 1024; ERelease 0 128; EReset; EAlloc 64 2 64 64 131072 0].
Proof.
  split; [|vm_compute; reflexivity].
  cbn [exact_run]. repeat split; try (vm_compute; congruence).
  - eexists _, 1, 256. split; [vm_compute; reflexivity|]. split; [vm_compute; reflexivity|]. vm_compute. auto.
  - eexists _, 1, 1. split; [vm_compute; reflexivity|]. split; [vm_compute; reflexivity|]. vm_compute. auto.
Qed.

(* ---------------------------------------------------------------- round 7: the size hypotheses of C09_alloc_frame, alloc_fresh,
   C09_alloc_bytes_frame and C09_model_alloc_accepted discharged — every integer size (negative, huge, wrapping at 2^64), for a
   granularity that divides 2^64 (every configuration JitAllocator can have, C09_every_configuration_ok) *)
Theorem C09_alloc_frame_any_size : forall c st size st' id off len,
  cfg_ok c -> (c_gran c | JitModel.two64) -> reach c st -> alloc c st size = (st', RAlloc Ok id off len) ->
  let g := pool_gran c (size_to_pool c len) in
  (forall x, In x (all_live (blocks st')) <-> x = (id, (off / g, len / g)) \/ In x (all_live (blocks st))) /\
  ~ In (id, (off / g, len / g)) (all_live (blocks st)).
Proof. exact alloc_frame_any_size. Qed.
Print Assumptions C09_alloc_frame_any_size.

(* in bytes, and judged: the live byte ranges grow by exactly the answer, and the answer passes the proven judge's alloc_ok
   against the rounded request *)
Theorem C09_alloc_bytes_any_size : forall c st size st' id off len,
  cfg_ok_bytes c -> (c_gran c | JitModel.two64) -> reach c st -> alloc c st size = (st', RAlloc Ok id off len) ->
  (forall x, In x (live_bytes c (blocks st')) <-> x = (id, (off, len)) \/ In x (live_bytes c (blocks st))) /\
  exists b, In b (blocks st') /\ b_id b = id /\
    alloc_ok (c_gran c) (c_pools c) (cpad c) (live_bytes c (blocks st)) (rounded c size) id off len (b_bytes b) (b_pool b) = true.
Proof. exact alloc_bytes_any_size. Qed.
Print Assumptions C09_alloc_bytes_any_size.

(* sequence-level lifts: an exact history never leaves reach; after any exact history, an alloc of ANY size that succeeds
   returns a non-empty byte range disjoint from every byte range handed out earlier and still live *)
Theorem C09_exact_history_reachable : forall c, cfg_ok_bytes c -> forall ops st, reach c st -> exact_run c st ops -> reach c (run c st ops).
Proof. exact exact_run_reach. Qed.
Print Assumptions C09_exact_history_reachable.

Theorem C09_history_alloc_disjoint : forall c ops size, cfg_ok_bytes c -> (c_gran c | JitModel.two64) -> exact_run c (init_state c) ops ->
  forall st' id off len, alloc c (run c (init_state c) ops) size = (st', RAlloc Ok id off len) ->
  1 <= len /\ forall y, In y (live_bytes c (blocks (run c (init_state c) ops))) -> disjoint_spans (id, (off, len)) y.
Proof. exact history_alloc_disjoint. Qed.
Print Assumptions C09_history_alloc_disjoint.

(* non-vacuity: a request that wraps at 2^64 succeeds after a non-trivial exact history and lands behind the live spans *)
Example C09_any_size_instance :
  let ops := [OAlloc 100; OAlloc 64; ORelease 0 64] in
  exact_run cfg_f (init_state cfg_f) ops /\
  snd (alloc cfg_f (run cfg_f (init_state cfg_f) ops) (JitModel.two64 + 100)) = RAlloc Ok 0 64 128 /\
  live_bytes cfg_f (blocks (run cfg_f (init_state cfg_f) ops)) = [(0, (192, 64))].
Proof.
  split; [|vm_compute; split; reflexivity].
  cbn [exact_run]. repeat split; try (vm_compute; congruence).
  eexists _, 1, 2. split; [vm_compute; reflexivity|]. split; [vm_compute; reflexivity|]. vm_compute. auto.
Qed.

(* C12, part 2: theorems by reflection over the x86 RW tables dumped from the working tree and the cases generated from db/isa_x86.json
   (coq/gen/C12_X86*.v, proofs in coq/gen/C12_X86Cover.v). *)
From Coq Require Import NArith ZArith List Bool.
From Verif Require Import RwInfo.RwModel RwInfo.FeatModel RwInfo.RwSpec RwInfo.RwProofs RwInfo.RegWrite RwInfo.RegWriteProofs RwInfo.A64RwModel RwInfo.A64RwProofs RwInfo.FeatProofs.
From VerifGen Require Import C12_X86RwTables C12_X86Cases_rm_bad C12_X86Cases_cover_bad C12_X86Cover.
Import ListNotations.
Local Open Scope N_scope.

(* The generated case lists (sizes of this snapshot). *)
Theorem C12_case_counts : exists n_ok n_rm_bad n_cover_bad,
  (N.of_nat (length x86_cases_ok), N.of_nat (length x86_cases_rm_bad), N.of_nat (length x86_cases_cover_bad)) = (n_ok, n_rm_bad, n_cover_bad) /\
  0 < n_ok.
Proof. eexists _, _, _. split; [exact x86_case_counts | reflexivity]. Qed.
Print Assumptions C12_case_counts.

(* covers_db: for every validator-accepted operand tuple built from every form of the ISA database that AsmJit's tables contain
   (lists x86_cases_ok ++ x86_cases_rm_bad of coq/gen), the model of query_rw_info over the dumped tables answers, and its answer
   covers the database in the sense of RwSpec.covers: read/written operands flagged, reported read bytes include the database's,
   reported written+extended bytes include every byte that changes (exactly those for general-purpose registers), fixed registers
   with their ids, consecutive-register leads and followers, CPU flags read/written, {k} read, merge-masked destination read. *)
Theorem C12_covers_db : forall c, In c (x86_cases_ok ++ x86_cases_rm_bad) ->
  exists out, query_rw_info x86_tables (c_q c) = Some out /\ covers c out.
Proof. exact x86_covers_db. Qed.
Print Assumptions C12_covers_db.

(* FALSE for the cases of x86_cases_cover_bad (known findings): 32-bit mode partial writes into r32, `mov r16, sreg`. *)
Theorem C12_covers_db_refuted : forall c, In c x86_cases_cover_bad -> case_covered x86_tables c = false.
Proof. exact x86_covers_db_refuted. Qed.
Print Assumptions C12_covers_db_refuted.

(* rm_replaceable: for every register-only tuple of x86_cases_ok, an operand reported kRegMem with size s has a database form
   with an s-byte memory operand at that position, the same access, and the other operands unchanged. *)
Theorem C12_rm_replaceable : forall c, In c x86_cases_ok -> c_rmcheck c = true ->
  exists out, query_rw_info x86_tables (c_q c) = Some out /\ rm_claims_true c out.
Proof. exact x86_rm_replaceable. Qed.
Print Assumptions C12_rm_replaceable.

(* FALSE for x86_cases_rm_bad (known findings, DESIGN 7.25): kmov*, movd/movq/vmovd/vmovq/vmovw with a GP operand, three-register
   vpermil*/vpermpd/q/vpsll*/vpsra*/vpsrl*. *)
Theorem C12_rm_replaceable_refuted : forall c, In c x86_cases_rm_bad ->
  case_rm_ok x86_tables c && case_rmfeat_ok x86_tables x86_feat_consts c = false.
Proof. exact x86_rm_replaceable_refuted. Qed.
Print Assumptions C12_rm_replaceable_refuted.

(* query_features: for every case (all three lists; tuples with vector register / vector index ids 16 and 31 included) the model of
   x86 query_features over the dumped tables answers, and the reported feature set contains every extension of at least one database
   form the tuple matches (only EVEX forms match a register id 16..31; AVX512_VL is not required with a 512-bit register or index).
   Cases recorded as findings (c_featcheck = false; none in this snapshot) are refuted instead. *)
Theorem C12_features_cover_db : forall c, In c (x86_cases_ok ++ x86_cases_rm_bad ++ x86_cases_cover_bad) ->
  (c_featcheck c = true -> exists rep, query_features x86_tables x86_feat_consts (c_q c) = Some rep /\ features_cover c rep) /\
  (c_featcheck c = false -> case_feat_ok x86_tables x86_feat_consts c = false).
Proof. exact x86_features_cover_db. Qed.
Print Assumptions C12_features_cover_db.

(* rm_feature: for every register-only tuple, an operand reported kRegMem with size s has a database form with an s-byte memory operand at
   that position whose extensions are all among the features query_features reports for the register tuple plus the reported rm_feature
   (so the allocator's test "rm_feature available" is sufficient before it rewrites the operand into memory). *)
Theorem C12_rm_feature_covers_db : forall c, In c x86_cases_ok -> c_rmcheck c = true ->
  exists out feats, query_rw_info x86_tables (c_q c) = Some out /\ query_features x86_tables x86_feat_consts (c_q c) = Some feats /\
                    rm_feature_claims_true x86_feat_consts c out feats.
Proof. exact x86_rm_feature_covers_db. Qed.
Print Assumptions C12_rm_feature_covers_db.

(* ---------------------------------------------------------------- non-vacuity of the universal theorems on the tables of the working tree *)
(* the vector group's entry of the dumped rw_reg_group_byte_mask_table is all ones (hypothesis of C12_generic_path_vec_masks) *)
Example C12_vec_group_mask_is_all_ones : group_byte_mask x86_tables grp_vec = ones64.
Proof. vm_compute. reflexivity. Qed.

(* there are RW records with a write flag and no explicit write mask (hypotheses of C12_generic_path_gp_masks), and with the ZExt mark *)
Definition plain_write_record (zext : bool) (row : rw_row) : bool :=
  let dsc := nthN (t_op x86_tables) (nth 0 (rr_ops row) 0) d_op in
  test (clear (or_flags dsc) fZExt) fW && (or_w dsc =? 0) && (if zext then test (or_flags dsc) fZExt else true).
Example C12_generic_path_masks_nonvacuous :
  (exists row, In row (t_rwa x86_tables) /\ plain_write_record false row = true) /\
  (exists row, In row (t_rwa x86_tables) /\ plain_write_record true row = true).
Proof.
  split.
  - destruct (find (plain_write_record false) (t_rwa x86_tables)) as [r|] eqn:E; [|vm_compute in E; discriminate].
    apply find_some in E. exists r. exact E.
  - destruct (find (plain_write_record true) (t_rwa x86_tables)) as [r|] eqn:E; [|vm_compute in E; discriminate].
    apply find_some in E. exists r. exact E.
Qed.

(* the hypotheses of C12_features_no_vl_with_zmm hold for a case of the snapshot (a tuple with a 512-bit register and a feature list) *)
Definition zmm_case (c : case) : bool :=
  has_rt (fst (reg_analysis (q_arch64 (c_q c)) (q_ops (c_q c)))) rt_vec512 &&
  match query_features x86_tables x86_feat_consts (c_q c) with Some (_ :: _) => true | _ => false end.
Example C12_features_no_vl_with_zmm_nonvacuous : exists c, In c x86_cases_ok /\ zmm_case c = true.
Proof.
  destruct (find zmm_case x86_cases_ok) as [c|] eqn:E; [|vm_compute in E; discriminate].
  apply find_some in E. exists c. exact E.
Qed.

(* explicit forms exist whose record has exactly as many entries as operands (hypothesis of C12_select_row_explicit) *)
Example C12_select_row_explicit_nonvacuous : exists ii, In ii (t_inst x86_tables) /\
  entry_count (nthN (t_rwa x86_tables) (ir_a ii) d_rw) = 2%nat.
Proof.
  destruct (find (fun ii => Nat.eqb (entry_count (nthN (t_rwa x86_tables) (ir_a ii) d_rw)) 2) (t_inst x86_tables)) as [ii|] eqn:E;
    [|vm_compute in E; discriminate].
  apply find_some in E as [I H]. exists ii. split; [exact I | apply Nat.eqb_eq; exact H].
Qed.

(* non-vacuity of C12_features_one_encoding_family: the tables contain instructions whose feature list names both families (so the refinement
   really has to choose) *)
Example C12_features_one_encoding_family_nonvacuous :
  existsb (fun ad => has_any (take_nonzero (ad_feat ad)) (avx_class x86_feat_consts) &&
                     has_any (take_nonzero (ad_feat ad)) (avx512_class x86_feat_consts)) (t_addl x86_tables) = true.
Proof. vm_compute. reflexivity. Qed.

(* the tables of the working tree contain both encoding classes (vexlike true / false in RwModel.generic) *)
Example C12_legacy_and_vex_instructions_exist :
  existsb (fun ii => test (ir_cflags ii) (t_vex_flags x86_tables)) (t_inst x86_tables) = true /\
  existsb (fun ii => negb (test (ir_cflags ii) (t_vex_flags x86_tables))) (t_inst x86_tables) = true.
Proof. split; vm_compute; reflexivity. Qed.

(* the exactness clause of C12_covers_db (nothing outside the bytes that change may be reported written or
   extended) is exercised on legacy SSE vector destinations: a snapshot case exists whose first operand is an
   xmm register written in its low 8 bytes only (movlps / movlpd xmm, m64 keep bytes 8..15) and whose
   expectation is exact; C12_covers_db then says the model reports write|extend inside 0xFF for it *)
Definition legacy_low_half_case (c : case) : bool :=
  match q_ops (c_q c), c_exp c with
  | OReg rt _ :: OMem 8 _ _ :: nil, e :: _ => (rt =? rt_vec128) && e_gpexact e && e_write e && (e_changed e =? 255)
  | _, _ => false
  end.
Example C12_exactness_on_legacy_vector_destinations : exists c, In c x86_cases_ok /\ legacy_low_half_case c = true /\
  exists out, query_rw_info x86_tables (c_q c) = Some out /\ covers c out.
Proof.
  destruct (find legacy_low_half_case x86_cases_ok) as [c|] eqn:E; [|vm_compute in E; discriminate].
  apply find_some in E. destruct E as [Hin Hc]. exists c. split; [exact Hin|]. split; [exact Hc|].
  apply C12_covers_db. apply in_or_app. left. exact Hin.
Qed.
Print Assumptions C12_exactness_on_legacy_vector_destinations.

(* exactness is also exercised on memory destinations and on unwritten vector sources: a snapshot case exists with an exact written memory
   operand, and one with an exact unwritten xmm source (C12_covers_db then forbids the W flag on it) *)
Definition exact_mem_dest_case (c : case) : bool :=
  match q_ops (c_q c), c_exp c with
  | OMem _ _ _ :: _, e :: _ => e_gpexact e && e_write e
  | _, _ => false
  end.
Definition exact_unwritten_vec_case (c : case) : bool :=
  match q_ops (c_q c), c_exp c with
  | _ :: OReg rt _ :: _, _ :: e :: _ => (rt =? rt_vec128) && e_gpexact e && negb (e_write e)
  | _, _ => false
  end.
Example C12_exactness_on_memory_and_sources :
  existsb exact_mem_dest_case x86_cases_ok = true /\ existsb exact_unwritten_vec_case x86_cases_ok = true.
Proof. split; vm_compute; reflexivity. Qed.
Print Assumptions C12_exactness_on_memory_and_sources.

(* ------------------------------------------------------------------ round 6: non-vacuity on the tables of the working tree *)
From Verif Require Import RwInfo.CompleteProofs RwInfo.RegWrite RwInfo.RegWriteProofs.

(* C12_features_only_from_record is not an identity: for some snapshot tuple the refinement really removes alternatives (the reported
   list is strictly shorter than the instruction's record) *)
Definition feat_refined_case (c : case) : bool :=
  match query_features x86_tables x86_feat_consts (c_q c) with
  | Some rep => Nat.ltb (length rep)
      (length (take_nonzero (ad_feat (nthN (t_addl x86_tables) (ir_addl (nthN (t_inst x86_tables) (q_id (c_q c)) d_inst)) d_addl))))
  | None => false end.
Example C12_features_only_from_record_nonvacuous : exists c, In c x86_cases_ok /\ feat_refined_case c = true.
Proof.
  destruct (find feat_refined_case x86_cases_ok) as [c|] eqn:E; [|vm_compute in E; discriminate].
  apply find_some in E. exists c. exact E.
Qed.

(* C12_implicit_map_spec: records with fixed registers that match a shorter operand list exist (div r/m, cmpxchg ...) *)
Example C12_implicit_map_spec_nonvacuous : exists ii nops m, In ii (t_inst x86_tables) /\
  implicit_map x86_tables (nthN (t_rwb x86_tables) (ir_b ii) d_rw) nops = Some m.
Proof.
  destruct (find (fun ii => match implicit_map x86_tables (nthN (t_rwb x86_tables) (ir_b ii) d_rw) 1 with Some _ => true | None => false end)
                 (t_inst x86_tables)) as [ii|] eqn:E; [|vm_compute in E; discriminate].
  apply find_some in E as [I H]. exists ii, 1%nat.
  destruct (implicit_map x86_tables (nthN (t_rwb x86_tables) (ir_b ii) d_rw) 1) as [m|]; [|discriminate].
  exists m. split; [exact I | reflexivity].
Qed.

(* hypotheses of C12_whole_path_gp_masks / C12_generic_path_vec_masks_any_table hold for entries of the dumped operand table (written, no
   explicit write mask; with and without the ZExt mark), and reg/mem records with and without the movss/movsd flag exist *)
Example C12_whole_path_hypotheses_nonvacuous :
  existsb (fun d => test (clear (or_flags d) fZExt) fW && (or_w d =? 0) && test (or_flags d) fZExt) (t_op x86_tables) = true /\
  existsb (fun d => test (clear (or_flags d) fZExt) fW && (or_w d =? 0) && negb (test (or_flags d) fZExt)) (t_op x86_tables) = true /\
  existsb (fun r => test (rm_flags r) rmFlagMovssMovsd) (t_rm x86_tables) = true /\
  existsb (fun r => negb (test (rm_flags r) rmFlagMovssMovsd)) (t_rm x86_tables) = true.
Proof. repeat split; vm_compute; reflexivity. Qed.
Print Assumptions C12_features_only_from_record_nonvacuous.
Print Assumptions C12_implicit_map_spec_nonvacuous.
Print Assumptions C12_whole_path_hypotheses_nonvacuous.


(* C12_query_rw_info_gp_masks is not vacuous: a snapshot tuple exists that query_rw_info answers through a generic record, whose operand 0
   is a 32-bit general-purpose register, written, without an explicit write mask in the table, in 64-bit mode - and the theorem's conclusion
   is instantiated on it (write mask 0x0F, extend mask 0xF0) *)
Definition gp32_generic_case (c : case) : bool :=
  let q := c_q c in
  let ro := select_row x86_tables (nthN (t_inst x86_tables) (q_id q) d_inst) (length (q_ops q)) in
  let dsc := nthN (t_op x86_tables) (nth (nth 0 (snd ro) 0%nat) (rr_ops (fst ro)) 0) d_op in
  (selected_category x86_tables q <=? 1) && q_arch64 q &&
  match q_ops q with OReg 5 _ :: _ => true | _ => false end &&
  test (clear (or_flags dsc) fZExt) fW && (or_w dsc =? 0) &&
  negb (test (rm_flags (nthN (t_rm x86_tables) (rr_rm (fst ro)) d_rm)) rmFlagMovssMovsd) &&
  match query_rw_info x86_tables q with Some _ => true | None => false end.
Example C12_query_rw_info_gp_masks_nonvacuous : exists c out, In c x86_cases_ok /\ gp32_generic_case c = true /\
  query_rw_info x86_tables (c_q c) = Some out /\ o_w (nth 0 (i_ops out) op_zero) = 15 /\ o_e (nth 0 (i_ops out) op_zero) = 240.
Proof.
  destruct (find gp32_generic_case x86_cases_ok) as [c|] eqn:E; [|vm_compute in E; discriminate].
  apply find_some in E as [I H]. exists c.
  pose proof H as H0. unfold gp32_generic_case in H0. cbv zeta in H0.
  repeat (apply andb_true_iff in H0; destruct H0 as [H0 ?]).
  destruct (query_rw_info x86_tables (c_q c)) as [out|] eqn:Q; [|discriminate].
  exists out. split; [exact I|]. split; [exact H|]. split; [reflexivity|].
  destruct (q_ops (c_q c)) as [|[|rt id| | |] r] eqn:O; try discriminate.
  assert (rt = 5) by (destruct rt as [|[[[|[]|]|[]|]|[[]|[]|]|]]; try discriminate; reflexivity). subst rt.
  apply N.leb_le in H0.
  destruct (query_rw_info_gp_masks x86_tables (c_q c) out 0%nat D32 id Q H0) as [W X].
  - rewrite O. simpl. apply Nat.lt_0_succ.
  - rewrite O. reflexivity.
  - rewrite O. assumption.
  - rewrite O. apply N.eqb_eq. assumption.
  - rewrite W, X.
    + match goal with HA : q_arch64 (c_q c) = true |- _ => rewrite HA end. split; reflexivity.
    + rewrite O. apply negb_true_iff. assumption.
Qed.
Print Assumptions C12_query_rw_info_gp_masks_nonvacuous.

(* C12_memory_never_extended_top_level / C12_one_record_per_operand: tuples with memory operands answered by a special category exist *)
Definition special_mem_case (c : case) : bool :=
  (1 <? selected_category x86_tables (c_q c)) && negb (selected_category x86_tables (c_q c) =? 4) &&
  existsb is_mem (q_ops (c_q c)) && match query_rw_info x86_tables (c_q c) with Some _ => true | None => false end.
(* shard 0 holds "mov" (crc32 of the mnemonic mod 8), so the search is short *)
Example C12_top_level_nonvacuous : exists c, In c x86_cases_ok /\ special_mem_case c = true.
Proof.
  destruct (find special_mem_case C12_X86Cases_0.x86_cases_0) as [c|] eqn:E; [|vm_compute in E; discriminate].
  apply find_some in E as [I H]. exists c. split; [|exact H]. unfold x86_cases_ok. apply in_or_app. left. exact I.
Qed.
Print Assumptions C12_top_level_nonvacuous.

(* C12_source_operands_returned_as_tabled: both alternatives occur on snapshot tuples answered by the generic path - a source operand returned
   untouched, and one returned with kRegMem and a memory size added *)
Definition src_case (regm : bool) (c : case) : bool :=
  (selected_category x86_tables (c_q c) <=? 1) && Nat.leb 2 (length (q_ops (c_q c))) &&
  match query_rw_info x86_tables (c_q c) with
  | Some out => Bool.eqb (test (o_flags (nth 1 (i_ops out) op_zero)) fRegM) regm
  | None => false end.
Example C12_source_operands_nonvacuous :
  (exists c, In c x86_cases_ok /\ src_case true c = true) /\ (exists c, In c x86_cases_ok /\ src_case false c = true).
Proof.
  split.
  - destruct (find (src_case true) x86_cases_ok) as [c|] eqn:E; [|vm_compute in E; discriminate]. apply find_some in E. exists c. exact E.
  - destruct (find (src_case false) x86_cases_ok) as [c|] eqn:E; [|vm_compute in E; discriminate]. apply find_some in E. exists c. exact E.
Qed.
Print Assumptions C12_source_operands_nonvacuous.

(* C12_read_dropped_only_when_unused / C12_merge_masking_whole_path on snapshot tuples (shard 5 holds vpternlogd): a vpternlog tuple whose
   destination is returned NOT read (equal nibbles, no {k}), and a {k}-merging tuple whose destination is returned read with read mask
   covering the write mask *)
Definition ternlog_unread_case (c : case) : bool :=
  existsb (N.eqb (q_id (c_q c))) (t_ternlog x86_tables) && negb (q_extra_mask (c_q c)) &&
  match query_rw_info x86_tables (c_q c) with
  | Some out => negb (test (o_flags (nth 0 (i_ops out) op_zero)) fR) && test (o_flags (nth 0 (i_ops out) op_zero)) fW
  | None => false end.
Definition merging_case (c : case) : bool :=
  q_extra_mask (c_q c) && negb (test (q_options (c_q c)) optZMask) && (selected_category x86_tables (c_q c) <=? 1) &&
  match query_rw_info x86_tables (c_q c) with
  | Some out => let o := nth 0 (i_ops out) op_zero in
                test (o_flags o) fR && (N.land (o_w o) (o_r o) =? o_w o) && negb (o_w o =? 0) && test (o_flags (i_extra out)) fR
  | None => false end.
Example C12_ternlog_and_merging_nonvacuous :
  (exists c, In c x86_cases_ok /\ ternlog_unread_case c = true) /\ (exists c, In c x86_cases_ok /\ merging_case c = true).
Proof.
  assert (S5 : forall c, In c C12_X86Cases_5.x86_cases_5 -> In c x86_cases_ok).
  { intros c I. unfold x86_cases_ok. do 5 (apply in_or_app; right). apply in_or_app. left. exact I. }
  split.
  - destruct (find ternlog_unread_case C12_X86Cases_5.x86_cases_5) as [c|] eqn:E; [|vm_compute in E; discriminate].
    apply find_some in E as [I H]. exists c. split; [apply S5; exact I | exact H].
  - destruct (find merging_case C12_X86Cases_5.x86_cases_5) as [c|] eqn:E; [|vm_compute in E; discriminate].
    apply find_some in E as [I H]. exists c. split; [apply S5; exact I | exact H].
Qed.
Print Assumptions C12_ternlog_and_merging_nonvacuous.

(* C12_query_rw_info_legacy_sse / C12_query_rw_info_regmem_only_on_registers: a snapshot tuple of a legacy SSE instruction (not VEX/EVEX/XOP) with
   a vector register destination answered through a generic record exists, and its second operand is returned with kRegMem *)
Definition legacy_vec_top_case (c : case) : bool :=
  let q := c_q c in
  (selected_category x86_tables q <=? 1) && negb (test (ir_cflags (nthN (t_inst x86_tables) (q_id q) d_inst)) (t_vex_flags x86_tables)) &&
  match q_ops q with OReg 11 _ :: OReg 11 _ :: nil => true | _ => false end &&
  match query_rw_info x86_tables q with
  | Some out => test (o_flags (nth 1 (i_ops out) op_zero)) fRegM && negb (test (o_flags (nth 0 (i_ops out) op_zero)) fRegM) &&
                (N.land (o_e (nth 0 (i_ops out) op_zero)) (not64 (lsb_mask 16)) =? 0)
  | None => false end.
Example C12_query_rw_info_legacy_sse_nonvacuous : exists c, In c x86_cases_ok /\ legacy_vec_top_case c = true.
Proof.
  destruct (find legacy_vec_top_case C12_X86Cases_0.x86_cases_0) as [c|] eqn:E; [|vm_compute in E; discriminate].
  apply find_some in E as [I H]. exists c. split; [|exact H]. unfold x86_cases_ok. apply in_or_app. left. exact I.
Qed.
Print Assumptions C12_query_rw_info_legacy_sse_nonvacuous.

(* the special categories the per-category theorems of Properties_C12.v speak about (mov, movabs, imul, movh64, punpcklxx, vmaskmov, vmovddup,
   vmovmskpd/ps, narrowing and widening moves) are all selected by records of the dumped tables *)
Example C12_special_categories_are_used :
  forallb (fun c => existsb (fun r => rr_cat r =? c) (t_rwa x86_tables ++ t_rwb x86_tables)) [2; 3; 4; 5; 6; 7; 8; 9; 10; 11; 12; 13; 14; 15; 16] = true.
Proof. vm_compute. reflexivity. Qed.
Print Assumptions C12_special_categories_are_used.

(* round 7: instructions of the narrowing-move categories that are NOT implicitly zeroing exist in the dumped tables (so both branches of
   C12_narrowing_moves_masked occur), and widening-move instructions exist *)
Example C12_masked_move_categories_nonvacuous :
  existsb (fun ii => let c := rr_cat (nthN (t_rwa x86_tables) (ir_a ii) d_rw) in (11 <=? c) && (c <=? 13) && negb (test (ir_avx512 ii) kImplicitZ))
          (t_inst x86_tables) = true /\
  existsb (fun ii => let c := rr_cat (nthN (t_rwa x86_tables) (ir_a ii) d_rw) in (14 <=? c) && (c <=? 16)) (t_inst x86_tables) = true.
Proof. split; vm_compute; reflexivity. Qed.
Print Assumptions C12_masked_move_categories_nonvacuous.

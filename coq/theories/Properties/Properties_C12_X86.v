(* C12, part 2: theorems by reflection over the x86 RW tables dumped from the working tree and the cases generated from db/isa_x86.json
   (coq/gen/C12_X86*.v, proofs in coq/gen/C12_X86Cover.v). *)
From Coq Require Import NArith ZArith List Bool.
From Verif Require Import RwInfo.RwModel RwInfo.FeatModel RwInfo.RwSpec RwInfo.RwProofs RwInfo.RegWrite RwInfo.RegWriteProofs RwInfo.A64RwModel RwInfo.A64RwProofs RwInfo.FeatProofs.
From VerifGen Require Import C12_X86RwTables C12_X86Cases_rm_bad C12_X86Cases_cover_bad C12_X86Cover.
Import ListNotations.
Local Open Scope N_scope.

(* The generated case lists (sizes of this snapshot). *)
Theorem C12_case_counts : exists n_ok n_rm_bad n_cover_bad,
  (N.of_nat (length x86_cases_ok), N.of_nat (length x86_cases_rm_bad), N.of_nat (length x86_cases_cover_bad)) = (n_ok, n_rm_bad, n_cover_bad) /\
  0 < n_ok.
Proof. eexists _, _, _. split; [exact x86_case_counts | reflexivity]. Qed.
Print Assumptions C12_case_counts.

(* covers_db: for every validator-accepted operand tuple built from every form of the ISA database that AsmJit's tables contain
   (lists x86_cases_ok ++ x86_cases_rm_bad of coq/gen), the model of query_rw_info over the dumped tables answers, and its answer
   covers the database in the sense of RwSpec.covers: read/written operands flagged, reported read bytes include the database's,
   reported written+extended bytes include every byte that changes (exactly those for general-purpose registers), fixed registers
   with their ids, consecutive-register leads and followers, CPU flags read/written, {k} read, merge-masked destination read. *)
Theorem C12_covers_db : forall c, In c (x86_cases_ok ++ x86_cases_rm_bad) ->
  exists out, query_rw_info x86_tables (c_q c) = Some out /\ covers c out.
Proof. exact x86_covers_db. Qed.
Print Assumptions C12_covers_db.

(* FALSE for the cases of x86_cases_cover_bad (known findings): 32-bit mode partial writes into r32, `mov r16, sreg`. *)
Theorem C12_covers_db_refuted : forall c, In c x86_cases_cover_bad -> case_covered x86_tables c = false.
Proof. exact x86_covers_db_refuted. Qed.
Print Assumptions C12_covers_db_refuted.

(* rm_replaceable: for every register-only tuple of x86_cases_ok, an operand reported kRegMem with size s has a database form
   with an s-byte memory operand at that position, the same access, and the other operands unchanged. *)
Theorem C12_rm_replaceable : forall c, In c x86_cases_ok -> c_rmcheck c = true ->
  exists out, query_rw_info x86_tables (c_q c) = Some out /\ rm_claims_true c out.
Proof. exact x86_rm_replaceable. Qed.
Print Assumptions C12_rm_replaceable.

(* FALSE for x86_cases_rm_bad (known findings, DESIGN 7.25): kmov*, movd/movq/vmovd/vmovq/vmovw with a GP operand, three-register
   vpermil*/vpermpd/q/vpsll*/vpsra*/vpsrl*. *)
Theorem C12_rm_replaceable_refuted : forall c, In c x86_cases_rm_bad ->
  case_rm_ok x86_tables c && case_rmfeat_ok x86_tables x86_feat_consts c = false.
Proof. exact x86_rm_replaceable_refuted. Qed.
Print Assumptions C12_rm_replaceable_refuted.

(* query_features: for every case (all three lists; tuples with vector register / vector index ids 16 and 31 included) the model of
   x86 query_features over the dumped tables answers, and the reported feature set contains every extension of at least one database
   form the tuple matches (only EVEX forms match a register id 16..31; AVX512_VL is not required with a 512-bit register or index).
   Cases recorded as findings (c_featcheck = false; none in this snapshot) are refuted instead. *)
Theorem C12_features_cover_db : forall c, In c (x86_cases_ok ++ x86_cases_rm_bad ++ x86_cases_cover_bad) ->
  (c_featcheck c = true -> exists rep, query_features x86_tables x86_feat_consts (c_q c) = Some rep /\ features_cover c rep) /\
  (c_featcheck c = false -> case_feat_ok x86_tables x86_feat_consts c = false).
Proof. exact x86_features_cover_db. Qed.
Print Assumptions C12_features_cover_db.

(* rm_feature: for every register-only tuple, an operand reported kRegMem with size s has a database form with an s-byte memory operand at
   that position whose extensions are all among the features query_features reports for the register tuple plus the reported rm_feature
   (so the allocator's test "rm_feature available" is sufficient before it rewrites the operand into memory). *)
Theorem C12_rm_feature_covers_db : forall c, In c x86_cases_ok -> c_rmcheck c = true ->
  exists out feats, query_rw_info x86_tables (c_q c) = Some out /\ query_features x86_tables x86_feat_consts (c_q c) = Some feats /\
                    rm_feature_claims_true x86_feat_consts c out feats.
Proof. exact x86_rm_feature_covers_db. Qed.
Print Assumptions C12_rm_feature_covers_db.

(* C04 — executable model of CodeHolder::relocate_to_base (core/codeholder.cpp) incl. the x86-64 address table, and the small
   reference semantics (run-time meaning) of the five relocation idioms.  No proofs in this file.
   All positions are relative to the image start unless they are called absolute; `base` is the address the image is placed at.
   The model describes the behaviour after fixes/C04-addrtab-size.patch (the table contents are always part of the image). *)
From Coq Require Import ZArith List Bool.
From Verif Require Import Codec.OffsetModel Labels.LabelsModel.
Import ListNotations.
Local Open Scope Z_scope.

Inductive rkind :=
| RExpr (pl pb : option Z)        (* label - base label; flattened positions (section offset + label offset), None = not bound *)
| RAbsToAbs
| RRelToAbs (toff : option Z)     (* offset of the target section, None = no target section recorded *)
| RAbsToRel
| RAddrEntry (opc : Z).           (* x86-64 call/jmp to an absolute target; opc = the opcode byte in front of the rel32 field *)

Record rentry := {
  e_kind : rkind;
  e_secoff : Z;      (* offset of the source section *)
  e_off : Z;         (* source offset (start of the region) inside the section *)
  e_lead : Z;        (* value offset inside the region *)
  e_region : Z;      (* region size *)
  e_fmt : fmt;       (* format of the value word *)
  e_payload : Z;     (* 0 <= payload < 2^64 *)
  e_old : Z          (* the value word before relocation *)
}.

Inductive rerr := RInvalidEntry | ROutOfRange | RExprUnbound.
Record rout := { o_word : Z; o_rewrite : option (Z * Z); o_slot : option Z }.

Definition sfmt (n : Z) : fmt := {| ty := SignedOffset; vsize := n; bits := 8 * n; shift := 0; discard := 0 |}.
Definition ufmt (n : Z) : fmt := {| ty := UnsignedOffset; vsize := n; bits := 8 * n; shift := 0; discard := 0 |}.

Definition is_int32 (v : Z) : bool := (- 2 ^ 31 <=? v) && (v <? 2 ^ 31).

Fixpoint index_of (a : Z) (l : list Z) (i : Z) : option Z :=
  match l with
  | [] => None
  | x :: t => if x =? a then Some i else index_of a t (i + 1)
  end.

(* AddressTableEntry::_slot is assigned on first use, in order *)
Definition find_or_add (a : Z) (slots : list Z) : Z * list Z :=
  match index_of a slots 0 with
  | Some i => (i, slots)
  | None => (zlen slots, slots ++ [a])
  end.

Definition relocate_entry (base asize atoff : Z) (slots : list Z) (e : rentry) : (rout * list Z) + rerr :=
  let next := e_secoff e + e_off e + e_region e in
  let finish (value : Z) (rw : option (Z * Z)) (slot : option Z) (slots' : list Z) : (rout * list Z) + rerr :=
    match write_offset (e_fmt e) (e_old e) (to_i64 value) with
    | Some w => inl ({| o_word := w; o_rewrite := rw; o_slot := slot |}, slots')
    | None => inr RInvalidEntry
    end in
  match e_kind e with
  | RExpr (Some pl) (Some pb) => finish (wrap 64 (pl - pb)) None None slots
  | RExpr _ _ => inr RExprUnbound
  | RAbsToAbs => finish (e_payload e) None None slots
  | RRelToAbs (Some toff) => finish (wrap 64 (e_payload e + base + toff)) None None slots
  | RRelToAbs None => inr RInvalidEntry
  | RAbsToRel =>
    let v := wrap 64 (e_payload e - (base + next)) in
    if asize <=? 4 then finish (wrap 64 (sext 32 v)) None None slots
    else if is_int32 (to_i64 v) then finish v None None slots
    else inr ROutOfRange
  | RAddrEntry opc =>
    if negb (vsize (e_fmt e) =? 4) || (e_off e + e_lead e <? 2) then inr RInvalidEntry else
    let v := wrap 64 (e_payload e - (base + next)) in
    if is_int32 (to_i64 v) then finish v None None slots else
    let '(slot, slots') := find_or_add (e_payload e) slots in
    let v2 := wrap 64 ((atoff + slot * asize) - next) in
    if negb (is_int32 (to_i64 v2)) then inr ROutOfRange else
    match (if opc =? 232 then Some 21 else if opc =? 233 then Some 37 else None) with   (* E8 -> FF /2 (15h), E9 -> FF /4 (25h) *)
    | None => inr RInvalidEntry
    | Some modrm => finish v2 (Some (255, modrm)) (Some slot) slots'
    end
  end.

Fixpoint relocate_all (base asize atoff : Z) (slots : list Z) (es : list rentry) : (list rout * list Z) + rerr :=
  match es with
  | [] => inl ([], slots)
  | e :: t =>
    match relocate_entry base asize atoff slots e with
    | inr x => inr x
    | inl (o, slots1) =>
      match relocate_all base asize atoff slots1 t with
      | inr x => inr x
      | inl (os, slots2) => inl (o :: os, slots2)
      end
    end
  end.

(* result of relocate_to_base: patches, the address table contents (slot order), its size and the code size reduction *)
Record rresult := { rr_outs : list rout; rr_table : list Z; rr_table_size : Z; rr_reduction : Z }.

Definition relocate (base asize atoff reserved : Z) (at_is_last : bool) (es : list rentry) : rresult + rerr :=
  match relocate_all base asize atoff [] es with
  | inr x => inr x
  | inl (os, slots) =>
    let size := zlen slots * asize in
    inl {| rr_outs := os; rr_table := slots; rr_table_size := size; rr_reduction := if at_is_last then reserved - size else 0 |}
  end.

(* entries recorded by the label machinery (C03 model): RelToAbs of embed_label / x86-32 [label], Expr of embed_label_delta *)
Definition label_pos (lbls : list (option (nat * Z))) (offs : list Z) (l : nat) : option Z :=
  match nth_error lbls l with
  | Some (Some (ls, lo)) => Some (nth ls offs 0 + lo)
  | _ => None
  end.

Definition entry_of_reloc (s : state) (offs : list Z) (re : reloc) : rentry :=
  {| e_kind := match rl_type re with
               | RelToAbs => RRelToAbs (match rl_target re with Some t => Some (nth t offs 0) | None => None end)
               | Expr l b => RExpr (label_pos (labels s) offs l) (label_pos (labels s) offs b)
               end;
     e_secoff := nth (rl_sec re) offs 0; e_off := rl_off re; e_lead := rl_lead re;
     e_region := rl_lead re + rl_size re + rl_trail re;
     e_fmt := match rl_type re with RelToAbs => ufmt (rl_size re) | Expr _ _ => sfmt (rl_size re) end;
     e_payload := rl_payload re; e_old := 0 |}.

(* ---- reference semantics: what the CPU forms from a patched site (absolute addresses, modulo the address width) ---- *)
(* a relative field: address of the next instruction (x86) / of the instruction (a64: region = 0 in `next`) + displacement *)
Definition rel_target (abits base next d : Z) : Z := (base + next + d) mod 2 ^ abits.

(* ---- base address known when assembling (CodeHolder::init(env, base)): the assemblers compute a relative field at once instead of
   recording an AbsToRel / address-table entry: x86 EmitJmpCall imm path (`rel64 = target - (ip + base + section_offset) - inst32_size`),
   x86-64 EmitModSib [ABSOLUTE] -> RIP (`rip64 = base + section_offset + offset_of_modrm + imm_size + 5`).  `next` = offset of the end of
   the instruction relative to the image start; abits = 32 in 32-bit mode (always encodable), 64 otherwise (must fit int32). ---- *)
Definition known_rel32 (abits base next target : Z) : option Z :=
  let v := wrap 64 (target - (base + next)) in
  if abits <=? 32 then Some (v mod 2 ^ 32)
  else if is_int32 (to_i64 v) then Some (v mod 2 ^ 32) else None.

(* C04 — run-time meaning of relocated x86 sites THROUGH C01's PROVEN DECODER (Verif.X86.X86Model.sdec, round trip X86Proofs.sdec_senc)
   instead of the hand-written reference semantics: the address a site designates is computed from the structural instruction that
   `sdec` recovers from the bytes (memory operand: RIP-relative / absolute disp32; branch: rel32 / rel8 immediate; moffs: the immediate).
   Theorems: an instruction whose displacement / immediate field holds the word `relocate_entry` wrote decodes (by the proven decoder)
   to an operand that designates the relocation's absolute target.  No new trusted semantics beyond "RIP-relative = end of instruction
   + disp", "rel = end of instruction + imm". *)
From Coq Require Import ZArith List Bool Lia.
From Verif Require Import Base.ZBits Codec.OffsetModel Codec.OffsetProofs Labels.LabelsModel Labels.LabelsExact Reloc.RelocModel Reloc.RelocProofs.
From Verif Require Import X86.X86Model X86.X86Proofs.
Import ListNotations.
Local Open Scope Z_scope.

(* what a decoded instruction designates.  `next` = absolute address of the end of the instruction. *)
Inductive site_class := CMem | CBranch | CMoffs.

Definition abits (m : mode) : Z := if is64 m then 64 else 32.

Definition designated (m : mode) (cl : site_class) (next : Z) (s : sinst) : option Z :=
  match cl, s_modrm s with
  | CMem, MMem _ mm =>
    match m_base mm, m_index mm with
    | BRip, None => Some ((next + m_disp mm) mod 2 ^ 64)
    | BNone, None =>
      (* absolute disp32: sign-extended in 64-bit mode, zero-extended under an address-size prefix / in 32-bit mode *)
      Some (if is64 m && negb (p_67 (s_pfx s)) then m_disp mm mod 2 ^ 64 else m_disp mm mod 2 ^ 32)
    | _, _ => None
    end
  | CBranch, MNone _ _ _ _ => Some ((next + sext32 (s_imm s)) mod 2 ^ abits m)
  | CMoffs, MNone _ _ _ _ => Some (s_imm s)
  | _, _ => None
  end.

(* the evaluator used by the check: decode the bytes at a site with the proven decoder, then `designated` *)
Definition site_target (m : mode) (cl : site_class) (sh : shape) (addr : Z) (bs : bytes) : option Z :=
  match sdec m sh bs with
  | Some (s, len) => designated m cl (addr + Z.of_nat len) s
  | None => None
  end.

Definition branch8_target (m : mode) (sh : shape) (addr : Z) (bs : bytes) : option Z :=
  match sdec m sh bs with
  | Some (s, len) => match s_modrm s with MNone _ _ _ _ => Some ((addr + Z.of_nat len + sext8 (s_imm s)) mod 2 ^ abits m) | _ => None end
  | None => None
  end.

(* ------------------------------------------------------------------ the relocated word inside an instruction *)
Lemma sext32_is_sext v : 0 <= v < 2 ^ 32 -> sext32 v = sext 32 v.
Proof.
  intros H. unfold sext32, sext. rewrite Z.mod_small by lia. change (2 ^ (32 - 1)) with 2147483648. change (2 ^ 32) with 4294967296. reflexivity.
Qed.

Lemma decode_rel32_word w : 0 <= w < 2 ^ 32 -> decode_kind K_Rel32 w = sext32 w.
Proof.
  intros H. unfold decode_kind, decode_signed, field_raw. cbn [fmt_of_kind bits shift discard].
  change (2 ^ 0) with 1. rewrite Z.div_1_r, Z.mul_1_r, Z.mod_small by lia. symmetry. apply sext32_is_sext. exact H.
Qed.

Lemma reloc_word_range base asize atoff slots e o slots' :
  relocate_entry base asize atoff slots e = inl (o, slots') -> e_fmt e = fmt_of_kind K_Rel32 -> e_old e = 0 ->
  (e_kind e = RAbsToRel \/ exists opc, e_kind e = RAddrEntry opc) -> 0 <= o_word o < 2 ^ 32.
Proof.
  intros H Hf Ho Hk. unfold relocate_entry in H. rewrite Hf, Ho in H.
  assert (G : forall v rw sl s2, match write_offset (fmt_of_kind K_Rel32) 0 (to_i64 v) with
                                 | Some w => inl ({| o_word := w; o_rewrite := rw; o_slot := sl |}, s2) | None => inr RInvalidEntry end = inl (o, slots') ->
              0 <= o_word o < 2 ^ 32).
  { clear H. intros v rw sl s2. destruct (write_offset (fmt_of_kind K_Rel32) 0 (to_i64 v)) as [w|] eqn:Ew; [|intros X; cbv iota in X; discriminate X]. intros E. cbv iota in E. injection E as <- _. cbn [o_word].
    apply write0 in Ew. rewrite (enc_rel32_value _ _ (to_i64_int64 v) Ew). apply Z.mod_pos_bound. lia. }
  destruct Hk as [Hk|(opc & Hk)]; rewrite Hk in H.
  - destruct (asize <=? 4); [eapply G; eauto|]. destruct (is_int32 _); [eapply G; eauto|discriminate].
  - destruct (negb _ || _); [discriminate|]. destruct (is_int32 (to_i64 (wrap 64 _))); [eapply G; eauto|].
    destruct (find_or_add _ _) as [slot s1]. destruct (negb (is_int32 _)); [discriminate|].
    destruct (if opc =? 232 then _ else _); [|discriminate]. eapply G; eauto.
Qed.

(* x86-64 memory operand encoded RIP-relative whose disp32 field holds the word relocate_to_base wrote for an AbsToRel entry
   (EmitModSib [ABSOLUTE] -> RIP): C01's decoder recovers a RIP-relative operand and it designates the absolute target *)
Theorem rip_operand_designates_target base asize atoff slots e o slots' sh s c reg rest :
  relocate_entry base asize atoff slots e = inl (o, slots') ->
  e_kind e = RAbsToRel -> 4 < asize -> e_fmt e = fmt_of_kind K_Rel32 -> e_old e = 0 ->
  s_modrm s = MMem reg (mkM BRip None 0 (sext32 (o_word o))) -> wf M64 sh s = true -> adm M64 sh s c = true ->
  e_region e = Z.of_nat (length (senc M64 sh s c)) ->
  site_target M64 CMem sh (base + e_secoff e + e_off e) (senc M64 sh s c ++ rest) = Some (e_payload e mod 2 ^ 64).
Proof.
  intros Hre Hk Ha Hf Ho Hm Hwf Hadm Hlen.
  unfold site_target. rewrite (sdec_senc M64 sh s c rest Hwf Hadm). unfold designated. rewrite Hm. cbn [m_base m_index m_disp].
  destruct (reloc_rel_exact64 base asize atoff slots e o slots' Hre K_Rel32 Hk Ha Hf ltac:(rewrite Ho; reflexivity)) as (Ht & _).
  pose proof (reloc_word_range _ _ _ _ _ _ _ Hre Hf Ho (or_introl Hk)) as Hw.
  rewrite decode_rel32_word in Ht by exact Hw. unfold rel_target in Ht. rewrite <- Ht, <- Hlen. f_equal. f_equal. lia.
Qed.

(* x86 call/jmp/jcc rel32 whose immediate holds the relocated word (AbsToRel, or an address-table entry patched directly) *)
Theorem branch_designates_target base asize atoff slots e o slots' (m : mode) sh s c xr xx xb xr' rest :
  relocate_entry base asize atoff slots e = inl (o, slots') ->
  e_kind e = RAbsToRel -> (if is64 m then 4 <? asize else asize <=? 4) = true -> e_fmt e = fmt_of_kind K_Rel32 -> e_old e = 0 ->
  s_modrm s = MNone xr xx xb xr' -> s_imm s = o_word o -> wf m sh s = true -> adm m sh s c = true ->
  e_region e = Z.of_nat (length (senc m sh s c)) ->
  site_target m CBranch sh (base + e_secoff e + e_off e) (senc m sh s c ++ rest) = Some (e_payload e mod 2 ^ abits m).
Proof.
  intros Hre Hk Ha Hf Ho Hm Hi Hwf Hadm Hlen.
  unfold site_target. rewrite (sdec_senc m sh s c rest Hwf Hadm). unfold designated. rewrite Hm, Hi.
  pose proof (reloc_word_range _ _ _ _ _ _ _ Hre Hf Ho (or_introl Hk)) as Hw.
  destruct m; cbn [is64 abits] in *.
  - apply Z.leb_le in Ha.
    pose proof (reloc_rel_exact32 base asize atoff slots e o slots' Hre Hk Ha Hf Ho) as Ht.
    rewrite decode_rel32_word in Ht by exact Hw. unfold rel_target in Ht. rewrite <- Ht, <- Hlen. f_equal. f_equal. lia.
  - apply Z.ltb_lt in Ha.
    destruct (reloc_rel_exact64 base asize atoff slots e o slots' Hre K_Rel32 Hk Ha Hf ltac:(rewrite Ho; reflexivity)) as (Ht & _).
    rewrite decode_rel32_word in Ht by exact Hw. unfold rel_target in Ht. rewrite <- Ht, <- Hlen. f_equal. f_equal. lia.
Qed.

(* x86-32 [label + disp] / absolute disp32 operand holding the word written for a RelToAbs entry *)
Theorem abs32_operand_designates_target base asize atoff slots e o slots' sh s c reg toff rest :
  relocate_entry base asize atoff slots e = inl (o, slots') ->
  e_kind e = RRelToAbs (Some toff) -> e_fmt e = ufmt 4 -> e_old e = 0 ->
  s_modrm s = MMem reg (mkM BNone None 0 (sext32 (o_word o))) -> wf M32 sh s = true -> adm M32 sh s c = true ->
  site_target M32 CMem sh (base + e_secoff e + e_off e) (senc M32 sh s c ++ rest) = Some ((e_payload e + base + toff) mod 2 ^ 64) /\
  (e_payload e + base + toff) mod 2 ^ 64 < 2 ^ 32.
Proof.
  intros Hre Hk Hf Ho Hm Hwf Hadm.
  destruct (reloc_abs_exact base asize atoff slots e o slots' Hre toff 4 Hk Hf ltac:(tauto) Ho) as (Hw & Hlt & _).
  split; [|rewrite <- Hw; exact Hlt].
  unfold site_target. rewrite (sdec_senc M32 sh s c rest Hwf Hadm). unfold designated. rewrite Hm. cbn [m_base m_index m_disp is64 andb].
  f_equal. rewrite <- Hw.
  assert (H0 : 0 <= o_word o < 2 ^ 32) by (rewrite Hw; split; [apply Z.mod_pos_bound; lia|rewrite <- Hw; exact Hlt]).
  unfold sext32. destruct (o_word o <? 2147483648) eqn:E.
  - apply Z.mod_small. lia.
  - apply Z.ltb_ge in E. replace (o_word o - 4294967296) with (o_word o + (-1) * 2 ^ 32) by lia. rewrite Z.mod_add by lia. apply Z.mod_small. lia.
Qed.

(* C04 — the `call <absolute>` that JitRuntime::_add installs, DECODED from the installed image by C01's proven decoder (composition of
   InstalledImage.installed_call_site / call_out_reaches with the opcode forms REX 40 E8 and FF 15): either a direct call to the target
   or a call through the address-table slot that holds the target. *)
From Coq Require Import ZArith List Bool Lia.
From Verif Require Import Base.ZBits Codec.OffsetModel Codec.OffsetProofs Labels.LabelsModel Labels.LabelsExact Labels.FlatModel Labels.FlatLemmas
  Sections.SectionModel Sections.ChunkModel Sections.CopyProofs Sections.ChunkProofs Sections.SettleProofs Sections.JitReloc Sections.JitRelocProofs Sections.SectionTable Sections.SectionProofs
  Reloc.RelocModel Reloc.RelocProofs Reloc.X86Meaning Reloc.InstalledImage Labels.X86RefMeaning Labels.X86EndToEnd Reloc.RelocInImage.
From Verif Require Import X86.X86Model X86.X86Proofs.
Import ListNotations.
Local Open Scope Z_scope.

Definition mk_rex_call (imm : Z) : sinst :=
  {| s_pfx := {| p_lock := false; p_f2 := false; p_f3 := false; p_66 := false; p_67 := false; p_seg := 0 |};
     s_kind := KLeg; s_rex := true; s_W := false; s_vvvv := 0; s_V' := false; s_L := 0; s_pp := 0; s_map := 0;
     s_opc := 232; s_aaa := 0; s_z := false; s_b := false; s_modrm := MNone false false false false; s_imm := imm |}.
Definition mk_ff2 (d : Z) : sinst :=
  {| s_pfx := {| p_lock := false; p_f2 := false; p_f3 := false; p_66 := false; p_67 := false; p_seg := 0 |};
     s_kind := KLeg; s_rex := false; s_W := false; s_vvvv := 0; s_V' := false; s_L := 0; s_pp := 0; s_map := 0;
     s_opc := 255; s_aaa := 0; s_z := false; s_b := false; s_modrm := MMem 2 (mkM BRip None 0 d); s_imm := 0 |}.

Lemma form_rex_call : branch_form M64 4 [64; 232] mk_rex_call.
Proof.
  constructor; intros w; try intros Hw.
  - unfold senc; rewrite !app_assoc; f_equal; vm_compute; reflexivity.
  - unfold wf; cbn [mk_rex_call s_pfx s_opc s_imm s_kind s_map s_vvvv s_V' s_L s_pp s_aaa s_z s_b s_rex s_W s_modrm sh_imm sh_n].
    replace (zin 0 w _) with true by (symmetry; unfold zin; apply andb_true_intro; split; [apply Z.leb_le|apply Z.ltb_lt]; lia).
    vm_compute; reflexivity.
  - reflexivity.
  - reflexivity.
  - reflexivity.
Qed.

Lemma form_ff2 : rip_form [255; 21] mk_ff2 2.
Proof.
  constructor; intros d; try intros Hd.
  - unfold senc; cbn [mk_ff2 s_modrm enc_modrm s_pfx]; unfold enc_mem; cbn [a16 is64 negb andb p_67]; cbv iota;
      cbn [m_base m_disp sh_imm X86Model.le_bytes sh_n]; rewrite app_nil_r; apply app_cons_tail; vm_compute; reflexivity.
  - unfold wf; cbn [mk_ff2 s_pfx s_opc s_imm s_kind s_map s_vvvv s_V' s_L s_pp s_aaa s_z s_b s_rex s_W s_modrm sh_imm sh_n];
      unfold wf_modrm, wf_mem; cbn [a16 is64 negb andb p_67 m_disp m_scale m_index m_base sh_modrm sh_vsib];
      replace (zin (-2147483648) d 2147483648) with true by (symmetry; unfold zin; apply andb_true_intro; split; [apply Z.leb_le|apply Z.ltb_lt]; lia);
      vm_compute; reflexivity.
  - reflexivity.
  - reflexivity.
Qed.

Definition bytes_at (img : list Z) (a : Z) (n : nat) : list Z := map (fun k => cell img (a + Z.of_nat k)) (seq 0 n).

Lemma sext32_decode w : 0 <= w < 2 ^ 32 -> decode_kind K_Rel32 w = sext32 w.
Proof. apply decode_rel32_word. Qed.

(* the `call <absolute>` JitRuntime::_add installs, DECODED from the installed image by C01's proven decoder: either a direct
   `call rel32` (REX 40 E8) to the target, or `call [rip + disp32]` (FF 15) whose operand is the address-table slot that holds the target
   (C04_installed_table_slot shows the slot's installed bytes are the target) *)
Theorem installed_call_decodes st calls base fill final img h2 i pos target :
  wf_holder (jh st) -> data_len_ok (jh st) ->
  (forall h1, flatten (jh st) = (EOk, h1) -> NoDup (map sid h1) /\ (forall s, In s h1 -> 0 <= sid s)) ->
  jtab st <> Some 0 -> (forall h off, sites_disjoint (map (site_entry h off) calls)) ->
  jit_add_reloc st calls base fill = (JOk, final, img, h2) ->
  nth_error calls i = Some (SCall pos target) ->
  exists h1 text atoff reserved last r,
    flatten (jh st) = (EOk, h1) /\ by_id h1 0 = Some text /\
    relocate base REG_SIZE atoff reserved last (map (site_entry h1 (soff text)) calls) = inl r /\
    (soff text + pos + CALL_LEN <= final -> cell (sdata text) pos = 64 -> cell (sdata text) (pos + 1) = 232 ->
     let a := soff text + pos in let bytes := bytes_at (flat img) a 6 in
     site_target M64 CBranch (mkSh false false 4 1) (base + a) bytes = Some (target mod 2 ^ 64) \/
     exists slot, 0 <= slot /\ nth_error (rr_table r) (Z.to_nat slot) = Some target /\
       site_target M64 CMem (mkSh true false 0 1) (base + a) bytes = Some ((base + atoff + slot * REG_SIZE) mod 2 ^ 64)).
Proof.
  intros Hwf Hdl Hid Htab Hcd E Hi.
  destruct (installed_call_site st calls base fill final img h2 i pos target Hwf Hdl Hid Htab Hcd E Hi)
    as (h1 & text & atoff & reserved & last & r & o & Ef & Et & Erel & Ho & HW & HO).
  exists h1, text, atoff, reserved, last, r. split; [exact Ef|]. split; [exact Et|]. split; [exact Erel|].
  intros Hfin H64 H232 a bytes.
  (* the entry was relocated by relocate_entry: range of the word *)
  assert (Hre : exists s1 s2, relocate_entry base REG_SIZE atoff s1 (site_entry h1 (soff text) (SCall pos target)) = inl (o, s2)).
  { pose proof Erel as Er. unfold relocate in Er. destruct (relocate_all base REG_SIZE atoff [] (map (site_entry h1 (soff text)) calls)) as [[os slots]|x] eqn:Ea; [|discriminate].
    injection Er as <-. cbn [rr_outs] in Ho. destruct (relocate_all_sound _ _ _ _ _ _ _ Ea) as (_ & _ & _ & Hall).
    assert (He : nth_error (map (site_entry h1 (soff text)) calls) i = Some (site_entry h1 (soff text) (SCall pos target))) by (rewrite nth_error_map, Hi; reflexivity).
    destruct (Hall i _ o He Ho) as (s1 & s2 & H & _). eauto. }
  destruct Hre as (s1 & s2 & Hre).
  assert (Hw : 0 <= o_word o < 2 ^ 32).
  { apply (reloc_word_range _ _ _ _ _ _ _ Hre); [reflexivity|reflexivity|right; exists 232; reflexivity]. }
  set (w := o_word o) in *. unfold CALL_LEN in Hfin.
  assert (Hbytes : bytes = [cell (flat img) a; cell (flat img) (a + 1)] ++ JitReloc.le_bytes 4 w).
  { unfold bytes, bytes_at. cbn [seq map]. rewrite Z.add_0_r. cbn [app]. f_equal. f_equal.
    rewrite (list_as_cells (JitReloc.le_bytes 4 w)). rewrite JitRelocProofs.le_bytes_length. cbn [seq map].
    repeat f_equal; match goal with |- cell (flat img) (a + Z.of_nat ?k) = _ =>
      let kk := eval vm_compute in (Z.of_nat k - 2) in
      replace (a + Z.of_nat k) with (soff text + pos + 2 + kk) by (unfold a; lia); rewrite (HW kk) by (unfold a in *; lia); reflexivity end. }
  destruct (call_out_reaches base atoff reserved last h1 (soff text) calls r i pos target o Erel Hi Ho) as [(Hn & Ht)|(Hs & slot & Hs0 & Hnth & Ht)];
    cbv zeta in Ht; fold w in Ht; rewrite (sext32_decode _ Hw) in Ht; unfold rel_target, CALL_LEN in Ht.
  - left. assert (B0 : cell (flat img) a = 64) by (unfold a; rewrite <- H64; replace (soff text + pos) with (soff text + pos + 0) by lia; rewrite (HO 0) by lia; rewrite Hn; f_equal; lia).
    assert (B1 : cell (flat img) (a + 1) = 232) by (unfold a; rewrite <- H232; rewrite (HO 1) by lia; rewrite Hn; reflexivity).
    rewrite Hbytes, B0, B1.
    assert (Henc : senc M64 (mkSh false false 4 1) (mk_rex_call w) (mkC false 0 false) = [64; 232] ++ JitReloc.le_bytes 4 w)
      by (rewrite (bf_enc _ _ _ _ form_rex_call); f_equal; rewrite le_bytes_is_le_split; symmetry; apply jit_le_bytes_is_le_split).
    rewrite <- Henc, <- (app_nil_r (senc _ _ _ _)). unfold site_target.
    rewrite (sdec_senc M64 _ _ _ [] (bf_wf _ _ _ _ form_rex_call w ltac:(change (256 ^ Z.of_nat 4) with (2 ^ 32); exact Hw)) (bf_adm _ _ _ _ form_rex_call w)).
    unfold designated. cbn [mk_rex_call s_modrm s_imm abits is64]. rewrite <- Ht. f_equal. f_equal.
    rewrite Henc, app_length, JitRelocProofs.le_bytes_length. cbn [length]. unfold a. lia.
  - right. exists slot. split; [exact Hs0|]. split; [exact Hnth|].
    assert (B0 : cell (flat img) a = 255) by (unfold a; replace (soff text + pos) with (soff text + pos + 0) by lia; rewrite (HO 0) by lia; rewrite Hs; reflexivity).
    assert (B1 : cell (flat img) (a + 1) = 21) by (unfold a; rewrite (HO 1) by lia; rewrite Hs; reflexivity).
    rewrite Hbytes, B0, B1.
    destruct (sext32_back w Hw) as (Hback & Hsr).
    assert (Henc : senc M64 (mkSh true false 0 1) (mk_ff2 (sext32 w)) (mkC false 0 false) = [255; 21] ++ JitReloc.le_bytes 4 w)
      by (rewrite (rf_enc _ _ _ form_ff2), Hback; f_equal; rewrite le_bytes_is_le_split; symmetry; apply jit_le_bytes_is_le_split).
    rewrite <- Henc, <- (app_nil_r (senc _ _ _ _)). unfold site_target.
    rewrite (sdec_senc M64 _ _ _ [] (rf_wf _ _ _ form_ff2 _ Hsr) (rf_adm _ _ _ form_ff2 _)).
    unfold designated. cbn [mk_ff2 s_modrm m_base m_index m_disp]. rewrite <- Ht. f_equal. f_equal.
    rewrite Henc, app_length, JitRelocProofs.le_bytes_length. cbn [length]. unfold a. lia.
Qed.

(* satisfiability: .text = two `call abs` (the first target out of rel32 reach, the second near), the address table behind it, installed at
   0x400000: the second call decodes to a direct call to 0x401000, the first to `call [rip + ...]` designating the table slot at
   0x400010, whose eight installed bytes are the far target *)
Definition ex_call_state : jstate :=
  mkJ [ mkSection 0 INT_MIN 0 0 0 12 (CALL_BYTES ++ CALL_BYTES) []; mkSection 1 INT_MAX 8 NO_OFFSET 16 0 [] [] ] (Some 1) [].

Example installed_call_decodes_witness : exists final img h2,
  let calls := [SCall 0 1311768467463790320; SCall 6 4198400] in
  wf_holder (jh ex_call_state) /\ data_len_ok (jh ex_call_state) /\
  (forall h1, flatten (jh ex_call_state) = (EOk, h1) -> NoDup (map sid h1) /\ (forall s, In s h1 -> 0 <= sid s)) /\
  jtab ex_call_state <> Some 0 /\ (forall h off, sites_disjoint (map (site_entry h off) calls)) /\
  jit_add_reloc ex_call_state calls 4194304 204 = (JOk, final, img, h2) /\
  site_target M64 CBranch (mkSh false false 4 1) (4194304 + 6) (bytes_at (flat img) 6 6) = Some 4198400 /\
  site_target M64 CMem (mkSh true false 0 1) (4194304 + 0) (bytes_at (flat img) 0 6) = Some (4194304 + 16) /\
  bytes_at (flat img) 16 8 = JitReloc.le_bytes 8 1311768467463790320.
Proof.
  eexists. eexists. eexists. cbv zeta.
  split. { unfold wf_holder, ex_call_state, jh. repeat apply Forall_cons; try apply Forall_nil; unfold wf_sec; cbn [svsize sbsize salign];
           (split; [vm_compute; split; [discriminate|reflexivity]|]); (split; [vm_compute; split; [discriminate|reflexivity]|]);
           [left; reflexivity|right; exists 3; split; [lia|reflexivity]]. }
  split. { unfold data_len_ok, ex_call_state, jh. repeat apply Forall_cons; try apply Forall_nil; reflexivity. }
  split. { intros h1 H. vm_compute in H. injection H as <-. split.
           - cbn [map sid]. repeat constructor; cbn [In]; intuition discriminate.
           - intros s [<-|[<-|[]]]; cbn [sid]; lia. }
  split. { cbn [ex_call_state jtab]. discriminate. }
  split. { intros h off i j a b Ha Hb Hij. destruct i as [|[|[|i]]], j as [|[|[|j]]]; cbn in Ha, Hb; try discriminate; try congruence;
           injection Ha as <-; injection Hb as <-; unfold site_hi, site_lo; cbn [e_off e_lead e_fmt sfmt vsize]; lia. }
  split; [vm_compute; reflexivity|]. repeat split; vm_compute; reflexivity.
Qed.

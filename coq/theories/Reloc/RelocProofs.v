(* C04 — proofs about the relocation model (RelocModel.v): every successfully relocated site evaluates, under the reference
   semantics, to its target; unreachable targets are errors; address-table slots are dense, shared and hold their targets. *)
From Coq Require Import ZArith List Bool Lia.
From Verif Require Import Base.ZBits Codec.OffsetModel Codec.OffsetProofs Labels.LabelsModel Labels.LabelsProofs Labels.LabelsExact
  Labels.LabelsAbs Reloc.RelocModel.
Import ListNotations.
Local Open Scope Z_scope.
Arguments zlen : simpl never.

(* ------------------------------------------------------------------ arithmetic *)
Lemma to_i64_mod x : (to_i64 x) mod 2 ^ 64 = x mod 2 ^ 64.
Proof. unfold to_i64. rewrite sext_is_sextz. apply sextz_mod_id. lia. Qed.

Lemma to_i64_small v : 0 <= v < 2 ^ 63 -> to_i64 v = v.
Proof.
  intros H. unfold to_i64. rewrite sext_is_sextz. rewrite <- (sextz_of_mod 64 v) at 2 by lia.
  unfold sextz. rewrite Z.mod_mod by lia. reflexivity.
Qed.

Lemma to_i64_neg v : 2 ^ 63 <= v < 2 ^ 64 -> to_i64 v < 0.
Proof.
  intros H. unfold to_i64, sext. rewrite Z.mod_small by lia.
  destruct (v <? 2 ^ (64 - 1)) eqn:E; [apply Z.ltb_lt in E; simpl in E; lia|lia].
Qed.

Lemma to_i64_wrap x : - 2 ^ 63 <= x < 2 ^ 63 -> to_i64 (wrap 64 x) = x.
Proof. intros H. unfold to_i64, wrap. rewrite sext_is_sextz. apply sextz_of_mod; [lia|]. change (64 - 1) with 63. exact H. Qed.

Lemma wrap_range x : 0 <= wrap 64 x < 2 ^ 64.
Proof. unfold wrap. apply Z.mod_pos_bound. lia. Qed.

Lemma rel_back M a p d : 0 < M -> d mod M = (p - a) mod M -> (a + d) mod M = p mod M.
Proof.
  intros HM H. rewrite Zplus_mod, H, <- Zplus_mod. f_equal. lia.
Qed.

Lemma is_int32_spec v : is_int32 v = true <-> - 2 ^ 31 <= v < 2 ^ 31.
Proof. unfold is_int32. rewrite andb_true_iff, Z.leb_le, Z.ltb_lt. tauto. Qed.

Lemma write0 f off w : write_offset f 0 off = Some w -> encode_offset f off = Some w.
Proof. unfold write_offset. destruct (encode_offset f off); [|discriminate]. rewrite Z.lor_0_l. auto. Qed.

(* ------------------------------------------------------------------ address-table slots *)
Definition extends (a b : list Z) : Prop := exists c, b = a ++ c.

Lemma extends_refl a : extends a a.
Proof. exists []. symmetry. apply app_nil_r. Qed.

Lemma extends_trans a b c : extends a b -> extends b c -> extends a c.
Proof. intros (x & ->) (y & ->). exists (x ++ y). symmetry. apply app_assoc. Qed.

Lemma extends_nth a b i x : extends a b -> nth_error a i = Some x -> nth_error b i = Some x.
Proof. intros (c & ->) H. rewrite nth_error_app1; [exact H|]. apply nth_error_Some. congruence. Qed.

Lemma index_of_spec a l : forall i j, index_of a l i = Some j ->
  i <= j < i + zlen l /\ nth_error l (Z.to_nat (j - i)) = Some a.
Proof.
  induction l as [|x t IH]; intros i j; simpl; [discriminate|].
  destruct (x =? a) eqn:E.
  - intros H. injection H as <-. apply Z.eqb_eq in E. subst x. rewrite Z.sub_diag, zlen_cons. simpl.
    pose proof (zlen_nonneg t). split; [lia|reflexivity].
  - intros H. apply IH in H. destruct H as (H1 & H2). rewrite zlen_cons. split; [lia|].
    replace (Z.to_nat (j - i)) with (S (Z.to_nat (j - (i + 1)))) by lia. exact H2.
Qed.

Lemma index_of_none a l : forall i, index_of a l i = None -> ~ In a l.
Proof.
  induction l as [|x t IH]; intros i; simpl; [tauto|].
  destruct (x =? a) eqn:E; [discriminate|]. intros H [X|X]; [apply Z.eqb_neq in E; contradiction|eapply IH; eauto].
Qed.

Lemma nodup_snoc (l : list Z) a : NoDup l -> ~ In a l -> NoDup (l ++ [a]).
Proof.
  induction l as [|x t IH]; simpl; intros N H; [repeat constructor; tauto|].
  inversion N as [|? ? Hn N']; subst. constructor; [|apply IH; tauto].
  intros X. apply in_app_or in X. destruct X as [X|X]; [contradiction|]. simpl in X. destruct X as [X|X]; [subst; tauto|contradiction].
Qed.

Lemma find_or_add_spec a slots i slots' :
  find_or_add a slots = (i, slots') ->
  extends slots slots' /\ 0 <= i < zlen slots' /\ nth_error slots' (Z.to_nat i) = Some a /\
  (NoDup slots -> NoDup slots') /\ (In a slots -> slots' = slots).
Proof.
  unfold find_or_add. destruct (index_of a slots 0) as [j|] eqn:E; intros H; injection H as <- <-.
  - apply index_of_spec in E. destruct E as (E1 & E2). rewrite Z.sub_0_r in E2.
    split; [apply extends_refl|]. split; [lia|]. split; [exact E2|]. split; auto.
  - apply index_of_none in E. split; [exists [a]; reflexivity|]. unfold zlen. rewrite app_length. simpl length.
    split; [lia|]. split.
    + rewrite Nat2Z.id, nth_error_app2, Nat.sub_diag by lia. reflexivity.
    + split; [|contradiction]. intros N. apply nodup_snoc; assumption.
Qed.

(* ------------------------------------------------------------------ unsigned data words (embedded label addresses, abs32 operands) *)
Lemma enc_u64 off : int64 off -> encode_offset (ufmt 8) off = Some (off mod 2 ^ 64).
Proof.
  intros H. unfold encode_offset, encode_offset64, ufmt, wrap. simpl.
  rewrite Z.mod_mod by lia. rewrite Z.eqb_refl. rewrite Z.mul_1_r. rewrite !Z.mod_mod by lia. reflexivity.
Qed.

Lemma wf_ufmt n : n = 1 \/ n = 2 \/ n = 4 -> wf_contig32 (ufmt n).
Proof. intros [-> | [-> | ->]]; unfold wf_contig32, ufmt; simpl; lia. Qed.

Lemma enc_unsigned_value32 n v w : n = 1 \/ n = 2 \/ n = 4 -> 0 <= v < 2 ^ 64 ->
  encode_offset (ufmt n) (to_i64 v) = Some w -> w = v /\ v < 2 ^ (8 * n).
Proof.
  intros Hn Hv He.
  assert (Hwf : wf_contig32 (ufmt n)) by (apply wf_ufmt; exact Hn).
  pose proof (unsigned32_roundtrip (ufmt n) (to_i64 v) w eq_refl Hwf (to_i64_int64 v) He) as (Hd & Hb & _).
  unfold decode_unsigned, field_raw in Hd. cbn [ufmt bits shift discard] in Hd, Hb.
  change (2 ^ 0) with 1 in Hd. rewrite Z.div_1_r, Z.mul_1_r in Hd. rewrite Z.add_0_r in Hb.
  rewrite Z.mod_small in Hd by exact Hb.
  assert (Hlt : v < 2 ^ 63).
  { destruct (Z_lt_le_dec v (2 ^ 63)); [assumption|]. pose proof (to_i64_neg v ltac:(lia)). lia. }
  rewrite to_i64_small in Hd by lia. subst w. split; [reflexivity|exact (proj2 Hb)].
Qed.

Lemma enc_unsigned_value n v w : n = 1 \/ n = 2 \/ n = 4 \/ n = 8 -> 0 <= v < 2 ^ 64 ->
  encode_offset (ufmt n) (to_i64 v) = Some w -> w = v /\ v < 2 ^ (8 * n).
Proof.
  intros Hn Hv He. destruct Hn as [Hn|[Hn|[Hn|Hn]]]; try (apply enc_unsigned_value32; tauto).
  subst n. rewrite enc_u64 in He by apply to_i64_int64. injection He as <-. rewrite to_i64_mod.
  rewrite Z.mod_small by lia. split; [reflexivity|simpl; lia].
Qed.

(* ------------------------------------------------------------------ per-kind exactness of one entry *)
Section Entry.
Variables (base asize atoff : Z) (slots : list Z) (e : rentry) (o : rout) (slots' : list Z).
Hypothesis Hok : relocate_entry base asize atoff slots e = inl (o, slots').
Let next := e_secoff e + e_off e + e_region e.

(* embedded label address / abs32 operand: the stored word IS base + target section offset + payload, and it fits the width *)
Theorem reloc_abs_exact toff n :
  e_kind e = RRelToAbs (Some toff) -> e_fmt e = ufmt n -> n = 1 \/ n = 2 \/ n = 4 \/ n = 8 -> e_old e = 0 ->
  o_word o = (e_payload e + base + toff) mod 2 ^ 64 /\ o_word o < 2 ^ (8 * n) /\ o_rewrite o = None /\ slots' = slots.
Proof.
  intros Hk Hf Hn Ho. unfold relocate_entry in Hok. rewrite Hk, Hf, Ho in Hok.
  destruct (write_offset _ _ _) as [w|] eqn:Ew; [|discriminate]. injection Hok as <- <-. cbn [o_word o_rewrite o_slot].
  apply write0 in Ew. apply enc_unsigned_value in Ew; [|exact Hn|apply wrap_range]. destruct Ew as (-> & Hlt).
  unfold wrap in *. auto.
Qed.

(* relative branch to an absolute target, 64-bit address space, any displacement format of the backends *)
Theorem reloc_rel_exact64 k :
  e_kind e = RAbsToRel -> 4 < asize -> e_fmt e = fmt_of_kind k -> hole_ok k (e_old e) = true ->
  rel_target 64 base next (decode_kind k (o_word o)) = e_payload e mod 2 ^ 64 /\
  Z.land (o_word o) (Z.lnot (kind_mask k)) = e_old e /\ slots' = slots.
Proof.
  intros Hk Ha Hf Hh. unfold relocate_entry in Hok. rewrite Hk, Hf in Hok.
  replace (asize <=? 4) with false in Hok by (symmetry; apply Z.leb_gt; lia).
  destruct (is_int32 _) eqn:Ei; [|discriminate].
  destruct (write_offset _ _ _) as [w|] eqn:Ew; [|discriminate]. injection Hok as <- <-. cbn [o_word o_rewrite o_slot].
  apply write_offset_or in Ew. destruct Ew as (m & He & ->).
  destruct (enc_decode k _ m _ Hh (to_i64_int64 _) He) as (Hd & Hout).
  split; [|split; [exact Hout|reflexivity]].
  rewrite Hd. unfold rel_target. apply rel_back; [lia|]. rewrite to_i64_mod. unfold wrap. rewrite Z.mod_mod by lia.
  f_equal; unfold next; lia.
Qed.

(* 32-bit address space: wrap-around makes every target reachable; the field denotes it modulo 2^32 *)
Theorem reloc_rel_exact32 :
  e_kind e = RAbsToRel -> asize <= 4 -> e_fmt e = fmt_of_kind K_Rel32 -> e_old e = 0 ->
  rel_target 32 base next (decode_kind K_Rel32 (o_word o)) = e_payload e mod 2 ^ 32.
Proof.
  intros Hk Ha Hf Ho. unfold relocate_entry in Hok. rewrite Hk, Hf, Ho in Hok.
  replace (asize <=? 4) with true in Hok by (symmetry; apply Z.leb_le; lia).
  destruct (write_offset _ _ _) as [w|] eqn:Ew; [|discriminate]. injection Hok as <- <-. cbn [o_word o_rewrite o_slot].
  apply write_offset_or in Ew. destruct Ew as (m & He & Hw).
  destruct (enc_decode K_Rel32 0 m _ eq_refl (to_i64_int64 _) He) as (Hd & _). rewrite Hw, Hd.
  set (v := wrap 64 (e_payload e - (base + (e_secoff e + e_off e + e_region e)))) in *.
  assert (Hs : - 2 ^ 31 <= sext 32 v < 2 ^ 31).
  { rewrite sext_is_sextz. pose proof (sextz_range 32 v ltac:(lia)) as X. change (32 - 1) with 31 in X. exact X. }
  assert (E1 : to_i64 (wrap 64 (sext 32 v)) = sext 32 v) by (apply to_i64_wrap; lia).
  rewrite E1. unfold rel_target. apply rel_back; [lia|].
  rewrite sext_is_sextz, sextz_mod_id by lia. unfold v, wrap.
  change (2 ^ 32) with (2 ^ 32). rewrite (mod_mod_pow2 _ 32 64) by lia. f_equal; unfold next; lia.
Qed.

(* x86-64 call/jmp to an absolute target: either the rel32 form reaches it, or the instruction is rewritten to FF /2 | FF /4
   through an address-table slot that contains the target *)
Theorem reloc_addr_entry_exact opc :
  e_kind e = RAddrEntry opc -> e_fmt e = fmt_of_kind K_Rel32 -> e_old e = 0 ->
  let d := decode_kind K_Rel32 (o_word o) in
  (o_rewrite o = None /\ slots' = slots /\ rel_target 64 base next d = e_payload e mod 2 ^ 64) \/
  (exists slot modrm, o_rewrite o = Some (255, modrm) /\ o_slot o = Some slot /\
     ((opc = 232 /\ modrm = 21) \/ (opc = 233 /\ modrm = 37)) /\
     extends slots slots' /\ 0 <= slot < zlen slots' /\ nth_error slots' (Z.to_nat slot) = Some (e_payload e) /\
     rel_target 64 base next d = (base + atoff + slot * asize) mod 2 ^ 64 /\
     ~ (- 2 ^ 31 <= to_i64 (wrap 64 (e_payload e - (base + next))) < 2 ^ 31)).
Proof.
  intros Hk Hf Ho d. unfold relocate_entry in Hok. rewrite Hk, Hf, Ho in Hok.
  destruct (negb _ || _); [discriminate|].
  destruct (is_int32 (to_i64 (wrap 64 (e_payload e - (base + (e_secoff e + e_off e + e_region e)))))) eqn:Ei.
  - left. destruct (write_offset _ _ _) as [w|] eqn:Ew; [|discriminate]. injection Hok as <- <-. cbn [o_word o_rewrite o_slot].
    apply write_offset_or in Ew. destruct Ew as (m & He & Hw).
    destruct (enc_decode K_Rel32 0 m _ eq_refl (to_i64_int64 _) He) as (Hd & _).
    split; [reflexivity|split; [reflexivity|]]. unfold d. cbn [o_word]. rewrite Hw, Hd.
    unfold rel_target. apply rel_back; [lia|]. rewrite to_i64_mod. unfold wrap. rewrite Z.mod_mod by lia. f_equal; unfold next; lia.
  - right. destruct (find_or_add (e_payload e) slots) as [slot s1] eqn:Ef.
    destruct (negb (is_int32 _)); [discriminate|].
    destruct (if opc =? 232 then Some 21 else if opc =? 233 then Some 37 else None) as [modrm|] eqn:Em; [|discriminate].
    destruct (write_offset _ _ _) as [w|] eqn:Ew; [|discriminate]. injection Hok as <- <-. cbn [o_word o_rewrite o_slot].
    apply write_offset_or in Ew. destruct Ew as (m & He & Hw).
    destruct (enc_decode K_Rel32 0 m _ eq_refl (to_i64_int64 _) He) as (Hd & _).
    destruct (find_or_add_spec _ _ _ _ Ef) as (Hext & Hr & Hn & _).
    exists slot, modrm. repeat split; auto.
    + destruct (opc =? 232) eqn:E1; [apply Z.eqb_eq in E1; injection Em as <-; auto|].
      destruct (opc =? 233) eqn:E2; [apply Z.eqb_eq in E2; injection Em as <-; auto|discriminate].
    + lia.
    + lia.
    + unfold d. cbn [o_word]. rewrite Hw, Hd. unfold rel_target. apply rel_back; [lia|].
      rewrite to_i64_mod. unfold wrap. rewrite Z.mod_mod by lia. f_equal; unfold next; lia.
    + intros H. apply is_int32_spec in H. fold next in Ei. congruence.
Qed.

(* label - base expression (embed_label_delta): the stored signed word is the difference of the flattened positions *)
Theorem reloc_expr_exact pl pb n :
  e_kind e = RExpr (Some pl) (Some pb) -> e_fmt e = sfmt n -> n = 1 \/ n = 2 \/ n = 4 \/ n = 8 -> e_old e = 0 ->
  decode_signed (sfmt n) (o_word o) = to_i64 (wrap 64 (pl - pb)) /\
  (- 2 ^ (8 * n - 1) <= to_i64 (wrap 64 (pl - pb)) < 2 ^ (8 * n - 1)).
Proof.
  intros Hk Hf Hn Ho. unfold relocate_entry in Hok. rewrite Hk, Hf, Ho in Hok.
  destruct (write_offset _ _ _) as [w|] eqn:Ew; [|discriminate]. injection Hok as <- <-. cbn [o_word o_rewrite o_slot].
  apply write0 in Ew.
  assert (Hwf : wf_contig (sfmt n)) by (unfold wf_contig, sfmt; cbn [vsize bits shift discard]; lia).
  pose proof (signed_roundtrip (sfmt n) _ w eq_refl Hwf (to_i64_int64 _) Ew) as (Hd & _).
  split; [exact Hd|].
  pose proof (signed_spec (sfmt n) _ eq_refl Hwf (to_i64_int64 (wrap 64 (pl - pb)))) as Hs. rewrite Ew in Hs.
  destruct Hs as ((_ & Hr) & _). unfold sfmt in Hr; cbn [vsize bits shift discard] in Hr. change (2 ^ 0) with 1 in Hr. rewrite Z.div_1_r in Hr. exact Hr.
Qed.
End Entry.

(* ------------------------------------------------------------------ unreachable targets are reported *)
Theorem abs32_overflow_reported base asize atoff slots e toff :
  e_kind e = RRelToAbs (Some toff) -> e_fmt e = ufmt 4 -> e_old e = 0 ->
  2 ^ 32 <= (e_payload e + base + toff) mod 2 ^ 64 ->
  relocate_entry base asize atoff slots e = inr RInvalidEntry.
Proof.
  intros Hk Hf Ho Hbig. destruct (relocate_entry base asize atoff slots e) as [[o s']|x] eqn:E.
  - pose proof (reloc_abs_exact _ _ _ _ _ _ _ E toff 4 Hk Hf ltac:(tauto) Ho) as (H1 & H2 & _). simpl in H2. lia.
  - unfold relocate_entry in E. rewrite Hk in E. destruct (write_offset _ _ _); [discriminate|]. injection E as <-. reflexivity.
Qed.

Theorem rel_out_of_range_reported base asize atoff slots e :
  e_kind e = RAbsToRel -> 4 < asize ->
  ~ (- 2 ^ 31 <= to_i64 (wrap 64 (e_payload e - (base + (e_secoff e + e_off e + e_region e)))) < 2 ^ 31) ->
  relocate_entry base asize atoff slots e = inr ROutOfRange.
Proof.
  intros Hk Ha Hr. unfold relocate_entry. rewrite Hk.
  replace (asize <=? 4) with false by (symmetry; apply Z.leb_gt; lia).
  destruct (is_int32 _) eqn:Ei; [apply is_int32_spec in Ei; contradiction|reflexivity].
Qed.

Theorem expr_unbound_reported base asize atoff slots e pl pb :
  e_kind e = RExpr pl pb -> pl = None \/ pb = None -> relocate_entry base asize atoff slots e = inr RExprUnbound.
Proof. intros Hk [-> | ->]; unfold relocate_entry; rewrite Hk; [reflexivity|destruct pl; reflexivity]. Qed.

(* ------------------------------------------------------------------ the whole list: every entry was relocated by relocate_entry
   with a slot table that only grows; slots stay duplicate-free *)
Theorem relocate_all_sound base asize atoff : forall es slots os slots',
  relocate_all base asize atoff slots es = inl (os, slots') ->
  extends slots slots' /\ (NoDup slots -> NoDup slots') /\ length os = length es /\
  forall i e o, nth_error es i = Some e -> nth_error os i = Some o ->
    exists s1 s2, relocate_entry base asize atoff s1 e = inl (o, s2) /\ extends slots s1 /\ extends s2 slots'.
Proof.
  induction es as [|e t IH]; intros slots os slots' H; simpl in H.
  - injection H as <- <-. split; [apply extends_refl|]. split; [auto|]. split; [reflexivity|]. intros [|i]; discriminate.
  - destruct (relocate_entry base asize atoff slots e) as [[o1 s1]|x] eqn:E1; [|discriminate].
    destruct (relocate_all base asize atoff s1 t) as [[os1 s2]|x] eqn:E2; [|discriminate]. injection H as <- <-.
    destruct (IH _ _ _ E2) as (X1 & X2 & X3 & X4).
    assert (Hs : extends slots s1 /\ (NoDup slots -> NoDup s1)).
    { unfold relocate_entry in E1.
      destruct (e_kind e) as [[pl|] [pb|]| |[toff|]| |opc]; try discriminate;
        try (destruct (write_offset _ _ _); [injection E1 as _ <-; split; [apply extends_refl|auto]|discriminate]).
      - destruct (asize <=? 4); [destruct (write_offset _ _ _); [injection E1 as _ <-; split; [apply extends_refl|auto]|discriminate]|].
        destruct (is_int32 _); [|discriminate].
        destruct (write_offset _ _ _); [injection E1 as _ <-; split; [apply extends_refl|auto]|discriminate].
      - destruct (negb _ || _); [discriminate|].
        destruct (is_int32 (to_i64 (wrap 64 _))).
        + destruct (write_offset _ _ _); [injection E1 as _ <-; split; [apply extends_refl|auto]|discriminate].
        + destruct (find_or_add (e_payload e) slots) as [slot sx] eqn:Ef.
          destruct (negb (is_int32 _)); [discriminate|].
          destruct (if opc =? 232 then _ else _); [|discriminate].
          destruct (write_offset _ _ _); [injection E1 as _ <-|discriminate].
          destruct (find_or_add_spec _ _ _ _ Ef) as (A & _ & _ & B & _). auto. }
    destruct Hs as (Hs1 & Hs2).
    split; [eapply extends_trans; eauto|]. split; [auto|]. split; [simpl; lia|].
    intros [|i] e0 o0 He Ho; simpl in He, Ho.
    + injection He as <-. injection Ho as <-. exists slots, s1. split; [exact E1|]. split; [apply extends_refl|exact X1].
    + destruct (X4 i e0 o0 He Ho) as (a & b & Y1 & Y2 & Y3). exists a, b. split; [exact Y1|].
      split; [eapply extends_trans; eauto|exact Y3].
Qed.

Theorem relocate_table base asize atoff reserved last es r :
  relocate base asize atoff reserved last es = inl r ->
  NoDup (rr_table r) /\ rr_table_size r = zlen (rr_table r) * asize /\
  rr_reduction r = (if last then reserved - rr_table_size r else 0) /\ length (rr_outs r) = length es.
Proof.
  unfold relocate. destruct (relocate_all base asize atoff [] es) as [[os slots]|x] eqn:E; [|discriminate].
  intros H. injection H as <-. simpl. destruct (relocate_all_sound _ _ _ _ _ _ _ E) as (_ & N & L & _).
  split; [apply N; constructor|]. auto.
Qed.

(* an address that already has a slot shares it *)
Theorem slot_shared a slots : In a slots -> snd (find_or_add a slots) = slots.
Proof.
  intros H. destruct (find_or_add a slots) as [i s] eqn:E. simpl.
  destruct (find_or_add_spec _ _ _ _ E) as (_ & _ & _ & _ & X). auto.
Qed.

(* ------------------------------------------------------------------ composition with C03: an embedded label address, after any program,
   layout and relocation to any base, is base + (section offset + label offset) + addend *)
Theorem embedded_label_address ops offs rid re base asize atoff slots o slots' ls lo n :
  let s := run init ops in
  nth_error (relocs s) rid = Some re -> rl_type re = RelToAbs -> rl_size re = n -> n = 1 \/ n = 2 \/ n = 4 \/ n = 8 ->
  nth_error (labels s) (rl_label re) = Some (Some (ls, lo)) ->
  relocate_entry base asize atoff slots (entry_of_reloc s offs re) = inl (o, slots') ->
  o_word o = (base + (nth ls offs 0 + lo) + rl_addend re) mod 2 ^ 64 /\ o_word o < 2 ^ (8 * n).
Proof.
  intros s Hr T Hs Hn Hl Hok. subst s.
  destruct (abs_exact ops rid re Hr T) as [(_ & X & _)|(ls' & lo' & Hl' & Hp & Ht)]; [congruence|].
  rewrite Hl in Hl'. injection Hl' as <- <-.
  pose proof (reloc_abs_exact base asize atoff slots _ o slots' Hok (nth ls offs 0) n) as R.
  unfold entry_of_reloc in R. simpl in R. rewrite T, Ht, Hs in R. specialize (R eq_refl eq_refl Hn eq_refl).
  destruct R as (R1 & R2 & _). split; [|exact R2]. rewrite R1, Hp.
  rewrite Zplus_mod, (Zplus_mod ((rl_addend re + lo) mod 2 ^ 64)), Z.mod_mod by lia.
  rewrite <- (Zplus_mod (rl_addend re + lo)), <- Zplus_mod. f_equal. lia.
Qed.

(* ------------------------------------------------------------------ base known when assembling = relocating to that base afterwards *)
Lemma enc_rel32_value off m : int64 off -> encode_offset (fmt_of_kind K_Rel32) off = Some m -> m = off mod 2 ^ 32.
Proof.
  intros Hi He.
  assert (Hwf : wf_contig (fmt_of_kind K_Rel32)) by (unfold wf_contig; cbn [fmt_of_kind vsize bits shift discard]; lia).
  pose proof (signed_spec (fmt_of_kind K_Rel32) off eq_refl Hwf Hi) as Hs. rewrite He in Hs. destruct Hs as (_ & ->).
  simpl. rewrite Z.div_1_r, Z.mul_1_r. reflexivity.
Qed.

Lemma enc_rel32_total off : - 2 ^ 31 <= off < 2 ^ 31 -> exists m, encode_offset (fmt_of_kind K_Rel32) off = Some m.
Proof.
  intros H.
  assert (Hwf : wf_contig (fmt_of_kind K_Rel32)) by (unfold wf_contig; cbn [fmt_of_kind vsize bits shift discard]; lia).
  assert (Hi : int64 off) by (unfold int64; lia).
  pose proof (signed_spec (fmt_of_kind K_Rel32) off eq_refl Hwf Hi) as Hs.
  destruct (encode_offset (fmt_of_kind K_Rel32) off) as [m|]; [eauto|]. exfalso. apply Hs. unfold signed_ok. simpl.
  rewrite Z.mod_1_r, Z.div_1_r. lia.
Qed.

Lemma to_i64_mod32 v : (to_i64 v) mod 2 ^ 32 = v mod 2 ^ 32.
Proof. rewrite <- (mod_mod_pow2 (to_i64 v) 32 64), to_i64_mod, mod_mod_pow2 by lia. reflexivity. Qed.

Theorem known_base_equiv_rel base asize atoff slots e :
  e_kind e = RAbsToRel -> e_fmt e = fmt_of_kind K_Rel32 -> e_old e = 0 ->
  let next := e_secoff e + e_off e + e_region e in
  let abits := if asize <=? 4 then 32 else 64 in
  (forall o s', relocate_entry base asize atoff slots e = inl (o, s') ->
                known_rel32 abits base next (e_payload e) = Some (o_word o)) /\
  (forall w, known_rel32 abits base next (e_payload e) = Some w ->
             relocate_entry base asize atoff slots e = inl ({| o_word := w; o_rewrite := None; o_slot := None |}, slots)).
Proof.
  intros Hk Hf Ho next abits. unfold relocate_entry, known_rel32, abits. rewrite Hk, Hf, Ho. fold next.
  set (v := wrap 64 (e_payload e - (base + next))).
  destruct (asize <=? 4) eqn:Ea; simpl (_ <=? 32).
  - assert (Hs : - 2 ^ 31 <= sext 32 v < 2 ^ 31).
    { rewrite sext_is_sextz. pose proof (sextz_range 32 v ltac:(lia)) as X. change (32 - 1) with 31 in X. exact X. }
    assert (E1 : to_i64 (wrap 64 (sext 32 v)) = sext 32 v) by (apply to_i64_wrap; lia).
    rewrite E1. destruct (enc_rel32_total _ Hs) as (m & He).
    assert (Hm : m = v mod 2 ^ 32).
    { assert (Hi : int64 (sext 32 v)) by (unfold int64; lia). rewrite (enc_rel32_value _ _ Hi He). rewrite sext_is_sextz. apply sextz_mod_id. lia. }
    unfold write_offset. rewrite He, Z.lor_0_l, Hm. split.
    + intros o s' H. injection H as <- <-. reflexivity.
    + intros w H. injection H as <-. reflexivity.
  - destruct (is_int32 (to_i64 v)) eqn:Ei.
    + apply is_int32_spec in Ei. destruct (enc_rel32_total _ Ei) as (m & He).
      assert (Hm : m = v mod 2 ^ 32) by (rewrite (enc_rel32_value _ _ (to_i64_int64 v) He); apply to_i64_mod32).
      unfold write_offset. rewrite He, Z.lor_0_l, Hm. split.
      * intros o s' H. injection H as <- <-. reflexivity.
      * intros w H. injection H as <-. reflexivity.
    + split; intros; discriminate.
Qed.

(* x86-64 call/jmp imm: when the target is within rel32 reach the entry is patched directly to the very field the known-base path emits;
   otherwise the known-base path records the same address-table entry *)
Theorem known_base_equiv_addr_entry base asize atoff slots e opc w :
  e_kind e = RAddrEntry opc -> e_fmt e = fmt_of_kind K_Rel32 -> e_old e = 0 -> 2 <= e_off e + e_lead e ->
  known_rel32 64 base (e_secoff e + e_off e + e_region e) (e_payload e) = Some w ->
  relocate_entry base asize atoff slots e = inl ({| o_word := w; o_rewrite := None; o_slot := None |}, slots).
Proof.
  intros Hk Hf Ho Hl. unfold relocate_entry, known_rel32. rewrite Hk, Hf, Ho. simpl (64 <=? 32).
  replace (negb (vsize (fmt_of_kind K_Rel32) =? 4) || (e_off e + e_lead e <? 2)) with false
    by (symmetry; apply orb_false_iff; split; [reflexivity|apply Z.ltb_ge; lia]).
  set (v := wrap 64 (e_payload e - (base + (e_secoff e + e_off e + e_region e)))).
  destruct (is_int32 (to_i64 v)) eqn:Ei; [|discriminate].
  apply is_int32_spec in Ei. destruct (enc_rel32_total _ Ei) as (m & He).
  assert (Hm : m = v mod 2 ^ 32) by (rewrite (enc_rel32_value _ _ (to_i64_int64 v) He); apply to_i64_mod32).
  intros H. injection H as <-. unfold write_offset. rewrite He, Z.lor_0_l, Hm. reflexivity.
Qed.

(* ------------------------------------------------------------------ AArch64 ADRP with an absolute target: AsmJit patches the field with
   target - pc and accepts it only when that is a multiple of 4096; then the architectural result Page(pc) + imm*4096 is Page(target) *)
Theorem adrp_page_exact pc d target :
  0 <= pc < 2 ^ 64 -> 0 <= target < 2 ^ 64 -> d mod 4096 = 0 -> (pc + d) mod 2 ^ 64 = target ->
  ((pc - pc mod 4096) + d) mod 2 ^ 64 = target - target mod 4096.
Proof.
  intros Hpc Ht Hd He.
  assert (Hlow : target mod 4096 = pc mod 4096).
  { rewrite <- He. change (2 ^ 64) with (4096 * 2 ^ 52). rewrite Z.rem_mul_r by lia.
    rewrite (Z.mul_comm 4096 (_ mod _)), Z.mod_add by lia. rewrite Z.mod_mod by lia.
    rewrite Zplus_mod, Hd, Z.add_0_r, Z.mod_mod by lia. reflexivity. }
  rewrite Hlow.
  replace (pc - pc mod 4096 + d) with ((pc + d) - pc mod 4096) by lia.
  assert (Hr : 0 <= target - pc mod 4096 < 2 ^ 64).
  { rewrite <- Hlow. pose proof (Z.mod_pos_bound target 4096 ltac:(lia)). pose proof (Z.mod_le target 4096 ltac:(lia) ltac:(lia)). lia. }
  pose proof (Z.div_mod (pc + d) (2 ^ 64) ltac:(lia)) as Hdm. rewrite He in Hdm.
  replace (pc + d - pc mod 4096) with ((target - pc mod 4096) + ((pc + d) / 2 ^ 64) * 2 ^ 64) by lia.
  rewrite Z.mod_add by lia. apply Z.mod_small. exact Hr.
Qed.

(* ------------------------------------------------------------------ label-delta expressions end to end (embed_label_delta recorded as kExpression):
   after ANY label program and ANY layout `offs` (in particular C10's flatten), relocating the recorded entry stores pos(label) - pos(base),
   where pos = offset of the label's section + label offset; it is refused when a label is unbound or the difference does not fit *)
Theorem delta_expression_end_to_end ops offs rid re l b base asize atoff slots o slots' n :
  let s := run init ops in
  nth_error (relocs s) rid = Some re -> rl_type re = Expr l b -> rl_size re = n -> n = 1 \/ n = 2 \/ n = 4 \/ n = 8 ->
  relocate_entry base asize atoff slots (entry_of_reloc s offs re) = inl (o, slots') ->
  exists ls lo bs bo,
    nth_error (labels s) l = Some (Some (ls, lo)) /\ nth_error (labels s) b = Some (Some (bs, bo)) /\
    let d := to_i64 (wrap 64 ((nth ls offs 0 + lo) - (nth bs offs 0 + bo))) in
    decode_signed (sfmt n) (o_word o) = d /\ - 2 ^ (8 * n - 1) <= d < 2 ^ (8 * n - 1).
Proof.
  intros s Hr Ht Hs Hn Hok.
  assert (Hk : e_kind (entry_of_reloc s offs re) = RExpr (label_pos (labels s) offs l) (label_pos (labels s) offs b))
    by (unfold entry_of_reloc; cbn [e_kind]; rewrite Ht; reflexivity).
  assert (Hf : e_fmt (entry_of_reloc s offs re) = sfmt n) by (unfold entry_of_reloc; cbn [e_fmt]; rewrite Ht, Hs; reflexivity).
  destruct (label_pos (labels s) offs l) as [pl|] eqn:El.
  2:{ rewrite (expr_unbound_reported base asize atoff slots _ None (label_pos (labels s) offs b) Hk (or_introl eq_refl)) in Hok. discriminate. }
  destruct (label_pos (labels s) offs b) as [pb|] eqn:Eb.
  2:{ rewrite (expr_unbound_reported base asize atoff slots _ (Some pl) None Hk (or_intror eq_refl)) in Hok. discriminate. }
  unfold label_pos in El, Eb.
  destruct (nth_error (labels s) l) as [[[ls lo]|]|] eqn:Ell; try discriminate. injection El as <-.
  destruct (nth_error (labels s) b) as [[[bs bo]|]|] eqn:Ebb; try discriminate. injection Eb as <-.
  exists ls, lo, bs, bo. split; [reflexivity|]. split; [reflexivity|].
  exact (reloc_expr_exact base asize atoff slots _ o slots' Hok _ _ n Hk Hf Hn eq_refl).
Qed.

Theorem delta_expression_unbound_reported ops offs rid re l b base asize atoff slots :
  let s := run init ops in
  nth_error (relocs s) rid = Some re -> rl_type re = Expr l b ->
  (nth_error (labels s) l = Some None \/ nth_error (labels s) b = Some None) ->
  relocate_entry base asize atoff slots (entry_of_reloc s offs re) = inr RExprUnbound.
Proof.
  intros s Hr Ht Hu.
  apply (expr_unbound_reported base asize atoff slots _ (label_pos (labels s) offs l) (label_pos (labels s) offs b)).
  - unfold entry_of_reloc; cbn [e_kind]; rewrite Ht; reflexivity.
  - unfold label_pos. destruct Hu as [H|H]; rewrite H; auto.
Qed.

(* C04 — run-time meaning of relocated AArch64 sites through the structural decoder of Labels/A64Dec.v: a `b/bl/b.cond/cbz/tbz/adr/ldr
   literal <absolute target>` whose word was patched by relocate_to_base (RelocType::kAbsToRel, payload = target + 4, region = 4) decodes
   to that instruction and designates the absolute target. *)
From Coq Require Import ZArith List Bool Lia.
From Verif Require Import Base.ZBits Codec.OffsetModel Codec.OffsetProofs Labels.LabelsModel Labels.LabelsExact Labels.A64Dec Reloc.RelocModel Reloc.RelocProofs.
Import ListNotations.
Local Open Scope Z_scope.

Theorem a64_reloc_designates_target base asize atoff slots e o slots' i :
  relocate_entry base asize atoff slots e = inl (o, slots') ->
  e_kind e = RAbsToRel -> 4 < asize -> e_fmt e = fmt_of_kind (kind_of i) -> e_old e = a64_enc (set_imm i 0) ->
  a64_wf (set_imm i 0) -> hole_ok (kind_of i) (e_old e) = true -> (forall r v, i <> IAdr true r v) ->
  let pc := base + e_secoff e + e_off e in
  exists v, a64_dec (o_word o) = Some (set_imm i v) /\
            a64_site_target pc (o_word o) = Some ((e_payload e - e_region e) mod 2 ^ 64).
Proof.
  intros Hre Hk Ha Hf Ho Hwf Hh Hnp pc.
  pose proof Hre as Hre'. unfold relocate_entry in Hre'. rewrite Hk, Hf in Hre'.
  replace (asize <=? 4) with false in Hre' by (symmetry; apply Z.leb_gt; lia).
  destruct (is_int32 _) eqn:Ei; [|discriminate].
  set (vv := wrap 64 (e_payload e - (base + (e_secoff e + e_off e + e_region e)))) in *.
  destruct (write_offset (fmt_of_kind (kind_of i)) (e_old e) (to_i64 vv)) as [w|] eqn:Ew; [|discriminate]. injection Hre' as <- _. cbn [o_word].
  apply write_offset_or in Ew. destruct Ew as (m & He & ->). rewrite Ho in *.
  destruct (a64_patched_meaning i (to_i64 vv) m pc Hwf Hh (to_i64_int64 _) He) as (Hd & Ht).
  eexists. split; [exact Hd|]. rewrite Ht.
  assert (Hnot : match i with IAdr true _ _ => False | _ => True end) by (destruct i as [| | | |[|] r v|]; auto; exfalso; eapply Hnp; reflexivity).
  replace (match i with IAdr true _ _ => ((pc - pc mod 4096 + to_i64 vv) mod 2 ^ 64) | _ => ((pc + to_i64 vv) mod 2 ^ 64) end) with ((pc + to_i64 vv) mod 2 ^ 64)
    by (destruct i as [| | | |[|] r v|]; try reflexivity; contradiction).
  f_equal. rewrite Zplus_mod, to_i64_mod. unfold vv, wrap. rewrite Z.mod_mod by lia. rewrite <- Zplus_mod. f_equal. unfold pc. lia.
Qed.

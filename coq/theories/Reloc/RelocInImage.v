(* C04 — the relocated x86 branch FOUND IN THE RELOCATED SECTION BYTES: whatever well-formed immediate-only instruction with a 4-byte
   immediate lies in the bytes relocate_to_base produced (C10's patch_all) so that it occupies the entry's region, decoding those bytes
   with C01's proven decoder designates the relocation's absolute target.  The immediate of the structural instruction is not assumed
   to be the relocated word: it is read from the bytes (cells of relocated_site_bytes -> read_word -> image_imm over C01's senc). *)
From Coq Require Import ZArith List Bool Lia.
From Verif Require Import Base.ZBits Codec.OffsetModel Codec.OffsetProofs Labels.LabelsModel Labels.LabelsExact Labels.FlatModel Labels.FlatLemmas
  Sections.CopyProofs Sections.JitReloc Sections.JitRelocProofs
  Reloc.RelocModel Reloc.RelocProofs Reloc.X86Meaning Reloc.InstalledImage Labels.X86RefMeaning Labels.X86EndToEnd Sections.SectionModel.
From Verif Require Import X86.X86Model X86.X86Proofs.
Import ListNotations.
Local Open Scope Z_scope.

Lemma nth_skipn_add {A} (d : A) : forall off (l : list A) i, nth i (skipn off l) d = nth (off + i) l d.
Proof.
  induction off as [|off IH]; intros l i; [reflexivity|]. destruct l as [|a t]; [destruct i; reflexivity|]. cbn [skipn Nat.add nth]. apply IH.
Qed.
Lemma firstn_skipn_cells (bs : list Z) n off : (off + n <= length bs)%nat ->
  firstn n (skipn off bs) = map (fun k => nth (off + k) bs 0) (seq 0 n).
Proof.
  intros H. apply nth_ext with (d := 0) (d' := 0).
  - rewrite firstn_length, skipn_length, map_length, seq_length. lia.
  - intros i Hi. rewrite firstn_length, skipn_length in Hi.
    rewrite nth_firstn_lt by lia. rewrite nth_skipn_add.
    set (f := fun k => nth (off + k) bs 0).
    rewrite (nth_indep (map f (seq 0 n)) 0 (f O)) by (rewrite map_length, seq_length; lia).
    rewrite map_nth, seq_nth by lia. reflexivity.
Qed.

Lemma jit_le_bytes_is_le_split n : forall v, JitReloc.le_bytes n v = le_split n v.
Proof. induction n as [|n IH]; intros v; cbn [JitReloc.le_bytes le_split]; [reflexivity|]. rewrite IH. reflexivity. Qed.

Lemma list_as_cells (l : list Z) : l = map (fun k => nth k l 0) (seq 0 (length l)).
Proof.
  apply nth_ext with (d := 0) (d' := 0); [rewrite map_length, seq_length; reflexivity|].
  intros i Hi. set (f := fun k => nth k l 0).
  rewrite (nth_indep (map f (seq 0 (length l))) 0 (f O)) by (rewrite map_length, seq_length; lia).
  rewrite map_nth, seq_nth by lia. reflexivity.
Qed.

Lemma read_word_of_cells bs off n w :
  0 <= off -> (Z.to_nat off + n <= length bs)%nat -> 0 <= w < 2 ^ (8 * Z.of_nat n) ->
  (forall k, 0 <= k < Z.of_nat n -> cell bs (off + k) = cell (JitReloc.le_bytes n w) k) ->
  FlatModel.read_word bs off n = w.
Proof.
  intros Ho Hlen Hw Hc. unfold FlatModel.read_word. rewrite firstn_skipn_cells by exact Hlen.
  assert (E : map (fun k => nth (Z.to_nat off + k) bs 0) (seq 0 n) = JitReloc.le_bytes n w).
  { rewrite (list_as_cells (JitReloc.le_bytes n w)) at 1. rewrite JitRelocProofs.le_bytes_length.
    apply map_ext_in. intros k Hk. apply in_seq in Hk.
    specialize (Hc (Z.of_nat k) ltac:(lia)). unfold cell in Hc. rewrite Nat2Z.id in Hc.
    replace (Z.to_nat (off + Z.of_nat k)) with (Z.to_nat off + k)%nat in Hc by lia. exact Hc. }
  rewrite E, jit_le_bytes_is_le_split. apply le_join_split_id. exact Hw.
Qed.

Theorem reloc_branch_in_image base asize atoff reserved last es r data i e o (m : mode) sh s c xr xx xb xr' (A B : list Z) :
  relocate base asize atoff reserved last es = inl r ->
  (forall e', In e' es -> site_wf data e') -> sites_disjoint es ->
  nth_error es i = Some e -> nth_error (rr_outs r) i = Some o ->
  e_kind e = RAbsToRel -> (if is64 m then 4 <? asize else asize <=? 4) = true -> e_fmt e = fmt_of_kind K_Rel32 -> e_old e = 0 ->
  patch_all data es (rr_outs r) = A ++ senc m sh s c ++ B ->
  zlen A = e_off e -> zlen (senc m sh s c) = e_region e -> e_lead e + 4 = e_region e -> sh_imm sh = 4%nat ->
  s_modrm s = MNone xr xx xb xr' -> wf m sh s = true -> adm m sh s c = true ->
  site_target m CBranch sh (base + e_secoff e + e_off e) (senc m sh s c ++ B) = Some (e_payload e mod 2 ^ abits m).
Proof.
  intros Er Hwfs Hdis He Ho Hk Ha Hf Hold Himg HA HL Hlead Hn Hm Hwf Hadm.
  destruct (relocated_site_bytes base asize atoff reserved last es r data i e o Er Hwfs Hdis He Ho) as (Hb & s1 & s2 & Hre).
  pose proof (reloc_word_range _ _ _ _ _ _ _ Hre Hf Hold (or_introl Hk)) as Hw.
  destruct (Hwfs e (nth_error_In _ _ He)) as (S2 & S1 & S3).
  assert (Hi : s_imm s = o_word o).
  { pose proof (image_imm A B m sh s c Hwf) as Hi. rewrite Hn in Hi. rewrite <- Himg in Hi.
    rewrite <- Hi. apply read_word_of_cells.
    - unfold site_lo in *. unfold zlen in *. lia.
    - rewrite Himg, !app_length. unfold zlen in *. lia.
    - change (2 ^ (8 * Z.of_nat 4)) with (2 ^ 32). exact Hw.
    - intros k Hk4. rewrite Hf in Hb. cbn [fmt_of_kind vsize] in Hb. change (Z.to_nat 4) with 4%nat in Hb.
      replace (zlen A + zlen (senc m sh s c) - Z.of_nat 4 + k) with (e_off e + e_lead e + k) by (change (Z.of_nat 4) with 4; lia).
      apply Hb. change (Z.of_nat 4) with 4 in Hk4. exact Hk4. }
  apply (branch_designates_target base asize atoff s1 e o s2 m sh s c xr xx xb xr' B Hre Hk Ha Hf Hold Hm Hi Hwf Hadm).
  unfold zlen in HL. lia.
Qed.

(* satisfiability: `jmp 0x401000` assembled at offset 0 of a section relocated to base 0x400000 *)
Definition ex_jmp_entry : rentry :=
  {| e_kind := RAbsToRel; e_secoff := 0; e_off := 0; e_lead := 1; e_region := 5; e_fmt := fmt_of_kind K_Rel32; e_payload := 4198400; e_old := 0 |}.

Example reloc_branch_in_image_witness :
  let sh := mkSh false false 4 1 in let c := mkC false 0 false in
  exists r o, relocate 4194304 8 0 0 false [ex_jmp_entry] = inl r /\ nth_error (rr_outs r) O = Some o /\
    (forall e', In e' [ex_jmp_entry] -> site_wf [233; 0; 0; 0; 0] e') /\ sites_disjoint [ex_jmp_entry] /\
    patch_all [233; 0; 0; 0; 0] [ex_jmp_entry] (rr_outs r) = [] ++ senc M64 sh (ex_jmp 4091) c ++ [] /\
    wf M64 sh (ex_jmp 4091) = true /\ adm M64 sh (ex_jmp 4091) c = true /\
    site_target M64 CBranch sh 4194304 (senc M64 sh (ex_jmp 4091) c ++ []) = Some 4198400.
Proof.
  cbv zeta. eexists. eexists. split; [vm_compute; reflexivity|]. split; [vm_compute; reflexivity|].
  split. { intros e' [<-|[]]. unfold site_wf, site_hi, ex_jmp_entry. cbn [e_off e_lead e_fmt fmt_of_kind vsize length]. lia. }
  split. { intros i j a b Ha Hb Hij. destruct i as [|[|i]], j as [|[|j]]; cbn in Ha, Hb; try discriminate; congruence. }
  repeat split; vm_compute; reflexivity.
Qed.

(* x86-64 `[abs]` operand turned RIP-relative by the assembler (AbsToRel on the disp32 of a memory operand, with or without a trailing
   immediate), found in the relocated bytes *)
Theorem reloc_rip_in_image base asize atoff reserved last es r data i e o sh s c reg d (A B : list Z) :
  relocate base asize atoff reserved last es = inl r ->
  (forall e', In e' es -> site_wf data e') -> sites_disjoint es ->
  nth_error es i = Some e -> nth_error (rr_outs r) i = Some o ->
  e_kind e = RAbsToRel -> 4 < asize -> e_fmt e = fmt_of_kind K_Rel32 -> e_old e = 0 ->
  patch_all data es (rr_outs r) = A ++ senc M64 sh s c ++ B ->
  zlen A = e_off e -> zlen (senc M64 sh s c) = e_region e -> e_lead e + 4 + Z.of_nat (sh_imm sh) = e_region e ->
  s_modrm s = MMem reg (mkM BRip None 0 d) -> wf M64 sh s = true -> adm M64 sh s c = true ->
  site_target M64 CMem sh (base + e_secoff e + e_off e) (senc M64 sh s c ++ B) = Some (e_payload e mod 2 ^ 64).
Proof.
  intros Er Hwfs Hdis He Ho Hk Ha Hf Hold Himg HA HL Hlead Hm Hwf Hadm.
  destruct (relocated_site_bytes base asize atoff reserved last es r data i e o Er Hwfs Hdis He Ho) as (Hb & s1 & s2 & Hre).
  pose proof (reloc_word_range _ _ _ _ _ _ _ Hre Hf Hold (or_introl Hk)) as Hw.
  destruct (Hwfs e (nth_error_In _ _ He)) as (S2 & S1 & S3).
  destruct (image_rip_disp A B sh s c reg d Hm Hwf) as (Hrd & Hd).
  assert (Ed : d = sext32 (o_word o)).
  { rewrite <- (sext32_mod d Hd). f_equal. rewrite <- Hrd, <- Himg. apply read_word_of_cells.
    - unfold site_lo in *. unfold zlen in *. lia.
    - rewrite Himg, !app_length. unfold zlen in *. lia.
    - change (2 ^ (8 * Z.of_nat 4)) with (2 ^ 32). exact Hw.
    - intros k Hk4. rewrite Hf in Hb. cbn [fmt_of_kind vsize] in Hb. change (Z.to_nat 4) with 4%nat in Hb.
      replace (zlen A + zlen (senc M64 sh s c) - Z.of_nat (sh_imm sh) - 4 + k) with (e_off e + e_lead e + k) by lia.
      apply Hb. change (Z.of_nat 4) with 4 in Hk4. exact Hk4. }
  rewrite Ed in Hm.
  apply (rip_operand_designates_target base asize atoff s1 e o s2 sh s c reg B Hre Hk Ha Hf Hold Hm Hwf Hadm).
  unfold zlen in HL. lia.
Qed.

(* the word read from the relocated bytes at a site is the word the model computed (any kind, any width) *)
Theorem relocated_site_word base asize atoff reserved last es r data i e o :
  relocate base asize atoff reserved last es = inl r ->
  (forall e', In e' es -> site_wf data e') -> sites_disjoint es ->
  nth_error es i = Some e -> nth_error (rr_outs r) i = Some o ->
  0 <= o_word o < 2 ^ (8 * vsize (e_fmt e)) ->
  FlatModel.read_word (patch_all data es (rr_outs r)) (e_off e + e_lead e) (Z.to_nat (vsize (e_fmt e))) = o_word o.
Proof.
  intros Er Hwfs Hdis He Ho Hw.
  destruct (relocated_site_bytes base asize atoff reserved last es r data i e o Er Hwfs Hdis He Ho) as (Hb & _).
  assert (Hlen : length (patch_all data es (rr_outs r)) = length data).
  { apply patch_all_length. intros e' He'. destruct (Hwfs e' He') as (X & Y & Z'). unfold site_hi in Z'. auto. }
  destruct (Hwfs e (nth_error_In _ _ He)) as (S2 & S1 & S3). unfold site_hi in S3.
  apply read_word_of_cells.
  - lia.
  - rewrite Hlen. lia.
  - rewrite Z2Nat.id by lia. exact Hw.
  - intros k Hk. rewrite Z2Nat.id in Hk by lia. apply Hb. exact Hk.
Qed.

From Verif Require Import Labels.A64Dec Reloc.A64Meaning.

Lemma a64_enc_range i : a64_wf i -> 0 <= a64_enc i < 2 ^ 32.
Proof.
  destruct i as [link imm|c imm|sf nz rt imm|b5 nz b40 rt imm|page rd imm|opc v rt imm]; cbn [a64_enc a64_wf]; intros H.
  5:{ pose proof (Z.mod_pos_bound imm (2 ^ 21) ltac:(pw)) as Hm. set (y := imm mod 2 ^ 21) in *.
      pose proof (Z.mod_pos_bound y 4 ltac:(lia)). assert (0 <= y / 4 < 2 ^ 19) by (split; [apply Z.div_pos; lia|apply Z.div_lt_upper_bound; [lia|change (4 * 2 ^ 19) with (2 ^ 21); lia]]).
      set (a := y mod 4) in *. set (b := y / 4) in *. destruct page; cbn [bz]; pw. }
  all: repeat match goal with |- context [?a mod ?m] => let q := fresh "q" in pose proof (Z.mod_pos_bound a m ltac:(pw)); set (q := a mod m) in * end;
    repeat match goal with b : bool |- _ => destruct b end; cbn [bz]; pw.
Qed.

(* an AArch64 b / bl / b.cond / adr / ldr-literal ... to an absolute address, found in the relocated bytes *)
Theorem a64_reloc_in_image base asize atoff reserved last es r data idx e o i :
  relocate base asize atoff reserved last es = inl r ->
  (forall e', In e' es -> site_wf data e') -> sites_disjoint es ->
  nth_error es idx = Some e -> nth_error (rr_outs r) idx = Some o ->
  e_kind e = RAbsToRel -> 4 < asize -> e_fmt e = fmt_of_kind (kind_of i) -> e_old e = a64_enc (set_imm i 0) ->
  a64_wf (set_imm i 0) -> hole_ok (kind_of i) (e_old e) = true -> (forall rg v, i <> IAdr true rg v) ->
  let pc := base + e_secoff e + e_off e in
  a64_site_target pc (FlatModel.read_word (patch_all data es (rr_outs r)) (e_off e + e_lead e) 4) = Some ((e_payload e - e_region e) mod 2 ^ 64).
Proof.
  intros Er Hwfs Hdis He Ho Hk Ha Hf Hold Hwf Hh Hnp pc.
  destruct (relocated_site_bytes base asize atoff reserved last es r data idx e o Er Hwfs Hdis He Ho) as (_ & s1 & s2 & Hre).
  destruct (a64_reloc_designates_target base asize atoff s1 e o s2 i Hre Hk Ha Hf Hold Hwf Hh Hnp) as (v & _ & Ht).
  assert (Hw : 0 <= o_word o < 2 ^ 32).
  { pose proof Hre as Hre'. unfold relocate_entry in Hre'. rewrite Hk, Hf in Hre'.
    replace (asize <=? 4) with false in Hre' by (symmetry; apply Z.leb_gt; lia).
    destruct (is_int32 _); [|discriminate].
    destruct (write_offset (fmt_of_kind (kind_of i)) (e_old e) _) as [w|] eqn:Ew; [|discriminate]. injection Hre' as <- _. cbn [o_word].
    apply write_offset_or in Ew. destruct Ew as (m & Hem & ->). rewrite Hold in *.
    destruct (a64_patched_word i _ m Hwf Hh (to_i64_int64 _) Hem) as (Ew & Hwfv & _). rewrite Ew. apply a64_enc_range. exact Hwfv. }
  assert (Hv : vsize (e_fmt e) = 4) by (rewrite Hf; destruct i as [| | | |[|]|]; reflexivity).
  pose proof (relocated_site_word base asize atoff reserved last es r data idx e o Er Hwfs Hdis He Ho) as Hrw.
  rewrite Hv in Hrw. change (Z.to_nat 4) with 4%nat in Hrw. rewrite Hrw by (change (8 * 4) with 32; exact Hw). exact Ht.
Qed.

Definition ex_lea_entry : rentry :=
  {| e_kind := RAbsToRel; e_secoff := 0; e_off := 0; e_lead := 3; e_region := 7; e_fmt := fmt_of_kind K_Rel32; e_payload := 4198400; e_old := 0 |}.

Example reloc_rip_in_image_witness :
  let sh := mkSh true false 0 1 in let c := mkC false 0 false in
  exists r o, relocate 4194304 8 0 0 false [ex_lea_entry] = inl r /\ nth_error (rr_outs r) O = Some o /\
    (forall e', In e' [ex_lea_entry] -> site_wf [72; 141; 5; 0; 0; 0; 0] e') /\ sites_disjoint [ex_lea_entry] /\
    patch_all [72; 141; 5; 0; 0; 0; 0] [ex_lea_entry] (rr_outs r) = [] ++ senc M64 sh (ex_lea 4089) c ++ [] /\
    wf M64 sh (ex_lea 4089) = true /\ adm M64 sh (ex_lea 4089) c = true /\
    site_target M64 CMem sh 4194304 (senc M64 sh (ex_lea 4089) c ++ []) = Some 4198400.
Proof.
  cbv zeta. eexists. eexists. split; [vm_compute; reflexivity|]. split; [vm_compute; reflexivity|].
  split. { intros e' [<-|[]]. unfold site_wf, site_hi, ex_lea_entry. cbn [e_off e_lead e_fmt fmt_of_kind vsize length]. lia. }
  split. { intros i j a b Ha Hb Hij. destruct i as [|[|i]], j as [|[|j]]; cbn in Ha, Hb; try discriminate; congruence. }
  repeat split; vm_compute; reflexivity.
Qed.

(* `b <0x401000>` at offset 0 of a section relocated to 0x400000 (AsmJit measures the AbsToRel distance from the END of the region, so the
   instruction designates payload - 4: the recorded behaviour of relocate_to_base for AArch64, cf. C04_a64_reloc_designates_target) *)
Definition ex_b_entry : rentry :=
  {| e_kind := RAbsToRel; e_secoff := 0; e_off := 0; e_lead := 0; e_region := 4; e_fmt := fmt_of_kind K_Imm26; e_payload := 4198400; e_old := 335544320 |}.

Example a64_reloc_in_image_witness :
  exists r o, relocate 4194304 8 0 0 false [ex_b_entry] = inl r /\ nth_error (rr_outs r) O = Some o /\
    (forall e', In e' [ex_b_entry] -> site_wf [0; 0; 0; 20] e') /\ sites_disjoint [ex_b_entry] /\
    e_old ex_b_entry = a64_enc (set_imm (IB false 0) 0) /\ a64_wf (set_imm (IB false 0) 0) /\ hole_ok (kind_of (IB false 0)) (e_old ex_b_entry) = true /\
    a64_site_target 4194304 (FlatModel.read_word (patch_all [0; 0; 0; 20] [ex_b_entry] (rr_outs r)) 0 4) = Some 4198396.
Proof.
  eexists. eexists. split; [vm_compute; reflexivity|]. split; [vm_compute; reflexivity|].
  split. { intros e' [<-|[]]. unfold site_wf, site_hi, ex_b_entry. cbn [e_off e_lead e_fmt fmt_of_kind vsize length]. lia. }
  split. { intros i j a b Ha Hb Hij. destruct i as [|[|i]], j as [|[|j]]; cbn in Ha, Hb; try discriminate; congruence. }
  split; [vm_compute; reflexivity|]. split; [vm_compute; split; [discriminate|reflexivity]|]. split; vm_compute; reflexivity.
Qed.

(* ------------------------------------------------------------------ x86-32 absolute memory operands *)
(* the disp32 of an absolute (no base, no index) memory operand of a 32-bit-mode instruction, read from the bytes *)
Lemma image_abs_disp (A B : list Z) sh s c reg d :
  s_modrm s = MMem reg (mkM BNone None 0 d) -> wf M32 sh s = true -> p_67 (s_pfx s) = false ->
  FlatModel.read_word (A ++ senc M32 sh s c ++ B) (zlen A + zlen (senc M32 sh s c) - Z.of_nat (sh_imm sh) - 4) 4 = d mod 4294967296 /\
  -2147483648 <= d < 2147483648.
Proof.
  intros Hm Hwf H67. destruct (X86RefMeaning.wf_modrm_of _ _ _ Hwf) as (lim & limx & ext & Hw). rewrite Hm in Hw. cbn [wf_modrm] in Hw.
  apply andb_prop in Hw. destruct Hw as (_ & Hw). unfold wf_mem in Hw.
  assert (Ea : a16 M32 (s_pfx s) = false) by (unfold a16; rewrite H67; reflexivity). rewrite Ea in Hw. cbv iota in Hw.
  cbn [m_disp] in Hw. do 3 (apply andb_prop in Hw; destruct Hw as (Hw & _)).
  unfold zin in Hw. apply andb_prop in Hw. destruct Hw as (D1 & D2). apply Z.leb_le in D1. apply Z.ltb_lt in D2.
  split; [|lia].
  unfold senc. rewrite Hm. cbn [enc_modrm]. unfold enc_mem. rewrite Ea. cbv iota. cbn [m_base m_index m_disp m_scale is64 orb].
  set (n := sh_imm sh).
  set (D := X86Model.le_bytes 4 (d mod 4294967296)). set (I := X86Model.le_bytes n (s_imm s)).
  assert (LD : length D = 4%nat) by apply X86Proofs.le_bytes_length. assert (LI : length I = n) by apply X86Proofs.le_bytes_length.
  assert (G : forall P : list Z, FlatModel.read_word (A ++ (P ++ D ++ I) ++ B) (zlen A + zlen (P ++ D ++ I) - Z.of_nat n - 4) 4 = d mod 4294967296).
  { intros P. rewrite !FlatLemmas.zlen_app. unfold zlen at 3 4. rewrite LD, LI.
    replace (zlen A + (zlen P + (Z.of_nat 4 + Z.of_nat n)) - Z.of_nat n - 4) with (zlen A + zlen P) by lia.
    rewrite FlatLemmas.read_word_app_r by (pose proof (Zle_0_nat (length P)); unfold zlen; lia).
    replace (zlen A + zlen P - zlen A) with (zlen P) by lia. rewrite <- !app_assoc.
    rewrite FlatLemmas.read_word_app_r by lia. rewrite Z.sub_diag.
    rewrite FlatLemmas.read_word_at0 by exact LD. unfold D.
    rewrite le_bytes_is_le_split. apply FlatLemmas.le_join_split_id. change (2 ^ (8 * Z.of_nat 4)) with 4294967296. apply Z.mod_pos_bound. lia. }
  destruct (c_sib c).
  - specialize (G (enc_prefixes (s_pfx s) ++ enc_lead (rhead_of s) (c_vex3 c) ++ [modrm_byte 0 reg 4; sib_byte 0 4 5])).
    rewrite <- !app_assoc in G. cbn [app] in G. rewrite <- !app_assoc. cbn [app]. exact G.
  - specialize (G (enc_prefixes (s_pfx s) ++ enc_lead (rhead_of s) (c_vex3 c) ++ [modrm_byte 0 reg 5])).
    rewrite <- !app_assoc in G. cbn [app] in G. rewrite <- !app_assoc. cbn [app]. exact G.
Qed.

(* x86-32 `op reg, [label + disp]` / `op [label + disp], imm` (RelToAbs on the disp32 of an absolute memory operand) found in the
   relocated bytes: decoding them designates base + target section offset + payload; the displacement is read from the bytes *)
Theorem reloc_abs32_in_image base asize atoff reserved last es r data i e o sh s c reg d toff (A B : list Z) :
  relocate base asize atoff reserved last es = inl r ->
  (forall e', In e' es -> site_wf data e') -> sites_disjoint es ->
  nth_error es i = Some e -> nth_error (rr_outs r) i = Some o ->
  e_kind e = RRelToAbs (Some toff) -> e_fmt e = ufmt 4 -> e_old e = 0 ->
  patch_all data es (rr_outs r) = A ++ senc M32 sh s c ++ B ->
  zlen A = e_off e -> e_lead e + 4 + Z.of_nat (sh_imm sh) = zlen (senc M32 sh s c) ->
  s_modrm s = MMem reg (mkM BNone None 0 d) -> p_67 (s_pfx s) = false -> wf M32 sh s = true -> adm M32 sh s c = true ->
  site_target M32 CMem sh (base + e_secoff e + e_off e) (senc M32 sh s c ++ B) = Some ((e_payload e + base + toff) mod 2 ^ 64) /\
  (e_payload e + base + toff) mod 2 ^ 64 < 2 ^ 32.
Proof.
  intros Er Hwfs Hdis He Ho Hk Hf Hold Himg HA Hlead Hm H67 Hwf Hadm.
  destruct (relocated_site_bytes base asize atoff reserved last es r data i e o Er Hwfs Hdis He Ho) as (Hb & s1 & s2 & Hre).
  destruct (reloc_abs_exact base asize atoff s1 e o s2 Hre toff 4 Hk Hf ltac:(tauto) Hold) as (Hw & Hlt & _).
  assert (Hrange : 0 <= o_word o < 2 ^ 32) by (split; [rewrite Hw; apply Z.mod_pos_bound; lia|exact Hlt]).
  destruct (Hwfs e (nth_error_In _ _ He)) as (S2 & S1 & S3).
  destruct (image_abs_disp A B sh s c reg d Hm Hwf H67) as (Hrd & Hd).
  assert (Ed : d = sext32 (o_word o)).
  { rewrite <- (sext32_mod d Hd). f_equal. rewrite <- Hrd, <- Himg. apply read_word_of_cells.
    - unfold zlen in *. lia.
    - rewrite Himg, !app_length. unfold zlen in *. lia.
    - change (2 ^ (8 * Z.of_nat 4)) with (2 ^ 32). exact Hrange.
    - intros k Hk4. rewrite Hf in Hb. cbn [ufmt vsize] in Hb. change (Z.to_nat 4) with 4%nat in Hb.
      replace (zlen A + zlen (senc M32 sh s c) - Z.of_nat (sh_imm sh) - 4 + k) with (e_off e + e_lead e + k) by lia.
      apply Hb. change (Z.of_nat 4) with 4 in Hk4. exact Hk4. }
  rewrite Ed in Hm.
  exact (abs32_operand_designates_target base asize atoff s1 e o s2 sh s c reg toff B Hre Hk Hf Hold Hm Hwf Hadm).
Qed.

Definition ex_mov32 (d : Z) : sinst :=
  {| s_pfx := ex_pfx; s_kind := KLeg; s_rex := false; s_W := false; s_vvvv := 0; s_V' := false; s_L := 0; s_pp := 0; s_map := 0;
     s_opc := 139; s_aaa := 0; s_z := false; s_b := false; s_modrm := MMem 0 (mkM BNone None 0 d); s_imm := 0 |}.
Definition ex_abs32_entry : rentry :=
  {| e_kind := RRelToAbs (Some 256); e_secoff := 0; e_off := 0; e_lead := 2; e_region := 6; e_fmt := ufmt 4; e_payload := 8; e_old := 0 |}.

(* `mov eax, [L]` (8B 05 disp32) with L at offset 8 of a section placed at 256, relocated to base 0x400000: the operand is 0x400108 *)
Example reloc_abs32_in_image_witness :
  let sh := mkSh true false 0 1 in let c := mkC false 0 false in
  exists r o, relocate 4194304 4 0 0 false [ex_abs32_entry] = inl r /\ nth_error (rr_outs r) O = Some o /\
    (forall e', In e' [ex_abs32_entry] -> site_wf [139; 5; 0; 0; 0; 0] e') /\ sites_disjoint [ex_abs32_entry] /\
    patch_all [139; 5; 0; 0; 0; 0] [ex_abs32_entry] (rr_outs r) = [] ++ senc M32 sh (ex_mov32 4194568) c ++ [] /\
    wf M32 sh (ex_mov32 4194568) = true /\ adm M32 sh (ex_mov32 4194568) c = true /\
    site_target M32 CMem sh 4194304 (senc M32 sh (ex_mov32 4194568) c ++ []) = Some 4194568.
Proof.
  cbv zeta. eexists. eexists. split; [vm_compute; reflexivity|]. split; [vm_compute; reflexivity|].
  split. { intros e' [<-|[]]. unfold site_wf, site_hi, ex_abs32_entry. cbn [e_off e_lead e_fmt ufmt vsize length]. lia. }
  split. { intros i j a b Ha Hb Hij. destruct i as [|[|i]], j as [|[|j]]; cbn in Ha, Hb; try discriminate; congruence. }
  repeat split; vm_compute; reflexivity.
Qed.

(* ------------------------------------------------------------------ round 7: END TO END on the relocated bytes, no structural-instruction hypothesis *)
(* a site whose patch does not rewrite the two bytes in front of the value word leaves every cell outside the value word alone *)
Lemma patch_site_outside_nr data e o c : 0 <= e_off e + e_lead e -> 0 <= vsize (e_fmt e) ->
  e_off e + e_lead e + vsize (e_fmt e) <= Z.of_nat (length data) -> 0 <= c -> o_rewrite o = None ->
  ~ (e_off e + e_lead e <= c < e_off e + e_lead e + vsize (e_fmt e)) ->
  cell (patch_site data e o) c = cell data c.
Proof.
  intros H2 Hv Hb Hc Hn Hout. unfold patch_site. rewrite Hn.
  rewrite write_at_cell; [|lia|rewrite JitRelocProofs.le_bytes_length; lia|assumption]. rewrite JitRelocProofs.le_bytes_length.
  destruct (Z.leb_spec (e_off e + e_lead e) c); destruct (Z.ltb_spec c (e_off e + e_lead e + Z.of_nat (Z.to_nat (vsize (e_fmt e))))); cbn [andb]; try reflexivity; lia.
Qed.

Definition leaves_alone (c : Z) (e : rentry) (o : rout) : Prop :=
  ~ (site_lo e <= c < site_hi e) \/ (o_rewrite o = None /\ ~ (e_off e + e_lead e <= c < site_hi e)).

Lemma patch_all_outside_gen es : forall outs data c, 0 <= c ->
  (forall e, In e es -> site_wf data e) ->
  (forall e o, In (e, o) (combine es outs) -> leaves_alone c e o) ->
  cell (patch_all data es outs) c = cell data c.
Proof.
  induction es as [|e t IH]; intros outs data c Hc Hwf H; cbn [patch_all]; [reflexivity|]. destruct outs as [|o ot]; [reflexivity|].
  destruct (Hwf e (or_introl eq_refl)) as (H2 & Hv & Hb). unfold site_hi in Hb.
  assert (Hlen : length (patch_site data e o) = length data) by (apply patch_site_length; assumption).
  rewrite IH.
  - destruct (H e o (or_introl eq_refl)) as [Hout|(Hn & Hout)]; unfold site_lo, site_hi in Hout.
    + apply patch_site_outside; assumption.
    + apply patch_site_outside_nr; assumption.
  - exact Hc.
  - intros e' He'. destruct (Hwf e' (or_intror He')) as (A & B & C). split; [exact A|split; [exact B|]]. rewrite Hlen. exact C.
  - intros e' o' Hin. apply H. right. exact Hin.
Qed.

Lemma cell_app_r (A X : list Z) k : 0 <= k -> cell (A ++ X) (zlen A + k) = cell X k.
Proof. intros H. unfold cell, zlen. rewrite app_nth2 by lia. f_equal. lia. Qed.
Lemma cell_app_l (X Y : list Z) k : 0 <= k < zlen X -> cell (X ++ Y) k = cell X k.
Proof. intros H. unfold cell, zlen in *. apply app_nth1. lia. Qed.

Lemma in_combine_nth {A B} (l : list A) : forall (l' : list B) x y, In (x, y) (combine l l') -> exists j, nth_error l j = Some x /\ nth_error l' j = Some y.
Proof.
  induction l as [|a t IH]; intros l' x y H; [destruct H|]. destruct l' as [|b t']; [destruct H|]. cbn [combine In] in H.
  destruct H as [E|H]; [injection E as <- <-; exists O; auto|]. destruct (IH t' x y H) as (j & H1 & H2). exists (S j). auto.
Qed.

Lemma abs_to_rel_no_rewrite base asize atoff slots e o s' :
  relocate_entry base asize atoff slots e = inl (o, s') -> e_kind e = RAbsToRel -> o_rewrite o = None.
Proof.
  intros H Hk. unfold relocate_entry in H. rewrite Hk in H.
  destruct (asize <=? 4); [|destruct (is_int32 _); [|discriminate]]; destruct (write_offset _ _ _); try discriminate; injection H as <- _; reflexivity.
Qed.

(* END TO END on the relocated bytes: `call / jmp / jcc <absolute>` emitted as `pre` + a zero rel32 hole (RelocType::kAbsToRel), no
   other relocation site touching the instruction: decoding the relocated bytes at the instruction's first byte designates the target *)
Theorem reloc_branch_end_to_end base asize atoff reserved last es r data i e o (m : mode) pre mk (A Hh B : list Z) :
  branch_form m 4 pre mk ->
  relocate base asize atoff reserved last es = inl r ->
  (forall e', In e' es -> site_wf data e') -> sites_disjoint es ->
  nth_error es i = Some e -> nth_error (rr_outs r) i = Some o ->
  e_kind e = RAbsToRel -> (if is64 m then 4 <? asize else asize <=? 4) = true -> e_fmt e = fmt_of_kind K_Rel32 -> e_old e = 0 ->
  data = A ++ pre ++ Hh ++ B -> length Hh = 4%nat ->
  e_off e = zlen A -> e_lead e = zlen pre -> e_region e = zlen pre + 4 ->
  (forall j e', j <> i -> nth_error es j = Some e' -> site_hi e' <= zlen A \/ zlen A + zlen pre + 4 <= site_lo e') ->
  site_target m CBranch (mkSh false false 4 1) (base + e_secoff e + e_off e) (skipn (Z.to_nat (zlen A)) (patch_all data es (rr_outs r)))
    = Some (e_payload e mod 2 ^ abits m).
Proof.
  intros F Er Hwfs Hdis He Ho Hk Ha Hf Hold Hdata HlenH Eoff Elead Ereg Hreg.
  destruct (relocated_site_bytes base asize atoff reserved last es r data i e o Er Hwfs Hdis He Ho) as (Hb & s1 & s2 & Hre).
  pose proof (reloc_word_range _ _ _ _ _ _ _ Hre Hf Hold (or_introl Hk)) as Hw.
  pose proof (abs_to_rel_no_rewrite _ _ _ _ _ _ _ Hre Hk) as Hnr.
  set (P := patch_all data es (rr_outs r)). set (w := o_word o) in *. set (a := zlen A) in *. set (np := zlen pre) in *.
  assert (HlenP : length P = length data).
  { apply patch_all_length. intros e' He'. destruct (Hwfs e' He') as (X & Y & Z'). unfold site_hi in Z'. auto. }
  assert (Hdl : zlen data = a + np + 4 + zlen B).
  { rewrite Hdata. rewrite !zlen_app. unfold zlen at 3. rewrite HlenH. unfold a, np. lia. }
  assert (Ha0 : 0 <= a) by (unfold a, zlen; lia). assert (Hnp0 : 0 <= np) by (unfold np, zlen; lia). assert (HB0 : 0 <= zlen B) by (unfold zlen; lia).
  (* the cells of the instruction region in the relocated bytes *)
  assert (Cpre : forall k, 0 <= k < np -> cell P (a + k) = cell pre k).
  { intros k Hk'. unfold P. rewrite patch_all_outside_gen; [| lia | exact Hwfs |].
    - rewrite Hdata. unfold a. rewrite cell_app_r by lia. apply cell_app_l. exact Hk'.
    - intros e' o' Hin. destruct (in_combine_nth _ _ _ _ Hin) as (j & Hj1 & Hj2).
      destruct (Nat.eq_dec j i) as [->|Nj].
      + rewrite He in Hj1. injection Hj1 as <-. rewrite Ho in Hj2. injection Hj2 as <-. right. split; [exact Hnr|]. unfold site_hi. rewrite Eoff, Elead. fold a np. lia.
      + left. destruct (Hreg j e' Nj Hj1) as [D|D]; fold a np in D; lia. }
  assert (Cw : forall k, 0 <= k < 4 -> cell P (a + np + k) = cell (JitReloc.le_bytes 4 w) k).
  { intros k Hk'. rewrite Hf in Hb. cbn [fmt_of_kind vsize] in Hb. change (Z.to_nat 4) with 4%nat in Hb. rewrite Eoff, Elead in Hb. fold a np in Hb. apply Hb. exact Hk'. }
  set (n := (length pre + 4)%nat).
  assert (Hfirst : firstn n (skipn (Z.to_nat a) P) = pre ++ JitReloc.le_bytes 4 w).
  { rewrite firstn_skipn_cells by (rewrite HlenP; unfold zlen, n in *; lia).
    rewrite (list_as_cells (pre ++ JitReloc.le_bytes 4 w)). rewrite app_length, JitRelocProofs.le_bytes_length. fold n.
    apply map_ext_in. intros k Hk'. apply in_seq in Hk'.
    destruct (Nat.lt_ge_cases k (length pre)) as [L|G].
    - specialize (Cpre (Z.of_nat k) ltac:(unfold np, zlen; lia)). unfold cell in Cpre.
      replace (Z.to_nat (a + Z.of_nat k)) with (Z.to_nat a + k)%nat in Cpre by lia. rewrite Nat2Z.id in Cpre. rewrite Cpre. symmetry. apply app_nth1. exact L.
    - specialize (Cw (Z.of_nat k - np) ltac:(unfold np, zlen, n in *; lia)). unfold cell in Cw.
      replace (Z.to_nat (a + np + (Z.of_nat k - np))) with (Z.to_nat a + k)%nat in Cw by lia. rewrite Cw.
      rewrite app_nth2 by exact G. f_equal. unfold np, zlen. lia. }
  assert (Hsplit : skipn (Z.to_nat a) P = (pre ++ JitReloc.le_bytes 4 w) ++ skipn n (skipn (Z.to_nat a) P))
    by (rewrite <- (firstn_skipn n (skipn (Z.to_nat a) P)) at 1; rewrite Hfirst; reflexivity).
  assert (Henc : senc m (mkSh false false 4 1) (mk w) (mkC false 0 false) = pre ++ JitReloc.le_bytes 4 w)
    by (rewrite (bf_enc _ _ _ _ F); f_equal; rewrite le_bytes_is_le_split; symmetry; apply jit_le_bytes_is_le_split).
  fold a. rewrite Hsplit, <- Henc.
  apply (branch_designates_target base asize atoff s1 e o s2 m (mkSh false false 4 1) (mk w) (mkC false 0 false) false false false false _
           Hre Hk Ha Hf Hold (bf_modrm _ _ _ _ F w) (bf_imm _ _ _ _ F w)
           (bf_wf _ _ _ _ F w ltac:(change (256 ^ Z.of_nat 4) with (2 ^ 32); exact Hw)) (bf_adm _ _ _ _ F w)).
  rewrite Henc, app_length, JitRelocProofs.le_bytes_length, Ereg. unfold np, zlen. lia.
Qed.

Example reloc_branch_end_to_end_witness :
  exists r o, branch_form M64 4 [233] (mk_leg false 0 233) /\
    relocate 4194304 8 0 0 false [ex_jmp_entry] = inl r /\ nth_error (rr_outs r) O = Some o /\
    (forall e', In e' [ex_jmp_entry] -> site_wf [233; 0; 0; 0; 0] e') /\ sites_disjoint [ex_jmp_entry] /\
    [233; 0; 0; 0; 0] = [] ++ [233] ++ [0; 0; 0; 0] ++ [] /\
    (forall j e', j <> O -> nth_error [ex_jmp_entry] j = Some e' -> site_hi e' <= zlen (@nil Z) \/ zlen (@nil Z) + zlen [233] + 4 <= site_lo e') /\
    site_target M64 CBranch (mkSh false false 4 1) (4194304 + 0 + 0) (skipn (Z.to_nat (zlen (@nil Z))) (patch_all [233; 0; 0; 0; 0] [ex_jmp_entry] (rr_outs r)))
      = Some 4198400.
Proof.
  eexists. eexists. split; [apply form_jmp32|]. split; [vm_compute; reflexivity|]. split; [vm_compute; reflexivity|].
  split. { intros e' [<-|[]]. unfold site_wf, site_hi, ex_jmp_entry. cbn [e_off e_lead e_fmt fmt_of_kind vsize length]. lia. }
  split. { intros i j a b Ha Hb Hij. destruct i as [|[|i]], j as [|[|j]]; cbn in Ha, Hb; try discriminate; congruence. }
  split; [reflexivity|]. split.
  - intros [|[|j]] e' Hj H; cbn in H; try discriminate. congruence.
  - vm_compute. reflexivity.
Qed.

(* the relocated bytes of an instruction region pre ++ hole ++ post whose only relocation site is the hole (no opcode rewrite) *)
Lemma relocated_region base asize atoff reserved last es r data i e o pre post (A Hh B : list Z) :
  relocate base asize atoff reserved last es = inl r ->
  (forall e', In e' es -> site_wf data e') -> sites_disjoint es ->
  nth_error es i = Some e -> nth_error (rr_outs r) i = Some o -> o_rewrite o = None -> vsize (e_fmt e) = 4 ->
  data = A ++ pre ++ Hh ++ post ++ B -> length Hh = 4%nat ->
  e_off e = zlen A -> e_lead e = zlen pre ->
  (forall j e', j <> i -> nth_error es j = Some e' -> site_hi e' <= zlen A \/ zlen A + zlen pre + 4 + zlen post <= site_lo e') ->
  exists rest, skipn (Z.to_nat (zlen A)) (patch_all data es (rr_outs r)) = (pre ++ JitReloc.le_bytes 4 (o_word o) ++ post) ++ rest.
Proof.
  intros Er Hwfs Hdis He Ho Hnr Hv Hdata HlenH Eoff Elead Hreg.
  destruct (relocated_site_bytes base asize atoff reserved last es r data i e o Er Hwfs Hdis He Ho) as (Hb & _).
  set (P := patch_all data es (rr_outs r)). set (w := o_word o) in *. set (a := zlen A) in *. set (np := zlen pre) in *. set (nq := zlen post) in *.
  assert (HlenP : length P = length data).
  { apply patch_all_length. intros e' He'. destruct (Hwfs e' He') as (X & Y & Z'). unfold site_hi in Z'. auto. }
  assert (Hdl : zlen data = a + np + 4 + nq + zlen B).
  { rewrite Hdata. rewrite !zlen_app. unfold zlen at 3. rewrite HlenH. unfold a, np, nq. lia. }
  assert (Ha0 : 0 <= a) by (unfold a, zlen; lia). assert (Hnp0 : 0 <= np) by (unfold np, zlen; lia).
  assert (Hnq0 : 0 <= nq) by (unfold nq, zlen; lia). assert (HB0 : 0 <= zlen B) by (unfold zlen; lia).
  assert (Cout : forall c, a <= c < a + np + 4 + nq -> ~ (a + np <= c < a + np + 4) -> cell P c = cell data c).
  { intros c Hc Hnw. unfold P. apply patch_all_outside_gen; [lia|exact Hwfs|].
    intros e' o' Hin. destruct (in_combine_nth _ _ _ _ Hin) as (j & Hj1 & Hj2).
    destruct (Nat.eq_dec j i) as [->|Nj].
    - rewrite He in Hj1. injection Hj1 as <-. rewrite Ho in Hj2. injection Hj2 as <-. right. split; [exact Hnr|]. unfold site_hi. rewrite Eoff, Elead, Hv. fold a np. lia.
    - left. destruct (Hreg j e' Nj Hj1) as [D|D]; fold a np nq in D; lia. }
  assert (Cpre : forall k, 0 <= k < np -> cell P (a + k) = cell pre k).
  { intros k Hk. rewrite Cout by lia. rewrite Hdata. unfold a. rewrite cell_app_r by lia. apply cell_app_l. exact Hk. }
  assert (Cw : forall k, 0 <= k < 4 -> cell P (a + np + k) = cell (JitReloc.le_bytes 4 w) k).
  { intros k Hk. rewrite Hv in Hb. change (Z.to_nat 4) with 4%nat in Hb. rewrite Eoff, Elead in Hb. fold a np in Hb. apply Hb. exact Hk. }
  assert (Cpost : forall k, 0 <= k < nq -> cell P (a + np + 4 + k) = cell post k).
  { intros k Hk. rewrite Cout by lia. rewrite Hdata. unfold a.
    replace (zlen A + np + 4 + k) with (zlen A + (np + (4 + k))) by lia. rewrite cell_app_r by lia.
    unfold np. rewrite cell_app_r by lia. replace (4 + k) with (zlen Hh + k) by (unfold zlen; rewrite HlenH; lia). rewrite cell_app_r by lia.
    apply cell_app_l. exact Hk. }
  set (n := (length pre + 4 + length post)%nat).
  exists (skipn n (skipn (Z.to_nat a) P)).
  rewrite <- (firstn_skipn n (skipn (Z.to_nat a) P)) at 1. f_equal.
  rewrite firstn_skipn_cells by (rewrite HlenP; unfold zlen, n in *; lia).
  rewrite (list_as_cells (pre ++ JitReloc.le_bytes 4 w ++ post)). rewrite !app_length, JitRelocProofs.le_bytes_length.
  replace (length pre + (4 + length post))%nat with n by (unfold n; lia).
  apply map_ext_in. intros k Hk. apply in_seq in Hk.
  destruct (Nat.lt_ge_cases k (length pre)) as [L|G].
  - specialize (Cpre (Z.of_nat k) ltac:(unfold np, zlen; lia)). unfold cell in Cpre.
    replace (Z.to_nat (a + Z.of_nat k)) with (Z.to_nat a + k)%nat in Cpre by lia. rewrite Nat2Z.id in Cpre. rewrite Cpre. symmetry. apply app_nth1. exact L.
  - rewrite (app_nth2 pre) by exact G. destruct (Nat.lt_ge_cases (k - length pre) 4) as [L4|G4].
    + specialize (Cw (Z.of_nat k - np) ltac:(unfold np, zlen in *; lia)). unfold cell in Cw.
      replace (Z.to_nat (a + np + (Z.of_nat k - np))) with (Z.to_nat a + k)%nat in Cw by lia. rewrite Cw.
      rewrite app_nth1 by (rewrite JitRelocProofs.le_bytes_length; exact L4). f_equal. unfold np, zlen. lia.
    + rewrite app_nth2 by (rewrite JitRelocProofs.le_bytes_length; exact G4). rewrite JitRelocProofs.le_bytes_length.
      specialize (Cpost (Z.of_nat k - np - 4) ltac:(unfold np, nq, zlen, n in *; lia)). unfold cell in Cpost.
      replace (Z.to_nat (a + np + 4 + (Z.of_nat k - np - 4))) with (Z.to_nat a + k)%nat in Cpost by lia. rewrite Cpost. f_equal. unfold np, zlen. lia.
Qed.

(* x86-64 `[abs]` operand made RIP-relative (AbsToRel on the disp32; lea / mov load / mov store forms), on the relocated bytes *)
Theorem reloc_rip_end_to_end base asize atoff reserved last es r data i e o pre mk reg (A Hh B : list Z) :
  rip_form pre mk reg ->
  relocate base asize atoff reserved last es = inl r ->
  (forall e', In e' es -> site_wf data e') -> sites_disjoint es ->
  nth_error es i = Some e -> nth_error (rr_outs r) i = Some o ->
  e_kind e = RAbsToRel -> 4 < asize -> e_fmt e = fmt_of_kind K_Rel32 -> e_old e = 0 ->
  data = A ++ pre ++ Hh ++ B -> length Hh = 4%nat ->
  e_off e = zlen A -> e_lead e = zlen pre -> e_region e = zlen pre + 4 ->
  (forall j e', j <> i -> nth_error es j = Some e' -> site_hi e' <= zlen A \/ zlen A + zlen pre + 4 <= site_lo e') ->
  site_target M64 CMem (mkSh true false 0 1) (base + e_secoff e + e_off e) (skipn (Z.to_nat (zlen A)) (patch_all data es (rr_outs r)))
    = Some (e_payload e mod 2 ^ 64).
Proof.
  intros F Er Hwfs Hdis He Ho Hk Ha Hf Hold Hdata HlenH Eoff Elead Ereg Hreg.
  destruct (relocated_site_bytes base asize atoff reserved last es r data i e o Er Hwfs Hdis He Ho) as (_ & s1 & s2 & Hre).
  pose proof (reloc_word_range _ _ _ _ _ _ _ Hre Hf Hold (or_introl Hk)) as Hw.
  pose proof (abs_to_rel_no_rewrite _ _ _ _ _ _ _ Hre Hk) as Hnr.
  destruct (relocated_region base asize atoff reserved last es r data i e o pre [] A Hh B Er Hwfs Hdis He Ho Hnr
              ltac:(rewrite Hf; reflexivity) ltac:(rewrite Hdata; reflexivity) HlenH Eoff Elead
              ltac:(intros j e' Hj Hn; destruct (Hreg j e' Hj Hn) as [D|D]; [left; exact D|right; unfold zlen at 3; cbn [length]; lia])) as (rest & Hsk).
  rewrite app_nil_r in Hsk. set (w := o_word o) in *.
  destruct (sext32_back w Hw) as (Hback & Hsr).
  assert (Henc : senc M64 (mkSh true false 0 1) (mk (sext32 w)) (mkC false 0 false) = pre ++ JitReloc.le_bytes 4 w)
    by (rewrite (rf_enc _ _ _ F), Hback; f_equal; rewrite le_bytes_is_le_split; symmetry; apply jit_le_bytes_is_le_split).
  rewrite Hsk, <- Henc.
  apply (rip_operand_designates_target base asize atoff s1 e o s2 (mkSh true false 0 1) (mk (sext32 w)) (mkC false 0 false) reg rest
           Hre Hk Ha Hf Hold (rf_modrm _ _ _ F (sext32 w)) (rf_wf _ _ _ F _ Hsr) (rf_adm _ _ _ F _)).
  rewrite Henc, app_length, JitRelocProofs.le_bytes_length, Ereg. unfold zlen. lia.
Qed.

(* ... followed by an n-byte immediate (mov [abs], imm / add [abs], imm8) *)
Theorem reloc_rip_imm_end_to_end base asize atoff reserved last es r data i e o n pre mk reg imm (A Hh B : list Z) :
  rip_form_imm n pre mk reg -> 0 <= imm < 256 ^ Z.of_nat n ->
  relocate base asize atoff reserved last es = inl r ->
  (forall e', In e' es -> site_wf data e') -> sites_disjoint es ->
  nth_error es i = Some e -> nth_error (rr_outs r) i = Some o ->
  e_kind e = RAbsToRel -> 4 < asize -> e_fmt e = fmt_of_kind K_Rel32 -> e_old e = 0 ->
  data = A ++ pre ++ Hh ++ X86Model.le_bytes n imm ++ B -> length Hh = 4%nat ->
  e_off e = zlen A -> e_lead e = zlen pre -> e_region e = zlen pre + 4 + Z.of_nat n ->
  (forall j e', j <> i -> nth_error es j = Some e' -> site_hi e' <= zlen A \/ zlen A + zlen pre + 4 + Z.of_nat n <= site_lo e') ->
  site_target M64 CMem (mkSh true false n 1) (base + e_secoff e + e_off e) (skipn (Z.to_nat (zlen A)) (patch_all data es (rr_outs r)))
    = Some (e_payload e mod 2 ^ 64).
Proof.
  intros F Himm Er Hwfs Hdis He Ho Hk Ha Hf Hold Hdata HlenH Eoff Elead Ereg Hreg.
  destruct (relocated_site_bytes base asize atoff reserved last es r data i e o Er Hwfs Hdis He Ho) as (_ & s1 & s2 & Hre).
  pose proof (reloc_word_range _ _ _ _ _ _ _ Hre Hf Hold (or_introl Hk)) as Hw.
  pose proof (abs_to_rel_no_rewrite _ _ _ _ _ _ _ Hre Hk) as Hnr.
  destruct (relocated_region base asize atoff reserved last es r data i e o pre (X86Model.le_bytes n imm) A Hh B Er Hwfs Hdis He Ho Hnr
              ltac:(rewrite Hf; reflexivity) Hdata HlenH Eoff Elead
              ltac:(intros j e' Hj Hn; destruct (Hreg j e' Hj Hn) as [D|D]; [left; exact D|right; unfold zlen at 3; rewrite X86Proofs.le_bytes_length; lia])) as (rest & Hsk).
  set (w := o_word o) in *.
  destruct (sext32_back w Hw) as (Hback & Hsr).
  assert (Henc : senc M64 (mkSh true false n 1) (mk (sext32 w) imm) (mkC false 0 false) = pre ++ JitReloc.le_bytes 4 w ++ X86Model.le_bytes n imm)
    by (rewrite (ri_enc _ _ _ _ F), Hback; f_equal; f_equal; rewrite le_bytes_is_le_split; symmetry; apply jit_le_bytes_is_le_split).
  rewrite Hsk, <- Henc.
  apply (rip_operand_designates_target base asize atoff s1 e o s2 (mkSh true false n 1) (mk (sext32 w) imm) (mkC false 0 false) reg rest
           Hre Hk Ha Hf Hold (ri_modrm _ _ _ _ F (sext32 w) imm) (ri_wf _ _ _ _ F _ _ Hsr Himm) (ri_adm _ _ _ _ F _ _)).
  rewrite Henc, !app_length, JitRelocProofs.le_bytes_length, X86Proofs.le_bytes_length, Ereg. unfold zlen. lia.
Qed.

Example reloc_rip_end_to_end_witness :
  exists r o, rip_form [72; 141; 5] (mk_rip 141 0) 0 /\
    relocate 4194304 8 0 0 false [ex_lea_entry] = inl r /\ nth_error (rr_outs r) O = Some o /\
    (forall e', In e' [ex_lea_entry] -> site_wf [72; 141; 5; 0; 0; 0; 0] e') /\ sites_disjoint [ex_lea_entry] /\
    [72; 141; 5; 0; 0; 0; 0] = [] ++ [72; 141; 5] ++ [0; 0; 0; 0] ++ [] /\
    site_target M64 CMem (mkSh true false 0 1) (4194304 + 0 + 0) (skipn (Z.to_nat (zlen (@nil Z))) (patch_all [72; 141; 5; 0; 0; 0; 0] [ex_lea_entry] (rr_outs r)))
      = Some 4198400.
Proof.
  eexists. eexists. split; [exact (rip_forms 141 0 (or_introl eq_refl) ltac:(lia))|]. split; [vm_compute; reflexivity|]. split; [vm_compute; reflexivity|].
  split. { intros e' [<-|[]]. unfold site_wf, site_hi, ex_lea_entry. cbn [e_off e_lead e_fmt fmt_of_kind vsize length]. lia. }
  split. { intros i j a b Ha Hb Hij. destruct i as [|[|i]], j as [|[|j]]; cbn in Ha, Hb; try discriminate; congruence. }
  split; [reflexivity|]. vm_compute. reflexivity.
Qed.

(* ------------------------------------------------------------------ x86-32 absolute memory operands `[label + disp]` (RelToAbs on the disp32) *)
Record abs_form (n : nat) (pre : list Z) (mk : Z -> Z -> sinst) (reg : Z) : Prop := {
  af_enc : forall d imm, senc M32 (mkSh true false n 1) (mk d imm) (mkC false 0 false)
                         = pre ++ X86Model.le_bytes 4 (d mod 4294967296) ++ X86Model.le_bytes n imm;
  af_wf : forall d imm, -2147483648 <= d < 2147483648 -> 0 <= imm < 256 ^ Z.of_nat n -> wf M32 (mkSh true false n 1) (mk d imm) = true;
  af_adm : forall d imm, adm M32 (mkSh true false n 1) (mk d imm) (mkC false 0 false) = true;
  af_modrm : forall d imm, s_modrm (mk d imm) = MMem reg (mkM BNone None 0 d)
}.

Definition mk_abs32 (p66 : bool) (opc reg d imm : Z) : sinst :=
  {| s_pfx := {| p_lock := false; p_f2 := false; p_f3 := false; p_66 := p66; p_67 := false; p_seg := 0 |};
     s_kind := KLeg; s_rex := false; s_W := false; s_vvvv := 0; s_V' := false; s_L := 0; s_pp := 0; s_map := 0;
     s_opc := opc; s_aaa := 0; s_z := false; s_b := false; s_modrm := MMem reg (mkM BNone None 0 d); s_imm := imm |}.

Ltac abs_form_tac :=
  constructor; intros d imm; try intros Hd Hi;
  [ unfold senc; cbn [mk_abs32 s_modrm enc_modrm s_pfx s_imm]; unfold enc_mem; cbn [a16 is64 negb andb p_67]; cbv iota;
    cbn [m_base m_index m_disp sh_imm sh_n c_sib orb is64]; cbv iota; apply app_cons_tail2; vm_compute; reflexivity
  | unfold wf; cbn [mk_abs32 s_pfx s_opc s_imm s_kind s_map s_vvvv s_V' s_L s_pp s_aaa s_z s_b s_rex s_W s_modrm sh_imm sh_n];
    unfold wf_modrm, wf_mem; cbn [a16 is64 negb andb p_67 m_disp m_scale m_index m_base sh_modrm sh_vsib];
    replace (zin (-2147483648) d 2147483648) with true by (symmetry; unfold zin; apply andb_true_intro; split; [apply Z.leb_le|apply Z.ltb_lt]; lia);
    replace (zin 0 imm _) with true by (symmetry; unfold zin; apply andb_true_intro; split; [apply Z.leb_le|apply Z.ltb_lt]; lia);
    vm_compute; reflexivity
  | reflexivity | reflexivity ].

Lemma abs_forms_rm opc reg : opc = 141 \/ opc = 139 \/ opc = 137 -> 0 <= reg < 8 -> abs_form 0 [opc; 8 * reg + 5] (mk_abs32 false opc reg) reg.
Proof.
  intros Ho Hr. assert (C : reg = 0 \/ reg = 1 \/ reg = 2 \/ reg = 3 \/ reg = 4 \/ reg = 5 \/ reg = 6 \/ reg = 7) by lia.
  destruct Ho as [-> | [-> | ->]]; repeat (destruct C as [->|C]; [abs_form_tac|]); subst reg; abs_form_tac.
Qed.
Lemma abs_form_mov8 : abs_form 1 [198; 5] (mk_abs32 false 198 0) 0.
Proof. abs_form_tac. Qed.
Lemma abs_form_mov16 : abs_form 2 [102; 199; 5] (mk_abs32 true 199 0) 0.
Proof. abs_form_tac. Qed.
Lemma abs_form_mov32 : abs_form 4 [199; 5] (mk_abs32 false 199 0) 0.
Proof. abs_form_tac. Qed.
Lemma abs_form_add8 : abs_form 1 [131; 5] (mk_abs32 false 131 0) 0.
Proof. abs_form_tac. Qed.

Lemma rel_to_abs_no_rewrite base asize atoff slots e o s' toff :
  relocate_entry base asize atoff slots e = inl (o, s') -> e_kind e = RRelToAbs toff -> o_rewrite o = None.
Proof.
  intros H Hk. unfold relocate_entry in H. rewrite Hk in H. destruct toff; [|discriminate].
  destruct (write_offset _ _ _); try discriminate; injection H as <- _; reflexivity.
Qed.

Theorem reloc_abs32_end_to_end base asize atoff reserved last es r data i e o n pre mk reg imm toff (A Hh B : list Z) :
  abs_form n pre mk reg -> 0 <= imm < 256 ^ Z.of_nat n ->
  relocate base asize atoff reserved last es = inl r ->
  (forall e', In e' es -> site_wf data e') -> sites_disjoint es ->
  nth_error es i = Some e -> nth_error (rr_outs r) i = Some o ->
  e_kind e = RRelToAbs (Some toff) -> e_fmt e = ufmt 4 -> e_old e = 0 ->
  data = A ++ pre ++ Hh ++ X86Model.le_bytes n imm ++ B -> length Hh = 4%nat ->
  e_off e = zlen A -> e_lead e = zlen pre ->
  (forall j e', j <> i -> nth_error es j = Some e' -> site_hi e' <= zlen A \/ zlen A + zlen pre + 4 + Z.of_nat n <= site_lo e') ->
  site_target M32 CMem (mkSh true false n 1) (base + e_secoff e + e_off e) (skipn (Z.to_nat (zlen A)) (patch_all data es (rr_outs r)))
    = Some ((e_payload e + base + toff) mod 2 ^ 64) /\
  (e_payload e + base + toff) mod 2 ^ 64 < 2 ^ 32.
Proof.
  intros F Himm Er Hwfs Hdis He Ho Hk Hf Hold Hdata HlenH Eoff Elead Hreg.
  destruct (relocated_site_bytes base asize atoff reserved last es r data i e o Er Hwfs Hdis He Ho) as (_ & s1 & s2 & Hre).
  destruct (reloc_abs_exact base asize atoff s1 e o s2 Hre toff 4 Hk Hf ltac:(tauto) Hold) as (Hwv & Hlt & _).
  assert (Hw : 0 <= o_word o < 2 ^ 32) by (split; [rewrite Hwv; apply Z.mod_pos_bound; lia|exact Hlt]).
  pose proof (rel_to_abs_no_rewrite _ _ _ _ _ _ _ _ Hre Hk) as Hnr.
  destruct (relocated_region base asize atoff reserved last es r data i e o pre (X86Model.le_bytes n imm) A Hh B Er Hwfs Hdis He Ho Hnr
              ltac:(rewrite Hf; reflexivity) Hdata HlenH Eoff Elead
              ltac:(intros j e' Hj Hn; destruct (Hreg j e' Hj Hn) as [D|D]; [left; exact D|right; unfold zlen at 3; rewrite X86Proofs.le_bytes_length; lia])) as (rest & Hsk).
  set (w := o_word o) in *.
  destruct (sext32_back w Hw) as (Hback & Hsr).
  assert (Henc : senc M32 (mkSh true false n 1) (mk (sext32 w) imm) (mkC false 0 false) = pre ++ JitReloc.le_bytes 4 w ++ X86Model.le_bytes n imm)
    by (rewrite (af_enc _ _ _ _ F), Hback; f_equal; f_equal; rewrite le_bytes_is_le_split; symmetry; apply jit_le_bytes_is_le_split).
  rewrite Hsk, <- Henc.
  exact (abs32_operand_designates_target base asize atoff s1 e o s2 (mkSh true false n 1) (mk (sext32 w) imm) (mkC false 0 false) reg toff rest
           Hre Hk Hf Hold (af_modrm _ _ _ _ F (sext32 w) imm) (af_wf _ _ _ _ F _ _ Hsr Himm) (af_adm _ _ _ _ F _ _)).
Qed.

Example reloc_abs32_end_to_end_witness :
  exists r o, abs_form 0 [139; 8 * 0 + 5] (mk_abs32 false 139 0) 0 /\
    relocate 4194304 4 0 0 false [ex_abs32_entry] = inl r /\ nth_error (rr_outs r) O = Some o /\
    (forall e', In e' [ex_abs32_entry] -> site_wf [139; 5; 0; 0; 0; 0] e') /\ sites_disjoint [ex_abs32_entry] /\
    [139; 5; 0; 0; 0; 0] = [] ++ [139; 8 * 0 + 5] ++ [0; 0; 0; 0] ++ X86Model.le_bytes 0 0 ++ [] /\
    site_target M32 CMem (mkSh true false 0 1) (4194304 + 0 + 0) (skipn (Z.to_nat (zlen (@nil Z))) (patch_all [139; 5; 0; 0; 0; 0] [ex_abs32_entry] (rr_outs r)))
      = Some 4194568.
Proof.
  eexists. eexists. split; [apply abs_forms_rm; [auto|lia]|]. split; [vm_compute; reflexivity|]. split; [vm_compute; reflexivity|].
  split. { intros e' [<-|[]]. unfold site_wf, site_hi, ex_abs32_entry. cbn [e_off e_lead e_fmt ufmt vsize length]. lia. }
  split. { intros i j a b Ha Hb Hij. destruct i as [|[|i]], j as [|[|j]]; cbn in Ha, Hb; try discriminate; congruence. }
  split; [reflexivity|]. vm_compute. reflexivity.
Qed.

(* C04 — the relocated x86 branch FOUND IN THE RELOCATED SECTION BYTES: whatever well-formed immediate-only instruction with a 4-byte
   immediate lies in the bytes relocate_to_base produced (C10's patch_all) so that it occupies the entry's region, decoding those bytes
   with C01's proven decoder designates the relocation's absolute target.  The immediate of the structural instruction is not assumed
   to be the relocated word: it is read from the bytes (cells of relocated_site_bytes -> read_word -> image_imm over C01's senc). *)
From Coq Require Import ZArith List Bool Lia.
From Verif Require Import Base.ZBits Codec.OffsetModel Codec.OffsetProofs Labels.LabelsModel Labels.LabelsExact Labels.FlatModel Labels.FlatLemmas
  Sections.CopyProofs Sections.JitReloc Sections.JitRelocProofs
  Reloc.RelocModel Reloc.RelocProofs Reloc.X86Meaning Reloc.InstalledImage Labels.X86RefMeaning.
From Verif Require Import X86.X86Model X86.X86Proofs.
Import ListNotations.
Local Open Scope Z_scope.

Lemma nth_skipn_add {A} (d : A) : forall off (l : list A) i, nth i (skipn off l) d = nth (off + i) l d.
Proof.
  induction off as [|off IH]; intros l i; [reflexivity|]. destruct l as [|a t]; [destruct i; reflexivity|]. cbn [skipn Nat.add nth]. apply IH.
Qed.
Lemma firstn_skipn_cells (bs : list Z) n off : (off + n <= length bs)%nat ->
  firstn n (skipn off bs) = map (fun k => nth (off + k) bs 0) (seq 0 n).
Proof.
  intros H. apply nth_ext with (d := 0) (d' := 0).
  - rewrite firstn_length, skipn_length, map_length, seq_length. lia.
  - intros i Hi. rewrite firstn_length, skipn_length in Hi.
    rewrite nth_firstn_lt by lia. rewrite nth_skipn_add.
    set (f := fun k => nth (off + k) bs 0).
    rewrite (nth_indep (map f (seq 0 n)) 0 (f O)) by (rewrite map_length, seq_length; lia).
    rewrite map_nth, seq_nth by lia. reflexivity.
Qed.

Lemma jit_le_bytes_is_le_split n : forall v, JitReloc.le_bytes n v = le_split n v.
Proof. induction n as [|n IH]; intros v; cbn [JitReloc.le_bytes le_split]; [reflexivity|]. rewrite IH. reflexivity. Qed.

Lemma list_as_cells (l : list Z) : l = map (fun k => nth k l 0) (seq 0 (length l)).
Proof.
  apply nth_ext with (d := 0) (d' := 0); [rewrite map_length, seq_length; reflexivity|].
  intros i Hi. set (f := fun k => nth k l 0).
  rewrite (nth_indep (map f (seq 0 (length l))) 0 (f O)) by (rewrite map_length, seq_length; lia).
  rewrite map_nth, seq_nth by lia. reflexivity.
Qed.

Lemma read_word_of_cells bs off n w :
  0 <= off -> (Z.to_nat off + n <= length bs)%nat -> 0 <= w < 2 ^ (8 * Z.of_nat n) ->
  (forall k, 0 <= k < Z.of_nat n -> cell bs (off + k) = cell (JitReloc.le_bytes n w) k) ->
  FlatModel.read_word bs off n = w.
Proof.
  intros Ho Hlen Hw Hc. unfold FlatModel.read_word. rewrite firstn_skipn_cells by exact Hlen.
  assert (E : map (fun k => nth (Z.to_nat off + k) bs 0) (seq 0 n) = JitReloc.le_bytes n w).
  { rewrite (list_as_cells (JitReloc.le_bytes n w)) at 1. rewrite JitRelocProofs.le_bytes_length.
    apply map_ext_in. intros k Hk. apply in_seq in Hk.
    specialize (Hc (Z.of_nat k) ltac:(lia)). unfold cell in Hc. rewrite Nat2Z.id in Hc.
    replace (Z.to_nat (off + Z.of_nat k)) with (Z.to_nat off + k)%nat in Hc by lia. exact Hc. }
  rewrite E, jit_le_bytes_is_le_split. apply le_join_split_id. exact Hw.
Qed.

Theorem reloc_branch_in_image base asize atoff reserved last es r data i e o (m : mode) sh s c xr xx xb xr' (A B : list Z) :
  relocate base asize atoff reserved last es = inl r ->
  (forall e', In e' es -> site_wf data e') -> sites_disjoint es ->
  nth_error es i = Some e -> nth_error (rr_outs r) i = Some o ->
  e_kind e = RAbsToRel -> (if is64 m then 4 <? asize else asize <=? 4) = true -> e_fmt e = fmt_of_kind K_Rel32 -> e_old e = 0 ->
  patch_all data es (rr_outs r) = A ++ senc m sh s c ++ B ->
  zlen A = e_off e -> zlen (senc m sh s c) = e_region e -> e_lead e + 4 = e_region e -> sh_imm sh = 4%nat ->
  s_modrm s = MNone xr xx xb xr' -> wf m sh s = true -> adm m sh s c = true ->
  site_target m CBranch sh (base + e_secoff e + e_off e) (senc m sh s c ++ B) = Some (e_payload e mod 2 ^ abits m).
Proof.
  intros Er Hwfs Hdis He Ho Hk Ha Hf Hold Himg HA HL Hlead Hn Hm Hwf Hadm.
  destruct (relocated_site_bytes base asize atoff reserved last es r data i e o Er Hwfs Hdis He Ho) as (Hb & s1 & s2 & Hre).
  pose proof (reloc_word_range _ _ _ _ _ _ _ Hre Hf Hold (or_introl Hk)) as Hw.
  destruct (Hwfs e (nth_error_In _ _ He)) as (S2 & S1 & S3).
  assert (Hi : s_imm s = o_word o).
  { pose proof (image_imm A B m sh s c Hwf) as Hi. rewrite Hn in Hi. rewrite <- Himg in Hi.
    rewrite <- Hi. apply read_word_of_cells.
    - unfold site_lo in *. unfold zlen in *. lia.
    - rewrite Himg, !app_length. unfold zlen in *. lia.
    - change (2 ^ (8 * Z.of_nat 4)) with (2 ^ 32). exact Hw.
    - intros k Hk4. rewrite Hf in Hb. cbn [fmt_of_kind vsize] in Hb. change (Z.to_nat 4) with 4%nat in Hb.
      replace (zlen A + zlen (senc m sh s c) - Z.of_nat 4 + k) with (e_off e + e_lead e + k) by (change (Z.of_nat 4) with 4; lia).
      apply Hb. change (Z.of_nat 4) with 4 in Hk4. exact Hk4. }
  apply (branch_designates_target base asize atoff s1 e o s2 m sh s c xr xx xb xr' B Hre Hk Ha Hf Hold Hm Hi Hwf Hadm).
  unfold zlen in HL. lia.
Qed.

(* satisfiability: `jmp 0x401000` assembled at offset 0 of a section relocated to base 0x400000 *)
Definition ex_jmp_entry : rentry :=
  {| e_kind := RAbsToRel; e_secoff := 0; e_off := 0; e_lead := 1; e_region := 5; e_fmt := fmt_of_kind K_Rel32; e_payload := 4198400; e_old := 0 |}.

Example reloc_branch_in_image_witness :
  let sh := mkSh false false 4 1 in let c := mkC false 0 false in
  exists r o, relocate 4194304 8 0 0 false [ex_jmp_entry] = inl r /\ nth_error (rr_outs r) O = Some o /\
    (forall e', In e' [ex_jmp_entry] -> site_wf [233; 0; 0; 0; 0] e') /\ sites_disjoint [ex_jmp_entry] /\
    patch_all [233; 0; 0; 0; 0] [ex_jmp_entry] (rr_outs r) = [] ++ senc M64 sh (ex_jmp 4091) c ++ [] /\
    wf M64 sh (ex_jmp 4091) = true /\ adm M64 sh (ex_jmp 4091) c = true /\
    site_target M64 CBranch sh 4194304 (senc M64 sh (ex_jmp 4091) c ++ []) = Some 4198400.
Proof.
  cbv zeta. eexists. eexists. split; [vm_compute; reflexivity|]. split; [vm_compute; reflexivity|].
  split. { intros e' [<-|[]]. unfold site_wf, site_hi, ex_jmp_entry. cbn [e_off e_lead e_fmt fmt_of_kind vsize length]. lia. }
  split. { intros i j a b Ha Hb Hij. destruct i as [|[|i]], j as [|[|j]]; cbn in Ha, Hb; try discriminate; congruence. }
  repeat split; vm_compute; reflexivity.
Qed.

(* x86-64 `[abs]` operand turned RIP-relative by the assembler (AbsToRel on the disp32 of a memory operand, with or without a trailing
   immediate), found in the relocated bytes *)
Theorem reloc_rip_in_image base asize atoff reserved last es r data i e o sh s c reg d (A B : list Z) :
  relocate base asize atoff reserved last es = inl r ->
  (forall e', In e' es -> site_wf data e') -> sites_disjoint es ->
  nth_error es i = Some e -> nth_error (rr_outs r) i = Some o ->
  e_kind e = RAbsToRel -> 4 < asize -> e_fmt e = fmt_of_kind K_Rel32 -> e_old e = 0 ->
  patch_all data es (rr_outs r) = A ++ senc M64 sh s c ++ B ->
  zlen A = e_off e -> zlen (senc M64 sh s c) = e_region e -> e_lead e + 4 + Z.of_nat (sh_imm sh) = e_region e ->
  s_modrm s = MMem reg (mkM BRip None 0 d) -> wf M64 sh s = true -> adm M64 sh s c = true ->
  site_target M64 CMem sh (base + e_secoff e + e_off e) (senc M64 sh s c ++ B) = Some (e_payload e mod 2 ^ 64).
Proof.
  intros Er Hwfs Hdis He Ho Hk Ha Hf Hold Himg HA HL Hlead Hm Hwf Hadm.
  destruct (relocated_site_bytes base asize atoff reserved last es r data i e o Er Hwfs Hdis He Ho) as (Hb & s1 & s2 & Hre).
  pose proof (reloc_word_range _ _ _ _ _ _ _ Hre Hf Hold (or_introl Hk)) as Hw.
  destruct (Hwfs e (nth_error_In _ _ He)) as (S2 & S1 & S3).
  destruct (image_rip_disp A B sh s c reg d Hm Hwf) as (Hrd & Hd).
  assert (Ed : d = sext32 (o_word o)).
  { rewrite <- (sext32_mod d Hd). f_equal. rewrite <- Hrd, <- Himg. apply read_word_of_cells.
    - unfold site_lo in *. unfold zlen in *. lia.
    - rewrite Himg, !app_length. unfold zlen in *. lia.
    - change (2 ^ (8 * Z.of_nat 4)) with (2 ^ 32). exact Hw.
    - intros k Hk4. rewrite Hf in Hb. cbn [fmt_of_kind vsize] in Hb. change (Z.to_nat 4) with 4%nat in Hb.
      replace (zlen A + zlen (senc M64 sh s c) - Z.of_nat (sh_imm sh) - 4 + k) with (e_off e + e_lead e + k) by lia.
      apply Hb. change (Z.of_nat 4) with 4 in Hk4. exact Hk4. }
  rewrite Ed in Hm.
  apply (rip_operand_designates_target base asize atoff s1 e o s2 sh s c reg B Hre Hk Ha Hf Hold Hm Hwf Hadm).
  unfold zlen in HL. lia.
Qed.

(* the word read from the relocated bytes at a site is the word the model computed (any kind, any width) *)
Theorem relocated_site_word base asize atoff reserved last es r data i e o :
  relocate base asize atoff reserved last es = inl r ->
  (forall e', In e' es -> site_wf data e') -> sites_disjoint es ->
  nth_error es i = Some e -> nth_error (rr_outs r) i = Some o ->
  0 <= o_word o < 2 ^ (8 * vsize (e_fmt e)) ->
  FlatModel.read_word (patch_all data es (rr_outs r)) (e_off e + e_lead e) (Z.to_nat (vsize (e_fmt e))) = o_word o.
Proof.
  intros Er Hwfs Hdis He Ho Hw.
  destruct (relocated_site_bytes base asize atoff reserved last es r data i e o Er Hwfs Hdis He Ho) as (Hb & _).
  assert (Hlen : length (patch_all data es (rr_outs r)) = length data).
  { apply patch_all_length. intros e' He'. destruct (Hwfs e' He') as (X & Y & Z'). unfold site_hi in Z'. auto. }
  destruct (Hwfs e (nth_error_In _ _ He)) as (S2 & S1 & S3). unfold site_hi in S3.
  apply read_word_of_cells.
  - lia.
  - rewrite Hlen. lia.
  - rewrite Z2Nat.id by lia. exact Hw.
  - intros k Hk. rewrite Z2Nat.id in Hk by lia. apply Hb. exact Hk.
Qed.

From Verif Require Import Labels.A64Dec Reloc.A64Meaning.

Lemma a64_enc_range i : a64_wf i -> 0 <= a64_enc i < 2 ^ 32.
Proof.
  destruct i as [link imm|c imm|sf nz rt imm|b5 nz b40 rt imm|page rd imm|opc v rt imm]; cbn [a64_enc a64_wf]; intros H.
  5:{ pose proof (Z.mod_pos_bound imm (2 ^ 21) ltac:(pw)) as Hm. set (y := imm mod 2 ^ 21) in *.
      pose proof (Z.mod_pos_bound y 4 ltac:(lia)). assert (0 <= y / 4 < 2 ^ 19) by (split; [apply Z.div_pos; lia|apply Z.div_lt_upper_bound; [lia|change (4 * 2 ^ 19) with (2 ^ 21); lia]]).
      set (a := y mod 4) in *. set (b := y / 4) in *. destruct page; cbn [bz]; pw. }
  all: repeat match goal with |- context [?a mod ?m] => let q := fresh "q" in pose proof (Z.mod_pos_bound a m ltac:(pw)); set (q := a mod m) in * end;
    repeat match goal with b : bool |- _ => destruct b end; cbn [bz]; pw.
Qed.

(* an AArch64 b / bl / b.cond / adr / ldr-literal ... to an absolute address, found in the relocated bytes *)
Theorem a64_reloc_in_image base asize atoff reserved last es r data idx e o i :
  relocate base asize atoff reserved last es = inl r ->
  (forall e', In e' es -> site_wf data e') -> sites_disjoint es ->
  nth_error es idx = Some e -> nth_error (rr_outs r) idx = Some o ->
  e_kind e = RAbsToRel -> 4 < asize -> e_fmt e = fmt_of_kind (kind_of i) -> e_old e = a64_enc (set_imm i 0) ->
  a64_wf (set_imm i 0) -> hole_ok (kind_of i) (e_old e) = true -> (forall rg v, i <> IAdr true rg v) ->
  let pc := base + e_secoff e + e_off e in
  a64_site_target pc (FlatModel.read_word (patch_all data es (rr_outs r)) (e_off e + e_lead e) 4) = Some ((e_payload e - e_region e) mod 2 ^ 64).
Proof.
  intros Er Hwfs Hdis He Ho Hk Ha Hf Hold Hwf Hh Hnp pc.
  destruct (relocated_site_bytes base asize atoff reserved last es r data idx e o Er Hwfs Hdis He Ho) as (_ & s1 & s2 & Hre).
  destruct (a64_reloc_designates_target base asize atoff s1 e o s2 i Hre Hk Ha Hf Hold Hwf Hh Hnp) as (v & _ & Ht).
  assert (Hw : 0 <= o_word o < 2 ^ 32).
  { pose proof Hre as Hre'. unfold relocate_entry in Hre'. rewrite Hk, Hf in Hre'.
    replace (asize <=? 4) with false in Hre' by (symmetry; apply Z.leb_gt; lia).
    destruct (is_int32 _); [|discriminate].
    destruct (write_offset (fmt_of_kind (kind_of i)) (e_old e) _) as [w|] eqn:Ew; [|discriminate]. injection Hre' as <- _. cbn [o_word].
    apply write_offset_or in Ew. destruct Ew as (m & Hem & ->). rewrite Hold in *.
    destruct (a64_patched_word i _ m Hwf Hh (to_i64_int64 _) Hem) as (Ew & Hwfv & _). rewrite Ew. apply a64_enc_range. exact Hwfv. }
  assert (Hv : vsize (e_fmt e) = 4) by (rewrite Hf; destruct i as [| | | |[|]|]; reflexivity).
  pose proof (relocated_site_word base asize atoff reserved last es r data idx e o Er Hwfs Hdis He Ho) as Hrw.
  rewrite Hv in Hrw. change (Z.to_nat 4) with 4%nat in Hrw. rewrite Hrw by (change (8 * 4) with 32; exact Hw). exact Ht.
Qed.

Definition ex_lea_entry : rentry :=
  {| e_kind := RAbsToRel; e_secoff := 0; e_off := 0; e_lead := 3; e_region := 7; e_fmt := fmt_of_kind K_Rel32; e_payload := 4198400; e_old := 0 |}.

Example reloc_rip_in_image_witness :
  let sh := mkSh true false 0 1 in let c := mkC false 0 false in
  exists r o, relocate 4194304 8 0 0 false [ex_lea_entry] = inl r /\ nth_error (rr_outs r) O = Some o /\
    (forall e', In e' [ex_lea_entry] -> site_wf [72; 141; 5; 0; 0; 0; 0] e') /\ sites_disjoint [ex_lea_entry] /\
    patch_all [72; 141; 5; 0; 0; 0; 0] [ex_lea_entry] (rr_outs r) = [] ++ senc M64 sh (ex_lea 4089) c ++ [] /\
    wf M64 sh (ex_lea 4089) = true /\ adm M64 sh (ex_lea 4089) c = true /\
    site_target M64 CMem sh 4194304 (senc M64 sh (ex_lea 4089) c ++ []) = Some 4198400.
Proof.
  cbv zeta. eexists. eexists. split; [vm_compute; reflexivity|]. split; [vm_compute; reflexivity|].
  split. { intros e' [<-|[]]. unfold site_wf, site_hi, ex_lea_entry. cbn [e_off e_lead e_fmt fmt_of_kind vsize length]. lia. }
  split. { intros i j a b Ha Hb Hij. destruct i as [|[|i]], j as [|[|j]]; cbn in Ha, Hb; try discriminate; congruence. }
  repeat split; vm_compute; reflexivity.
Qed.

(* `b <0x401000>` at offset 0 of a section relocated to 0x400000 (AsmJit measures the AbsToRel distance from the END of the region, so the
   instruction designates payload - 4: the recorded behaviour of relocate_to_base for AArch64, cf. C04_a64_reloc_designates_target) *)
Definition ex_b_entry : rentry :=
  {| e_kind := RAbsToRel; e_secoff := 0; e_off := 0; e_lead := 0; e_region := 4; e_fmt := fmt_of_kind K_Imm26; e_payload := 4198400; e_old := 335544320 |}.

Example a64_reloc_in_image_witness :
  exists r o, relocate 4194304 8 0 0 false [ex_b_entry] = inl r /\ nth_error (rr_outs r) O = Some o /\
    (forall e', In e' [ex_b_entry] -> site_wf [0; 0; 0; 20] e') /\ sites_disjoint [ex_b_entry] /\
    e_old ex_b_entry = a64_enc (set_imm (IB false 0) 0) /\ a64_wf (set_imm (IB false 0) 0) /\ hole_ok (kind_of (IB false 0)) (e_old ex_b_entry) = true /\
    a64_site_target 4194304 (FlatModel.read_word (patch_all [0; 0; 0; 20] [ex_b_entry] (rr_outs r)) 0 4) = Some 4198396.
Proof.
  eexists. eexists. split; [vm_compute; reflexivity|]. split; [vm_compute; reflexivity|].
  split. { intros e' [<-|[]]. unfold site_wf, site_hi, ex_b_entry. cbn [e_off e_lead e_fmt fmt_of_kind vsize length]. lia. }
  split. { intros i j a b Ha Hb Hij. destruct i as [|[|i]], j as [|[|j]]; cbn in Ha, Hb; try discriminate; congruence. }
  split; [vm_compute; reflexivity|]. split; [vm_compute; split; [discriminate|reflexivity]|]. split; vm_compute; reflexivity.
Qed.

(* ------------------------------------------------------------------ x86-32 absolute memory operands *)
(* the disp32 of an absolute (no base, no index) memory operand of a 32-bit-mode instruction, read from the bytes *)
Lemma image_abs_disp (A B : list Z) sh s c reg d :
  s_modrm s = MMem reg (mkM BNone None 0 d) -> wf M32 sh s = true -> p_67 (s_pfx s) = false ->
  FlatModel.read_word (A ++ senc M32 sh s c ++ B) (zlen A + zlen (senc M32 sh s c) - Z.of_nat (sh_imm sh) - 4) 4 = d mod 4294967296 /\
  -2147483648 <= d < 2147483648.
Proof.
  intros Hm Hwf H67. destruct (X86RefMeaning.wf_modrm_of _ _ _ Hwf) as (lim & limx & ext & Hw). rewrite Hm in Hw. cbn [wf_modrm] in Hw.
  apply andb_prop in Hw. destruct Hw as (_ & Hw). unfold wf_mem in Hw.
  assert (Ea : a16 M32 (s_pfx s) = false) by (unfold a16; rewrite H67; reflexivity). rewrite Ea in Hw. cbv iota in Hw.
  cbn [m_disp] in Hw. do 3 (apply andb_prop in Hw; destruct Hw as (Hw & _)).
  unfold zin in Hw. apply andb_prop in Hw. destruct Hw as (D1 & D2). apply Z.leb_le in D1. apply Z.ltb_lt in D2.
  split; [|lia].
  unfold senc. rewrite Hm. cbn [enc_modrm]. unfold enc_mem. rewrite Ea. cbv iota. cbn [m_base m_index m_disp m_scale is64 orb].
  set (n := sh_imm sh).
  set (D := X86Model.le_bytes 4 (d mod 4294967296)). set (I := X86Model.le_bytes n (s_imm s)).
  assert (LD : length D = 4%nat) by apply X86Proofs.le_bytes_length. assert (LI : length I = n) by apply X86Proofs.le_bytes_length.
  assert (G : forall P : list Z, FlatModel.read_word (A ++ (P ++ D ++ I) ++ B) (zlen A + zlen (P ++ D ++ I) - Z.of_nat n - 4) 4 = d mod 4294967296).
  { intros P. rewrite !FlatLemmas.zlen_app. unfold zlen at 3 4. rewrite LD, LI.
    replace (zlen A + (zlen P + (Z.of_nat 4 + Z.of_nat n)) - Z.of_nat n - 4) with (zlen A + zlen P) by lia.
    rewrite FlatLemmas.read_word_app_r by (pose proof (Zle_0_nat (length P)); unfold zlen; lia).
    replace (zlen A + zlen P - zlen A) with (zlen P) by lia. rewrite <- !app_assoc.
    rewrite FlatLemmas.read_word_app_r by lia. rewrite Z.sub_diag.
    rewrite FlatLemmas.read_word_at0 by exact LD. unfold D.
    rewrite le_bytes_is_le_split. apply FlatLemmas.le_join_split_id. change (2 ^ (8 * Z.of_nat 4)) with 4294967296. apply Z.mod_pos_bound. lia. }
  destruct (c_sib c).
  - specialize (G (enc_prefixes (s_pfx s) ++ enc_lead (rhead_of s) (c_vex3 c) ++ [modrm_byte 0 reg 4; sib_byte 0 4 5])).
    rewrite <- !app_assoc in G. cbn [app] in G. rewrite <- !app_assoc. cbn [app]. exact G.
  - specialize (G (enc_prefixes (s_pfx s) ++ enc_lead (rhead_of s) (c_vex3 c) ++ [modrm_byte 0 reg 5])).
    rewrite <- !app_assoc in G. cbn [app] in G. rewrite <- !app_assoc. cbn [app]. exact G.
Qed.

(* x86-32 `op reg, [label + disp]` / `op [label + disp], imm` (RelToAbs on the disp32 of an absolute memory operand) found in the
   relocated bytes: decoding them designates base + target section offset + payload; the displacement is read from the bytes *)
Theorem reloc_abs32_in_image base asize atoff reserved last es r data i e o sh s c reg d toff (A B : list Z) :
  relocate base asize atoff reserved last es = inl r ->
  (forall e', In e' es -> site_wf data e') -> sites_disjoint es ->
  nth_error es i = Some e -> nth_error (rr_outs r) i = Some o ->
  e_kind e = RRelToAbs (Some toff) -> e_fmt e = ufmt 4 -> e_old e = 0 ->
  patch_all data es (rr_outs r) = A ++ senc M32 sh s c ++ B ->
  zlen A = e_off e -> e_lead e + 4 + Z.of_nat (sh_imm sh) = zlen (senc M32 sh s c) ->
  s_modrm s = MMem reg (mkM BNone None 0 d) -> p_67 (s_pfx s) = false -> wf M32 sh s = true -> adm M32 sh s c = true ->
  site_target M32 CMem sh (base + e_secoff e + e_off e) (senc M32 sh s c ++ B) = Some ((e_payload e + base + toff) mod 2 ^ 64) /\
  (e_payload e + base + toff) mod 2 ^ 64 < 2 ^ 32.
Proof.
  intros Er Hwfs Hdis He Ho Hk Hf Hold Himg HA Hlead Hm H67 Hwf Hadm.
  destruct (relocated_site_bytes base asize atoff reserved last es r data i e o Er Hwfs Hdis He Ho) as (Hb & s1 & s2 & Hre).
  destruct (reloc_abs_exact base asize atoff s1 e o s2 Hre toff 4 Hk Hf ltac:(tauto) Hold) as (Hw & Hlt & _).
  assert (Hrange : 0 <= o_word o < 2 ^ 32) by (split; [rewrite Hw; apply Z.mod_pos_bound; lia|exact Hlt]).
  destruct (Hwfs e (nth_error_In _ _ He)) as (S2 & S1 & S3).
  destruct (image_abs_disp A B sh s c reg d Hm Hwf H67) as (Hrd & Hd).
  assert (Ed : d = sext32 (o_word o)).
  { rewrite <- (sext32_mod d Hd). f_equal. rewrite <- Hrd, <- Himg. apply read_word_of_cells.
    - unfold zlen in *. lia.
    - rewrite Himg, !app_length. unfold zlen in *. lia.
    - change (2 ^ (8 * Z.of_nat 4)) with (2 ^ 32). exact Hrange.
    - intros k Hk4. rewrite Hf in Hb. cbn [ufmt vsize] in Hb. change (Z.to_nat 4) with 4%nat in Hb.
      replace (zlen A + zlen (senc M32 sh s c) - Z.of_nat (sh_imm sh) - 4 + k) with (e_off e + e_lead e + k) by lia.
      apply Hb. change (Z.of_nat 4) with 4 in Hk4. exact Hk4. }
  rewrite Ed in Hm.
  exact (abs32_operand_designates_target base asize atoff s1 e o s2 sh s c reg toff B Hre Hk Hf Hold Hm Hwf Hadm).
Qed.

Definition ex_mov32 (d : Z) : sinst :=
  {| s_pfx := ex_pfx; s_kind := KLeg; s_rex := false; s_W := false; s_vvvv := 0; s_V' := false; s_L := 0; s_pp := 0; s_map := 0;
     s_opc := 139; s_aaa := 0; s_z := false; s_b := false; s_modrm := MMem 0 (mkM BNone None 0 d); s_imm := 0 |}.
Definition ex_abs32_entry : rentry :=
  {| e_kind := RRelToAbs (Some 256); e_secoff := 0; e_off := 0; e_lead := 2; e_region := 6; e_fmt := ufmt 4; e_payload := 8; e_old := 0 |}.

(* `mov eax, [L]` (8B 05 disp32) with L at offset 8 of a section placed at 256, relocated to base 0x400000: the operand is 0x400108 *)
Example reloc_abs32_in_image_witness :
  let sh := mkSh true false 0 1 in let c := mkC false 0 false in
  exists r o, relocate 4194304 4 0 0 false [ex_abs32_entry] = inl r /\ nth_error (rr_outs r) O = Some o /\
    (forall e', In e' [ex_abs32_entry] -> site_wf [139; 5; 0; 0; 0; 0] e') /\ sites_disjoint [ex_abs32_entry] /\
    patch_all [139; 5; 0; 0; 0; 0] [ex_abs32_entry] (rr_outs r) = [] ++ senc M32 sh (ex_mov32 4194568) c ++ [] /\
    wf M32 sh (ex_mov32 4194568) = true /\ adm M32 sh (ex_mov32 4194568) c = true /\
    site_target M32 CMem sh 4194304 (senc M32 sh (ex_mov32 4194568) c ++ []) = Some 4194568.
Proof.
  cbv zeta. eexists. eexists. split; [vm_compute; reflexivity|]. split; [vm_compute; reflexivity|].
  split. { intros e' [<-|[]]. unfold site_wf, site_hi, ex_abs32_entry. cbn [e_off e_lead e_fmt ufmt vsize length]. lia. }
  split. { intros i j a b Ha Hb Hij. destruct i as [|[|i]], j as [|[|j]]; cbn in Ha, Hb; try discriminate; congruence. }
  repeat split; vm_compute; reflexivity.
Qed.

(* C04 — the completeness direction of relocate_to_base's entry switch: exact success conditions.  The *_exact theorems say what a
   successful relocation stores, the *_reported theorems that an unreachable target is an error; here: WHEN an entry succeeds.
     reloc_abs_succeeds_iff    RelToAbs, n-byte unsigned value: succeeds iff base + section offset + payload (mod 2^64) fits n bytes
     reloc_expr_succeeds_iff   expression, n-byte signed value: succeeds iff both labels are bound and the difference fits n bytes
     reloc_rel_succeeds_iff    AbsToRel rel32 in a 64-bit address space: succeeds iff the distance fits int32
     reloc_addr_entry_complete an address-table call/jmp (E8/E9) never fails when the table is within rel32 reach of the site *)
From Coq Require Import ZArith List Bool Lia.
From Verif Require Import Base.ZBits Codec.OffsetModel Codec.OffsetProofs Labels.LabelsModel Labels.LabelsExact Reloc.RelocModel Reloc.RelocProofs.
Import ListNotations.
Local Open Scope Z_scope.

Definition succeeds (base asize atoff : Z) (slots : list Z) (e : rentry) : Prop :=
  exists o s', relocate_entry base asize atoff slots e = inl (o, s').

Lemma to_i64_range_small v n : 0 <= v < 2 ^ (8 * n) -> n = 1 \/ n = 2 \/ n = 4 -> to_i64 v = v.
Proof. intros H Hn. apply to_i64_small. destruct Hn as [-> | [-> | ->]]; simpl in H; lia. Qed.

Theorem reloc_abs_succeeds_iff base asize atoff slots e toff n :
  e_kind e = RRelToAbs (Some toff) -> e_fmt e = ufmt n -> n = 1 \/ n = 2 \/ n = 4 \/ n = 8 -> e_old e = 0 ->
  (succeeds base asize atoff slots e <-> (e_payload e + base + toff) mod 2 ^ 64 < 2 ^ (8 * n)).
Proof.
  intros Hk Hf Hn Ho. split.
  - intros (o & s' & H). destruct (reloc_abs_exact base asize atoff slots e o s' H toff n Hk Hf Hn Ho) as (Hw & Hlt & _). rewrite <- Hw. exact Hlt.
  - intros Hlt. unfold succeeds, relocate_entry. rewrite Hk, Hf, Ho. unfold wrap.
    set (v := (e_payload e + base + toff) mod 2 ^ 64) in *.
    assert (Hv : 0 <= v < 2 ^ 64) by (apply Z.mod_pos_bound; lia).
    assert (He : encode_offset (ufmt n) (to_i64 v) <> None).
    { destruct Hn as [Hn|[Hn|[Hn|Hn]]].
      4:{ subst n. rewrite enc_u64 by apply to_i64_int64. discriminate. }
      all: intros Hnone; apply (unsigned32_refused_iff (ufmt n) (to_i64 v) eq_refl (wf_ufmt n ltac:(tauto)) (to_i64_int64 v)) in Hnone; apply Hnone;
        rewrite (to_i64_range_small v n) by (try tauto; lia); unfold unsigned_ok, ufmt; cbn [discard bits];
        change (2 ^ 0) with 1; rewrite Z.mod_1_r, Z.div_1_r; lia. }
    unfold write_offset. destruct (encode_offset (ufmt n) (to_i64 v)) as [m|]; [eauto|contradiction].
Qed.

Theorem reloc_expr_succeeds_iff base asize atoff slots e a b n :
  e_kind e = RExpr a b -> e_fmt e = sfmt n -> n = 1 \/ n = 2 \/ n = 4 \/ n = 8 -> e_old e = 0 ->
  (succeeds base asize atoff slots e <->
   exists pl pb, a = Some pl /\ b = Some pb /\ - 2 ^ (8 * n - 1) <= to_i64 (wrap 64 (pl - pb)) < 2 ^ (8 * n - 1)).
Proof.
  intros Hk Hf Hn Ho. split.
  - intros (o & s' & H). destruct a as [pl|].
    2:{ rewrite (expr_unbound_reported base asize atoff slots e None b Hk (or_introl eq_refl)) in H. discriminate. }
    destruct b as [pb|].
    2:{ rewrite (expr_unbound_reported base asize atoff slots e (Some pl) None Hk (or_intror eq_refl)) in H. discriminate. }
    destruct (reloc_expr_exact base asize atoff slots e o s' H pl pb n Hk Hf Hn Ho) as (_ & Hr). eauto.
  - intros (pl & pb & -> & -> & Hr). unfold succeeds, relocate_entry. rewrite Hk, Hf, Ho.
    assert (Hwf : wf_contig (sfmt n)) by (unfold wf_contig, sfmt; cbn [vsize bits shift discard]; lia).
    assert (He : encode_offset (sfmt n) (to_i64 (wrap 64 (pl - pb))) <> None).
    { intros Hnone. apply (signed_refused_iff (sfmt n) _ eq_refl Hwf (to_i64_int64 _)) in Hnone. apply Hnone.
      unfold signed_ok, sfmt; cbn [discard bits]. change (2 ^ 0) with 1. rewrite Z.mod_1_r, Z.div_1_r. lia. }
    unfold write_offset. destruct (encode_offset (sfmt n) _) as [m|]; [eauto|contradiction].
Qed.

Theorem reloc_rel_succeeds_iff base asize atoff slots e :
  e_kind e = RAbsToRel -> 4 < asize -> e_fmt e = fmt_of_kind K_Rel32 -> e_old e = 0 ->
  (succeeds base asize atoff slots e <->
   - 2 ^ 31 <= to_i64 (wrap 64 (e_payload e - (base + (e_secoff e + e_off e + e_region e)))) < 2 ^ 31).
Proof.
  intros Hk Ha Hf Ho. split.
  - intros (o & s' & H). destruct (Z_le_dec (- 2 ^ 31) (to_i64 (wrap 64 (e_payload e - (base + (e_secoff e + e_off e + e_region e)))))) as [L|L];
      [destruct (Z_lt_dec (to_i64 (wrap 64 (e_payload e - (base + (e_secoff e + e_off e + e_region e))))) (2 ^ 31)) as [U|U]; [lia|]|];
      rewrite (rel_out_of_range_reported base asize atoff slots e Hk Ha ltac:(lia)) in H; discriminate.
  - intros Hr. unfold succeeds, relocate_entry. rewrite Hk, Hf, Ho.
    replace (asize <=? 4) with false by (symmetry; apply Z.leb_gt; lia).
    replace (is_int32 _) with true by (symmetry; apply is_int32_spec; exact Hr).
    assert (Hwf : wf_contig (fmt_of_kind K_Rel32)) by (unfold wf_contig; simpl; repeat split; auto; lia).
    assert (He : encode_offset (fmt_of_kind K_Rel32) (to_i64 (wrap 64 (e_payload e - (base + (e_secoff e + e_off e + e_region e))))) <> None).
    { intros Hnone. apply (signed_refused_iff (fmt_of_kind K_Rel32) _ eq_refl Hwf (to_i64_int64 _)) in Hnone. apply Hnone.
      unfold signed_ok; cbn [fmt_of_kind discard bits]. change (2 ^ 0) with 1. rewrite Z.mod_1_r, Z.div_1_r. change (32 - 1) with 31. lia. }
    unfold write_offset. destruct (encode_offset (fmt_of_kind K_Rel32) _) as [m|]; [eauto|contradiction].
Qed.

Lemma rel32_encodable v : - 2 ^ 31 <= to_i64 v < 2 ^ 31 -> exists m, write_offset (fmt_of_kind K_Rel32) 0 (to_i64 v) = Some m.
Proof.
  intros Hr. assert (Hwf : wf_contig (fmt_of_kind K_Rel32)) by (unfold wf_contig; simpl; repeat split; auto; lia).
  assert (He : encode_offset (fmt_of_kind K_Rel32) (to_i64 v) <> None).
  { intros Hnone. apply (signed_refused_iff (fmt_of_kind K_Rel32) _ eq_refl Hwf (to_i64_int64 _)) in Hnone. apply Hnone.
    unfold signed_ok; cbn [fmt_of_kind discard bits]. change (2 ^ 0) with 1. rewrite Z.mod_1_r, Z.div_1_r. change (32 - 1) with 31. lia. }
  unfold write_offset. destruct (encode_offset (fmt_of_kind K_Rel32) (to_i64 v)) as [m|]; [eauto|contradiction].
Qed.

Theorem reloc_addr_entry_complete base asize atoff slots e opc :
  e_kind e = RAddrEntry opc -> opc = 232 \/ opc = 233 -> e_fmt e = fmt_of_kind K_Rel32 -> e_old e = 0 -> 2 <= e_off e + e_lead e ->
  (forall slot, 0 <= slot <= zlen slots ->
     - 2 ^ 31 <= to_i64 (wrap 64 (atoff + slot * asize - (e_secoff e + e_off e + e_region e))) < 2 ^ 31) ->
  succeeds base asize atoff slots e.
Proof.
  intros Hk Hopc Hf Ho Hlead Htab. unfold succeeds, relocate_entry. rewrite Hk, Hf, Ho. cbn [fmt_of_kind vsize]. cbn [Z.eqb Pos.eqb negb orb].
  replace (e_off e + e_lead e <? 2) with false by (symmetry; apply Z.ltb_ge; lia).
  destruct (is_int32 _) eqn:Ei.
  - apply is_int32_spec in Ei. destruct (rel32_encodable _ Ei) as (m & Hm). cbn [fmt_of_kind] in Hm. rewrite Hm. eauto.
  - destruct (find_or_add (e_payload e) slots) as [slot slots'] eqn:Ef.
    assert (Hs : 0 <= slot <= zlen slots).
    { destruct (find_or_add_spec _ _ _ _ Ef) as (_ & Hr & _). unfold find_or_add in Ef. destruct (index_of (e_payload e) slots 0).
      - injection Ef as <- <-. lia.
      - injection Ef as <- _. unfold zlen. lia. }
    specialize (Htab slot Hs). replace (is_int32 _) with true by (symmetry; apply is_int32_spec; exact Htab). cbn [negb].
    destruct (rel32_encodable _ Htab) as (m & Hm). cbn [fmt_of_kind] in Hm.
    destruct Hopc as [-> | ->]; cbn [Z.eqb Pos.eqb]; rewrite Hm; eauto.
Qed.

(* satisfiability / sharpness: a 4-byte label address at base 0xFFFFFF00: offset 0xFF still fits, 0x100 does not *)
Definition ex_abs_e (p : Z) : rentry :=
  {| e_kind := RRelToAbs (Some 0); e_secoff := 0; e_off := 0; e_lead := 0; e_region := 4; e_fmt := ufmt 4; e_payload := p; e_old := 0 |}.
Example reloc_abs_succeeds_iff_witness :
  succeeds 4294967040 8 0 [] (ex_abs_e 255) /\ ~ succeeds 4294967040 8 0 [] (ex_abs_e 256).
Proof.
  split.
  - apply (reloc_abs_succeeds_iff 4294967040 8 0 [] (ex_abs_e 255) 0 4 eq_refl eq_refl ltac:(tauto) eq_refl). vm_compute. reflexivity.
  - intros H. apply (reloc_abs_succeeds_iff 4294967040 8 0 [] (ex_abs_e 256) 0 4 eq_refl eq_refl ltac:(tauto) eq_refl) in H. vm_compute in H. discriminate.
Qed.

Definition ex_expr_e (a b : option Z) : rentry :=
  {| e_kind := RExpr a b; e_secoff := 0; e_off := 0; e_lead := 0; e_region := 1; e_fmt := sfmt 1; e_payload := 0; e_old := 0 |}.
Example reloc_expr_succeeds_iff_witness :
  succeeds 0 8 0 [] (ex_expr_e (Some 127) (Some 0)) /\ ~ succeeds 0 8 0 [] (ex_expr_e (Some 128) (Some 0)) /\ ~ succeeds 0 8 0 [] (ex_expr_e None (Some 0)).
Proof.
  split; [|split].
  - apply (reloc_expr_succeeds_iff 0 8 0 [] (ex_expr_e (Some 127) (Some 0)) (Some 127) (Some 0) 1 eq_refl eq_refl ltac:(tauto) eq_refl).
    exists 127, 0. repeat split; vm_compute; congruence.
  - intros H. apply (reloc_expr_succeeds_iff 0 8 0 [] (ex_expr_e (Some 128) (Some 0)) (Some 128) (Some 0) 1 eq_refl eq_refl ltac:(tauto) eq_refl) in H.
    destruct H as (pl & pb & E1 & E2 & _ & H). injection E1 as <-. injection E2 as <-. vm_compute in H. discriminate.
  - intros H. apply (reloc_expr_succeeds_iff 0 8 0 [] (ex_expr_e None (Some 0)) None (Some 0) 1 eq_refl eq_refl ltac:(tauto) eq_refl) in H.
    destruct H as (pl & pb & E1 & _). discriminate.
Qed.

(* ------------------------------------------------------------------ round 7: the list level (relocate_to_base's loop) *)
(* entries that do not go through the address table neither read nor change the slot table *)
Definition no_table (e : rentry) : Prop := match e_kind e with RAddrEntry _ => False | _ => True end.

Lemma entry_no_table base asize atoff slots e : no_table e ->
  relocate_entry base asize atoff slots e =
  match relocate_entry base asize atoff [] e with inl (o, _) => inl (o, slots) | inr x => inr x end.
Proof.
  unfold no_table, relocate_entry. destruct (e_kind e) as [a b| |toff| |opc]; try contradiction; intros _.
  - destruct a as [pl|]; [|reflexivity]. destruct b as [pb|]; [|reflexivity]. destruct (write_offset _ _ _); reflexivity.
  - destruct (write_offset _ _ _); reflexivity.
  - destruct toff; [|reflexivity]. destruct (write_offset _ _ _); reflexivity.
  - destruct (asize <=? 4); [|destruct (is_int32 _); [|reflexivity]]; destruct (write_offset _ _ _); reflexivity.
Qed.

(* relocate_to_base's loop over entries without address-table calls succeeds exactly when every single entry succeeds; the slot table
   comes back unchanged and the i-th patch is the one the i-th entry gets on its own *)
Theorem relocate_all_complete base asize atoff : forall es slots, Forall no_table es ->
  ((exists os s', relocate_all base asize atoff slots es = inl (os, s')) <-> Forall (succeeds base asize atoff []) es).
Proof.
  induction es as [|e t IH]; intros slots Hn.
  - split; [constructor|]. intros _. cbn [relocate_all]. eauto.
  - inversion Hn as [|? ? He Ht]; subst. cbn [relocate_all]. rewrite (entry_no_table base asize atoff slots e He).
    destruct (relocate_entry base asize atoff [] e) as [[o s0]|x] eqn:E.
    + split.
      * intros (os & s' & H). destruct (relocate_all base asize atoff slots t) as [[os1 s1]|y] eqn:Et; [|discriminate].
        constructor; [exists o, s0; exact E|]. apply (IH slots Ht). eauto.
      * intros H. inversion H as [|? ? _ Ht']; subst. destruct (proj2 (IH slots Ht) Ht') as (os1 & s1 & E1). rewrite E1. eauto.
    + split; [intros (os & s' & H); discriminate|]. intros H. inversion H as [|? ? (o & s0 & E0) _]; subst. rewrite E in E0. discriminate.
Qed.

Theorem relocate_all_no_table_slots base asize atoff : forall es slots os s', Forall no_table es ->
  relocate_all base asize atoff slots es = inl (os, s') -> s' = slots.
Proof.
  induction es as [|e t IH]; intros slots os s' Hn H; cbn [relocate_all] in H; [injection H as _ <-; reflexivity|].
  inversion Hn as [|? ? He Ht]; subst. rewrite (entry_no_table base asize atoff slots e He) in H.
  destruct (relocate_entry base asize atoff [] e) as [[o s0]|x]; [|discriminate].
  destruct (relocate_all base asize atoff slots t) as [[os1 s1]|y] eqn:Et; [|discriminate]. injection H as _ <-. exact (IH slots os1 s1 Ht Et).
Qed.

Example relocate_all_complete_witness :
  Forall no_table [ex_abs_e 255; ex_expr_e (Some 127) (Some 0)] /\
  (exists os s', relocate_all 4294967040 8 0 [] [ex_abs_e 255; ex_expr_e (Some 127) (Some 0)] = inl (os, s')) /\
  ~ (exists os s', relocate_all 4294967040 8 0 [] [ex_abs_e 255; ex_abs_e 256] = inl (os, s')).
Proof.
  split; [repeat constructor|]. split; [vm_compute; eauto|].
  intros H. apply (relocate_all_complete 4294967040 8 0 [ex_abs_e 255; ex_abs_e 256] [] ltac:(repeat constructor)) in H.
  inversion H as [|? ? _ H2]; subst. inversion H2 as [|? ? H3 _]; subst. exact (proj2 reloc_abs_succeeds_iff_witness H3).
Qed.

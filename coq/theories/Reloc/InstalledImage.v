(* C04 — the installed image (composition with C10): for the x86-64 `call <absolute>` sites of C10's JitReloc scenario, the bytes
   that JitRuntime::_add installs at a call site are exactly the word / opcode bytes this model's `relocate` computed, hence (by
   C04_addr_entry_exact) they reach the target directly or through an address-table slot.
   Sections.JitReloc (C10) applies `relocate` to the holder and proves that the installed bytes are the relocated holder's bytes
   (`jit_add_reloc_image`); this file adds what the patched .text bytes ARE at every site. *)
From Coq Require Import ZArith List Bool Lia.
From Verif Require Import Base.ZBits Codec.OffsetModel Labels.LabelsModel Reloc.RelocModel Reloc.RelocProofs
  Sections.SectionModel Sections.ChunkModel Sections.CopyProofs Sections.ChunkProofs Sections.SettleProofs Sections.JitReloc Sections.JitRelocProofs.
Import ListNotations.
Local Open Scope Z_scope.

Definition site_lo (e : rentry) : Z := e_off e + e_lead e - 2.
Definition site_hi (e : rentry) : Z := e_off e + e_lead e + vsize (e_fmt e).
Definition site_wf (data : list Z) (e : rentry) : Prop :=
  0 <= e_off e + e_lead e /\ 0 <= vsize (e_fmt e) /\ site_hi e <= Z.of_nat (length data).

(* one patched site: the value word and the two bytes in front of it *)
Lemma patch_site_word data e o k : site_wf data e -> 0 <= k < vsize (e_fmt e) ->
  cell (patch_site data e o) (e_off e + e_lead e + k) = cell (le_bytes (Z.to_nat (vsize (e_fmt e))) (o_word o)) k.
Proof.
  intros (H2 & Hv & Hb) Hk. unfold site_hi in Hb. unfold patch_site.
  set (d1 := write_at data (e_off e + e_lead e) (le_bytes (Z.to_nat (vsize (e_fmt e))) (o_word o))).
  assert (L1 : length d1 = length data) by (apply write_at_length; [lia|rewrite le_bytes_length; lia]).
  assert (C1 : cell d1 (e_off e + e_lead e + k) = cell (le_bytes (Z.to_nat (vsize (e_fmt e))) (o_word o)) k).
  { unfold d1. rewrite write_at_cell; [|lia|rewrite le_bytes_length; lia|lia]. rewrite le_bytes_length.
    replace ((e_off e + e_lead e <=? e_off e + e_lead e + k) && (e_off e + e_lead e + k <? e_off e + e_lead e + Z.of_nat (Z.to_nat (vsize (e_fmt e)))))
      with true by (symmetry; apply andb_true_iff; split; [apply Z.leb_le|apply Z.ltb_lt]; lia).
    f_equal. lia. }
  destruct (o_rewrite o) as [[b0 b1]|]; [|exact C1].
  destruct (Z.leb_spec 2 (e_off e + e_lead e)) as [G2|G2]; [|exact C1].
  rewrite write_at_cell; [|lia|cbn [length]; lia|lia]. cbn [length].
  replace ((e_off e + e_lead e - 2 <=? e_off e + e_lead e + k) && (e_off e + e_lead e + k <? e_off e + e_lead e - 2 + Z.of_nat 2))
    with false by (symmetry; apply andb_false_iff; right; apply Z.ltb_ge; lia).
  exact C1.
Qed.

Lemma patch_site_opcode data e o j : site_wf data e -> 2 <= e_off e + e_lead e -> 0 <= j < 2 ->
  cell (patch_site data e o) (e_off e + e_lead e - 2 + j) =
  match o_rewrite o with
  | Some (b0, b1) => if j =? 0 then b0 else b1
  | None => cell data (e_off e + e_lead e - 2 + j)
  end.
Proof.
  intros (H2 & Hv & Hb) G2 Hj. unfold site_hi in Hb. unfold patch_site.
  set (d1 := write_at data (e_off e + e_lead e) (le_bytes (Z.to_nat (vsize (e_fmt e))) (o_word o))).
  assert (L1 : length d1 = length data) by (apply write_at_length; [lia|rewrite le_bytes_length; lia]).
  assert (C1 : cell d1 (e_off e + e_lead e - 2 + j) = cell data (e_off e + e_lead e - 2 + j)).
  { unfold d1. rewrite write_at_cell; [|lia|rewrite le_bytes_length; lia|lia].
    replace (e_off e + e_lead e <=? e_off e + e_lead e - 2 + j) with false by (symmetry; apply Z.leb_gt; lia). reflexivity. }
  destruct (o_rewrite o) as [[b0 b1]|]; [|exact C1].
  replace (2 <=? e_off e + e_lead e) with true by (symmetry; apply Z.leb_le; lia).
  rewrite write_at_cell; [|lia|cbn [length]; lia|lia]. cbn [length].
  replace ((e_off e + e_lead e - 2 <=? e_off e + e_lead e - 2 + j) && (e_off e + e_lead e - 2 + j <? e_off e + e_lead e - 2 + Z.of_nat 2))
    with true by (symmetry; apply andb_true_iff; split; [apply Z.leb_le|apply Z.ltb_lt]; lia).
  replace (e_off e + e_lead e - 2 + j - (e_off e + e_lead e - 2)) with j by lia.
  assert (j = 0 \/ j = 1) as [-> | ->] by lia; reflexivity.
Qed.

(* patches of later sites do not touch a cell outside their ranges *)
Lemma patch_all_outside es : forall outs data c, 0 <= c ->
  (forall e, In e es -> site_wf data e /\ ~ (site_lo e <= c < site_hi e)) ->
  cell (patch_all data es outs) c = cell data c.
Proof.
  induction es as [|e t IH]; intros outs data c Hc H; cbn [patch_all]; [reflexivity|]. destruct outs as [|o ot]; [reflexivity|].
  destruct (H e (or_introl eq_refl)) as ((H2 & Hv & Hb) & Hout). unfold site_lo, site_hi in *.
  rewrite IH; [apply patch_site_outside; try assumption; lia|assumption|].
  intros e' He'. destruct (H e' (or_intror He')) as ((A & B & C) & D). split; [|exact D].
  split; [exact A|split; [exact B|]]. unfold site_hi in *. rewrite (patch_site_length data e o ltac:(lia) Hv Hb). exact C.
Qed.

Definition sites_disjoint (es : list rentry) : Prop :=
  forall i j a b, nth_error es i = Some a -> nth_error es j = Some b -> i <> j -> site_hi a <= site_lo b \/ site_hi b <= site_lo a.

(* every site of a list of pairwise disjoint, in-bounds sites carries its own patch in the final .text bytes *)
Theorem patch_all_site es : forall outs data i e o,
  (forall e', In e' es -> site_wf data e') -> sites_disjoint es ->
  nth_error es i = Some e -> nth_error outs i = Some o ->
  (forall k, 0 <= k < vsize (e_fmt e) ->
     cell (patch_all data es outs) (e_off e + e_lead e + k) = cell (le_bytes (Z.to_nat (vsize (e_fmt e))) (o_word o)) k) /\
  (2 <= e_off e + e_lead e -> forall j, 0 <= j < 2 ->
     cell (patch_all data es outs) (e_off e + e_lead e - 2 + j) =
     match o_rewrite o with Some (b0, b1) => if j =? 0 then b0 else b1 | None => cell data (e_off e + e_lead e - 2 + j) end).
Proof.
  induction es as [|e0 t IH]; intros outs data i e o Hwf Hdis He Ho; [destruct i; discriminate|].
  destruct outs as [|o0 ot]; [destruct i; discriminate|]. cbn [patch_all].
  destruct (Hwf e0 (or_introl eq_refl)) as (H2 & Hv & Hb).
  assert (Hlen : length (patch_site data e0 o0) = length data) by (apply patch_site_length; try assumption; lia).
  assert (Hwf' : forall e', In e' t -> site_wf (patch_site data e0 o0) e').
  { intros e' H. destruct (Hwf e' (or_intror H)) as (A & B & C). split; [exact A|split; [exact B|]]. rewrite Hlen. exact C. }
  assert (Hdis' : sites_disjoint t).
  { intros a b x y Hx Hy Hn. apply (Hdis (S a) (S b) x y); simpl; auto. }
  destruct i as [|i]; simpl in He, Ho.
  - injection He as <-. injection Ho as <-.
    assert (Hout : forall c, site_lo e0 <= c < site_hi e0 -> forall e', In e' t -> site_wf (patch_site data e0 o0) e' /\ ~ (site_lo e' <= c < site_hi e')).
    { intros c Hc e' H. split; [apply Hwf'; exact H|]. apply In_nth_error in H. destruct H as (j & Hj).
      destruct (Hdis O (S j) e0 e' eq_refl Hj ltac:(lia)) as [D|D]; lia. }
    split.
    + intros k Hk. rewrite patch_all_outside; [apply patch_site_word; [exact (conj H2 (conj Hv Hb))|exact Hk]|lia|].
      apply Hout. unfold site_lo, site_hi. lia.
    + intros G2 j Hj. rewrite patch_all_outside; [apply patch_site_opcode; [exact (conj H2 (conj Hv Hb))|exact G2|exact Hj]|lia|].
      apply Hout. unfold site_lo, site_hi. lia.
  - destruct (IH ot (patch_site data e0 o0) i e o Hwf' Hdis' He Ho) as (A & B). split; [exact A|].
    intros G2 j Hj. rewrite (B G2 j Hj). destruct (o_rewrite o) as [[b0 b1]|]; [reflexivity|].
    (* the unpatched opcode bytes of site i lie outside site 0 *)
    destruct (Hwf e (or_intror (nth_error_In _ _ He))) as (E2 & Ev & Eb).
    apply patch_site_outside; try assumption; try lia.
    destruct (Hdis O (S i) e0 e eq_refl He ltac:(lia)) as [D|D]; unfold site_lo, site_hi in *; lia.
Qed.

(* ------------------------------------------------------------------ the ONLY places that depend on the shape of C10's definitions / lemma
   names (Sections.JitReloc: site, site_entry, site_in_bounds, relocate_holder, jit_add_reloc; JitRelocProofs.jit_add_reloc_image;
   SettleProofs.final_copy_ready): `c10_sites_wf` and `jit_reloc_unfold` below.  Everything else in this file uses only these two. *)
(* ------------------------------------------------------------------ composition with C10's JitRuntime::_add model *)
From Verif Require Import Sections.SectionTable Sections.SectionProofs.

Lemma c10_sites_wf (text : section) h off calls :
  forallb (site_in_bounds text) calls = true -> Z.of_nat (length (sdata text)) = sbsize text ->
  forall e', In e' (map (site_entry h off) calls) -> site_wf (sdata text) e'.
Proof.
  intros Eb Hlen e' He'. apply in_map_iff in He'. destruct He' as (c & <- & Hc).
  rewrite forallb_forall in Eb. specialize (Eb c Hc). unfold site_in_bounds in Eb.
  repeat rewrite andb_true_iff in Eb. rewrite ?Z.leb_le, ?Z.ltb_lt in Eb.
  destruct c; unfold site_wf, site_hi, site_entry, site_pos, site_len, CALL_LEN, ABS_LEN in *; cbn [e_off e_lead e_fmt vsize sfmt ufmt]; lia.
Qed.

Lemma c10_site_pos_nonneg (text : section) calls c : forallb (site_in_bounds text) calls = true -> In c calls -> 0 <= site_pos c.
Proof.
  intros Eb Hc. rewrite forallb_forall in Eb. specialize (Eb c Hc). unfold site_in_bounds in Eb.
  repeat rewrite andb_true_iff in Eb. rewrite ?Z.leb_le, ?Z.ltb_lt in Eb. lia.
Qed.

(* everything relocate_holder did, as facts *)
Lemma jit_reloc_unfold st calls base fill final img h2 :
  wf_holder (jh st) -> data_len_ok (jh st) ->
  (forall h1, flatten (jh st) = (EOk, h1) -> NoDup (map sid h1) /\ (forall s, In s h1 -> 0 <= sid s)) ->
  jit_add_reloc st calls base fill = (JOk, final, img, h2) ->
  exists h1 text t atoff reserved last r,
    flatten (jh st) = (EOk, h1) /\ by_id h1 0 = Some text /\ In text h1 /\ sid text = 0 /\
    Z.of_nat (length (sdata text)) = sbsize text /\
    forallb (site_in_bounds text) calls = true /\
    (match jtab st with
     | Some t0 => match by_id h1 t0 with Some ts => (t0, soff ts, svsize ts, is_last h1 t0) | None => (-1, 0, 0, false) end
     | None => (-1, 0, 0, false) end) = (t, atoff, reserved, last) /\
    relocate base REG_SIZE atoff reserved last (map (site_entry h1 (soff text)) calls) = inl r /\
    rr_table_size r <= reserved /\
    h2 = map (fun s => if sid s =? t then set_sizes s (rr_table_size r) (if last then rr_table_size r else svsize s) (table_bytes (rr_table r))
                       else if sid s =? 0 then set_data s (patch_all (sdata s) (map (site_entry h1 (soff text)) calls) (rr_outs r)) else s) h1 /\
    (forall s, In s h2 -> forall k, 0 <= k < sbsize s -> soff s + k < final -> cell (flat img) (soff s + k) = cell (sdata s) k).
Proof.
  intros Hwf Hdl Hid E.
  destruct (jit_add_reloc_image st calls base fill final img h2 Hwf Hdl Hid E) as (h1 & red & Ef & Er & Efin & Hoff & Hcells & _).
  destruct (final_copy_ready (jh st) h1 Hwf Hdl Ef) as (Hd & _).
  unfold relocate_holder in Er.
  destruct (by_id h1 0) as [text|] eqn:Et; [|discriminate].
  destruct (forallb (site_in_bounds text) calls) eqn:Eb; cbn [negb] in Er; [|discriminate].
  destruct (match jtab st with
            | Some t0 => match by_id h1 t0 with Some ts => (t0, soff ts, svsize ts, is_last h1 t0) | None => (-1, 0, 0, false) end
            | None => (-1, 0, 0, false) end) as [[[t atoff] reserved] last] eqn:Esel.
  destruct (relocate base REG_SIZE atoff reserved last (map (site_entry h1 (soff text)) calls)) as [r|x] eqn:Erel; [|discriminate].
  destruct (Z.ltb_spec reserved (rr_table_size r)) as [|Hfit]; [discriminate|]. injection Er as Eh2 _.
  destruct (by_id_in _ _ _ Et) as (Esid & Hin).
  rewrite Forall_forall in Hd. destruct (Hd text Hin) as (Hlen & _).
  exists h1, text, t, atoff, reserved, last, r. repeat split; auto.
Qed.

(* the bytes JitRuntime::_add installs at the i-th relocation site when it is a `call <absolute>`: the relocated rel32 word and, when
   the call was routed through the address table, FF 15 in front of it (otherwise the emitted 40 E8) *)
Theorem installed_call_site st calls base fill final img h2 i pos target :
  wf_holder (jh st) -> data_len_ok (jh st) ->
  (forall h1, flatten (jh st) = (EOk, h1) -> NoDup (map sid h1) /\ (forall s, In s h1 -> 0 <= sid s)) ->
  jtab st <> Some 0 -> (forall h off, sites_disjoint (map (site_entry h off) calls)) ->
  jit_add_reloc st calls base fill = (JOk, final, img, h2) ->
  nth_error calls i = Some (SCall pos target) ->
  exists h1 text atoff reserved last r o,
    flatten (jh st) = (EOk, h1) /\ by_id h1 0 = Some text /\
    relocate base REG_SIZE atoff reserved last (map (site_entry h1 (soff text)) calls) = inl r /\
    nth_error (rr_outs r) i = Some o /\
    (forall k, 0 <= k < 4 -> soff text + pos + 2 + k < final ->
       cell (flat img) (soff text + pos + 2 + k) = cell (le_bytes 4 (o_word o)) k) /\
    (forall j, 0 <= j < 2 -> soff text + pos + j < final ->
       cell (flat img) (soff text + pos + j) =
       match o_rewrite o with Some (b0, b1) => if j =? 0 then b0 else b1 | None => cell (sdata text) (pos + j) end).
Proof.
  intros Hwf Hdl Hid Htab Hcd E Hi.
  destruct (jit_reloc_unfold st calls base fill final img h2 Hwf Hdl Hid E)
    as (h1 & text & t & atoff & reserved & last & r & Ef & Et & Hin & Esid & Hlen & Eb & Esel & Erel & Hfit & Eh2 & Hcells).
  set (es := map (site_entry h1 (soff text)) calls) in *.
  assert (Ht0 : t <> 0).
  { destruct (jtab st) as [t0|]; [destruct (by_id h1 t0); injection Esel as <- _ _ _; [congruence|lia]|injection Esel as <- _ _ _; lia]. }
  destruct (relocate_table _ _ _ _ _ _ _ Erel) as (_ & _ & _ & Hlo).
  assert (Hei : nth_error es i = Some (site_entry h1 (soff text) (SCall pos target))) by (unfold es; rewrite nth_error_map, Hi; reflexivity).
  assert (Hoi : exists o, nth_error (rr_outs r) i = Some o).
  { destruct (nth_error (rr_outs r) i) as [o|] eqn:Eo; [eauto|]. apply nth_error_None in Eo.
    assert (i < length es)%nat by (apply nth_error_Some; congruence). lia. }
  destruct Hoi as (o & Ho).
  set (text2 := set_data text (patch_all (sdata text) es (rr_outs r))).
  assert (Hin2 : In text2 h2).
  { rewrite Eh2. apply in_map_iff. exists text. split; [|exact Hin].
    replace (sid text =? t) with false by (symmetry; apply Z.eqb_neq; lia).
    replace (sid text =? 0) with true by (symmetry; apply Z.eqb_eq; exact Esid). reflexivity. }
  assert (Hwfs : forall e', In e' es -> site_wf (sdata text) e') by (apply c10_sites_wf; assumption).
  destruct (patch_all_site es (rr_outs r) (sdata text) i _ o Hwfs (Hcd _ _) Hei Ho) as (PW & PO).
  cbn [site_entry e_off e_lead e_fmt vsize sfmt fst snd] in PW, PO.
  destruct (Hwfs _ (nth_error_In _ _ Hei)) as (S2 & _ & S3). unfold site_hi in S3. cbn [site_entry e_off e_lead e_fmt vsize sfmt fst snd] in S2, S3.
  assert (Ep0 : 0 <= pos) by exact (c10_site_pos_nonneg text calls (SCall pos target) Eb (nth_error_In _ _ Hi)).
  exists h1, text, atoff, reserved, last, r, o. repeat split; auto.
  - intros k Hk Hf. specialize (Hcells text2 Hin2 (pos + 2 + k)).
    assert (Hb2 : sbsize text2 = sbsize text) by reflexivity. assert (Ho2 : soff text2 = soff text) by reflexivity.
    rewrite Hb2, Ho2 in Hcells. replace (soff text + (pos + 2 + k)) with (soff text + pos + 2 + k) in Hcells by lia.
    rewrite Hcells by lia. change (sdata text2) with (patch_all (sdata text) es (rr_outs r)). exact (PW k Hk).
  - intros j Hj Hf. specialize (Hcells text2 Hin2 (pos + j)).
    assert (Hb2 : sbsize text2 = sbsize text) by reflexivity. assert (Ho2 : soff text2 = soff text) by reflexivity.
    rewrite Hb2, Ho2 in Hcells. replace (soff text + (pos + j)) with (soff text + pos + j) in Hcells by lia.
    rewrite Hcells by lia. change (sdata text2) with (patch_all (sdata text) es (rr_outs r)).
    specialize (PO ltac:(lia) j Hj). replace (pos + 2 - 2 + j) with (pos + j) in PO by lia. exact PO.
Qed.

(* what the relocated word / opcode bytes of the i-th site mean when it is a call (C04_relocate_all_sound + C04_addr_entry_exact) *)
Theorem call_out_reaches base atoff reserved last h text_off calls r i pos target o :
  relocate base REG_SIZE atoff reserved last (map (site_entry h text_off) calls) = inl r ->
  nth_error calls i = Some (SCall pos target) -> nth_error (rr_outs r) i = Some o ->
  let next := text_off + pos + CALL_LEN in
  let d := decode_kind K_Rel32 (o_word o) in
  (o_rewrite o = None /\ rel_target 64 base next d = target mod 2 ^ 64) \/
  (o_rewrite o = Some (255, 21) /\
   exists slot, 0 <= slot /\ nth_error (rr_table r) (Z.to_nat slot) = Some target /\
                rel_target 64 base next d = (base + atoff + slot * REG_SIZE) mod 2 ^ 64).
Proof.
  intros Er Hi Ho next d. unfold relocate in Er.
  destruct (relocate_all base REG_SIZE atoff [] (map (site_entry h text_off) calls)) as [[os slots]|x] eqn:Ea; [|discriminate].
  injection Er as <-. cbn [rr_outs rr_table] in *.
  destruct (relocate_all_sound _ _ _ _ _ _ _ Ea) as (_ & _ & _ & Hall).
  assert (He : nth_error (map (site_entry h text_off) calls) i = Some (site_entry h text_off (SCall pos target))) by (rewrite nth_error_map, Hi; reflexivity).
  destruct (Hall i _ o He Ho) as (s1 & s2 & Hre & _ & Hext).
  destruct (reloc_addr_entry_exact base REG_SIZE atoff s1 _ o s2 Hre 232 eq_refl eq_refl eq_refl) as [(A & _ & B)|(slot & modrm & A & _ & Hm & _ & (Hs0 & _) & Hn & B & _)].
  - left. split; [exact A|]. exact B.
  - right. destruct Hm as [(_ & ->)|(X & _)]; [|discriminate X]. split; [exact A|].
    exists slot. split; [exact Hs0|]. split; [eapply extends_nth; eauto|exact B].
Qed.

(* ------------------------------------------------------------------ round 3: the table section itself and embedded label addresses *)
Lemma table_bytes_cell slots : forall i a k, nth_error slots i = Some a -> 0 <= k < 8 ->
  cell (table_bytes slots) (8 * Z.of_nat i + k) = cell (le_bytes 8 a) k.
Proof.
  induction slots as [|x t IH]; intros i a k Hi Hk; [destruct i; discriminate|].
  cbn [table_bytes flat_map]. fold (table_bytes t). unfold cell.
  destruct i as [|i]; simpl in Hi.
  - injection Hi as ->. rewrite app_nth1 by (rewrite le_bytes_length; lia). f_equal; lia.
  - rewrite app_nth2 by (rewrite le_bytes_length; lia). rewrite le_bytes_length.
    replace (Z.to_nat (8 * Z.of_nat (S i) + k) - 8)%nat with (Z.to_nat (8 * Z.of_nat i + k)) by lia.
    apply (IH i a k Hi Hk).
Qed.

(* the installed address table: slot i of the relocated table is installed, little endian, at table offset + 8 i *)
Theorem installed_table_slot st calls base fill final img h2 :
  wf_holder (jh st) -> data_len_ok (jh st) ->
  (forall h1, flatten (jh st) = (EOk, h1) -> NoDup (map sid h1) /\ (forall s, In s h1 -> 0 <= sid s)) ->
  jit_add_reloc st calls base fill = (JOk, final, img, h2) ->
  forall t, jtab st = Some t ->
  exists h1 text atoff reserved last r,
    flatten (jh st) = (EOk, h1) /\ by_id h1 0 = Some text /\
    relocate base REG_SIZE atoff reserved last (map (site_entry h1 (soff text)) calls) = inl r /\
    (forall ts, by_id h1 t = Some ts -> atoff = soff ts /\
       forall i a k, nth_error (rr_table r) i = Some a -> 0 <= k < 8 -> soff ts + 8 * Z.of_nat i + k < final ->
         cell (flat img) (soff ts + 8 * Z.of_nat i + k) = cell (le_bytes 8 a) k).
Proof.
  intros Hwf Hdl Hid E t Ht.
  destruct (jit_reloc_unfold st calls base fill final img h2 Hwf Hdl Hid E)
    as (h1 & text & t' & atoff & reserved & last & r & Ef & Et & Hin & Esid & Hlen & Eb & Esel & Erel & Hfit & Eh2 & Hcells).
  exists h1, text, atoff, reserved, last, r. repeat split; auto.
  - rewrite Ht, H in Esel. injection Esel as _ <- _ _. reflexivity.
  - intros i a k Hi Hk Hf. rewrite Ht, H in Esel. injection Esel as <- _ _ _.
    destruct (by_id_in _ _ _ H) as (Ets & Hints).
    set (ts2 := set_sizes ts (rr_table_size r) (if last then rr_table_size r else svsize ts) (table_bytes (rr_table r))).
    assert (Hin2 : In ts2 h2).
    { rewrite Eh2. apply in_map_iff. exists ts. split; [|exact Hints]. rewrite Ets, Z.eqb_refl. reflexivity. }
    destruct (relocate_table _ _ _ _ _ _ _ Erel) as (_ & Esize & _). unfold zlen, REG_SIZE in Esize.
    assert (Hi' : (i < length (rr_table r))%nat) by (apply nth_error_Some; congruence).
    specialize (Hcells ts2 Hin2 (8 * Z.of_nat i + k)).
    assert (Hb2 : sbsize ts2 = rr_table_size r) by reflexivity. assert (Ho2 : soff ts2 = soff ts) by reflexivity.
    rewrite Hb2, Ho2 in Hcells. replace (soff ts + (8 * Z.of_nat i + k)) with (soff ts + 8 * Z.of_nat i + k) in Hcells by lia.
    rewrite Hcells by lia. change (sdata ts2) with (table_bytes (rr_table r)). apply table_bytes_cell; assumption.
Qed.

(* an embedded label address (C10's SAbs site: embed_label of 8 bytes in .text, RelToAbs): the installed 8 bytes are the relocated word,
   which is base + target section offset + label offset *)
Theorem installed_abs_site st calls base fill final img h2 i pos target loff :
  wf_holder (jh st) -> data_len_ok (jh st) ->
  (forall h1, flatten (jh st) = (EOk, h1) -> NoDup (map sid h1) /\ (forall s, In s h1 -> 0 <= sid s)) ->
  jtab st <> Some 0 -> (forall h off, sites_disjoint (map (site_entry h off) calls)) ->
  jit_add_reloc st calls base fill = (JOk, final, img, h2) ->
  nth_error calls i = Some (SAbs pos target loff) ->
  exists h1 text ts w,
    flatten (jh st) = (EOk, h1) /\ by_id h1 0 = Some text /\ by_id h1 target = Some ts /\
    w = (loff + base + soff ts) mod 2 ^ 64 /\
    (forall k, 0 <= k < 8 -> soff text + pos + k < final -> cell (flat img) (soff text + pos + k) = cell (le_bytes 8 w) k).
Proof.
  intros Hwf Hdl Hid Htab Hcd E Hi.
  destruct (jit_reloc_unfold st calls base fill final img h2 Hwf Hdl Hid E)
    as (h1 & text & t & atoff & reserved & last & r & Ef & Et & Hin & Esid & Hlen & Eb & Esel & Erel & Hfit & Eh2 & Hcells).
  set (es := map (site_entry h1 (soff text)) calls) in *.
  assert (Ht0 : t <> 0).
  { destruct (jtab st) as [t0|]; [destruct (by_id h1 t0); injection Esel as <- _ _ _; [congruence|lia]|injection Esel as <- _ _ _; lia]. }
  destruct (relocate_table _ _ _ _ _ _ _ Erel) as (_ & _ & _ & Hlo).
  assert (Hei : nth_error es i = Some (site_entry h1 (soff text) (SAbs pos target loff))) by (unfold es; rewrite nth_error_map, Hi; reflexivity).
  assert (Hoi : exists o, nth_error (rr_outs r) i = Some o).
  { destruct (nth_error (rr_outs r) i) as [o|] eqn:Eo; [eauto|]. apply nth_error_None in Eo.
    assert (i < length es)%nat by (apply nth_error_Some; congruence). lia. }
  destruct Hoi as (o & Ho).
  (* the entry was relocated by relocate_entry: a RelToAbs entry needs a target section *)
  assert (Hre : exists s1 s2, relocate_entry base REG_SIZE atoff s1 (site_entry h1 (soff text) (SAbs pos target loff)) = inl (o, s2)).
  { unfold relocate in Erel. destruct (relocate_all base REG_SIZE atoff [] es) as [[os slots]|x] eqn:Ea; [|discriminate].
    injection Erel as <-. cbn [rr_outs] in Ho. destruct (relocate_all_sound _ _ _ _ _ _ _ Ea) as (_ & _ & _ & Hall).
    destruct (Hall i _ o Hei Ho) as (s1 & s2 & H & _). eauto. }
  destruct Hre as (s1 & s2 & Hre).
  destruct (by_id h1 target) as [ts|] eqn:Ets.
  2:{ exfalso. unfold relocate_entry, site_entry in Hre. cbn [e_kind] in Hre. rewrite Ets in Hre. discriminate. }
  assert (Hk : e_kind (site_entry h1 (soff text) (SAbs pos target loff)) = RRelToAbs (Some (soff ts))) by (cbn [site_entry e_kind]; rewrite Ets; reflexivity).
  destruct (reloc_abs_exact base REG_SIZE atoff s1 _ o s2 Hre (soff ts) 8 Hk eq_refl ltac:(tauto) eq_refl) as (Hw & _).
  cbn [site_entry e_payload] in Hw.
  set (text2 := set_data text (patch_all (sdata text) es (rr_outs r))).
  assert (Hin2 : In text2 h2).
  { rewrite Eh2. apply in_map_iff. exists text. split; [|exact Hin].
    replace (sid text =? t) with false by (symmetry; apply Z.eqb_neq; lia).
    replace (sid text =? 0) with true by (symmetry; apply Z.eqb_eq; exact Esid). reflexivity. }
  assert (Hwfs : forall e', In e' es -> site_wf (sdata text) e') by (apply c10_sites_wf; assumption).
  destruct (patch_all_site es (rr_outs r) (sdata text) i _ o Hwfs (Hcd _ _) Hei Ho) as (PW & _).
  cbn [site_entry e_off e_lead e_fmt vsize ufmt] in PW.
  destruct (Hwfs _ (nth_error_In _ _ Hei)) as (S2 & _ & S3). unfold site_hi in S3. cbn [site_entry e_off e_lead e_fmt vsize ufmt] in S2, S3.
  exists h1, text, ts, (o_word o). repeat split; auto.
  intros k Hk8 Hf. specialize (Hcells text2 Hin2 (pos + k)).
  assert (Hb2 : sbsize text2 = sbsize text) by reflexivity. assert (Ho2 : soff text2 = soff text) by reflexivity.
  rewrite Hb2, Ho2 in Hcells. replace (soff text + (pos + k)) with (soff text + pos + k) in Hcells by lia.
  rewrite Hcells by lia. change (sdata text2) with (patch_all (sdata text) es (rr_outs r)).
  specialize (PW k ltac:(lia)). replace (pos + 0 + k) with (pos + k) in PW by lia. exact PW.
Qed.

(* ------------------------------------------------------------------ round 4: ANY entry list, any address size (x86-32, 4-byte embedded labels, ...) *)
(* the bytes of a section after relocate_to_base patched it (C10's patch_all = the writes relocate_holder performs) at the i-th of a list
   of pairwise disjoint in-bounds sites are the little-endian value word the model computed for that entry, whatever its kind / width *)
Theorem relocated_site_bytes base asize atoff reserved last es r data i e o :
  relocate base asize atoff reserved last es = inl r ->
  (forall e', In e' es -> site_wf data e') -> sites_disjoint es ->
  nth_error es i = Some e -> nth_error (rr_outs r) i = Some o ->
  (forall k, 0 <= k < vsize (e_fmt e) ->
     cell (patch_all data es (rr_outs r)) (e_off e + e_lead e + k) = cell (le_bytes (Z.to_nat (vsize (e_fmt e))) (o_word o)) k) /\
  exists s1 s2, relocate_entry base asize atoff s1 e = inl (o, s2).
Proof.
  intros Er Hwf Hdis He Ho. split.
  - exact (proj1 (patch_all_site es (rr_outs r) data i e o Hwf Hdis He Ho)).
  - unfold relocate in Er. destruct (relocate_all base asize atoff [] es) as [[os slots]|x] eqn:Ea; [|discriminate].
    injection Er as <-. cbn [rr_outs] in Ho. destruct (relocate_all_sound _ _ _ _ _ _ _ Ea) as (_ & _ & _ & Hall).
    destruct (Hall i e o He Ho) as (s1 & s2 & H & _). eauto.
Qed.

(* 4-byte embedded label address / x86-32 [label + disp] operand (RelToAbs, 4-byte unsigned word), any address size: the four bytes in
   the relocated section are base + target section offset + payload, little endian, and that value fits 32 bits *)
Theorem relocated_abs32_site base asize atoff reserved last es r data i e o toff :
  relocate base asize atoff reserved last es = inl r ->
  (forall e', In e' es -> site_wf data e') -> sites_disjoint es ->
  nth_error es i = Some e -> nth_error (rr_outs r) i = Some o ->
  e_kind e = RRelToAbs (Some toff) -> e_fmt e = ufmt 4 -> e_old e = 0 ->
  let w := (e_payload e + base + toff) mod 2 ^ 64 in
  w < 2 ^ 32 /\ forall k, 0 <= k < 4 -> cell (patch_all data es (rr_outs r)) (e_off e + e_lead e + k) = cell (le_bytes 4 w) k.
Proof.
  intros Er Hwf Hdis He Ho Hk Hf Hold w.
  destruct (relocated_site_bytes base asize atoff reserved last es r data i e o Er Hwf Hdis He Ho) as (Hb & s1 & s2 & Hre).
  destruct (reloc_abs_exact base asize atoff s1 e o s2 Hre toff 4 Hk Hf ltac:(tauto) Hold) as (Hw & Hlt & _).
  split; [unfold w; rewrite <- Hw; exact Hlt|].
  intros k Hk4. rewrite Hf in Hb. specialize (Hb k Hk4). unfold w. rewrite <- Hw. exact Hb.
Qed.

(* x86-32 call / jmp / jcc rel32 to an absolute target (AbsToRel, 32-bit address space): the four bytes are the word whose rel32
   reaches the target modulo 2^32 *)
Theorem relocated_rel32_site32 base asize atoff reserved last es r data i e o :
  relocate base asize atoff reserved last es = inl r ->
  (forall e', In e' es -> site_wf data e') -> sites_disjoint es ->
  nth_error es i = Some e -> nth_error (rr_outs r) i = Some o ->
  e_kind e = RAbsToRel -> asize <= 4 -> e_fmt e = fmt_of_kind K_Rel32 -> e_old e = 0 ->
  rel_target 32 base (e_secoff e + e_off e + e_region e) (decode_kind K_Rel32 (o_word o)) = e_payload e mod 2 ^ 32 /\
  forall k, 0 <= k < 4 -> cell (patch_all data es (rr_outs r)) (e_off e + e_lead e + k) = cell (le_bytes 4 (o_word o)) k.
Proof.
  intros Er Hwf Hdis He Ho Hk Ha Hf Hold.
  destruct (relocated_site_bytes base asize atoff reserved last es r data i e o Er Hwf Hdis He Ho) as (Hb & s1 & s2 & Hre).
  split; [exact (reloc_rel_exact32 base asize atoff s1 e o s2 Hre Hk Ha Hf Hold)|].
  intros k Hk4. rewrite Hf in Hb. exact (Hb k Hk4).
Qed.

(* ------------------------------------------------------------------ round 5: ANY site kind of C10's JitRuntime::_add model, by what its entry is *)
(* Stated through `site_entry` only (no constructor of C10's `site` type is named): whatever the i-th relocation site of .text is, the
   bytes installed at its value word are the little-endian word C04's relocate_entry computed for C10's entry of that site. *)
Theorem installed_site_word st calls base fill final img h2 i c :
  wf_holder (jh st) -> data_len_ok (jh st) ->
  (forall h1, flatten (jh st) = (EOk, h1) -> NoDup (map sid h1) /\ (forall s, In s h1 -> 0 <= sid s)) ->
  jtab st <> Some 0 -> (forall h off, sites_disjoint (map (site_entry h off) calls)) ->
  jit_add_reloc st calls base fill = (JOk, final, img, h2) ->
  nth_error calls i = Some c ->
  exists h1 text atoff s1 s2 o,
    flatten (jh st) = (EOk, h1) /\ by_id h1 0 = Some text /\
    let e := site_entry h1 (soff text) c in
    relocate_entry base REG_SIZE atoff s1 e = inl (o, s2) /\
    (forall k, 0 <= k < vsize (e_fmt e) -> soff text + e_off e + e_lead e + k < final ->
       cell (flat img) (soff text + e_off e + e_lead e + k) = cell (le_bytes (Z.to_nat (vsize (e_fmt e))) (o_word o)) k).
Proof.
  intros Hwf Hdl Hid Htab Hcd E Hi.
  destruct (jit_reloc_unfold st calls base fill final img h2 Hwf Hdl Hid E)
    as (h1 & text & t & atoff & reserved & last & r & Ef & Et & Hin & Esid & Hlen & Eb & Esel & Erel & Hfit & Eh2 & Hcells).
  set (es := map (site_entry h1 (soff text)) calls) in *.
  assert (Ht0 : t <> 0).
  { destruct (jtab st) as [t0|]; [destruct (by_id h1 t0); injection Esel as <- _ _ _; [congruence|lia]|injection Esel as <- _ _ _; lia]. }
  destruct (relocate_table _ _ _ _ _ _ _ Erel) as (_ & _ & _ & Hlo).
  assert (Hei : nth_error es i = Some (site_entry h1 (soff text) c)) by (unfold es; rewrite nth_error_map, Hi; reflexivity).
  assert (Hoi : exists o, nth_error (rr_outs r) i = Some o).
  { destruct (nth_error (rr_outs r) i) as [o|] eqn:Eo; [eauto|]. apply nth_error_None in Eo.
    assert (i < length es)%nat by (apply nth_error_Some; congruence). lia. }
  destruct Hoi as (o & Ho).
  assert (Hwfs : forall e', In e' es -> site_wf (sdata text) e') by (apply c10_sites_wf; assumption).
  destruct (relocated_site_bytes base REG_SIZE atoff reserved last es r (sdata text) i _ o Erel Hwfs (Hcd _ _) Hei Ho) as (PW & s1 & s2 & Hre).
  set (text2 := set_data text (patch_all (sdata text) es (rr_outs r))).
  assert (Hin2 : In text2 h2).
  { rewrite Eh2. apply in_map_iff. exists text. split; [|exact Hin].
    replace (sid text =? t) with false by (symmetry; apply Z.eqb_neq; lia).
    replace (sid text =? 0) with true by (symmetry; apply Z.eqb_eq; exact Esid). reflexivity. }
  destruct (Hwfs _ (nth_error_In _ _ Hei)) as (S2 & S1 & S3). unfold site_hi in S3.
  exists h1, text, atoff, s1, s2, o. split; [exact Ef|]. split; [exact Et|]. cbv zeta. split; [exact Hre|].
  set (e := site_entry h1 (soff text) c) in *.
  intros k Hk Hf. specialize (Hcells text2 Hin2 (e_off e + e_lead e + k)).
  assert (Hb2 : sbsize text2 = sbsize text) by reflexivity. assert (Ho2 : soff text2 = soff text) by reflexivity.
  rewrite Hb2, Ho2 in Hcells. replace (soff text + (e_off e + e_lead e + k)) with (soff text + e_off e + e_lead e + k) in Hcells by lia.
  rewrite Hcells by lia. change (sdata text2) with (patch_all (sdata text) es (rr_outs r)). exact (PW k Hk).
Qed.

(* an expression site (embed_label_delta across sections, RelocType::kExpression; C10's SExpr): when C10's entry of the i-th site is the
   expression (pl - pb) stored as an n-byte signed value, the n installed bytes are a word that decodes (signed, n bytes) to the
   difference of the two flattened positions, which fits the n bytes; an unbound side can not occur in a successful _add. *)
Theorem installed_expr_site st calls base fill final img h2 i c n :
  wf_holder (jh st) -> data_len_ok (jh st) ->
  (forall h1, flatten (jh st) = (EOk, h1) -> NoDup (map sid h1) /\ (forall s, In s h1 -> 0 <= sid s)) ->
  jtab st <> Some 0 -> (forall h off, sites_disjoint (map (site_entry h off) calls)) ->
  jit_add_reloc st calls base fill = (JOk, final, img, h2) ->
  nth_error calls i = Some c ->
  (forall h off, exists a b, e_kind (site_entry h off c) = RExpr a b) ->
  (forall h off, e_fmt (site_entry h off c) = sfmt n /\ e_old (site_entry h off c) = 0) -> n = 1 \/ n = 2 \/ n = 4 \/ n = 8 ->
  exists h1 text pl pb w,
    flatten (jh st) = (EOk, h1) /\ by_id h1 0 = Some text /\
    let e := site_entry h1 (soff text) c in
    e_kind e = RExpr (Some pl) (Some pb) /\
    decode_signed (sfmt n) w = to_i64 (wrap 64 (pl - pb)) /\ - 2 ^ (8 * n - 1) <= to_i64 (wrap 64 (pl - pb)) < 2 ^ (8 * n - 1) /\
    (forall k, 0 <= k < n -> soff text + e_off e + e_lead e + k < final ->
       cell (flat img) (soff text + e_off e + e_lead e + k) = cell (le_bytes (Z.to_nat n) w) k).
Proof.
  intros Hwf Hdl Hid Htab Hcd E Hi Hkind Hfmt Hn.
  destruct (installed_site_word st calls base fill final img h2 i c Hwf Hdl Hid Htab Hcd E Hi)
    as (h1 & text & atoff & s1 & s2 & o & Ef & Et & Hre & Hb).
  destruct (Hkind h1 (soff text)) as (a & b & Hk). destruct (Hfmt h1 (soff text)) as (Hf & Hold).
  destruct a as [pl|].
  2:{ rewrite (expr_unbound_reported base REG_SIZE atoff s1 _ None b Hk (or_introl eq_refl)) in Hre. discriminate. }
  destruct b as [pb|].
  2:{ rewrite (expr_unbound_reported base REG_SIZE atoff s1 _ (Some pl) None Hk (or_intror eq_refl)) in Hre. discriminate. }
  destruct (reloc_expr_exact base REG_SIZE atoff s1 _ o s2 Hre pl pb n Hk Hf Hn Hold) as (Hd & Hr).
  exists h1, text, pl, pb, (o_word o). split; [exact Ef|]. split; [exact Et|]. cbv zeta. split; [exact Hk|]. split; [exact Hd|]. split; [exact Hr|].
  intros k Hkn Hfin. rewrite Hf in Hb. cbn [sfmt vsize] in Hb. exact (Hb k Hkn Hfin).
Qed.

(* an embedded label address of ANY width (RelToAbs; C10's SAbs is the 8-byte case, a 4-byte `embed_label(label, 4)` the n = 4 case):
   when C10's entry of the i-th site is RelToAbs into a section at flattened offset toff, stored as an n-byte unsigned value, the n
   installed bytes are base + toff + payload, little endian, and that address fits the n bytes *)
Theorem installed_abs_entry st calls base fill final img h2 i c n :
  wf_holder (jh st) -> data_len_ok (jh st) ->
  (forall h1, flatten (jh st) = (EOk, h1) -> NoDup (map sid h1) /\ (forall s, In s h1 -> 0 <= sid s)) ->
  jtab st <> Some 0 -> (forall h off, sites_disjoint (map (site_entry h off) calls)) ->
  jit_add_reloc st calls base fill = (JOk, final, img, h2) ->
  nth_error calls i = Some c ->
  (forall h off, exists a, e_kind (site_entry h off c) = RRelToAbs a) ->
  (forall h off, e_fmt (site_entry h off c) = ufmt n /\ e_old (site_entry h off c) = 0) -> n = 1 \/ n = 2 \/ n = 4 \/ n = 8 ->
  exists h1 text toff,
    flatten (jh st) = (EOk, h1) /\ by_id h1 0 = Some text /\
    let e := site_entry h1 (soff text) c in
    let w := (e_payload e + base + toff) mod 2 ^ 64 in
    e_kind e = RRelToAbs (Some toff) /\ w < 2 ^ (8 * n) /\
    (forall k, 0 <= k < n -> soff text + e_off e + e_lead e + k < final ->
       cell (flat img) (soff text + e_off e + e_lead e + k) = cell (le_bytes (Z.to_nat n) w) k).
Proof.
  intros Hwf Hdl Hid Htab Hcd E Hi Hkind Hfmt Hn.
  destruct (installed_site_word st calls base fill final img h2 i c Hwf Hdl Hid Htab Hcd E Hi)
    as (h1 & text & atoff & s1 & s2 & o & Ef & Et & Hre & Hb).
  destruct (Hkind h1 (soff text)) as (a & Hk). destruct (Hfmt h1 (soff text)) as (Hf & Hold).
  destruct a as [toff|].
  2:{ exfalso. unfold relocate_entry in Hre. rewrite Hk in Hre. discriminate. }
  destruct (reloc_abs_exact base REG_SIZE atoff s1 _ o s2 Hre toff n Hk Hf Hn Hold) as (Hw & Hlt & _).
  exists h1, text, toff. split; [exact Ef|]. split; [exact Et|]. cbv zeta. split; [exact Hk|]. rewrite <- Hw. split; [exact Hlt|].
  intros k Hkn Hfin. rewrite Hf in Hb. cbn [ufmt vsize] in Hb. exact (Hb k Hkn Hfin).
Qed.

(* the hypotheses of installed_abs_entry hold for C10's embed_label site (n = 8) *)
Lemma c10_abs_site_is_abs_entry pos target loff :
  (forall h off, exists a, e_kind (site_entry h off (SAbs pos target loff)) = RRelToAbs a) /\
  (forall h off, e_fmt (site_entry h off (SAbs pos target loff)) = ufmt 8 /\ e_old (site_entry h off (SAbs pos target loff)) = 0).
Proof. split; intros h off; cbn [site_entry e_kind e_fmt e_old]; eauto. Qed.

(* ------------------------------------------------------------------ round 6: C10's expression sites by constructor (main has C10 round 4) *)
Lemma c10_expr_site_is_expr_entry p t1 o1 t2 o2 n :
  (forall h off, exists a b, e_kind (site_entry h off (SExpr p t1 o1 t2 o2 n)) = RExpr a b) /\
  (forall h off, e_fmt (site_entry h off (SExpr p t1 o1 t2 o2 n)) = sfmt n /\ e_old (site_entry h off (SExpr p t1 o1 t2 o2 n)) = 0).
Proof. split; intros h off; cbn [site_entry e_kind e_fmt e_old]; eauto. Qed.

(* embed_label_delta(l1, l2, n) across sections, installed by JitRuntime::_add: both sections exist in the flattened holder, the n
   installed bytes at the site decode (signed) to (offset of section t1 + o1) - (offset of section t2 + o2), and that difference fits *)
Theorem installed_sexpr st calls base fill final img h2 i p t1 o1 t2 o2 n :
  wf_holder (jh st) -> data_len_ok (jh st) ->
  (forall h1, flatten (jh st) = (EOk, h1) -> NoDup (map sid h1) /\ (forall s, In s h1 -> 0 <= sid s)) ->
  jtab st <> Some 0 -> (forall h off, sites_disjoint (map (site_entry h off) calls)) ->
  jit_add_reloc st calls base fill = (JOk, final, img, h2) ->
  nth_error calls i = Some (SExpr p t1 o1 t2 o2 n) -> n = 1 \/ n = 2 \/ n = 4 \/ n = 8 ->
  exists h1 text s1 s2 w,
    flatten (jh st) = (EOk, h1) /\ by_id h1 0 = Some text /\ by_id h1 t1 = Some s1 /\ by_id h1 t2 = Some s2 /\
    let d := to_i64 (wrap 64 ((soff s1 + o1) - (soff s2 + o2))) in
    decode_signed (sfmt n) w = d /\ - 2 ^ (8 * n - 1) <= d < 2 ^ (8 * n - 1) /\
    (forall k, 0 <= k < n -> soff text + p + k < final -> cell (flat img) (soff text + p + k) = cell (le_bytes (Z.to_nat n) w) k).
Proof.
  intros Hwf Hdl Hid Htab Hcd E Hi Hn.
  destruct (c10_expr_site_is_expr_entry p t1 o1 t2 o2 n) as (HK & HF).
  destruct (installed_expr_site st calls base fill final img h2 i _ n Hwf Hdl Hid Htab Hcd E Hi HK HF Hn)
    as (h1 & text & pl & pb & w & Ef & Et & Hk & Hd & Hr & Hb).
  cbn [site_entry e_kind e_off e_lead] in Hk, Hb.
  destruct (by_id h1 t1) as [s1|] eqn:E1; [|discriminate]. destruct (by_id h1 t2) as [s2|] eqn:E2; [|discriminate].
  injection Hk as <- <-. exists h1, text, s1, s2, w. split; [exact Ef|]. split; [exact Et|]. split; [exact E1|]. split; [exact E2|].
  cbv zeta. split; [exact Hd|]. split; [exact Hr|].
  intros k Hk Hf. replace (soff text + p + k) with (soff text + p + 0 + k) by lia. apply Hb; lia.
Qed.

(* the hypotheses are satisfiable: .text = 8 zero bytes with a 4-byte `embed_label_delta(L1, L0)` at offset 0, L0 at .text + 2, L1 at
   offset 5 of a 16-aligned second section; installed at base 0x400000 the four bytes hold (16 + 5) - (0 + 2) = 19 *)
Definition ex_expr_state : jstate :=
  mkJ [ mkSection 0 INT_MIN 0 0 0 8 (zeros 8) []; mkSection 1 0 16 NO_OFFSET 0 6 [1; 2; 3; 4; 5; 6] [] ] None [].

Example installed_sexpr_witness : exists final img h2,
  wf_holder (jh ex_expr_state) /\ data_len_ok (jh ex_expr_state) /\
  (forall h1, flatten (jh ex_expr_state) = (EOk, h1) -> NoDup (map sid h1) /\ (forall s, In s h1 -> 0 <= sid s)) /\
  jtab ex_expr_state <> Some 0 /\ (forall h off, sites_disjoint (map (site_entry h off) [SExpr 0 1 5 0 2 4])) /\
  jit_add_reloc ex_expr_state [SExpr 0 1 5 0 2 4] 4194304 204 = (JOk, final, img, h2) /\
  final = 22 /\ map (cell (flat img)) [0; 1; 2; 3; 4; 16; 21] = [19; 0; 0; 0; 0; 1; 6].
Proof.
  eexists. eexists. eexists.
  split. { unfold wf_holder, ex_expr_state, jh. repeat apply Forall_cons; try apply Forall_nil; unfold wf_sec; cbn [svsize sbsize salign];
           (split; [vm_compute; split; [discriminate|reflexivity]|]); (split; [vm_compute; split; [discriminate|reflexivity]|]);
           [left; reflexivity|right; exists 4; split; [lia|reflexivity]]. }
  split. { unfold data_len_ok, ex_expr_state, jh. repeat apply Forall_cons; try apply Forall_nil; reflexivity. }
  split. { intros h1 H. vm_compute in H. injection H as <-. split.
           - cbn [map sid]. repeat constructor; cbn [In]; intuition discriminate.
           - intros s [<-|[<-|[]]]; cbn [sid]; lia. }
  split. { cbn [ex_expr_state jtab]. discriminate. }
  split. { intros h off i j a b Ha Hb Hij. destruct i as [|[|i]], j as [|[|j]]; cbn in Ha, Hb; try discriminate; congruence. }
  split; [vm_compute; reflexivity|]. split; vm_compute; reflexivity.
Qed.

(* ------------------------------------------------------------------ what relocation + installation must NOT change *)
(* every .text byte outside the (conservative) ranges [value word - 2, end of value word) of all sites, and every byte of every other
   section except the address table, is installed exactly as the flattened holder had it *)
Theorem installed_outside_sites st calls base fill final img h2 :
  wf_holder (jh st) -> data_len_ok (jh st) ->
  (forall h1, flatten (jh st) = (EOk, h1) -> NoDup (map sid h1) /\ (forall s, In s h1 -> 0 <= sid s)) ->
  jtab st <> Some 0 ->
  jit_add_reloc st calls base fill = (JOk, final, img, h2) ->
  exists h1 text,
    flatten (jh st) = (EOk, h1) /\ by_id h1 0 = Some text /\
    (forall k, 0 <= k < sbsize text ->
       (forall c, In c calls -> let e := site_entry h1 (soff text) c in ~ (site_lo e <= k < site_hi e)) ->
       soff text + k < final -> cell (flat img) (soff text + k) = cell (sdata text) k) /\
    (forall s, In s h1 -> sid s <> 0 -> jtab st <> Some (sid s) ->
       forall k, 0 <= k < sbsize s -> soff s + k < final -> cell (flat img) (soff s + k) = cell (sdata s) k).
Proof.
  intros Hwf Hdl Hid Htab E.
  destruct (jit_reloc_unfold st calls base fill final img h2 Hwf Hdl Hid E)
    as (h1 & text & t & atoff & reserved & last & r & Ef & Et & Hin & Esid & Hlen & Eb & Esel & Erel & Hfit & Eh2 & Hcells).
  set (es := map (site_entry h1 (soff text)) calls) in *.
  assert (Ht : t = -1 \/ jtab st = Some t).
  { destruct (jtab st) as [t0|]; [destruct (by_id h1 t0); injection Esel as <- _ _ _; auto|injection Esel as <- _ _ _; auto]. }
  assert (Ht0 : t <> 0) by (destruct Ht as [-> | Ht]; [lia|congruence]).
  exists h1, text. split; [exact Ef|]. split; [exact Et|]. split.
  - intros k Hk Hout Hf.
    set (text2 := set_data text (patch_all (sdata text) es (rr_outs r))).
    assert (Hin2 : In text2 h2).
    { rewrite Eh2. apply in_map_iff. exists text. split; [|exact Hin].
      replace (sid text =? t) with false by (symmetry; apply Z.eqb_neq; lia).
      replace (sid text =? 0) with true by (symmetry; apply Z.eqb_eq; exact Esid). reflexivity. }
    specialize (Hcells text2 Hin2 k). assert (Hb2 : sbsize text2 = sbsize text) by reflexivity. assert (Ho2 : soff text2 = soff text) by reflexivity.
    rewrite Hb2, Ho2 in Hcells. rewrite Hcells by lia. change (sdata text2) with (patch_all (sdata text) es (rr_outs r)).
    apply patch_all_outside; [lia|]. intros e He. split; [apply (c10_sites_wf text h1 (soff text) calls Eb Hlen); exact He|].
    unfold es in He. apply in_map_iff in He. destruct He as (c & <- & Hc). exact (Hout c Hc).
  - intros s Hs Hs0 Hst k Hk Hf.
    assert (Hin2 : In s h2).
    { rewrite Eh2. apply in_map_iff. exists s. split; [|exact Hs].
      replace (sid s =? t) with false.
      2:{ symmetry. apply Z.eqb_neq. destruct Ht as [-> | Ht]; [destruct (Hid h1 Ef) as (_ & Hpos); specialize (Hpos s Hs); lia|congruence]. }
      replace (sid s =? 0) with false by (symmetry; apply Z.eqb_neq; exact Hs0). reflexivity. }
    exact (Hcells s Hin2 k Hk Hf).
Qed.

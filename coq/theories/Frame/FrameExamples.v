(* C07 — witnesses: hypotheses of the theorems are satisfiable; known defects of the pinned tree as refutations. *)
From Coq Require Import ZArith List Bool Lia.
From Verif Require Import Frame.FrameModel Frame.FrameMachine Frame.FrameArith Frame.FrameLayout Frame.FrameMachineLemmas Frame.FrameX86Proofs Frame.FrameA64Proofs.
Import ListNotations.
Local Open Scope Z_scope.

Definition mk_frame (a : arch) (k : cc_kind) (fp calls avx avx512 : bool) (dirty : quad) (lsize lalign csize calign sa args : Z) : frame_in :=
  mkfi a (cc_of_kind k) args fp calls false avx avx512 false false false dirty lsize lalign csize calign sa false false.

Lemma wf_in_mk a k fp calls avx avx512 dirty lsize lalign csize calign sa args :
  kind_arch k = a -> 0 <= lsize -> 0 <= csize -> align_ok lalign -> align_ok calign -> 0 <= args ->
  (sa = id_bad \/ (0 <= sa < (if is_x86_family a then 16 else 31) /\ sa <> sp_id a)) ->
  wf_in (mk_frame a k fp calls avx avx512 dirty lsize lalign csize calign sa args).
Proof.
  intros <- H1 H2 H3 H4 H5 H6. constructor; cbn; auto. apply cc_of_kind_wf.
Qed.

(* a Win64 frame: rbx, rbp, rsi, r12 and xmm6, xmm7, xmm15 dirty, 40 bytes of locals aligned to 32 (dynamic alignment),
   32 bytes of call area, calls other functions *)
Definition ex_win64 : frame_in :=
  mk_frame X64 (K64Win false) false true false false (mkq (mask_of [3; 5; 6; 12]) (mask_of [6; 7; 15]) 0 0) 40 32 32 0 id_bad 48.

Lemma ex_win64_wf : wf_in ex_win64.
Proof.
  apply wf_in_mk; try reflexivity; try lia; try (left; reflexivity); try (right; exists 5; split; [lia | reflexivity]).
Qed.

Lemma ex_win64_regs : x86_regs_exist ex_win64.
Proof.
  unfold x86_regs_exist, L1, L2, L3. splits; intros id H; vm_compute in H; intuition (subst; try reflexivity; try lia).
Qed.

(* x86-32 cdecl with an 8-byte aligned local: natural alignment 4 < 8 < 16 = minimum dynamic alignment: no realignment *)
Definition ex_x86_align8 : frame_in :=
  mk_frame X86 (K32Std false) false false false false (mkq 0 0 0 0) 8 8 0 0 id_bad 0.

Lemma ex_x86_align8_wf : wf_in ex_x86_align8.
Proof.
  apply wf_in_mk; try reflexivity; try lia; try (left; reflexivity); try (right; exists 3; split; [lia | reflexivity]).
Qed.

Lemma x86_align8_refuted :
  exists f sp0, wf_in f /\ is_x86_family (fi_arch f) = true /\
    (sp0 + reg_size (fi_arch f)) mod cc_natural (fi_cc f) = 0 /\ uses_stack f (finalize f) /\
    x86_sp_body f sp0 mod fo_final_align (finalize f) <> 0.
Proof.
  exists ex_x86_align8, 4096. split; [apply ex_x86_align8_wf|]. split; [reflexivity|]. split; [reflexivity|].
  split; [left; vm_compute; discriminate|]. vm_compute. discriminate.
Qed.

Lemma ex_win64_sat :
  exists f, wf_in f /\ is_x86_family (fi_arch f) = true /\ x86_regs_exist f /\ fo_has_da (finalize f) = true /\
            fo_aligned_vec_sr (finalize f) = true /\ uses_stack f (finalize f).
Proof.
  exists ex_win64. split; [apply ex_win64_wf|]. split; [reflexivity|]. split; [apply ex_win64_regs|].
  split; [reflexivity|]. split; [reflexivity|]. left. vm_compute. discriminate.
Qed.

(* ------------------------------------------------------------------ AArch64: known defects of the pinned tree *)
Definition st0 (sp lr : Z) (v : Z) : state :=
  mkst (fun g r => if (g =? 0) && (r =? 31) then sp else if (g =? 0) && (r =? 30) then lr else if g =? 1 then v else 0)
       (fun _ => MJunk) None.

(* AAPCS64 frame with 32-byte aligned locals: finalize reports dynamic alignment 32, the prolog never realigns sp *)
Definition ex_a64_align32 : frame_in :=
  mk_frame A64 KA64Cdecl false false false false (mkq (mask_of [19; 20]) 0 0 0) 40 32 0 0 id_bad 0.

Lemma ex_a64_align32_wf : wf_in ex_a64_align32.
Proof.
  apply wf_in_mk; try reflexivity; try lia; try (left; reflexivity); try (right; exists 5; split; [lia | reflexivity]).
Qed.

Lemma a64_dynamic_alignment_refuted :
  exists f s0, wf_in f /\ fi_arch f = A64 /\ st_reg s0 0 31 mod 16 = 0 /\ fo_has_da (finalize f) = true /\
    match run A64 (fst (prolog f (finalize f))) s0 with
    | Some s1 => st_reg s1 0 31 mod fo_final_align (finalize f) <> 0
    | None => False
    end.
Proof.
  exists ex_a64_align32, (st0 4112 77 0). split; [apply ex_a64_align32_wf|].
  split; [reflexivity|]. split; [reflexivity|]. split; [reflexivity|]. vm_compute. discriminate.
Qed.

(* AAPCS64 frame preserving FP: stack arguments are NOT at x29 + sa_offset_from_sa *)
Definition ex_a64_fp : frame_in :=
  mk_frame A64 KA64Cdecl true false false false (mkq (mask_of [19; 20]) 0 0 0) 0 0 0 0 id_bad 16.

Lemma ex_a64_fp_wf : wf_in ex_a64_fp.
Proof. apply wf_in_mk; try reflexivity; try lia; try (left; reflexivity). Qed.

Lemma a64_fp_relative_args_refuted :
  exists f s0, wf_in f /\ fi_arch f = A64 /\ fi_has_fp f = true /\ st_reg s0 0 31 mod 16 = 0 /\
    match run A64 (fst (prolog f (finalize f))) s0 with
    | Some s1 => st_reg s1 0 29 + fo_sa_from_sa (finalize f) <> st_reg s0 0 31 /\
                 st_reg s1 0 31 + fo_sa_from_sp (finalize f) = st_reg s0 0 31
    | None => False
    end.
Proof.
  exists ex_a64_fp, (st0 4096 77 0). split; [apply ex_a64_fp_wf|].
  split; [reflexivity|]. split; [reflexivity|]. split; [reflexivity|]. vm_compute. split; [discriminate | reflexivity].
Qed.

(* AArch64 LightCall2: v4..v31 are callee-saved on 16 bytes, the prolog/epilog save and restore D registers only *)
Definition ex_a64_light : frame_in :=
  mk_frame A64 KA64Other false false false false (mkq 0 (mask_of [4]) 0 0) 0 0 0 0 id_bad 0.

Lemma ex_a64_light_wf : wf_in ex_a64_light.
Proof. apply wf_in_mk; try reflexivity; try lia; try (left; reflexivity). Qed.

Lemma a64_noncdecl_vec_refuted :
  exists f s0, wf_in f /\ fi_arch f = A64 /\ st_reg s0 0 31 mod 16 = 0 /\
    Z.testbit (qget (cc_preserved (fi_cc f)) 1) 4 = true /\
    match run A64 (fst (prolog f (finalize f)) ++ fst (epilog f (finalize f))) s0 with
    | Some s3 => trunc (qget (cc_srsize (fi_cc f)) 1) (st_reg s3 1 4) <> trunc (qget (cc_srsize (fi_cc f)) 1) (st_reg s0 1 4)
    | None => False
    end.
Proof.
  exists ex_a64_light, (st0 4096 77 (2 ^ 100 + 5)). split; [apply ex_a64_light_wf|].
  split; [reflexivity|]. split; [reflexivity|]. split; [reflexivity|]. vm_compute. discriminate.
Qed.

(* an AAPCS64 frame in the scope of the AArch64 round-trip theorem: FP preserved, x19..x21, d8, d9 dirty, locals, call area *)
Definition ex_a64_ok : frame_in :=
  mk_frame A64 KA64Cdecl true true false false (mkq (mask_of [19; 20; 21]) (mask_of [8; 9]) 0 0) 40 16 32 0 id_bad 16.

Lemma ex_a64_ok_sat :
  exists f, wf_in f /\ fi_arch f = A64 /\ qget (cc_srsize (fi_cc f)) 1 = 8 /\ fin_has_da f = false /\ fi_sa_reg f = id_bad /\
            fo_stack_adj (finalize f) <= 16777215 /\ fi_has_fp f = true /\ 0 < fo_push_pop_size (finalize f).
Proof.
  exists ex_a64_ok. split.
  - apply wf_in_mk; try reflexivity; try lia; try (left; reflexivity); try (right; exists 4; split; [lia | reflexivity]).
  - repeat split; vm_compute; congruence.
Qed.

(* fixed tree variant: an AAPCS64 frame with a user SA register (x9) and preserved FP is in the scope of the round-trip theorem *)
Definition ex_a64_sa_fixed : frame_in :=
  mkfi A64 (cc_of_kind KA64Cdecl) 16 true false false false false false false false (mkq (mask_of [19; 20]) 0 0 0) 24 16 0 0 9 false true.

Lemma ex_a64_sa_fixed_sat :
  exists f, wf_in f /\ fi_arch f = A64 /\ qget (cc_srsize (fi_cc f)) 1 = 8 /\ fin_has_da f = false /\
            (fi_sa_reg f = id_bad \/ fi_sa_fix f = true) /\ fo_stack_adj (finalize f) <= 16777215 /\ fin_sa f <> 31 /\ fi_has_fp f = true.
Proof.
  exists ex_a64_sa_fixed. split.
  - constructor; cbn; try lia; try (left; reflexivity); try (right; exists 4; split; [lia | reflexivity]);
      try apply (cc_of_kind_wf KA64Cdecl); try (right; split; [lia | discriminate]).
  - repeat split; try (right; reflexivity); vm_compute; congruence.
Qed.

(* ------------------------------------------------------------------ round 5: the frame conditions are not vacuous *)
(* the Win64 frame above is in the scope of C07_frame_conditions_x86, rax (return value) and rcx (first argument) are outside the
   saved set and differ from sp/bp/SA (the conclusions speak about them), rbx is inside the saved set (the conclusion does NOT
   claim it unchanged: the epilog reloads it) *)
Lemma ex_frame_conditions_x86_sat :
  exists f, wf_in f /\ is_x86_family (fi_arch f) = true /\ x86_regs_exist f /\
    Z.testbit (saved_regs f (finalize f) 0) 0 = false /\ Z.testbit (saved_regs f (finalize f) 0) 1 = false /\
    Z.testbit (saved_regs f (finalize f) 0) 3 = true /\ Z.testbit (saved_regs f (finalize f) 1) 6 = true /\
    Z.testbit (saved_regs f (finalize f) 1) 0 = false /\ fin_sa f <> 0 /\ fin_sa f <> 1.
Proof.
  exists ex_win64. split; [apply ex_win64_wf|]. split; [reflexivity|]. split; [apply ex_win64_regs|].
  repeat split; vm_compute; congruence.
Qed.

(* the AAPCS64 frame above is in the scope of C07_frame_conditions_a64: x0 / d0 (argument, return value) are outside the saved
   set, x19 / x29 / d8 inside, and the save area the prolog may write is not empty *)
Lemma ex_frame_conditions_a64_sat :
  exists f, wf_in f /\ fi_arch f = A64 /\ qget (cc_srsize (fi_cc f)) 1 = 8 /\ fin_has_da f = false /\ fi_sa_reg f = id_bad /\
    fo_stack_adj (finalize f) <= 16777215 /\
    Z.testbit (saved_regs f (finalize f) 0) 0 = false /\ Z.testbit (saved_regs f (finalize f) 1) 0 = false /\
    Z.testbit (saved_regs f (finalize f) 0) 19 = true /\ Z.testbit (saved_regs f (finalize f) 0) 29 = true /\
    Z.testbit (saved_regs f (finalize f) 1) 8 = true /\ 0 < fin_pp f.
Proof.
  exists ex_a64_ok. split.
  - apply wf_in_mk; try reflexivity; try lia; try (left; reflexivity); try (right; exists 4; split; [lia | reflexivity]).
  - repeat split; vm_compute; congruence.
Qed.

(* ------------------------------------------------------------------ round 5: accept/refuse decision of finalize *)
Definition ex_too_large : frame_in :=
  mk_frame X64 (K64Win false) false false false false (mkq 0 0 0 0) (2 ^ 31) 0 4096 0 id_bad 0.

Lemma ex_finalize_error :
  finalize_error ex_win64 = 0 /\ finalize_error ex_a64_ok = 0 /\ finalize_error ex_a64_align32 = 3 /\ finalize_error ex_too_large = 9 /\
  wf_in ex_win64 /\ fi_local_align ex_win64 <= 128 /\ fi_call_align ex_win64 <= 128 /\ fi_arg_stack_size ex_win64 < 2 ^ 16.
Proof.
  split; [reflexivity|]. split; [reflexivity|]. split; [reflexivity|]. split; [reflexivity|]. split; [apply ex_win64_wf|].
  split; [vm_compute; congruence|]. split; vm_compute; congruence.
Qed.

(* an accepted AArch64 frame whose stack adjustment (32 MiB of locals) is beyond two add/sub immediates *)
Definition ex_a64_huge : frame_in :=
  mk_frame A64 KA64Cdecl false false false false (mkq 0 0 0 0) (2 ^ 25) 16 0 0 id_bad 0.
Lemma ex_a64_huge_sat : fi_arch ex_a64_huge = A64 /\ 16777215 < fo_stack_adj (finalize ex_a64_huge) /\ finalize_error ex_a64_huge = 0.
Proof. split; [reflexivity|]. split; vm_compute; reflexivity. Qed.

(* round 5: every way of addressing stack arguments occurs: sp-relative (no dynamic alignment), SA register (Win64 frame with
   dynamic alignment: the SA register is not sp), frame pointer *)
Lemma ex_stack_args_sat :
  fo_sa_from_sp (finalize ex_x86_align8) <> -1 /\ fin_sa ex_win64 <> 4 /\ fo_sa_from_sp (finalize ex_win64) = -1 /\
  fi_has_fp ex_a64_ok = true /\ fin_sa ex_a64_sa_fixed <> 31.
Proof. repeat split; vm_compute; congruence. Qed.

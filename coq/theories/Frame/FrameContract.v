(* C07 round 6 - hypotheses of the x86 theorems discharged for every convention the library can produce.
   `x86_regs_exist` (the saved vector / mask / MM register ids exist in the mode the frame is emitted for) and `wf_in`'s convention
   part were hypotheses of the x86 round trip.  For every convention cc_init produces (also with the Compiler's natural-alignment
   override) they FOLLOW from the frame attributes the API takes: sizes >= 0, alignments powers of two, an admissible SA register and -
   on x86-64 only - "xmm16..31 are saved only in a frame that enables AVX / AVX-512".  (A frame that violates the last condition asks
   the emitters for `movaps [m], xmm20`, which does not exist: that is an input contract, not a property of the code.) *)
From Coq Require Import ZArith List Bool Lia.
From Verif Require Import Frame.FrameModel Frame.FrameMachine Frame.FrameArith Frame.FrameLayout Frame.FrameMachineLemmas Frame.FrameX86Proofs Frame.FrameA64Proofs.
Import ListNotations.
Local Open Scope Z_scope.

(* the conventions the library can hand to a frame of architecture a *)
Definition lib_cc (a : arch) (cc : callconv) : Prop :=
  exists plat ccid cc0, cc_init a plat ccid = Some cc0 /\ (cc = cc0 \/ cc = compiler_cc a plat cc0).

Lemma lib_cc_wf a cc : lib_cc a cc -> wf_cc a cc.
Proof.
  intros [plat [ccid [cc0 [H [-> | ->]]]]]; [eapply cc_init_wf; eauto | eapply compiler_cc_init_wf; eauto].
Qed.

Lemma compiler_cc_preserved a plat cc : cc_preserved (compiler_cc a plat cc) = cc_preserved cc.
Proof. unfold compiler_cc, cc_with_natural. destruct (_ <? _); reflexivity. Qed.

Lemma lib_cc_kind a cc : lib_cc a cc -> exists k, kind_arch k = a /\ cc_preserved cc = cc_preserved (cc_of_kind k).
Proof.
  intros [plat [ccid [cc0 [H E]]]]. unfold cc_init in H. destruct (classify a plat ccid) as [k|] eqn:C; [|discriminate].
  inversion H; subst cc0. exists k. split; [eapply classify_arch; eauto|].
  destruct E as [-> | ->]; [reflexivity | apply compiler_cc_preserved].
Qed.

(* the preserved masks of the x86 kinds: no mask / MM register is callee-saved anywhere; 32-bit conventions preserve xmm0..7 at most;
   only the 64-bit LightCall conventions preserve xmm16..31 *)
Lemma kind_preserved_facts k : is_x86_family (kind_arch k) = true ->
  q2 (cc_preserved (cc_of_kind k)) = 0 /\ q3 (cc_preserved (cc_of_kind k)) = 0 /\
  0 <= q1 (cc_preserved (cc_of_kind k)) < 2 ^ 32 /\
  (kind_arch k = X86 -> q1 (cc_preserved (cc_of_kind k)) < 2 ^ 8).
Proof.
  destruct k as [p|l| |v|l| | ]; try destruct l; try destruct v; cbn [kind_arch is_x86_family]; intros H; try discriminate;
    (split; [reflexivity|]; split; [reflexivity|]; split; [vm_compute; split; congruence|]; intros E; try discriminate; vm_compute; reflexivity).
Qed.

(* the one input contract that remains, on x86-64 only *)
Definition x86_vec_contract (f : frame_in) : Prop :=
  fi_arch f = X64 -> fi_avx f || fi_avx512 f = true \/ Z.land (q1 (fi_dirty f)) (q1 (cc_preserved (fi_cc f))) < 2 ^ 16.

Theorem x86_regs_exist_discharged f :
  lib_cc (fi_arch f) (fi_cc f) -> is_x86_family (fi_arch f) = true -> x86_vec_contract f -> x86_regs_exist f.
Proof.
  intros HL HX HC. destruct (lib_cc_kind _ _ HL) as [k [Hk Hp]].
  assert (HXk : is_x86_family (kind_arch k) = true) by (rewrite Hk; exact HX).
  destruct (kind_preserved_facts k HXk) as [P2 [P3 [P1 P8]]]. rewrite <- Hp in P2, P3, P1, P8. rewrite Hk in P8.
  unfold x86_regs_exist, L1, L2, L3.
  assert (S1 : saved_regs f (finalize f) 1 = Z.land (q1 (fi_dirty f)) (q1 (cc_preserved (fi_cc f)))) by reflexivity.
  assert (S2 : saved_regs f (finalize f) 2 = Z.land (q2 (fi_dirty f)) (q2 (cc_preserved (fi_cc f)))) by reflexivity.
  assert (S3 : saved_regs f (finalize f) 3 = Z.land (q3 (fi_dirty f)) (q3 (cc_preserved (fi_cc f)))) by reflexivity.
  rewrite S1, S2, S3, P2, P3, !Z.land_0_r.
  split; [|split; intros id Hin; apply bits_of_In in Hin; destruct Hin as [_ Hin]; rewrite Z.bits_0 in Hin; discriminate].
  intros id Hin. apply bits_of_In in Hin. destruct Hin as [[H0 H32] Hb].
  rewrite Z.land_spec in Hb. apply andb_true_iff in Hb. destruct Hb as [Hd Hm].
  unfold vec_id_ok. destruct (Z.leb_spec 0 id); [|lia]. cbn [andb].
  destruct (fi_arch f) eqn:EA; try discriminate.
  - (* x86-32: at most xmm0..7 are preserved *)
    apply Z.ltb_lt. destruct (Z_lt_le_dec id 8); auto. exfalso.
    rewrite (testbit_above _ 8 id) in Hm; [discriminate | split; [apply P1 | apply P8; reflexivity] | lia].
  - (* x86-64 *)
    unfold x86_vec_mov. destruct (HC EA) as [Havx | Hlow].
    + rewrite Havx. destruct (fo_aligned_vec_sr _); apply Z.ltb_lt; cbn in H32; lia.
    + assert (Hid : id < 16).
      { destruct (Z_lt_le_dec id 16); auto. exfalso.
        assert (Hl : Z.testbit (Z.land (q1 (fi_dirty f)) (q1 (cc_preserved (fi_cc f)))) id = true) by (rewrite Z.land_spec, Hd, Hm; reflexivity).
        rewrite (testbit_above _ 16 id) in Hl; [discriminate | | lia].
        split; [apply Z.land_nonneg; right; apply P1 | exact Hlow]. }
      destruct (fi_avx f || fi_avx512 f); destruct (fo_aligned_vec_sr _); apply Z.ltb_lt; cbn in H32; lia.
Qed.

(* a frame as the API builds it: a library convention + attributes with their elementary side conditions *)
Record api_frame (f : frame_in) : Prop := mk_api_frame {
  af_cc : lib_cc (fi_arch f) (fi_cc f);
  af_lsize : 0 <= fi_local_size f;
  af_csize : 0 <= fi_call_size f;
  af_lalign : align_ok (fi_local_align f);
  af_calign : align_ok (fi_call_align f);
  af_args : 0 <= fi_arg_stack_size f;
  af_sa : fi_sa_reg f = id_bad \/ (0 <= fi_sa_reg f < (if is_x86_family (fi_arch f) then 16 else 31) /\ fi_sa_reg f <> sp_id (fi_arch f))
}.

Lemma api_frame_wf f : api_frame f -> wf_in f.
Proof. intros [H1 H2 H3 H4 H5 H6 H7]. constructor; auto. apply lib_cc_wf; auto. Qed.

(* the x86/x64 round trip with every hypothesis about the convention discharged *)
Theorem x86_roundtrip_api f : api_frame f -> is_x86_family (fi_arch f) = true -> x86_vec_contract f ->
  forall s0 ra,
  let a := fi_arch f in let o := finalize f in let ws := reg_size a in let sp0 := st_reg s0 0 4 in
  st_ret s0 = None -> holds (st_mem s0) sp0 ws ra ->
  (sp0 + ws) mod cc_natural (fi_cc f) = 0 -> fin_pp f <= sp0 < 2 ^ (8 * ws) ->
  exists s1, run a (x86_prolog f o) s0 = Some s1 /\
    st_reg s1 0 4 = x86_sp_body f sp0 /\ st_ret s1 = None /\
    (fin_sa f <> 4 -> st_reg s1 0 (fin_sa f) + fo_sa_from_sa o = sp0 + ws) /\
    (fi_has_fp f = true -> st_reg s1 0 5 + fo_sa_from_sa o = sp0 + ws) /\
    (fo_sa_from_sp o <> -1 -> st_reg s1 0 4 + fo_sa_from_sp o = sp0 + ws) /\
    forall s2, body_ok f s0 s1 s2 ->
      exists s3, run a (x86_epilog f o) s2 = Some s3 /\
        st_ret s3 = Some ra /\ st_reg s3 0 4 = sp0 + ws + fo_callee_cleanup o /\
        (forall g r, Z.testbit (qget (cc_preserved (fi_cc f)) g) r = true ->
                     trunc (qget (cc_srsize (fi_cc f)) g) (st_reg s3 g r) = trunc (qget (cc_srsize (fi_cc f)) g) (st_reg s0 g r)).
Proof.
  intros AF HX HC. exact (x86_roundtrip_sec f (api_frame_wf f AF) HX (x86_regs_exist_discharged f (af_cc f AF) HX HC)).
Qed.

(* AArch64: for every frame of a library convention that finalize ACCEPTS at HEAD (finalize_error = 0, SA-register repair present)
   either the adjustment is beyond two immediates and both emitters refuse, or the full round trip holds: no hypothesis about the
   convention, the vector save width, dynamic alignment or the SA register is left *)
Theorem a64_roundtrip_api f : api_frame f -> fi_arch f = A64 -> finalize_error f = 0 -> fi_sa_fix f = true ->
  (16777215 < fo_stack_adj (finalize f) /\ snd (prolog f (finalize f)) = false /\ epilog f (finalize f) = ([], false)) \/
  (fo_stack_adj (finalize f) <= 16777215 /\
   forall s0,
   let o := finalize f in let sp0 := st_reg s0 0 31 in
   st_ret s0 = None -> sp0 mod 16 = 0 -> 0 <= st_reg s0 0 30 < 2 ^ 64 ->
   exists s1, run A64 (fst (prolog f o)) s0 = Some s1 /\ snd (prolog f o) = true /\
     st_reg s1 0 31 = a64_sp_body f sp0 /\ st_ret s1 = None /\
     a64_sp_body f sp0 mod fo_final_align o = 0 /\ a64_sp_body f sp0 + fo_sa_from_sp o = sp0 /\
     (fi_sa_fix f = true -> fi_has_fp f = true -> st_reg s1 0 29 + fo_sa_from_sa o = sp0) /\
     (fin_sa f <> 31 -> st_reg s1 0 (fin_sa f) + fo_sa_from_sa o = sp0) /\
     forall s2, a64_body_ok f s0 s1 s2 ->
       exists s3, run A64 (fst (epilog f o)) s2 = Some s3 /\ snd (epilog f o) = true /\
         st_ret s3 = Some (st_reg s0 0 30) /\ st_reg s3 0 31 = sp0 /\
         (forall g r, Z.testbit (qget (cc_preserved (fi_cc f)) g) r = true ->
                      trunc (qget (cc_srsize (fi_cc f)) g) (st_reg s3 g r) = trunc (qget (cc_srsize (fi_cc f)) g) (st_reg s0 g r))).
Proof.
  intros AF HA HE HS. pose proof (api_frame_wf f AF) as WF.
  assert (HR : a64_realisable f = true).
  { unfold finalize_error in HE. destruct (_ <? _); [discriminate|]. rewrite HA in HE. destruct (a64_realisable f); [reflexivity|discriminate]. }
  destruct (Z_lt_le_dec 16777215 (fo_stack_adj (finalize f))) as [L|L].
  - left. split; [exact L|]. apply a64_large_adjust_refused; auto.
  - right. split; [exact L|]. exact (a64_roundtrip_accepted f WF HA HR (or_intror HS) L).
Qed.

(* ------------------------------------------------------------------ non-vacuity, and the remaining contract is NEEDED *)
From Verif Require Import Frame.FrameExamples.

Lemma ex_win64_api : api_frame ex_win64 /\ x86_vec_contract ex_win64 /\ is_x86_family (fi_arch ex_win64) = true.
Proof.
  split; [|split; [|reflexivity]].
  - constructor.
    + exists 1, 33, (cc_of_kind (K64Win false)). split; [reflexivity | left; reflexivity].
    + vm_compute; congruence.
    + vm_compute; congruence.
    + right. exists 5. split; [lia | reflexivity].
    + left; reflexivity.
    + vm_compute; congruence.
    + left; reflexivity.
  - intros _. right. vm_compute. reflexivity.
Qed.

(* x86-64 LightCall2 with xmm20 dirty: with AVX-512 the contract holds through its first disjunct ... *)
Definition ex_light_avx512 : frame_in :=
  mk_frame X64 (K64Light FrameModel.L2) false false false true (mkq 0 (bit 20) 0 0) 0 0 0 0 id_bad 0.
(* ... without AVX / AVX-512 the same frame is outside the contract, and the hypothesis x86_regs_exist really fails for it:
   the emitters are asked for `movaps [m], xmm20`.  The contract cannot be dropped. *)
Definition ex_light_legacy : frame_in :=
  mk_frame X64 (K64Light FrameModel.L2) false false false false (mkq 0 (bit 20) 0 0) 0 0 0 0 id_bad 0.

Lemma ex_light_api : forall avx512, api_frame (mk_frame X64 (K64Light FrameModel.L2) false false false avx512 (mkq 0 (bit 20) 0 0) 0 0 0 0 id_bad 0).
Proof.
  intros avx512. constructor.
  - exists 0, 16, (cc_of_kind (K64Light FrameModel.L2)). split; [reflexivity | left; reflexivity].
  - cbn; lia.
  - cbn; lia.
  - left; reflexivity.
  - left; reflexivity.
  - cbn; lia.
  - left; reflexivity.
Qed.

Lemma ex_contract_needed :
  (api_frame ex_light_avx512 /\ x86_vec_contract ex_light_avx512 /\ In 20 (L1 ex_light_avx512)) /\
  (api_frame ex_light_legacy /\ ~ x86_vec_contract ex_light_legacy /\ ~ x86_regs_exist ex_light_legacy).
Proof.
  assert (H20 : forall b, In 20 (L1 (mk_frame X64 (K64Light FrameModel.L2) false false false b (mkq 0 (bit 20) 0 0) 0 0 0 0 id_bad 0))).
  { intros b. unfold L1. apply bits_of_In. split; [cbn; lia | destruct b; vm_compute; reflexivity]. }
  split.
  - split; [apply ex_light_api|]. split; [intros _; left; reflexivity | apply H20].
  - split; [apply ex_light_api|]. split.
    + intros C. destruct (C eq_refl) as [C1|C1]; [discriminate | vm_compute in C1; discriminate].
    + intros [E _]. specialize (E 20 (H20 false)). vm_compute in E. discriminate.
Qed.

(* an accepted AArch64 API frame on each side of the adjustment threshold *)
Lemma ex_a64_api : api_frame ex_a64_sa_fixed /\ finalize_error ex_a64_sa_fixed = 0 /\ fi_sa_fix ex_a64_sa_fixed = true /\
                   fo_stack_adj (finalize ex_a64_sa_fixed) <= 16777215 /\
                   api_frame ex_a64_huge /\ finalize_error ex_a64_huge = 0 /\ 16777215 < fo_stack_adj (finalize ex_a64_huge).
Proof.
  assert (A : forall f, fi_arch f = A64 -> fi_cc f = cc_of_kind KA64Cdecl -> 0 <= fi_local_size f -> 0 <= fi_call_size f ->
              align_ok (fi_local_align f) -> align_ok (fi_call_align f) -> 0 <= fi_arg_stack_size f ->
              (fi_sa_reg f = id_bad \/ (0 <= fi_sa_reg f < 31 /\ fi_sa_reg f <> 31)) -> api_frame f).
  { intros f HA HC H1 H2 H3 H4 H5 H6. constructor; auto; rewrite HA; auto.
    exists 0, 0, (cc_of_kind KA64Cdecl). split; [reflexivity | left; exact HC]. }
  split.
  { apply A; [reflexivity | reflexivity | cbn; lia | cbn; lia | right; exists 4; split; [lia|reflexivity] | left; reflexivity | cbn; lia | right; cbn; lia]. }
  split; [reflexivity|]. split; [reflexivity|]. split; [vm_compute; congruence|].
  split.
  { apply A; [reflexivity | reflexivity | cbn; lia | cbn; lia | right; exists 4; split; [lia|reflexivity] | left; reflexivity | cbn; lia | left; reflexivity]. }
  split; vm_compute; reflexivity.
Qed.

(* ------------------------------------------------------------------ round 6: AArch64 encodability for every accepted API frame *)
Local Transparent bits_from bits_of.

Lemma bits_from_land_le n : forall from d m, (length (bits_from n from (Z.land d m)) <= length (bits_from n from m))%nat.
Proof.
  induction n as [|n IH]; intros from d m; cbn [bits_from]; [apply Nat.le_refl|].
  rewrite Z.land_spec. specialize (IH (from + 1) d m).
  destruct (Z.testbit d from); destruct (Z.testbit m from); cbn [andb length]; lia.
Qed.

Lemma popcnt_land_le d m : popcnt (Z.land d m) <= popcnt m.
Proof. unfold popcnt, bits_of. pose proof (bits_from_land_le 32 0 d m). lia. Qed.

Local Opaque bits_from bits_of.

Lemma align_up_mono x y a : 0 < a -> x <= y -> align_up x a <= align_up y a.
Proof.
  intros Ha H. unfold align_up. apply Z.mul_le_mono_nonneg_r; [lia|]. apply Z.div_le_mono; lia.
Qed.

Lemma compiler_cc_sizes a plat cc : cc_srsize (compiler_cc a plat cc) = cc_srsize cc /\ cc_sralign (compiler_cc a plat cc) = cc_sralign cc.
Proof. unfold compiler_cc, cc_with_natural. destruct (_ <? _); split; reflexivity. Qed.

Lemma lib_cc_kind_full a cc : lib_cc a cc -> exists k, kind_arch k = a /\ cc_preserved cc = cc_preserved (cc_of_kind k) /\
  cc_srsize cc = cc_srsize (cc_of_kind k) /\ cc_sralign cc = cc_sralign (cc_of_kind k).
Proof.
  intros [plat [ccid [cc0 [H E]]]]. unfold cc_init in H. destruct (classify a plat ccid) as [k|] eqn:C; [|discriminate].
  inversion H; subst cc0. exists k. split; [eapply classify_arch; eauto|].
  destruct E as [-> | ->]; [auto|]. rewrite compiler_cc_preserved. destruct (compiler_cc_sizes a plat (cc_of_kind k)) as [-> ->]. auto.
Qed.

(* the push/pop save area of an accepted AArch64 frame of a library convention is at most 224 bytes *)
Lemma a64_api_save_area f : lib_cc (fi_arch f) (fi_cc f) -> fi_arch f = A64 -> a64_realisable f = true -> fin_pp f <= 224.
Proof.
  intros HL HA HR. destruct (lib_cc_kind_full _ _ HL) as [k [Hk [Hp [Hs Hal]]]]. rewrite HA in Hk.
  unfold a64_realisable in HR. apply andb_true_iff in HR. destruct HR as [_ HR].
  unfold fin_pp. rewrite HA. cbn [map fold_right has_push_pop Z.eqb Pos.eqb orb].
  unfold fin_group_size, fin_saved. rewrite Hp, Hs, Hal.
  pose proof (popcnt_land_le (qget (fin_dirty f) 0) (qget (cc_preserved (cc_of_kind k)) 0)) as P0.
  pose proof (popcnt_land_le (qget (fin_dirty f) 1) (qget (cc_preserved (cc_of_kind k)) 1)) as P1.
  assert (N0 : 0 <= popcnt (Z.land (qget (fin_dirty f) 0) (qget (cc_preserved (cc_of_kind k)) 0))) by (unfold popcnt; lia).
  assert (N1 : 0 <= popcnt (Z.land (qget (fin_dirty f) 1) (qget (cc_preserved (cc_of_kind k)) 1))) by (unfold popcnt; lia).
  destruct k as [p|l| |v|l| | ]; try discriminate.
  - (* AAPCS64-like: 13 X registers, 8 D registers *)
    change (popcnt (qget (cc_preserved (cc_of_kind KA64Cdecl)) 0)) with 13 in P0.
    change (popcnt (qget (cc_preserved (cc_of_kind KA64Cdecl)) 1)) with 8 in P1.
    cbn [cc_of_kind cc_srsize cc_sralign qget Z.eqb Pos.eqb q0 q1] in *.
    match type of P0 with ?x <= 13 => assert (A0 : align_up (x * 8) 16 <= align_up (13 * 8) 16) by (apply align_up_mono; lia) end.
    match type of P1 with ?x <= 8 => assert (A1 : align_up (x * 8) 16 <= align_up (8 * 8) 16) by (apply align_up_mono; lia) end.
    change (align_up (13 * 8) 16) with 112 in A0. change (align_up (8 * 8) 16) with 64 in A1. lia.
  - (* the other conventions: 27 X registers; vector saves are refused, so none is saved *)
    change (popcnt (qget (cc_preserved (cc_of_kind KA64Other)) 0)) with 27 in P0.
    rewrite Hs in HR. unfold fin_saved in HR. rewrite Hp in HR.
    cbn [cc_of_kind cc_srsize cc_sralign cc_preserved qget Z.eqb Pos.eqb q0 q1] in *.
    change (16 <=? 8) with false in HR. cbn [orb] in HR. apply Z.eqb_eq in HR. rewrite HR.
    match type of P0 with ?x <= 27 => assert (A0 : align_up (x * 8) 16 <= align_up (27 * 8) 16) by (apply align_up_mono; lia) end.
    change (align_up (27 * 8) 16) with 224 in A0. change (popcnt 0) with 0. change (align_up (0 * 16) 16) with 0. lia.
Qed.

(* every instruction of the prolog and epilog of an accepted AArch64 API frame is encodable (imm12 / shifted imm12 of add/sub, scaled imm7
   of ldp/stp, imm9 / scaled imm12 of ldr/str): what used to be observed ("the Assembler accepts the emitted prolog/epilog") is proved *)
Theorem a64_api_encodable f : api_frame f -> fi_arch f = A64 -> finalize_error f = 0 -> fi_sa_fix f = true ->
  fo_stack_adj (finalize f) <= 16777215 ->
  (forall i, In i (fst (prolog f (finalize f))) -> a64_encodable i = true) /\
  (forall i, In i (fst (epilog f (finalize f))) -> a64_encodable i = true).
Proof.
  intros AF HA HE HS HADJ. pose proof (api_frame_wf f AF) as WF.
  assert (HR : a64_realisable f = true).
  { unfold finalize_error in HE. destruct (_ <? _); [discriminate|]. rewrite HA in HE. destruct (a64_realisable f); [reflexivity|discriminate]. }
  destruct (a64_realisable_scope f WF HA HR) as [HV HNDA].
  apply (a64_frame_encodable f WF HA HV HNDA (or_intror HS) HADJ).
  rewrite (total_pp f WF HA HV HNDA (or_intror HS)).
  pose proof (a64_api_save_area f (af_cc f AF) HA HR). lia.
Qed.

(* non-vacuity: the example frame's prolog is non-empty and encodable; the predicate rejects what the ISA cannot encode *)
Lemma ex_a64_encodable :
  forallb a64_encodable (fst (prolog ex_a64_sa_fixed (finalize ex_a64_sa_fixed))) = true /\
  (length (fst (prolog ex_a64_sa_fixed (finalize ex_a64_sa_fixed))) >= 3)%nat /\
  a64_encodable (Mstp, [a64_reg 0 19; a64_reg 0 20; OMem 31 (-528) 1]) = false /\
  a64_encodable (Msub, [a64_reg 0 31; a64_reg 0 31; OImm 4097]) = false /\
  a64_encodable (Mstr, [a64_reg 0 19; OMem 31 (-272) 1]) = false.
Proof. repeat split; vm_compute; try reflexivity; try lia. Qed.

(* C07 — AArch64 (cdecl-like conventions, no dynamic alignment, SA register = sp): prolog ; confined body ; epilog. *)
From Coq Require Import ZArith List Bool Lia Znumtheory.
From Verif Require Import Frame.FrameModel Frame.FrameMachine Frame.FrameArith Frame.FrameLayout Frame.FrameMachineLemmas.
Import ListNotations.
Local Open Scope Z_scope.

Ltac splits := repeat match goal with |- _ /\ _ => split end.
Global Opaque bits_of bits_from.

Notation pair := (Z * option Z * Z)%type.

Fixpoint pairs_seq (ps : list pair) (base : Z) : Prop :=
  match ps with
  | [] => True
  | (_, _, off) :: r => off = base /\ pairs_seq r (base + 16)
  end.

Definition pair_regs (p : pair) : list Z := match p with (x, Some y, _) => [x; y] | (x, None, _) => [x] end.
Definition pairs_regs (ps : list pair) : list Z := flat_map pair_regs ps.

Lemma list_eq_dec_nil {A} (l : list A) : {l = []} + {l <> []}.
Proof. destruct l; [left; reflexivity | right; discriminate]. Qed.

(* induction two elements at a time *)
Lemma list_ind2 {A} (P : list A -> Prop) :
  P [] -> (forall x, P [x]) -> (forall x y l, P l -> P (x :: y :: l)) -> forall l, P l.
Proof.
  intros H0 H1 H2. assert (H : forall l, P l /\ forall x, P (x :: l)).
  { induction l as [|z l [IH1 IH2]]; split; auto. }
  intros l. apply H.
Qed.

Lemma a64_pairs_seq ids : forall off, pairs_seq (a64_pairs ids off 16) off.
Proof.
  induction ids as [|x|x y l IH] using list_ind2; intros off; cbn; auto.
Qed.

Lemma a64_pairs_regs ids : forall off, pairs_regs (a64_pairs ids off 16) = ids.
Proof.
  induction ids as [|x|x y l IH] using list_ind2; intros off; cbn; auto. f_equal. f_equal. apply IH.
Qed.

Lemma pairs_seq_nth ps : forall base i x oy off, pairs_seq ps base -> nth_error ps i = Some (x, oy, off) -> off = base + 16 * Z.of_nat i.
Proof.
  induction ps as [|[[x' oy'] off'] r IH]; intros base i x oy off Hs Hn; destruct i; cbn [nth_error pairs_seq] in *; try discriminate.
  - inversion Hn; subst. destruct Hs as [-> _]. cbn. lia.
  - destruct Hs as [_ Hs]. rewrite (IH _ _ _ _ _ Hs Hn). lia.
Qed.

Lemma trunc_idem' n v : 0 <= n -> trunc n (trunc n v) = trunc n v.
Proof. intros. unfold trunc. apply Z.mod_mod. apply Z.pow_nonzero; lia. Qed.
Lemma trunc_small' v : 0 <= v < 2 ^ 64 -> trunc 8 v = v.
Proof. intros. unfold trunc. apply Z.mod_small; auto. Qed.

(* ------------------------------------------------------------------ single instructions *)
Definition store_pair (m : Z -> mval) (addr : Z) (vx : Z) (vy : option Z) : Z -> mval :=
  let m1 := store_mem m addr 8 vx in
  match vy with Some v => store_mem m1 (addr + 8) 8 v | None => m1 end.

Lemma step_pair_store total g x oy off s :
  st_ret s = None -> st_reg s 0 31 mod 16 = 0 ->
  let pre := (off =? 0) && negb (total =? 0) in
  let addr := if pre then st_reg s 0 31 - total else st_reg s 0 31 + off in
  let m2 := store_pair (st_mem s) addr (trunc 8 (st_reg s g x)) (option_map (fun y => trunc 8 (st_reg s g y)) oy) in
  step A64 (a64_pair_inst true g total (x, oy, off)) s =
  Some (if pre then set_reg (set_mem s m2) 0 31 (st_reg s 0 31 - total) else set_mem s m2).
Proof.
  intros Hret Hal. cbv zeta. unfold step. rewrite Hret. unfold a64_pair_inst, a64_mem, a64_reg, store_pair.
  destruct oy as [y|]; destruct ((off =? 0) && negb (total =? 0)); cbn [a64_step option_map];
    unfold a64_base_ok; rewrite ?Z.eqb_refl; cbn [andb]; rewrite Hal; cbn [Z.eqb]; unfold a64_addr; cbn [Z.eqb Pos.eqb a64_wb];
    rewrite ?Z.add_opp_r; reflexivity.
Qed.

Lemma step_pair_load total g x oy off s vx vy :
  st_ret s = None -> st_reg s 0 31 mod 16 = 0 ->
  let post := (off =? 0) && negb (total =? 0) in
  let addr := if post then st_reg s 0 31 else st_reg s 0 31 + off in
  holds (st_mem s) addr 8 vx -> (forall y, oy = Some y -> holds (st_mem s) (addr + 8) 8 vy) ->
  step A64 (a64_pair_inst false g total (x, oy, off)) s =
  Some (let s1 := set_reg s g x vx in
        let s2 := match oy with Some y => set_reg s1 g y vy | None => s1 end in
        if post then set_reg s2 0 31 (st_reg s 0 31 + total) else s2).
Proof.
  intros Hret Hal. cbv zeta. intros Hx Hy. unfold step. rewrite Hret. unfold a64_pair_inst, a64_mem, a64_reg.
  destruct oy as [y|]; destruct ((off =? 0) && negb (total =? 0)); cbn [a64_step];
    unfold a64_base_ok; rewrite ?Z.eqb_refl; cbn [andb]; rewrite Hal; cbn [Z.eqb]; unfold a64_addr; cbn [Z.eqb Pos.eqb a64_wb];
    rewrite (load_holds _ _ 8 _ ltac:(lia) Hx); try rewrite (load_holds _ _ 8 _ ltac:(lia) (Hy _ eq_refl)); reflexivity.
Qed.

Lemma step_a64_mov s d r : st_ret s = None -> step A64 (Mmov, [a64_reg 0 d; a64_reg 0 r]) s = Some (set_reg s 0 d (st_reg s 0 r)).
Proof. intros H. unfold step. rewrite H. reflexivity. Qed.
Lemma step_a64_sub s v : st_ret s = None -> step A64 (Msub, [a64_reg 0 31; a64_reg 0 31; OImm v]) s = Some (set_reg s 0 31 (st_reg s 0 31 - v)).
Proof. intros H. unfold step. rewrite H. reflexivity. Qed.
Lemma step_a64_add s v : st_ret s = None -> step A64 (Madd, [a64_reg 0 31; a64_reg 0 31; OImm v]) s = Some (set_reg s 0 31 (st_reg s 0 31 + v)).
Proof. intros H. unfold step. rewrite H. reflexivity. Qed.

Lemma holds_store_pair_x m addr vx vy : holds (store_pair m addr vx vy) addr 8 vx.
Proof.
  unfold store_pair. destruct vy; [apply holds_store_other; [lia|]|]; apply holds_store_same.
Qed.
Lemma holds_store_pair_y m addr vx v : holds (store_pair m addr vx (Some v)) (addr + 8) 8 v.
Proof. unfold store_pair. apply holds_store_same. Qed.
Lemma store_pair_other m addr vx vy x : x < addr \/ addr + 16 <= x -> store_pair m addr vx vy x = m x.
Proof. intros H. unfold store_pair. destruct vy; rewrite !store_other by lia; reflexivity. Qed.

(* ------------------------------------------------------------------ a list of pair stores, fixed addressing *)
Lemma run_stores_fixed g total : forall ps base s,
  pairs_seq ps base -> 0 < base -> st_ret s = None -> st_reg s 0 31 mod 16 = 0 ->
  exists s', run A64 (map (a64_pair_inst true g total) ps) s = Some s' /\ st_reg s' = st_reg s /\ st_ret s' = None /\
    (forall x, x < st_reg s 0 31 + base \/ st_reg s 0 31 + base + 16 * Z.of_nat (length ps) <= x -> st_mem s' x = st_mem s x) /\
    (forall i x oy off, nth_error ps i = Some (x, oy, off) ->
       holds (st_mem s') (st_reg s 0 31 + base + 16 * Z.of_nat i) 8 (trunc 8 (st_reg s g x)) /\
       forall y, oy = Some y -> holds (st_mem s') (st_reg s 0 31 + base + 16 * Z.of_nat i + 8) 8 (trunc 8 (st_reg s g y))).
Proof.
  induction ps as [|[[x oy] off] r IH]; intros base s Hseq Hb Hret Hal.
  - exists s. cbn. splits; auto. intros i x oy off H. destruct i; discriminate.
  - destruct Hseq as [-> Hseq]. cbn [map run].
    rewrite step_pair_store by auto. cbv zeta.
    destruct (Z.eqb_spec base 0) as [E|E]; [lia|]. cbn [andb].
    set (m2 := store_pair _ _ _ _). set (s1 := set_mem s m2).
    destruct (IH (base + 16) s1 Hseq ltac:(lia) ltac:(cbn; auto) ltac:(cbn; auto)) as [s' [Hrun [Hregs [Hr [Hmem Hsl]]]]].
    exists s'. split; [exact Hrun|]. cbn [s1 set_mem st_reg] in *. splits; auto.
    + intros y Hy. cbn [length] in Hy. rewrite Hmem by lia. cbn [st_mem]. unfold m2. apply store_pair_other. lia.
    + intros i x' oy' off' Hn. destruct i as [|i]; cbn [nth_error] in Hn.
      * inversion Hn; subst x' oy' off'. rewrite Z.mul_0_r, Z.add_0_r. split.
        -- eapply holds_ext; [|apply holds_store_pair_x]. intros z Hz. rewrite Hmem by lia. reflexivity.
        -- intros y ->. eapply holds_ext; [|apply (holds_store_pair_y (st_mem s) (st_reg s 0 31 + base))].
           intros z Hz. rewrite Hmem by lia. reflexivity.
      * destruct (Hsl i x' oy' off' Hn) as [H1 H2].
        replace (st_reg s 0 31 + base + 16 * Z.of_nat (S i)) with (st_reg s 0 31 + (base + 16) + 16 * Z.of_nat i) by lia.
        split; auto.
Qed.

(* a list of pair loads (any order), fixed addressing: every slot of a register r holds val r *)
Lemma run_loads_fixed g total (val : Z -> Z) : forall ps s,
  st_ret s = None -> st_reg s 0 31 mod 16 = 0 -> (g = 0 -> ~ In 31 (pairs_regs ps)) ->
  (forall x oy off, In (x, oy, off) ps -> off <> 0 /\ holds (st_mem s) (st_reg s 0 31 + off) 8 (val x) /\
                    forall y, oy = Some y -> holds (st_mem s) (st_reg s 0 31 + off + 8) 8 (val y)) ->
  exists s', run A64 (map (a64_pair_inst false g total) ps) s = Some s' /\
    (forall r, In r (pairs_regs ps) -> st_reg s' g r = val r) /\
    (forall g' r, (g' = g -> ~ In r (pairs_regs ps)) -> st_reg s' g' r = st_reg s g' r) /\
    st_mem s' = st_mem s /\ st_ret s' = None.
Proof.
  induction ps as [|[[x oy] off] r IH]; intros s Hret Hal H31 Hsl.
  - exists s. cbn. splits; auto. intros r [].
  - cbn [map run]. destruct (Hsl x oy off ltac:(left; auto)) as [Hoff [Hx Hy]].
    assert (Epost : (off =? 0) && negb (total =? 0) = false) by (destruct (Z.eqb_spec off 0); [congruence|reflexivity]).
    rewrite (step_pair_load total g x oy off s (val x) (match oy with Some y => val y | None => 0 end) Hret Hal).
    2:{ cbv zeta. rewrite Epost. exact Hx. }
    2:{ cbv zeta. rewrite Epost. intros y ->. apply Hy; auto. }
    cbv zeta. rewrite Epost.
    set (s1 := match oy with Some y => _ | None => _ end).
    assert (Hx31 : g = 0 -> x <> 31 /\ forall y, oy = Some y -> y <> 31).
    { intros Hg. specialize (H31 Hg). cbn [pairs_regs flat_map pair_regs] in H31. split.
      - intros ->. apply H31. destruct oy; cbn; auto.
      - intros y -> ->. apply H31. cbn. auto. }
    assert (Hsp1 : st_reg s1 0 31 = st_reg s 0 31).
    { unfold s1. destruct oy as [y|]; rewrite ?reg_set_other; auto; intros E; inversion E; subst; destruct (Hx31 eq_refl) as [A B]; try congruence.
      apply (B _ eq_refl); reflexivity. }
    assert (Hm1 : st_mem s1 = st_mem s) by (unfold s1; destruct oy; reflexivity).
    assert (Hr1 : st_ret s1 = None) by (unfold s1; destruct oy; cbn; auto).
    destruct (IH s1 Hr1 ltac:(rewrite Hsp1; auto)) as [s' [Hrun [Hv [Hregs [Hmem Hr]]]]].
    { intros Hg Hin. apply (H31 Hg). cbn [pairs_regs flat_map]. apply in_or_app. right. exact Hin. }
    { intros x' oy' off' Hin. rewrite Hsp1, Hm1. apply Hsl. right; auto. }
    exists s'. split; [exact Hrun|]. splits; auto.
    + intros r0 Hin. cbn [pairs_regs flat_map] in Hin. apply in_app_or in Hin.
      destruct (in_dec Z.eq_dec r0 (pairs_regs r)) as [Hi|Hi]; [apply Hv; auto|].
      destruct Hin as [Hin|Hin]; [|contradiction].
      rewrite Hregs by (intros _; exact Hi). unfold s1.
      destruct oy as [y|]; cbn [pair_regs In] in Hin.
      * destruct (Z.eq_dec r0 y) as [->|Hne]; [apply reg_set_same|]. rewrite reg_set_other_r by auto.
        destruct Hin as [<-|[<-|[]]]; [apply reg_set_same | congruence].
      * destruct Hin as [<-|[]]. apply reg_set_same.
    + intros g' r0 Hn. rewrite Hregs.
      * unfold s1. assert (Hn' : g' = g -> r0 <> x /\ forall y, oy = Some y -> r0 <> y).
        { intros Hg. specialize (Hn Hg). cbn [pairs_regs flat_map pair_regs] in Hn. split.
          - intros ->. apply Hn. destruct oy; cbn; auto.
          - intros y -> ->. apply Hn. cbn. auto. }
        destruct oy as [y|]; rewrite ?reg_set_other; auto; intros E; inversion E; subst; destruct (Hn' eq_refl) as [A B]; try congruence.
        apply (B _ eq_refl); reflexivity.
      * intros Hg Hin. apply (Hn Hg). cbn [pairs_regs flat_map]. apply in_or_app. right; auto.
    + rewrite Hmem. exact Hm1.
Qed.

(* ------------------------------------------------------------------ the store sequence of one group *)
(* ------------------------------------------------------------------ round 6: encodability of the emitted instructions *)
(* what the A64 ISA can encode (ARM ARM): add/sub immediate = imm12, optionally shifted left by 12; ldp/stp (64-bit and D registers) =
   imm7 scaled by 8: multiples of 8 in [-512, 504], all addressing modes; ldr/str = unsigned imm12 scaled by 8 for the fixed offset,
   imm9 in [-256, 255] for pre/post-index.  The abstract machine does not look at these limits: they are proved separately. *)
Definition imm_addsub_ok (v : Z) : bool := ((0 <=? v) && (v <=? 4095)) || ((v mod 4096 =? 0) && (0 <=? v) && (v <=? 16773120)).
Definition a64_encodable (i : instr) : bool :=
  match i with
  | (Mbti, [OImm _]) => true
  | (Mmov, [OReg _ _ _; OReg _ _ _]) => true
  | (Msub, [OReg _ _ _; OReg _ _ _; OImm v]) => imm_addsub_ok v
  | (Madd, [OReg _ _ _; OReg _ _ _; OImm v]) => imm_addsub_ok v
  | (Mstp, [OReg _ sz _; OReg _ _ _; OMem _ off _]) => (sz =? 8) && (off mod 8 =? 0) && (-512 <=? off) && (off <=? 504)
  | (Mldp, [OReg _ sz _; OReg _ _ _; OMem _ off _]) => (sz =? 8) && (off mod 8 =? 0) && (-512 <=? off) && (off <=? 504)
  | (Mstr, [OReg _ sz _; OMem _ off mode]) =>
    (sz =? 8) && (if mode =? 0 then (off mod 8 =? 0) && (0 <=? off) && (off <=? 32760) else (-256 <=? off) && (off <=? 255))
  | (Mldr, [OReg _ sz _; OMem _ off mode]) =>
    (sz =? 8) && (if mode =? 0 then (off mod 8 =? 0) && (0 <=? off) && (off <=? 32760) else (-256 <=? off) && (off <=? 255))
  | (Mret, [OReg _ _ _]) => true
  | _ => false
  end.

Lemma pair_inst_encodable st g total ps base p :
  pairs_seq ps base -> In p ps -> 0 <= base -> base mod 16 = 0 -> base + 16 * Z.of_nat (length ps) <= total -> total <= 240 -> total mod 16 = 0 ->
  a64_encodable (a64_pair_inst st g total p) = true.
Proof.
  intros Hs Hin Hb Hbm Hlen Ht Htm. destruct (In_nth_error _ _ Hin) as [n Hn]. destruct p as [[x oy] off].
  pose proof (pairs_seq_nth ps base n x oy off Hs Hn) as Hoff.
  assert (Hlt : (n < length ps)%nat) by (apply nth_error_Some; congruence).
  assert (Hr : 0 <= off <= total - 16) by lia.
  assert (Hm8 : off mod 8 = 0).
  { rewrite Hoff. apply (mod_divide_0 _ 16 8); [lia | exists 2; reflexivity|]. replace (base + 16 * Z.of_nat n) with (base + Z.of_nat n * 16) by lia. rewrite Z.mod_add by lia. exact Hbm. }
  assert (Ht8 : total mod 8 = 0) by (apply (mod_divide_0 _ 16 8); [lia | exists 2; reflexivity | exact Htm]).
  assert (Hnt8 : (- total) mod 8 = 0) by (apply Z.mod_opp_l_z; [lia | exact Ht8]).
  unfold a64_pair_inst, a64_mem, a64_reg.
  destruct oy as [y|]; destruct st; destruct ((off =? 0) && negb (total =? 0)) eqn:E; cbn [a64_encodable Z.eqb Pos.eqb andb negb];
    repeat match goal with
    | |- (_ && _) = true => apply andb_true_iff; split
    | |- (_ =? _) = true => apply Z.eqb_eq
    | |- (_ <=? _) = true => apply Z.leb_le
    end; auto; try lia.
Qed.

Lemma adjust_encodable sub adj i : 0 <= adj <= 16777215 -> In i (fst (a64_adjust sub adj)) -> a64_encodable i = true.
Proof.
  intros Ha Hin. unfold a64_adjust in Hin.
  assert (Hq : adj = 4096 * (adj / 4096) + adj mod 4096) by (apply Z.div_mod; lia).
  pose proof (Z.mod_pos_bound adj 4096 ltac:(lia)) as Hr.
  assert (Hm : (adj - adj mod 4096) mod 4096 = 0).
  { replace (adj - adj mod 4096) with ((adj / 4096) * 4096) by lia. apply Z.mod_mul. lia. }
  destruct (Z.eqb_spec adj 0); [destruct Hin|]. destruct (Z.leb_spec adj 4095); [|destruct (Z.leb_spec adj 16777215); [|lia]]; cbn [fst] in Hin.
  - destruct Hin as [<-|[]]. destruct sub; cbn [a64_encodable a64_reg]; unfold imm_addsub_ok; apply orb_true_iff; left;
      apply andb_true_iff; split; apply Z.leb_le; lia.
  - destruct Hin as [<-|[<-|[]]]; destruct sub; cbn [a64_encodable a64_reg]; unfold imm_addsub_ok; apply orb_true_iff.
    + left. apply andb_true_iff; split; apply Z.leb_le; lia.
    + left. apply andb_true_iff; split; apply Z.leb_le; lia.
    + right. rewrite Hm, Z.eqb_refl. cbn [andb]. apply andb_true_iff; split; apply Z.leb_le; lia.
    + right. rewrite Hm, Z.eqb_refl. cbn [andb]. apply andb_true_iff; split; apply Z.leb_le; lia.
Qed.

Section Group.
Variable f : frame_in.
Variable total : Z.

(* stores of one non-empty group p :: rest whose first pair sits at offset `base`;  spn is the stack pointer after the
   pre-indexed first store of the whole sequence *)
Lemma run_group_stores g x oy rest base s spn :
  pairs_seq ((x, oy, base) :: rest) base -> 0 <= base -> (base = 0 -> total <> 0) ->
  st_ret s = None -> spn mod 16 = 0 -> total mod 16 = 0 ->
  st_reg s 0 31 = (if base =? 0 then spn + total else spn) ->
  (g = 0 -> fi_has_fp f = true -> ~ In 29 (pairs_regs rest)) -> (g = 0 -> ~ In 31 (pairs_regs rest)) ->
  exists s', run A64 (a64_group_stores f g total ((x, oy, base) :: rest)) s = Some s' /\
    st_reg s' 0 31 = spn /\
    (forall g' r', (g', r') <> (0, 31) -> (fi_has_fp f = true -> (g', r') <> (0, 29)) -> st_reg s' g' r' = st_reg s g' r') /\
    (fi_has_fp f = true -> st_reg s' 0 29 = spn) /\
    st_ret s' = None /\
    (forall z, z < spn + base \/ spn + base + 16 * Z.of_nat (S (length rest)) <= z -> st_mem s' z = st_mem s z) /\
    (forall i x' oy' off', nth_error ((x, oy, base) :: rest) i = Some (x', oy', off') ->
       holds (st_mem s') (spn + base + 16 * Z.of_nat i) 8 (trunc 8 (st_reg s g x')) /\
       forall y, oy' = Some y -> holds (st_mem s') (spn + base + 16 * Z.of_nat i + 8) 8 (trunc 8 (st_reg s g y))).
Proof.
  intros Hseq Hb Htot Hret Hspn Htm Hsp H29 H31.
  destruct Hseq as [_ Hseq].
  assert (Hal : st_reg s 0 31 mod 16 = 0).
  { rewrite Hsp. destruct (base =? 0); auto. apply add_mod_0; auto; lia. }
  cbn [a64_group_stores run]. rewrite step_pair_store by auto. cbv zeta.
  assert (Eaddr : (if (base =? 0) && negb (total =? 0) then st_reg s 0 31 - total else st_reg s 0 31 + base) = spn + base).
  { rewrite Hsp. destruct (Z.eqb_spec base 0) as [E|E]; cbn [andb].
    - destruct (Z.eqb_spec total 0); [specialize (Htot E); congruence|]. cbn [negb]. lia.
    - reflexivity. }
  rewrite Eaddr. set (m2 := store_pair _ _ _ _).
  set (s1 := if (base =? 0) && negb (total =? 0) then _ else _).
  assert (Hs1sp : st_reg s1 0 31 = spn).
  { unfold s1. rewrite Hsp. destruct (Z.eqb_spec base 0) as [E|E]; cbn [andb].
    - destruct (Z.eqb_spec total 0); [specialize (Htot E); congruence|]. cbn [negb]. rewrite reg_set_same. lia.
    - cbn [set_mem st_reg]. exact Hsp. }
  assert (Hs1reg : forall g' r', (g', r') <> (0, 31) -> st_reg s1 g' r' = st_reg s g' r').
  { intros g' r' Hne. unfold s1. destruct ((base =? 0) && negb (total =? 0)); [rewrite reg_set_other by auto|]; reflexivity. }
  assert (Hs1mem : st_mem s1 = m2) by (unfold s1; destruct ((base =? 0) && negb (total =? 0)); reflexivity).
  assert (Hs1ret : st_ret s1 = None) by (unfold s1; destruct ((base =? 0) && negb (total =? 0)); cbn; auto).
  (* optional mov x29, sp *)
  rewrite run_app.
  set (s2 := if fi_has_fp f then set_reg s1 0 29 spn else s1).
  assert (Hrun2 : run A64 (if fi_has_fp f then [a64_mov_fp] else []) s1 = Some s2).
  { unfold s2. destruct (fi_has_fp f); [|reflexivity]. cbn [run]. unfold a64_mov_fp. rewrite step_a64_mov by auto. rewrite Hs1sp. reflexivity. }
  rewrite Hrun2.
  assert (Hs2sp : st_reg s2 0 31 = spn) by (unfold s2; destruct (fi_has_fp f); [rewrite reg_set_other_r by lia|]; exact Hs1sp).
  assert (Hs2mem : st_mem s2 = m2) by (unfold s2; destruct (fi_has_fp f); exact Hs1mem).
  assert (Hs2ret : st_ret s2 = None) by (unfold s2; destruct (fi_has_fp f); cbn; auto).
  destruct (run_stores_fixed g total rest (base + 16) s2 Hseq ltac:(lia) Hs2ret ltac:(rewrite Hs2sp; auto))
    as [s' [Hrun [Hregs [Hr [Hmem Hsl]]]]].
  rewrite Hs2sp in Hmem, Hsl.
  exists s'. split; [exact Hrun|]. rewrite Hregs. splits; auto.
  - intros g' r' H1 H2. unfold s2. destruct (fi_has_fp f); [rewrite reg_set_other by auto|]; apply Hs1reg; auto.
  - intros Hfp. unfold s2. rewrite Hfp. apply reg_set_same.
  - intros z Hz. assert (Hz' : z < spn + (base + 16) \/ spn + (base + 16) + 16 * Z.of_nat (length rest) <= z) by lia.
    rewrite (Hmem z Hz'). rewrite Hs2mem. unfold m2. apply store_pair_other. lia.
  - intros i x' oy' off' Hn. destruct i as [|i]; cbn [nth_error] in Hn.
    + inversion Hn; subst x' oy' off'. rewrite Z.mul_0_r, Z.add_0_r. split.
      * eapply holds_ext; [|apply holds_store_pair_x]. intros z Hz. rewrite Hmem by lia. rewrite Hs2mem. reflexivity.
      * intros y ->. eapply holds_ext; [|apply (holds_store_pair_y (st_mem s) (spn + base))].
        intros z Hz. rewrite Hmem by lia. rewrite Hs2mem. reflexivity.
    + destruct (Hsl i x' oy' off' Hn) as [A B].
      assert (Hin : forall r, In r (pair_regs (x', oy', off')) -> In r (pairs_regs rest)).
      { intros r Hr'. unfold pairs_regs. apply in_flat_map. exists (x', oy', off'). split; auto. eapply nth_error_In; eauto. }
      assert (Ereg : forall r, In r (pair_regs (x', oy', off')) -> st_reg s2 g r = st_reg s g r).
      { intros r Hr'. specialize (Hin r Hr'). unfold s2.
        assert (N31 : (g, r) <> (0, 31)) by (intros E; inversion E as [[Eg Er]]; apply (H31 Eg); rewrite <- Er; exact Hin).
        destruct (fi_has_fp f) eqn:Hfp.
        - rewrite reg_set_other; [apply Hs1reg; exact N31|].
          intros E; inversion E as [[Eg Er]]. apply (H29 Eg eq_refl). rewrite <- Er. exact Hin.
        - apply Hs1reg; exact N31. }
      replace (spn + base + 16 * Z.of_nat (S i)) with (spn + (base + 16) + 16 * Z.of_nat i) by lia.
      split.
      * rewrite <- (Ereg x') by (destruct oy'; cbn; auto). exact A.
      * intros y ->. rewrite <- (Ereg y) by (cbn; auto). apply B; auto.
Qed.

End Group.

(* ------------------------------------------------------------------ AArch64 frames in scope *)
Section A64Frame.
Variable f : frame_in.
Hypothesis WF : wf_in f.
Hypothesis HA : fi_arch f = A64.
Hypothesis HV : qget (cc_srsize (fi_cc f)) 1 = 8 \/ fin_saved f 1 = 0.   (* D registers are what the emitters save: 8-byte vector saves, or none *)
Hypothesis HNDA : fin_has_da f = false.                     (* DESIGN 7.31: alignment > 16 is not implemented *)
Hypothesis HSA : fi_sa_reg f = id_bad \/ fi_sa_fix f = true.  (* pinned tree: the prolog never sets up an SA register; fixed tree: any *)
Hypothesis HADJ : fo_stack_adj (finalize f) <= 16777215.    (* larger adjustments are refused with an error *)

Let o := finalize f.
Let cc := fi_cc f.
Local Notation has_fp := (fi_has_fp f).

Lemma a64_cc :
  cc_natural cc = 16 /\ cc_sralign cc = mkq 16 16 8 1 /\ q2 (cc_srsize cc) = 0 /\ q3 (cc_srsize cc) = 0 /\
  0 <= q0 (cc_preserved cc) < 2 ^ 31 /\ Z.testbit (q0 (cc_preserved cc)) 29 = true /\ Z.testbit (q0 (cc_preserved cc)) 30 = true /\
  0 <= q1 (cc_preserved cc) < 2 ^ 32 /\ q2 (cc_preserved cc) = 0 /\ q3 (cc_preserved cc) = 0.
Proof. pose proof (wc_a64 _ _ (wi_cc f WF) HA) as H. fold cc in H. tauto. Qed.

Lemma srs0 : qget (cc_srsize cc) 0 = 8.
Proof. pose proof (wc_rs _ _ (wi_cc f WF)) as H. rewrite HA in H. exact H. Qed.

Lemma a64_sa : fin_sa f = 31 \/ (0 <= fin_sa f < 31 /\ fi_sa_fix f = true).
Proof.
  unfold fin_sa. rewrite HA, HNDA. cbn [sp_id andb]. pose proof (wi_sa f WF) as W. rewrite HA in W. cbn [is_x86_family sp_id] in W.
  destruct (Z.eqb_spec (fi_sa_reg f) id_bad) as [E|E]; [left; reflexivity|].
  destruct W as [W|[W1 W2]]; [congruence|]. destruct HSA as [H|H]; [congruence|]. right. split; auto.
Qed.

Definition m0 := saved_regs f o 0.
Definition m1 := saved_regs f o 1.
Definition gp_ids := if has_fp then bits_of 32 (clear_bit (clear_bit m0 29) 30) else bits_of 32 m0.
Definition vec_ids := bits_of 32 m1.
Definition gps := a64_gp_pairs f o.
Definition vps := a64_vec_pairs f o.
Definition gpt := 16 * Z.of_nat (length gps).
Definition total := gpt + 16 * Z.of_nat (length vps).

Lemma gps_eq : gps = if has_fp then (29, Some 30, 0) :: a64_pairs gp_ids 16 16 else a64_pairs gp_ids 0 16.
Proof.
  unfold gps, a64_gp_pairs, a64_group_pairs, gp_ids, m0. cbn [Z.eqb andb]. fold cc. rewrite srs0.
  destruct (fi_has_fp f); reflexivity.
Qed.

Lemma gpt_eq : a64_gp_total f o = gpt.
Proof. unfold a64_gp_total, gpt, gps. fold cc. rewrite srs0. lia. Qed.

Lemma bits_of_0 n : bits_of n 0 = [].
Proof.
  destruct (bits_of n 0) as [|x l] eqn:E; auto. exfalso.
  assert (H : In x (bits_of n 0)) by (rewrite E; left; auto). apply bits_of_In in H. destruct H as [_ H]. rewrite Z.bits_0 in H. discriminate.
Qed.

Lemma vec_ids_nil : fin_saved f 1 = 0 -> vec_ids = [].
Proof. intros H. unfold vec_ids, m1. change (saved_regs f o 1) with (fin_saved f 1). rewrite H. apply bits_of_0. Qed.

Lemma vps_eq : vps = a64_pairs vec_ids gpt 16.
Proof.
  destruct HV as [H|H].
  - unfold vps, a64_vec_pairs, a64_group_pairs, vec_ids, m1. cbn [Z.eqb Pos.eqb andb]. rewrite H, gpt_eq. reflexivity.
  - rewrite (vec_ids_nil H). unfold vps, a64_vec_pairs, a64_group_pairs. cbn [Z.eqb Pos.eqb andb].
    change (saved_regs f o 1) with (fin_saved f 1). rewrite H, bits_of_0. reflexivity.
Qed.

Lemma vec_term : popcnt (fin_saved f 1) * qget (cc_srsize (fi_cc f)) 1 = popcnt (fin_saved f 1) * 8.
Proof. destruct HV as [H|H]; [rewrite H; reflexivity | rewrite H; reflexivity]. Qed.

Lemma total_eq : a64_total f o = total.
Proof.
  unfold a64_total, total. rewrite gpt_eq. fold vps. destruct HV as [H|H]; [rewrite H; lia|].
  rewrite vps_eq, (vec_ids_nil H). cbn [a64_pairs length]. lia.
Qed.

Lemma gps_seq : pairs_seq gps 0.
Proof. rewrite gps_eq. destruct (fi_has_fp f); [cbn; split; auto|]; apply a64_pairs_seq. Qed.

Lemma vps_seq : pairs_seq vps gpt.
Proof. rewrite vps_eq. apply a64_pairs_seq. Qed.

Lemma dirty0_a64 : q0 (fin_dirty f) =
  let d := if has_fp then Z.lor (Z.lor (q0 (fi_dirty f)) (bit 29)) (bit 30) else q0 (fi_dirty f) in
  if fin_sa f =? 31 then d else Z.lor d (bit (fin_sa f)).
Proof. unfold fin_dirty. rewrite HA. cbn [q0 fp_id has_link_reg sp_id andb]. unfold lr_id. destruct (fi_has_fp f); reflexivity. Qed.

Lemma dirty0_sa_bit : fin_sa f <> 31 -> Z.testbit (q0 (fin_dirty f)) (fin_sa f) = true.
Proof.
  intros Hne. rewrite dirty0_a64. cbv zeta. destruct (Z.eqb_spec (fin_sa f) 31); [congruence|].
  destruct a64_sa as [?|[Hs _]]; [congruence|]. rewrite lor_bit_testbit by lia. rewrite Z.eqb_refl. apply orb_true_r.
Qed.

Lemma m0_bits r : Z.testbit m0 r = true -> 0 <= r < 31.
Proof.
  destruct a64_cc as [_ [_ [_ [_ [Hp _]]]]]. unfold m0, saved_regs. rewrite Z.land_spec. fold cc. intros H.
  apply andb_true_iff in H. destruct H as [_ H]. change (qget (cc_preserved cc) 0) with (q0 (cc_preserved cc)) in H.
  assert (0 <= r) by (destruct (Z_lt_le_dec r 0); auto; rewrite Z.testbit_neg_r in H by lia; discriminate).
  destruct (Z_lt_le_dec r 31); [lia|]. rewrite (testbit_above _ 31 r Hp) in H by lia. discriminate.
Qed.

Lemma m0_fp : has_fp = true -> Z.testbit m0 29 = true /\ Z.testbit m0 30 = true.
Proof.
  intros Hfp. destruct a64_cc as [_ [_ [_ [_ [_ [H29 [H30 _]]]]]]].
  unfold m0, saved_regs. rewrite !Z.land_spec. fold cc. change (qget (fo_dirty o) 0) with (q0 (fin_dirty f)).
  change (qget (cc_preserved cc) 0) with (q0 (cc_preserved cc)). rewrite dirty0_a64, Hfp, H29, H30. cbv zeta.
  destruct a64_sa as [Hs|[Hs _]].
  - rewrite Hs. cbn [Z.eqb Pos.eqb]. rewrite !lor_bit_testbit by lia. cbn. rewrite !orb_true_r. auto.
  - destruct (Z.eqb_spec (fin_sa f) 31); [lia|]. rewrite !lor_bit_testbit by lia. cbn [Z.eqb Pos.eqb]. rewrite !orb_true_r. cbn. auto.
Qed.

Lemma gp_ids_In r : In r gp_ids -> 0 <= r < 31 /\ (has_fp = true -> r <> 29 /\ r <> 30) /\ Z.testbit m0 r = true.
Proof.
  unfold gp_ids. destruct (fi_has_fp f); intros H; apply bits_of_In in H; destruct H as [Hr Hb].
  - rewrite !clear_bit_testbit in Hb by lia. apply andb_true_iff in Hb. destruct Hb as [Hb H30].
    apply andb_true_iff in Hb. destruct Hb as [Hb H29]. pose proof (m0_bits r Hb).
    split; [lia | split; [intros _; split; intros ->; discriminate | exact Hb]].
  - pose proof (m0_bits r Hb). split; [lia | split; [discriminate | exact Hb]].
Qed.

Lemma gps_regs : pairs_regs gps = if has_fp then 29 :: 30 :: gp_ids else gp_ids.
Proof. rewrite gps_eq. destruct (fi_has_fp f); cbn [pairs_regs flat_map pair_regs app]; fold (pairs_regs (a64_pairs gp_ids 16 16)); rewrite ?a64_pairs_regs; reflexivity. Qed.

Lemma vps_regs : pairs_regs vps = vec_ids.
Proof. rewrite vps_eq. apply a64_pairs_regs. Qed.

Lemma total_mod : total mod 16 = 0 /\ gpt mod 16 = 0 /\ 0 <= gpt <= total.
Proof. unfold total, gpt. splits; try lia; rewrite <- ?Z.mul_add_distr_l, Z.mul_comm; apply Z.mod_mul; lia. Qed.

Lemma adj_facts : 0 <= fo_stack_adj o /\ fo_stack_adj o mod 16 = 0 /\ fo_local_off o + fi_local_size f <= fo_stack_adj o /\ 0 <= fi_call_size f <= fo_local_off o.
Proof.
  pose proof (layout_chain f WF) as L. cbv zeta in L. fold o in L.
  destruct L as [Hc [Hl [Hex0 [Hpp0 [Hnoda [Hda [Hfin [Hadj [Hnda [_ [_ [_ Hal]]]]]]]]]]]].
  change (fo_has_da o) with (fin_has_da f) in Hnda. specialize (Hnda HNDA).
  assert (Hdaoff : fo_da_off o = -1).
  { change (fo_da_off o) with (if fin_has_da f && negb (fi_has_fp f) then fo_extra_off o + fin_ex f else -1). rewrite HNDA. reflexivity. }
  specialize (Hnoda Hdaoff). pose proof (wi_lsize f WF).
  assert (Hsal : fo_final_align o = 16).
  { change (fo_final_align o) with (final_alignment f). destruct a64_cc as [Hn _]. fold cc in Hn.
    pose proof (sal_natural_or_da_gen f WF) as S. apply S; auto. }
  assert (Hu : uses_stack_or_calls f o) by (right; right; rewrite HA; reflexivity).
  specialize (Hal Hu). rewrite Hsal in Hal. unfold ret_addr_size in Hal. rewrite HA in Hal. cbn [has_link_reg] in Hal. rewrite Z.add_0_r in Hal.
  assert (Hppm : fo_push_pop_size o mod 16 = 0).
  { change (fo_push_pop_size o) with (fin_pp f). unfold fin_pp. rewrite HA. cbn [map fold_right has_push_pop Z.eqb Pos.eqb orb].
    unfold fin_group_size. fold cc. destruct a64_cc as [_ [Hal' _]]. rewrite Hal'. cbn [qget Z.eqb Pos.eqb q0 q1].
    rewrite !Z.add_0_r. apply add_mod_0; [lia | apply align_up_mod; lia | apply align_up_mod; lia]. }
  rewrite Hnda. splits; try lia.
  replace (fo_push_pop_off o) with ((fo_push_pop_off o + fo_push_pop_size o) - fo_push_pop_size o) by lia.
  apply sub_mod_0; auto; lia.
Qed.

(* ------------------------------------------------------------------ the prolog *)
Definition a64_sp_body (sp0 : Z) : Z := sp0 - total - fo_stack_adj o.

Lemma run_group_opt g ps base s spn :
  pairs_seq ps base -> 0 <= base -> (ps <> [] -> base = 0 -> total <> 0) ->
  st_ret s = None -> spn mod 16 = 0 ->
  (ps <> [] -> st_reg s 0 31 = (if base =? 0 then spn + total else spn)) ->
  (g = 0 -> has_fp = true -> ~ In 29 (pairs_regs (tl ps))) -> (g = 0 -> ~ In 31 (pairs_regs (tl ps))) ->
  exists s', run A64 (a64_group_stores f g total ps) s = Some s' /\
    st_reg s' 0 31 = (if match ps with [] => true | _ => false end then st_reg s 0 31 else spn) /\
    (forall g' r', (g', r') <> (0, 31) -> (ps <> [] -> has_fp = true -> (g', r') <> (0, 29)) -> st_reg s' g' r' = st_reg s g' r') /\
    (ps <> [] -> has_fp = true -> st_reg s' 0 29 = spn) /\
    st_ret s' = None /\
    (forall z, z < spn + base \/ spn + base + 16 * Z.of_nat (length ps) <= z -> st_mem s' z = st_mem s z) /\
    (forall i x' oy' off', nth_error ps i = Some (x', oy', off') ->
       holds (st_mem s') (spn + base + 16 * Z.of_nat i) 8 (trunc 8 (st_reg s g x')) /\
       forall y, oy' = Some y -> holds (st_mem s') (spn + base + 16 * Z.of_nat i + 8) 8 (trunc 8 (st_reg s g y))).
Proof.
  intros Hseq Hb Htot Hret Hspn Hsp H29 H31. destruct total_mod as [Htm _].
  destruct ps as [|[[x oy] off] rest].
  - exists s. cbn [a64_group_stores run]. splits; auto; try congruence. intros i x' oy' off' H; destruct i; discriminate.
  - assert (E : off = base) by (destruct Hseq; auto). subst off.
    destruct (run_group_stores f total g x oy rest base s spn Hseq Hb ltac:(intros; apply Htot; auto; discriminate) Hret Hspn Htm
                ltac:(apply Hsp; discriminate) H29 H31) as [s' [Hrun [H1 [H2 [H3 [H4 [H5 H6]]]]]]].
    exists s'. split; [exact Hrun|]. splits; auto.
    intros g' r' A B. apply H2; auto. apply B. discriminate.
Qed.

Record a64_post (s0 s1 : state) : Prop := mk_a64_post {
  aq_sp : st_reg s1 0 31 = a64_sp_body (st_reg s0 0 31);
  aq_ret : st_ret s1 = None;
  aq_fp : has_fp = true -> st_reg s1 0 29 = st_reg s0 0 31 - total;
  aq_regs : forall g r, (g, r) <> (0, 31) -> (has_fp = true -> (g, r) <> (0, 29)) -> (fin_sa f <> 31 -> (g, r) <> (0, fin_sa f)) ->
            st_reg s1 g r = st_reg s0 g r;
  aq_sa : fin_sa f <> 31 -> st_reg s1 0 (fin_sa f) = st_reg s0 0 31 - total;
  aq_mem : forall z, z < st_reg s0 0 31 - total \/ st_reg s0 0 31 <= z -> st_mem s1 z = st_mem s0 z;
  aq_gp : forall i x oy off, nth_error gps i = Some (x, oy, off) ->
          holds (st_mem s1) (st_reg s0 0 31 - total + 16 * Z.of_nat i) 8 (trunc 8 (st_reg s0 0 x)) /\
          forall y, oy = Some y -> holds (st_mem s1) (st_reg s0 0 31 - total + 16 * Z.of_nat i + 8) 8 (trunc 8 (st_reg s0 0 y));
  aq_vec : forall i x oy off, nth_error vps i = Some (x, oy, off) ->
          holds (st_mem s1) (st_reg s0 0 31 - total + gpt + 16 * Z.of_nat i) 8 (trunc 8 (st_reg s0 1 x)) /\
          forall y, oy = Some y -> holds (st_mem s1) (st_reg s0 0 31 - total + gpt + 16 * Z.of_nat i + 8) 8 (trunc 8 (st_reg s0 1 y))
}.

Lemma a64_prolog_segs :
  fst (prolog f o) = (if fi_ibp f then [(Mbti, [OImm 3])] else []) ++ a64_group_stores f 0 total gps ++
                     a64_group_stores f 1 total vps ++ a64_sa_init f o ++ fst (a64_adjust true (fo_stack_adj o)).
Proof.
  unfold prolog. rewrite HA. unfold a64_prolog. rewrite total_eq. fold gps vps.
  destruct (a64_adjust true (fo_stack_adj o)). reflexivity.
Qed.

(* `mov saReg, sp` of the fixed tree *)
Lemma run_sa_init s : st_ret s = None ->
  exists s', run A64 (a64_sa_init f o) s = Some s' /\
    (forall g r, (fin_sa f <> 31 -> (g, r) <> (0, fin_sa f)) -> st_reg s' g r = st_reg s g r) /\
    (fin_sa f <> 31 -> (has_fp = true -> fin_sa f <> 29) -> st_reg s' 0 (fin_sa f) = st_reg s 0 31) /\
    st_mem s' = st_mem s /\ st_ret s' = None.
Proof.
  intros Hret. unfold a64_sa_init. change (fo_sa_reg o) with (fin_sa f).
  destruct a64_sa as [Hs|[Hs Hv]].
  - rewrite Hs. cbn [Z.eqb Pos.eqb negb andb]. rewrite !andb_false_r. cbn [andb]. exists s. cbn [run]. splits; auto; try congruence.
  - rewrite Hv. assert (E1 : (fin_sa f =? id_bad) = false) by (apply Z.eqb_neq; unfold id_bad; lia).
    assert (E2 : (fin_sa f =? 31) = false) by (apply Z.eqb_neq; lia). rewrite E1, E2. cbn [negb andb].
    destruct (fi_has_fp f && (fin_sa f =? 29)) eqn:E3; cbn [negb].
    + exists s. cbn [run]. splits; auto. intros _ H. apply andb_true_iff in E3. destruct E3 as [E3 E4]. apply Z.eqb_eq in E4. specialize (H E3). congruence.
    + cbn [run]. rewrite step_a64_mov by auto. eexists. split; [reflexivity|]. splits; auto.
      * intros g r H. apply reg_set_other. apply H. lia.
      * intros _ _. apply reg_set_same.
Qed.

Lemma run_adjust (sub : bool) adj s : 0 <= adj <= 16777215 -> st_ret s = None ->
  exists s', run A64 (fst (a64_adjust sub adj)) s = Some s' /\
    st_reg s' 0 31 = (if sub then st_reg s 0 31 - adj else st_reg s 0 31 + adj) /\
    (forall g r, (g, r) <> (0, 31) -> st_reg s' g r = st_reg s g r) /\ st_mem s' = st_mem s /\ st_ret s' = None /\
    snd (a64_adjust sub adj) = true.
Proof.
  intros Hadj Hret. unfold a64_adjust.
  destruct (Z.eqb_spec adj 0) as [E|E].
  - exists s. cbn. splits; auto. destruct sub; lia.
  - destruct (Z.leb_spec adj 4095).
    + destruct sub; cbn [fst snd run]; [rewrite step_a64_sub by auto | rewrite step_a64_add by auto];
        (eexists; split; [reflexivity|]; splits;
         [apply reg_set_same | intros g r H'; apply reg_set_other; auto | reflexivity | cbn; auto | reflexivity]).
    + destruct (Z.leb_spec adj 16777215); [|lia].
      destruct sub; cbn [fst snd run];
        [rewrite step_a64_sub by auto; rewrite step_a64_sub by (cbn; auto) | rewrite step_a64_add by auto; rewrite step_a64_add by (cbn; auto)];
        (eexists; split; [reflexivity|]; splits;
         [rewrite !reg_set_same; lia | intros g r H'; rewrite !reg_set_other by auto; reflexivity | reflexivity | cbn; auto | reflexivity]).
Qed.

Lemma gps_nil_fp : gps = [] -> has_fp = false.
Proof. rewrite gps_eq. destruct (fi_has_fp f); [discriminate | auto]. Qed.

Lemma tl_gps_regs : (has_fp = true -> ~ In 29 (pairs_regs (tl gps))) /\ ~ In 31 (pairs_regs (tl gps)).
Proof.
  assert (Hsub : forall r, In r (pairs_regs (tl gps)) -> In r gp_ids).
  { intros r Hr. rewrite gps_eq in Hr. destruct (fi_has_fp f).
    - cbn [tl] in Hr. rewrite a64_pairs_regs in Hr. exact Hr.
    - rewrite <- (a64_pairs_regs gp_ids 0). destruct (a64_pairs gp_ids 0 16) as [|p r']; [destruct Hr|].
      cbn [tl] in Hr. cbn [pairs_regs flat_map]. apply in_or_app. right. exact Hr. }
  split.
  - intros Hfp Hin. apply Hsub, gp_ids_In in Hin. destruct Hin as [_ [H _]]. destruct (H Hfp). congruence.
  - intros Hin. apply Hsub, gp_ids_In in Hin. lia.
Qed.

Theorem a64_prolog_correct s0 :
  st_ret s0 = None -> st_reg s0 0 31 mod 16 = 0 ->
  exists s1, run A64 (fst (prolog f o)) s0 = Some s1 /\ a64_post s0 s1 /\ snd (prolog f o) = true.
Proof.
  intros Hret Hal. set (sp0 := st_reg s0 0 31) in *.
  destruct total_mod as [Htm [Hgm [Hg0 Hgt]]]. destruct adj_facts as [Ha0 [Ham _]].
  set (spn := sp0 - total).
  assert (Hspn : spn mod 16 = 0) by (unfold spn; apply sub_mod_0; auto; lia).
  assert (Hspn_eq : spn + gpt + 16 * Z.of_nat (length vps) = sp0) by (unfold spn, total; lia).
  assert (Hgpt_eq : gpt = 16 * Z.of_nat (length gps)) by reflexivity.
  rewrite a64_prolog_segs. rewrite run_app.
  match goal with |- context [run A64 ?l s0] => assert (Hibp : run A64 l s0 = Some s0) end.
  { destruct (fi_ibp f); [|reflexivity]. cbn [run]. unfold step. rewrite Hret. reflexivity. }
  rewrite Hibp.
  destruct tl_gps_regs as [T29 T31].
  (* GP group *)
  destruct (run_group_opt 0 gps 0 s0 spn gps_seq ltac:(lia)) as [sG [HrunG [HspG [HregG [HfpG [HretG [HmemG HslG]]]]]]]; auto.
  { intros Hne _. unfold total, gpt. revert Hne. destruct gps; intros Hne; [exfalso; apply Hne; reflexivity|]. cbn [length]. lia. }
  { intros _. cbn [Z.eqb]. unfold spn. lia. }
  rewrite run_app, HrunG.
  (* vector group *)
  assert (HspG' : gps <> [] -> st_reg sG 0 31 = spn) by (intros H; rewrite HspG; destruct gps; [congruence|reflexivity]).
  assert (HspG0 : gps = [] -> st_reg sG 0 31 = sp0) by (intros H; rewrite HspG, H; reflexivity).
  assert (Hgpt0 : gpt = 0 <-> gps = []).
  { unfold gpt. split; intros H; [destruct gps; [auto|cbn [length] in H; lia] | rewrite H; reflexivity]. }
  destruct (run_group_opt 1 vps gpt sG spn vps_seq ltac:(lia)) as [sV [HrunV [HspV [HregV [HfpV [HretV [HmemV HslV]]]]]]]; auto.
  { intros Hne Hg. unfold total. revert Hne. destruct vps; intros Hne; [exfalso; apply Hne; reflexivity|]. cbn [length]. lia. }
  { intros Hne. destruct (Z.eqb_spec gpt 0) as [E|E].
    - rewrite HspG0 by (apply Hgpt0; auto). unfold spn. lia.
    - apply HspG'. intros H. apply E. apply Hgpt0. auto. }
  { intros; discriminate. }
  { intros; discriminate. }
  rewrite run_app, HrunV.
  assert (HspV' : st_reg sV 0 31 = spn).
  { rewrite HspV. destruct vps eqn:Ev; [|reflexivity].
    destruct gps eqn:Eg; [|apply HspG'; first [discriminate | rewrite Eg; discriminate]].
    rewrite HspG0 by auto. unfold spn, total, gpt. rewrite ?Eg, ?Ev. cbn [length]. lia. }
  (* SA register (fixed tree) *)
  destruct (run_sa_init sV HretV) as [sS [HrunS [HregS [HsaS [HmemS HretS]]]]].
  rewrite run_app, HrunS.
  assert (HspS : st_reg sS 0 31 = spn).
  { rewrite HregS; [exact HspV'|]. intros Hne E. inversion E. congruence. }
  (* stack adjustment *)
  destruct (run_adjust true (fo_stack_adj o) sS ltac:(split; [exact Ha0 | exact HADJ]) HretS) as [s1 [Hrun1 [Hsp1 [Hreg1 [Hmem1 [Hret1 Hok]]]]]].
  rewrite Hrun1. exists s1. split; [reflexivity|]. split.
  2:{ unfold prolog. rewrite HA. unfold a64_prolog. destruct (a64_adjust true (fo_stack_adj o)); exact Hok. }
  constructor; fold sp0; fold spn.
  - rewrite Hsp1, HspS. unfold a64_sp_body, spn. reflexivity.
  - exact Hret1.
  - intros Hfp. rewrite Hreg1 by congruence.
    assert (Hgne : gps <> []) by (intros E; apply gps_nil_fp in E; congruence).
    assert (HfpV29 : st_reg sV 0 29 = spn).
    { destruct (list_eq_dec_nil vps) as [Ev|Ev].
      + rewrite HregV; [apply HfpG; auto | congruence | intros C; contradiction].
      + apply HfpV; auto. }
    destruct (Z.eq_dec (fin_sa f) 29) as [E29|E29].
    + destruct (Z.eq_dec (fin_sa f) 31) as [E31|E31]; [congruence|].
      (* sa = x29 and FP preserved: no extra mov, x29 keeps sp *)
      unfold a64_sa_init in HrunS. change (fo_sa_reg o) with (fin_sa f) in HrunS. rewrite E29, Hfp in HrunS.
      cbn [Z.eqb Pos.eqb andb negb] in HrunS. rewrite !andb_false_r in HrunS. cbn [run] in HrunS. inversion HrunS; subst sS. exact HfpV29.
    + rewrite HregS; [exact HfpV29|]. intros _ E. inversion E. congruence.
  - intros g r H31 H29 Hsa. rewrite Hreg1, HregS, HregV, HregG; auto.
  - intros Hne. rewrite Hreg1 by (intros E; inversion E; congruence).
    destruct (Z.eq_dec (fin_sa f) 29) as [E29|E29].
    + destruct (fi_has_fp f) eqn:Hfp.
      * unfold a64_sa_init in HrunS. change (fo_sa_reg o) with (fin_sa f) in HrunS. rewrite E29, Hfp in HrunS.
        cbn [Z.eqb Pos.eqb andb negb] in HrunS. rewrite !andb_false_r in HrunS. cbn [run] in HrunS. inversion HrunS; subst sS.
        rewrite E29. destruct (list_eq_dec_nil vps) as [Ev|Ev].
        -- rewrite HregV; [apply HfpG; auto | congruence | intros C; contradiction].
           intros E. apply gps_nil_fp in E. congruence.
        -- apply HfpV; auto.
      * rewrite HsaS; auto. discriminate.
    + rewrite HsaS; auto.
  - intros z Hz. rewrite Hmem1, HmemS. rewrite (HmemV z) by lia. apply HmemG. lia.
  - intros i x oy off Hn. assert (Hlt : (i < length gps)%nat) by (apply nth_error_Some; congruence).
    destruct (HslG i x oy off Hn) as [A B]. rewrite Z.add_0_r in A, B. split.
    + eapply holds_ext; [|exact A]. intros z Hz. rewrite Hmem1, HmemS. apply HmemV. lia.
    + intros y Hy. eapply holds_ext; [|exact (B y Hy)]. intros z Hz. rewrite Hmem1, HmemS. apply HmemV. lia.
  - intros i x oy off Hn. destruct (HslV i x oy off Hn) as [A B].
    assert (Ereg : forall r, st_reg sG 1 r = st_reg s0 1 r) by (intros r; apply HregG; intros; congruence).
    rewrite Ereg in A. rewrite Hmem1, HmemS. replace (spn + gpt + 16 * Z.of_nat i) with (sp0 - total + gpt + 16 * Z.of_nat i) in * by (unfold spn; lia).
    split; auto. intros y Hy. specialize (B y Hy). rewrite Ereg in B. exact B.
Qed.

(* ------------------------------------------------------------------ loads of one group (reverse order, last one post-indexed) *)
Lemma pairs_regs_rev (ps : list pair) r : In r (pairs_regs (rev ps)) <-> In r (pairs_regs ps).
Proof.
  unfold pairs_regs. rewrite !in_flat_map. split; intros [p [Hp Hr]]; exists p; split; auto; apply in_rev; auto.
  rewrite rev_involutive. exact Hp.
Qed.

Lemma pairs_regs_rev1 (ps : list pair) r : In r (pairs_regs (rev ps)) -> In r (pairs_regs ps).
Proof. apply pairs_regs_rev. Qed.
Lemma pairs_regs_rev2 (ps : list pair) r : In r (pairs_regs ps) -> In r (pairs_regs (rev ps)).
Proof. apply pairs_regs_rev. Qed.

Lemma run_group_loads g (val : Z -> Z) ps base s spn :
  pairs_seq ps base -> 0 <= base -> (ps <> [] -> base = 0 -> total <> 0) ->
  st_ret s = None -> spn mod 16 = 0 -> st_reg s 0 31 = spn ->
  (g = 0 -> ~ In 31 (pairs_regs ps)) ->
  (forall i x oy off, nth_error ps i = Some (x, oy, off) ->
     holds (st_mem s) (spn + base + 16 * Z.of_nat i) 8 (val x) /\
     forall y, oy = Some y -> holds (st_mem s) (spn + base + 16 * Z.of_nat i + 8) 8 (val y)) ->
  exists s', run A64 (map (a64_pair_inst false g total) (rev ps)) s = Some s' /\
    st_reg s' 0 31 = (if (base =? 0) && match ps with [] => false | _ => true end then spn + total else spn) /\
    (forall r, In r (pairs_regs ps) -> st_reg s' g r = val r) /\
    (forall g' r, (g', r) <> (0, 31) -> (g' = g -> ~ In r (pairs_regs ps)) -> st_reg s' g' r = st_reg s g' r) /\
    st_mem s' = st_mem s /\ st_ret s' = None.
Proof.
  intros Hseq Hb Htot Hret Hspn Hsp H31 Hsl.
  destruct ps as [|[[x oy] off] rest].
  - exists s. cbn [rev map run]. rewrite andb_false_r. splits; auto. intros r [].
  - assert (E : off = base) by (destruct Hseq; auto). subst off. destruct Hseq as [_ Hseq].
    cbn [rev]. rewrite map_app, run_app.
    (* fixed loads of the remaining pairs *)
    assert (Hal : st_reg s 0 31 mod 16 = 0) by (rewrite Hsp; auto).
    destruct (run_loads_fixed g total val (rev rest) s Hret Hal) as [s1 [Hrun1 [Hv1 [Hr1 [Hm1 Hret1]]]]].
    { intros Hg Hin. apply (H31 Hg). apply pairs_regs_rev1 in Hin. cbn [pairs_regs flat_map]. apply in_or_app. right. exact Hin. }
    { intros x' oy' off' Hin. apply in_rev in Hin. apply In_nth_error in Hin. destruct Hin as [i Hi].
      pose proof (pairs_seq_nth rest (base + 16) i x' oy' off' Hseq Hi) as Eoff.
      destruct (Hsl (S i) x' oy' off' Hi) as [A B]. rewrite Hsp.
      replace (spn + off') with (spn + base + 16 * Z.of_nat (S i)) by lia. split; [lia|]. split; auto. }
    rewrite Hrun1.
    assert (Hx31 : g = 0 -> x <> 31 /\ forall y, oy = Some y -> y <> 31).
    { intros Hg. specialize (H31 Hg). cbn [pairs_regs flat_map pair_regs] in H31. split.
      - intros ->. apply H31. destruct oy; cbn; auto.
      - intros y -> ->. apply H31. cbn. auto. }
    assert (Hnr : g = 0 -> ~ In 31 (pairs_regs (rev rest))).
    { intros Hg Hin. apply (H31 Hg). apply pairs_regs_rev1 in Hin. cbn [pairs_regs flat_map]. apply in_or_app. right. exact Hin. }
    assert (Hsp1 : st_reg s1 0 31 = spn).
    { rewrite Hr1; [exact Hsp|]. intros Hg. symmetry in Hg. apply Hnr; auto. }
    destruct (Hsl 0%nat x oy base eq_refl) as [A B]. rewrite Z.mul_0_r, Z.add_0_r in A, B.
    cbn [map run].
    assert (Etot : (base =? 0) && negb (total =? 0) = (base =? 0)).
    { destruct (Z.eqb_spec base 0) as [E|E]; [|reflexivity]. cbn [andb]. destruct (Z.eqb_spec total 0) as [E2|E2]; [|reflexivity].
      exfalso. apply Htot; auto. discriminate. }
    rewrite (step_pair_load total g x oy base s1 (val x) (match oy with Some y => val y | None => 0 end) Hret1 ltac:(rewrite Hsp1; auto)).
    2:{ cbv zeta. rewrite Etot, Hsp1, Hm1. destruct (Z.eqb_spec base 0) as [E|E]; [rewrite E, Z.add_0_r in A|]; exact A. }
    2:{ cbv zeta. rewrite Etot, Hsp1, Hm1. intros y ->. specialize (B y eq_refl).
        destruct (Z.eqb_spec base 0) as [E|E]; [rewrite E, Z.add_0_r in B|]; exact B. }
    cbv zeta. rewrite Etot, Hsp1.
    set (s2 := match oy with Some y => _ | None => _ end).
    assert (Hs2v : forall r, In r (pair_regs (x, oy, base)) -> st_reg s2 g r = val r).
    { intros r Hr. unfold s2. destruct oy as [y|]; cbn [pair_regs In] in Hr.
      - destruct (Z.eq_dec r y) as [->|Hne]; [apply reg_set_same|]. rewrite reg_set_other_r by auto.
        destruct Hr as [<-|[<-|[]]]; [apply reg_set_same | congruence].
      - destruct Hr as [<-|[]]. apply reg_set_same. }
    assert (Hs2o : forall g' r, (g' = g -> ~ In r (pair_regs (x, oy, base))) -> st_reg s2 g' r = st_reg s1 g' r).
    { intros g' r Hn. unfold s2. destruct oy as [y|]; cbn [pair_regs In] in Hn.
      - rewrite !reg_set_other; auto; intros E; inversion E; subst; apply Hn; auto.
      - rewrite reg_set_other; auto. intros E; inversion E; subst. apply Hn; auto. }
    assert (Hs2sp : st_reg s2 0 31 = spn).
    { rewrite Hs2o; auto. intros Hg Hin. symmetry in Hg. destruct (Hx31 Hg) as [X Y].
      destruct oy as [y|]; cbn [pair_regs In] in Hin; [destruct Hin as [E|[E|[]]] | destruct Hin as [E|[]]]; try congruence.
      apply (Y y); auto. }
    assert (Hs2m : st_mem s2 = st_mem s) by (unfold s2; destruct oy; exact Hm1).
    assert (Hs2r : st_ret s2 = None) by (unfold s2; destruct oy; cbn; auto).
    eexists. split; [reflexivity|]. rewrite andb_true_r.
    assert (Hfin : forall g' r, (g', r) <> (0, 31) ->
                   st_reg (if base =? 0 then set_reg s2 0 31 (spn + total) else s2) g' r = st_reg s2 g' r).
    { intros g' r Hne. destruct (base =? 0); [apply reg_set_other; auto | reflexivity]. }
    splits.
    + destruct (base =? 0); [apply reg_set_same | exact Hs2sp].
    + intros r Hr. cbn [pairs_regs flat_map] in Hr. apply in_app_or in Hr.
      assert (N : (g, r) <> (0, 31)).
      { intros E; inversion E; subst. apply (H31 eq_refl). cbn [pairs_regs flat_map]. apply in_or_app. exact Hr. }
      rewrite Hfin by auto.
      destruct (in_dec Z.eq_dec r (pair_regs (x, oy, base))) as [Hi|Hi]; [apply Hs2v; auto|].
      destruct Hr as [Hr|Hr]; [contradiction|]. rewrite Hs2o by (intros _; exact Hi). apply Hv1. apply pairs_regs_rev2. exact Hr.
    + intros g' r Hne Hn. rewrite Hfin by auto. rewrite Hs2o.
      * apply Hr1. intros Hg Hin. apply (Hn Hg). apply pairs_regs_rev1 in Hin. cbn [pairs_regs flat_map]. apply in_or_app. right; auto.
      * intros Hg Hin. apply (Hn Hg). cbn [pairs_regs flat_map]. apply in_or_app. left; auto.
    + destruct (base =? 0); exact Hs2m.
    + destruct (base =? 0); cbn; exact Hs2r.
Qed.

(* ------------------------------------------------------------------ body and epilog *)
Definition a64_may_write (sp0 z : Z) : Prop :=
  let spb := a64_sp_body sp0 in
  z < spb \/ spb <= z < spb + fi_call_size f \/
  spb + fo_local_off o <= z < spb + fo_local_off o + fi_local_size f \/ sp0 <= z.

Record a64_body_ok (s0 s1 s2 : state) : Prop := mk_a64_bok {
  ab_ret : st_ret s2 = None;
  ab_sp : st_reg s2 0 31 = st_reg s1 0 31;
  ab_fp : has_fp = true -> st_reg s2 0 29 = st_reg s1 0 29;
  ab_regs : forall g r, Z.testbit (qget (fo_dirty o) g) r = false -> Z.testbit (qget (cc_preserved cc) g) r = true -> st_reg s2 g r = st_reg s1 g r;
  ab_mem : forall z, ~ a64_may_write (st_reg s0 0 31) z -> st_mem s2 z = st_mem s1 z
}.

Lemma a64_epilog_segs :
  snd (a64_adjust false (fo_stack_adj o)) = true ->
  fst (epilog f o) = fst (a64_adjust false (fo_stack_adj o)) ++ map (a64_pair_inst false 1 total) (rev vps) ++
                     map (a64_pair_inst false 0 total) (rev gps) ++ [(Mret, [a64_reg 0 30])].
Proof.
  intros H. unfold epilog. rewrite HA. unfold a64_epilog. rewrite total_eq. fold gps vps.
  destruct (a64_adjust false (fo_stack_adj o)) as [l ok]. cbn [snd] in H. rewrite H. reflexivity.
Qed.

Lemma m0_in_gps r : Z.testbit m0 r = true -> In r (pairs_regs gps).
Proof.
  intros H. pose proof (m0_bits r H) as Hr. rewrite gps_regs. unfold gp_ids. destruct (fi_has_fp f).
  - destruct (Z.eq_dec r 29) as [->|N29]; [left; auto|]. destruct (Z.eq_dec r 30) as [->|N30]; [right; left; auto|].
    right; right. apply bits_of_In. split; [cbn; lia|]. rewrite !clear_bit_testbit by lia. rewrite H.
    destruct (Z.eqb_spec r 29); [congruence|]. destruct (Z.eqb_spec r 30); [congruence|]. reflexivity.
  - apply bits_of_In. split; [cbn; lia | exact H].
Qed.

Lemma gps_in_m0 r : In r (pairs_regs gps) -> Z.testbit m0 r = true /\ 0 <= r < 31.
Proof.
  rewrite gps_regs. intros H.
  assert (Hm : Z.testbit m0 r = true).
  { destruct (fi_has_fp f) eqn:Hfp.
    - destruct (m0_fp Hfp) as [A B]. destruct H as [<-|[<-|H]]; auto. apply gp_ids_In in H. tauto.
    - apply gp_ids_In in H. tauto. }
  split; auto. apply m0_bits; auto.
Qed.

Theorem a64_epilog_correct s0 s1 s2 :
  let sp0 := st_reg s0 0 31 in
  a64_post s0 s1 -> a64_body_ok s0 s1 s2 -> sp0 mod 16 = 0 -> 0 <= st_reg s0 0 30 < 2 ^ 64 ->
  exists s3, run A64 (fst (epilog f o)) s2 = Some s3 /\ snd (epilog f o) = true /\
    st_ret s3 = Some (st_reg s0 0 30) /\ st_reg s3 0 31 = sp0 /\
    (forall g r, Z.testbit (qget (cc_preserved cc) g) r = true ->
                 trunc (qget (cc_srsize cc) g) (st_reg s3 g r) = trunc (qget (cc_srsize cc) g) (st_reg s0 g r)) /\
    st_mem s3 = st_mem s2 /\
    (forall g r, (g, r) <> (0, 31) -> Z.testbit (saved_regs f o g) r = false -> st_reg s3 g r = st_reg s2 g r).
Proof.
  intros sp0 PP BO Hal Hlr.
  destruct PP as [Qsp Qret Qfp Qregs Qsa Qmem Qgp Qvec]. fold sp0 in Qsp, Qfp, Qmem, Qgp, Qvec.
  destruct BO as [Bret Bsp Bfp Bregs Bmem]. fold sp0 in Bmem.
  destruct total_mod as [Htm [Hgm [Hg0 Hgt]]]. destruct adj_facts as [Ha0 [Ham [Hloc Hcall]]].
  set (spn := sp0 - total).
  assert (Hspn : spn mod 16 = 0) by (unfold spn; apply sub_mod_0; auto; lia).
  assert (Hspn_eq : spn + gpt + 16 * Z.of_nat (length vps) = sp0) by (unfold spn, total; lia).
  assert (Hgpt_eq : gpt = 16 * Z.of_nat (length gps)) by reflexivity.
  assert (Hspb : a64_sp_body sp0 = spn - fo_stack_adj o) by (unfold a64_sp_body, spn; lia).
  pose proof (wi_lsize f WF) as Hls.
  (* protected memory is intact *)
  assert (T : forall b n v, spn <= b -> b + n <= sp0 -> holds (st_mem s1) b n v -> holds (st_mem s2) b n v).
  { intros b n v H1 H2 Hh. eapply holds_ext; [|exact Hh]. intros z Hz. apply Bmem.
    unfold a64_may_write. cbv zeta. rewrite Hspb. intros [C|[C|[C|C]]]; lia. }
  (* 1. add sp *)
  destruct (run_adjust false (fo_stack_adj o) s2 ltac:(split; [exact Ha0 | exact HADJ]) Bret) as [t1 [Hrun1 [Hsp1 [Hreg1 [Hmem1 [Hret1 Hok]]]]]].
  rewrite (a64_epilog_segs Hok). rewrite run_app, Hrun1.
  assert (Hsp1' : st_reg t1 0 31 = spn) by (rewrite Hsp1, Bsp, Qsp, Hspb; lia).
  (* 2. vector loads *)
  assert (Hgpt0 : gpt = 0 <-> gps = []).
  { unfold gpt. split; intros H; [destruct gps; [auto|cbn [length] in H; lia] | rewrite H; reflexivity]. }
  destruct (run_group_loads 1 (fun r => trunc 8 (st_reg s0 1 r)) vps gpt t1 spn vps_seq ltac:(lia)) as [t2 [Hrun2 [Hsp2 [Hv2 [Hr2 [Hm2 Hret2]]]]]]; auto.
  { intros Hne Hg. unfold total. revert Hne. destruct vps; intros Hne; [exfalso; apply Hne; reflexivity|]. cbn [length]. lia. }
  { intros; discriminate. }
  { intros i x oy off Hn. assert (Hlt : (i < length vps)%nat) by (apply nth_error_Some; congruence).
    destruct (Qvec i x oy off Hn) as [A B]. rewrite Hmem1.
    replace (spn + gpt + 16 * Z.of_nat i) with (sp0 - total + gpt + 16 * Z.of_nat i) by (unfold spn; lia).
    split; [apply T; auto; unfold spn; lia|]. intros y Hy. apply T; [unfold spn; lia | unfold spn; lia | apply B; auto]. }
  rewrite run_app, Hrun2.
  (* 3. GP loads *)
  assert (Hm_t2 : st_mem t2 = st_mem s2) by (rewrite Hm2; exact Hmem1).
  assert (G : exists t3, run A64 (map (a64_pair_inst false 0 total) (rev gps)) t2 = Some t3 /\
              st_reg t3 0 31 = sp0 /\
              (forall r, In r (pairs_regs gps) -> st_reg t3 0 r = trunc 8 (st_reg s0 0 r)) /\
              (forall g' r, (g', r) <> (0, 31) -> (g' = 0 -> ~ In r (pairs_regs gps)) -> st_reg t3 g' r = st_reg t2 g' r) /\
              st_ret t3 = None /\ st_mem t3 = st_mem t2).
  { destruct (list_eq_dec_nil gps) as [Eg|Eg].
    - exists t2. rewrite Eg. cbn [rev map run]. splits; auto.
      + rewrite Hsp2. apply Hgpt0 in Eg. rewrite Eg. cbn [Z.eqb andb].
        destruct vps eqn:Ev; [cbn [length] in Hspn_eq; lia | unfold spn; lia].
      + intros r [].
    - assert (Hsp2' : st_reg t2 0 31 = spn).
      { rewrite Hsp2. destruct (Z.eqb_spec gpt 0) as [E|E]; [apply Hgpt0 in E; contradiction | reflexivity]. }
      destruct (run_group_loads 0 (fun r => trunc 8 (st_reg s0 0 r)) gps 0 t2 spn gps_seq ltac:(lia)) as [t3 [Hrun3 [Hsp3 [Hv3 [Hr3 [Hm3 Hret3]]]]]]; auto.
      { intros Hne _. unfold total, gpt. revert Hne. destruct gps; intros Hne; [exfalso; apply Hne; reflexivity|]. cbn [length]. lia. }
      { intros _ Hin. apply gps_in_m0 in Hin. lia. }
      { intros i x oy off Hn. assert (Hlt : (i < length gps)%nat) by (apply nth_error_Some; congruence).
        destruct (Qgp i x oy off Hn) as [A B]. rewrite Hm_t2. rewrite Z.add_0_r.
        replace (spn + 16 * Z.of_nat i) with (sp0 - total + 16 * Z.of_nat i) by (unfold spn; lia).
        split; [apply T; auto; unfold spn; lia|]. intros y Hy. apply T; [unfold spn; lia | unfold spn; lia | apply B; auto]. }
      exists t3. split; [exact Hrun3|]. splits; auto.
      rewrite Hsp3. cbn [Z.eqb andb]. revert Eg. destruct gps; intros Eg'; [exfalso; apply Eg'; reflexivity | unfold spn; lia]. }
  destruct G as [t3 [Hrun3 [Hsp3 [Hv3 [Hr3 [Hret3 Hm3']]]]]].
  rewrite run_app, Hrun3.
  (* 4. ret *)
  cbn [run]. unfold step. rewrite Hret3. cbn [a64_step a64_reg].
  eexists. split; [reflexivity|]. split.
  { unfold epilog. rewrite HA. unfold a64_epilog. destruct (a64_adjust false (fo_stack_adj o)) as [l ok]. cbn [snd] in Hok. rewrite Hok. reflexivity. }
  (* registers never touched: preserved and not dirty *)
  assert (Hsaved_dirty : forall g' r', Z.testbit (saved_regs f o g') r' = true -> Z.testbit (qget (fo_dirty o) g') r' = true).
  { intros g' r' H. unfold saved_regs in H. rewrite Z.land_spec in H. apply andb_true_iff in H. tauto. }
  assert (Hfp29 : has_fp = true -> Z.testbit (qget (fo_dirty o) 0) 29 = true).
  { intros Hfp. apply (Hsaved_dirty 0 29). apply (m0_fp Hfp). }
  assert (U : forall g r, (g, r) <> (0, 31) -> Z.testbit (qget (fo_dirty o) g) r = false -> Z.testbit (qget (cc_preserved cc) g) r = true ->
              st_reg t3 g r = st_reg s0 g r).
  { intros g r N31 Hd Hpr.
    assert (N29 : has_fp = true -> (g, r) <> (0, 29)) by (intros Hfp E; inversion E; subst; rewrite (Hfp29 Hfp) in Hd; discriminate).
    assert (NSA : fin_sa f <> 31 -> (g, r) <> (0, fin_sa f)).
    { intros Hne E; inversion E; subst. change (qget (fo_dirty o) 0) with (q0 (fin_dirty f)) in Hd. rewrite (dirty0_sa_bit Hne) in Hd. discriminate. }
    rewrite Hr3; auto.
    - rewrite Hr2; auto.
      + rewrite Hreg1 by auto. rewrite Bregs by auto. apply Qregs; auto.
      + intros -> Hin. rewrite vps_regs in Hin. unfold vec_ids in Hin. apply bits_of_In in Hin. destruct Hin as [_ Hin].
        apply (Hsaved_dirty 1 r) in Hin. congruence.
    - intros -> Hin. apply gps_in_m0 in Hin. destruct Hin as [Hin _]. apply (Hsaved_dirty 0 r) in Hin. congruence. }
  destruct a64_cc as [_ [_ [_ [_ [Hp0 [Hp29 [Hp30 [Hp1 [Hp2 Hp3]]]]]]]]].
  splits.
  - cbn [set_ret st_ret st_reg]. f_equal.
    destruct (Z.testbit (qget (fo_dirty o) 0) 30) eqn:Hd.
    + assert (Hin : In 30 (pairs_regs gps)).
      { apply m0_in_gps. unfold m0, saved_regs. rewrite Z.land_spec, Hd. exact Hp30. }
      rewrite (Hv3 30 Hin). apply trunc_small'. exact Hlr.
    + apply U; [congruence | exact Hd | exact Hp30].
  - cbn [set_ret st_reg]. exact Hsp3.
  - intros g r Hp. cbn [set_ret st_reg].
    assert (Hg : g = 0 \/ g = 1).
    { unfold qget in Hp. destruct (Z.eqb_spec g 0); auto. destruct (Z.eqb_spec g 1); auto.
      destruct (Z.eqb_spec g 2); [rewrite Hp2, Z.testbit_0_l in Hp; discriminate|].
      destruct (Z.eqb_spec g 3); [rewrite Hp3, Z.testbit_0_l in Hp; discriminate|]. rewrite Z.testbit_0_l in Hp. discriminate. }
    assert (Hr0 : 0 <= r) by (destruct (Z_lt_le_dec r 0); auto; rewrite Z.testbit_neg_r in Hp by lia; discriminate).
    destruct (Z.testbit (qget (fo_dirty o) g) r) eqn:Hd.
    + assert (Hs : Z.testbit (saved_regs f o g) r = true) by (unfold saved_regs; rewrite Z.land_spec, Hd; exact Hp).
      destruct Hg as [-> | ->].
      * rewrite srs0. rewrite (Hv3 r (m0_in_gps r Hs)). apply trunc_idem'. lia.
      * assert (HV8 : qget (cc_srsize cc) 1 = 8).
        { destruct HV as [H|H]; [exact H|]. exfalso. change (saved_regs f o 1) with (fin_saved f 1) in Hs. rewrite H, Z.bits_0 in Hs. discriminate. }
        rewrite HV8.
        assert (Hr32 : r < 32).
        { destruct (Z_lt_le_dec r 32); auto. cbn [qget Z.eqb Pos.eqb] in Hp. rewrite (testbit_above _ 32 r Hp1) in Hp by lia. discriminate. }
        assert (Hin : In r (pairs_regs vps)) by (rewrite vps_regs; unfold vec_ids, m1; apply bits_of_In; split; [cbn; lia | exact Hs]).
        rewrite Hr3 by (try congruence; intros; discriminate). rewrite (Hv2 r Hin). apply trunc_idem'. lia.
    + assert (N31 : (g, r) <> (0, 31)).
      { intros E; inversion E; subst. cbn [qget Z.eqb] in Hp. rewrite (testbit_above _ 31 31 Hp0) in Hp by lia. discriminate. }
      rewrite (U g r N31 Hd Hp). reflexivity.
  - cbn [set_ret st_mem]. rewrite Hm3'. exact Hm_t2.
  - intros g r N31 Hns. cbn [set_ret st_reg].
    rewrite Hr3; auto.
    + rewrite Hr2; auto.
      intros -> Hin. rewrite vps_regs in Hin. unfold vec_ids in Hin. apply bits_of_In in Hin. destruct Hin as [_ Hin].
      unfold m1 in Hin. congruence.
    + intros -> Hin. apply gps_in_m0 in Hin. destruct Hin as [Hin _]. unfold m0 in Hin. congruence.
Qed.

(* ------------------------------------------------------------------ sizes: PrologEpilogInfo agrees with finalize *)
Lemma align_up_add16 x : align_up (x + 16) 16 = align_up x 16 + 16.
Proof.
  unfold align_up. replace (x + 16 + 16 - 1) with (x + 16 - 1 + 1 * 16) by lia. rewrite Z.div_add by lia. lia.
Qed.

Lemma pairs_len ids : forall off, 16 * Z.of_nat (length (a64_pairs ids off 16)) = align_up (8 * Z.of_nat (length ids)) 16.
Proof.
  induction ids as [|x|x y l IH] using list_ind2; intros off.
  - reflexivity.
  - reflexivity.
  - cbn [a64_pairs length]. rewrite !Nat2Z.inj_succ. specialize (IH (off + 16)).
    replace (8 * Z.succ (Z.succ (Z.of_nat (length l)))) with (8 * Z.of_nat (length l) + 16) by lia.
    rewrite align_up_add16. lia.
Qed.

Lemma total_pp : total = fin_pp f.
Proof.
  unfold fin_pp. rewrite HA. cbn [map fold_right has_push_pop Z.eqb Pos.eqb orb]. unfold fin_group_size. fold cc.
  destruct a64_cc as [_ [Hal' _]]. rewrite Hal'. cbn [qget Z.eqb Pos.eqb q0 q1]. rewrite !Z.add_0_r.
  change (q0 (cc_srsize cc)) with (qget (cc_srsize cc) 0). rewrite srs0. change (q1 (cc_srsize cc)) with (qget (cc_srsize (fi_cc f)) 1). rewrite vec_term.
  unfold total. f_equal.
  - unfold gpt. rewrite gps_eq. unfold popcnt. change (fin_saved f 0) with m0.
    destruct (fi_has_fp f) eqn:Hfp.
    + destruct (m0_fp Hfp) as [A B]. cbn [length]. rewrite Nat2Z.inj_succ.
      replace (16 * Z.succ (Z.of_nat (length (a64_pairs gp_ids 16 16)))) with (16 * Z.of_nat (length (a64_pairs gp_ids 16 16)) + 16) by lia.
      rewrite pairs_len. rewrite <- align_up_add16. f_equal. unfold gp_ids. rewrite Hfp.
      rewrite (bits_of_clear_length 32 m0 29) by (cbn; auto; lia).
      rewrite (bits_of_clear_length 32 (clear_bit m0 29) 30); [lia | cbn; lia |].
      rewrite clear_bit_testbit by lia. rewrite B. reflexivity.
    + rewrite pairs_len. unfold gp_ids. rewrite Hfp. f_equal. lia.
  - rewrite vps_eq, pairs_len. unfold popcnt, vec_ids. change (fin_saved f 1) with m1. f_equal. lia.
Qed.

(* sp-relative stack arguments *)
Lemma a64_stack_args_sp sp0 : a64_sp_body sp0 + fo_sa_from_sp o = sp0.
Proof.
  change (fo_sa_from_sp o) with (if fin_has_da f then -1 else (if has_link_reg (fi_arch f) then fo_final_size o else fo_final_size o + qget (cc_srsize cc) 0)).
  rewrite HNDA, HA. cbn [has_link_reg].
  pose proof (layout_chain f WF) as L. cbv zeta in L. fold o in L.
  destruct L as [_ [_ [_ [_ [_ [_ [Hfin [_ [Hnda _]]]]]]]]]. change (fo_has_da o) with (fin_has_da f) in Hnda. specialize (Hnda HNDA).
  unfold a64_sp_body. rewrite total_pp. change (fo_push_pop_size o) with (fin_pp f) in Hfin. lia.
Qed.

(* fixed tree (fixes/C07-a64-sa-register.patch): FP-relative stack arguments are exact *)
Lemma a64_stack_args_fp s0 s1 : fi_sa_fix f = true -> has_fp = true -> a64_post s0 s1 ->
  st_reg s1 0 29 + fo_sa_from_sa o = st_reg s0 0 31.
Proof.
  intros Hv Hfp PP. rewrite (aq_fp _ _ PP Hfp).
  change (fo_sa_from_sa o) with (if fi_has_fp f && negb (fi_sa_fix f && has_link_reg (fi_arch f))
                                 then (if has_link_reg (fi_arch f) then 0 else qget (cc_srsize cc) 0) + qget (cc_srsize cc) 0
                                 else (if has_link_reg (fi_arch f) then 0 else qget (cc_srsize cc) 0) + fin_pp f).
  rewrite Hv, Hfp, HA. cbn [has_link_reg andb negb]. rewrite total_pp. lia.
Qed.

(* fixed tree: stack arguments relative to a user-chosen SA register *)
Lemma a64_stack_args_sa s0 s1 : fin_sa f <> 31 -> a64_post s0 s1 ->
  st_reg s1 0 (fin_sa f) + fo_sa_from_sa o = st_reg s0 0 31.
Proof.
  intros Hne PP. rewrite (aq_sa _ _ PP Hne). destruct a64_sa as [?|[_ Hv]]; [congruence|].
  change (fo_sa_from_sa o) with (if fi_has_fp f && negb (fi_sa_fix f && has_link_reg (fi_arch f))
                                 then (if has_link_reg (fi_arch f) then 0 else qget (cc_srsize cc) 0) + qget (cc_srsize cc) 0
                                 else (if has_link_reg (fi_arch f) then 0 else qget (cc_srsize cc) 0) + fin_pp f).
  rewrite Hv, HA. cbn [has_link_reg andb negb]. rewrite andb_false_r. rewrite total_pp. lia.
Qed.

Lemma a64_sp_body_aligned sp0 : sp0 mod 16 = 0 -> a64_sp_body sp0 mod fo_final_align o = 0.
Proof.
  intros H. destruct total_mod as [Htm _]. destruct adj_facts as [_ [Ham _]].
  assert (Hsal : fo_final_align o = 16).
  { change (fo_final_align o) with (final_alignment f). destruct a64_cc as [Hn _]. apply sal_natural_or_da_gen; auto. }
  rewrite Hsal. unfold a64_sp_body. apply sub_mod_0; [lia| |exact Ham]. apply sub_mod_0; auto; lia.
Qed.

(* ------------------------------------------------------------------ prolog ; body ; epilog *)
Theorem a64_roundtrip_sec s0 :
  let sp0 := st_reg s0 0 31 in
  st_ret s0 = None -> sp0 mod 16 = 0 -> 0 <= st_reg s0 0 30 < 2 ^ 64 ->
  exists s1, run A64 (fst (prolog f o)) s0 = Some s1 /\ snd (prolog f o) = true /\
    st_reg s1 0 31 = a64_sp_body sp0 /\ st_ret s1 = None /\
    a64_sp_body sp0 mod fo_final_align o = 0 /\ a64_sp_body sp0 + fo_sa_from_sp o = sp0 /\
    (fi_sa_fix f = true -> has_fp = true -> st_reg s1 0 29 + fo_sa_from_sa o = sp0) /\
    (fin_sa f <> 31 -> st_reg s1 0 (fin_sa f) + fo_sa_from_sa o = sp0) /\
    forall s2, a64_body_ok s0 s1 s2 ->
      exists s3, run A64 (fst (epilog f o)) s2 = Some s3 /\ snd (epilog f o) = true /\
        st_ret s3 = Some (st_reg s0 0 30) /\ st_reg s3 0 31 = sp0 /\
        (forall g r, Z.testbit (qget (cc_preserved cc) g) r = true ->
                     trunc (qget (cc_srsize cc) g) (st_reg s3 g r) = trunc (qget (cc_srsize cc) g) (st_reg s0 g r)).
Proof.
  intros sp0 Hret Hal Hlr.
  destruct (a64_prolog_correct s0 Hret Hal) as [s1 [Hrun [PP Hok]]].
  exists s1. split; [exact Hrun|]. split; [exact Hok|]. split; [apply PP|]. split; [apply PP|].
  split; [apply a64_sp_body_aligned; auto|]. split; [apply a64_stack_args_sp|].
  split; [intros Hv Hfp; apply a64_stack_args_fp; auto|].
  split; [intros Hne; apply a64_stack_args_sa; auto|].
  intros s2 BO. destruct (a64_epilog_correct s0 s1 s2 PP BO Hal Hlr) as [s3 [H1 [H2 [H3 [H4 [H5 _]]]]]].
  exists s3. splits; auto.
Qed.

(* what the prolog and the epilog must NOT change (same hypotheses as the round trip): the prolog writes memory only inside
   the push/pop save area [sp0 - total, sp0) - the caller's memory at or above the entry sp and everything below the save area
   are untouched - and changes no register except sp, x29 (frame pointer) and the SA register: arguments reach the body;
   the epilog writes no memory and changes only sp and the registers the frame saved: return values leave as the body left them *)
Theorem a64_frame_conditions s0 :
  let sp0 := st_reg s0 0 31 in
  st_ret s0 = None -> sp0 mod 16 = 0 -> 0 <= st_reg s0 0 30 < 2 ^ 64 ->
  exists s1, run A64 (fst (prolog f o)) s0 = Some s1 /\
    (forall z, z < sp0 - fin_pp f \/ sp0 <= z -> st_mem s1 z = st_mem s0 z) /\
    (forall g r, (g, r) <> (0, 31) -> (has_fp = true -> (g, r) <> (0, 29)) -> (fin_sa f <> 31 -> (g, r) <> (0, fin_sa f)) ->
                 st_reg s1 g r = st_reg s0 g r) /\
    forall s2, a64_body_ok s0 s1 s2 ->
      exists s3, run A64 (fst (epilog f o)) s2 = Some s3 /\
        st_mem s3 = st_mem s2 /\
        (forall g r, (g, r) <> (0, 31) -> Z.testbit (saved_regs f o g) r = false -> st_reg s3 g r = st_reg s2 g r).
Proof.
  intros sp0 Hret Hal Hlr.
  destruct (a64_prolog_correct s0 Hret Hal) as [s1 [Hrun [PP Hok]]].
  exists s1. split; [exact Hrun|]. split; [rewrite <- total_pp; apply PP|]. split; [apply PP|].
  intros s2 BO. destruct (a64_epilog_correct s0 s1 s2 PP BO Hal Hlr) as [s3 [H1 [_ [_ [_ [_ [H6 H7]]]]]]].
  exists s3. splits; auto.
Qed.

(* every instruction of the prolog and of the epilog is encodable when the push/pop save area is at most 240 bytes (true for every
   library convention, see FrameContract.v): the Assembler cannot refuse what the emitters produce *)
Lemma group_stores_in g ps i : In i (a64_group_stores f g total ps) -> i = a64_mov_fp \/ In i (map (a64_pair_inst true g total) ps).
Proof.
  unfold a64_group_stores. destruct ps as [|p rest]; [intros []|]. cbn [map In]. intros [H|H]; [right; left; exact H|].
  apply in_app_or in H. destruct H as [H|H]; [|right; right; exact H].
  destruct (fi_has_fp f); [destruct H as [H|[]]; left; auto | destruct H].
Qed.

Theorem a64_frame_encodable : total <= 240 ->
  (forall i, In i (fst (prolog f o)) -> a64_encodable i = true) /\ (forall i, In i (fst (epilog f o)) -> a64_encodable i = true).
Proof.
  intros Ht. destruct total_mod as [Htm [Hgm [Hg0 Hgt]]]. destruct adj_facts as [Ha0 _].
  assert (Hgl : 0 + 16 * Z.of_nat (length gps) <= total) by (unfold total, gpt; lia).
  assert (Hvl : gpt + 16 * Z.of_nat (length vps) <= total) by (unfold total; lia).
  assert (PG : forall st p, In p gps -> a64_encodable (a64_pair_inst st 0 total p) = true).
  { intros st p Hp. apply (pair_inst_encodable st 0 total gps 0 p gps_seq Hp); auto; lia. }
  assert (PV : forall st p, In p vps -> a64_encodable (a64_pair_inst st 1 total p) = true).
  { intros st p Hp. apply (pair_inst_encodable st 1 total vps gpt p vps_seq Hp); auto; lia. }
  assert (Hadj : forall sub i, In i (fst (a64_adjust sub (fo_stack_adj o))) -> a64_encodable i = true).
  { intros sub i. apply adjust_encodable. split; [exact Ha0 | exact HADJ]. }
  assert (Hok : snd (a64_adjust false (fo_stack_adj o)) = true).
  { assert (Hb : fo_stack_adj o <= 16777215) by exact HADJ. unfold a64_adjust.
    destruct (fo_stack_adj o =? 0); [reflexivity|]. destruct (fo_stack_adj o <=? 4095); [reflexivity|].
    destruct (Z.leb_spec (fo_stack_adj o) 16777215); [reflexivity | lia]. }
  split; intros i Hin.
  - rewrite a64_prolog_segs in Hin. repeat (apply in_app_or in Hin; destruct Hin as [Hin|Hin]).
    + destruct (fi_ibp f); [destruct Hin as [<-|[]]; reflexivity | destruct Hin].
    + apply group_stores_in in Hin. destruct Hin as [->|Hin]; [reflexivity|]. apply in_map_iff in Hin. destruct Hin as [p [<- Hp]]. auto.
    + apply group_stores_in in Hin. destruct Hin as [->|Hin]; [reflexivity|]. apply in_map_iff in Hin. destruct Hin as [p [<- Hp]]. auto.
    + unfold a64_sa_init in Hin. destruct (_ && _); [destruct Hin as [<-|[]]; reflexivity | destruct Hin].
    + eapply Hadj; eauto.
  - rewrite (a64_epilog_segs Hok) in Hin. repeat (apply in_app_or in Hin; destruct Hin as [Hin|Hin]).
    + eapply Hadj; eauto.
    + apply in_map_iff in Hin. destruct Hin as [p [<- Hp]]. apply PV. apply in_rev. exact Hp.
    + apply in_map_iff in Hin. destruct Hin as [p [<- Hp]]. apply PG. apply in_rev. exact Hp.
    + destruct Hin as [<-|[]]. reflexivity.
Qed.

(* stack arguments END TO END on AArch64: what the caller stored at [entry sp + off] is readable after the prolog with the caller's
   value at [sp + sa_offset_from_sp + off], at [x29 + sa_offset_from_sa + off] (frame pointer, repaired tree) and at
   [SA register + sa_offset_from_sa + off] *)
Theorem a64_stack_args_intact s0 :
  let sp0 := st_reg s0 0 31 in
  st_ret s0 = None -> sp0 mod 16 = 0 ->
  exists s1, run A64 (fst (prolog f o)) s0 = Some s1 /\
    forall off n v, 0 <= off -> holds (st_mem s0) (sp0 + off) n v ->
      holds (st_mem s1) (st_reg s1 0 31 + fo_sa_from_sp o + off) n v /\
      (fi_sa_fix f = true -> has_fp = true -> holds (st_mem s1) (st_reg s1 0 29 + fo_sa_from_sa o + off) n v) /\
      (fin_sa f <> 31 -> holds (st_mem s1) (st_reg s1 0 (fin_sa f) + fo_sa_from_sa o + off) n v).
Proof.
  intros sp0 Hret Hal.
  destruct (a64_prolog_correct s0 Hret Hal) as [s1 [Hrun [PP Hok]]].
  exists s1. split; [exact Hrun|]. intros off n v Hoff Hh.
  assert (K : holds (st_mem s1) (sp0 + off) n v).
  { eapply holds_ext; [|exact Hh]. intros x Hx. apply (aq_mem _ _ PP). fold sp0. right. lia. }
  splits.
  - rewrite (aq_sp _ _ PP). fold sp0. rewrite (a64_stack_args_sp sp0). exact K.
  - intros Hv Hfp. rewrite (a64_stack_args_fp s0 s1 Hv Hfp PP). exact K.
  - intros Hne. rewrite (a64_stack_args_sa s0 s1 Hne PP). exact K.
Qed.

End A64Frame.

(* ------------------------------------------------------------------ every frame the (proposed) refusal accepts is in scope *)
Lemma a64_realisable_scope f : wf_in f -> fi_arch f = A64 -> a64_realisable f = true ->
  (qget (cc_srsize (fi_cc f)) 1 = 8 \/ fin_saved f 1 = 0) /\ fin_has_da f = false.
Proof.
  intros WF HA H. unfold a64_realisable in H. apply andb_true_iff in H. destruct H as [H1 H2].
  apply negb_true_iff in H1. split; auto. apply orb_true_iff in H2. destruct H2 as [H2|H2].
  - left. apply Z.leb_le in H2. pose proof (wc_a64 _ _ (wi_cc f WF) HA) as W.
    assert (E : q1 (cc_srsize (fi_cc f)) = 8 \/ q1 (cc_srsize (fi_cc f)) = 16) by tauto.
    change (qget (cc_srsize (fi_cc f)) 1) with (q1 (cc_srsize (fi_cc f))) in *. lia.
  - right. apply Z.eqb_eq in H2. exact H2.
Qed.

Theorem a64_roundtrip_accepted f : wf_in f -> fi_arch f = A64 -> a64_realisable f = true ->
  (fi_sa_reg f = id_bad \/ fi_sa_fix f = true) -> fo_stack_adj (finalize f) <= 16777215 ->
  forall s0,
  let o := finalize f in let sp0 := st_reg s0 0 31 in
  st_ret s0 = None -> sp0 mod 16 = 0 -> 0 <= st_reg s0 0 30 < 2 ^ 64 ->
  exists s1, run A64 (fst (prolog f o)) s0 = Some s1 /\ snd (prolog f o) = true /\
    st_reg s1 0 31 = a64_sp_body f sp0 /\ st_ret s1 = None /\
    a64_sp_body f sp0 mod fo_final_align o = 0 /\ a64_sp_body f sp0 + fo_sa_from_sp o = sp0 /\
    (fi_sa_fix f = true -> fi_has_fp f = true -> st_reg s1 0 29 + fo_sa_from_sa o = sp0) /\
    (fin_sa f <> 31 -> st_reg s1 0 (fin_sa f) + fo_sa_from_sa o = sp0) /\
    forall s2, a64_body_ok f s0 s1 s2 ->
      exists s3, run A64 (fst (epilog f o)) s2 = Some s3 /\ snd (epilog f o) = true /\
        st_ret s3 = Some (st_reg s0 0 30) /\ st_reg s3 0 31 = sp0 /\
        (forall g r, Z.testbit (qget (cc_preserved (fi_cc f)) g) r = true ->
                     trunc (qget (cc_srsize (fi_cc f)) g) (st_reg s3 g r) = trunc (qget (cc_srsize (fi_cc f)) g) (st_reg s0 g r)).
Proof.
  intros WF HA HR HSA HADJ. destruct (a64_realisable_scope f WF HA HR) as [HV HNDA].
  exact (a64_roundtrip_sec f WF HA HV HNDA HSA HADJ).
Qed.

(* ------------------------------------------------------------------ round 5: the other side of the adjustment threshold *)
(* a stack adjustment above 16777215 cannot be encoded by two add/sub immediates: both emitters report an error (the second
   component is false) and the epilog emits nothing - no frame with such an adjustment gets a silently wrong prolog/epilog.
   With a64_roundtrip_sec (adjustment <= 16777215) the case split on the adjustment is complete. *)
Theorem a64_large_adjust_refused f : fi_arch f = A64 -> 16777215 < fo_stack_adj (finalize f) ->
  snd (prolog f (finalize f)) = false /\ epilog f (finalize f) = ([], false).
Proof.
  intros HA H. unfold prolog, epilog. rewrite HA. unfold a64_prolog, a64_epilog, a64_adjust.
  assert (E0 : (fo_stack_adj (finalize f) =? 0) = false) by (apply Z.eqb_neq; lia).
  assert (E1 : (fo_stack_adj (finalize f) <=? 4095) = false) by (apply Z.leb_gt; lia).
  assert (E2 : (fo_stack_adj (finalize f) <=? 16777215) = false) by (apply Z.leb_gt; lia).
  rewrite E0, E1, E2. split; reflexivity.
Qed.

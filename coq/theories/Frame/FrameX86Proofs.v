(* C07 — x86 / x86-64: prolog ; confined body ; epilog restores everything (proof). *)
From Coq Require Import ZArith List Bool Lia Znumtheory.
From Verif Require Import Frame.FrameModel Frame.FrameMachine Frame.FrameArith Frame.FrameLayout Frame.FrameMachineLemmas.
Import ListNotations.
Local Open Scope Z_scope.

Ltac splits := repeat match goal with |- _ /\ _ => split end.
Global Opaque bits_of bits_from.

Section X86Frame.
Variable f : frame_in.
Hypothesis WF : wf_in f.
Hypothesis HX : is_x86_family (fi_arch f) = true.

Lemma arch_x86 : fi_arch f = X86 \/ fi_arch f = X64.
Proof. revert HX. destruct (fi_arch f); cbn; auto. discriminate. Qed.

Lemma arch_consts : sp_id (fi_arch f) = 4 /\ fp_id (fi_arch f) = 5 /\ has_link_reg (fi_arch f) = false /\
                    (forall g, has_push_pop (fi_arch f) g = (g =? 0)) /\ (reg_size (fi_arch f) = 4 \/ reg_size (fi_arch f) = 8) /\
                    ret_addr_size (fi_arch f) = reg_size (fi_arch f).
Proof. destruct arch_x86 as [-> | ->]; cbn; auto 10. Qed.

Local Notation a := (fi_arch f).
Let o := finalize f.
Let ws := reg_size a.
Let sal := final_alignment f.
Let pp := fin_pp f.
Local Notation has_fp := (fi_has_fp f).
Let gpl := bits_of 32 (x86_gp_saved f o).
Let sa := fin_sa f.
Let cc := fi_cc f.

(* the registers of the extra groups must exist in the mode the frame is emitted for (dirty masks are user input) *)
Definition L1 := bits_of 32 (saved_regs f o 1).
Definition L2 := bits_of 32 (saved_regs f o 2).
Definition L3 := bits_of 32 (saved_regs f o 3).
Definition x86_regs_exist : Prop :=
  (forall id, In id L1 -> vec_id_ok a (x86_vec_mov f o) id = true) /\
  (forall id, In id L2 -> id < 8) /\
  (forall id, In id L3 -> id < 8).
Hypothesis HEX : x86_regs_exist.

(* ------------------------------------------------------------------ facts about the convention *)
Lemma x86_cc : cc_srsize cc = x86_sr_size ws /\ cc_sralign cc = x86_sr_size ws /\
               0 <= q0 (cc_preserved cc) < 2 ^ 16 /\
               Z.testbit (q0 (cc_preserved cc)) 4 = false /\ Z.testbit (q0 (cc_preserved cc)) 5 = true.
Proof. pose proof (wc_x86 _ _ (wi_cc f WF) HX) as H. fold cc in H. tauto. Qed.

Lemma x86_cc_masks : 0 <= q1 (cc_preserved cc) < 2 ^ 32 /\ 0 <= q2 (cc_preserved cc) < 2 ^ 32 /\ 0 <= q3 (cc_preserved cc) < 2 ^ 32.
Proof. pose proof (wc_x86 _ _ (wi_cc f WF) HX) as H. fold cc in H. tauto. Qed.

Lemma ws_cases : ws = 4 \/ ws = 8.
Proof. apply arch_consts. Qed.

Lemma ras_ws : ret_addr_size a = ws.
Proof. apply arch_consts. Qed.

Lemma sa_cases : sa = 4 \/ (0 <= sa < 16 /\ sa <> 4).
Proof.
  unfold sa, fin_sa. destruct arch_consts as [Esp [Efp _]]. rewrite Esp, Efp.
  pose proof (wi_sa f WF) as Hsa. rewrite HX, Esp in Hsa.
  destruct (fi_sa_reg f =? id_bad) eqn:E.
  - rewrite Z.eqb_refl, andb_true_r. destruct (fin_has_da f); [right; lia | left; auto].
  - apply Z.eqb_neq in E. destruct Hsa as [Hsa|[Hsa Hne]]; [congruence|].
    destruct (Z.eqb_spec (fi_sa_reg f) 4); [congruence|]. rewrite andb_false_r. right; lia.
Qed.

Lemma saved0_eq : saved_regs f o 0 = fin_saved f 0.
Proof. reflexivity. Qed.

Lemma dirty0_fp : has_fp = true -> Z.testbit (q0 (fin_dirty f)) 5 = true.
Proof.
  intros Hfp. unfold fin_dirty. cbn [q0]. rewrite Hfp.
  destruct arch_consts as [-> [-> [-> _]]]. cbn [andb].
  destruct sa_cases as [Hs|[Hs Hne]]; fold sa.
  - rewrite Hs. cbn [Z.eqb Pos.eqb]. rewrite lor_bit_testbit by lia. rewrite Z.eqb_refl. apply orb_true_r.
  - destruct (Z.eqb_spec sa 4); [congruence|]. rewrite !lor_bit_testbit by lia. rewrite Z.eqb_refl. rewrite orb_true_r. reflexivity.
Qed.

Lemma dirty0_sa : sa <> 4 -> Z.testbit (q0 (fin_dirty f)) sa = true.
Proof.
  intros Hne. unfold fin_dirty. cbn [q0]. destruct arch_consts as [Esp _]. rewrite Esp. fold sa.
  destruct (Z.eqb_spec sa 4); [congruence|]. destruct sa_cases as [?|[Hs _]]; [congruence|].
  rewrite lor_bit_testbit by lia. rewrite Z.eqb_refl. apply orb_true_r.
Qed.

Lemma saved0_bits x : Z.testbit (fin_saved f 0) x = true -> 0 <= x < 16 /\ x <> 4.
Proof.
  destruct x86_cc as [_ [_ [Hr [H4 _]]]]. unfold fin_saved. rewrite Z.land_spec. fold cc. intros H.
  apply andb_true_iff in H. destruct H as [_ H]. change (qget (cc_preserved cc) 0) with (q0 (cc_preserved cc)) in H.
  assert (0 <= x) by (destruct (Z_lt_le_dec x 0); auto; rewrite Z.testbit_neg_r in H by lia; discriminate).
  split.
  - destruct (Z_lt_le_dec x 16); [lia|]. rewrite (testbit_above _ 16 x Hr) in H by lia. discriminate.
  - intros ->. congruence.
Qed.

Lemma gpl_In r : In r gpl -> 0 <= r < 16 /\ r <> 4 /\ (has_fp = true -> r <> 5) /\ Z.testbit (fin_saved f 0) r = true.
Proof.
  unfold gpl, x86_gp_saved. rewrite saved0_eq. intros H. apply bits_of_In in H. destruct H as [Hr Hb].
  destruct (fi_has_fp f).
  - rewrite clear_bit_testbit in Hb by lia. apply andb_true_iff in Hb. destruct Hb as [Hb Hn].
    pose proof (saved0_bits r Hb). splits; try lia; auto; try (intros _ E; subst r; discriminate).
  - pose proof (saved0_bits r Hb). splits; try lia; auto; try discriminate.
Qed.

Lemma gpl_16 : bits_of 16 (x86_gp_saved f o) = gpl.
Proof.
  unfold gpl. symmetry. apply bits_of_32_16. intros x Hx. unfold x86_gp_saved. rewrite saved0_eq.
  assert (Z.testbit (fin_saved f 0) x = false).
  { destruct (Z.testbit (fin_saved f 0) x) eqn:E; auto. apply saved0_bits in E. lia. }
  destruct (fi_has_fp f); auto. rewrite clear_bit_testbit by lia. rewrite H. reflexivity.
Qed.

Lemma pp_eq : pp = ws * (Z.of_nat (length gpl) + (if has_fp then 1 else 0)).
Proof.
  destruct x86_cc as [Hsz [Hal [Hr [H4 H5]]]].
  unfold pp, fin_pp.
  assert (E : forall g, has_push_pop (fi_arch f) g = (g =? 0)) by apply arch_consts.
  cbn [map fold_right]. rewrite !E. cbn [Z.eqb]. rewrite !Z.add_0_r.
  unfold fin_group_size. fold cc. rewrite Hsz, Hal. cbn [x86_sr_size qget Z.eqb q0].
  pose proof ws_cases as Hws.
  rewrite align_up_id; [| lia | apply Z.mod_mul; lia].
  unfold popcnt. unfold gpl, x86_gp_saved. rewrite saved0_eq. pose proof dirty0_fp as Hd.
  destruct (fi_has_fp f) eqn:Hfp.
  - rewrite (bits_of_clear_length 32 (fin_saved f 0) 5); [lia | cbn; lia |].
    unfold fin_saved. rewrite Z.land_spec. change (qget (fin_dirty f) 0) with (q0 (fin_dirty f)). rewrite Hd by auto. exact H5.
  - lia.
Qed.

Lemma pp_off_adj : fo_push_pop_off o <= fo_stack_adj o.
Proof. pose proof (layout_chain f WF) as L. cbv zeta in L. fold o in L. tauto. Qed.

(* ------------------------------------------------------------------ the stack pointer inside the body *)
Definition x86_sp_body (sp0 : Z) : Z :=
  let s1 := sp0 - pp in
  if fo_has_da o then s1 - s1 mod sal - fo_stack_adj o else s1 - fo_stack_adj o.

(* value of the SA register inside the body (when it is not sp) *)
Definition x86_sa_value (sp0 : Z) : Z := if has_fp then sp0 - ws else sp0 - pp.

Definition x86_extra_lists := (bits_of 32 (saved_regs f o 1), bits_of 32 (saved_regs f o 2), bits_of 32 (saved_regs f o 3)).

(* offsets of the three extra groups relative to the body sp *)
Definition off1 := fo_extra_off o.
Definition off2 := off1 + 16 * Z.of_nat (length L1).
Definition off3 := off2 + 8 * Z.of_nat (length L2).
Definition off_end := off3 + 8 * Z.of_nat (length L3).

Lemma ex_eq : fo_extra_size o = off_end - off1.
Proof.
  destruct x86_cc as [Hsz [Hal _]].
  change (fo_extra_size o) with (fin_ex f). unfold fin_ex.
  assert (E : forall g, has_push_pop (fi_arch f) g = (g =? 0)) by apply arch_consts.
  cbn [map fold_right]. rewrite !E. cbn [Z.eqb].
  unfold fin_group_size. fold cc. rewrite Hsz, Hal. cbn [x86_sr_size qget Z.eqb Pos.eqb q1 q2 q3].
  rewrite !align_up_id; try lia; try (apply Z.mod_mul; lia).
  unfold off_end, off3, off2, off1, L1, L2, L3, popcnt.
  change (fin_saved f 1) with (saved_regs f o 1). change (fin_saved f 2) with (saved_regs f o 2).
  change (fin_saved f 3) with (saved_regs f o 3). lia.
Qed.

(* ------------------------------------------------------------------ single steps *)
Lemma st_x86 i s : st_ret s = None -> step a i s = x86_step a i s.
Proof. intros H. unfold step. rewrite H. destruct arch_x86 as [E | E]; rewrite E; reflexivity. Qed.

Lemma step_nop mn s : st_ret s = None -> In mn [Mendbr32; Mendbr64; Memms; Mvzeroupper] -> step a (mn, []) s = Some s.
Proof. intros H Hin. rewrite st_x86 by auto. cbn in Hin. destruct Hin as [<-|[<-|[<-|[<-|[]]]]]; reflexivity. Qed.

Lemma step_push s r : st_ret s = None ->
  step a (Mpush, [gpr a r]) s =
  Some (set_mem (set_reg s 0 4 (st_reg s 0 4 - ws)) (store_mem (st_mem s) (st_reg s 0 4 - ws) ws (trunc ws (st_reg s 0 r)))).
Proof. intros H. rewrite st_x86 by auto. cbn [x86_step gpr]. rewrite Z.eqb_refl. reflexivity. Qed.

Lemma step_pop s r v : st_ret s = None -> holds (st_mem s) (st_reg s 0 4) ws v ->
  step a (Mpop, [gpr a r]) s = Some (set_reg (set_reg s 0 4 (st_reg s 0 4 + ws)) 0 r v).
Proof.
  intros H Hh. rewrite st_x86 by auto. cbn [x86_step gpr]. rewrite Z.eqb_refl.
  rewrite (load_holds _ _ _ _ (ws_pos a HX) Hh). reflexivity.
Qed.

Lemma step_mov_rr s d r : st_ret s = None -> step a (Mmov, [gpr a d; gpr a r]) s = Some (set_reg s 0 d (st_reg s 0 r)).
Proof. intros H. rewrite st_x86 by auto. reflexivity. Qed.

Lemma step_and s d v : st_ret s = None -> step a (Mand, [gpr a d; OImm v]) s = Some (set_reg s 0 d (Z.land (st_reg s 0 d) v)).
Proof. intros H. rewrite st_x86 by auto. reflexivity. Qed.

Lemma step_sub s d v : st_ret s = None -> step a (Msub, [gpr a d; OImm v]) s = Some (set_reg s 0 d (st_reg s 0 d - v)).
Proof. intros H. rewrite st_x86 by auto. reflexivity. Qed.

Lemma step_add s d v : st_ret s = None -> step a (Madd, [gpr a d; OImm v]) s = Some (set_reg s 0 d (st_reg s 0 d + v)).
Proof. intros H. rewrite st_x86 by auto. reflexivity. Qed.

Lemma step_lea s d b off : st_ret s = None -> step a (Mlea, [gpr a d; OMem b off 0]) s = Some (set_reg s 0 d (st_reg s 0 b + off)).
Proof. intros H. rewrite st_x86 by auto. reflexivity. Qed.

Lemma step_store_gp s b off r : st_ret s = None ->
  step a (Mmov, [OMem b off 0; gpr a r]) s = Some (set_mem s (store_mem (st_mem s) (st_reg s 0 b + off) ws (trunc ws (st_reg s 0 r)))).
Proof. intros H. rewrite st_x86 by auto. reflexivity. Qed.

Lemma step_load_gp s b off d v : st_ret s = None -> holds (st_mem s) (st_reg s 0 b + off) ws v ->
  step a (Mmov, [gpr a d; OMem b off 0]) s = Some (set_reg s 0 d v).
Proof.
  intros H Hh. rewrite st_x86 by auto. cbn [x86_step gpr]. rewrite (load_holds _ _ _ _ (ws_pos a HX) Hh). reflexivity.
Qed.

Lemma step_ret0 s v : st_ret s = None -> holds (st_mem s) (st_reg s 0 4) ws v ->
  step a (Mret, []) s = Some (set_ret (set_reg s 0 4 (st_reg s 0 4 + ws)) v).
Proof.
  intros H Hh. rewrite st_x86 by auto. cbn [x86_step]. rewrite (load_holds _ _ _ _ (ws_pos a HX) Hh). reflexivity.
Qed.

Lemma step_retn s v n : st_ret s = None -> holds (st_mem s) (st_reg s 0 4) ws v ->
  step a (Mret, [OImm n]) s = Some (set_ret (set_reg s 0 4 (st_reg s 0 4 + ws + n)) v).
Proof.
  intros H Hh. rewrite st_x86 by auto. cbn [x86_step]. rewrite (load_holds _ _ _ _ (ws_pos a HX) Hh). reflexivity.
Qed.

(* ------------------------------------------------------------------ phase A: endbr, push bp / mov bp,sp, push gp *)
Definition seg_ibp : list instr :=
  if fi_ibp f then [((match fi_arch f with X86 => Mendbr32 | _ => Mendbr64 end), [])] else [].
Definition seg_fp : list instr := if fi_has_fp f then [(Mpush, [gpr a 5]); (Mmov, [gpr a 5; gpr a 4])] else [].

Lemma run_ibp s : st_ret s = None -> run a seg_ibp s = Some s.
Proof.
  intros H. unfold seg_ibp. destruct (fi_ibp f); [|reflexivity]. cbn [run].
  rewrite step_nop; auto. destruct arch_x86 as [E|E]; rewrite E; cbn; auto.
Qed.

Lemma phaseA s0 : st_ret s0 = None ->
  let sp0 := st_reg s0 0 4 in
  exists sA, run a (seg_fp ++ push_list a gpl) s0 = Some sA /\
    st_reg sA 0 4 = sp0 - pp /\
    (forall g r, (g, r) <> (0, 4) -> (has_fp = true -> (g, r) <> (0, 5)) -> st_reg sA g r = st_reg s0 g r) /\
    (has_fp = true -> st_reg sA 0 5 = sp0 - ws /\ holds (st_mem sA) (sp0 - ws) ws (trunc ws (st_reg s0 0 5))) /\
    st_ret sA = None /\
    (forall x, sp0 <= x -> st_mem sA x = st_mem s0 x) /\
    (forall k r, nth_error (rev gpl) k = Some r -> holds (st_mem sA) (sp0 - pp + ws * Z.of_nat k) ws (trunc ws (st_reg s0 0 r))) /\
    (forall x, x < sp0 - pp -> st_mem sA x = st_mem s0 x).
Proof.
  intros Hret sp0. pose proof pp_eq as Hpp. pose proof (ws_pos a HX) as Hws. fold ws in Hws.
  assert (Hne : forall r, In r gpl -> r <> 4) by (intros r Hr; apply gpl_In in Hr; tauto).
  rewrite run_app. unfold seg_fp. destruct (fi_has_fp f) eqn:Hfp.
  - cbn [run]. rewrite step_push by auto. set (s0a := set_mem _ _).
    rewrite step_mov_rr by (cbn; auto). set (s0b := set_reg s0a 0 5 _).
    destruct (run_pushes a HX gpl s0b ltac:(cbn; auto) Hne) as [sA [Hrun [Hsp [Hregs [Hr [Hmem [Hslots Hlow]]]]]]].
    fold ws in Hsp, Hslots.
    assert (Hspb : st_reg s0b 0 4 = sp0 - ws) by (cbn; reflexivity).
    exists sA. split; [exact Hrun|]. splits.
    + rewrite Hsp, Hspb, Hpp. lia.
    + intros g r H4 H5. specialize (H5 eq_refl). rewrite Hregs by auto.
      unfold s0b. rewrite reg_set_other by auto. unfold s0a. cbn [set_mem st_reg]. apply reg_set_other; auto.
    + intros _. split.
      * rewrite Hregs by congruence. unfold s0b. rewrite reg_set_same. cbn. reflexivity.
      * eapply holds_ext; [|apply (holds_store_same (st_mem s0) (sp0 - ws) ws)].
        intros x Hx. rewrite Hmem by (rewrite Hspb; lia). cbn. reflexivity.
    + exact Hr.
    + intros x Hx. rewrite Hmem by (rewrite Hspb; lia). cbn. apply store_other. fold sp0. lia.
    + intros k r Hk. specialize (Hslots k r Hk). rewrite Hsp, Hspb in Hslots.
      replace (sp0 - pp + ws * Z.of_nat k) with (sp0 - ws - ws * Z.of_nat (length gpl) + ws * Z.of_nat k) by lia.
      assert (E : st_reg s0b 0 r = st_reg s0 0 r).
      { assert (Hin : In r gpl) by (apply in_rev; eapply nth_error_In; eauto). apply gpl_In in Hin.
        destruct Hin as [_ [H4 [H5 _]]]. specialize (H5 Hfp).
        unfold s0b. rewrite reg_set_other_r by auto. unfold s0a. cbn [set_mem st_reg]. apply reg_set_other_r; auto. }
      rewrite E in Hslots. exact Hslots.
    + intros x Hx. rewrite Hlow by (rewrite Hsp, Hspb; lia). cbn. apply store_other. fold sp0. left. nia.
  - cbn [run].
    destruct (run_pushes a HX gpl s0 Hret Hne) as [sA [Hrun [Hsp [Hregs [Hr [Hmem [Hslots Hlow]]]]]]].
    fold ws in Hsp, Hslots. fold sp0 in Hsp, Hmem.
    exists sA. split; [exact Hrun|]. splits; auto.
    + rewrite Hsp, Hpp. lia.
    + discriminate.
    + intros k r Hk. specialize (Hslots k r Hk). rewrite Hsp in Hslots.
      replace (sp0 - pp + ws * Z.of_nat k) with (sp0 - ws * Z.of_nat (length gpl) + ws * Z.of_nat k) by lia. exact Hslots.
    + intros x Hx. apply Hlow. rewrite Hsp. lia.
Qed.

(* ------------------------------------------------------------------ phase B: SA register, and sp, sub sp, DA slot *)
Definition seg_sa : list instr :=
  if negb (sa =? id_bad) && negb (sa =? 4) then
    (if fi_has_fp f then (if negb (sa =? 5) then [(Mmov, [gpr a sa; gpr a 5])] else []) else [(Mmov, [gpr a sa; gpr a 4])])
  else [].
Definition seg_and : list instr := if fo_has_da o then [(Mand, [gpr a 4; OImm (- fo_final_align o)])] else [].
Definition seg_sub : list instr := if negb (fo_stack_adj o =? 0) then [(Msub, [gpr a 4; OImm (fo_stack_adj o)])] else [].
Definition da_cond : bool := fo_has_da o && negb (fo_da_off o =? -1).
Definition seg_da : list instr := if da_cond then [(Mmov, [OMem 4 (fo_da_off o) 0; gpr a sa])] else [].

Lemma x86_prolog_segs :
  x86_prolog f o = seg_ibp ++ seg_fp ++ push_list a gpl ++ seg_sa ++ seg_and ++ seg_sub ++ seg_da ++ x86_extra_all true f o.
Proof.
  unfold x86_prolog. cbv zeta. change (fo_sa_reg o) with sa.
  unfold seg_ibp, seg_fp, seg_sa, seg_and, seg_sub, seg_da, da_cond, push_list, gpl. Timeout 30 reflexivity.
Qed.

Lemma run_seg_sa s : st_ret s = None ->
  exists s', run a seg_sa s = Some s' /\
    (forall g r, (sa <> 4 -> (g, r) <> (0, sa)) -> st_reg s' g r = st_reg s g r) /\
    (sa <> 4 -> st_reg s' 0 sa = if has_fp then st_reg s 0 5 else st_reg s 0 4) /\
    st_mem s' = st_mem s /\ st_ret s' = None.
Proof.
  intros Hret. unfold seg_sa.
  destruct sa_cases as [Hs|[Hs Hne]].
  - rewrite Hs. cbn [Z.eqb Pos.eqb negb andb]. rewrite andb_false_r. exists s. cbn [run]. splits; auto. congruence.
  - assert (E1 : (sa =? id_bad) = false) by (apply Z.eqb_neq; unfold id_bad; lia).
    assert (E2 : (sa =? 4) = false) by (apply Z.eqb_neq; lia).
    rewrite E1, E2. cbn [negb andb].
    destruct (fi_has_fp f) eqn:Hfp.
    + destruct (Z.eqb_spec sa 5) as [E5|E5]; cbn [negb].
      * exists s. cbn [run]. splits; auto. intros _. rewrite E5. reflexivity.
      * cbn [run]. rewrite step_mov_rr by auto. eexists. split; [reflexivity|]. splits; auto.
        -- intros g r H. apply reg_set_other. auto.
        -- intros _. apply reg_set_same.
    + cbn [run]. rewrite step_mov_rr by auto. eexists. split; [reflexivity|]. splits; auto.
      * intros g r H. apply reg_set_other. auto.
      * intros _. apply reg_set_same.
Qed.

Lemma run_seg_sp s : st_ret s = None ->
  exists s', run a (seg_and ++ seg_sub) s = Some s' /\
    st_reg s' 0 4 = (if fo_has_da o then Z.land (st_reg s 0 4) (- sal) - fo_stack_adj o else st_reg s 0 4 - fo_stack_adj o) /\
    (forall g r, (g, r) <> (0, 4) -> st_reg s' g r = st_reg s g r) /\
    st_mem s' = st_mem s /\ st_ret s' = None.
Proof.
  intros Hret. unfold seg_and, seg_sub. change (fo_final_align o) with sal.
  destruct (fo_has_da o); destruct (Z.eqb_spec (fo_stack_adj o) 0) as [E|E]; cbn [negb app run];
    repeat (first [rewrite step_and by (cbn; auto) | rewrite step_sub by (cbn; auto)]);
    eexists; (split; [reflexivity|]); splits; auto;
    try (intros g r H; repeat rewrite reg_set_other by auto; reflexivity);
    repeat rewrite reg_set_same; try lia.
Qed.

Lemma run_seg_da s : st_ret s = None ->
  exists s', run a seg_da s = Some s' /\ st_reg s' = st_reg s /\ st_ret s' = None /\
    st_mem s' = (if da_cond then store_mem (st_mem s) (st_reg s 0 4 + fo_da_off o) ws (trunc ws (st_reg s 0 sa)) else st_mem s).
Proof.
  intros Hret. unfold seg_da. destruct da_cond.
  - cbn [run]. rewrite step_store_gp by auto. eexists. split; [reflexivity|]. splits; auto.
  - exists s. cbn [run]. splits; auto.
Qed.

(* ------------------------------------------------------------------ alignment of the body sp *)
Lemma sal_pow2' : pow2 sal.
Proof. apply sal_pow2; auto. Qed.

Lemma sal_natural_or_da : fo_has_da o = false -> 16 <= sal -> sal = cc_natural cc.
Proof.
  change (fo_has_da o) with (fin_has_da f). unfold fin_has_da. fold sal cc. intros Hda H16.
  apply Z.leb_gt in Hda. pose proof (natural_divides_sal f WF) as [q Hq]. fold sal cc in Hq.
  pose proof (pow2_pos _ (wc_nat _ _ (wi_cc f WF))) as Hn. fold cc in Hn.
  assert (q = 1 \/ 2 <= q) by nia. destruct H as [->|Hq2]; [lia|].
  exfalso. unfold min_dynamic_alignment in Hda.
  destruct (Z.eqb_spec (Z.max (cc_natural cc) 16) (cc_natural cc)); nia.
Qed.

Definition uses_stack (o' : frame_out) : Prop := uses_stack_or_calls f o'.

Lemma x86_sp_body_aligned sp0 :
  (fo_has_da o = true \/ sal = cc_natural cc) -> (sp0 + ws) mod cc_natural cc = 0 -> uses_stack o ->
  x86_sp_body sp0 mod sal = 0.
Proof.
  intros Hc Hentry Hu. pose proof (layout_chain f WF) as L. cbv zeta in L. fold o in L.
  destruct L as [_ [_ [_ [_ [_ [_ [_ [_ [Hnda [Hda [_ [_ Hfin]]]]]]]]]]]].
  change (fo_final_align o) with sal in *. specialize (Hfin Hu). rewrite ras_ws in Hfin.
  change (fo_push_pop_size o) with pp in Hfin.
  pose proof (sal_pos f WF) as Hsal. fold sal in Hsal.
  unfold x86_sp_body. cbv zeta. destruct (fo_has_da o) eqn:E.
  - specialize (Hda eq_refl). apply sub_mod_0; auto.
    rewrite (Z.div_mod (sp0 - pp) sal) at 1 by lia.
    replace (sal * ((sp0 - pp) / sal) + (sp0 - pp) mod sal - (sp0 - pp) mod sal) with (((sp0 - pp) / sal) * sal) by lia.
    apply Z.mod_mul. lia.
  - destruct Hc as [Hc|Hc]; [discriminate|]. rewrite (Hnda eq_refl). rewrite <- Hc in Hentry.
    replace (sp0 - pp - fo_push_pop_off o) with ((sp0 + ws) - (fo_push_pop_off o + pp + ws)) by lia.
    apply sub_mod_0; auto.
Qed.

(* with fixes/C07-final-alignment-truthful.patch the guard of the alignment theorem always holds *)
Lemma align_fix_guard : fi_align_fix f = true -> fo_has_da o = true \/ sal = cc_natural cc.
Proof.
  intros Hfix. change (fo_has_da o) with (fin_has_da f). unfold fin_has_da, sal, final_alignment. cbv zeta. rewrite Hfix. cbn [andb]. fold cc.
  destruct (Z.ltb_spec (requested_alignment f) (min_dynamic_alignment (cc_natural cc))) as [L|L]; [right; reflexivity|].
  left. apply Z.leb_le. exact L.
Qed.

Lemma x86_sp_body_aligned_fixed sp0 :
  fi_align_fix f = true -> (sp0 + ws) mod cc_natural cc = 0 -> uses_stack o -> x86_sp_body sp0 mod sal = 0.
Proof. intros Hfix. apply x86_sp_body_aligned. apply align_fix_guard; auto. Qed.

(* ------------------------------------------------------------------ phase C and the whole prolog *)
Lemma vecmov_x : x86_xmov (x86_vec_mov f o) = Some (1, 16).
Proof. unfold x86_vec_mov. destruct (fo_aligned_vec_sr o); destruct (fi_avx f || fi_avx512 f); reflexivity. Qed.

Lemma vecmov_aligned : aligned_mov (x86_vec_mov f o) = fo_aligned_vec_sr o.
Proof. unfold x86_vec_mov. destruct (fo_aligned_vec_sr o); destruct (fi_avx f || fi_avx512 f); reflexivity. Qed.

Lemma ok1 id : In id L1 -> xreg_ok a (x86_vec_mov f o) 1 id = true.
Proof. intros H. unfold xreg_ok. cbn [Z.eqb Pos.eqb]. destruct HEX as [H1 _]. apply H1. exact H. Qed.
Lemma ok2 id : In id L2 -> xreg_ok a Mkmovq 2 id = true.
Proof.
  intros H. unfold xreg_ok. cbn [Z.eqb Pos.eqb]. destruct HEX as [_ [H2 _]]. specialize (H2 id H).
  unfold L2, L3 in H. apply bits_of_In in H. apply andb_true_iff. split; [apply Z.leb_le | apply Z.ltb_lt]; lia.
Qed.
Lemma ok3 id : In id L3 -> xreg_ok a Mmovq 3 id = true.
Proof.
  intros H. unfold xreg_ok. cbn [Z.eqb Pos.eqb]. destruct HEX as [_ [_ H3]]. specialize (H3 id H).
  unfold L2, L3 in H. apply bits_of_In in H. apply andb_true_iff. split; [apply Z.leb_le | apply Z.ltb_lt]; lia.
Qed.

(* when aligned vector moves are used, the save area is 16-byte aligned *)
Lemma extra_area_aligned sp0 :
  (sp0 + ws) mod cc_natural cc = 0 -> fo_aligned_vec_sr o = true -> (x86_sp_body sp0 + off1) mod 16 = 0.
Proof.
  intros Hentry Hav. pose proof (layout_chain f WF) as L. cbv zeta in L. fold o in L.
  destruct L as [_ [_ [Hex0 [_ [Hnoda [Hdaoff [_ [_ [_ [_ [_ [Hav' _]]]]]]]]]]]].
  specialize (Hav' Hav). destruct x86_cc as [Hsz _]. fold cc in Hav'. rewrite Hsz in Hav'. cbn [x86_sr_size qget Z.eqb Pos.eqb q1] in Hav'.
  destruct Hav' as [Hoff Hdiv]. change (fo_final_align o) with sal in Hdiv.
  assert (H16 : 16 <= sal) by (destruct Hdiv as [q Hq]; pose proof (sal_pos f WF) as Hp; fold sal in Hp; nia).
  assert (Hex : fo_extra_size o <> 0).
  { change (fo_aligned_vec_sr o) with ((qget (cc_srsize cc) 1 <=? sal) && negb (fin_ex f =? 0)) in Hav.
    apply andb_true_iff in Hav. destruct Hav as [_ Hav]. apply negb_true_iff, Z.eqb_neq in Hav. exact Hav. }
  assert (Hu : uses_stack o).
  { left. destruct (Z.eq_dec (fo_da_off o) (-1)) as [E|E].
    - specialize (Hnoda E). pose proof (layout_chain f WF) as L. cbv zeta in L. fold o in L.
      destruct L as [[Hc0 Hc1] [Hl _]]. pose proof (wi_lsize f WF). lia.
    - destruct (Hdaoff E) as [E1 [E2 _]]. pose proof (layout_chain f WF) as L. cbv zeta in L. fold o in L.
      destruct L as [[Hc0 Hc1] [Hl _]]. pose proof (wi_lsize f WF). pose proof (rs_pos f). lia. }
  assert (Hc : fo_has_da o = true \/ sal = cc_natural cc).
  { destruct (fo_has_da o) eqn:E; [left; auto | right; apply sal_natural_or_da; auto]. }
  pose proof (x86_sp_body_aligned sp0 Hc Hentry Hu) as Hb.
  apply add_mod_0; [lia | | exact Hoff]. apply (mod_divide_0 _ sal 16); auto; lia.
Qed.

(* state after the prolog, relative to the entry state s0 *)
Record prolog_post (s0 s1 : state) : Prop := mk_pp {
  pq_sp : st_reg s1 0 4 = x86_sp_body (st_reg s0 0 4);
  pq_ret : st_ret s1 = None;
  pq_fp : has_fp = true -> st_reg s1 0 5 = st_reg s0 0 4 - ws;
  pq_regs : forall g r, (g, r) <> (0, 4) -> (has_fp = true -> (g, r) <> (0, 5)) -> (sa <> 4 -> (g, r) <> (0, sa)) ->
            st_reg s1 g r = st_reg s0 g r;
  pq_sa : sa <> 4 -> st_reg s1 0 sa = x86_sa_value (st_reg s0 0 4);
  pq_mem_above : forall x, st_reg s0 0 4 <= x -> st_mem s1 x = st_mem s0 x;
  pq_mem_below : forall x, x < x86_sp_body (st_reg s0 0 4) + fo_extra_off o -> st_mem s1 x = st_mem s0 x;
  pq_fp_slot : has_fp = true -> holds (st_mem s1) (st_reg s0 0 4 - ws) ws (trunc ws (st_reg s0 0 5));
  pq_push_slots : forall k r, nth_error (rev gpl) k = Some r ->
                  holds (st_mem s1) (st_reg s0 0 4 - pp + ws * Z.of_nat k) ws (trunc ws (st_reg s0 0 r));
  pq_da_slot : fo_da_off o <> -1 ->
               holds (st_mem s1) (x86_sp_body (st_reg s0 0 4) + fo_da_off o) ws (trunc ws (st_reg s0 0 4 - pp));
  pq_x1 : forall k id, nth_error L1 k = Some id ->
          holds (st_mem s1) (x86_sp_body (st_reg s0 0 4) + off1 + 16 * Z.of_nat k) 16 (trunc 16 (st_reg s0 1 id));
  pq_x2 : forall k id, nth_error L2 k = Some id ->
          holds (st_mem s1) (x86_sp_body (st_reg s0 0 4) + off2 + 8 * Z.of_nat k) 8 (trunc 8 (st_reg s0 2 id));
  pq_x3 : forall k id, nth_error L3 k = Some id ->
          holds (st_mem s1) (x86_sp_body (st_reg s0 0 4) + off3 + 8 * Z.of_nat k) 8 (trunc 8 (st_reg s0 3 id))
}.

Lemma da_cond_eq : da_cond = negb (fo_da_off o =? -1).
Proof.
  unfold da_cond. destruct (Z.eqb_spec (fo_da_off o) (-1)) as [E|E]; [apply andb_false_r|].
  pose proof (layout_chain f WF) as L. cbv zeta in L. fold o in L.
  destruct L as [_ [_ [_ [_ [_ [Hda _]]]]]]. destruct (Hda E) as [_ [_ [-> _]]]. reflexivity.
Qed.

(* positions of the areas (all relative to the body sp) *)
Lemma layout_facts :
  fo_local_off o + fi_local_size f <= off1 /\ off1 <= off2 <= off3 /\ off3 <= off_end /\
  (fo_da_off o = -1 -> off_end <= fo_push_pop_off o) /\
  (fo_da_off o <> -1 -> fo_da_off o = off_end /\ off_end + ws <= fo_push_pop_off o /\ has_fp = false) /\
  fo_push_pop_off o <= fo_stack_adj o /\ 0 <= fi_call_size f <= fo_local_off o /\ 0 <= pp.
Proof.
  pose proof (layout_chain f WF) as L. cbv zeta in L. fold o in L. pose proof ex_eq as Hex.
  destruct L as [Hc [Hl [Hex0 [Hpp0 [Hnoda [Hda [_ [Hadj _]]]]]]]].
  unfold off_end, off3, off2 in *. unfold off1 in *.
  splits; try lia; try apply Hpp0.
  intros E. destruct (Hda E) as [E1 [E2 [_ E3]]]. splits; auto; lia.
Qed.

Theorem x86_prolog_correct s0 :
  st_ret s0 = None -> (st_reg s0 0 4 + ws) mod cc_natural cc = 0 ->
  exists s1, run a (x86_prolog f o) s0 = Some s1 /\ prolog_post s0 s1.
Proof.
  intros Hret Hentry. set (sp0 := st_reg s0 0 4) in *.
  pose proof layout_facts as [LF1 [LF2 [LF3 [LF4 [LF5 [LF6 [LF7 LF8]]]]]]].
  pose proof (ws_pos a HX) as Hws. fold ws in Hws.
  rewrite x86_prolog_segs. rewrite run_app, run_ibp by auto.
  destruct (phaseA s0 Hret) as [sA [HrunA [HspA [HregsA [HfpA [HretA [HmemA [HslotsA HlowA]]]]]]]]. fold sp0 in HspA, HfpA, HmemA, HslotsA, HlowA.
  rewrite app_assoc, run_app, HrunA.
  destruct (run_seg_sa sA HretA) as [sS [HrunS [HregsS [HsaS [HmemS HretS]]]]].
  rewrite run_app, HrunS.
  destruct (run_seg_sp sS HretS) as [sP [HrunP [HspP [HregsP [HmemP HretP]]]]].
  rewrite app_assoc, run_app, HrunP.
  destruct (run_seg_da sP HretP) as [sD [HrunD [HregsD [HretD HmemD]]]].
  rewrite run_app, HrunD.
  (* sp in sP / sD *)
  assert (Hsa4 : sa <> 4 -> st_reg sS 0 4 = st_reg sA 0 4).
  { intros H. apply HregsS. intros _ E. inversion E. congruence. }
  assert (HspS : st_reg sS 0 4 = sp0 - pp).
  { rewrite <- HspA. destruct (Z.eq_dec sa 4) as [E|E]; [apply HregsS; intros; congruence | auto]. }
  assert (Hspb : st_reg sD 0 4 = x86_sp_body sp0).
  { rewrite HregsD, HspP, HspS. unfold x86_sp_body. cbv zeta. destruct (fo_has_da o); auto.
    rewrite land_neg_pow2 by apply sal_pow2'. reflexivity. }
  assert (HspP' : st_reg sP 0 4 = x86_sp_body sp0) by (rewrite <- Hspb, HregsD; reflexivity).
  assert (Hbelow : x86_sp_body sp0 + fo_stack_adj o <= sp0 - pp).
  { unfold x86_sp_body. cbv zeta. pose proof (sal_pos f WF) as Hsal. fold sal in Hsal.
    pose proof (Z.mod_pos_bound (sp0 - pp) sal Hsal). destruct (fo_has_da o); lia. }
  (* value of the SA register *)
  assert (HsaV : sa <> 4 -> st_reg sD 0 sa = x86_sa_value sp0).
  { intros Hne. rewrite HregsD, HregsP by congruence. rewrite (HsaS Hne). unfold x86_sa_value.
    destruct (fi_has_fp f) eqn:Hfp; [apply HfpA; auto | exact HspA]. }
  (* extra stores *)
  set (spb := x86_sp_body sp0) in *.
  assert (Hal1 : aligned_mov (x86_vec_mov f o) = true -> (st_reg sD 0 4 + off1) mod 16 = 0).
  { rewrite vecmov_aligned, Hspb. apply extra_area_aligned; auto. }
  unfold x86_extra_all. cbv zeta. assert (Esp : sp_id a = 4) by apply arch_consts. rewrite Esp.
  fold L1 L2 L3. change (fo_extra_off o) with off1. fold off2. fold off3.
  destruct (run_extra_stores a HX _ _ _ vecmov_x L1 off1 sD HretD ok1 Hal1) as [s1' [Hrun1 [Hregs1 [Hret1 [Hmem1 Hsl1]]]]].
  rewrite run_app, Hrun1.
  destruct (run_extra_stores a HX Mkmovq 2 8 eq_refl L2 off2 s1' Hret1 ok2 ltac:(discriminate)) as [s2' [Hrun2 [Hregs2 [Hret2 [Hmem2 Hsl2]]]]].
  rewrite run_app, Hrun2.
  destruct (run_extra_stores a HX Mmovq 3 8 eq_refl L3 off3 s2' Hret2 ok3 ltac:(discriminate)) as [s3' [Hrun3 [Hregs3 [Hret3 [Hmem3 Hsl3]]]]].
  rewrite Hrun3. exists s3'. split; [reflexivity|].
  rewrite Hregs1 in *. rewrite Hspb in *.
  assert (Hoffs : off2 = off1 + 16 * Z.of_nat (length L1) /\ off3 = off2 + 8 * Z.of_nat (length L2) /\
                  off_end = off3 + 8 * Z.of_nat (length L3)) by (unfold off_end, off3, off2; lia).
  destruct Hoffs as [Ho2 [Ho3 Hoe]].
  (* memory of the final state in terms of sD *)
  assert (HmemX : forall x, x < spb + off1 \/ spb + off_end <= x -> st_mem s3' x = st_mem sD x).
  { intros x Hx. rewrite Hmem3 by (rewrite Hregs2; lia). rewrite Hmem2 by lia. apply Hmem1. lia. }
  assert (HmemDA : forall x, (fo_da_off o = -1 \/ x < spb + fo_da_off o \/ spb + fo_da_off o + ws <= x) -> st_mem sD x = st_mem sA x).
  { intros x Hx. rewrite HmemD, da_cond_eq. rewrite <- HmemS, <- HmemP.
    destruct (Z.eqb_spec (fo_da_off o) (-1)) as [E|E]; cbn [negb]; auto.
    rewrite HspP'. apply store_other. lia. }
  assert (HmemHigh : forall x, spb + fo_push_pop_off o <= x -> st_mem s3' x = st_mem sA x).
  { intros x Hx. rewrite HmemX.
    - apply HmemDA. destruct (Z.eq_dec (fo_da_off o) (-1)) as [E|E]; [left; auto|]. destruct (LF5 E) as [E1 [E2 _]]. lia.
    - right. destruct (Z.eq_dec (fo_da_off o) (-1)) as [E|E]; [specialize (LF4 E); lia|]. destruct (LF5 E) as [E1 [E2 _]]. lia. }
  assert (HregX : forall g id, g <> 0 -> st_reg sD g id = st_reg s0 g id).
  { intros g id Hg. rewrite HregsD, HregsP, HregsS, HregsA; auto; try congruence; intros; congruence. }
  constructor; fold sp0; fold spb.
  - rewrite Hregs3, Hregs2. exact Hspb.
  - exact Hret3.
  - intros Hfp. rewrite Hregs3, Hregs2, HregsD, HregsP by congruence.
    destruct (Z.eq_dec sa 5) as [E5|E5].
    + rewrite <- E5. rewrite HsaS by lia. rewrite Hfp. apply HfpA; auto.
    + rewrite HregsS by (intros _ E; inversion E; congruence). apply HfpA; auto.
  - intros g r H4 H5 Hs. rewrite Hregs3, Hregs2, HregsD, HregsP, HregsS, HregsA; auto.
  - rewrite Hregs3, Hregs2. exact HsaV.
  - intros x Hx. rewrite HmemHigh by lia. apply HmemA. lia.
  - intros x Hx. change (fo_extra_off o) with off1 in Hx. rewrite HmemX by (left; exact Hx).
    rewrite HmemDA; [apply HlowA; lia|].
    destruct (Z.eq_dec (fo_da_off o) (-1)) as [E|E]; [left; auto|]. destruct (LF5 E) as [E1 [E2 _]]. right; left. lia.
  - intros Hfp. eapply holds_ext; [|apply HfpA; auto]. intros x Hx. apply HmemHigh.
    pose proof pp_eq as Hppe. rewrite Hfp in Hppe. assert (ws <= pp) by (rewrite Hppe; nia). lia.
  - intros k r Hk. eapply holds_ext; [|apply (HslotsA k r Hk)]. intros x Hx. apply HmemHigh. lia.
  - intros Hda. destruct (LF5 Hda) as [E1 [E2 E3]].
    apply (holds_ext (st_mem sD)); [intros x Hx; apply HmemX; right; lia|].
    rewrite HmemD, da_cond_eq. destruct (Z.eqb_spec (fo_da_off o) (-1)); [congruence|]. cbn [negb].
    rewrite HspP'. assert (Hne : sa <> 4).
    { intros E. unfold sa, fin_sa in E. destruct arch_consts as [Esp' [Efp _]]. rewrite Esp', Efp in E.
      assert (Hd : fin_has_da f = true).
      { pose proof (layout_chain f WF) as L. cbv zeta in L. fold o in L. destruct L as [_ [_ [_ [_ [_ [Hd _]]]]]]. apply Hd; auto. }
      rewrite Hd in E. cbn [andb] in E.
      destruct (fi_sa_reg f =? id_bad); [rewrite Z.eqb_refl in E; discriminate|].
      destruct (Z.eqb_spec (fi_sa_reg f) 4); [discriminate|congruence]. }
    assert (Esa : st_reg sP 0 sa = sp0 - pp).
    { rewrite <- HregsD. rewrite (HsaV Hne). unfold x86_sa_value. rewrite E3. reflexivity. }
    rewrite Esa. apply holds_store_same.
  - intros k id Hk. assert (Hlt : (k < length L1)%nat) by (apply nth_error_Some; congruence).
    rewrite <- (HregX 1 id) by lia.
    eapply holds_ext; [|apply (Hsl1 k id Hk)]. intros x Hx.
    rewrite Hmem3 by (rewrite Hregs2; lia). apply Hmem2. lia.
  - intros k id Hk. assert (Hlt : (k < length L2)%nat) by (apply nth_error_Some; congruence).
    rewrite <- (HregX 2 id) by lia.
    eapply holds_ext; [|apply (Hsl2 k id Hk)]. intros x Hx. apply Hmem3. rewrite Hregs2. lia.
  - intros k id Hk. rewrite <- (HregX 3 id) by lia. specialize (Hsl3 k id Hk). rewrite Hregs2, Hspb in Hsl3. exact Hsl3.
Qed.

(* ------------------------------------------------------------------ the body and the epilog *)
(* addresses the body may write, relative to the entry sp (sp0) and the body sp *)
Definition body_may_write (sp0 x : Z) : Prop :=
  let spb := x86_sp_body sp0 in
  x < spb \/ spb <= x < spb + fi_call_size f \/
  spb + fo_local_off o <= x < spb + fo_local_off o + fi_local_size f \/ sp0 + ws <= x.

Record body_ok (s0 s1 s2 : state) : Prop := mk_bok {
  bo_ret : st_ret s2 = None;
  bo_sp : st_reg s2 0 4 = st_reg s1 0 4;
  bo_fp : has_fp = true -> st_reg s2 0 5 = st_reg s1 0 5;
  (* round 6: only registers the convention PRESERVES need to be left alone when they are not in the dirty set - a body may
     clobber volatile registers without declaring them *)
  bo_regs : forall g r, Z.testbit (qget (fo_dirty o) g) r = false -> Z.testbit (qget (cc_preserved cc) g) r = true -> st_reg s2 g r = st_reg s1 g r;
  bo_mem : forall x, ~ body_may_write (st_reg s0 0 4) x -> st_mem s2 x = st_mem s1 x
}.

Definition seg_cleanup : list instr :=
  (if fi_mmx_cleanup f then [(Memms, [])] else []) ++
  (if fi_avx_cleanup f || (fi_avx_auto_cleanup f && negb (qget (fo_dirty o) 1 =? 0)) then [(Mvzeroupper, [])] else []).

Definition seg_restore : list instr :=
  if fi_has_fp f then
    (if fo_push_pop_size o - reg_size a =? 0 then [(Mmov, [gpr a 4; gpr a 5])]
     else [(Mlea, [gpr a 4; OMem 5 (- (fo_push_pop_size o - reg_size a)) 0])])
  else if fo_has_da o && negb (fo_da_off o =? -1) then [(Mmov, [gpr a 4; OMem 4 (fo_da_off o) 0])]
  else if negb (fo_stack_adj o =? 0) then [(Madd, [gpr a 4; OImm (fo_stack_adj o)])]
  else [].

Definition seg_ret : list instr := [(Mret, if fo_callee_cleanup o =? 0 then [] else [OImm (fo_callee_cleanup o)])].

Lemma x86_epilog_segs :
  x86_epilog f o = x86_extra_all false f o ++ (seg_cleanup ++ seg_restore ++ pop_list a (rev (bits_of 16 (x86_gp_saved f o))) ++
                   (if fi_has_fp f then [(Mpop, [gpr a 5])] else []) ++ seg_ret).
Proof.
  unfold x86_epilog. cbv zeta. unfold seg_cleanup, seg_restore, seg_ret, pop_list. rewrite <- !app_assoc. reflexivity.
Qed.

Lemma run_cleanup s : st_ret s = None -> run a seg_cleanup s = Some s.
Proof.
  intros H. unfold seg_cleanup.
  destruct (fi_mmx_cleanup f); destruct (fi_avx_cleanup f || _); cbn [app run]; rewrite ?step_nop by (cbn; auto 10); reflexivity.
Qed.

Lemma trunc_idem n v : 0 <= n -> trunc n (trunc n v) = trunc n v.
Proof. intros. unfold trunc. apply Z.mod_mod. apply Z.pow_nonzero; lia. Qed.

Lemma trunc_small n v : 0 <= v < 2 ^ (8 * n) -> trunc n v = v.
Proof. intros. unfold trunc. apply Z.mod_small; auto. Qed.

Lemma protected_not_writable sp0 x :
  x86_sp_body sp0 + fo_local_off o + fi_local_size f <= x < sp0 + ws -> ~ body_may_write sp0 x.
Proof.
  pose proof layout_facts as [LF1 [LF2 [LF3 [LF4 [LF5 [LF6 [LF7 LF8]]]]]]]. pose proof (wi_lsize f WF).
  unfold body_may_write. cbv zeta. intros Hx [H1|[H1|[H1|H1]]]; lia.
Qed.

Theorem x86_epilog_correct s0 s1 s2 ra :
  let sp0 := st_reg s0 0 4 in
  prolog_post s0 s1 -> body_ok s0 s1 s2 ->
  holds (st_mem s0) sp0 ws ra -> (sp0 + ws) mod cc_natural cc = 0 -> pp <= sp0 < 2 ^ (8 * ws) ->
  exists s3, run a (x86_epilog f o) s2 = Some s3 /\
    st_ret s3 = Some ra /\ st_reg s3 0 4 = sp0 + ws + fo_callee_cleanup o /\
    (forall g r, Z.testbit (qget (cc_preserved cc) g) r = true ->
                 trunc (qget (cc_srsize cc) g) (st_reg s3 g r) = trunc (qget (cc_srsize cc) g) (st_reg s0 g r)) /\
    st_mem s3 = st_mem s2 /\
    (forall g r, (g, r) <> (0, 4) -> (has_fp = true -> (g, r) <> (0, 5)) -> Z.testbit (saved_regs f o g) r = false ->
                 st_reg s3 g r = st_reg s2 g r).
Proof.
  intros sp0 PP BO Hra Hentry Hrange.
  pose proof layout_facts as [LF1 [LF2 [LF3 [LF4 [LF5 [LF6 [LF7 LF8]]]]]]].
  pose proof (ws_pos a HX) as Hws. fold ws in Hws. pose proof (wi_lsize f WF) as Hls.
  destruct PP as [Qsp Qret Qfp Qregs Qsa Qabove Qbelow Qfps Qpush Qda Qx1 Qx2 Qx3]. fold sp0 in Qsp, Qfp, Qsa, Qabove, Qfps, Qpush, Qda, Qx1, Qx2, Qx3.
  destruct BO as [Bret Bsp Bfp Bregs Bmem]. fold sp0 in Bmem.
  set (spb := x86_sp_body sp0) in *.
  assert (Hbelow : spb + fo_stack_adj o <= sp0 - pp).
  { unfold spb, x86_sp_body. cbv zeta. pose proof (sal_pos f WF) as Hsal. fold sal in Hsal.
    pose proof (Z.mod_pos_bound (sp0 - pp) sal Hsal). destruct (fo_has_da o); lia. }
  (* memory facts transfer to s2 *)
  assert (T : forall b n v, spb + fo_local_off o + fi_local_size f <= b -> b + n <= sp0 + ws ->
                            holds (st_mem s1) b n v -> holds (st_mem s2) b n v).
  { intros b n v H1 H2 Hh. eapply holds_ext; [|exact Hh]. intros x Hx. apply Bmem. apply protected_not_writable. fold spb. lia. }
  assert (Hoffs : off2 = off1 + 16 * Z.of_nat (length L1) /\ off3 = off2 + 8 * Z.of_nat (length L2) /\
                  off_end = off3 + 8 * Z.of_nat (length L3)) by (unfold off_end, off3, off2; lia).
  destruct Hoffs as [Ho2 [Ho3 Hoe]].
  assert (Hpo : off_end <= fo_push_pop_off o).
  { destruct (Z.eq_dec (fo_da_off o) (-1)) as [E|E]; [apply LF4; auto | destruct (LF5 E) as [E1 [E2 _]]; lia]. }
  assert (Hsp2 : st_reg s2 0 4 = spb) by (rewrite Bsp; exact Qsp).
  rewrite x86_epilog_segs. unfold x86_extra_all. cbv zeta.
  assert (Esp : sp_id a = 4) by apply arch_consts. rewrite Esp.
  fold L1 L2 L3. change (fo_extra_off o) with off1. fold off2. fold off3.
  (* 1. loads of the extra groups *)
  assert (Hal1 : aligned_mov (x86_vec_mov f o) = true -> (st_reg s2 0 4 + off1) mod 16 = 0).
  { rewrite vecmov_aligned, Hsp2. apply extra_area_aligned; auto. }
  assert (S1 : forall k id, nth_error L1 k = Some id -> holds (st_mem s2) (st_reg s2 0 4 + off1 + 16 * Z.of_nat k) 16 (trunc 16 (st_reg s0 1 id))).
  { intros k id Hk. assert (Hlt : (k < length L1)%nat) by (apply nth_error_Some; congruence).
    rewrite Hsp2. apply T; try lia. apply Qx1; auto. }
  rewrite run_app. rewrite run_app.
  destruct (run_extra_loads a HX _ _ _ (fun id => trunc 16 (st_reg s0 1 id)) vecmov_x L1 off1 s2 Bret (bits_of_NoDup _ _) ok1 Hal1 S1)
    as [t1 [Hrun1 [Hv1 [Hr1 [Hm1 Hret1]]]]].
  rewrite Hrun1.
  assert (Hsp_t1 : st_reg t1 0 4 = spb) by (rewrite Hr1 by (intros; discriminate); exact Hsp2).
  assert (S2 : forall k id, nth_error L2 k = Some id -> holds (st_mem t1) (st_reg t1 0 4 + off2 + 8 * Z.of_nat k) 8 (trunc 8 (st_reg s0 2 id))).
  { intros k id Hk. assert (Hlt : (k < length L2)%nat) by (apply nth_error_Some; congruence).
    rewrite Hsp_t1, Hm1. apply T; try lia. apply Qx2; auto. }
  destruct (run_extra_loads a HX Mkmovq 2 8 (fun id => trunc 8 (st_reg s0 2 id)) eq_refl L2 off2 t1 Hret1 (bits_of_NoDup _ _) ok2 ltac:(discriminate) S2)
    as [t2 [Hrun2 [Hv2 [Hr2 [Hm2 Hret2]]]]].
  rewrite run_app, Hrun2.
  assert (Hsp_t2 : st_reg t2 0 4 = spb) by (rewrite Hr2 by (intros; discriminate); exact Hsp_t1).
  assert (S3 : forall k id, nth_error L3 k = Some id -> holds (st_mem t2) (st_reg t2 0 4 + off3 + 8 * Z.of_nat k) 8 (trunc 8 (st_reg s0 3 id))).
  { intros k id Hk. assert (Hlt : (k < length L3)%nat) by (apply nth_error_Some; congruence).
    rewrite Hsp_t2, Hm2, Hm1. apply T; try lia. apply Qx3; auto. }
  destruct (run_extra_loads a HX Mmovq 3 8 (fun id => trunc 8 (st_reg s0 3 id)) eq_refl L3 off3 t2 Hret2 (bits_of_NoDup _ _) ok3 ltac:(discriminate) S3)
    as [t3 [Hrun3 [Hv3 [Hr3 [Hm3 Hret3]]]]].
  rewrite Hrun3.
  assert (Hm_t3 : st_mem t3 = st_mem s2) by (rewrite Hm3, Hm2, Hm1; reflexivity).
  assert (Hgp_t3 : forall r, st_reg t3 0 r = st_reg s2 0 r).
  { intros r. rewrite Hr3, Hr2, Hr1 by (intros; discriminate). reflexivity. }
  (* 2. cleanup *)
  rewrite run_app, run_cleanup by auto.
  (* 3. restore sp *)
  assert (R : exists t4, run a seg_restore t3 = Some t4 /\ st_reg t4 0 4 = sp0 - pp /\
              (forall g r, (g, r) <> (0, 4) -> st_reg t4 g r = st_reg t3 g r) /\ st_mem t4 = st_mem t3 /\ st_ret t4 = None).
  { unfold seg_restore. change (fo_push_pop_size o) with pp. fold ws.
    destruct (fi_has_fp f) eqn:Hfp.
    - assert (Hbp : st_reg t3 0 5 = sp0 - ws) by (rewrite Hgp_t3, Bfp, Qfp; auto).
      destruct (Z.eqb_spec (pp - ws) 0) as [E|E]; cbn [run].
      + rewrite step_mov_rr by auto. eexists. split; [reflexivity|]. splits; auto.
        * rewrite reg_set_same, Hbp. lia.
        * intros g r H. apply reg_set_other; auto.
      + rewrite step_lea by auto. eexists. split; [reflexivity|]. splits; auto.
        * rewrite reg_set_same, Hbp. lia.
        * intros g r H. apply reg_set_other; auto.
    - fold da_cond. rewrite da_cond_eq. destruct (Z.eqb_spec (fo_da_off o) (-1)) as [E|E]; cbn [negb].
      + assert (Hnda : fo_has_da o = false).
        { destruct (fo_has_da o) eqn:Hd; auto. exfalso.
          change (fo_da_off o) with (if fin_has_da f && negb (fi_has_fp f) then fo_extra_off o + fin_ex f else -1) in E.
          change (fo_has_da o) with (fin_has_da f) in Hd. rewrite Hd, Hfp in E. cbn [negb andb] in E.
          pose proof (layout_chain f WF) as L. cbv zeta in L. fold o in L. destruct L as [Hc [Hl [Hex0 _]]].
          change (fin_ex f) with (fo_extra_size o) in E. lia. }
        assert (Hspb : spb = sp0 - pp - fo_stack_adj o) by (unfold spb, x86_sp_body; cbv zeta; rewrite Hnda; reflexivity).
        destruct (Z.eqb_spec (fo_stack_adj o) 0) as [E0|E0]; cbn [negb run].
        * exists t3. splits; auto. rewrite Hgp_t3, Hsp2. lia.
        * rewrite step_add by auto. eexists. split; [reflexivity|]. splits; auto.
          -- rewrite reg_set_same, Hgp_t3, Hsp2. lia.
          -- intros g r H. apply reg_set_other; auto.
      + cbn [run]. destruct (LF5 E) as [E1 [E2 E3]].
        assert (Hslot : holds (st_mem t3) (st_reg t3 0 4 + fo_da_off o) ws (trunc ws (sp0 - pp))).
        { rewrite Hm_t3, Hgp_t3, Hsp2. apply T; try lia. apply Qda; auto. }
        rewrite (step_load_gp _ _ _ _ _ Hret3 Hslot). eexists. split; [reflexivity|]. splits; auto.
        * rewrite reg_set_same. apply trunc_small. lia.
        * intros g r H. apply reg_set_other; auto. }
  destruct R as [t4 [Hrun4 [Hsp4 [Hr4 [Hm4 Hret4]]]]].
  rewrite run_app, Hrun4.
  (* 4. pops *)
  rewrite gpl_16.
  assert (Hnd : NoDup (rev gpl)) by (apply NoDup_rev; apply bits_of_NoDup).
  assert (Hne : forall r, In r (rev gpl) -> r <> 4) by (intros r Hr; apply in_rev in Hr; apply gpl_In in Hr; tauto).
  assert (Hm_t4 : st_mem t4 = st_mem s2) by (rewrite Hm4; exact Hm_t3).
  pose proof pp_eq as Hppe.
  assert (Hpp_ge : ws * Z.of_nat (length gpl) <= pp) by (rewrite Hppe; destruct (fi_has_fp f); nia).
  assert (SP : forall k r, nth_error (rev gpl) k = Some r ->
               holds (st_mem t4) (st_reg t4 0 4 + ws * Z.of_nat k) ws (trunc ws (st_reg s0 0 r))).
  { intros k r Hk. assert (Hlt : (k < length (rev gpl))%nat) by (apply nth_error_Some; congruence). rewrite rev_length in Hlt.
    rewrite Hsp4, Hm_t4. apply T; try nia. apply Qpush; auto. }
  destruct (run_pops a HX (fun r => trunc ws (st_reg s0 0 r)) (rev gpl) t4 Hret4 Hnd Hne SP)
    as [t5 [Hrun5 [Hsp5 [Hv5 [Hr5 [Hm5 Hret5]]]]]].
  fold ws in Hsp5. rewrite rev_length in Hsp5. rewrite run_app, Hrun5.
  (* 5. pop bp and 6. ret *)
  assert (Hra2 : holds (st_mem t5) sp0 ws ra).
  { rewrite Hm5, Hm_t4. apply T; try lia. eapply holds_ext; [|exact Hra]. intros x Hx. apply Qabove. lia. }
  assert (F : exists t6, run a ((if fi_has_fp f then [(Mpop, [gpr a 5])] else []) ++ seg_ret) t5 = Some t6 /\
              st_ret t6 = Some ra /\ st_reg t6 0 4 = sp0 + ws + fo_callee_cleanup o /\
              (has_fp = true -> st_reg t6 0 5 = trunc ws (st_reg s0 0 5)) /\
              (forall g r, (g, r) <> (0, 4) -> (has_fp = true -> (g, r) <> (0, 5)) -> st_reg t6 g r = st_reg t5 g r) /\
              st_mem t6 = st_mem t5).
  { unfold seg_ret. destruct (fi_has_fp f) eqn:Hfp.
    - assert (Hs5 : st_reg t5 0 4 = sp0 - ws) by (rewrite Hsp5, Hsp4, Hppe; lia).
      assert (Hslot : holds (st_mem t5) (st_reg t5 0 4) ws (trunc ws (st_reg s0 0 5))).
      { rewrite Hs5, Hm5, Hm_t4. apply T; try lia. apply Qfps; auto. }
      cbn [app run]. rewrite (step_pop _ _ _ Hret5 Hslot). set (t5' := set_reg _ 0 5 _).
      assert (Hs5' : st_reg t5' 0 4 = sp0).
      { unfold t5'. rewrite reg_set_other_r by lia. rewrite reg_set_same. lia. }
      assert (Hra3 : holds (st_mem t5') (st_reg t5' 0 4) ws ra) by (rewrite Hs5'; exact Hra2).
      assert (Hret5' : st_ret t5' = None) by (unfold t5'; cbn; exact Hret5).
      destruct (Z.eqb_spec (fo_callee_cleanup o) 0) as [E|E].
      + rewrite (step_ret0 t5' ra Hret5' Hra3). eexists. split; [reflexivity|]. splits;
          [ reflexivity
          | cbn [set_ret st_reg]; rewrite reg_set_same, Hs5'; lia
          | intros _; cbn [set_ret st_reg]; rewrite reg_set_other_r by lia; unfold t5'; apply reg_set_same
          | intros g r H4 H5; specialize (H5 eq_refl); cbn [set_ret st_reg]; rewrite reg_set_other by auto;
            unfold t5'; rewrite !reg_set_other by auto; reflexivity
          | reflexivity ].
      + rewrite (step_retn t5' ra _ Hret5' Hra3). eexists. split; [reflexivity|]. splits;
          [ reflexivity
          | cbn [set_ret st_reg]; rewrite reg_set_same, Hs5'; lia
          | intros _; cbn [set_ret st_reg]; rewrite reg_set_other_r by lia; unfold t5'; apply reg_set_same
          | intros g r H4 H5; specialize (H5 eq_refl); cbn [set_ret st_reg]; rewrite reg_set_other by auto;
            unfold t5'; rewrite !reg_set_other by auto; reflexivity
          | reflexivity ].
    - assert (Hs5 : st_reg t5 0 4 = sp0) by (rewrite Hsp5, Hsp4, Hppe; lia).
      assert (Hra3 : holds (st_mem t5) (st_reg t5 0 4) ws ra) by (rewrite Hs5; exact Hra2).
      cbn [app run]. destruct (Z.eqb_spec (fo_callee_cleanup o) 0) as [E|E].
      + rewrite (step_ret0 _ _ Hret5 Hra3). eexists. split; [reflexivity|]. splits;
          [ reflexivity
          | cbn [set_ret st_reg]; rewrite reg_set_same, Hs5; lia
          | discriminate
          | intros g r H4 _; cbn [set_ret st_reg]; apply reg_set_other; auto
          | reflexivity ].
      + rewrite (step_retn _ _ _ Hret5 Hra3). eexists. split; [reflexivity|]. splits;
          [ reflexivity
          | cbn [set_ret st_reg]; rewrite reg_set_same, Hs5; lia
          | discriminate
          | intros g r H4 _; cbn [set_ret st_reg]; apply reg_set_other; auto
          | reflexivity ]. }
  destruct F as [t6 [Hrun6 [Hret6 [Hsp6 [Hbp6 [Hr6 Hm6]]]]]].
  (* frame conditions of the epilog: no memory write; only sp, (bp) and the saved registers change *)
  assert (FM : st_mem t6 = st_mem s2) by (rewrite Hm6, Hm5; exact Hm_t4).
  assert (FR : forall g r, (g, r) <> (0, 4) -> (has_fp = true -> (g, r) <> (0, 5)) -> Z.testbit (saved_regs f o g) r = false ->
               st_reg t6 g r = st_reg s2 g r).
  { intros g r N4 N5 Hns.
    assert (NG : g = 0 -> ~ In r (rev gpl)).
    { intros -> Hin. apply in_rev in Hin. apply gpl_In in Hin. destruct Hin as [_ [_ [_ Hin]]].
      rewrite <- saved0_eq in Hin. congruence. }
    rewrite Hr6, Hr5, Hr4 by auto.
    rewrite Hr3 by (intros -> Hin; unfold L3 in Hin; apply bits_of_In in Hin; destruct Hin as [_ Hin]; congruence).
    rewrite Hr2 by (intros -> Hin; unfold L2 in Hin; apply bits_of_In in Hin; destruct Hin as [_ Hin]; congruence).
    rewrite Hr1 by (intros -> Hin; unfold L1 in Hin; apply bits_of_In in Hin; destruct Hin as [_ Hin]; congruence).
    reflexivity. }
  rewrite Hrun6. exists t6. split; [reflexivity|]. splits; auto.
  (* callee-saved registers *)
  intros g r Hp.
  destruct x86_cc as [Hsz [_ [Hpr [Hp4 Hp5]]]]. rewrite Hsz. destruct x86_cc_masks as [Hm1' [Hm2' Hm3']].
  assert (Hg : g = 0 \/ g = 1 \/ g = 2 \/ g = 3).
  { unfold qget in Hp. destruct (Z.eqb_spec g 0); auto. destruct (Z.eqb_spec g 1); auto. destruct (Z.eqb_spec g 2); auto.
    destruct (Z.eqb_spec g 3); auto. rewrite Z.testbit_0_l in Hp. discriminate. }
  assert (Hr0 : 0 <= r) by (destruct (Z_lt_le_dec r 0); auto; rewrite Z.testbit_neg_r in Hp by lia; discriminate).
  assert (Hr32 : g <> 0 -> r < 32).
  { intros Hg0. destruct (Z_lt_le_dec r 32); auto. exfalso.
    destruct Hg as [->|[->|[->| ->]]]; [congruence| | |]; cbn [qget Z.eqb Pos.eqb] in Hp;
      [rewrite (testbit_above _ 32 r Hm1') in Hp by lia | rewrite (testbit_above _ 32 r Hm2') in Hp by lia
       | rewrite (testbit_above _ 32 r Hm3') in Hp by lia]; discriminate. }
  assert (Hsaved_dirty : forall g' r', Z.testbit (saved_regs f o g') r' = true -> Z.testbit (qget (fo_dirty o) g') r' = true).
  { intros g' r' H. unfold saved_regs in H. rewrite Z.land_spec in H. apply andb_true_iff in H. tauto. }
  destruct (Z.testbit (qget (fo_dirty o) g) r) eqn:Hd.
  - (* saved register *)
    assert (Hs : Z.testbit (saved_regs f o g) r = true) by (unfold saved_regs; rewrite Z.land_spec, Hd; exact Hp).
    destruct Hg as [->|[->|[->| ->]]]; cbn [x86_sr_size qget Z.eqb Pos.eqb q0 q1 q2 q3].
    + rewrite saved0_eq in Hs. pose proof (saved0_bits r Hs) as [Hr16 Hr4'].
      destruct (fi_has_fp f) eqn:Hfp.
      * destruct (Z.eq_dec r 5) as [->|Hr5'].
        -- rewrite Hbp6 by auto. apply trunc_idem. lia.
        -- assert (Hin : In r (rev gpl)).
           { rewrite <- in_rev. unfold gpl, x86_gp_saved. rewrite Hfp. apply bits_of_In. split; [cbn; lia|].
             rewrite clear_bit_testbit by lia. rewrite saved0_eq, Hs. destruct (Z.eqb_spec r 5); [congruence|reflexivity]. }
           rewrite Hr6 by (intros; congruence). rewrite (Hv5 r Hin). apply trunc_idem. lia.
      * assert (Hin : In r (rev gpl)).
        { rewrite <- in_rev. unfold gpl, x86_gp_saved. rewrite Hfp. apply bits_of_In. split; [cbn; lia|]. rewrite saved0_eq. exact Hs. }
        rewrite Hr6 by (intros; congruence). rewrite (Hv5 r Hin). apply trunc_idem. lia.
    + assert (Hin : In r L1) by (unfold L1; apply bits_of_In; split; auto; specialize (Hr32 ltac:(lia)); cbn; lia).
      rewrite Hr6, Hr5, Hr4, Hr3, Hr2 by (intros; congruence). rewrite (Hv1 r Hin). apply trunc_idem. lia.
    + assert (Hin : In r L2) by (unfold L2; apply bits_of_In; split; auto; specialize (Hr32 ltac:(lia)); cbn; lia).
      rewrite Hr6, Hr5, Hr4, Hr3 by (intros; congruence). rewrite (Hv2 r Hin). apply trunc_idem. lia.
    + assert (Hin : In r L3) by (unfold L3; apply bits_of_In; split; auto; specialize (Hr32 ltac:(lia)); cbn; lia).
      rewrite Hr6, Hr5, Hr4 by (intros; congruence). rewrite (Hv3 r Hin). apply trunc_idem. lia.
  - (* preserved but not dirty: never touched by prolog, body or epilog *)
    assert (N4 : (g, r) <> (0, 4)) by (intros E; inversion E; subst; cbn [qget Z.eqb] in Hp; congruence).
    assert (N5 : has_fp = true -> (g, r) <> (0, 5)).
    { intros Hfp E. inversion E; subst. change (qget (fo_dirty o) 0) with (q0 (fin_dirty f)) in Hd. rewrite dirty0_fp in Hd by auto. discriminate. }
    assert (NS : sa <> 4 -> (g, r) <> (0, sa)).
    { intros Hne' E. inversion E; subst. change (qget (fo_dirty o) 0) with (q0 (fin_dirty f)) in Hd. rewrite dirty0_sa in Hd by auto. discriminate. }
    assert (NG : g = 0 -> ~ In r (rev gpl)).
    { intros -> Hin. apply in_rev in Hin. apply gpl_In in Hin. destruct Hin as [_ [_ [_ Hin]]].
      rewrite <- saved0_eq in Hin. apply Hsaved_dirty in Hin. congruence. }
    assert (NL : forall gg, (gg = 1 -> ~ In r L1) /\ (gg = 2 -> ~ In r L2) /\ (gg = 3 -> ~ In r L3) \/ gg <> g).
    { intros gg. destruct (Z.eq_dec gg g) as [->|]; [left|right; auto].
      splits; intros -> Hin; [unfold L1 in Hin | unfold L2 in Hin | unfold L3 in Hin]; apply bits_of_In in Hin;
        destruct Hin as [_ Hin]; apply Hsaved_dirty in Hin; congruence. }
    assert (E : st_reg t6 g r = st_reg s0 g r).
    { rewrite Hr6, Hr5, Hr4 by auto.
      rewrite Hr3 by (intros ->; destruct (NL 3) as [[_ [_ H]]|H]; auto).
      rewrite Hr2 by (intros ->; destruct (NL 2) as [[_ [H _]]|H]; auto).
      rewrite Hr1 by (intros ->; destruct (NL 1) as [[H _]|H]; auto).
      rewrite Bregs by auto. apply Qregs; auto. }
    rewrite E. reflexivity.
Qed.

(* ------------------------------------------------------------------ stack arguments *)
Lemma x86_stack_args s0 s1 :
  let sp0 := st_reg s0 0 4 in
  prolog_post s0 s1 ->
  (sa <> 4 -> st_reg s1 0 sa + fo_sa_from_sa o = sp0 + ws) /\
  (has_fp = true -> st_reg s1 0 5 + fo_sa_from_sa o = sp0 + ws) /\
  (fo_sa_from_sp o <> -1 -> st_reg s1 0 4 + fo_sa_from_sp o = sp0 + ws).
Proof.
  intros sp0 PP. destruct PP as [Qsp _ Qfp _ Qsa _ _ _ _ _ _ _ _]. fold sp0 in Qsp, Qfp, Qsa.
  destruct arch_consts as [_ [_ [Hlr [_ [_ _]]]]]. destruct x86_cc as [Hsz _].
  assert (Efs : fo_sa_from_sa o = if fi_has_fp f then ws + ws else ws + pp).
  { change (fo_sa_from_sa o) with (if fi_has_fp f && negb (fi_sa_fix f && has_link_reg a)
                                   then (if has_link_reg a then 0 else qget (cc_srsize cc) 0) + qget (cc_srsize cc) 0
                                   else (if has_link_reg a then 0 else qget (cc_srsize cc) 0) + fin_pp f).
    rewrite Hlr, Hsz. rewrite andb_false_r. cbn [negb]. rewrite andb_true_r. reflexivity. }
  splits.
  - intros Hne. rewrite (Qsa Hne), Efs. unfold x86_sa_value. destruct (fi_has_fp f); lia.
  - intros Hfp. rewrite (Qfp Hfp), Efs, Hfp. lia.
  - intros Hv. rewrite Qsp.
    change (fo_sa_from_sp o) with (if fin_has_da f then -1 else
            (if has_link_reg a then fo_final_size o else fo_final_size o + qget (cc_srsize cc) 0)) in *.
    change (fin_has_da f) with (fo_has_da o) in *.
    destruct (fo_has_da o) eqn:Hda; [congruence|]. rewrite Hlr, Hsz. cbn [x86_sr_size qget Z.eqb q0].
    pose proof (layout_chain f WF) as L. cbv zeta in L. fold o in L.
    destruct L as [_ [_ [_ [_ [_ [_ [Hfin [_ [Hnda _]]]]]]]]]. specialize (Hnda Hda).
    unfold x86_sp_body. cbv zeta. rewrite Hda. change (fo_push_pop_size o) with pp in Hfin. lia.
Qed.

(* ------------------------------------------------------------------ prolog ; body ; epilog *)
Theorem x86_roundtrip_sec s0 ra :
  let sp0 := st_reg s0 0 4 in
  st_ret s0 = None -> holds (st_mem s0) sp0 ws ra ->
  (sp0 + ws) mod cc_natural cc = 0 -> pp <= sp0 < 2 ^ (8 * ws) ->
  exists s1, run a (x86_prolog f o) s0 = Some s1 /\
    st_reg s1 0 4 = x86_sp_body sp0 /\ st_ret s1 = None /\
    (sa <> 4 -> st_reg s1 0 sa + fo_sa_from_sa o = sp0 + ws) /\
    (has_fp = true -> st_reg s1 0 5 + fo_sa_from_sa o = sp0 + ws) /\
    (fo_sa_from_sp o <> -1 -> st_reg s1 0 4 + fo_sa_from_sp o = sp0 + ws) /\
    forall s2, body_ok s0 s1 s2 ->
      exists s3, run a (x86_epilog f o) s2 = Some s3 /\
        st_ret s3 = Some ra /\ st_reg s3 0 4 = sp0 + ws + fo_callee_cleanup o /\
        (forall g r, Z.testbit (qget (cc_preserved cc) g) r = true ->
                     trunc (qget (cc_srsize cc) g) (st_reg s3 g r) = trunc (qget (cc_srsize cc) g) (st_reg s0 g r)).
Proof.
  intros sp0 Hret Hra Hentry Hrange.
  destruct (x86_prolog_correct s0 Hret Hentry) as [s1 [Hrun PP]].
  exists s1. split; [exact Hrun|].
  destruct (x86_stack_args s0 s1 PP) as [A1 [A2 A3]].
  splits; auto; try apply PP.
  intros s2 BO. destruct (x86_epilog_correct s0 s1 s2 ra PP BO Hra Hentry Hrange) as [s3 [H1 [H2 [H3 [H4 _]]]]].
  exists s3. splits; auto.
Qed.

(* what the prolog and the epilog must NOT change (same hypotheses as the round trip):
   the prolog leaves the caller's memory (everything at or above the entry sp: return address, stack arguments, the caller's
   frame) untouched, writes nothing below the extra-register save area (call area, local area, everything below the body sp:
   its stores stay inside [body sp + extra_off, entry sp)), and changes no register except sp, bp (when it is the frame
   pointer) and the SA register - arguments reach the body;
   the epilog writes no memory at all and changes only sp, bp (frame pointer) and the registers the frame saved - return values
   (and every other register the frame did not save) leave the function as the body left them *)
Theorem x86_frame_conditions s0 ra :
  let sp0 := st_reg s0 0 4 in
  st_ret s0 = None -> holds (st_mem s0) sp0 ws ra ->
  (sp0 + ws) mod cc_natural cc = 0 -> pp <= sp0 < 2 ^ (8 * ws) ->
  exists s1, run a (x86_prolog f o) s0 = Some s1 /\
    (forall x, sp0 <= x -> st_mem s1 x = st_mem s0 x) /\
    (forall x, x < x86_sp_body sp0 + fo_extra_off o -> st_mem s1 x = st_mem s0 x) /\
    (forall g r, (g, r) <> (0, 4) -> (has_fp = true -> (g, r) <> (0, 5)) -> (sa <> 4 -> (g, r) <> (0, sa)) ->
                 st_reg s1 g r = st_reg s0 g r) /\
    forall s2, body_ok s0 s1 s2 ->
      exists s3, run a (x86_epilog f o) s2 = Some s3 /\
        st_mem s3 = st_mem s2 /\
        (forall g r, (g, r) <> (0, 4) -> (has_fp = true -> (g, r) <> (0, 5)) -> Z.testbit (saved_regs f o g) r = false ->
                     st_reg s3 g r = st_reg s2 g r).
Proof.
  intros sp0 Hret Hra Hentry Hrange.
  destruct (x86_prolog_correct s0 Hret Hentry) as [s1 [Hrun PP]].
  exists s1. split; [exact Hrun|]. split; [apply PP|]. split; [apply PP|]. split; [apply PP|].
  intros s2 BO. destruct (x86_epilog_correct s0 s1 s2 ra PP BO Hra Hentry Hrange) as [s3 [H1 [_ [_ [_ [H5 H6]]]]]].
  exists s3. splits; auto.
Qed.

(* stack arguments END TO END: whatever the caller stored in the argument area (any offset >= 0 above the return address, any
   width) is, after the prolog, readable with the caller's value at the addresses the frame REPORTS: [sp + sa_offset_from_sp]
   (no dynamic alignment), [SA register + sa_offset_from_sa], [bp + sa_offset_from_sa] (frame pointer) *)
Theorem x86_stack_args_intact s0 :
  let sp0 := st_reg s0 0 4 in
  st_ret s0 = None -> (sp0 + ws) mod cc_natural cc = 0 ->
  exists s1, run a (x86_prolog f o) s0 = Some s1 /\
    forall off n v, 0 <= off -> holds (st_mem s0) (sp0 + ws + off) n v ->
      (fo_sa_from_sp o <> -1 -> holds (st_mem s1) (st_reg s1 0 4 + fo_sa_from_sp o + off) n v) /\
      (sa <> 4 -> holds (st_mem s1) (st_reg s1 0 sa + fo_sa_from_sa o + off) n v) /\
      (has_fp = true -> holds (st_mem s1) (st_reg s1 0 5 + fo_sa_from_sa o + off) n v).
Proof.
  intros sp0 Hret Hentry.
  destruct (x86_prolog_correct s0 Hret Hentry) as [s1 [Hrun PP]].
  exists s1. split; [exact Hrun|]. intros off n v Hoff Hh.
  destruct (x86_stack_args s0 s1 PP) as [A1 [A2 A3]]. fold sp0 in A1, A2, A3.
  pose proof (ws_pos a HX) as Hws. fold ws in Hws.
  assert (K : holds (st_mem s1) (sp0 + ws + off) n v).
  { eapply holds_ext; [|exact Hh]. intros x Hx. apply (pq_mem_above _ _ PP). fold sp0. lia. }
  splits.
  - intros H. rewrite (A3 H). exact K.
  - intros H. rewrite (A1 H). exact K.
  - intros H. rewrite (A2 H). exact K.
Qed.

End X86Frame.

(* C07 — the executable scenario of FrameExec.v is an instance of the round-trip theorem: on every x86/x64 frame in scope, running
   the MODEL's prolog, the hostile body and the model's epilog on the proven machine yields verdict 0.  (So a non-zero verdict on
   the implementation's instruction list can only come from the implementation.) *)
From Coq Require Import ZArith List Bool Lia.
From Verif Require Import Frame.FrameModel Frame.FrameMachine Frame.FrameArith Frame.FrameLayout Frame.FrameMachineLemmas
  Frame.FrameX86Proofs Frame.FrameExec.
Import ListNotations.
Local Open Scope Z_scope.

Lemma first_bad_none g w s0 s3 : forall ids,
  (forall r, In r ids -> trunc w (st_reg s3 g r) = trunc w (st_reg s0 g r)) -> first_bad g ids w s0 s3 = None.
Proof.
  induction ids as [|r rest IH]; intros H; cbn [first_bad]; auto.
  rewrite (H r) by (left; auto). rewrite Z.eqb_refl. apply IH. intros; apply H; right; auto.
Qed.

Theorem exec_frame_ok_x86 f : wf_in f -> is_x86_family (fi_arch f) = true -> x86_regs_exist f ->
  forall sp0 ra,
  (sp0 + reg_size (fi_arch f)) mod cc_natural (fi_cc f) = 0 -> fin_pp f <= sp0 < 2 ^ (8 * reg_size (fi_arch f)) ->
  fst (exec_frame (fi_arch f) (x86_prolog f (finalize f)) (x86_epilog f (finalize f)) sp0 ra (fo_dirty (finalize f))
                  (cc_preserved (fi_cc f)) (cc_srsize (fi_cc f)) (fi_has_fp f) (fi_call_size f) (fo_local_off (finalize f))
                  (fi_local_size f) (fo_callee_cleanup (finalize f))) = 0.
Proof.
  intros WF HX HEX sp0 ra Hentry Hrange.
  destruct (arch_consts f HX) as [Esp [Efp [Elr [_ [Hws Eras]]]]].
  unfold exec_frame. set (s0 := init_state (fi_arch f) sp0 ra).
  assert (Hs0sp : st_reg s0 0 4 = sp0) by (unfold s0, init_state; cbn [st_reg]; rewrite Esp; reflexivity).
  assert (Hs0ret : st_ret s0 = None) by reflexivity.
  assert (Hra : holds (st_mem s0) (st_reg s0 0 4) (reg_size (fi_arch f)) ra).
  { rewrite Hs0sp. intros i Hi. unfold s0, init_state. cbn [st_mem]. rewrite Elr.
    destruct (Z.leb_spec sp0 (sp0 + i)); [|lia]. destruct (Z.ltb_spec (sp0 + i) (sp0 + reg_size (fi_arch f))); [|lia]. cbn [andb]. f_equal. lia. }
  pose proof (x86_roundtrip_sec f WF HX HEX s0 ra) as RT. cbv zeta in RT. rewrite Hs0sp in RT.
  destruct (RT Hs0ret ltac:(rewrite <- Hs0sp; exact Hra) Hentry Hrange) as [s1 [Hrun [Hsp1 [Hret1 [_ [_ [_ Hbody]]]]]]].
  rewrite Hrun. rewrite Esp.
  set (s2 := poison_body _ _ _ _ _ _ _).
  assert (BO : body_ok f s0 s1 s2).
  { constructor.
    - exact Hret1.
    - unfold s2, poison_body. cbn [st_reg]. rewrite Esp. rewrite Z.eqb_refl. cbn [Z.eqb andb orb negb]. rewrite andb_false_r. reflexivity.
    - intros Hfp. unfold s2, poison_body. cbn [st_reg]. rewrite Esp, Efp, Hfp. cbn [Z.eqb Pos.eqb andb orb negb]. rewrite andb_false_r. reflexivity.
    - intros g r Hd _. unfold s2, poison_body. cbn [st_reg]. rewrite Hd. reflexivity.
    - intros x Hx. unfold s2, poison_body. cbn [st_mem]. rewrite Esp, Hsp1.
      unfold body_may_write in Hx. cbv zeta in Hx. rewrite Hs0sp in Hx.
      destruct (Z.ltb_spec x (x86_sp_body f sp0)); [exfalso; apply Hx; auto|].
      destruct (Z.leb_spec (x86_sp_body f sp0) x); [|lia].
      destruct (Z.ltb_spec x (x86_sp_body f sp0 + fi_call_size f)); [exfalso; apply Hx; right; left; lia|].
      destruct (Z.leb_spec (x86_sp_body f sp0 + fo_local_off (finalize f)) x);
        destruct (Z.ltb_spec x (x86_sp_body f sp0 + fo_local_off (finalize f) + fi_local_size f)); cbn [andb orb]; auto.
      exfalso. apply Hx. right; right; left. lia. }
  destruct (Hbody s2 BO) as [s3 [Hrun3 [Hret3 [Hsp3 Hregs]]]].
  rewrite Hrun3, Hret3. rewrite Z.eqb_refl. cbn [negb]. rewrite Hsp3, Eras, Z.eqb_refl. cbn [negb].
  assert (Hchk : forall g, first_bad g (filter (fun r => negb ((g =? 0) && (r =? 4))) (bits_of 32 (qget (cc_preserved (fi_cc f)) g)))
                           (if g =? 0 then reg_size (fi_arch f) else qget (cc_srsize (fi_cc f)) g) s0 s3 = None).
  { intros g. apply first_bad_none. intros r Hin. apply filter_In in Hin. destruct Hin as [Hin _]. apply bits_of_In in Hin. destruct Hin as [_ Hb].
    specialize (Hregs g r Hb). destruct (Z.eqb_spec g 0) as [->|]; auto.
    rewrite (wc_rs _ _ (wi_cc f WF)) in Hregs. exact Hregs. }
  rewrite !Hchk. reflexivity.
Qed.

(* ------------------------------------------------------------------ AArch64 analogue *)
From Verif Require Import Frame.FrameA64Proofs.

Theorem exec_frame_ok_a64 f : wf_in f -> fi_arch f = A64 ->
  (qget (cc_srsize (fi_cc f)) 1 = 8 \/ fin_saved f 1 = 0) -> fin_has_da f = false -> (fi_sa_reg f = id_bad \/ fi_sa_fix f = true) -> fo_stack_adj (finalize f) <= 16777215 ->
  forall sp0 ra, sp0 mod 16 = 0 -> 0 <= ra < 2 ^ 64 ->
  fst (exec_frame A64 (fst (prolog f (finalize f))) (fst (epilog f (finalize f))) sp0 ra (fo_dirty (finalize f))
                  (cc_preserved (fi_cc f)) (cc_srsize (fi_cc f)) (fi_has_fp f) (fi_call_size f) (fo_local_off (finalize f))
                  (fi_local_size f) 0) = 0.
Proof.
  intros WF HA HV HNDA HSA HADJ sp0 ra Hal Hra.
  unfold exec_frame. set (s0 := init_state A64 sp0 ra).
  assert (Hs0sp : st_reg s0 0 31 = sp0) by reflexivity.
  assert (Hs0lr : st_reg s0 0 30 = ra) by reflexivity.
  assert (Hs0ret : st_ret s0 = None) by reflexivity.
  pose proof (a64_roundtrip_sec f WF HA HV HNDA HSA HADJ s0) as RT. cbv zeta in RT. rewrite Hs0sp, Hs0lr in RT.
  destruct (RT Hs0ret Hal Hra) as [s1 [Hrun [_ [Hsp1 [Hret1 [_ [_ [_ [_ Hbody]]]]]]]]].
  rewrite Hrun. cbn [sp_id].
  set (s2 := poison_body _ _ _ _ _ _ _).
  assert (BO : a64_body_ok f s0 s1 s2).
  { constructor.
    - exact Hret1.
    - unfold s2, poison_body. cbn [st_reg sp_id fp_id]. cbn [Z.eqb Pos.eqb andb orb negb]. rewrite andb_false_r. reflexivity.
    - intros Hfp. unfold s2, poison_body. cbn [st_reg sp_id fp_id]. rewrite Hfp. cbn [Z.eqb Pos.eqb andb orb negb]. rewrite andb_false_r. reflexivity.
    - intros g r Hd _. unfold s2, poison_body. cbn [st_reg]. rewrite Hd. reflexivity.
    - intros x Hx. unfold s2, poison_body. cbn [st_mem sp_id]. rewrite Hsp1.
      unfold a64_may_write in Hx. cbv zeta in Hx. rewrite Hs0sp in Hx.
      destruct (Z.ltb_spec x (a64_sp_body f sp0)); [exfalso; apply Hx; auto|].
      destruct (Z.leb_spec (a64_sp_body f sp0) x); [|lia].
      destruct (Z.ltb_spec x (a64_sp_body f sp0 + fi_call_size f)); [exfalso; apply Hx; right; left; lia|].
      destruct (Z.leb_spec (a64_sp_body f sp0 + fo_local_off (finalize f)) x);
        destruct (Z.ltb_spec x (a64_sp_body f sp0 + fo_local_off (finalize f) + fi_local_size f)); cbn [andb orb]; auto.
      exfalso. apply Hx. right; right; left. lia. }
  destruct (Hbody s2 BO) as [s3 [Hrun3 [_ [Hret3 [Hsp3 Hregs]]]]].
  rewrite Hrun3, Hret3. rewrite Z.eqb_refl. cbn [negb]. rewrite Hsp3. unfold ret_addr_size. cbn [has_link_reg].
  replace (sp0 + 0 + 0) with sp0 by lia. rewrite Z.eqb_refl. cbn [negb].
  assert (Hchk : forall g, first_bad g (filter (fun r => negb ((g =? 0) && (r =? 31))) (bits_of 32 (qget (cc_preserved (fi_cc f)) g)))
                           (if g =? 0 then reg_size A64 else qget (cc_srsize (fi_cc f)) g) s0 s3 = None).
  { intros g. apply first_bad_none. intros r Hin. apply filter_In in Hin. destruct Hin as [Hin _]. apply bits_of_In in Hin. destruct Hin as [_ Hb].
    specialize (Hregs g r Hb). destruct (Z.eqb_spec g 0) as [->|]; auto.
    pose proof (wc_rs _ _ (wi_cc f WF)) as E. rewrite HA in E. rewrite E in Hregs. exact Hregs. }
  rewrite !Hchk. reflexivity.
Qed.

(* ------------------------------------------------------------------ what verdict 0 of the argument-copy scenario means *)
Lemma first_bad_none_inv g w s0 s3 : forall ids, first_bad g ids w s0 s3 = None ->
  forall r, In r ids -> trunc w (st_reg s3 g r) = trunc w (st_reg s0 g r).
Proof.
  induction ids as [|x rest IH]; intros H r Hin; [destruct Hin|]. cbn [first_bad] in H.
  destruct (Z.eqb_spec (trunc w (st_reg s3 g x)) (trunc w (st_reg s0 g x))) as [E|E]; [|discriminate].
  destruct Hin as [<-|Hin]; auto.
Qed.

Definition arg_at_destination (a : arch) (s : state) (i : Z) (spec : argspec) : Prop :=
  let '(_, _, dk, dv) := spec in
  if dk =? 0 then st_reg s 0 dv = arg_value i
  else load_mem (st_mem s) (st_reg s 0 (sp_id a) + dv) (reg_size a) = Some (arg_value i).

Lemma first_misplaced_none a s : forall args i, first_misplaced a s args i = None ->
  forall k spec, nth_error args k = Some spec -> arg_at_destination a s (i + Z.of_nat k) spec.
Proof.
  induction args as [|[[[sk sv] dk] dv] rest IH]; intros i H k spec Hk; [destruct k; discriminate|].
  cbn [first_misplaced] in H.
  destruct (if dk =? 0 then st_reg s 0 dv =? arg_value i
            else match load_mem (st_mem s) (st_reg s 0 (sp_id a) + dv) (reg_size a) with Some v => v =? arg_value i | None => false end) eqn:E; [|discriminate].
  destruct k as [|k]; cbn [nth_error] in Hk.
  - inversion Hk; subst spec. unfold arg_at_destination. rewrite Z.add_0_r.
    destruct (dk =? 0); [apply Z.eqb_eq; exact E|].
    destruct (load_mem _ _ _) as [v|]; [|discriminate]. apply Z.eqb_eq in E. congruence.
  - replace (i + Z.of_nat (S k)) with ((i + 1) + Z.of_nat k) by lia. apply (IH (i + 1) H k spec Hk).
Qed.

Theorem exec_args_frame_sound a pro asg epi sp0 ra args dirty preserved srsize has_fp csize local_off lsize cleanup :
  fst (exec_args_frame a pro asg epi sp0 ra args dirty preserved srsize has_fp csize local_off lsize cleanup) = 0 ->
  let s0 := init_state_args a sp0 ra args in
  exists s1 s1' s3,
    run a pro s0 = Some s1 /\ run a asg s1 = Some s1' /\ st_reg s1' 0 (sp_id a) = st_reg s1 0 (sp_id a) /\
    (forall k spec, nth_error args k = Some spec -> arg_at_destination a s1' (Z.of_nat k) spec) /\
    run a epi (poison_body a s1' dirty has_fp csize local_off lsize) = Some s3 /\
    st_ret s3 = Some ra /\ st_reg s3 0 (sp_id a) = sp0 + ret_addr_size a + cleanup /\
    (forall g r, 0 <= g <= 3 -> In r (bits_of 32 (qget preserved g)) -> ~ (g = 0 /\ r = sp_id a) ->
       trunc (if g =? 0 then reg_size a else qget srsize g) (st_reg s3 g r) = trunc (if g =? 0 then reg_size a else qget srsize g) (st_reg s0 g r)).
Proof.
  unfold exec_args_frame. cbv zeta. set (s0 := init_state_args a sp0 ra args).
  destruct (run a pro s0) as [s1|] eqn:E1; [|intros HH; cbn in HH; discriminate HH].
  destruct (run a asg s1) as [s1'|] eqn:E2; [|intros HH; cbn in HH; discriminate HH].
  destruct (Z.eqb_spec (st_reg s1' 0 (sp_id a)) (st_reg s1 0 (sp_id a))) as [Esp|Esp]; [|intros HH; cbn in HH; discriminate HH]. cbn [negb].
  destruct (first_misplaced a s1' args 0) as [i|] eqn:E3; [intros HH; cbn in HH; discriminate HH|].
  destruct (run a epi _) as [s3|] eqn:E4; [|intros HH; cbn in HH; discriminate HH].
  destruct (st_ret s3) as [t|] eqn:E5; [|intros HH; cbn in HH; discriminate HH].
  destruct (Z.eqb_spec t ra) as [Et|Et]; [|intros HH; cbn in HH; discriminate HH]. cbn [negb].
  destruct (Z.eqb_spec (st_reg s3 0 (sp_id a)) (sp0 + ret_addr_size a + cleanup)) as [Es|Es]; [|intros HH; cbn in HH; discriminate HH]. cbn [negb].
  destruct (preserved_check a preserved srsize s0 s3) as [d|] eqn:C; [intros HH; cbn in HH; discriminate HH|].
  intros _. exists s1, s1', s3. repeat match goal with |- _ /\ _ => split end; auto.
  - intros k spec Hk. pose proof (first_misplaced_none a s1' args 0 E3 k spec Hk) as H. rewrite Z.add_0_l in H. exact H.
  - rewrite E5. subst t. reflexivity.
  - intros g r Hg Hin Hne.
    assert (Hc : group_check a preserved srsize s0 s3 g = None).
    { unfold preserved_check in C.
      destruct (group_check a preserved srsize s0 s3 0) eqn:C0; [discriminate|].
      destruct (group_check a preserved srsize s0 s3 1) eqn:C1; [discriminate|].
      destruct (group_check a preserved srsize s0 s3 2) eqn:C2; [discriminate|].
      destruct (group_check a preserved srsize s0 s3 3) eqn:C3; [discriminate|].
      assert (g = 0 \/ g = 1 \/ g = 2 \/ g = 3) as [->|[->|[->| ->]]] by lia; assumption. }
    unfold group_check in Hc. apply (first_bad_none_inv _ _ _ _ _ Hc). apply filter_In. split; auto.
    apply negb_true_iff. destruct (Z.eqb_spec g 0); destruct (Z.eqb_spec r (sp_id a)); cbn; auto. exfalso. apply Hne; auto.
Qed.

(* ------------------------------------------------------------------ round 5: what verdict 0 of the plain-frame scenario means *)
(* for ANY instruction lists (in the check: the implementation's real prolog and epilog): verdict 0 says that the prolog runs on
   the proven machine from the scenario's entry state, the epilog runs after the most hostile confined body, returns to the
   caller's return address with the required sp, and every preserved register of every group has its entry value on its save
   width.  Together with exec_frame_ok_x86 / _a64 (the model's own lists get verdict 0) the verdict is a decision procedure whose
   both directions are proved. *)
Lemma first_bad_some_in g w s0 s3 : forall ids r, first_bad g ids w s0 s3 = Some r -> In r ids.
Proof.
  induction ids as [|x rest IH]; intros r H; cbn [first_bad] in H; [discriminate|].
  destruct (trunc w (st_reg s3 g x) =? trunc w (st_reg s0 g x)); [right; apply IH; exact H | left; congruence].
Qed.

Lemma group_check_nonneg a preserved srsize s0 s3 g r : group_check a preserved srsize s0 s3 g = Some r -> 0 <= r.
Proof.
  unfold group_check. intros H. apply first_bad_some_in in H. apply filter_In in H. destruct H as [H _].
  apply bits_of_In in H. lia.
Qed.

Theorem exec_frame_sound a pro epi sp0 ra dirty preserved srsize has_fp csize local_off lsize cleanup :
  fst (exec_frame a pro epi sp0 ra dirty preserved srsize has_fp csize local_off lsize cleanup) = 0 ->
  let s0 := init_state a sp0 ra in
  exists s1 s3,
    run a pro s0 = Some s1 /\
    snd (exec_frame a pro epi sp0 ra dirty preserved srsize has_fp csize local_off lsize cleanup) = st_reg s1 0 (sp_id a) /\
    run a epi (poison_body a s1 dirty has_fp csize local_off lsize) = Some s3 /\
    st_ret s3 = Some ra /\ st_reg s3 0 (sp_id a) = sp0 + ret_addr_size a + cleanup /\
    (forall g r, 0 <= g <= 3 -> In r (bits_of 32 (qget preserved g)) -> ~ (g = 0 /\ r = sp_id a) ->
       trunc (if g =? 0 then reg_size a else qget srsize g) (st_reg s3 g r) = trunc (if g =? 0 then reg_size a else qget srsize g) (st_reg s0 g r)).
Proof.
  unfold exec_frame. cbv beta zeta. set (s0 := init_state a sp0 ra).
  destruct (run a pro s0) as [s1|] eqn:E1; [|intros HH; cbn in HH; discriminate HH].
  destruct (run a epi _) as [s3|] eqn:E4; [|intros HH; cbn in HH; discriminate HH].
  destruct (st_ret s3) as [t|] eqn:E5; [|intros HH; cbn in HH; discriminate HH].
  destruct (Z.eqb_spec t ra) as [Et|Et]; [|intros HH; cbn in HH; discriminate HH]. cbn [negb].
  destruct (Z.eqb_spec (st_reg s3 0 (sp_id a)) (sp0 + ret_addr_size a + cleanup)) as [Es|Es]; [|intros HH; cbn in HH; discriminate HH]. cbn [negb].
  fold (group_check a preserved srsize s0 s3 0). fold (group_check a preserved srsize s0 s3 1).
  fold (group_check a preserved srsize s0 s3 2). fold (group_check a preserved srsize s0 s3 3).
  destruct (group_check a preserved srsize s0 s3 0) eqn:C0; [apply group_check_nonneg in C0; intros HH; cbn [fst] in HH; lia|].
  destruct (group_check a preserved srsize s0 s3 1) eqn:C1; [apply group_check_nonneg in C1; intros HH; cbn [fst] in HH; lia|].
  destruct (group_check a preserved srsize s0 s3 2) eqn:C2; [apply group_check_nonneg in C2; intros HH; cbn [fst] in HH; lia|].
  destruct (group_check a preserved srsize s0 s3 3) eqn:C3; [apply group_check_nonneg in C3; intros HH; cbn [fst] in HH; lia|].
  intros _. exists s1, s3. repeat match goal with |- _ /\ _ => split end; auto.
  - rewrite E5. subst t. reflexivity.
  - intros g r Hg Hin Hne.
    assert (Hc : group_check a preserved srsize s0 s3 g = None).
    { assert (g = 0 \/ g = 1 \/ g = 2 \/ g = 3) as [->|[->|[->| ->]]] by lia; assumption. }
    unfold group_check in Hc. apply (first_bad_none_inv _ _ _ _ _ Hc). apply filter_In. split; auto.
    apply negb_true_iff. destruct (Z.eqb_spec g 0); destruct (Z.eqb_spec r (sp_id a)); cbn; auto. exfalso. apply Hne; auto.
Qed.

(* ------------------------------------------------------------------ round 6: completeness of the verdicts *)
(* the converse of exec_frame_sound: whenever the scenario's round trip holds for the given lists, the verdict IS 0 - so verdict 0 is
   EQUIVALENT to the round trip of the scenario (no false alarm, no missed failure, for any instruction lists) *)
Lemma group_check_none a preserved srsize s0 s3 g :
  (forall r, In r (bits_of 32 (qget preserved g)) -> ~ (g = 0 /\ r = sp_id a) ->
     trunc (if g =? 0 then reg_size a else qget srsize g) (st_reg s3 g r) = trunc (if g =? 0 then reg_size a else qget srsize g) (st_reg s0 g r)) ->
  group_check a preserved srsize s0 s3 g = None.
Proof.
  intros H. unfold group_check. apply first_bad_none. intros r Hin. apply filter_In in Hin. destruct Hin as [Hin Hf].
  apply H; auto. intros [-> ->]. rewrite !Z.eqb_refl in Hf. discriminate.
Qed.

Theorem exec_frame_complete a pro epi sp0 ra dirty preserved srsize has_fp csize local_off lsize cleanup s1 s3 :
  let s0 := init_state a sp0 ra in
  run a pro s0 = Some s1 ->
  run a epi (poison_body a s1 dirty has_fp csize local_off lsize) = Some s3 ->
  st_ret s3 = Some ra -> st_reg s3 0 (sp_id a) = sp0 + ret_addr_size a + cleanup ->
  (forall g r, 0 <= g <= 3 -> In r (bits_of 32 (qget preserved g)) -> ~ (g = 0 /\ r = sp_id a) ->
     trunc (if g =? 0 then reg_size a else qget srsize g) (st_reg s3 g r) = trunc (if g =? 0 then reg_size a else qget srsize g) (st_reg s0 g r)) ->
  exec_frame a pro epi sp0 ra dirty preserved srsize has_fp csize local_off lsize cleanup = (0, st_reg s1 0 (sp_id a)).
Proof.
  intros s0 H1 H3 Hr Hsp Hregs. unfold exec_frame. cbv beta zeta. fold s0. rewrite H1, H3, Hr, Z.eqb_refl. cbn [negb].
  rewrite Hsp, Z.eqb_refl. cbn [negb].
  fold (group_check a preserved srsize s0 s3 0). fold (group_check a preserved srsize s0 s3 1).
  fold (group_check a preserved srsize s0 s3 2). fold (group_check a preserved srsize s0 s3 3).
  rewrite !group_check_none; [reflexivity| | | |]; intros r Hin Hne; apply Hregs; auto; lia.
Qed.

Lemma first_misplaced_complete a s : forall args i,
  (forall k spec, nth_error args k = Some spec -> arg_at_destination a s (i + Z.of_nat k) spec) -> first_misplaced a s args i = None.
Proof.
  induction args as [|[[[sk sv] dk] dv] rest IH]; intros i H; [reflexivity|]. cbn [first_misplaced].
  pose proof (H 0%nat _ eq_refl) as H0. unfold arg_at_destination in H0. rewrite Z.add_0_r in H0.
  assert (E : (if dk =? 0 then st_reg s 0 dv =? arg_value i
               else match load_mem (st_mem s) (st_reg s 0 (sp_id a) + dv) (reg_size a) with Some v => v =? arg_value i | None => false end) = true).
  { destruct (dk =? 0); [apply Z.eqb_eq; exact H0 | rewrite H0; apply Z.eqb_refl]. }
  rewrite E. apply IH. intros k spec Hk. replace (i + 1 + Z.of_nat k) with (i + Z.of_nat (S k)) by lia. apply H. exact Hk.
Qed.

Theorem exec_args_frame_complete a pro asg epi sp0 ra args dirty preserved srsize has_fp csize local_off lsize cleanup s1 s1' s3 :
  let s0 := init_state_args a sp0 ra args in
  run a pro s0 = Some s1 -> run a asg s1 = Some s1' -> st_reg s1' 0 (sp_id a) = st_reg s1 0 (sp_id a) ->
  (forall k spec, nth_error args k = Some spec -> arg_at_destination a s1' (Z.of_nat k) spec) ->
  run a epi (poison_body a s1' dirty has_fp csize local_off lsize) = Some s3 ->
  st_ret s3 = Some ra -> st_reg s3 0 (sp_id a) = sp0 + ret_addr_size a + cleanup ->
  (forall g r, 0 <= g <= 3 -> In r (bits_of 32 (qget preserved g)) -> ~ (g = 0 /\ r = sp_id a) ->
     trunc (if g =? 0 then reg_size a else qget srsize g) (st_reg s3 g r) = trunc (if g =? 0 then reg_size a else qget srsize g) (st_reg s0 g r)) ->
  fst (exec_args_frame a pro asg epi sp0 ra args dirty preserved srsize has_fp csize local_off lsize cleanup) = 0.
Proof.
  intros s0 H1 H2 Hsp1 Hargs H3 Hr Hsp Hregs. unfold exec_args_frame. cbv beta zeta. fold s0. rewrite H1, H2, Hsp1, Z.eqb_refl. cbn [negb].
  rewrite (first_misplaced_complete a s1' args 0) by (intros k spec Hk; rewrite Z.add_0_l; apply Hargs; exact Hk).
  rewrite H3, Hr, Z.eqb_refl. cbn [negb]. rewrite Hsp, Z.eqb_refl. cbn [negb].
  unfold preserved_check. rewrite !group_check_none; [reflexivity| | | |]; intros r Hin Hne; apply Hregs; auto; lia.
Qed.

(* non-vacuity: the premise "verdict 0" is reachable (the Win64 example frame, model lists), and the verdict discriminates: the same
   frame with the epilog's first instruction (the reload of xmm6) dropped gets verdict 132 + 6 (vector register 6 not restored) *)
From Verif Require Import Frame.FrameExamples.

Definition ex_exec (epi : list instr) : Z :=
  let f := ex_win64 in let o := finalize f in
  fst (exec_frame (fi_arch f) (x86_prolog f o) epi (2 ^ 40 - 8) 4242 (fo_dirty o) (cc_preserved (fi_cc f)) (cc_srsize (fi_cc f))
                  (fi_has_fp f) (fi_call_size f) (fo_local_off o) (fi_local_size f) (fo_callee_cleanup o)).

Lemma ex_exec_frame_verdicts :
  ex_exec (x86_epilog ex_win64 (finalize ex_win64)) = 0 /\ ex_exec (tl (x86_epilog ex_win64 (finalize ex_win64))) = 138.
Proof. split; vm_compute; reflexivity. Qed.

(* non-vacuity for the argument-copy scenario: the Win64 example frame with one register argument (rcx) copied to rbx and one stack
   argument copied into the local area by `mov rax, [rsp+sa]; mov [rsp+local], rax` gets verdict 0; without the first copy verdict 6 *)
Definition ex_args_lists : list instr * list instr :=
  let f := ex_win64 in let o := finalize f in
  ([(Mmov, [gpr X64 3; gpr X64 1]); (Mmov, [gpr X64 0; OMem (fin_sa f) (fo_sa_from_sa o + 40) 0]); (Mmov, [OMem 4 (fo_local_off o) 0; gpr X64 0])],
   [(Mmov, [gpr X64 0; OMem (fin_sa f) (fo_sa_from_sa o + 40) 0]); (Mmov, [OMem 4 (fo_local_off o) 0; gpr X64 0])]).
Definition ex_exec_args (asg : list instr) : Z :=
  let f := ex_win64 in let o := finalize f in
  fst (exec_args_frame (fi_arch f) (x86_prolog f o) asg (x86_epilog f o) (2 ^ 40 - 8) 4242
         [(0, 1, 0, 3); (1, 40, 1, fo_local_off o)] (fo_dirty o) (cc_preserved (fi_cc f)) (cc_srsize (fi_cc f))
         (fi_has_fp f) (fi_call_size f) (fo_local_off o) (fi_local_size f) (fo_callee_cleanup o)).
Lemma ex_exec_args_verdicts : ex_exec_args (fst ex_args_lists) = 0 /\ ex_exec_args (snd ex_args_lists) = 6.
Proof. split; vm_compute; reflexivity. Qed.

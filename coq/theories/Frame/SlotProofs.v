(* C07 — calculate_stack_frame: the gap-reuse branch is dead, slots get pairwise disjoint aligned ranges. *)
From Coq Require Import ZArith List Bool Lia Znumtheory.
From Verif Require Import Frame.FrameArith Frame.SlotModel.
Import ListNotations.
Local Open Scope Z_scope.

Lemma ctz_pos_nonneg p : 0 <= ctz_pos p.
Proof. induction p; cbn [ctz_pos]; lia. Qed.

(* every power of two dividing x is at most 2^ctz(x) *)
Lemma ctz_pos_max : forall (k : nat) p, (2 ^ Z.of_nat k | Zpos p) -> Z.of_nat k <= ctz_pos p.
Proof.
  induction k as [|k IH]; intros p Hd.
  - pose proof (ctz_pos_nonneg p). lia.
  - rewrite Nat2Z.inj_succ, Z.pow_succ_r in Hd by lia. destruct Hd as [q Hq].
    destruct p as [p|p|].
    + exfalso. assert (Zpos p~1 = 2 * Zpos p + 1) by reflexivity. lia.
    + cbn [ctz_pos]. assert (Hp : (2 ^ Z.of_nat k | Zpos p)).
      { exists q. assert (Zpos p~0 = 2 * Zpos p) by reflexivity. lia. }
      specialize (IH p Hp). lia.
    + exfalso. lia.
Qed.

Lemma pow2_le_ctz a x : pow2 a -> 0 < x -> x mod a = 0 -> a <= 2 ^ ctz x.
Proof.
  intros [k [Hk ->]] Hx Hm. destruct x as [|p|p]; try lia. cbn [ctz].
  assert (Hd : (2 ^ Z.of_nat (Z.to_nat k) | Zpos p)).
  { rewrite Z2Nat.id by lia. apply Z.mod_divide; [|exact Hm]. apply Z.pow_nonzero; lia. }
  pose proof (ctz_pos_max _ _ Hd) as H. rewrite Z2Nat.id in H by lia.
  apply Z.pow_le_mono_r; lia.
Qed.

Lemma reg_gaps_S k gaps goff gend :
  reg_gaps (S k) gaps goff gend =
  if goff <? gend then (if gend - goff <? 2 ^ ctz goff then gaps else reg_gaps k (gaps ++ [(ctz goff, goff, 2 ^ ctz goff)]) (goff + 2 ^ ctz goff) gend)
  else gaps.
Proof. reflexivity. Qed.

Definition slot_ok (s : sslot) : Prop := 0 <= ss_size s /\ pow2 (ss_align s).

Lemma align_up_s_eq x a : align_up_s x a = FrameModel.align_up x a.
Proof. reflexivity. Qed.

(* one step from a state without gaps leaves no gaps, uses no gap, and bump-allocates *)
Lemma alloc_step_nogaps st s :
  slot_ok s -> as_gaps st = [] -> 0 <= as_off st ->
  let st' := alloc_step st s in
  as_gaps st' = [] /\ as_gap_used st' = as_gap_used st /\ as_off st <= as_off st' /\
  (ss_arg s = true -> as_off st' = as_off st /\ as_out st' = -1 :: as_out st) /\
  (ss_arg s = false -> exists o, as_out st' = o :: as_out st /\ as_off st <= o /\ o mod ss_align s = 0 /\ as_off st' = o + ss_size s).
Proof.
  intros [Hsz Hal] Hg Hoff. cbv zeta. unfold alloc_step. destruct (ss_arg s) eqn:Ea.
  - cbn. repeat split; auto; try lia; try discriminate.
  - rewrite Hg.
    assert (Hf : (if ss_size s <? 64 then find_gap 6 (ctz (ss_size s)) [] else None) = None).
    { destruct (ss_size s <? 64); auto. generalize (ctz (ss_size s)). intros i.
      cbn [find_gap rev pop_bucket]. repeat (destruct (_ <? 6); [cbn [find_gap rev pop_bucket]|reflexivity]). reflexivity. }
    rewrite Hf. pose proof (pow2_pos _ Hal) as Ha.
    pose proof (align_up_spec (as_off st) (ss_align s) Ha) as [[H1 H2] H3]. rewrite <- align_up_s_eq in H1, H2, H3.
    set (al := align_up_s (as_off st) (ss_align s)) in *.
    cbn [as_gaps as_gap_used as_off as_out]. split.
    + destruct (Z.eqb_spec (as_off st) al) as [E|E]; auto.
      (* the registration loop bails out immediately *)
      change 64%nat with (S 63). rewrite reg_gaps_S. assert (Hpos : 0 < al) by lia.
      destruct (Z.ltb_spec al (al - as_off st + al)); auto.
      pose proof (pow2_le_ctz _ al Hal Hpos H3) as Hc.
      destruct (Z.ltb_spec (al - as_off st + al - al) (2 ^ ctz al)); auto. lia.
    + repeat split; auto; try lia; try discriminate.
      intros _. exists al. repeat split; auto.
Qed.

Definition no_gap_inv (st : astate) : Prop := as_gaps st = [] /\ as_gap_used st = false /\ 0 <= as_off st.

Lemma alloc_fold_inv slots : Forall slot_ok slots -> forall st, no_gap_inv st -> no_gap_inv (fold_left alloc_step slots st).
Proof.
  induction 1 as [|s r Hs Hr IH]; intros st [Hg [Hu Ho]]; cbn [fold_left]; [repeat split; auto|].
  apply IH. destruct (alloc_step_nogaps st s Hs Hg Ho) as [A [B [C _]]]. repeat split; auto; [congruence | lia].
Qed.

(* the gap-reuse branch of calculate_stack_frame is dead: no gap is ever registered, none is ever used *)
Theorem gap_branch_dead slots : Forall slot_ok slots ->
  as_gaps (alloc_all slots) = [] /\ as_gap_used (alloc_all slots) = false.
Proof.
  intros H. destruct (alloc_fold_inv slots H (mk_astate 0 [] [] false)) as [A [B _]]; [repeat split; cbn; lia|]. auto.
Qed.

(* slots (other than stack-argument slots) receive pairwise disjoint, aligned ranges below the final offset *)
Fixpoint ranges_ok (slots : list sslot) (outs : list Z) (lo : Z) : Prop :=
  match slots, outs with
  | [], [] => True
  | s :: r, o :: ro =>
    (if ss_arg s then o = -1 /\ ranges_ok r ro lo
     else lo <= o /\ o mod ss_align s = 0 /\ ranges_ok r ro (o + ss_size s))
  | _, _ => False
  end.

Lemma ranges_ok_hi slots : forall outs lo, Forall slot_ok slots -> ranges_ok slots outs lo -> True.
Proof. auto. Qed.

Lemma alloc_fold_ranges slots : Forall slot_ok slots -> forall st, no_gap_inv st ->
  let st' := fold_left alloc_step slots st in
  exists outs, rev (as_out st') = rev (as_out st) ++ outs /\ ranges_ok slots outs (as_off st) /\ as_off st <= as_off st'.
Proof.
  induction 1 as [|s r Hs Hr IH]; intros st Hinv; cbv zeta; cbn [fold_left].
  - exists []. rewrite app_nil_r. repeat split; auto. lia.
  - destruct Hinv as [Hg [Hu Ho]]. destruct (alloc_step_nogaps st s Hs Hg Ho) as [A [B [C [Darg Dn]]]].
    assert (Hinv' : no_gap_inv (alloc_step st s)) by (repeat split; auto; [congruence | lia]).
    destruct (IH (alloc_step st s) Hinv') as [outs [E1 [E2 E3]]].
    destruct (ss_arg s) eqn:Ea.
    + destruct (Darg eq_refl) as [D1 D2]. exists (-1 :: outs). rewrite E1, D2. cbn [rev]. rewrite <- app_assoc. cbn [app].
      split; auto. split; [|lia]. cbn [ranges_ok]. rewrite Ea. rewrite D1 in E2. auto.
    + destruct (Dn eq_refl) as [o [D1 [D2 [D3 D4]]]]. exists (o :: outs). rewrite E1, D1. cbn [rev]. rewrite <- app_assoc. cbn [app].
      split; auto. split; [|lia]. cbn [ranges_ok]. rewrite Ea. rewrite D4 in E2. auto.
Qed.

Theorem slots_disjoint slots : Forall slot_ok slots ->
  ranges_ok slots (fst (alloc_offsets slots)) 0 /\ 0 <= snd (alloc_offsets slots).
Proof.
  intros H. unfold alloc_offsets, alloc_all. cbn [fst snd].
  destruct (alloc_fold_ranges slots H (mk_astate 0 [] [] false)) as [outs [E1 [E2 E3]]]; [repeat split; cbn; lia|].
  cbn [as_out rev app as_off] in *. rewrite E1. split; auto.
Qed.

(* C07 — executable model of AsmJit's function frames.

   cc_init      : the frame-relevant part of x86/a64 FuncInternal::init_call_conv + FuncFrame::init
   finalize     : FuncFrame::finalize (asmjit/core/func.cpp) — a pure function of the frame attributes
   prolog/epilog: the instruction lists x86::EmitHelper / a64::EmitHelper emit_prolog / emit_epilog produce

   Numbers are unbounded Z (the code uses uint32_t; theorems carry the bounds under which no wrap occurs).
   Register masks are Z used through Z.testbit.  Alignments are expected to be powers of two (API contract),
   align_up is the specification (x + a - 1) / a * a, equal to the code's bit trick on powers of two.
   This file contains definitions only (so it extracts even when a proof breaks). *)
From Coq Require Import ZArith List Bool.
Import ListNotations.
Local Open Scope Z_scope.

(* ------------------------------------------------------------------ basic helpers *)
Definition align_up (x a : Z) : Z := (x + a - 1) / a * a.
Definition align_up_diff (x a : Z) : Z := align_up x a - x.

(* ids i in [from, from+n) whose bit is set in mask m, ascending (Support::BitWordIterator order) *)
Fixpoint bits_from (n : nat) (from : Z) (m : Z) : list Z :=
  match n with
  | O => []
  | S k => if Z.testbit m from then from :: bits_from k (from + 1) m else bits_from k (from + 1) m
  end.
Definition bits_of (n : nat) (m : Z) : list Z := bits_from n 0 m.
Definition popcnt (m : Z) : Z := Z.of_nat (length (bits_of 32 m)).
Definition bit (i : Z) : Z := 2 ^ i.
Definition mask_of (l : list Z) : Z := fold_right (fun i acc => Z.lor (bit i) acc) 0 l.
Definition clear_bit (m i : Z) : Z := Z.ldiff m (bit i).

Record quad := mkq { q0 : Z; q1 : Z; q2 : Z; q3 : Z }.
Definition qget (q : quad) (g : Z) : Z :=
  if g =? 0 then q0 q else if g =? 1 then q1 q else if g =? 2 then q2 q else if g =? 3 then q3 q else 0.

(* ------------------------------------------------------------------ architectures / conventions *)
Inductive arch := X86 | X64 | A64.
Definition is_x86_family (a : arch) : bool := match a with A64 => false | _ => true end.
Definition reg_size (a : arch) : Z := match a with X86 => 4 | _ => 8 end.
Definition sp_id (a : arch) : Z := match a with A64 => 31 | _ => 4 end.
Definition fp_id (a : arch) : Z := match a with A64 => 29 | _ => 5 end.
Definition has_link_reg (a : arch) : bool := match a with A64 => true | _ => false end.
Definition lr_id : Z := 30.
Definition id_bad : Z := 255.
(* ArchTraits::has_inst_push_pop(group) *)
Definition has_push_pop (a : arch) (g : Z) : bool :=
  match a with A64 => (g =? 0) || (g =? 1) | _ => g =? 0 end.

Record callconv := mkcc {
  cc_natural : Z;          (* natural stack alignment *)
  cc_redzone : Z;
  cc_spillzone : Z;
  cc_callee_pops : bool;
  cc_preserved : quad;     (* as stored in the FuncFrame: SP already removed from the GP mask *)
  cc_srsize : quad;        (* save/restore register size per group *)
  cc_sralign : quad        (* save/restore area alignment per group *)
}.

(* platform: 0 Linux, 1 Windows (MSVC ABI), 2 macOS *)
Definition lsb_mask (n : Z) : Z := 2 ^ n - 1.
Definition x86_sr_size (ws : Z) := mkq ws 16 8 8.

(* the conventions fall into a few kinds; cc_init = classification of the id, then the kind's attributes *)
Inductive light := L2 | L3 | L4.
Definition light_n (l : light) : Z := match l with L2 => 2 | L3 => 3 | L4 => 4 end.
Inductive cc_kind :=
| K32Std (callee_pops : bool) | K32Light (n : light)
| K64SysV | K64Win (vectorcall : bool) | K64Light (n : light)
| KA64Cdecl | KA64Other.

Definition light_of (ccid : Z) : option light :=
  if ccid =? 16 then Some L2 else if ccid =? 17 then Some L3 else if ccid =? 18 then Some L4 else None.

Definition classify_x86_32 (plat ccid : Z) : option cc_kind :=
  if ccid =? 0 then Some (K32Std false)
  else if (ccid =? 1) || (ccid =? 2) || (ccid =? 3) then Some (K32Std true)
  else if ccid =? 4 then Some (K32Std (plat =? 1))
  else if (ccid =? 5) || (ccid =? 6) || (ccid =? 7) then Some (K32Std false)
  else match light_of ccid with Some l => Some (K32Light l) | None => None end.

Definition classify_x86_64 (plat ccid : Z) : option cc_kind :=
  let as_cdecl := (ccid =? 0) || (ccid =? 1) || (ccid =? 2) || (ccid =? 4) || (ccid =? 5) || (ccid =? 6) || (ccid =? 7) in
  let ccid := if as_cdecl then (if plat =? 1 then 33 else 32) else ccid in
  if ccid =? 32 then Some K64SysV
  else if ccid =? 33 then Some (K64Win false)
  else if ccid =? 3 then Some (K64Win true)
  else match light_of ccid with Some l => Some (K64Light l) | None => None end.

Definition a64_cdecl_like (ccid : Z) : bool := (0 <=? ccid) && (ccid <=? 7).

Definition classify_a64 (plat ccid : Z) : option cc_kind :=
  if a64_cdecl_like ccid then Some KA64Cdecl
  else if ((16 <=? ccid) && (ccid <=? 18)) || ((30 <=? ccid) && (ccid <=? 33)) then Some KA64Other
  else None.

Definition classify (a : arch) (plat ccid : Z) : option cc_kind :=
  match a with
  | X86 => classify_x86_32 plat ccid
  | X64 => classify_x86_64 plat ccid
  | A64 => classify_a64 plat ccid
  end.

Definition cc_of_kind (k : cc_kind) : callconv :=
  match k with
  | K32Std pops => mkcc 4 0 0 pops (mkq (mask_of [3; 5; 6; 7]) 0 0 0) (x86_sr_size 4) (x86_sr_size 4)
  | K32Light l =>
    mkcc 16 0 0 false (mkq (clear_bit (lsb_mask 8) 4) (Z.ldiff (lsb_mask 8) (lsb_mask (light_n l))) 0 0) (x86_sr_size 4) (x86_sr_size 4)
  | K64SysV => mkcc 16 128 0 false (mkq (mask_of [3; 5; 12; 13; 14; 15]) 0 0 0) (x86_sr_size 8) (x86_sr_size 8)
  | K64Win vc =>
    (* /repo 8e420e4: the home area of vectorcall is 32 bytes like Win64 (was 6*8) *)
    mkcc 16 0 (if vc then 32 else 32) false
         (mkq (mask_of [3; 5; 6; 7; 12; 13; 14; 15]) (mask_of [6; 7; 8; 9; 10; 11; 12; 13; 14; 15]) 0 0) (x86_sr_size 8) (x86_sr_size 8)
  | K64Light l =>
    mkcc 16 0 0 false (mkq (clear_bit (lsb_mask 16) 4) (Z.ldiff (lsb_mask 32) (lsb_mask (light_n l))) 0 0) (x86_sr_size 8) (x86_sr_size 8)
  | KA64Cdecl =>
    mkcc 16 0 0 false (mkq (mask_of [18; 19; 20; 21; 22; 23; 24; 25; 26; 27; 28; 29; 30]) (mask_of [8; 9; 10; 11; 12; 13; 14; 15]) 0 0)
         (mkq 8 8 0 0) (mkq 16 16 8 1)
  | KA64Other =>
    mkcc 16 0 0 false (mkq (Z.ldiff (lsb_mask 31) (lsb_mask 4)) (Z.ldiff (lsb_mask 32) (lsb_mask 4)) 0 0) (mkq 8 16 0 0) (mkq 16 16 8 1)
  end.

(* which kinds belong to which architecture *)
Definition kind_arch (k : cc_kind) : arch :=
  match k with K32Std _ | K32Light _ => X86 | K64SysV | K64Win _ | K64Light _ => X64 | KA64Cdecl | KA64Other => A64 end.

Definition cc_init (a : arch) (plat ccid : Z) : option callconv :=
  match classify a plat ccid with Some k => Some (cc_of_kind k) | None => None end.

(* BaseCompiler::add_func_node: a target that guarantees a greater stack alignment than the convention overrides the natural
   stack alignment (Environment::stack_alignment(): 16 on 64-bit targets and on 32-bit Linux/BSD/Apple, 4 on 32-bit Windows) *)
Definition env_stack_alignment (a : arch) (plat : Z) : Z :=
  match a with X86 => if plat =? 1 then 4 else 16 | _ => 16 end.
Definition cc_with_natural (cc : callconv) (n : Z) : callconv :=
  if cc_natural cc <? n then mkcc n (cc_redzone cc) (cc_spillzone cc) (cc_callee_pops cc) (cc_preserved cc) (cc_srsize cc) (cc_sralign cc) else cc.
Definition compiler_cc (a : arch) (plat : Z) (cc : callconv) : callconv := cc_with_natural cc (env_stack_alignment a plat).

(* FuncFrame::init: min dynamic alignment *)
Definition min_dynamic_alignment (natural : Z) : Z :=
  let m := Z.max natural 16 in if m =? natural then 2 * m else m.

(* ------------------------------------------------------------------ frame attributes (inputs of finalize) *)
Record frame_in := mkfi {
  fi_arch : arch;
  fi_cc : callconv;
  fi_arg_stack_size : Z;       (* FuncDetail::arg_stack_size() (C06) *)
  fi_has_fp : bool;            (* kHasPreservedFP *)
  fi_has_calls : bool;         (* kHasFuncCalls *)
  fi_ibp : bool;               (* kIndirectBranchProtection *)
  fi_avx : bool;
  fi_avx512 : bool;
  fi_mmx_cleanup : bool;
  fi_avx_cleanup : bool;
  fi_avx_auto_cleanup : bool;
  fi_dirty : quad;
  fi_local_size : Z;
  fi_local_align : Z;          (* 0 = never set *)
  fi_call_size : Z;
  fi_call_align : Z;
  fi_sa_reg : Z;               (* 255 = not set *)
  fi_align_fix : bool;         (* tree variant: fixes/C07-final-alignment-truthful.patch applied (probed by the check) *)
  fi_sa_fix : bool             (* tree variant: fixes/C07-a64-sa-register.patch applied (probed by the check, see design/C07.md) *)
}.

Record frame_out := mkfo {
  fo_aligned_vec_sr : bool;
  fo_has_da : bool;
  fo_sa_reg : Z;
  fo_final_align : Z;
  fo_dirty : quad;
  fo_callee_cleanup : Z;
  fo_push_pop_size : Z;
  fo_extra_size : Z;
  fo_local_off : Z;
  fo_extra_off : Z;
  fo_da_off : Z;               (* -1 = invalid *)
  fo_push_pop_off : Z;
  fo_stack_adj : Z;
  fo_final_size : Z;
  fo_sa_from_sp : Z;           (* -1 = invalid *)
  fo_sa_from_sa : Z
}.

Definition requested_alignment (f : frame_in) : Z :=
  Z.max (cc_natural (fi_cc f)) (Z.max (fi_call_align f) (fi_local_align f)).

(* pinned behaviour: the maximum of natural/call/local alignment; with fixes/C07-final-alignment-truthful.patch an alignment that is
   neither natural nor reaches the minimum dynamic alignment is lowered to the natural one (what is really delivered) *)
Definition final_alignment (f : frame_in) : Z :=
  let m := requested_alignment f in
  if fi_align_fix f && (m <? min_dynamic_alignment (cc_natural (fi_cc f))) then cc_natural (fi_cc f) else m.

Definition ret_addr_size (a : arch) : Z := if has_link_reg a then 0 else reg_size a.

Definition callee_cleanup (f : frame_in) : Z :=
  if cc_callee_pops (fi_cc f) then (fi_arg_stack_size f) mod 65536 else 0.

(* has_dynamic_alignment() *)
Definition fin_has_da (f : frame_in) : bool := min_dynamic_alignment (cc_natural (fi_cc f)) <=? final_alignment f.

(* SA register after finalize *)
Definition fin_sa (f : frame_in) : Z :=
  let a := fi_arch f in
  let sa := if fi_sa_reg f =? id_bad then sp_id a else fi_sa_reg f in
  if fin_has_da f && (sa =? sp_id a) then fp_id a else sa.

(* dirty masks after finalize: FP (and LR on AArch64) when the frame preserves FP, the SA register when it is not SP *)
Definition fin_dirty (f : frame_in) : quad :=
  let a := fi_arch f in
  let d0 := q0 (fi_dirty f) in
  let d0 := if fi_has_fp f then Z.lor d0 (bit (fp_id a)) else d0 in
  let d0 := if fi_has_fp f && has_link_reg a then Z.lor d0 (bit lr_id) else d0 in
  let d0 := if fin_sa f =? sp_id a then d0 else Z.lor d0 (bit (fin_sa f)) in
  mkq d0 (q1 (fi_dirty f)) (q2 (fi_dirty f)) (q3 (fi_dirty f)).

Definition fin_saved (f : frame_in) (g : Z) : Z := Z.land (qget (fin_dirty f) g) (qget (cc_preserved (fi_cc f)) g).

(* size of the save area of one group *)
Definition fin_group_size (f : frame_in) (g : Z) : Z :=
  align_up (popcnt (fin_saved f g) * qget (cc_srsize (fi_cc f)) g) (qget (cc_sralign (fi_cc f)) g).

Definition fin_pp (f : frame_in) : Z :=
  fold_right Z.add 0 (map (fun g => if has_push_pop (fi_arch f) g then fin_group_size f g else 0) [0; 1; 2; 3]).
Definition fin_ex (f : frame_in) : Z :=
  fold_right Z.add 0 (map (fun g => if has_push_pop (fi_arch f) g then 0 else fin_group_size f g) [0; 1; 2; 3]).

Definition finalize (f : frame_in) : frame_out :=
  let a := fi_arch f in
  let cc := fi_cc f in
  let rs := qget (cc_srsize cc) 0 in
  let vs := qget (cc_srsize cc) 1 in
  let ras := if has_link_reg a then 0 else rs in
  let sal := final_alignment f in
  let has_fp := fi_has_fp f in
  let has_da := fin_has_da f in
  let pp := fin_pp f in
  let ex := fin_ex f in
  let v := align_up (fi_call_size f) sal in
  let local_off := v in
  let v := v + fi_local_size f in
  let avsr := (vs <=? sal) && negb (ex =? 0) in
  let v := if avsr then align_up v vs else v in
  let extra_off := v in
  let v := v + ex in
  let da_slot := has_da && negb has_fp in
  let da_off := if da_slot then v else -1 in
  let v := if da_slot then v + rs else v in
  let v := if negb (v =? 0) || fi_has_calls f || (ras =? 0) then v + align_up_diff (v + pp + ras) sal else v in
  let pp_off := v in
  let adj := if has_da then align_up v sal else v in
  let fin := v + pp in
  let v := if has_link_reg a then fin else fin + rs in
  mkfo avsr has_da (fin_sa f) sal (fin_dirty f) (callee_cleanup f) pp ex local_off extra_off da_off pp_off adj fin
       (if has_da then -1 else v)
       (if has_fp && negb (fi_sa_fix f && has_link_reg a) then ras + rs else ras + pp).

(* proposed refusal (fixes/C07-a64-refuse-unrealisable-frames.patch): finalize returns kInvalidState for AArch64 frames that need
   dynamic stack alignment or vector saves wider than 8 bytes — what a64 emit_prolog/emit_epilog cannot realise *)
Definition a64_realisable (f : frame_in) : bool :=
  negb (fin_has_da f) && ((qget (cc_srsize (fi_cc f)) 1 <=? 8) || (fin_saved f 1 =? 0)).

(* the error decision of FuncFrame::finalize() as /repo HEAD makes it: kTooLarge (9) when call + local sizes exceed 0x7FFF0000
   (a53b13c, checked first), kInvalidState (3) for an AArch64 frame the emitters cannot realise (fef32d9), kOk (0) otherwise *)
Definition frame_size_limit : Z := 2147418112.
Definition finalize_error (f : frame_in) : Z :=
  if frame_size_limit <? fi_call_size f + fi_local_size f then 9
  else match fi_arch f with A64 => if a64_realisable f then 0 else 3 | _ => 0 end.

Definition saved_regs (f : frame_in) (o : frame_out) (g : Z) : Z :=
  Z.land (qget (fo_dirty o) g) (qget (cc_preserved (fi_cc f)) g).

(* ------------------------------------------------------------------ instruction syntax (a faithful dump of what the emitters produce) *)
Inductive mnem :=
| Mendbr32 | Mendbr64 | Mpush | Mpop | Mmov | Mand | Msub | Madd | Mlea
| Mmovaps | Mmovups | Mvmovaps | Mvmovups | Mkmovq | Mmovq | Memms | Mvzeroupper | Mret
| Mbti | Mstp | Mstr | Mldp | Mldr
| Mxchg.   (* only produced by emit_args_assignment (register swaps); executed by the machine for the argument-copy scenario *)

(* OReg group size id ; OMem base-gp-id offset mode (0 fixed, 1 pre-index, 2 post-index) *)
Inductive operand := OReg (g sz id : Z) | OImm (v : Z) | OMem (base off mode : Z).
Definition instr := (mnem * list operand)%type.

Definition gpr (a : arch) (id : Z) : operand := OReg 0 (reg_size a) id.

(* ------------------------------------------------------------------ x86 prolog / epilog *)
(* FIXED behaviour (fixes/C07-avx512-save-inst.patch): VEX/EVEX moves are used when AVX *or* AVX-512 is enabled *)
Definition x86_vec_mov (f : frame_in) (o : frame_out) : mnem :=
  let avx := fi_avx f || fi_avx512 f in
  if fo_aligned_vec_sr o then (if avx then Mvmovaps else Mmovaps) else (if avx then Mvmovups else Mmovups).

(* group -> (mnemonic, register size) for the extra (non push/pop) groups *)
Definition x86_extra_info (f : frame_in) (o : frame_out) (g : Z) : mnem * Z :=
  if g =? 1 then (x86_vec_mov f o, 16) else if g =? 2 then (Mkmovq, 8) else (Mmovq, 8).

Fixpoint x86_extra_moves (store : bool) (mn : mnem) (g sz : Z) (spid : Z) (ids : list Z) (off : Z) : list instr :=
  match ids with
  | [] => []
  | id :: rest =>
    (mn, if store then [OMem spid off 0; OReg g sz id] else [OReg g sz id; OMem spid off 0])
    :: x86_extra_moves store mn g sz spid rest (off + sz)
  end.

Definition x86_extra_all (store : bool) (f : frame_in) (o : frame_out) : list instr :=
  let spid := sp_id (fi_arch f) in
  let l1 := bits_of 32 (saved_regs f o 1) in
  let l2 := bits_of 32 (saved_regs f o 2) in
  let l3 := bits_of 32 (saved_regs f o 3) in
  let off1 := fo_extra_off o in
  let off2 := off1 + 16 * Z.of_nat (length l1) in
  let off3 := off2 + 8 * Z.of_nat (length l2) in
  x86_extra_moves store (x86_vec_mov f o) 1 16 spid l1 off1 ++
  x86_extra_moves store Mkmovq 2 8 spid l2 off2 ++
  x86_extra_moves store Mmovq 3 8 spid l3 off3.

Definition x86_gp_saved (f : frame_in) (o : frame_out) : Z :=
  let m := saved_regs f o 0 in if fi_has_fp f then clear_bit m 5 else m.

Definition x86_prolog (f : frame_in) (o : frame_out) : list instr :=
  let a := fi_arch f in
  let zsp := gpr a 4 in
  let zbp := gpr a 5 in
  let sa := fo_sa_reg o in
  (if fi_ibp f then [((match a with X86 => Mendbr32 | _ => Mendbr64 end), [])] else []) ++
  (if fi_has_fp f then [(Mpush, [zbp]); (Mmov, [zbp; zsp])] else []) ++
  map (fun id => (Mpush, [gpr a id])) (bits_of 32 (x86_gp_saved f o)) ++
  (if negb (sa =? id_bad) && negb (sa =? 4) then
     (if fi_has_fp f then (if negb (sa =? 5) then [(Mmov, [gpr a sa; zbp])] else [])
      else [(Mmov, [gpr a sa; zsp])])
   else []) ++
  (if fo_has_da o then [(Mand, [zsp; OImm (- fo_final_align o)])] else []) ++
  (if negb (fo_stack_adj o =? 0) then [(Msub, [zsp; OImm (fo_stack_adj o)])] else []) ++
  (if fo_has_da o && negb (fo_da_off o =? -1) then [(Mmov, [OMem 4 (fo_da_off o) 0; gpr a sa])] else []) ++
  x86_extra_all true f o.

Definition x86_epilog (f : frame_in) (o : frame_out) : list instr :=
  let a := fi_arch f in
  let zsp := gpr a 4 in
  let zbp := gpr a 5 in
  let avx_cleanup := fi_avx_cleanup f || (fi_avx_auto_cleanup f && negb (qget (fo_dirty o) 1 =? 0)) in
  x86_extra_all false f o ++
  (if fi_mmx_cleanup f then [(Memms, [])] else []) ++
  (if avx_cleanup then [(Mvzeroupper, [])] else []) ++
  (if fi_has_fp f then
     let count := fo_push_pop_size o - reg_size a in
     if count =? 0 then [(Mmov, [zsp; zbp])] else [(Mlea, [zsp; OMem 5 (- count) 0])]
   else if fo_has_da o && negb (fo_da_off o =? -1) then [(Mmov, [zsp; OMem 4 (fo_da_off o) 0])]
   else if negb (fo_stack_adj o =? 0) then [(Madd, [zsp; OImm (fo_stack_adj o)])]
   else []) ++
  map (fun id => (Mpop, [gpr a id])) (rev (bits_of 16 (x86_gp_saved f o))) ++
  (if fi_has_fp f then [(Mpop, [zbp])] else []) ++
  [(Mret, if fo_callee_cleanup o =? 0 then [] else [OImm (fo_callee_cleanup o)])].

(* ------------------------------------------------------------------ AArch64 prolog / epilog (PrologEpilogInfo) *)
(* a pair: first id, optional second id, offset *)
Fixpoint a64_pairs (ids : list Z) (off step : Z) : list (Z * option Z * Z) :=
  match ids with
  | [] => []
  | [x] => [(x, None, off)]
  | x :: y :: rest => (x, Some y, off) :: a64_pairs rest (off + step) step
  end.

Definition a64_group_pairs (f : frame_in) (o : frame_out) (g : Z) (off : Z) : list (Z * option Z * Z) :=
  let slot := qget (cc_srsize (fi_cc f)) g in
  let m := saved_regs f o g in
  if (g =? 0) && fi_has_fp f then
    (29, Some 30, off) :: a64_pairs (bits_of 32 (clear_bit (clear_bit m 29) 30)) (off + 2 * slot) (2 * slot)
  else a64_pairs (bits_of 32 m) off (2 * slot).

Definition a64_gp_pairs (f : frame_in) (o : frame_out) := a64_group_pairs f o 0 0.
Definition a64_gp_total (f : frame_in) (o : frame_out) : Z :=
  2 * qget (cc_srsize (fi_cc f)) 0 * Z.of_nat (length (a64_gp_pairs f o)).
Definition a64_vec_pairs (f : frame_in) (o : frame_out) := a64_group_pairs f o 1 (a64_gp_total f o).
Definition a64_total (f : frame_in) (o : frame_out) : Z :=
  a64_gp_total f o + 2 * qget (cc_srsize (fi_cc f)) 1 * Z.of_nat (length (a64_vec_pairs f o)).

(* the emitters always use X (8 byte) and D (8 byte) register views: group_regs = { x0, d0 } *)
Definition a64_reg (g id : Z) : operand := OReg g 8 id.

Definition a64_mem (store : bool) (total off : Z) : operand :=
  if (off =? 0) && negb (total =? 0) then (if store then OMem 31 (- total) 1 else OMem 31 total 2) else OMem 31 off 0.

Definition a64_pair_inst (store : bool) (g total : Z) (p : Z * option Z * Z) : instr :=
  match p with
  | (x, Some y, off) => ((if store then Mstp else Mldp), [a64_reg g x; a64_reg g y; a64_mem store total off])
  | (x, None, off) => ((if store then Mstr else Mldr), [a64_reg g x; a64_mem store total off])
  end.

Definition a64_mov_fp : instr := (Mmov, [a64_reg 0 29; a64_reg 0 31]).

(* prolog: after the first pair of EACH group `mov x29, sp` is emitted when the frame preserves FP *)
Definition a64_group_stores (f : frame_in) (g total : Z) (ps : list (Z * option Z * Z)) : list instr :=
  match ps with
  | [] => []
  | p :: rest => a64_pair_inst true g total p :: (if fi_has_fp f then [a64_mov_fp] else []) ++ map (a64_pair_inst true g total) rest
  end.

Definition a64_adjust (sub : bool) (adj : Z) : list instr * bool :=
  let mn := if sub then Msub else Madd in
  let sp := a64_reg 0 31 in
  if adj =? 0 then ([], true)
  else if adj <=? 4095 then ([(mn, [sp; sp; OImm adj])], true)
  else if adj <=? 16777215 then ([(mn, [sp; sp; OImm (adj mod 4096)]); (mn, [sp; sp; OImm (adj - adj mod 4096)])], true)
  else ([], false).

(* fixed tree only: `mov saReg, sp` for an SA register that is neither sp nor the FP the prolog has just set up *)
Definition a64_sa_init (f : frame_in) (o : frame_out) : list instr :=
  let sa := fo_sa_reg o in
  if fi_sa_fix f && negb (sa =? id_bad) && negb (sa =? 31) && negb (fi_has_fp f && (sa =? 29))
  then [(Mmov, [a64_reg 0 sa; a64_reg 0 31])] else [].

Definition a64_prolog (f : frame_in) (o : frame_out) : list instr * bool :=
  let total := a64_total f o in
  let (adj, ok) := a64_adjust true (fo_stack_adj o) in
  ((if fi_ibp f then [(Mbti, [OImm 3])] else []) ++
   a64_group_stores f 0 total (a64_gp_pairs f o) ++
   a64_group_stores f 1 total (a64_vec_pairs f o) ++
   a64_sa_init f o ++
   adj, ok).

Definition a64_epilog (f : frame_in) (o : frame_out) : list instr * bool :=
  let total := a64_total f o in
  let (adj, ok) := a64_adjust false (fo_stack_adj o) in
  if ok then
    (adj ++
     map (a64_pair_inst false 1 total) (rev (a64_vec_pairs f o)) ++
     map (a64_pair_inst false 0 total) (rev (a64_gp_pairs f o)) ++
     [(Mret, [a64_reg 0 30])], true)
  else ([], false).

Definition prolog (f : frame_in) (o : frame_out) : list instr * bool :=
  match fi_arch f with A64 => a64_prolog f o | _ => (x86_prolog f o, true) end.
Definition epilog (f : frame_in) (o : frame_out) : list instr * bool :=
  match fi_arch f with A64 => a64_epilog f o | _ => (x86_epilog f o, true) end.

(* C07 — arithmetic facts about FuncFrame::finalize: the layout chain and the alignment promises. *)
From Coq Require Import ZArith List Bool Lia Znumtheory.
From Verif Require Import Frame.FrameModel.
Import ListNotations.
Local Open Scope Z_scope.

(* ------------------------------------------------------------------ align_up *)
Lemma align_up_spec x a : 0 < a -> x <= align_up x a < x + a /\ align_up x a mod a = 0.
Proof.
  intros Ha. unfold align_up.
  pose proof (Z.div_mod (x + a - 1) a ltac:(lia)) as E.
  pose proof (Z.mod_pos_bound (x + a - 1) a Ha) as B.
  rewrite (Z.mul_comm a) in E.
  split; [lia|]. apply Z.mod_mul; lia.
Qed.

Lemma align_up_ge x a : 0 < a -> x <= align_up x a.
Proof. intros; apply align_up_spec; auto. Qed.
Lemma align_up_lt x a : 0 < a -> align_up x a < x + a.
Proof. intros; apply align_up_spec; auto. Qed.
Lemma align_up_mod x a : 0 < a -> align_up x a mod a = 0.
Proof. intros; apply align_up_spec; auto. Qed.

Lemma align_up_id x a : 0 < a -> x mod a = 0 -> align_up x a = x.
Proof.
  intros Ha Hm. unfold align_up.
  pose proof (Z.div_mod x a ltac:(lia)) as E. rewrite Hm in E.
  replace (x + a - 1) with ((a - 1) + (x / a) * a) by lia.
  rewrite Z.div_add by lia. rewrite (Z.div_small (a - 1) a) by lia. lia.
Qed.

Lemma align_up_nonneg x a : 0 < a -> 0 <= x -> 0 <= align_up x a.
Proof. intros Ha Hx. pose proof (align_up_ge x a Ha). lia. Qed.

Lemma mod_divide_0 x a b : 0 < b -> (b | a) -> x mod a = 0 -> x mod b = 0.
Proof.
  intros Hb [k Hk] Hm. destruct (Z.eq_dec a 0) as [->|Hne].
  - rewrite Zmod_0_r in Hm. subst. apply Z.mod_0_l; lia.
  - apply Z.mod_divide in Hm; [|lia]. destruct Hm as [q Hq]. subst.
    replace (q * (k * b)) with ((q * k) * b) by ring. apply Z.mod_mul; lia.
Qed.

Lemma align_up_mod_div x a b : 0 < a -> 0 < b -> (b | a) -> align_up x a mod b = 0.
Proof. intros Ha Hb Hd. apply (mod_divide_0 _ a b Hb Hd). apply align_up_mod; auto. Qed.

Lemma add_mod_0 x y a : 0 < a -> x mod a = 0 -> y mod a = 0 -> (x + y) mod a = 0.
Proof. intros Ha Hx Hy. rewrite Z.add_mod by lia. rewrite Hx, Hy. apply Z.mod_0_l; lia. Qed.

Lemma sub_mod_0 x y a : 0 < a -> x mod a = 0 -> y mod a = 0 -> (x - y) mod a = 0.
Proof. intros Ha Hx Hy. rewrite Zminus_mod. rewrite Hx, Hy. apply Z.mod_0_l; lia. Qed.

(* ------------------------------------------------------------------ powers of two *)
Definition pow2 (a : Z) : Prop := exists k, 0 <= k /\ a = 2 ^ k.

Lemma pow2_pos a : pow2 a -> 0 < a.
Proof. intros [k [Hk ->]]. apply Z.pow_pos_nonneg; lia. Qed.

Lemma pow2_divide a b : pow2 a -> pow2 b -> a <= b -> (a | b).
Proof.
  intros [i [Hi ->]] [j [Hj ->]] Hle.
  assert (i <= j). { destruct (Z_le_gt_dec i j); auto. assert (2 ^ j < 2 ^ i) by (apply Z.pow_lt_mono_r; lia). lia. }
  exists (2 ^ (j - i)). rewrite <- Z.pow_add_r by lia. f_equal. lia.
Qed.

Lemma pow2_max a b : pow2 a -> pow2 b -> pow2 (Z.max a b).
Proof. intros Ha Hb. destruct (Z.max_spec a b) as [[_ ->]|[_ ->]]; auto. Qed.

Lemma pow2_lit k : 0 <= k -> pow2 (2 ^ k).
Proof. intros; exists k; auto. Qed.

(* and sp, -A  (A a power of two) rounds sp down to a multiple of A *)
Lemma land_neg_pow2 x a : pow2 a -> Z.land x (- a) = x - x mod a.
Proof.
  intros [k [Hk ->]].
  replace (- 2 ^ k) with (Z.lnot (Z.ones k)).
  2:{ rewrite Z.ones_equiv. unfold Z.lnot. lia. }
  rewrite <- Z.ldiff_land.
  rewrite Z.ldiff_ones_r by lia. rewrite Z.shiftr_div_pow2, Z.shiftl_mul_pow2 by lia.
  pose proof (Z.div_mod x (2 ^ k)) as E. assert (0 < 2 ^ k) by (apply Z.pow_pos_nonneg; lia). lia.
Qed.

(* ------------------------------------------------------------------ masks and bit lists *)
Lemma bits_from_In n : forall from m x, In x (bits_from n from m) <-> (from <= x < from + Z.of_nat n /\ Z.testbit m x = true).
Proof.
  induction n as [|n IH]; intros from m x; cbn [bits_from].
  - split; [intros []|]. lia.
  - destruct (Z.testbit m from) eqn:E.
    + cbn [In]. rewrite IH. split.
      * intros [->|[H1 H2]]; split; auto; lia.
      * intros [H1 H2]. destruct (Z.eq_dec from x); [left; auto|right; split; auto; lia].
    + rewrite IH. split.
      * intros [H1 H2]; split; auto; lia.
      * intros [H1 H2]. split; auto. destruct (Z.eq_dec from x); [subst; congruence|lia].
Qed.

Lemma bits_of_In n m x : In x (bits_of n m) <-> (0 <= x < Z.of_nat n /\ Z.testbit m x = true).
Proof. unfold bits_of. rewrite bits_from_In. split; intros [H1 H2]; split; auto; lia. Qed.

Lemma bits_from_NoDup n : forall from m, NoDup (bits_from n from m).
Proof.
  induction n as [|n IH]; intros from m; cbn [bits_from]; [constructor|].
  destruct (Z.testbit m from); auto. constructor; auto. rewrite bits_from_In. lia.
Qed.

Lemma bits_of_NoDup n m : NoDup (bits_of n m).
Proof. apply bits_from_NoDup. Qed.

Lemma bits_from_app n1 n2 : forall from m,
  bits_from (n1 + n2) from m = bits_from n1 from m ++ bits_from n2 (from + Z.of_nat n1) m.
Proof.
  induction n1 as [|n1 IH]; intros from m.
  - cbn. f_equal. lia.
  - cbn [plus bits_from]. rewrite IH. replace (from + 1 + Z.of_nat n1) with (from + Z.of_nat (S n1)) by lia.
    destruct (Z.testbit m from); reflexivity.
Qed.

Lemma bits_from_nil n : forall from m, (forall x, from <= x -> Z.testbit m x = false) -> bits_from n from m = [].
Proof.
  induction n as [|n IH]; intros from m H; cbn [bits_from]; auto.
  rewrite H by lia. apply IH. intros; apply H; lia.
Qed.

Lemma testbit_above m n x : 0 <= m < 2 ^ n -> n <= x -> Z.testbit m x = false.
Proof.
  intros [H0 H1] Hx. destruct (Z.eq_dec m 0) as [->|Hne]; [apply Z.bits_0|].
  apply Z.bits_above_log2; [lia|]. apply Z.log2_lt_pow2; [lia|].
  assert (2 ^ n <= 2 ^ x) by (apply Z.pow_le_mono_r; lia). lia.
Qed.

Lemma bits_of_32_16 m : (forall x, 16 <= x -> Z.testbit m x = false) -> bits_of 32 m = bits_of 16 m.
Proof.
  intros H. unfold bits_of. change 32%nat with (16 + 16)%nat. rewrite bits_from_app.
  rewrite (bits_from_nil 16 (0 + Z.of_nat 16) m); [apply app_nil_r|]. intros x Hx. apply H. lia.
Qed.

Lemma length_NoDup_incl (l1 l2 : list Z) :
  NoDup l1 -> NoDup l2 -> (forall x, In x l1 <-> In x l2) -> length l1 = length l2.
Proof.
  intros N1 N2 H. apply Nat.le_antisymm; apply NoDup_incl_length; auto; intros x Hx; apply H; auto.
Qed.

Lemma clear_bit_testbit m i x : 0 <= i -> Z.testbit (clear_bit m i) x = Z.testbit m x && negb (x =? i).
Proof.
  intros Hi. unfold clear_bit, bit. rewrite Z.ldiff_spec. f_equal.
  destruct (Z.eqb_spec x i) as [->|Hne].
  - rewrite Z.pow2_bits_true; auto.
  - rewrite Z.pow2_bits_false; auto.
Qed.

Lemma lor_bit_testbit m i x : 0 <= i -> Z.testbit (Z.lor m (bit i)) x = Z.testbit m x || (x =? i).
Proof.
  intros Hi. unfold bit. rewrite Z.lor_spec. f_equal.
  destruct (Z.eqb_spec x i) as [->|Hne].
  - rewrite Z.pow2_bits_true; auto.
  - rewrite Z.pow2_bits_false; auto.
Qed.

(* removing one set bit shortens the list by one *)
Lemma bits_of_clear_length n m i :
  0 <= i < Z.of_nat n -> Z.testbit m i = true ->
  length (bits_of n m) = S (length (bits_of n (clear_bit m i))).
Proof.
  intros Hi Hb.
  change (S (length (bits_of n (clear_bit m i)))) with (length (i :: bits_of n (clear_bit m i))).
  apply length_NoDup_incl.
  - apply bits_of_NoDup.
  - constructor; [|apply bits_of_NoDup]. rewrite bits_of_In, clear_bit_testbit by lia.
    rewrite Z.eqb_refl. rewrite andb_false_r. intros [_ H]; discriminate.
  - intros x. cbn [In]. rewrite !bits_of_In, clear_bit_testbit by lia. split.
    + intros [H1 H2]. destruct (Z.eqb_spec x i); [left; auto|right]. rewrite H2. auto.
    + intros [<-|[H1 H2]]; [auto|]. apply andb_true_iff in H2. tauto.
Qed.

(* C07 — executable scenario on the PROVEN machine (FrameMachine.v): run an instruction list (the implementation's real prolog),
   poison everything a confined body may touch, run the epilog, judge the round trip.  Extracted and run on the implementation's
   instruction lists on every frame: cross-validates the machine semantics the theorems rest on against the independent python
   interpreter (same frames, verdicts must agree).  Definitions only. *)
From Coq Require Import ZArith List Bool.
From Verif Require Import Frame.FrameModel Frame.FrameMachine.
Import ListNotations.
Local Open Scope Z_scope.

Definition init_reg (g r : Z) : Z := 1000003 * (g + 1) + 7919 * r + 12345 + (if g =? 1 then 2 ^ 100 + 2 ^ 70 * r else 0).

Definition init_state (a : arch) (sp0 ra : Z) : state :=
  let ws := reg_size a in
  let spid := sp_id a in
  mkst (fun g r => if (g =? 0) && (r =? spid) then sp0
                   else if (g =? 0) && (r =? 30) && has_link_reg a then ra
                   else init_reg g r)
       (fun x => if has_link_reg a then MJunk
                 else if (sp0 <=? x) && (x <? sp0 + ws) then MFrag ra ws (x - sp0) else MJunk)
       None.

(* the most hostile confined body: every dirty register (not sp, not fp when the frame preserves it) gets a poison value,
   the call area, the local area and everything below sp become junk *)
Definition poison_body (a : arch) (s : state) (dirty : quad) (has_fp : bool) (csize local_off lsize : Z) : state :=
  let spid := sp_id a in
  let fpid := fp_id a in
  let spb := st_reg s 0 spid in
  mkst (fun g r => if Z.testbit (qget dirty g) r && negb ((g =? 0) && ((r =? spid) || (has_fp && (r =? fpid))))
                   then 99990000 + 100 * g + r else st_reg s g r)
       (fun x => if (x <? spb) || ((spb <=? x) && (x <? spb + csize)) || ((spb + local_off <=? x) && (x <? spb + local_off + lsize))
                 then MJunk else st_mem s x)
       (st_ret s).

(* first preserved register (group, id) whose value on its save width differs, if any *)
Fixpoint first_bad (g : Z) (ids : list Z) (width : Z) (s0 s3 : state) : option Z :=
  match ids with
  | [] => None
  | r :: rest => if trunc width (st_reg s3 g r) =? trunc width (st_reg s0 g r) then first_bad g rest width s0 s3 else Some r
  end.

(* result: 0 ok | 1 prolog stuck | 2 epilog stuck | 3 no/wrong return target | 4 wrong sp | 100 + 32*group + id register not restored *)
Definition exec_frame (a : arch) (pro epi : list instr) (sp0 ra : Z) (dirty preserved srsize : quad) (has_fp : bool)
                      (csize local_off lsize cleanup : Z) : Z * Z :=
  let s0 := init_state a sp0 ra in
  match run a pro s0 with
  | None => (1, 0)
  | Some s1 =>
    let spb := st_reg s1 0 (sp_id a) in
    let s2 := poison_body a s1 dirty has_fp csize local_off lsize in
    match run a epi s2 with
    | None => (2, spb)
    | Some s3 =>
      match st_ret s3 with
      | None => (3, spb)
      | Some t =>
        if negb (t =? ra) then (3, spb)
        else if negb (st_reg s3 0 (sp_id a) =? sp0 + ret_addr_size a + cleanup) then (4, spb)
        else
          let chk g := first_bad g (filter (fun r => negb ((g =? 0) && (r =? sp_id a))) (bits_of 32 (qget preserved g)))
                                 (if g =? 0 then reg_size a else qget srsize g) s0 s3 in
          match chk 0, chk 1, chk 2, chk 3 with
          | Some r, _, _, _ => (100 + r, spb)
          | _, Some r, _, _ => (132 + r, spb)
          | _, _, Some r, _ => (164 + r, spb)
          | _, _, _, Some r => (196 + r, spb)
          | _, _, _, _ => (0, spb)
          end
      end
    end
  end.

(* ------------------------------------------------------------------ frames with argument copies (emit_args_assignment) *)
(* an argument: source kind/value (0 = GP register id, 1 = offset from the first stack argument), destination kind/value
   (0 = GP register id, 1 = offset from the body sp) *)
Definition argspec := (Z * Z * Z * Z)%type.

Definition arg_value (i : Z) : Z := 555000 + 17 * i.

Fixpoint arg_regs_init (args : list argspec) (i : Z) (r : Z) : option Z :=
  match args with
  | [] => None
  | (sk, sv, _, _) :: rest => if (sk =? 0) && (sv =? r) then Some (arg_value i) else arg_regs_init rest (i + 1) r
  end.

Fixpoint arg_mem_init (ws base : Z) (args : list argspec) (i : Z) (x : Z) : option mval :=
  match args with
  | [] => None
  | (sk, sv, _, _) :: rest =>
    if (sk =? 1) && (base + sv <=? x) && (x <? base + sv + ws) then Some (MFrag (arg_value i) ws (x - (base + sv)))
    else arg_mem_init ws base rest (i + 1) x
  end.

Definition init_state_args (a : arch) (sp0 ra : Z) (args : list argspec) : state :=
  let s := init_state a sp0 ra in
  let ws := reg_size a in
  mkst (fun g r => if (g =? 0) && negb (r =? sp_id a) then match arg_regs_init args 0 r with Some v => v | None => st_reg s g r end else st_reg s g r)
       (fun x => match arg_mem_init ws (sp0 + ret_addr_size a) args 0 x with Some m => m | None => st_mem s x end)
       None.

(* index of the first argument that is not at its destination *)
Fixpoint first_misplaced (a : arch) (s : state) (args : list argspec) (i : Z) : option Z :=
  match args with
  | [] => None
  | (_, _, dk, dv) :: rest =>
    let ok := if dk =? 0 then st_reg s 0 dv =? arg_value i
              else match load_mem (st_mem s) (st_reg s 0 (sp_id a) + dv) (reg_size a) with Some v => v =? arg_value i | None => false end in
    if ok then first_misplaced a s rest (i + 1) else Some i
  end.

Definition group_check (a : arch) (preserved srsize : quad) (s0 s3 : state) (g : Z) : option Z :=
  first_bad g (filter (fun r => negb ((g =? 0) && (r =? sp_id a))) (bits_of 32 (qget preserved g)))
            (if g =? 0 then reg_size a else qget srsize g) s0 s3.

Definition preserved_check (a : arch) (preserved srsize : quad) (s0 s3 : state) : option Z :=
  match group_check a preserved srsize s0 s3 0 with Some r => Some r | None =>
  match group_check a preserved srsize s0 s3 1 with Some r => Some (32 + r) | None =>
  match group_check a preserved srsize s0 s3 2 with Some r => Some (64 + r) | None =>
  match group_check a preserved srsize s0 s3 3 with Some r => Some (96 + r) | None => None end end end end.

(* result (code, detail): 0 ok | 1 prolog stuck | 5 argument copies stuck or sp changed | 6 argument `detail` not at its destination |
   2 epilog stuck | 3 no/wrong return target | 4 wrong sp | 7 preserved register 32*group+id (= detail) not restored *)
Definition exec_args_frame (a : arch) (pro asg epi : list instr) (sp0 ra : Z) (args : list argspec) (dirty preserved srsize : quad)
                           (has_fp : bool) (csize local_off lsize cleanup : Z) : Z * Z :=
  let s0 := init_state_args a sp0 ra args in
  match run a pro s0 with
  | None => (1, 0)
  | Some s1 =>
    let spb := st_reg s1 0 (sp_id a) in
    match run a asg s1 with
    | None => (5, spb)
    | Some s1' =>
      if negb (st_reg s1' 0 (sp_id a) =? spb) then (5, spb)
      else match first_misplaced a s1' args 0 with
      | Some i => (6, i)
      | None =>
        let s2 := poison_body a s1' dirty has_fp csize local_off lsize in
        match run a epi s2 with
        | None => (2, spb)
        | Some s3 =>
          match st_ret s3 with
          | None => (3, spb)
          | Some t =>
            if negb (t =? ra) then (3, spb)
            else if negb (st_reg s3 0 (sp_id a) =? sp0 + ret_addr_size a + cleanup) then (4, spb)
            else
              match preserved_check a preserved srsize s0 s3 with
              | Some d => (7, d)
              | None => (0, spb)
              end
          end
        end
      end
    end
  end.

(* C07 — calculate_stack_frame in full: weights, any processing order that is a permutation of the slots (the quick/insertion
   sort of STEP 2 is not modelled: the theorem holds for EVERY order), offsets, stack_size rounding; and a verified checker
   `placed_ok` for a concrete placement (used by the check to judge the implementation's answer). *)
From Coq Require Import ZArith List Bool Lia Znumtheory.
From Verif Require Import Frame.FrameArith Frame.SlotModel Frame.SlotProofs.
Import ListNotations.
Local Open Scope Z_scope.

(* ------------------------------------------------------------------ weights (STEP 1) and order validation (STEP 2) *)
Record rslot := mk_rslot { rs_size : Z; rs_align : Z; rs_reghome : bool; rs_arg : bool; rs_use : Z }.

Definition slot_weight (s : rslot) : Z :=
  let power := Z.min (ctz (rs_align s)) 6 in
  if rs_reghome s then Z.min (16 + rs_use s * (7 - power)) 4294967295 else power.

Definition to_sslot (s : rslot) : sslot := mk_sslot (rs_size s) (rs_align s) (rs_arg s).

(* NOTE: the comment in rastack.cpp says "descending order", the comparator handed to Support::sort yields ASCENDING weights
   (lowest weight first).  Harmless for C07 (any order is a good placement, theorem slots_full); the validator mirrors the code. *)
Fixpoint nondecreasing (l : list Z) : bool :=
  match l with
  | a :: ((b :: _) as r) => (a <=? b) && nondecreasing r
  | _ => true
  end.

(* order: indices into slots; a permutation of 0..n-1 with non-decreasing weights *)
Definition is_perm_idx (n : nat) (order : list nat) : bool :=
  (length order =? n)%nat && forallb (fun i => existsb (Nat.eqb i) order) (seq 0 n).

Definition order_ok (slots : list rslot) (order : list nat) : bool :=
  is_perm_idx (length slots) order &&
  nondecreasing (map (fun i => slot_weight (nth i slots (mk_rslot 0 1 false false 0))) order).

Definition frame_alignment (slots : list rslot) (raw_aligns : list Z) : Z := fold_right Z.max 1 raw_aligns.

(* ------------------------------------------------------------------ specification of a good placement *)
Definition placed := list (sslot * Z).

Definition placed_spec (pl : placed) (stack_size : Z) : Prop :=
  (forall i s o, nth_error pl i = Some (s, o) -> ss_arg s = false ->
     0 <= o /\ o mod ss_align s = 0 /\ o + ss_size s <= stack_size) /\
  (forall i j si oi sj oj, i <> j -> nth_error pl i = Some (si, oi) -> nth_error pl j = Some (sj, oj) ->
     ss_arg si = false -> ss_arg sj = false -> oi + ss_size si <= oj \/ oj + ss_size sj <= oi).

(* executable checker (quadratic) *)
Definition one_ok (stack_size : Z) (p : sslot * Z) : bool :=
  let (s, o) := p in ss_arg s || ((0 <=? o) && (o mod ss_align s =? 0) && (o + ss_size s <=? stack_size)).
Definition two_ok (p q : sslot * Z) : bool :=
  let (s, o) := p in let (t, u) := q in
  ss_arg s || ss_arg t || (o + ss_size s <=? u) || (u + ss_size t <=? o).
Fixpoint pairs_ok (pl : placed) : bool :=
  match pl with
  | [] => true
  | p :: r => forallb (two_ok p) r && pairs_ok r
  end.
Definition placed_ok (pl : placed) (stack_size : Z) : bool := forallb (one_ok stack_size) pl && pairs_ok pl.

Lemma two_ok_sym p q : two_ok p q = true -> two_ok q p = true.
Proof.
  destruct p as [s o], q as [t u]. unfold two_ok. intros H.
  repeat (apply orb_true_iff in H; destruct H as [H|H]); rewrite ?H, ?orb_true_r; auto.
Qed.

Lemma pairs_ok_nth : forall pl i j p q, pairs_ok pl = true -> (i < j)%nat -> nth_error pl i = Some p -> nth_error pl j = Some q -> two_ok p q = true.
Proof.
  induction pl as [|x r IH]; intros i j p q H Hij Hi Hj; [destruct i; discriminate|].
  cbn [pairs_ok] in H. apply andb_true_iff in H. destruct H as [H1 H2].
  destruct i as [|i]; destruct j as [|j]; try lia; cbn [nth_error] in Hi, Hj.
  - inversion Hi; subst. rewrite forallb_forall in H1. apply H1. eapply nth_error_In; eauto.
  - apply (IH i j p q H2); auto; lia.
Qed.

Theorem placed_ok_sound pl stack_size : placed_ok pl stack_size = true -> placed_spec pl stack_size.
Proof.
  unfold placed_ok. intros H. apply andb_true_iff in H. destruct H as [H1 H2]. split.
  - intros i s o Hn Ha. rewrite forallb_forall in H1. specialize (H1 (s, o) (nth_error_In _ _ Hn)).
    unfold one_ok in H1. rewrite Ha in H1. cbn [orb] in H1.
    apply andb_true_iff in H1. destruct H1 as [H1 H3]. apply andb_true_iff in H1. destruct H1 as [H0 H1'].
    apply Z.leb_le in H0. apply Z.eqb_eq in H1'. apply Z.leb_le in H3. auto.
  - intros i j si oi sj oj Hne Hi Hj Hai Haj.
    assert (T : two_ok (si, oi) (sj, oj) = true).
    { destruct (Nat.lt_ge_cases i j) as [L|L].
      - apply (pairs_ok_nth pl i j); auto.
      - apply two_ok_sym. apply (pairs_ok_nth pl j i); auto. lia. }
    unfold two_ok in T. rewrite Hai, Haj in T. cbn [orb] in T. apply orb_true_iff in T.
    destruct T as [T|T]; apply Z.leb_le in T; auto.
Qed.

(* ------------------------------------------------------------------ the model's placement *)
Fixpoint chain (slots : list sslot) (outs : list Z) (lo hi : Z) : Prop :=
  match slots, outs with
  | [], [] => lo <= hi
  | s :: r, o :: ro =>
    if ss_arg s then chain r ro lo hi
    else lo <= o /\ o mod ss_align s = 0 /\ chain r ro (o + ss_size s) hi
  | _, _ => False
  end.

Lemma alloc_fold_chain slots : Forall slot_ok slots -> forall st, no_gap_inv st ->
  let st' := fold_left alloc_step slots st in
  exists outs, rev (as_out st') = rev (as_out st) ++ outs /\ chain slots outs (as_off st) (as_off st').
Proof.
  induction 1 as [|s r Hs Hr IH]; intros st Hinv; cbv zeta; cbn [fold_left].
  - exists []. rewrite app_nil_r. split; auto. cbn. lia.
  - destruct Hinv as [Hg [Hu Ho]]. destruct (alloc_step_nogaps st s Hs Hg Ho) as [A [B [C [Darg Dn]]]].
    assert (Hinv' : no_gap_inv (alloc_step st s)) by (repeat split; auto; [congruence | lia]).
    destruct (IH (alloc_step st s) Hinv') as [outs [E1 E2]].
    destruct (ss_arg s) eqn:Ea.
    + destruct (Darg eq_refl) as [D1 D2]. exists (-1 :: outs). rewrite E1, D2. cbn [rev]. rewrite <- app_assoc. cbn [app].
      split; auto. cbn [chain]. rewrite Ea. rewrite D1 in E2. exact E2.
    + destruct (Dn eq_refl) as [o [D1 [D2 [D3 D4]]]]. exists (o :: outs). rewrite E1, D1. cbn [rev]. rewrite <- app_assoc. cbn [app].
      split; auto. cbn [chain]. rewrite Ea. rewrite D4 in E2. auto.
Qed.

Lemma chain_le slots : forall outs lo hi, Forall slot_ok slots -> chain slots outs lo hi -> lo <= hi.
Proof.
  induction slots as [|s r IH]; intros outs lo hi Hok H; destruct outs as [|o ro]; cbn [chain] in H; try contradiction; auto.
  inversion Hok as [|? ? [Hs _] Hr]; subst. destruct (ss_arg s).
  - apply (IH ro); auto.
  - destruct H as [H1 [_ H3]]. specialize (IH ro _ _ Hr H3). lia.
Qed.

Lemma chain_each slots : forall outs lo hi, Forall slot_ok slots -> chain slots outs lo hi ->
  forall i s o, nth_error (combine slots outs) i = Some (s, o) -> ss_arg s = false ->
  lo <= o /\ o mod ss_align s = 0 /\ o + ss_size s <= hi.
Proof.
  induction slots as [|s r IH]; intros outs lo hi Hok H i s' o' Hn Ha; destruct outs as [|o ro]; cbn [chain combine] in *;
    try contradiction; try (destruct i; discriminate).
  inversion Hok as [|? ? [Hs Hal] Hr]; subst.
  destruct i as [|i]; cbn [nth_error] in Hn.
  - inversion Hn; subst. rewrite Ha in H. destruct H as [H1 [H2 H3]]. pose proof (chain_le _ _ _ _ Hr H3). auto.
  - destruct (ss_arg s).
    + apply (IH ro lo hi Hr H i); auto.
    + destruct H as [H1 [H2 H3]]. destruct (IH ro _ hi Hr H3 i s' o' Hn Ha) as [A [B C]]. repeat split; auto. lia.
Qed.

Lemma chain_pairs slots : forall outs lo hi, Forall slot_ok slots -> chain slots outs lo hi ->
  forall i j si oi sj oj, (i < j)%nat -> nth_error (combine slots outs) i = Some (si, oi) -> nth_error (combine slots outs) j = Some (sj, oj) ->
  ss_arg si = false -> ss_arg sj = false -> oi + ss_size si <= oj.
Proof.
  induction slots as [|s r IH]; intros outs lo hi Hok H i j si oi sj oj Hij Hi Hj Hai Haj; destruct outs as [|o ro]; cbn [chain combine] in *;
    try contradiction; try (destruct i; discriminate).
  inversion Hok as [|? ? Hs Hr]; subst.
  destruct i as [|i]; destruct j as [|j]; try lia; cbn [nth_error] in Hi, Hj.
  - inversion Hi; subst. rewrite Hai in H. destruct H as [_ [_ H3]].
    destruct (chain_each r ro _ hi Hr H3 j sj oj Hj Haj) as [A _]. exact A.
  - destruct (ss_arg s).
    + apply (IH ro lo hi Hr H i j si oi sj oj); auto; lia.
    + destruct H as [_ [_ H3]]. apply (IH ro _ hi Hr H3 i j si oi sj oj); auto; lia.
Qed.

Lemma chain_length slots : forall outs lo hi, chain slots outs lo hi -> length outs = length slots.
Proof.
  induction slots as [|s r IH]; intros outs lo hi H; destruct outs; cbn [chain] in H; try contradiction; auto.
  cbn [length]. f_equal. destruct (ss_arg s); [apply (IH _ lo hi); auto | destruct H as [_ [_ H]]; apply (IH _ _ _ H)].
Qed.

(* stack size: final offset rounded up to the allocator's alignment (maximum of all requested alignments and 1) *)
Definition stack_size_of (final align : Z) : Z := align_up_s final align.

Definition alloc_frame (slots : list sslot) (align : Z) : placed * Z :=
  let (offs, fin) := alloc_offsets slots in (combine slots offs, stack_size_of fin align).

Theorem slots_placed_ok slots align :
  Forall slot_ok slots -> 0 < align ->
  placed_spec (fst (alloc_frame slots align)) (snd (alloc_frame slots align)) /\
  snd (alloc_frame slots align) mod align = 0 /\ length (fst (alloc_frame slots align)) = length slots.
Proof.
  intros Hok Hal. unfold alloc_frame, alloc_offsets, alloc_all.
  destruct (alloc_fold_chain slots Hok (mk_astate 0 [] [] false)) as [outs [E1 E2]]; [repeat split; cbn; lia|].
  cbn [as_out rev app as_off] in E1, E2. rewrite E1. cbn [fst snd].
  set (fin := as_off _) in *.
  pose proof (align_up_spec fin align Hal) as [[A1 A2] A3]. unfold stack_size_of. rewrite align_up_s_eq.
  pose proof (chain_length _ _ _ _ E2) as Hlen.
  split; [split|split].
  - intros i s o Hn Ha. destruct (chain_each slots outs 0 fin Hok E2 i s o Hn Ha) as [B1 [B2 B3]]. repeat split; auto; lia.
  - intros i j si oi sj oj Hne Hi Hj Hai Haj. destruct (Nat.lt_ge_cases i j) as [L|L].
    + left. apply (chain_pairs slots outs 0 fin Hok E2 i j si oi sj oj); auto.
    + right. apply (chain_pairs slots outs 0 fin Hok E2 j i sj oj si oi); auto. lia.
  - exact A3.
  - rewrite combine_length, Hlen. apply Nat.min_id.
Qed.

(* the full statement: whatever order STEP 2 produces (any list of indices), processing the slots in that order gives a good placement *)
Theorem slots_full (slots : list rslot) (order : list nat) (align : Z) :
  Forall (fun s => 0 <= rs_size s /\ pow2 (rs_align s)) slots -> 0 < align ->
  let processed := map (fun i => to_sslot (nth i slots (mk_rslot 0 1 false false 0))) order in
  placed_spec (fst (alloc_frame processed align)) (snd (alloc_frame processed align)) /\
  snd (alloc_frame processed align) mod align = 0 /\
  as_gap_used (alloc_all processed) = false.
Proof.
  intros Hok Hal processed.
  assert (Hp : Forall slot_ok processed).
  { unfold processed. apply Forall_forall. intros s Hin. apply in_map_iff in Hin. destruct Hin as [i [<- _]].
    destruct (Nat.lt_ge_cases i (length slots)) as [L|L].
    - rewrite Forall_forall in Hok. apply (Hok (nth i slots _)). apply nth_In; auto.
    - rewrite nth_overflow by auto. split; cbn; [lia | exists 0; split; [lia | reflexivity]]. }
  destruct (slots_placed_ok processed align Hp Hal) as [A [B _]]. split; auto. split; auto. apply gap_branch_dead; auto.
Qed.

(* C07 — well-formed frames, the layout chain and the alignment promises of FuncFrame::finalize. *)
From Coq Require Import ZArith List Bool Lia Znumtheory.
From Verif Require Import Frame.FrameModel Frame.FrameArith.
Import ListNotations.
Local Open Scope Z_scope.

(* ------------------------------------------------------------------ well-formed conventions / frames *)
Record wf_cc (a : arch) (cc : callconv) : Prop := mk_wf_cc {
  wc_nat : pow2 (cc_natural cc);
  wc_nat_rs : (reg_size a | cc_natural cc);
  wc_nat_le : cc_natural cc <= 16;
  wc_rs : qget (cc_srsize cc) 0 = reg_size a;
  wc_sizes : forall g, 0 <= qget (cc_srsize cc) g;
  wc_aligns : forall g, 0 <= g <= 3 -> 0 < qget (cc_sralign cc) g;
  wc_vs : pow2 (qget (cc_srsize cc) 1);
  wc_bounds : forall g, qget (cc_srsize cc) g <= 16 /\ qget (cc_sralign cc) g <= 16;
  wc_x86 : is_x86_family a = true ->
           cc_srsize cc = x86_sr_size (reg_size a) /\ cc_sralign cc = x86_sr_size (reg_size a) /\
           0 <= q0 (cc_preserved cc) < 2 ^ 16 /\
           Z.testbit (q0 (cc_preserved cc)) 4 = false /\ Z.testbit (q0 (cc_preserved cc)) 5 = true /\
           0 <= q1 (cc_preserved cc) < 2 ^ 32 /\ 0 <= q2 (cc_preserved cc) < 2 ^ 32 /\ 0 <= q3 (cc_preserved cc) < 2 ^ 32;
  wc_a64 : a = A64 ->
           cc_natural cc = 16 /\ cc_sralign cc = mkq 16 16 8 1 /\ q2 (cc_srsize cc) = 0 /\ q3 (cc_srsize cc) = 0 /\
           0 <= q0 (cc_preserved cc) < 2 ^ 31 /\
           Z.testbit (q0 (cc_preserved cc)) 29 = true /\ Z.testbit (q0 (cc_preserved cc)) 30 = true /\
           0 <= q1 (cc_preserved cc) < 2 ^ 32 /\ q2 (cc_preserved cc) = 0 /\ q3 (cc_preserved cc) = 0 /\
           (q1 (cc_srsize cc) = 8 \/ q1 (cc_srsize cc) = 16)
}.

Definition align_ok (a : Z) : Prop := a = 0 \/ pow2 a.

Record wf_in (f : frame_in) : Prop := mk_wf_in {
  wi_cc : wf_cc (fi_arch f) (fi_cc f);
  wi_lsize : 0 <= fi_local_size f;
  wi_csize : 0 <= fi_call_size f;
  wi_lalign : align_ok (fi_local_align f);
  wi_calign : align_ok (fi_call_align f);
  wi_args : 0 <= fi_arg_stack_size f;
  wi_sa : fi_sa_reg f = id_bad \/ (0 <= fi_sa_reg f < (if is_x86_family (fi_arch f) then 16 else 31) /\ fi_sa_reg f <> sp_id (fi_arch f))
}.

(* every convention cc_init can produce is well formed *)
Lemma cc_of_kind_wf k : wf_cc (kind_arch k) (cc_of_kind k).
Proof.
  assert (G : forall g, 0 <= g <= 3 -> g = 0 \/ g = 1 \/ g = 2 \/ g = 3) by (intros; lia).
  destruct k as [p|l| |v|l| | ]; try destruct l;
  (constructor; cbn;
   [ first [ exists 2; split; [lia | reflexivity] | exists 4; split; [lia | reflexivity] ]
   | first [exists 1; reflexivity | exists 2; reflexivity | exists 4; reflexivity]
   | lia
   | reflexivity
   | intros g; unfold qget; cbn; repeat (destruct (_ =? _)); lia
   | intros g Hg; destruct (G g Hg) as [->|[->|[->| ->]]]; cbn; lia
   | first [ exists 3; split; [lia | reflexivity] | exists 4; split; [lia | reflexivity] ]
   | intros g; unfold qget; cbn; repeat (destruct (_ =? _)); lia
   | first [ discriminate | intros _; repeat split; try reflexivity; try (vm_compute; congruence) ]
   | first [ discriminate | intros _; repeat match goal with |- _ /\ _ => split end; try reflexivity; try (vm_compute; congruence); try (left; reflexivity); try (right; reflexivity) ] ]).
Qed.

Lemma classify_arch a plat ccid k : classify a plat ccid = Some k -> kind_arch k = a.
Proof.
  destruct a; cbn [classify].
  - unfold classify_x86_32. repeat match goal with |- (if ?b then _ else _) = _ -> _ => destruct b end;
      try (intros H; inversion H; reflexivity). destruct (light_of ccid); intros H; inversion H; reflexivity.
  - unfold classify_x86_64. cbv zeta. repeat match goal with |- (if ?b then _ else _) = _ -> _ => destruct b end;
      try (intros H; inversion H; reflexivity). destruct (light_of _); intros H; inversion H; reflexivity.
  - unfold classify_a64. repeat match goal with |- (if ?b then _ else _) = _ -> _ => destruct b end;
      intros H; inversion H; reflexivity.
Qed.

Lemma cc_init_wf a plat ccid cc : cc_init a plat ccid = Some cc -> wf_cc a cc.
Proof.
  unfold cc_init. destruct (classify a plat ccid) as [k|] eqn:E; [|discriminate].
  intros H. inversion H; subst. rewrite <- (classify_arch _ _ _ _ E). apply cc_of_kind_wf.
Qed.

(* the Compiler's override of the natural alignment keeps conventions well formed *)
Lemma compiler_cc_wf a plat cc : wf_cc a cc -> wf_cc a (compiler_cc a plat cc).
Proof.
  intros W. unfold compiler_cc, cc_with_natural.
  destruct (Z.ltb_spec (cc_natural cc) (env_stack_alignment a plat)) as [L|L]; auto.
  destruct W as [W1 W2 Wn W3 W4 W5 W6 Wb W7 W8].
  assert (E : env_stack_alignment a plat = 4 \/ env_stack_alignment a plat = 16) by (unfold env_stack_alignment; destruct a; try destruct (plat =? 1); auto).
  constructor; cbn; auto.
  - destruct E as [-> | ->]; [exists 2 | exists 4]; split; try lia; reflexivity.
  - destruct E as [E|E]; rewrite E.
    + destruct a; cbn in *; try (exists 1; reflexivity).
      * unfold env_stack_alignment in E. discriminate.
      * unfold env_stack_alignment in E. discriminate.
    + destruct a; cbn; [exists 4 | exists 2 | exists 2]; reflexivity.
  - destruct E as [E|E]; rewrite E; lia.
  - intros Ha. specialize (W8 Ha). subst a. unfold env_stack_alignment in L. destruct W8 as [Hn _]. lia.
Qed.

Lemma compiler_cc_init_wf a plat ccid cc : cc_init a plat ccid = Some cc -> wf_cc a (compiler_cc a plat cc).
Proof. intros H. apply compiler_cc_wf. eapply cc_init_wf; eauto. Qed.

(* ------------------------------------------------------------------ basic facts *)
Section Layout.
Variable f : frame_in.
Hypothesis WF : wf_in f.

Let a := fi_arch f.
Let cc := fi_cc f.
Let sal := final_alignment f.
Let rs := reg_size a.
Let ras := ret_addr_size a.

Lemma sal_pow2 : pow2 sal.
Proof.
  unfold sal, final_alignment. pose proof (wc_nat _ _ (wi_cc f WF)) as Hn. pose proof (wi_lalign f WF) as Hl. pose proof (wi_calign f WF) as Hc.
  assert (M : forall x y, pow2 x -> align_ok y -> pow2 (Z.max x y)).
  { intros x y Hx [->|Hy]; [|apply pow2_max; auto]. pose proof (pow2_pos x Hx). rewrite Z.max_l by lia. auto. }
  cbv zeta. destruct (fi_align_fix f && _); [exact Hn|].
  unfold requested_alignment. rewrite Z.max_assoc. apply M; auto.
Qed.

Lemma sal_pos : 0 < sal.
Proof. apply pow2_pos, sal_pow2. Qed.

Lemma natural_divides_sal : (cc_natural cc | sal).
Proof.
  apply pow2_divide; [apply WF | apply sal_pow2 |]. unfold sal, final_alignment, requested_alignment. fold cc. cbv zeta.
  destruct (fi_align_fix f && _); lia.
Qed.

Lemma rs_divides_sal : (rs | sal).
Proof. eapply Z.divide_trans; [apply (wc_nat_rs _ _ (wi_cc f WF)) | apply natural_divides_sal]. Qed.

Lemma rs_pos : 0 < rs.
Proof. unfold rs. destruct a; cbn; lia. Qed.

Lemma group_size_nonneg g : 0 <= g <= 3 -> 0 <= fin_group_size f g.
Proof.
  intros Hg. unfold fin_group_size. apply align_up_nonneg.
  - apply (wc_aligns _ _ (wi_cc f WF)); auto.
  - apply Z.mul_nonneg_nonneg; [unfold popcnt; lia | apply (wc_sizes _ _ (wi_cc f WF))].
Qed.

Lemma pp_nonneg : 0 <= fin_pp f.
Proof.
  unfold fin_pp. cbn [map fold_right].
  pose proof (group_size_nonneg 0 ltac:(lia)). pose proof (group_size_nonneg 1 ltac:(lia)).
  pose proof (group_size_nonneg 2 ltac:(lia)). pose proof (group_size_nonneg 3 ltac:(lia)).
  repeat destruct (has_push_pop _ _); lia.
Qed.

Lemma ex_nonneg : 0 <= fin_ex f.
Proof.
  unfold fin_ex. cbn [map fold_right].
  pose proof (group_size_nonneg 0 ltac:(lia)). pose proof (group_size_nonneg 1 ltac:(lia)).
  pose proof (group_size_nonneg 2 ltac:(lia)). pose proof (group_size_nonneg 3 ltac:(lia)).
  repeat destruct (has_push_pop _ _); lia.
Qed.

Lemma srsize0 : qget (cc_srsize cc) 0 = rs.
Proof. apply (wc_rs _ _ (wi_cc f WF)). Qed.

Lemma vs_pos : 0 < qget (cc_srsize cc) 1.
Proof. apply pow2_pos, (wc_vs _ _ (wi_cc f WF)). Qed.

(* ------------------------------------------------------------------ the layout chain *)
Definition uses_stack_or_calls (o : frame_out) : Prop :=
  fo_push_pop_off o <> 0 \/ fi_has_calls f = true \/ has_link_reg a = true.

Theorem layout_chain :
  let o := finalize f in
  0 <= fi_call_size f <= fo_local_off o /\
  fo_local_off o + fi_local_size f <= fo_extra_off o /\
  0 <= fo_extra_size o /\ 0 <= fo_push_pop_size o /\
  (fo_da_off o = -1 -> fo_extra_off o + fo_extra_size o <= fo_push_pop_off o) /\
  (fo_da_off o <> -1 -> fo_da_off o = fo_extra_off o + fo_extra_size o /\ fo_da_off o + rs <= fo_push_pop_off o /\
                        fo_has_da o = true /\ fi_has_fp f = false) /\
  fo_push_pop_off o + fo_push_pop_size o = fo_final_size o /\
  fo_push_pop_off o <= fo_stack_adj o /\
  (fo_has_da o = false -> fo_stack_adj o = fo_push_pop_off o) /\
  (fo_has_da o = true -> fo_stack_adj o mod fo_final_align o = 0) /\
  fo_local_off o mod fo_final_align o = 0 /\
  (fo_aligned_vec_sr o = true -> fo_extra_off o mod qget (cc_srsize cc) 1 = 0 /\ (qget (cc_srsize cc) 1 | fo_final_align o)) /\
  (uses_stack_or_calls o -> (fo_push_pop_off o + fo_push_pop_size o + ras) mod fo_final_align o = 0).
Proof.
  pose proof sal_pos as Hsal. pose proof pp_nonneg as Hpp. pose proof ex_nonneg as Hex.
  pose proof rs_pos as Hrs. pose proof vs_pos as Hvs. pose proof (wi_lsize f WF) as Hl. pose proof (wi_csize f WF) as Hc.
  pose proof srsize0 as Hrs0.
  unfold uses_stack_or_calls, finalize.
  cbv zeta. cbn [fo_local_off fo_extra_off fo_extra_size fo_push_pop_size fo_da_off fo_push_pop_off fo_final_size fo_stack_adj
                 fo_has_da fo_final_align fo_aligned_vec_sr].
  fold a cc sal. rewrite Hrs0.
  set (vs := qget (cc_srsize cc) 1) in *.
  set (pp := fin_pp f) in *. set (ex := fin_ex f) in *.
  set (v0 := align_up (fi_call_size f) sal).
  pose proof (align_up_spec (fi_call_size f) sal Hsal) as [Hv0 Hv0m]. fold v0 in Hv0, Hv0m.
  set (avsr := (vs <=? sal) && negb (ex =? 0)).
  set (v1 := if avsr then align_up (v0 + fi_local_size f) vs else v0 + fi_local_size f).
  assert (Hv1 : v0 + fi_local_size f <= v1).
  { unfold v1. destruct avsr; [apply align_up_ge; auto | lia]. }
  remember (fin_has_da f && negb (fi_has_fp f)) as da_slot eqn:Eda.
  set (v2 := if da_slot then v1 + ex + rs else v1 + ex).
  assert (Hv2 : v1 + ex <= v2) by (unfold v2; destruct da_slot; lia).
  set (ras' := if has_link_reg a then 0 else rs).
  assert (Hras : ras' = ras) by (unfold ras', ras, ret_addr_size, rs; reflexivity).
  remember (negb (v2 =? 0) || fi_has_calls f || (ras' =? 0)) as cond eqn:Econd.
  set (v3 := if cond then v2 + align_up_diff (v2 + pp + ras') sal else v2).
  assert (Hv3 : v2 <= v3).
  { unfold v3, align_up_diff. destruct cond; [|lia]. pose proof (align_up_ge (v2 + pp + ras') sal Hsal). lia. }
  repeat match goal with |- _ /\ _ => split end.
  - lia.
  - lia.
  - lia.
  - lia.
  - lia.
  - intros Hda. destruct da_slot; [lia|]. fold v3. unfold v2 in *. lia.
  - intros Hda. destruct da_slot; [|congruence]. fold v3. unfold v2 in *.
    symmetry in Eda. apply andb_true_iff in Eda. destruct Eda as [E1 E2].
    repeat match goal with |- _ /\ _ => split end; try lia; auto.
    destruct (fi_has_fp f); [discriminate | reflexivity].
  - reflexivity.
  - fold v3. destruct (fin_has_da f); [apply align_up_ge; auto | lia].
  - intros ->. reflexivity.
  - intros ->. apply align_up_mod; auto.
  - exact Hv0m.
  - intros Ha. fold avsr in Ha. split.
    + unfold v1. rewrite Ha. apply align_up_mod; auto.
    + unfold avsr in Ha. apply andb_true_iff in Ha. destruct Ha as [Ha _]. apply Z.leb_le in Ha.
      apply pow2_divide; [apply (wc_vs _ _ (wi_cc f WF)) | apply sal_pow2 | exact Ha].
  - intros Hu. fold v3 in Hu |- *. rewrite <- Hras.
    assert (C : cond = true).
    { destruct cond; [reflexivity|exfalso]. symmetry in Econd.
      apply orb_false_iff in Econd. destruct Econd as [C C3]. apply orb_false_iff in C. destruct C as [C1 C2].
      apply negb_false_iff in C1. apply Z.eqb_eq in C1. apply Z.eqb_neq in C3.
      destruct Hu as [Hu|[Hu|Hu]].
      - apply Hu. unfold v3. exact C1.
      - congruence.
      - unfold ras' in C3. rewrite Hu in C3. congruence. }
    unfold v3. rewrite C. unfold align_up_diff.
    replace (v2 + (align_up (v2 + pp + ras') sal - (v2 + pp + ras')) + pp + ras') with (align_up (v2 + pp + ras') sal) by lia.
    apply align_up_mod; auto.
Qed.

End Layout.

(* without dynamic alignment a final alignment of at least 16 is the natural alignment *)
Lemma sal_natural_or_da_gen f : wf_in f -> fin_has_da f = false -> cc_natural (fi_cc f) = 16 -> final_alignment f = 16.
Proof.
  intros WF Hda Hn. unfold fin_has_da in Hda. apply Z.leb_gt in Hda. rewrite Hn in Hda.
  unfold min_dynamic_alignment in Hda. cbn in Hda.
  pose proof (natural_divides_sal f WF) as [q Hq]. rewrite Hn in Hq.
  pose proof (sal_pos f WF). assert (q = 1) by lia. lia.
Qed.

(* C07 round 7 (additive) - the frame conditions, the end-to-end stack arguments and the round trip with verified argument copies,
   lifted to API frames: no hypothesis about the convention (wf_in's convention part) or the saved register ids (x86_regs_exist) is left;
   only the attributes the API takes and, on x86-64, the input contract x86_vec_contract. *)
From Coq Require Import ZArith List Bool Lia.
From Verif Require Import Frame.FrameModel Frame.FrameMachine Frame.FrameArith Frame.FrameLayout Frame.FrameMachineLemmas
  Frame.FrameX86Proofs Frame.FrameA64Proofs Frame.FrameContract Frame.FrameCopies Frame.FrameExamples.
Import ListNotations.
Local Open Scope Z_scope.

Theorem x86_frame_conditions_api f : api_frame f -> is_x86_family (fi_arch f) = true -> x86_vec_contract f ->
  forall s0 ra,
  let a := fi_arch f in let o := finalize f in let ws := reg_size a in let sp0 := st_reg s0 0 4 in
  st_ret s0 = None -> holds (st_mem s0) sp0 ws ra ->
  (sp0 + ws) mod cc_natural (fi_cc f) = 0 -> fin_pp f <= sp0 < 2 ^ (8 * ws) ->
  exists s1, run a (x86_prolog f o) s0 = Some s1 /\
    (forall x, sp0 <= x -> st_mem s1 x = st_mem s0 x) /\
    (forall x, x < x86_sp_body f sp0 + fo_extra_off o -> st_mem s1 x = st_mem s0 x) /\
    (forall g r, (g, r) <> (0, 4) -> (fi_has_fp f = true -> (g, r) <> (0, 5)) -> (fin_sa f <> 4 -> (g, r) <> (0, fin_sa f)) ->
                 st_reg s1 g r = st_reg s0 g r) /\
    forall s2, body_ok f s0 s1 s2 ->
      exists s3, run a (x86_epilog f o) s2 = Some s3 /\
        st_mem s3 = st_mem s2 /\
        (forall g r, (g, r) <> (0, 4) -> (fi_has_fp f = true -> (g, r) <> (0, 5)) -> Z.testbit (saved_regs f o g) r = false ->
                     st_reg s3 g r = st_reg s2 g r).
Proof.
  intros AF HX HC. exact (x86_frame_conditions f (api_frame_wf f AF) HX (x86_regs_exist_discharged f (af_cc f AF) HX HC)).
Qed.

Theorem x86_stack_args_intact_api f : api_frame f -> is_x86_family (fi_arch f) = true -> x86_vec_contract f ->
  forall s0,
  let a := fi_arch f in let o := finalize f in let ws := reg_size a in let sp0 := st_reg s0 0 4 in
  st_ret s0 = None -> (sp0 + ws) mod cc_natural (fi_cc f) = 0 ->
  exists s1, run a (x86_prolog f o) s0 = Some s1 /\
    forall off n v, 0 <= off -> holds (st_mem s0) (sp0 + ws + off) n v ->
      (fo_sa_from_sp o <> -1 -> holds (st_mem s1) (st_reg s1 0 4 + fo_sa_from_sp o + off) n v) /\
      (fin_sa f <> 4 -> holds (st_mem s1) (st_reg s1 0 (fin_sa f) + fo_sa_from_sa o + off) n v) /\
      (fi_has_fp f = true -> holds (st_mem s1) (st_reg s1 0 5 + fo_sa_from_sa o + off) n v).
Proof.
  intros AF HX HC. exact (x86_stack_args_intact f (api_frame_wf f AF) HX (x86_regs_exist_discharged f (af_cc f AF) HX HC)).
Qed.

Theorem x86_roundtrip_with_copies_api f : api_frame f -> is_x86_family (fi_arch f) = true -> x86_vec_contract f ->
  forall cs, copies_ok f cs = true ->
  forall s0 ra,
  let a := fi_arch f in let o := finalize f in let ws := reg_size a in let sp0 := st_reg s0 0 4 in
  st_ret s0 = None -> holds (st_mem s0) sp0 ws ra ->
  (sp0 + ws) mod cc_natural (fi_cc f) = 0 -> fin_pp f <= sp0 < 2 ^ (8 * ws) ->
  exists s1, run a (x86_prolog f o) s0 = Some s1 /\
    forall s1', run a (map acopy_instr cs) s1 = Some s1' ->
      st_reg s1' 0 4 = x86_sp_body f sp0 /\
      forall s2, body_ok f s0 s1' s2 ->
        exists s3, run a (x86_epilog f o) s2 = Some s3 /\
          st_ret s3 = Some ra /\ st_reg s3 0 4 = sp0 + ws + fo_callee_cleanup o /\
          (forall g r, Z.testbit (qget (cc_preserved (fi_cc f)) g) r = true ->
                       trunc (qget (cc_srsize (fi_cc f)) g) (st_reg s3 g r) = trunc (qget (cc_srsize (fi_cc f)) g) (st_reg s0 g r)).
Proof.
  intros AF HX HC. exact (x86_roundtrip_with_copies f (api_frame_wf f AF) HX (x86_regs_exist_discharged f (af_cc f AF) HX HC)).
Qed.

(* AArch64: the copies theorem for every API frame finalize accepts at HEAD *)
Theorem a64_roundtrip_with_copies_api f : api_frame f -> fi_arch f = A64 -> finalize_error f = 0 -> fi_sa_fix f = true ->
  fo_stack_adj (finalize f) <= 16777215 ->
  forall cs, copies64_ok f cs = true ->
  forall s0,
  let o := finalize f in let sp0 := st_reg s0 0 31 in
  st_ret s0 = None -> sp0 mod 16 = 0 -> 0 <= st_reg s0 0 30 < 2 ^ 64 ->
  exists s1, run A64 (fst (prolog f o)) s0 = Some s1 /\
    forall s1', run A64 (map acopy64_instr cs) s1 = Some s1' ->
      st_reg s1' 0 31 = a64_sp_body f sp0 /\
      forall s2, a64_body_ok f s0 s1' s2 ->
        exists s3, run A64 (fst (epilog f o)) s2 = Some s3 /\ snd (epilog f o) = true /\
          st_ret s3 = Some (st_reg s0 0 30) /\ st_reg s3 0 31 = sp0 /\
          (forall g r, Z.testbit (qget (cc_preserved (fi_cc f)) g) r = true ->
                       trunc (qget (cc_srsize (fi_cc f)) g) (st_reg s3 g r) = trunc (qget (cc_srsize (fi_cc f)) g) (st_reg s0 g r)).
Proof.
  intros AF HA HE HS HADJ. pose proof (api_frame_wf f AF) as WF.
  assert (HR : a64_realisable f = true).
  { unfold finalize_error in HE. destruct (_ <? _); [discriminate|]. rewrite HA in HE. destruct (a64_realisable f); [reflexivity|discriminate]. }
  exact (a64_roundtrip_with_copies f WF HA HR (or_intror HS) HADJ).
Qed.

(* non-vacuity: the Win64 example frame is an API frame inside the contract with an accepted, non-empty copy sequence; the
   AAPCS64 example frame with a user SA register is an accepted API frame with an accepted copy sequence *)
Lemma ex_api_copies :
  (api_frame ex_win64 /\ x86_vec_contract ex_win64 /\ is_x86_family (fi_arch ex_win64) = true /\
   copies_ok ex_win64 [CMovRR 8 3 8 1; CStore (fo_local_off (finalize ex_win64)) 8 3] = true /\ fo_sa_from_sp (finalize ex_win64) = -1 /\ fin_sa ex_win64 <> 4) /\
  (api_frame ex_a64_sa_fixed /\ finalize_error ex_a64_sa_fixed = 0 /\ fi_sa_fix ex_a64_sa_fixed = true /\
   fo_stack_adj (finalize ex_a64_sa_fixed) <= 16777215 /\
   copies64_ok ex_a64_sa_fixed [C64Mov 8 19 8 0; C64Str (fo_local_off (finalize ex_a64_sa_fixed)) 8 19] = true).
Proof.
  destruct ex_win64_api as [A [B C]]. destruct ex_a64_api as [D [E [F [G _]]]].
  split.
  - split; [exact A|]. split; [exact B|]. split; [exact C|]. split; [vm_compute; reflexivity|]. split; vm_compute; congruence.
  - split; [exact D|]. split; [exact E|]. split; [exact F|]. split; [exact G|]. vm_compute; reflexivity.
Qed.

(* C07 — generic lemmas about the abstract machine: memory fragments, register updates, push/pop and
   store/load sequences of x86. *)
From Coq Require Import ZArith List Bool Lia.
From Verif Require Import Frame.FrameModel Frame.FrameMachine.
Import ListNotations.
Local Open Scope Z_scope.

Ltac splits := repeat match goal with |- _ /\ _ => split end.

(* ------------------------------------------------------------------ memory *)
Definition holds (m : Z -> mval) (a n v : Z) : Prop := forall i, 0 <= i < n -> m (a + i) = MFrag v n i.

Lemma mval_eqb_refl x : mval_eqb x x = true.
Proof. destruct x; cbn; auto. rewrite !Z.eqb_refl. reflexivity. Qed.

Lemma load_holds m a n v : 0 < n -> holds m a n v -> load_mem m a n = Some v.
Proof.
  intros Hn H. unfold load_mem.
  pose proof (H 0 ltac:(lia)) as H0. rewrite Z.add_0_r in H0. rewrite H0. rewrite Z.eqb_refl. cbn [andb].
  replace (forallb _ _) with true; auto. symmetry. apply forallb_forall. intros i Hi. apply in_seq in Hi.
  rewrite H by lia. apply mval_eqb_refl.
Qed.

Lemma holds_store_same m a n v : holds (store_mem m a n v) a n v.
Proof.
  intros i Hi. unfold store_mem.
  destruct (Z.leb_spec a (a + i)); [|lia]. destruct (Z.ltb_spec (a + i) (a + n)); [|lia]. cbn. f_equal. lia.
Qed.

Lemma store_other m a n v x : x < a \/ a + n <= x -> store_mem m a n v x = m x.
Proof.
  intros H. unfold store_mem. destruct (Z.leb_spec a x); destruct (Z.ltb_spec x (a + n)); cbn; auto; lia.
Qed.

Lemma holds_store_other m a n v b k w : b + k <= a \/ a + n <= b -> holds m b k w -> holds (store_mem m a n v) b k w.
Proof. intros Hd H i Hi. rewrite store_other by lia. apply H; auto. Qed.

Lemma holds_ext m m' a n v : (forall x, a <= x < a + n -> m' x = m x) -> holds m a n v -> holds m' a n v.
Proof. intros E H i Hi. rewrite E by lia. apply H; auto. Qed.

(* ------------------------------------------------------------------ registers *)
Lemma reg_set_same s g r v : st_reg (set_reg s g r v) g r = v.
Proof. cbn. rewrite !Z.eqb_refl. reflexivity. Qed.

Lemma reg_set_other s g r v g' r' : (g', r') <> (g, r) -> st_reg (set_reg s g r v) g' r' = st_reg s g' r'.
Proof.
  intros H. cbn. destruct (Z.eqb_spec g' g); destruct (Z.eqb_spec r' r); cbn; auto. subst. congruence.
Qed.

Lemma reg_set_other_r s g r v r' : r' <> r -> st_reg (set_reg s g r v) g r' = st_reg s g r'.
Proof. intros H. apply reg_set_other. congruence. Qed.

Lemma reg_set_other_g s g r v g' r' : g' <> g -> st_reg (set_reg s g r v) g' r' = st_reg s g' r'.
Proof. intros H. apply reg_set_other. congruence. Qed.

(* ------------------------------------------------------------------ runs *)
Lemma run_app a l1 : forall l2 s, run a (l1 ++ l2) s = match run a l1 s with Some s' => run a l2 s' | None => None end.
Proof.
  induction l1 as [|i l1 IH]; intros l2 s; cbn [app run]; auto.
  destruct (step a i s); auto.
Qed.

Lemma run_nil a s : run a [] s = Some s.
Proof. reflexivity. Qed.

Lemma nth_error_snoc {A} (l : list A) x k y :
  nth_error (l ++ [x]) k = Some y -> (nth_error l k = Some y /\ (k < length l)%nat) \/ (k = length l /\ y = x).
Proof.
  intros H. destruct (Nat.lt_ge_cases k (length l)) as [Hlt|Hge].
  - rewrite nth_error_app1 in H by auto. left; auto.
  - rewrite nth_error_app2 in H by auto. right.
    destruct (k - length l)%nat eqn:E; cbn in H.
    + inversion H. split; auto. lia.
    + destruct n; discriminate.
Qed.

(* ------------------------------------------------------------------ x86: push / pop sequences *)
Section X86Seq.
Variable a : arch.
Hypothesis HA : is_x86_family a = true.
Let ws := reg_size a.

Lemma ws_pos : 0 < ws.
Proof. unfold ws. destruct a; cbn; lia. Qed.

Lemma step_x86 i s : st_ret s = None -> step a i s = x86_step a i s.
Proof. intros H. unfold step. rewrite H. destruct a; auto. discriminate. Qed.

Definition push_list (l : list Z) : list instr := map (fun id => (Mpush, [gpr a id])) l.
Definition pop_list (l : list Z) : list instr := map (fun id => (Mpop, [gpr a id])) l.

(* pushing the registers of l (none of them sp): the values sit on the stack in the order rev l from the new sp upwards *)
Lemma run_pushes : forall l s,
  st_ret s = None -> (forall r, In r l -> r <> 4) ->
  exists s', run a (push_list l) s = Some s' /\
    st_reg s' 0 4 = st_reg s 0 4 - ws * Z.of_nat (length l) /\
    (forall g r, (g, r) <> (0, 4) -> st_reg s' g r = st_reg s g r) /\
    st_ret s' = None /\
    (forall x, st_reg s 0 4 <= x -> st_mem s' x = st_mem s x) /\
    (forall k r, nth_error (rev l) k = Some r ->
                 holds (st_mem s') (st_reg s' 0 4 + ws * Z.of_nat k) ws (trunc ws (st_reg s 0 r))) /\
    (forall x, x < st_reg s' 0 4 -> st_mem s' x = st_mem s x).
Proof.
  pose proof ws_pos as Hws.
  induction l as [|x l IH]; intros s Hret Hne.
  - exists s. cbn. splits; auto; try lia; try (intros k r H; destruct k; discriminate).
  - cbn [push_list map run]. rewrite step_x86 by auto. cbn [x86_step gpr]. fold ws. rewrite Z.eqb_refl.
    set (s1 := set_mem _ _).
    assert (Hret1 : st_ret s1 = None) by (cbn; auto).
    assert (Hne1 : forall r, In r l -> r <> 4) by (intros; apply Hne; right; auto).
    destruct (IH s1 Hret1 Hne1) as [s' [Hrun [Hsp [Hregs [Hr [Hmem [Hslots Hlow]]]]]]].
    assert (Hsp1 : st_reg s1 0 4 = st_reg s 0 4 - ws) by (cbn; reflexivity).
    exists s'. split; [exact Hrun|]. splits.
    + rewrite Hsp, Hsp1. cbn [length]. lia.
    + intros g r Hgr. rewrite Hregs by auto. cbn. destruct (Z.eqb_spec g 0); destruct (Z.eqb_spec r 4); cbn; auto. subst; congruence.
    + auto.
    + intros y Hy. rewrite Hmem by (rewrite Hsp1; lia). cbn. apply store_other. lia.
    + intros k r Hk. cbn [rev] in Hk. apply nth_error_snoc in Hk. destruct Hk as [[Hk Hlt]|[Hk ->]].
      * specialize (Hslots k r Hk).
        assert (E : st_reg s1 0 r = st_reg s 0 r).
        { cbn. destruct (Z.eqb_spec r 4); auto. subst. exfalso. apply (Hne1 4); auto. apply in_rev. eapply nth_error_In; eauto. }
        rewrite E in Hslots. exact Hslots.
      * rewrite rev_length in Hk. subst k. rewrite Hsp, Hsp1.
        replace (st_reg s 0 4 - ws - ws * Z.of_nat (length l) + ws * Z.of_nat (length l)) with (st_reg s 0 4 - ws) by lia.
        eapply holds_ext; [|apply holds_store_same]. intros y Hy. rewrite Hmem by (rewrite Hsp1; lia). cbn. reflexivity.
    + intros y Hy. rewrite Hlow by exact Hy. cbn. apply store_other. rewrite Hsp, Hsp1 in Hy. left. nia.
Qed.

(* popping into the registers of l (distinct, none of them sp) *)
Lemma run_pops (val : Z -> Z) : forall l s,
  st_ret s = None -> NoDup l -> (forall r, In r l -> r <> 4) ->
  (forall k r, nth_error l k = Some r -> holds (st_mem s) (st_reg s 0 4 + ws * Z.of_nat k) ws (val r)) ->
  exists s', run a (pop_list l) s = Some s' /\
    st_reg s' 0 4 = st_reg s 0 4 + ws * Z.of_nat (length l) /\
    (forall r, In r l -> st_reg s' 0 r = val r) /\
    (forall g r, (g, r) <> (0, 4) -> (g = 0 -> ~ In r l) -> st_reg s' g r = st_reg s g r) /\
    st_mem s' = st_mem s /\ st_ret s' = None.
Proof.
  pose proof ws_pos as Hws.
  induction l as [|x l IH]; intros s Hret Hnd Hne Hslots.
  - exists s. cbn. splits; auto; try lia; try (intros r []).
  - cbn [pop_list map run]. rewrite step_x86 by auto. cbn [x86_step gpr]. fold ws. rewrite Z.eqb_refl.
    pose proof (Hslots 0%nat x eq_refl) as H0. rewrite Z.mul_0_r, Z.add_0_r in H0.
    rewrite (load_holds _ _ _ _ Hws H0).
    set (s1 := set_reg (set_reg s 0 4 (st_reg s 0 4 + ws)) 0 x (val x)).
    assert (Hx4 : x <> 4) by (apply Hne; left; auto).
    assert (Hsp1 : st_reg s1 0 4 = st_reg s 0 4 + ws).
    { unfold s1. rewrite reg_set_other_r by auto. apply reg_set_same. }
    inversion Hnd as [|? ? Hnotin Hnd']; subst.
    assert (Hslots1 : forall k r, nth_error l k = Some r -> holds (st_mem s1) (st_reg s1 0 4 + ws * Z.of_nat k) ws (val r)).
    { intros k r Hk. rewrite Hsp1. specialize (Hslots (S k) r Hk). cbn [st_mem s1 set_reg].
      replace (st_reg s 0 4 + ws + ws * Z.of_nat k) with (st_reg s 0 4 + ws * Z.of_nat (S k)) by lia. exact Hslots. }
    destruct (IH s1 ltac:(cbn; auto) Hnd' ltac:(intros; apply Hne; right; auto) Hslots1)
      as [s' [Hrun [Hsp [Hvals [Hregs [Hmem Hr]]]]]].
    exists s'. split; [exact Hrun|]. splits.
    + rewrite Hsp, Hsp1. cbn [length]. lia.
    + intros r [<-|Hin]; [|apply Hvals; auto].
      rewrite Hregs; [unfold s1; apply reg_set_same| congruence | intros _; auto].
    + intros g r Hgr Hnin. rewrite Hregs; auto.
      * unfold s1. rewrite !reg_set_other; auto. intros E; inversion E; subst. apply Hnin; auto. left; auto.
      * intros Hg Hin. apply (Hnin Hg). right; auto.
    + rewrite Hmem. reflexivity.
    + exact Hr.
Qed.

(* ------------------------------------------------------------------ x86: stores / loads of the extra groups *)
Definition xreg_ok (mn : mnem) (g id : Z) : bool := if g =? 1 then vec_id_ok a mn id else (0 <=? id) && (id <? 8).

Lemma run_extra_stores mn g sz : x86_xmov mn = Some (g, sz) ->
  forall ids off s,
  st_ret s = None -> (forall id, In id ids -> xreg_ok mn g id = true) ->
  (aligned_mov mn = true -> (st_reg s 0 4 + off) mod 16 = 0) ->
  exists s', run a (x86_extra_moves true mn g sz 4 ids off) s = Some s' /\
    st_reg s' = st_reg s /\ st_ret s' = None /\
    (forall x, x < st_reg s 0 4 + off \/ st_reg s 0 4 + off + sz * Z.of_nat (length ids) <= x -> st_mem s' x = st_mem s x) /\
    (forall k id, nth_error ids k = Some id ->
                  holds (st_mem s') (st_reg s 0 4 + off + sz * Z.of_nat k) sz (trunc sz (st_reg s g id))).
Proof.
  intros Hx.
  assert (Hsz : 0 < sz /\ (aligned_mov mn = true -> sz = 16) /\ g <> 0).
  { destruct mn; inversion Hx; subst; cbn; splits; try lia; try discriminate. }
  destruct Hsz as [Hsz [Hal Hg]].
  induction ids as [|id ids IH]; intros off s Hret Hok Halign.
  - exists s. cbn. splits; auto; try (intros k id H; destruct k; discriminate).
  - cbn [x86_extra_moves run]. rewrite step_x86 by auto.
    assert (Hstep : x86_step a (mn, [OMem 4 off 0; OReg g sz id]) s =
                    Some (set_mem s (store_mem (st_mem s) (st_reg s 0 4 + off) sz (trunc sz (st_reg s g id))))).
    { pose proof (Hok id ltac:(left; auto)) as Hid. unfold xreg_ok in Hid.
      assert (Hmod : (if aligned_mov mn then (st_reg s 0 4 + off) mod 16 =? 0 else true) = true).
      { destruct (aligned_mov mn) eqn:E; auto. apply Z.eqb_eq. apply Halign; auto. }
      destruct mn; inversion Hx; subst; cbn [x86_step x86_xmov]; rewrite ?Z.eqb_refl; cbn [andb];
        cbn [Z.eqb Pos.eqb] in Hid; rewrite Hid; cbn [andb]; rewrite Hmod; reflexivity. }
    rewrite Hstep. set (s1 := set_mem s _).
    assert (Halign1 : aligned_mov mn = true -> (st_reg s1 0 4 + (off + sz)) mod 16 = 0).
    { intros E. cbn [s1 set_mem st_reg]. rewrite (Hal E). specialize (Halign E).
      replace (st_reg s 0 4 + (off + 16)) with (st_reg s 0 4 + off + 1 * 16) by lia. rewrite Z.mod_add by lia. exact Halign. }
    destruct (IH (off + sz) s1 ltac:(cbn; auto) ltac:(intros; apply Hok; right; auto) Halign1)
      as [s' [Hrun [Hregs [Hr [Hmem Hslots]]]]].
    exists s'. split; [exact Hrun|]. splits.
    + rewrite Hregs. reflexivity.
    + exact Hr.
    + intros x Hxr. cbn [length] in Hxr. rewrite Hmem by (cbn [s1 set_mem st_reg]; lia).
      cbn [s1 set_mem st_mem]. apply store_other. lia.
    + intros k id' Hk. destruct k as [|k]; cbn [nth_error] in Hk.
      * inversion Hk; subst id'. rewrite Z.mul_0_r, Z.add_0_r.
        eapply holds_ext; [|apply holds_store_same]. intros x Hxr. rewrite Hmem by (cbn [s1 set_mem st_reg]; lia). reflexivity.
      * specialize (Hslots k id' Hk). cbn [s1 set_mem st_reg] in Hslots.
        replace (st_reg s 0 4 + off + sz * Z.of_nat (S k)) with (st_reg s 0 4 + (off + sz) + sz * Z.of_nat k) by lia. exact Hslots.
Qed.

Lemma run_extra_loads mn g sz (val : Z -> Z) : x86_xmov mn = Some (g, sz) ->
  forall ids off s,
  st_ret s = None -> NoDup ids -> (forall id, In id ids -> xreg_ok mn g id = true) ->
  (aligned_mov mn = true -> (st_reg s 0 4 + off) mod 16 = 0) ->
  (forall k id, nth_error ids k = Some id -> holds (st_mem s) (st_reg s 0 4 + off + sz * Z.of_nat k) sz (val id)) ->
  exists s', run a (x86_extra_moves false mn g sz 4 ids off) s = Some s' /\
    (forall id, In id ids -> st_reg s' g id = val id) /\
    (forall g' r, (g' = g -> ~ In r ids) -> st_reg s' g' r = st_reg s g' r) /\
    st_mem s' = st_mem s /\ st_ret s' = None.
Proof.
  intros Hx.
  assert (Hsz : 0 < sz /\ (aligned_mov mn = true -> sz = 16) /\ g <> 0).
  { destruct mn; inversion Hx; subst; cbn; splits; try lia; try discriminate. }
  destruct Hsz as [Hsz [Hal Hg]].
  induction ids as [|id ids IH]; intros off s Hret Hnd Hok Halign Hslots.
  - exists s. cbn. splits; auto; try (intros id []).
  - cbn [x86_extra_moves run]. rewrite step_x86 by auto.
    pose proof (Hslots 0%nat id eq_refl) as H0. rewrite Z.mul_0_r, Z.add_0_r in H0.
    assert (Hstep : x86_step a (mn, [OReg g sz id; OMem 4 off 0]) s = Some (set_reg s g id (val id))).
    { pose proof (Hok id ltac:(left; auto)) as Hid. unfold xreg_ok in Hid.
      assert (Hmod : (if aligned_mov mn then (st_reg s 0 4 + off) mod 16 =? 0 else true) = true).
      { destruct (aligned_mov mn) eqn:E; auto. apply Z.eqb_eq. apply Halign; auto. }
      pose proof (load_holds _ _ _ _ Hsz H0) as Hload.
      destruct mn; inversion Hx; subst; cbn [x86_step x86_xmov]; rewrite ?Z.eqb_refl; cbn [andb];
        cbn [Z.eqb Pos.eqb] in Hid; rewrite Hid; cbn [andb]; rewrite Hmod; rewrite Hload; reflexivity. }
    rewrite Hstep. set (s1 := set_reg s g id (val id)).
    assert (Hsp1 : st_reg s1 0 4 = st_reg s 0 4) by (unfold s1; apply reg_set_other_g; auto).
    inversion Hnd as [|? ? Hnotin Hnd']; subst.
    assert (Halign1 : aligned_mov mn = true -> (st_reg s1 0 4 + (off + sz)) mod 16 = 0).
    { intros E. rewrite Hsp1. rewrite (Hal E). specialize (Halign E).
      replace (st_reg s 0 4 + (off + 16)) with (st_reg s 0 4 + off + 1 * 16) by lia. rewrite Z.mod_add by lia. exact Halign. }
    assert (Hslots1 : forall k id', nth_error ids k = Some id' ->
                      holds (st_mem s1) (st_reg s1 0 4 + (off + sz) + sz * Z.of_nat k) sz (val id')).
    { intros k id' Hk. rewrite Hsp1. specialize (Hslots (S k) id' Hk). cbn [s1 set_reg st_mem].
      replace (st_reg s 0 4 + (off + sz) + sz * Z.of_nat k) with (st_reg s 0 4 + off + sz * Z.of_nat (S k)) by lia. exact Hslots. }
    destruct (IH (off + sz) s1 ltac:(cbn; auto) Hnd' ltac:(intros; apply Hok; right; auto) Halign1 Hslots1)
      as [s' [Hrun [Hvals [Hregs [Hmem Hr]]]]].
    exists s'. split; [exact Hrun|]. splits.
    + intros r [<-|Hin]; [|apply Hvals; auto]. rewrite Hregs by (intros _; auto). unfold s1. apply reg_set_same.
    + intros g' r Hnin. rewrite Hregs.
      * unfold s1. apply reg_set_other. intros E; inversion E; subst. apply Hnin; auto. left; auto.
      * intros Hgg Hin. apply (Hnin Hgg). right; auto.
    + rewrite Hmem. reflexivity.
    + exact Hr.
Qed.

End X86Seq.

(* C07 round 6 - argument copies (what emit_args_assignment emits between the prolog and the body) as a VERIFIED static check.
   emit_args_assignment itself (C06's code) is not modelled.  Instead: a checker `copies_ok f cs` on the emitted copy sequence
   (register moves, loads, exchanges, stores into the frame) and a theorem: if the checker accepts, then for EVERY entry state and
   every confined body the round trip of the frame still holds with the copies executed after the prolog.  The check runs the
   extracted checker on the implementation's copy sequence of every argument-copy frame: an accepted frame is covered for all
   entry states (the per-frame execution on the proven machine covers one entry state). x86 / x86-64. *)
From Coq Require Import ZArith List Bool Lia.
From Verif Require Import Frame.FrameModel Frame.FrameMachine Frame.FrameArith Frame.FrameLayout Frame.FrameMachineLemmas Frame.FrameX86Proofs.
Import ListNotations.
Local Open Scope Z_scope.

(* the copy instructions (GP registers; sizes as emitted) *)
Inductive acopy :=
| CMovRR (sd d sr r : Z)          (* mov d, r *)
| CLoad (sz d b off : Z)          (* mov d, [b + off] *)
| CStore (off sz r : Z)           (* mov [sp + off], r *)
| CXchg (sd d sr r : Z).          (* xchg d, r *)

Definition acopy_instr (c : acopy) : instr :=
  match c with
  | CMovRR sd d sr r => (Mmov, [OReg 0 sd d; OReg 0 sr r])
  | CLoad sz d b off => (Mmov, [OReg 0 sz d; OMem b off 0])
  | CStore off sz r => (Mmov, [OMem 4 off 0; OReg 0 sz r])
  | CXchg sd d sr r => (Mxchg, [OReg 0 sd d; OReg 0 sr r])
  end.

(* a register the copies may overwrite: in the frame's dirty set (so prolog/epilog preserve it if the convention requires), not
   sp, not the frame pointer of a frame that preserves it.  The checker is stated on the DATA it needs (final dirty mask of the GP
   group, FP flag, call size, local offset and size) so that the extracted code can be run on the implementation's frame *)
Definition writable_data (dirty0 preserved0 : Z) (has_fp : bool) (d : Z) : bool :=
  (Z.testbit dirty0 d || negb (Z.testbit preserved0 d)) && negb (d =? 4) && negb (has_fp && (d =? 5)).

(* a store must stay inside the call area or the local area of the frame *)
Definition in_areas_data (csize local_off lsize off sz : Z) : bool :=
  (0 <=? sz) &&
  (((0 <=? off) && (off + sz <=? csize)) ||
   ((local_off <=? off) && (off + sz <=? local_off + lsize))).

Definition copy_ok_data (dirty0 preserved0 : Z) (has_fp : bool) (csize local_off lsize : Z) (c : acopy) : bool :=
  match c with
  | CMovRR _ d _ _ => writable_data dirty0 preserved0 has_fp d
  | CLoad _ d _ _ => writable_data dirty0 preserved0 has_fp d
  | CStore off sz _ => in_areas_data csize local_off lsize off sz
  | CXchg _ d _ r => writable_data dirty0 preserved0 has_fp d && writable_data dirty0 preserved0 has_fp r
  end.
Definition copies_ok_data dirty0 preserved0 has_fp csize local_off lsize (cs : list acopy) : bool :=
  forallb (copy_ok_data dirty0 preserved0 has_fp csize local_off lsize) cs.

Definition copy_writable (f : frame_in) (d : Z) : bool :=
  writable_data (q0 (fo_dirty (finalize f))) (q0 (cc_preserved (fi_cc f))) (fi_has_fp f) d.
Definition copy_in_areas (f : frame_in) (off sz : Z) : bool :=
  in_areas_data (fi_call_size f) (fo_local_off (finalize f)) (fi_local_size f) off sz.
Definition copy_ok (f : frame_in) (c : acopy) : bool :=
  copy_ok_data (q0 (fo_dirty (finalize f))) (q0 (cc_preserved (fi_cc f))) (fi_has_fp f) (fi_call_size f) (fo_local_off (finalize f)) (fi_local_size f) c.
Definition copies_ok (f : frame_in) (cs : list acopy) : bool :=
  copies_ok_data (q0 (fo_dirty (finalize f))) (q0 (cc_preserved (fi_cc f))) (fi_has_fp f) (fi_call_size f) (fo_local_off (finalize f)) (fi_local_size f) cs.

Section Copies.
Variable f : frame_in.
Hypothesis WF : wf_in f.
Hypothesis HX : is_x86_family (fi_arch f) = true.
Local Notation a := (fi_arch f).
Local Notation o := (finalize f).

(* what a confined piece of code between prolog and epilog may do, relative to the state s1 it starts in *)
Record confined (sp0 : Z) (s1 s2 : state) : Prop := mk_conf {
  cf_ret : st_ret s2 = None;
  cf_sp : st_reg s2 0 4 = st_reg s1 0 4;
  cf_fp : fi_has_fp f = true -> st_reg s2 0 5 = st_reg s1 0 5;
  cf_regs : forall g r, Z.testbit (qget (fo_dirty o) g) r = false -> Z.testbit (qget (cc_preserved (fi_cc f)) g) r = true -> st_reg s2 g r = st_reg s1 g r;
  cf_mem : forall x, ~ body_may_write f sp0 x -> st_mem s2 x = st_mem s1 x
}.

Lemma confined_refl sp0 s : st_ret s = None -> confined sp0 s s.
Proof. intros H. constructor; auto. Qed.

Lemma confined_trans sp0 s1 s2 s3 : confined sp0 s1 s2 -> confined sp0 s2 s3 -> confined sp0 s1 s3.
Proof.
  intros [A1 A2 A3 A4 A5] [B1 B2 B3 B4 B5]. constructor; auto.
  - congruence.
  - intros H. rewrite B3, A3; auto.
  - intros g r H H'. rewrite B4, A4; auto.
  - intros x H. rewrite B5, A5; auto.
Qed.

Lemma writable_facts d : copy_writable f d = true ->
  (Z.testbit (qget (fo_dirty o) 0) d = true \/ Z.testbit (qget (cc_preserved (fi_cc f)) 0) d = false) /\ d <> 4 /\ (fi_has_fp f = true -> d <> 5).
Proof.
  unfold copy_writable, writable_data. intros H. apply andb_true_iff in H. destruct H as [H H5]. apply andb_true_iff in H. destruct H as [Hd H4].
  split; [apply orb_true_iff in Hd; destruct Hd as [Hd|Hd]; [left; exact Hd | right; apply negb_true_iff; exact Hd]|]. split.
  - intros ->. discriminate.
  - intros Hfp ->. rewrite Hfp in H5. discriminate.
Qed.

(* writing a writable register is confined *)
Lemma set_writable_confined sp0 s d v : st_ret s = None -> copy_writable f d = true -> confined sp0 s (set_reg s 0 d v).
Proof.
  intros Hret Hw. destruct (writable_facts d Hw) as [Hd [H4 H5]]. constructor; cbn [set_reg st_ret st_mem]; auto.
  - apply reg_set_other_r. congruence.
  - intros Hfp. apply reg_set_other_r. specialize (H5 Hfp). congruence.
  - intros g r Hnd Hpr. apply reg_set_other. intros E. inversion E; subst. destruct Hd; congruence.
Qed.

(* one copy *)
Lemma copy_confined sp0 c s s' :
  st_ret s = None -> st_reg s 0 4 = x86_sp_body f sp0 -> copy_ok f c = true ->
  step a (acopy_instr c) s = Some s' -> confined sp0 s s'.
Proof.
  intros Hret Hsp Hok Hstep. rewrite (step_x86 a HX _ _ Hret) in Hstep.
  unfold copy_ok in Hok. destruct c as [sd d sr r | sz d b off | off sz r | sd d sr r]; cbn [acopy_instr x86_step copy_ok_data] in *.
  - inversion Hstep; subst. apply set_writable_confined; auto.
  - destruct (load_mem _ _ _) as [v|]; [|discriminate]. inversion Hstep; subst. apply set_writable_confined; auto.
  - inversion Hstep; subst. clear Hstep. constructor; cbn [set_mem st_ret st_reg st_mem]; auto.
    intros x Hx. unfold in_areas_data in Hok. apply andb_true_iff in Hok. destruct Hok as [Hsz Hok]. apply Z.leb_le in Hsz.
    apply store_other. rewrite Hsp.
    destruct (Z_lt_le_dec x (x86_sp_body f sp0 + off)) as [L|L]; [left; exact L|]. right.
    destruct (Z_lt_le_dec x (x86_sp_body f sp0 + off + sz)) as [L2|L2]; [|exact L2]. exfalso. apply Hx.
    unfold body_may_write. cbv zeta. apply orb_true_iff in Hok. destruct Hok as [Hok|Hok]; apply andb_true_iff in Hok; destruct Hok as [H1 H2];
      apply Z.leb_le in H1; apply Z.leb_le in H2; [right; left; lia | right; right; left; lia].
  - apply andb_true_iff in Hok. destruct Hok as [Hd Hr]. inversion Hstep; subst. clear Hstep.
    eapply confined_trans; [apply (set_writable_confined sp0 s d (st_reg s 0 r) Hret Hd)|].
    apply set_writable_confined; auto.
Qed.

(* the whole copy sequence *)
Lemma copies_confined sp0 : forall cs s s',
  st_ret s = None -> st_reg s 0 4 = x86_sp_body f sp0 -> copies_ok f cs = true ->
  run a (map acopy_instr cs) s = Some s' -> confined sp0 s s'.
Proof.
  induction cs as [|c cs IH]; intros s s' Hret Hsp Hok Hrun; cbn [map run] in Hrun.
  - inversion Hrun; subst. apply confined_refl; auto.
  - unfold copies_ok, copies_ok_data in Hok. cbn [forallb] in Hok. apply andb_true_iff in Hok. destruct Hok as [Hc Hcs].
    destruct (step a (acopy_instr c) s) as [t|] eqn:E; [|discriminate].
    pose proof (copy_confined sp0 c s t Hret Hsp Hc E) as C1.
    eapply confined_trans; [exact C1|]. apply (IH t s'); auto.
    + apply C1.
    + rewrite (cf_sp _ _ _ C1). exact Hsp.
Qed.

End Copies.

(* prolog ; accepted copies ; confined body ; epilog - the round trip for EVERY entry state *)
Theorem x86_roundtrip_with_copies f : wf_in f -> is_x86_family (fi_arch f) = true -> x86_regs_exist f ->
  forall cs, copies_ok f cs = true ->
  forall s0 ra,
  let a := fi_arch f in let o := finalize f in let ws := reg_size a in let sp0 := st_reg s0 0 4 in
  st_ret s0 = None -> holds (st_mem s0) sp0 ws ra ->
  (sp0 + ws) mod cc_natural (fi_cc f) = 0 -> fin_pp f <= sp0 < 2 ^ (8 * ws) ->
  exists s1, run a (x86_prolog f o) s0 = Some s1 /\
    forall s1', run a (map acopy_instr cs) s1 = Some s1' ->
      st_reg s1' 0 4 = x86_sp_body f sp0 /\
      forall s2, body_ok f s0 s1' s2 ->
        exists s3, run a (x86_epilog f o) s2 = Some s3 /\
          st_ret s3 = Some ra /\ st_reg s3 0 4 = sp0 + ws + fo_callee_cleanup o /\
          (forall g r, Z.testbit (qget (cc_preserved (fi_cc f)) g) r = true ->
                       trunc (qget (cc_srsize (fi_cc f)) g) (st_reg s3 g r) = trunc (qget (cc_srsize (fi_cc f)) g) (st_reg s0 g r)).
Proof.
  intros WF HX HEX cs Hok s0 ra a o ws sp0 Hret Hra Hentry Hrange.
  destruct (x86_roundtrip_sec f WF HX HEX s0 ra Hret Hra Hentry Hrange) as [s1 [Hrun [Hsp1 [Hret1 [_ [_ [_ Hbody]]]]]]].
  exists s1. split; [exact Hrun|]. intros s1' Hcs.
  pose proof (copies_confined f HX sp0 cs s1 s1' Hret1 Hsp1 Hok Hcs) as C.
  split; [rewrite (cf_sp _ _ _ _ C); exact Hsp1|].
  intros s2 [B1 B2 B3 B4 B5]. apply Hbody. constructor; auto.
  - rewrite B2. apply C.
  - intros Hfp. rewrite (B3 Hfp). apply C. exact Hfp.
  - intros g r Hd Hp. rewrite (B4 g r Hd Hp). apply C; assumption.
  - intros x Hx. rewrite (B5 x Hx). apply C. exact Hx.
Qed.

(* non-vacuity: on the Win64 example frame (rbx, rbp, rsi, r12 dirty) a register copy into rbx, a load into rsi and a store of rsi
   into the local area are accepted; a copy into rdi (callee-saved in Win64, not in the frame's dirty set), a store above the local
   area and an exchange with sp are rejected; a copy into the volatile rax is accepted *)
From Verif Require Import Frame.FrameExamples.
Lemma ex_copies_ok :
  copies_ok ex_win64 [CMovRR 8 3 8 1; CLoad 8 6 (fin_sa ex_win64) (fo_sa_from_sa (finalize ex_win64) + 40);
                      CStore (fo_local_off (finalize ex_win64)) 8 6] = true /\
  copies_ok ex_win64 [CMovRR 8 7 8 1] = false /\ copies_ok ex_win64 [CMovRR 8 0 8 1] = true /\
  copies_ok ex_win64 [CStore (fo_local_off (finalize ex_win64) + fi_local_size ex_win64) 8 6] = false /\
  copies_ok ex_win64 [CXchg 8 4 8 3] = false.
Proof. repeat split; vm_compute; reflexivity. Qed.

Lemma copies_ok_is_data f cs :
  copies_ok f cs = copies_ok_data (q0 (fo_dirty (finalize f))) (q0 (cc_preserved (fi_cc f))) (fi_has_fp f) (fi_call_size f) (fo_local_off (finalize f)) (fi_local_size f) cs.
Proof. reflexivity. Qed.

(* ------------------------------------------------------------------ AArch64 *)
From Verif Require Import Frame.FrameA64Proofs.

Inductive acopy64 :=
| C64Mov (sd d sr r : Z)            (* mov xd, xr *)
| C64Ldr (sz d b off : Z)           (* ldr xd, [xb, #off] *)
| C64Str (off sz r : Z).            (* str xr, [sp, #off] *)

Definition acopy64_instr (c : acopy64) : instr :=
  match c with
  | C64Mov sd d sr r => (Mmov, [OReg 0 sd d; OReg 0 sr r])
  | C64Ldr sz d b off => (Mldr, [OReg 0 sz d; OMem b off 0])
  | C64Str off sz r => (Mstr, [OReg 0 sz r; OMem 31 off 0])
  end.

Definition writable64_data (dirty0 preserved0 : Z) (has_fp : bool) (d : Z) : bool :=
  (Z.testbit dirty0 d || negb (Z.testbit preserved0 d)) && negb (d =? 31) && negb (has_fp && (d =? 29)).
Definition copy64_ok_data (dirty0 preserved0 : Z) (has_fp : bool) (csize local_off lsize : Z) (c : acopy64) : bool :=
  match c with
  | C64Mov _ d _ _ => writable64_data dirty0 preserved0 has_fp d
  | C64Ldr _ d _ _ => writable64_data dirty0 preserved0 has_fp d
  | C64Str off sz _ => in_areas_data csize local_off lsize off sz
  end.
Definition copies64_ok_data dirty0 preserved0 has_fp csize local_off lsize (cs : list acopy64) : bool :=
  forallb (copy64_ok_data dirty0 preserved0 has_fp csize local_off lsize) cs.
Definition copies64_ok (f : frame_in) (cs : list acopy64) : bool :=
  copies64_ok_data (q0 (fo_dirty (finalize f))) (q0 (cc_preserved (fi_cc f))) (fi_has_fp f) (fi_call_size f) (fo_local_off (finalize f)) (fi_local_size f) cs.

Section Copies64.
Variable f : frame_in.
Local Notation o := (finalize f).

Record confined64 (sp0 : Z) (s1 s2 : state) : Prop := mk_conf64 {
  c6_ret : st_ret s2 = None;
  c6_sp : st_reg s2 0 31 = st_reg s1 0 31;
  c6_fp : fi_has_fp f = true -> st_reg s2 0 29 = st_reg s1 0 29;
  c6_regs : forall g r, Z.testbit (qget (fo_dirty o) g) r = false -> Z.testbit (qget (cc_preserved (fi_cc f)) g) r = true -> st_reg s2 g r = st_reg s1 g r;
  c6_mem : forall x, ~ a64_may_write f sp0 x -> st_mem s2 x = st_mem s1 x
}.

Lemma confined64_trans sp0 s1 s2 s3 : confined64 sp0 s1 s2 -> confined64 sp0 s2 s3 -> confined64 sp0 s1 s3.
Proof.
  intros [A1 A2 A3 A4 A5] [B1 B2 B3 B4 B5]. constructor; auto.
  - congruence.
  - intros H. rewrite B3, A3; auto.
  - intros g r H H'. rewrite B4, A4; auto.
  - intros x H. rewrite B5, A5; auto.
Qed.

Lemma set_writable64 sp0 s d v : st_ret s = None ->
  writable64_data (q0 (fo_dirty o)) (q0 (cc_preserved (fi_cc f))) (fi_has_fp f) d = true -> confined64 sp0 s (set_reg s 0 d v).
Proof.
  intros Hret H. unfold writable64_data in H. apply andb_true_iff in H. destruct H as [H H29]. apply andb_true_iff in H. destruct H as [Hd H31].
  assert (N31 : d <> 31) by (intros ->; discriminate).
  assert (N29 : fi_has_fp f = true -> d <> 29) by (intros Hfp ->; rewrite Hfp in H29; discriminate).
  constructor; cbn [set_reg st_ret st_mem]; auto.
  - apply reg_set_other_r. congruence.
  - intros Hfp. apply reg_set_other_r. specialize (N29 Hfp). congruence.
  - intros g r Hnd Hpr. apply reg_set_other. intros E. inversion E; subst.
    apply orb_true_iff in Hd. destruct Hd as [Hd|Hd]; [change (qget (fo_dirty o) 0) with (q0 (fo_dirty o)) in Hnd; congruence|].
    apply negb_true_iff in Hd. change (qget (cc_preserved (fi_cc f)) 0) with (q0 (cc_preserved (fi_cc f))) in Hpr. congruence.
Qed.

Lemma copy64_confined sp0 c s s' :
  st_ret s = None -> st_reg s 0 31 = a64_sp_body f sp0 ->
  copy64_ok_data (q0 (fo_dirty o)) (q0 (cc_preserved (fi_cc f))) (fi_has_fp f) (fi_call_size f) (fo_local_off o) (fi_local_size f) c = true ->
  step A64 (acopy64_instr c) s = Some s' -> confined64 sp0 s s'.
Proof.
  intros Hret Hsp Hok Hstep. unfold step in Hstep. rewrite Hret in Hstep.
  destruct c as [sd d sr r | sz d b off | off sz r]; cbn [acopy64_instr a64_step copy64_ok_data] in *.
  - inversion Hstep; subst. apply set_writable64; auto.
  - destruct (a64_base_ok s b); [|discriminate]. unfold a64_addr in Hstep. cbn [Z.eqb] in Hstep.
    destruct (load_mem _ _ _) as [v|]; [|discriminate]. inversion Hstep; subst. cbn [a64_wb]. apply set_writable64; auto.
  - destruct (a64_base_ok s 31); [|discriminate]. unfold a64_addr in Hstep. cbn [Z.eqb] in Hstep. inversion Hstep; subst. clear Hstep. cbn [a64_wb].
    constructor; cbn [set_mem st_ret st_reg st_mem]; auto.
    intros x Hx. unfold in_areas_data in Hok. apply andb_true_iff in Hok. destruct Hok as [Hsz Hok]. apply Z.leb_le in Hsz.
    apply store_other. rewrite Hsp.
    destruct (Z_lt_le_dec x (a64_sp_body f sp0 + off)) as [L|L]; [left; exact L|]. right.
    destruct (Z_lt_le_dec x (a64_sp_body f sp0 + off + sz)) as [L2|L2]; [|exact L2]. exfalso. apply Hx.
    unfold a64_may_write. cbv zeta. apply orb_true_iff in Hok. destruct Hok as [Hok|Hok]; apply andb_true_iff in Hok; destruct Hok as [H1 H2];
      apply Z.leb_le in H1; apply Z.leb_le in H2; [right; left; lia | right; right; left; lia].
Qed.

Lemma copies64_confined sp0 : forall cs s s',
  st_ret s = None -> st_reg s 0 31 = a64_sp_body f sp0 -> copies64_ok f cs = true ->
  run A64 (map acopy64_instr cs) s = Some s' -> confined64 sp0 s s'.
Proof.
  induction cs as [|c cs IH]; intros s s' Hret Hsp Hok Hrun; cbn [map run] in Hrun.
  - inversion Hrun; subst. constructor; auto.
  - unfold copies64_ok, copies64_ok_data in Hok. cbn [forallb] in Hok. apply andb_true_iff in Hok. destruct Hok as [Hc Hcs].
    destruct (step A64 (acopy64_instr c) s) as [t|] eqn:E; [|discriminate].
    pose proof (copy64_confined sp0 c s t Hret Hsp Hc E) as C1.
    eapply confined64_trans; [exact C1|]. apply (IH t s'); auto.
    + apply C1.
    + rewrite (c6_sp _ _ _ C1). exact Hsp.
Qed.

End Copies64.

Theorem a64_roundtrip_with_copies f : wf_in f -> fi_arch f = A64 -> a64_realisable f = true ->
  (fi_sa_reg f = id_bad \/ fi_sa_fix f = true) -> fo_stack_adj (finalize f) <= 16777215 ->
  forall cs, copies64_ok f cs = true ->
  forall s0,
  let o := finalize f in let sp0 := st_reg s0 0 31 in
  st_ret s0 = None -> sp0 mod 16 = 0 -> 0 <= st_reg s0 0 30 < 2 ^ 64 ->
  exists s1, run A64 (fst (prolog f o)) s0 = Some s1 /\
    forall s1', run A64 (map acopy64_instr cs) s1 = Some s1' ->
      st_reg s1' 0 31 = a64_sp_body f sp0 /\
      forall s2, a64_body_ok f s0 s1' s2 ->
        exists s3, run A64 (fst (epilog f o)) s2 = Some s3 /\ snd (epilog f o) = true /\
          st_ret s3 = Some (st_reg s0 0 30) /\ st_reg s3 0 31 = sp0 /\
          (forall g r, Z.testbit (qget (cc_preserved (fi_cc f)) g) r = true ->
                       trunc (qget (cc_srsize (fi_cc f)) g) (st_reg s3 g r) = trunc (qget (cc_srsize (fi_cc f)) g) (st_reg s0 g r)).
Proof.
  intros WF HA HR HSA HADJ cs Hok s0 o sp0 Hret Hal Hlr.
  destruct (a64_roundtrip_accepted f WF HA HR HSA HADJ s0 Hret Hal Hlr) as [s1 [Hrun [_ [Hsp1 [Hret1 [_ [_ [_ [_ Hbody]]]]]]]]].
  exists s1. split; [exact Hrun|]. intros s1' Hcs.
  pose proof (copies64_confined f sp0 cs s1 s1' Hret1 Hsp1 Hok Hcs) as C.
  split; [rewrite (c6_sp _ _ _ _ C); exact Hsp1|].
  intros s2 [B1 B2 B3 B4 B5]. apply Hbody. constructor; auto.
  - rewrite B2. apply C.
  - intros Hfp. rewrite (B3 Hfp). apply C. exact Hfp.
  - intros g r Hd Hp. rewrite (B4 g r Hd Hp). apply C; assumption.
  - intros x Hx. rewrite (B5 x Hx). apply C. exact Hx.
Qed.

Lemma ex_copies64_ok :
  copies64_ok ex_a64_ok [C64Mov 8 19 8 0; C64Ldr 8 20 31 (fo_sa_from_sp (finalize ex_a64_ok)); C64Str (fo_local_off (finalize ex_a64_ok)) 8 20] = true /\
  copies64_ok ex_a64_ok [C64Mov 8 22 8 0] = false /\ copies64_ok ex_a64_ok [C64Mov 8 9 8 0] = true /\
  copies64_ok ex_a64_ok [C64Mov 8 29 8 0] = false /\ copies64_ok ex_a64_ok [C64Str (-8) 8 0] = false.
Proof. repeat split; vm_compute; reflexivity. Qed.

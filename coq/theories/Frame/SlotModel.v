(* C07 — model of RAStackAllocator::calculate_stack_frame, STEP 3 (rastack.cpp): offsets of the spill slots, in the order
   the implementation processes them (after its weight sort).  The gap-reuse machinery is modelled as written. *)
From Coq Require Import ZArith List Bool.
Import ListNotations.
Local Open Scope Z_scope.

Record sslot := mk_sslot { ss_size : Z; ss_align : Z; ss_arg : bool }.

Fixpoint ctz_pos (p : positive) : Z := match p with xO q => 1 + ctz_pos q | _ => 0 end.
Definition ctz (z : Z) : Z := match z with Zpos p => ctz_pos p | _ => 32 end.

Definition align_up_s (x a : Z) : Z := (x + a - 1) / a * a.

(* gaps: (bucket index, offset, size), oldest first *)
Definition gapent := (Z * Z * Z)%type.

(* while (gap_offset < gap_end) { index = ctz(gap_offset); size = 1 << index; if (gap_end - gap_offset < size) break; append; gap_offset += size; } *)
Fixpoint reg_gaps (fuel : nat) (gaps : list gapent) (goff gend : Z) : list gapent :=
  match fuel with
  | O => gaps
  | S k =>
    if goff <? gend then
      let idx := ctz goff in
      let sz := 2 ^ idx in
      if gend - goff <? sz then gaps else reg_gaps k (gaps ++ [(idx, goff, sz)]) (goff + sz) gend
    else gaps
  end.

(* pop the most recently appended gap of bucket idx *)
Fixpoint pop_bucket (idx : Z) (rev_gaps : list gapent) : option (gapent * list gapent) :=
  match rev_gaps with
  | [] => None
  | ((i, o, s) as g) :: r =>
    if i =? idx then Some (g, r)
    else match pop_bucket idx r with Some (x, r') => Some (x, g :: r') | None => None end
  end.

Fixpoint find_gap (n : nat) (idx : Z) (gaps : list gapent) : option (gapent * list gapent) :=
  match n with
  | O => None
  | S k =>
    match pop_bucket idx (rev gaps) with
    | Some (g, r) => Some (g, rev r)
    | None => if idx + 1 <? 6 then find_gap k (idx + 1) gaps else None
    end
  end.

Record astate := mk_astate { as_off : Z; as_gaps : list gapent; as_out : list Z (* offsets, reversed *); as_gap_used : bool }.

Definition alloc_step (st : astate) (s : sslot) : astate :=
  if ss_arg s then mk_astate (as_off st) (as_gaps st) (-1 :: as_out st) (as_gap_used st)
  else
    let off := as_off st in
    let aligned := align_up_s off (ss_align s) in
    let found := if ss_size s <? 64 then find_gap 6 (ctz (ss_size s)) (as_gaps st) else None in
    match found with
    | Some ((_, goff, gsize), gaps') =>
      (* slot->set_offset(gap.offset); gap_size = gap.size - slot_size; gap_offset = gap.offset - slot_size; *)
      let gap_size := gsize - ss_size s in
      let gap_offset := goff - ss_size s in
      let gaps'' := if gap_size =? 0 then gaps' else reg_gaps 64 gaps' gap_offset (gap_size + gap_offset) in
      mk_astate off gaps'' (goff :: as_out st) true
    | None =>
      let gaps' := if off =? aligned then as_gaps st else reg_gaps 64 (as_gaps st) aligned (aligned - off + aligned) in
      mk_astate (aligned + ss_size s) gaps' (aligned :: as_out st) (as_gap_used st)
    end.

Definition alloc_all (slots : list sslot) : astate := fold_left alloc_step slots (mk_astate 0 [] [] false).

(* offsets in slot order (-1 for stack-argument slots, which keep their own location), and the final offset *)
Definition alloc_offsets (slots : list sslot) : list Z * Z :=
  let st := alloc_all slots in (rev (as_out st), as_off st).

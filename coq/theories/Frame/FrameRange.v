(* C07 — the model computes on unbounded integers, the code on uint32_t: inside the stated range nothing wraps, and every
   immediate the x86 emitters produce fits the signed 32-bit field (imm16 for `ret n`). *)
From Coq Require Import ZArith List Bool Lia Znumtheory.
From Verif Require Import Frame.FrameModel Frame.FrameArith Frame.FrameLayout.
Import ListNotations.
Local Open Scope Z_scope.

Ltac splits' := repeat match goal with |- _ /\ _ => split end.

Definition in_range (f : frame_in) : Prop :=
  fi_call_size f + fi_local_size f <= 2 ^ 31 - 2 ^ 16 /\ fi_local_align f <= 128 /\ fi_call_align f <= 128 /\
  fi_arg_stack_size f < 2 ^ 16.

Lemma bits_from_length n : forall from m, (length (bits_from n from m) <= n)%nat.
Proof.
  induction n as [|n IH]; intros from m. { apply Nat.le_refl. }
  rewrite (bits_from_app 1 n). rewrite app_length. specialize (IH (from + Z.of_nat 1) m).
  assert (length (bits_from 1 from m) <= 1)%nat.
  { change (bits_from 1 from m) with (if Z.testbit m from then from :: bits_from 0 (from + 1) m else bits_from 0 (from + 1) m).
    destruct (Z.testbit m from); cbn; lia. }
  lia.
Qed.

Lemma popcnt_bound m : 0 <= popcnt m <= 32.
Proof. unfold popcnt, bits_of. pose proof (bits_from_length 32 0 m). lia. Qed.

Section Range.
Variable f : frame_in.
Hypothesis WF : wf_in f.
Hypothesis R : in_range f.

Lemma group_size_bound g : 0 <= g <= 3 -> 0 <= fin_group_size f g <= 528.
Proof.
  intros Hg. pose proof (group_size_nonneg f WF g Hg). split; auto. unfold fin_group_size.
  destruct (wc_bounds _ _ (wi_cc f WF) g) as [B1 B2]. pose proof (wc_sizes _ _ (wi_cc f WF) g) as B0.
  pose proof (wc_aligns _ _ (wi_cc f WF) g Hg) as B3. pose proof (popcnt_bound (fin_saved f g)) as P.
  pose proof (align_up_lt (popcnt (fin_saved f g) * qget (cc_srsize (fi_cc f)) g) (qget (cc_sralign (fi_cc f)) g) B3). nia.
Qed.

Lemma pp_ex_bound : 0 <= fin_pp f <= 2112 /\ 0 <= fin_ex f <= 2112.
Proof.
  pose proof (group_size_bound 0 ltac:(lia)). pose proof (group_size_bound 1 ltac:(lia)).
  pose proof (group_size_bound 2 ltac:(lia)). pose proof (group_size_bound 3 ltac:(lia)).
  unfold fin_pp, fin_ex. cbn [map fold_right]. repeat destruct (has_push_pop _ _); lia.
Qed.

Lemma sal_bound : 0 < final_alignment f <= 128.
Proof.
  pose proof (sal_pos f WF). split; auto. unfold final_alignment, requested_alignment. cbv zeta.
  destruct R as [_ [R1 [R2 _]]]. pose proof (wc_nat_le _ _ (wi_cc f WF)). destruct (fi_align_fix f && _); lia.
Qed.

(* nothing wraps: every quantity finalize computes stays below 2^31, so uint32_t arithmetic and the model's integers agree;
   the immediates of the x86 prolog/epilog (sub/add sp, and sp, lea displacement, save offsets, ret n) fit their fields *)
Theorem no_wrap :
  let o := finalize f in
  0 <= fo_local_off o /\ fo_local_off o <= fo_extra_off o /\ fo_extra_off o + fo_extra_size o <= fo_stack_adj o /\
  fo_stack_adj o < 2 ^ 31 - 2 ^ 15 /\ 0 <= fo_final_size o < 2 ^ 31 - 2 ^ 15 /\
  fo_sa_from_sp o < 2 ^ 31 /\ 0 <= fo_sa_from_sa o < 2 ^ 31 /\ fo_da_off o < 2 ^ 31 /\
  0 <= fo_push_pop_size o <= 2112 /\ 0 <= fo_callee_cleanup o < 2 ^ 16 /\ - 2 ^ 31 <= - fo_final_align o.
Proof.
  pose proof (layout_chain f WF) as L. cbv zeta in L. cbv zeta.
  destruct L as [Hc [Hl [Hex0 [Hpp0 [Hnoda [Hda [Hfin [Hadj _]]]]]]]].
  pose proof pp_ex_bound as [[P0 P1] [E0 E1]]. pose proof sal_bound as [S0 S1].
  pose proof (rs_pos f) as Hrs. assert (Hrs8 : reg_size (fi_arch f) <= 8) by (destruct (fi_arch f); cbn; lia).
  pose proof (wi_lsize f WF) as Hls. pose proof (wi_csize f WF) as Hcs. destruct R as [R0 [R1 [R2 R3]]].
  pose proof (wi_args f WF) as Ha0.
  destruct (wc_bounds _ _ (wi_cc f WF) 1) as [V1 _]. pose proof (vs_pos f WF) as V0.
  pose proof (srsize0 f WF) as Hrs0.
  (* upper bound of the stack adjustment *)
  assert (Hub : fo_stack_adj (finalize f) <= fi_call_size f + fi_local_size f + 3 * final_alignment f + 16 + fin_ex f + 8 /\
                fo_push_pop_off (finalize f) <= fo_stack_adj (finalize f)).
  { split; [|exact Hadj]. unfold finalize. cbv zeta. cbn [fo_stack_adj]. rewrite Hrs0.
    set (sal := final_alignment f) in *. set (ex := fin_ex f) in *. set (pp := fin_pp f) in *.
    pose proof (align_up_lt (fi_call_size f) sal S0) as A1.
    set (v0 := align_up (fi_call_size f) sal) in *.
    set (v1 := if (qget (cc_srsize (fi_cc f)) 1 <=? sal) && negb (ex =? 0) then align_up (v0 + fi_local_size f) (qget (cc_srsize (fi_cc f)) 1) else v0 + fi_local_size f).
    assert (A2 : v1 < v0 + fi_local_size f + 16 + 1).
    { unfold v1. destruct ((qget (cc_srsize (fi_cc f)) 1 <=? sal) && negb (ex =? 0)); [|lia]. pose proof (align_up_lt (v0 + fi_local_size f) _ V0). lia. }
    set (v2 := if fin_has_da f && negb (fi_has_fp f) then v1 + ex + reg_size (fi_arch f) else v1 + ex).
    assert (A3 : v2 <= v1 + ex + 8) by (unfold v2; destruct (fin_has_da f && negb (fi_has_fp f)); lia).
    set (ras := if has_link_reg (fi_arch f) then 0 else reg_size (fi_arch f)).
    set (v3 := if negb (v2 =? 0) || fi_has_calls f || (ras =? 0) then v2 + align_up_diff (v2 + pp + ras) sal else v2).
    assert (A4 : v3 < v2 + sal + 1).
    { unfold v3, align_up_diff. destruct (negb (v2 =? 0) || fi_has_calls f || (ras =? 0)); [|lia]. pose proof (align_up_lt (v2 + pp + ras) sal S0). lia. }
    destruct (fin_has_da f); [pose proof (align_up_lt v3 sal S0)|]; lia. }
  destruct Hub as [Hub Hpo].
  assert (Hadjb : fo_stack_adj (finalize f) < 2 ^ 31 - 2 ^ 15) by lia.
  assert (Hfinb : fo_final_size (finalize f) < 2 ^ 31 - 2 ^ 15).
  { rewrite <- Hfin. change (fo_push_pop_size (finalize f)) with (fin_pp f). lia. }
  assert (Hex_adj : fo_extra_off (finalize f) + fo_extra_size (finalize f) <= fo_stack_adj (finalize f)).
  { destruct (Z.eq_dec (fo_da_off (finalize f)) (-1)) as [E|E]; [specialize (Hnoda E); lia | destruct (Hda E) as [D1 [D2 _]]; lia]. }
  splits'.
  all: try lia.
  - change (fo_sa_from_sp (finalize f)) with (if fin_has_da f then -1 else (if has_link_reg (fi_arch f) then fo_final_size (finalize f) else fo_final_size (finalize f) + qget (cc_srsize (fi_cc f)) 0)).
    rewrite Hrs0. destruct (fin_has_da f); [lia|]. destruct (has_link_reg _); lia.
  - change (fo_sa_from_sa (finalize f)) with (if fi_has_fp f && negb (fi_sa_fix f && has_link_reg (fi_arch f))
      then (if has_link_reg (fi_arch f) then 0 else qget (cc_srsize (fi_cc f)) 0) + qget (cc_srsize (fi_cc f)) 0
      else (if has_link_reg (fi_arch f) then 0 else qget (cc_srsize (fi_cc f)) 0) + fin_pp f).
    rewrite Hrs0. destruct (_ && _); destruct (has_link_reg _); lia.
  - change (fo_sa_from_sa (finalize f)) with (if fi_has_fp f && negb (fi_sa_fix f && has_link_reg (fi_arch f))
      then (if has_link_reg (fi_arch f) then 0 else qget (cc_srsize (fi_cc f)) 0) + qget (cc_srsize (fi_cc f)) 0
      else (if has_link_reg (fi_arch f) then 0 else qget (cc_srsize (fi_cc f)) 0) + fin_pp f).
    rewrite Hrs0. destruct (_ && _); destruct (has_link_reg _); lia.
  - change (fo_push_pop_size (finalize f)) with (fin_pp f). lia.
  - change (fo_callee_cleanup (finalize f)) with (callee_cleanup f). unfold callee_cleanup. destruct (cc_callee_pops _); [apply Z.mod_pos_bound|]; lia.
  - change (fo_callee_cleanup (finalize f)) with (callee_cleanup f). unfold callee_cleanup. destruct (cc_callee_pops _); [apply Z.mod_pos_bound|]; lia.
  - change (fo_final_align (finalize f)) with (final_alignment f). lia.
Qed.

End Range.

(* ------------------------------------------------------------------ round 5: the frames finalize ACCEPTS *)
(* finalize_error is the accept/refuse decision of FuncFrame::finalize() at /repo HEAD (compared with the implementation on every
   frame of the stream, refusals included).  Every accepted frame is inside the range where nothing wraps, and an accepted AArch64
   frame is realisable (the scope of the AArch64 round trip): the refusals are exactly strong enough for the theorems. *)
Theorem accepted_frames f : wf_in f -> fi_local_align f <= 128 -> fi_call_align f <= 128 -> fi_arg_stack_size f < 2 ^ 16 ->
  finalize_error f = 0 ->
  fi_call_size f + fi_local_size f <= 2 ^ 31 - 2 ^ 16 /\
  (fi_arch f = A64 -> a64_realisable f = true) /\
  let o := finalize f in
  0 <= fo_local_off o /\ fo_local_off o <= fo_extra_off o /\ fo_extra_off o + fo_extra_size o <= fo_stack_adj o /\
  fo_stack_adj o < 2 ^ 31 - 2 ^ 15 /\ 0 <= fo_final_size o < 2 ^ 31 - 2 ^ 15 /\
  fo_sa_from_sp o < 2 ^ 31 /\ 0 <= fo_sa_from_sa o < 2 ^ 31 /\ fo_da_off o < 2 ^ 31 /\
  0 <= fo_push_pop_size o <= 2112 /\ 0 <= fo_callee_cleanup o < 2 ^ 16 /\ - 2 ^ 31 <= - fo_final_align o.
Proof.
  intros WF Hla Hca Has He. unfold finalize_error, frame_size_limit in He.
  destruct (Z.ltb_spec 2147418112 (fi_call_size f + fi_local_size f)) as [Hl|Hl]; [discriminate|].
  assert (R : in_range f) by (unfold in_range; splits'; auto; lia).
  split; [lia|]. split.
  - intros HA. rewrite HA in He. destruct (a64_realisable f); [reflexivity | discriminate].
  - exact (no_wrap f WF R).
Qed.

(* and the refusals are not arbitrary: finalize refuses ONLY frames above the size limit and unrealisable AArch64 frames *)
Theorem refused_frames f : finalize_error f <> 0 ->
  2 ^ 31 - 2 ^ 16 < fi_call_size f + fi_local_size f \/ (fi_arch f = A64 /\ a64_realisable f = false).
Proof.
  unfold finalize_error, frame_size_limit. intros H.
  destruct (Z.ltb_spec 2147418112 (fi_call_size f + fi_local_size f)) as [Hl|Hl]; [left; lia|].
  right. destruct (fi_arch f); try congruence. destruct (a64_realisable f); [congruence | auto].
Qed.

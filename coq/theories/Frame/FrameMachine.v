(* C07 — a small abstract machine for exactly the instructions the prolog/epilog emitters produce.

   Registers: group -> id -> Z (group 0 GP incl. the stack pointer, 1 vector, 2 mask, 3 MM).
   Memory   : byte address -> mval.  A store of an n-byte value v writes the n symbolic bytes `MFrag v n i`;
              a load of n bytes succeeds only if it finds the n fragments of ONE n-byte store, in order
              (CompCert style).  Partially overwritten or foreign bytes make the load — hence the run — fail,
              so any overlap between save slots and other stores is visible.
   Pointer arithmetic is on unbounded Z (no wrap-around: stacks live far away from 0 and 2^64).
   Definitions only. *)
From Coq Require Import ZArith List Bool.
From Verif Require Import Frame.FrameModel.
Import ListNotations.
Local Open Scope Z_scope.

Inductive mval := MFrag (v n i : Z) | MJunk.

Definition mval_eqb (a b : mval) : bool :=
  match a, b with
  | MFrag v n i, MFrag v' n' i' => (v =? v') && (n =? n') && (i =? i')
  | MJunk, MJunk => true
  | _, _ => false
  end.

Record state := mkst { st_reg : Z -> Z -> Z; st_mem : Z -> mval; st_ret : option Z }.

Definition trunc (n v : Z) : Z := v mod 2 ^ (8 * n).

Definition set_reg (s : state) (g r v : Z) : state :=
  mkst (fun g' r' => if (g' =? g) && (r' =? r) then v else st_reg s g' r') (st_mem s) (st_ret s).
Definition set_mem (s : state) (m : Z -> mval) : state := mkst (st_reg s) m (st_ret s).
Definition set_ret (s : state) (v : Z) : state := mkst (st_reg s) (st_mem s) (Some v).

Definition store_mem (m : Z -> mval) (a n v : Z) : Z -> mval :=
  fun x => if (a <=? x) && (x <? a + n) then MFrag v n (x - a) else m x.

Definition load_mem (m : Z -> mval) (a n : Z) : option Z :=
  match m a with
  | MFrag v n' _ =>
    if (n' =? n) && forallb (fun i => mval_eqb (m (a + Z.of_nat i)) (MFrag v n (Z.of_nat i))) (seq 0 (Z.to_nat n))
    then Some v else None
  | MJunk => None
  end.

(* which vector register ids an instruction can encode *)
Definition vec_id_ok (a : arch) (mn : mnem) (id : Z) : bool :=
  (0 <=? id) &&
  match a with
  | X86 => id <? 8
  | _ => match mn with Mmovaps | Mmovups => id <? 16 | _ => id <? 32 end
  end.

Definition aligned_mov (mn : mnem) : bool := match mn with Mmovaps | Mvmovaps => true | _ => false end.

(* extra-group moves of x86: mnemonic -> (group, size) *)
Definition x86_xmov (mn : mnem) : option (Z * Z) :=
  match mn with
  | Mmovaps | Mmovups | Mvmovaps | Mvmovups => Some (1, 16)
  | Mkmovq => Some (2, 8)
  | Mmovq => Some (3, 8)
  | _ => None
  end.

Definition x86_step (a : arch) (i : instr) (s : state) : option state :=
  let ws := reg_size a in
  let sp := st_reg s 0 4 in
  match i with
  | (Mendbr32, []) | (Mendbr64, []) | (Memms, []) | (Mvzeroupper, []) => Some s
  | (Mpush, [OReg 0 sz r]) =>
    if sz =? ws then
      let s1 := set_reg s 0 4 (sp - ws) in
      Some (set_mem s1 (store_mem (st_mem s) (sp - ws) ws (trunc ws (st_reg s 0 r))))
    else None
  | (Mpop, [OReg 0 sz r]) =>
    if sz =? ws then
      match load_mem (st_mem s) sp ws with
      | Some v => Some (set_reg (set_reg s 0 4 (sp + ws)) 0 r v)
      | None => None
      end
    else None
  | (Mmov, [OReg 0 _ d; OReg 0 _ r]) => Some (set_reg s 0 d (st_reg s 0 r))
  | (Mmov, [OMem b off 0; OReg 0 sz r]) =>
    Some (set_mem s (store_mem (st_mem s) (st_reg s 0 b + off) sz (trunc sz (st_reg s 0 r))))
  | (Mmov, [OReg 0 sz d; OMem b off 0]) =>
    match load_mem (st_mem s) (st_reg s 0 b + off) sz with
    | Some v => Some (set_reg s 0 d v)
    | None => None
    end
  | (Mxchg, [OReg 0 _ d; OReg 0 _ r]) => Some (set_reg (set_reg s 0 d (st_reg s 0 r)) 0 r (st_reg s 0 d))
  | (Mand, [OReg 0 _ d; OImm v]) => Some (set_reg s 0 d (Z.land (st_reg s 0 d) v))
  | (Msub, [OReg 0 _ d; OImm v]) => Some (set_reg s 0 d (st_reg s 0 d - v))
  | (Madd, [OReg 0 _ d; OImm v]) => Some (set_reg s 0 d (st_reg s 0 d + v))
  | (Mlea, [OReg 0 _ d; OMem b off 0]) => Some (set_reg s 0 d (st_reg s 0 b + off))
  | (Mret, []) =>
    match load_mem (st_mem s) sp ws with
    | Some v => Some (set_ret (set_reg s 0 4 (sp + ws)) v)
    | None => None
    end
  | (Mret, [OImm n]) =>
    match load_mem (st_mem s) sp ws with
    | Some v => Some (set_ret (set_reg s 0 4 (sp + ws + n)) v)
    | None => None
    end
  | (mn, [OMem b off 0; OReg g sz r]) =>
    match x86_xmov mn with
    | Some (g', sz') =>
      let addr := st_reg s 0 b + off in
      if (g =? g') && (sz =? sz') && (if g =? 1 then vec_id_ok a mn r else (0 <=? r) && (r <? 8))
         && (if aligned_mov mn then addr mod 16 =? 0 else true)
      then Some (set_mem s (store_mem (st_mem s) addr sz (trunc sz (st_reg s g r))))
      else None
    | None => None
    end
  | (mn, [OReg g sz r; OMem b off 0]) =>
    match x86_xmov mn with
    | Some (g', sz') =>
      let addr := st_reg s 0 b + off in
      if (g =? g') && (sz =? sz') && (if g =? 1 then vec_id_ok a mn r else (0 <=? r) && (r <? 8))
         && (if aligned_mov mn then addr mod 16 =? 0 else true)
      then match load_mem (st_mem s) addr sz with
           | Some v => Some (set_reg s g r v)
           | None => None
           end
      else None
    | None => None
    end
  | _ => None
  end.

(* AArch64: memory accesses through sp require sp to be 16-byte aligned (SP alignment check) *)
Definition a64_base_ok (s : state) (b : Z) : bool := if b =? 31 then st_reg s 0 b mod 16 =? 0 else true.

(* effective address and the written-back base value for addressing mode 0 fixed / 1 pre-index / 2 post-index *)
Definition a64_addr (s : state) (b off mode : Z) : Z * option Z :=
  let base := st_reg s 0 b in
  if mode =? 0 then (base + off, None)
  else if mode =? 1 then (base + off, Some (base + off))
  else (base, Some (base + off)).

Definition a64_wb (s : state) (b : Z) (wb : option Z) : state :=
  match wb with Some v => set_reg s 0 b v | None => s end.

Definition a64_step (i : instr) (s : state) : option state :=
  match i with
  | (Mbti, [OImm _]) => Some s
  | (Mmov, [OReg 0 _ d; OReg 0 _ r]) => Some (set_reg s 0 d (st_reg s 0 r))
  | (Msub, [OReg 0 _ d; OReg 0 _ r; OImm v]) => Some (set_reg s 0 d (st_reg s 0 r - v))
  | (Madd, [OReg 0 _ d; OReg 0 _ r; OImm v]) => Some (set_reg s 0 d (st_reg s 0 r + v))
  | (Mstp, [OReg g sz r1; OReg g2 sz2 r2; OMem b off mode]) =>
    if (g =? g2) && (sz =? sz2) && a64_base_ok s b then
      let (addr, wb) := a64_addr s b off mode in
      let m1 := store_mem (st_mem s) addr sz (trunc sz (st_reg s g r1)) in
      let m2 := store_mem m1 (addr + sz) sz (trunc sz (st_reg s g r2)) in
      Some (a64_wb (set_mem s m2) b wb)
    else None
  | (Mstr, [OReg g sz r1; OMem b off mode]) =>
    if a64_base_ok s b then
      let (addr, wb) := a64_addr s b off mode in
      Some (a64_wb (set_mem s (store_mem (st_mem s) addr sz (trunc sz (st_reg s g r1)))) b wb)
    else None
  | (Mldp, [OReg g sz r1; OReg g2 sz2 r2; OMem b off mode]) =>
    if (g =? g2) && (sz =? sz2) && a64_base_ok s b then
      let (addr, wb) := a64_addr s b off mode in
      match load_mem (st_mem s) addr sz, load_mem (st_mem s) (addr + sz) sz with
      | Some v1, Some v2 => Some (a64_wb (set_reg (set_reg s g r1 v1) g r2 v2) b wb)
      | _, _ => None
      end
    else None
  | (Mldr, [OReg g sz r1; OMem b off mode]) =>
    if a64_base_ok s b then
      let (addr, wb) := a64_addr s b off mode in
      match load_mem (st_mem s) addr sz with
      | Some v1 => Some (a64_wb (set_reg s g r1 v1) b wb)
      | None => None
      end
    else None
  | (Mret, [OReg 0 _ r]) => Some (set_ret s (st_reg s 0 r))
  | _ => None
  end.

Definition step (a : arch) (i : instr) (s : state) : option state :=
  match st_ret s with
  | Some _ => None                     (* nothing executes after the return *)
  | None => match a with A64 => a64_step i s | _ => x86_step a i s end
  end.

Fixpoint run (a : arch) (l : list instr) (s : state) : option state :=
  match l with
  | [] => Some s
  | i :: rest => match step a i s with Some s' => run a rest s' | None => None end
  end.

(* C19 — sequence-level lift of the one-add frame theorem (C19_add_frame): what a whole extension of a history must NOT change. *)
From Coq Require Import ZArith List Bool Lia.
From Verif Require Import ConstPool.ConstPoolModel ConstPool.ConstPoolSpec ConstPool.ConstPoolLists ConstPool.ConstPoolInv
  ConstPool.ConstPoolProofs.
Import ListNotations.
Local Open Scope Z_scope.

Theorem run_frame_thm cmds : forall p, Inv p -> wf_cmds cmds -> psize (fst (run p cmds)) <= 4294967296 ->
  let p' := fst (run p cmds) in
  Inv p' /\
  (forall j n, In n (nth j (trees p) []) -> In n (nth j (trees p') [])) /\
  psize p <= psize p' /\ palign p <= palign p' /\
  (forall j n x, In n (nth j (trees p) []) -> n_shared n = false -> covers n x ->
     nth x (cp_fill p') 0 = nth x (cp_fill p) 0).
Proof.
  induction cmds as [|(d, s) r IH]; intros p I W G.
  - simpl. split; [exact I|]. split; [auto|]. split; [lia|]. split; [lia|]. auto.
  - inversion W as [|? ? W1 W2]; subst. simpl in W1.
    rewrite run_cons in G |- *. simpl fst in G |- *.
    destruct (cp_add p d s) as (p1, res) eqn:E. simpl fst in G |- *.
    pose proof (inv_size _ I) as S0.
    pose proof (cp_add_psize_mono p d s S0) as S1. rewrite E in S1. simpl in S1.
    pose proof (run_psize_mono r p1 ltac:(lia)) as S2.
    destruct (cp_add_step p d s p1 res I W1 E ltac:(lia)) as (I1 & _).
    destruct (add_frame_thm p d s p1 res I W1 E ltac:(lia)) as (M1 & Z1 & A1 & _ & F1).
    destruct (IH p1 I1 W2 G) as (I' & M2 & Z2 & A2 & F2).
    split; [exact I'|]. split; [intros; apply M2; apply M1; auto|]. split; [lia|]. split; [lia|].
    intros j n x Hn Sh C. rewrite (F2 j n x (M1 j n Hn) Sh C). apply (F1 j n x Hn Sh C).
Qed.

(* history form: extending a history by ANY further adds (valid, invalid, repeats, parts) keeps every node, never shrinks size()
   or alignment(), and leaves every byte owned by an already stored constant unchanged in the image *)
Theorem history_frame_thm cmds more : wf_cmds (cmds ++ more) -> guard (cmds ++ more) ->
  let p := final cmds in let p' := final (cmds ++ more) in
  (forall j n, In n (nth j (trees p) []) -> In n (nth j (trees p') [])) /\
  psize p <= psize p' /\ palign p <= palign p' /\
  (forall off s x, In (off, s) (flat_map stored (trees p)) -> off <= x < off + s ->
     nth (Z.to_nat x) (cp_fill p') 0 = nth (Z.to_nat x) (cp_fill p) 0) /\
  (forall r, In r (flat_map stored (trees p)) -> In r (flat_map stored (trees p'))).
Proof.
  intros W G p p'.
  pose proof (sp_inv _ _ (final_spec cmds (wf_prefix _ _ W) (guard_prefix _ _ G))) as I. fold (final cmds) in I. fold p in I.
  assert (E : p' = fst (run p more)) by (unfold p', p, final; rewrite run_app; reflexivity).
  assert (W2 : wf_cmds more) by (unfold wf_cmds in *; apply Forall_app in W; tauto).
  assert (G2 : psize (fst (run p more)) <= 4294967296) by (rewrite <- E; exact G).
  destruct (run_frame_thm more p I W2 G2) as (_ & M & Z & A & F). rewrite <- E in M, Z, A, F.
  split; [exact M|]. split; [exact Z|]. split; [exact A|].
  assert (Node : forall r, In r (flat_map stored (trees p)) -> exists j n, In n (nth j (trees p) []) /\ n_shared n = false /\ rng n = r).
  { intros r Hr. apply in_flat_map in Hr. destruct Hr as (t & Ht & Hr). unfold stored in Hr. apply in_map_iff in Hr.
    destruct Hr as (n & En & Hn). apply filter_In in Hn. destruct Hn as (Hn & Sn). destruct (in_nth_exists _ _ Ht) as (j & <-).
    exists j, n. unfold nonshared in Sn. apply negb_true_iff in Sn. auto. }
  split.
  - intros off s x Hr Hx. destruct (Node _ Hr) as (j & n & Hn & Sh & Er). unfold rng in Er. inversion Er; subst off s.
    destruct (t_nodes _ _ (inv_trees _ I) j n Hn) as (_ & A0 & _).
    apply (F j n (Z.to_nat x) Hn Sh). unfold covers. lia.
  - intros r Hr. destruct (Node _ Hr) as (j & n & Hn & Sh & <-).
    apply in_flat_map. exists (nth j (trees p') []). split; [apply nth_In; eapply in_nth_lt; apply (M j n Hn)|].
    apply in_stored; auto.
Qed.

Example history_frame_example :
  let cmds := [([1], 1); ([2; 2; 2; 2], 4)] in let more := [([9; 9; 9], 3); ([3], 1); ([1], 1); ([2; 2], 2)] in
  wf_cmds (cmds ++ more) /\ guard (cmds ++ more) /\ In (4, 4) (flat_map stored (trees (final cmds))) /\
  cp_fill (final cmds) = [1; 0; 0; 0; 2; 2; 2; 2] /\ cp_fill (final (cmds ++ more)) = [1; 3; 2; 2; 2; 2; 2; 2].
Proof.
  split; [apply wf_cmds_by_length; reflexivity|]. split; [unfold guard; vm_compute; discriminate|].
  split; [vm_compute; auto|split; vm_compute; reflexivity].
Qed.

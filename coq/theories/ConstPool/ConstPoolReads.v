(* C19 — ConstPool::add reads exactly `size` bytes of `data`: the new pool and the answer are the same for any two buffers that
   agree on their first `size` bytes (whatever follows them in memory), for every pool state and every size, valid or not. *)
From Coq Require Import ZArith List Bool Lia.
From Verif Require Import ConstPool.ConstPoolModel.
Import ListNotations.
Local Open Scope Z_scope.

Lemma slice_firstn (d : list Z) n a b : 0 <= a -> 0 <= b -> a + b <= Z.of_nat n ->
  slice (firstn n d) a b = slice d a b.
Proof.
  intros Ha Hb H. unfold slice.
  assert (E : n = (Z.to_nat a + (n - Z.to_nat a))%nat) by lia.
  rewrite E at 1. rewrite <- firstn_skipn_comm. rewrite firstn_firstn. f_equal. lia.
Qed.

Section Reads.
  Variables (d : list Z) (size : Z).
  Hypothesis Hs : 0 <= size.
  Let d' := firstn (Z.to_nat size) d.

  Lemma share_one_reads ti ss off ts i : 0 <= ss -> (Z.of_nat i + 1) * ss <= size ->
    share_one ti ss d' off ts i = share_one ti ss d off ts i.
  Proof.
    intros H1 H2. unfold share_one, d'. rewrite slice_firstn by nia. reflexivity.
  Qed.

  Lemma share_row_reads ti ss off pc : 0 <= ss -> Z.of_nat pc * ss <= size -> forall ts,
    share_row ti ss d' off pc ts = share_row ti ss d off pc ts.
  Proof.
    intros H1 H2. unfold share_row.
    assert (G : forall l, Forall (fun i => (i < pc)%nat) l -> forall ts,
              fold_left (share_one ti ss d' off) l ts = fold_left (share_one ti ss d off) l ts).
    { induction l as [|i l IH]; intros F ts; [reflexivity|]. inversion F; subst. cbn [fold_left].
      rewrite share_one_reads by nia. apply IH; auto. }
    intros ts. apply G. apply Forall_forall. intros i Hi. apply in_seq in Hi. lia.
  Qed.

  Lemma share_loop_reads fuel : forall ts ti ss pc off, 0 <= ss -> Z.of_nat pc * ss <= size ->
    share_loop fuel ts ti ss pc d' off = share_loop fuel ts ti ss pc d off.
  Proof.
    induction fuel as [|f IH]; intros ts ti ss pc off H1 H2; [reflexivity|]. cbn [share_loop].
    destruct (4 <? ss) eqn:C; [|reflexivity].
    assert (H3 : 0 <= ss / 2) by (apply Z.div_pos; lia).
    assert (H4 : Z.of_nat (2 * pc) * (ss / 2) <= size).
    { pose proof (Z.mul_div_le ss 2 ltac:(lia)). nia. }
    rewrite share_row_reads by assumption. apply IH; assumption.
  Qed.

  Theorem add_reads_thm p : cp_add p d' size = cp_add p d size.
  Proof.
    unfold cp_add.
    destruct ((size <=? 0) || (64 <? size)); [reflexivity|].
    destruct (negb (pow2 (ctz size) =? size)); [reflexivity|].
    assert (K : slice d' 0 size = slice d 0 size) by (unfold d'; apply slice_firstn; lia).
    rewrite K. destruct (tree_get _ _); [reflexivity|].
    destruct (gap_loop _ _ _ _ _) as (gs1, found).
    destruct (match found with Some o => _ | None => _ end) as ((gs2, off), sz2).
    rewrite share_loop_reads by lia. reflexivity.
  Qed.
End Reads.

(* two buffers that agree on their first `size` bytes *)
Theorem add_reads_only_size_thm p d1 d2 size :
  firstn (Z.to_nat size) d1 = firstn (Z.to_nat size) d2 -> cp_add p d1 size = cp_add p d2 size.
Proof.
  intros E. destruct (Z.le_gt_cases 0 size) as [H|H].
  - rewrite <- (add_reads_thm d1 size H p), <- (add_reads_thm d2 size H p), E. reflexivity.
  - unfold cp_add. replace ((size <=? 0) || (64 <? size)) with true; [reflexivity|].
    symmetry. apply orb_true_iff. left. apply Z.leb_le. lia.
Qed.

Example add_reads_example :
  cp_add cp_init [1; 2; 3; 4; 5; 6; 7; 8; 99; 98] 8 = cp_add cp_init [1; 2; 3; 4; 5; 6; 7; 8] 8 /\
  snd (cp_add cp_init [1; 2; 3; 4; 5; 6; 7; 8; 99; 98] 8) = Ok 0.
Proof. vm_compute. split; reflexivity. Qed.

(* history form: two histories whose calls have the same sizes and buffers that agree on their first `size` bytes produce the
   same pool and the same answers, from any starting pool *)
Definition same_reads (c1 c2 : cmd) : Prop :=
  snd c1 = snd c2 /\ firstn (Z.to_nat (snd c1)) (fst c1) = firstn (Z.to_nat (snd c1)) (fst c2).

Theorem run_reads_only_sizes_thm cmds1 : forall cmds2 p, Forall2 same_reads cmds1 cmds2 -> run p cmds1 = run p cmds2.
Proof.
  induction cmds1 as [|(d1, s1) r1 IH]; intros cmds2 p F; inversion F as [|? c2 ? r2 H1 H2]; subst; [reflexivity|].
  destruct c2 as (d2, s2). destruct H1 as (E1 & E2). simpl in E1, E2. subst s2.
  cbn [run]. rewrite (add_reads_only_size_thm p d1 d2 s1 E2).
  destruct (cp_add p d2 s1) as (p1, res). rewrite (IH r2 p1 H2). reflexivity.
Qed.

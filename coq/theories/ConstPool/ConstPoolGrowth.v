(* C19 — "the reported size covers everything" from above: how much size() can grow.  One add(data, s) grows size() by at most
   2*s - 1 bytes (s for the constant, at most s - 1 for the alignment gap in front of it) and by nothing when the call is refused,
   finds the constant, or reuses a gap; hence size() of a whole history is bounded by the sum of 2*s - 1 over its valid-size calls,
   without any hypothesis on the history.  The bound is reached (tight_example). *)
From Coq Require Import ZArith List Bool Lia.
From Verif Require Import ConstPool.ConstPoolModel ConstPool.ConstPoolSpec ConstPool.ConstPoolInv ConstPool.ConstPoolProofs
  ConstPool.ConstPoolJudge.
Import ListNotations.
Local Open Scope Z_scope.

Definition budget (cmds : list cmd) : Z :=
  fold_right (fun c a => (if valid_sizeb (snd c) then 2 * snd c - 1 else 0) + a) 0 cmds.

Lemma valid_sizeb_false_refused p d s : valid_sizeb s = false -> cp_add p d s = (p, InvalidArgument).
Proof.
  intros V. unfold cp_add.
  destruct ((s <=? 0) || (64 <? s)) eqn:C1; [reflexivity|].
  destruct (negb (pow2 (ctz s) =? s)) eqn:C2; [reflexivity|].
  pose proof (checks_valid_size s C1 C2) as H. exfalso.
  unfold valid_sizeb in V. unfold valid_size in H.
  repeat (apply orb_false_iff in V; destruct V as (V & ?)).
  rewrite Z.eqb_neq in *. lia.
Qed.

Lemma cp_add_growth p d s : 0 <= psize p ->
  psize (fst (cp_add p d s)) <= psize p + (if valid_sizeb s then 2 * s - 1 else 0).
Proof.
  intros H. destruct (valid_sizeb s) eqn:V.
  - assert (1 <= s).
    { unfold valid_sizeb in V. repeat (apply orb_true_iff in V; destruct V as [V|V]); apply Z.eqb_eq in V; lia. }
    unfold cp_add.
    destruct ((s <=? 0) || (64 <? s)) eqn:C1; cbn [fst psize]; [lia|].
    destruct (negb (pow2 (ctz s) =? s)); cbn [fst psize]; [lia|].
    destruct (tree_get _ _); cbn [fst psize]; [lia|].
    destruct (gap_loop _ _ _ _ _) as (gs1, [o|]); cbn [fst psize]; [lia|].
    destruct (align_up_diff_spec (psize p) s ltac:(lia)). lia.
  - rewrite (valid_sizeb_false_refused p d s V). simpl. lia.
Qed.

Lemma run_growth cmds : forall p, 0 <= psize p -> psize (fst (run p cmds)) <= psize p + budget cmds.
Proof.
  induction cmds as [|(d, s) r IH]; intros p H; [simpl; lia|].
  rewrite run_cons. cbn [fst].
  change (budget ((d, s) :: r)) with ((if valid_sizeb s then 2 * s - 1 else 0) + budget r).
  pose proof (cp_add_psize_mono p d s H) as M.
  pose proof (cp_add_growth p d s H) as G.
  specialize (IH (fst (cp_add p d s)) ltac:(lia)). lia.
Qed.

(* every history, valid or not, guarded or not *)
Theorem growth_thm cmds : 0 <= psize (final cmds) <= budget cmds.
Proof.
  unfold final. pose proof (run_growth cmds cp_init ltac:(simpl; lia)) as G.
  pose proof (run_psize_mono cmds cp_init ltac:(simpl; lia)) as M. simpl in G, M. lia.
Qed.

(* one more add: grows by at most 2*s - 1, and not at all when the call is refused or answers with an offset already handed out
   for the same bytes *)
Theorem growth_step_thm cmds d s :
  let p := final cmds in let p' := final (cmds ++ [(d, s)]) in
  psize p <= psize p' <= psize p + (if valid_sizeb s then 2 * s - 1 else 0) /\
  (valid_sizeb s = false -> p' = p /\ results (cmds ++ [(d, s)]) = results cmds ++ [InvalidArgument]).
Proof.
  intros p p'.
  assert (E : run cp_init (cmds ++ [(d, s)]) = (fst (cp_add p d s), results cmds ++ [snd (cp_add p d s)])).
  { rewrite run_app. fold (final cmds). fold p. rewrite run_cons. simpl. destruct (cp_add p d s); reflexivity. }
  assert (P : 0 <= psize p) by apply growth_thm.
  unfold p', final, results. rewrite E. simpl fst. simpl snd.
  pose proof (cp_add_psize_mono p d s P). pose proof (cp_add_growth p d s P).
  split; [lia|]. intros V. rewrite (valid_sizeb_false_refused p d s V). auto.
Qed.

(* the bound is reached: one byte, then a 64-byte constant -> 1 + 63 bytes of alignment gap + 64 = 128 = (2*1-1) + (2*64-1) *)
Definition tight_cmds : list cmd := [([7], 1); (map Z.of_nat (seq 0 64), 64)].
Example tight_example : psize (final tight_cmds) = budget tight_cmds /\ budget tight_cmds = 128.
Proof. vm_compute. split; reflexivity. Qed.

(* C19 — representation invariant of the constant-pool model and its preservation by cp_add. *)
From Coq Require Import ZArith List Bool Lia Permutation.
From Verif Require Import Base.ZBits ConstPool.ConstPoolModel ConstPool.ConstPoolSpec ConstPool.ConstPoolLists.
Import ListNotations.
Local Open Scope Z_scope.

(* ---------------------------------------------------------------- powers of two *)
Lemma pow2_gt0 i : 0 < pow2 i.
Proof. unfold pow2. apply pow2_pos. lia. Qed.

Lemma pow2_mono i j : (i <= j)%nat -> pow2 i <= pow2 j.
Proof. intros. unfold pow2. apply pow2_le. lia. Qed.

Lemma pow2_S i : pow2 (S i) = 2 * pow2 i.
Proof. unfold pow2. rewrite Nat2Z.inj_succ, Z.pow_succ_r by lia. reflexivity. Qed.

Lemma pow2_pred i : (0 < i)%nat -> pow2 i = 2 * pow2 (pred i).
Proof. intros. destruct i; [lia|]. simpl pred. apply pow2_S. Qed.

Lemma mod_pow2_le x i j : (i <= j)%nat -> x mod pow2 j = 0 -> x mod pow2 i = 0.
Proof.
  intros L H. unfold pow2 in *.
  rewrite <- (mod_mod_pow2 x (Z.of_nat i) (Z.of_nat j)) by lia. rewrite H. apply Z.mod_0_l.
  pose proof (pow2_pos (Z.of_nat i)); lia.
Qed.

Lemma pow2_6 : pow2 6 = 64. Proof. reflexivity. Qed.

Lemma valid_size_inv size :
  (size <=? 0) || (64 <? size) = false -> negb (pow2 (ctz size) =? size) = false ->
  (ctz size <= 6)%nat /\ pow2 (ctz size) = size.
Proof.
  intros H1 H2. apply orb_false_iff in H1. destruct H1 as (A & B).
  apply Z.leb_gt in A. apply Z.ltb_ge in B.
  apply negb_false_iff in H2. apply Z.eqb_eq in H2. split; auto.
  destruct (Nat.le_gt_cases (ctz size) 6); auto.
  pose proof (pow2_mono 7 (ctz size) ltac:(lia)) as M. change (pow2 7) with 128 in M. lia.
Qed.


Lemma valid_size_checks s : valid_size s -> (s <=? 0) || (64 <? s) = false /\ negb (pow2 (ctz s) =? s) = false.
Proof. intros [->|[->|[->|[->|[->|[->| ->]]]]]]; split; reflexivity. Qed.

Lemma checks_valid_size s : (s <=? 0) || (64 <? s) = false -> negb (pow2 (ctz s) =? s) = false -> valid_size s.
Proof.
  intros H1 H2. destruct (valid_size_inv s H1 H2) as (L & E).
  unfold valid_size. rewrite <- E.
  destruct (ctz s) as [|[|[|[|[|[|[|n]]]]]]]; try lia; vm_compute; tauto.
Qed.

Lemma invalid_size_checks s : ~ valid_size s -> ((s <=? 0) || (64 <? s) = true) \/ negb (pow2 (ctz s) =? s) = true.
Proof.
  intros N. destruct ((s <=? 0) || (64 <? s)) eqn:A; auto.
  destruct (negb (pow2 (ctz s) =? s)) eqn:B; auto.
  exfalso. apply N. apply checks_valid_size; auto.
Qed.

(* ---------------------------------------------------------------- shapes *)

Definition node_ok (i : nat) (sz : Z) (n : node) : Prop :=
  Z.of_nat (length (n_key n)) = pow2 i /\ 0 <= n_off n /\ n_off n mod pow2 i = 0 /\ n_off n + pow2 i <= sz.

Definition gap_ok (i : nat) (sz : Z) (g : gap) : Prop :=
  snd g = pow2 i /\ 0 <= fst g /\ fst g mod pow2 i = 0 /\ fst g + snd g <= sz /\ (i <= 5)%nat.

Definition inside (ts : list (list node)) (i : nat) (n : node) : Prop :=
  exists j m, In m (nth j ts []) /\ n_shared m = false /\ n_off m <= n_off n /\
              n_off n + pow2 i <= n_off m + pow2 j /\ n_key n = slice (n_key m) (n_off n - n_off m) (pow2 i).

(* the part of the invariant that only concerns the trees *)
Record TInv (ts : list (list node)) (sz : Z) : Prop := {
  t_len : length ts = 7%nat;
  t_nodes : forall i n, In n (nth i ts []) -> node_ok i sz n;
  t_keys : forall i, NoDup (map n_key (nth i ts []));
  t_shared : forall i n, In n (nth i ts []) -> n_shared n = true -> inside ts i n
}.

Record Inv (p : pool) : Prop := {
  inv_trees : TInv (trees p) (psize p);
  inv_lg : length (gaps p) = 7%nat;
  inv_size : 0 <= psize p;
  inv_gaps : forall i g, In g (nth i (gaps p) []) -> gap_ok i (psize p) g;
  inv_disj : pairwise disj (regions p)
}.

Lemma node_ok_mono i sz sz' n : sz <= sz' -> node_ok i sz n -> node_ok i sz' n.
Proof. unfold node_ok; intuition lia. Qed.

Lemma gap_ok_mono i sz sz' g : sz <= sz' -> gap_ok i sz g -> gap_ok i sz' g.
Proof. unfold gap_ok; intuition lia. Qed.

(* ---------------------------------------------------------------- per-size tree *)
Lemma tree_insert_perm n t : Permutation (tree_insert n t) (n :: t).
Proof.
  induction t; simpl; auto.
  destruct (key_lt (n_key n) (n_key a)); auto.
  etransitivity; [apply perm_skip; apply IHt|]. apply perm_swap.
Qed.

Lemma tree_insert_in n t x : In x (tree_insert n t) <-> x = n \/ In x t.
Proof.
  split; intros H.
  - apply (Permutation_in _ (tree_insert_perm n t)) in H. simpl in H. intuition.
  - apply (Permutation_in _ (Permutation_sym (tree_insert_perm n t))). simpl. intuition.
Qed.

Lemma key_eqb_true a b : key_eqb a b = true <-> a = b.
Proof. unfold key_eqb. destruct (list_eq_dec Z.eq_dec a b); split; intros; auto; discriminate. Qed.

Lemma tree_get_some t k n : tree_get t k = Some n -> In n t /\ n_key n = k.
Proof.
  intros H. apply find_some in H. destruct H as (I & E). apply key_eqb_true in E. auto.
Qed.

Lemma tree_get_none t k n : tree_get t k = None -> In n t -> n_key n <> k.
Proof.
  intros H I E. pose proof (find_none _ _ H n I) as F. simpl in F.
  assert (key_eqb k (n_key n) = true) by (apply key_eqb_true; auto). congruence.
Qed.

Lemma tree_get_unique t k n : NoDup (map n_key t) -> In n t -> n_key n = k -> tree_get t k = Some n.
Proof.
  intros ND I E. destruct (tree_get t k) as [m|] eqn:G.
  - apply tree_get_some in G. destruct G as (Im & Em). f_equal.
    eapply NoDup_map_inj; eauto. congruence.
  - exfalso. eapply tree_get_none; eauto.
Qed.

Lemma stored_perm t t' : Permutation t t' -> Permutation (stored t) (stored t').
Proof.
  intros P. unfold stored. apply Permutation_map.
  induction P; simpl; auto.
  - destruct (nonshared x); auto.
  - destruct (nonshared x), (nonshared y); auto. apply perm_swap.
  - etransitivity; eauto.
Qed.

Lemma stored_cons n t : stored (n :: t) = (if n_shared n then [] else [rng n]) ++ stored t.
Proof. unfold stored, nonshared. simpl. destruct (n_shared n); reflexivity. Qed.

(* ---------------------------------------------------------------- ConstPool_addGap *)
Lemma gap_class_spec off sz gi gsz :
  1 <= sz -> gap_class off sz = (gi, gsz) -> gsz = pow2 gi /\ 1 <= gsz <= sz /\ off mod gsz = 0 /\ (gi <= 5)%nat.
Proof.
  intros Hs. unfold gap_class.
  repeat match goal with
  | |- context [if (?a <=? ?b) && (?c =? ?d) then _ else _] =>
      destruct (Z.leb_spec a b); destruct (Z.eqb_spec c d); simpl andb; cbv iota
  end; intros E; inversion E; subst; clear E;
  (split; [reflexivity | split; [lia | split; [try assumption; apply Z.mod_1_r | lia]]]).
Qed.

Definition gap_shape (i : nat) (g : gap) : Prop :=
  snd g = pow2 i /\ 0 <= fst g /\ fst g mod pow2 i = 0 /\ (i <= 5)%nat.

Definition covered_by (x : Z) (l : list gap) : Prop := exists g, In g l /\ fst g <= x < fst g + snd g.

Lemma add_gap_f_spec fuel : forall gs off sz,
  0 <= off -> length gs = 7%nat ->
  exists new,
    Permutation (concat (add_gap_f fuel gs off sz)) (new ++ concat gs) /\
    length (add_gap_f fuel gs off sz) = 7%nat /\
    (forall i g, In g (nth i (add_gap_f fuel gs off sz) []) -> In g (nth i gs []) \/ (In g new /\ gap_shape i g)) /\
    Forall (fun g => off <= fst g /\ fst g + snd g <= off + Z.max sz 0) new /\
    pairwise disj new /\
    ((Z.to_nat sz <= fuel)%nat -> forall x, off <= x < off + sz -> covered_by x new) /\
    ((Z.to_nat sz <= fuel)%nat -> total new = Z.max sz 0).
Proof.
  induction fuel; intros gs off sz Ho Hl; simpl.
  - exists []. simpl. split; [auto|]. split; [auto|]. split; [auto|]. split; [auto|]. split; [auto|]. split.
    + intros Hf x Hx. lia.
    + intros Hf. lia.
  - destruct (Z.leb_spec sz 0).
    + exists []. simpl. split; [auto|]. split; [auto|]. split; [auto|]. split; [auto|]. split; [auto|]. split.
      * intros Hf x Hx. lia.
      * intros Hf. lia.
    + destruct (gap_class off sz) as (gi, gsz) eqn:GC.
      destruct (gap_class_spec off sz gi gsz ltac:(lia) GC) as (E & R & M & L).
      set (gs1 := upd gi ((off, gsz) :: nth gi gs []) gs).
      assert (Hl1 : length gs1 = 7%nat) by (unfold gs1; rewrite upd_length; auto).
      destruct (IHfuel gs1 (off + gsz) (sz - gsz) ltac:(lia) Hl1) as (new & P & L7 & In1 & F & PW & CV & SM).
      exists ((off, gsz) :: new). split; [|split; [auto|split; [|split; [|split; [|split]]]]].
      * etransitivity; [apply P|].
        unfold gs1. rewrite !concat_flat_map.
        pose proof (flat_map_push_perm (fun x : list gap => x) gi (off, gsz) gs ltac:(lia) ltac:(intros; simpl; auto)) as Q.
        simpl in Q. etransitivity; [apply Permutation_app_head; apply Q|].
        simpl. symmetry. apply Permutation_middle.
      * intros i g Hg. destruct (In1 i g Hg) as [Hg1|(Hg1 & S)].
        -- unfold gs1 in Hg1. apply in_nth_upd in Hg1. destruct Hg1 as [(-> & [<-|Hg1])|(_ & Hg1)]; auto.
           right. split; [left; auto|]. unfold gap_shape; simpl. subst gsz. repeat split; auto.
        -- right. split; [right; auto|auto].
      * constructor; simpl; [lia|].
        eapply Forall_impl; [|apply F]. simpl. intros g (A & B). lia.
      * simpl. split; auto. rewrite Forall_forall in *. intros g Hg. destruct (F g Hg). unfold disj; simpl. lia.
      * intros Hf x Hx. destruct (Z.lt_ge_cases x (off + gsz)).
        -- exists (off, gsz). simpl. split; auto. lia.
        -- destruct (CV ltac:(lia) x ltac:(lia)) as (g & Hg & Cg). exists g. split; [right; auto|auto].
      * intros Hf. simpl. rewrite SM by lia. lia.
Qed.

Lemma add_gap_spec gs off sz :
  0 <= off -> 0 <= sz -> length gs = 7%nat ->
  exists new,
    Permutation (concat (add_gap gs off sz)) (new ++ concat gs) /\
    length (add_gap gs off sz) = 7%nat /\
    (forall i g, In g (nth i (add_gap gs off sz) []) -> In g (nth i gs []) \/ (In g new /\ gap_shape i g)) /\
    Forall (fun g => off <= fst g /\ fst g + snd g <= off + sz) new /\
    pairwise disj new /\
    (forall x, off <= x < off + sz -> covered_by x new) /\
    total new = sz.
Proof.
  intros Ho Hs Hl. unfold add_gap.
  destruct (add_gap_f_spec (Z.to_nat sz) gs off sz Ho Hl) as (new & A & B & C & D & E & F & G).
  exists new. split; [auto|]. split; [auto|]. split; [auto|]. split; [|split; [auto|split]].
  - rewrite Z.max_l in D by lia. auto.
  - apply F. lia.
  - rewrite G by lia. lia.
Qed.

(* ---------------------------------------------------------------- the gap loop *)
Lemma gap_loop_spec n : forall ti size gs acc gs' r,
  (forall g, In g (nth ti gs []) -> snd g = size) ->
  gap_loop n ti size gs acc = (gs', r) ->
  exists k, gs' = upd ti (skipn k (nth ti gs [])) gs /\
            ((k = 0%nat /\ r = acc) \/ exists g, In g (firstn k (nth ti gs [])) /\ r = Some (fst g)).
Proof.
  induction n; intros ti size gs acc gs' r H E; simpl in E; unfold gap in *.
  - inversion E; subst. exists 0%nat. simpl. rewrite upd_nth_same. auto.
  - destruct (nth ti gs []) as [|(goff, gsz) rest] eqn:St.
    + destruct (IHn ti size gs acc gs' r) as (k & E1 & E2); auto.
      { rewrite St. intros g []. }
      rewrite St in E1, E2. exists 0%nat. simpl. rewrite <- St, upd_nth_same.
      rewrite skipn_nil in E1. rewrite <- St in E1. rewrite upd_nth_same in E1. split; auto.
      destruct E2 as [(_ & ->)|(g & Hg & _)]; auto. rewrite firstn_nil in Hg. destruct Hg.
    + pose proof (nth_nonempty_lt _ _ _ _ St) as Lt.
      assert (gsz = size) by (apply (H (goff, gsz)); left; auto). subst gsz.
      replace (0 <? size - size) with false in E by (symmetry; apply Z.ltb_ge; lia).
      destruct (IHn ti size (upd ti rest gs) (Some goff) gs' r) as (k & E1 & E2); auto.
      { rewrite nth_upd_eq by auto. intros g Hg. apply H. right; auto. }
      rewrite nth_upd_eq in E1, E2 by auto. rewrite upd_upd in E1.
      exists (S k). simpl. split; auto.
      right. destruct E2 as [(-> & ->)|(g & Hg & ->)].
      * exists (goff, size). simpl. auto.
      * exists g. simpl. auto.
Qed.

(* ---------------------------------------------------------------- shared sub-constants *)
Definition Ext (sz : Z) (ts ts' : list (list node)) : Prop :=
  TInv ts' sz /\ (forall j n, In n (nth j ts []) -> In n (nth j ts' [])) /\
  Permutation (flat_map stored ts') (flat_map stored ts).

Lemma Ext_refl sz ts : TInv ts sz -> Ext sz ts ts.
Proof. intros. split; [auto|split; [auto|apply Permutation_refl]]. Qed.

Lemma Ext_trans sz a b c : Ext sz a b -> Ext sz b c -> Ext sz a c.
Proof.
  intros (T1 & M1 & P1) (T2 & M2 & P2). split; [auto|split].
  - intros; auto.
  - etransitivity; eauto.
Qed.

Lemma inside_mono ts ts' i n : (forall j m, In m (nth j ts []) -> In m (nth j ts' [])) -> inside ts i n -> inside ts' i n.
Proof. intros M (j & m & A & B). exists j, m. split; auto. Qed.

Section Share.
  Variables (data : list Z) (off size sz : Z) (ti0 : nat) (M : node).
  Hypothesis Hsize : size = pow2 ti0.
  Hypothesis Hti0 : (ti0 <= 6)%nat.
  Hypothesis Hdata : size <= Z.of_nat (length data).
  Hypothesis Hoff : 0 <= off.
  Hypothesis Hal : off mod size = 0.
  Hypothesis Hend : off + size <= sz.
  Hypothesis Hsz : sz <= 4294967296.
  Hypothesis HM : n_off M = off /\ n_key M = slice data 0 size /\ n_shared M = false.

  Lemma share_one_ext ts ti ss i :
    TInv ts sz -> In M (nth ti0 ts []) -> (ti <= ti0)%nat -> ss = pow2 ti -> (Z.of_nat i + 1) * ss <= size ->
    Ext sz ts (share_one ti ss data off ts i).
  Proof.
    intros T IM Lti Ess Hi. unfold share_one.
    set (key := slice data (Z.of_nat i * ss) ss).
    destruct (tree_get (nth ti ts []) key) eqn:G; [apply Ext_refl; auto|].
    set (N := mkNode key (trunc32 (off + Z.of_nat i * ss)) true).
    set (t := nth ti ts []).
    set (ts' := upd ti (tree_insert N t) ts).
    pose proof (pow2_gt0 ti) as Pss. rewrite <- Ess in Pss.
    assert (Lt : (ti < length ts)%nat) by (rewrite (t_len _ _ T); lia).
    assert (Mono : forall j n, In n (nth j ts []) -> In n (nth j ts' [])).
    { intros j n Hn. unfold ts'. destruct (Nat.eq_dec j ti) as [->|Ne].
      - rewrite nth_upd_eq by auto. apply tree_insert_in. right; auto.
      - rewrite nth_upd_neq by auto. auto. }
    assert (Eoff : trunc32 (off + Z.of_nat i * ss) = off + Z.of_nat i * ss).
    { unfold trunc32. apply Z.mod_small. nia. }
    assert (NOK : node_ok ti sz N).
    { unfold node_ok, N; simpl. rewrite Eoff. repeat split.
      - unfold key. rewrite <- Ess. apply slice_length; nia.
      - nia.
      - rewrite <- Ess. rewrite Z.mod_add by lia. rewrite Ess. apply mod_pow2_le with (j := ti0); auto. rewrite <- Hsize; auto.
      - rewrite <- Ess. nia. }
    split; [|split; auto].
    - constructor.
      + unfold ts'. rewrite upd_length. apply (t_len _ _ T).
      + intros j n Hn. unfold ts' in Hn. apply in_nth_upd in Hn. destruct Hn as [(-> & Hn)|(_ & Hn)].
        * apply tree_insert_in in Hn. destruct Hn as [->|Hn]; auto. apply (t_nodes _ _ T); auto.
        * apply (t_nodes _ _ T); auto.
      + intros j. unfold ts'. destruct (Nat.eq_dec j ti) as [->|Ne].
        * rewrite nth_upd_eq by auto.
          eapply Permutation_NoDup; [apply Permutation_map; symmetry; apply tree_insert_perm|].
          simpl. constructor; [|apply (t_keys _ _ T)].
          intros Hin. apply in_map_iff in Hin. destruct Hin as (n & En & Hn).
          eapply tree_get_none; eauto.
        * rewrite nth_upd_neq by auto. apply (t_keys _ _ T).
      + intros j n Hn Sh. unfold ts' in Hn. apply in_nth_upd in Hn.
        assert (Old : In n (nth j ts []) -> inside ts' j n).
        { intros Hn'. eapply inside_mono; [apply Mono|]. apply (t_shared _ _ T); auto. }
        destruct Hn as [(-> & Hn)|(_ & Hn)]; auto.
        apply tree_insert_in in Hn. destruct Hn as [->|Hn]; auto.
        exists ti0, M. destruct HM as (M1 & M2 & M3).
        split; [apply Mono; auto|]. split; auto. rewrite M1, M2. unfold N; simpl. rewrite Eoff.
        split; [nia|]. split; [rewrite <- Ess, <- Hsize; nia|].
        unfold key. rewrite <- Ess. rewrite slice_slice by nia. f_equal. lia.
    - unfold ts'.
      pose proof (flat_map_upd_perm stored ti (tree_insert N t) ts Lt) as P. fold t in P.
      apply Permutation_app_inv_l with (l := stored t).
      etransitivity; [apply Permutation_app_comm|].
      etransitivity; [apply P|].
      apply Permutation_app_tail.
      etransitivity; [apply stored_perm; apply tree_insert_perm|].
      rewrite stored_cons. simpl. auto.
  Qed.

  Lemma share_row_ext ti ss : forall (is : list nat) ts,
    TInv ts sz -> In M (nth ti0 ts []) -> (ti <= ti0)%nat -> ss = pow2 ti ->
    (forall i, In i is -> (Z.of_nat i + 1) * ss <= size) ->
    Ext sz ts (fold_left (share_one ti ss data off) is ts).
  Proof.
    induction is; intros ts T IM L E H; simpl.
    - apply Ext_refl; auto.
    - pose proof (share_one_ext ts ti ss a T IM L E (H a (or_introl eq_refl))) as X.
      eapply Ext_trans; [apply X|].
      destruct X as (T' & Mo & _).
      apply IHis; auto. intros; apply H; right; auto.
  Qed.

  Lemma share_loop_ext fuel : forall ts ti ss pc,
    TInv ts sz -> In M (nth ti0 ts []) -> (ti <= ti0)%nat -> ss = pow2 ti -> Z.of_nat pc * ss = size ->
    Ext sz ts (share_loop fuel ts ti ss pc data off).
  Proof.
    induction fuel; intros ts ti ss pc T IM L E Hpc; simpl.
    - apply Ext_refl; auto.
    - destruct (Z.ltb_spec 4 ss); [|apply Ext_refl; auto].
      assert (3 <= ti)%nat.
      { destruct (Nat.le_gt_cases 3 ti); auto. pose proof (pow2_mono ti 2 ltac:(lia)) as X. change (pow2 2) with 4 in X. lia. }
      assert (E' : ss / 2 = pow2 (pred ti)).
      { rewrite E, (pow2_pred ti) by lia. rewrite Z.mul_comm. apply Z.div_mul. lia. }
      assert (E2 : ss = 2 * (ss / 2)) by (rewrite E', E; apply pow2_pred; lia).
      pose proof (share_row_ext (pred ti) (ss / 2) (seq 0 (2 * pc)) ts T IM ltac:(lia) E') as X.
      unfold share_row.
      assert (Hi : forall i, In i (seq 0 (2 * pc)) -> (Z.of_nat i + 1) * (ss / 2) <= size).
      { intros i Hi. apply in_seq in Hi. pose proof (pow2_gt0 (pred ti)). rewrite <- E' in *. nia. }
      specialize (X Hi).
      eapply Ext_trans; [apply X|].
      destruct X as (T' & Mo & _).
      apply IHfuel; auto; try lia; try nia.
  Qed.
End Share.

(* ---------------------------------------------------------------- bounds of all regions *)
Lemma in_nth_exists {A} (l : list (list A)) t : In t l -> exists i, nth i l [] = t.
Proof. intros H. destruct (In_nth _ _ [] H) as (i & _ & E). eauto. Qed.

Lemma regions_bound p : Inv p -> Forall (fun r => 0 <= fst r /\ fst r + snd r <= psize p) (regions p).
Proof.
  intros I. unfold regions. apply Forall_app. split; apply Forall_forall; intros x Hx.
  - apply in_flat_map in Hx. destruct Hx as (t & Ht & Hx).
    unfold stored in Hx. apply in_map_iff in Hx. destruct Hx as (n & <- & Hn).
    apply filter_In in Hn. destruct Hn as (Hn & _).
    destruct (in_nth_exists _ _ Ht) as (i & <-).
    destruct (t_nodes _ _ (inv_trees _ I) i n Hn) as (A & B & C & D). unfold rng; simpl. lia.
  - apply in_concat in Hx. destruct Hx as (l & Hl & Hx).
    destruct (in_nth_exists _ _ Hl) as (i & <-).
    destruct (inv_gaps _ I i x Hx) as (A & B & C & D & E). lia.
Qed.

Lemma in_skipn {A} (x : A) k l : In x (skipn k l) -> In x l.
Proof. intros H. rewrite <- (firstn_skipn k l). apply in_or_app; auto. Qed.

Lemma in_firstn {A} (x : A) k l : In x (firstn k l) -> In x l.
Proof. intros H. rewrite <- (firstn_skipn k l). apply in_or_app; auto. Qed.

Lemma pop_perm {A} (l : list (list A)) i k : (i < length l)%nat ->
  Permutation (concat l) (concat (upd i (skipn k (nth i l [])) l) ++ firstn k (nth i l [])).
Proof.
  intros H. rewrite !concat_flat_map.
  pose proof (flat_map_upd_perm (fun x : list A => x) i (skipn k (nth i l [])) l H) as P.
  set (S := nth i l []) in *. set (F' := flat_map (fun x : list A => x) (upd i (skipn k S) l)) in *.
  apply Permutation_app_inv_l with (l := skipn k S).
  etransitivity; [symmetry; apply P|].
  replace (F' ++ S) with ((F' ++ firstn k S) ++ skipn k S) by (rewrite <- app_assoc; f_equal; apply firstn_skipn).
  apply Permutation_app_comm.
Qed.

Lemma perm_helper {A} (F C G2 l1 l2 : list A) g :
  Permutation C (G2 ++ l1 ++ g :: l2) -> Permutation (F ++ C) ((l1 ++ l2) ++ g :: F ++ G2).
Proof.
  intros P. etransitivity; [apply Permutation_app_head; apply P|].
  etransitivity; [|apply Permutation_middle].
  replace (F ++ G2 ++ l1 ++ g :: l2) with ((F ++ G2 ++ l1) ++ g :: l2) by (rewrite <- !app_assoc; reflexivity).
  etransitivity; [symmetry; apply Permutation_middle|].
  apply perm_skip.
  replace ((F ++ G2 ++ l1) ++ l2) with ((F ++ G2) ++ (l1 ++ l2)) by (rewrite <- !app_assoc; reflexivity).
  apply Permutation_app_comm.
Qed.

(* ---------------------------------------------------------------- placing a new constant *)
Lemma align_up_diff_spec base al : 0 < al -> 0 <= align_up_diff base al < al /\ (base + align_up_diff base al) mod al = 0.
Proof.
  intros H. unfold align_up_diff. split; [apply Z.mod_pos_bound; auto|].
  rewrite Z.add_mod_idemp_r by lia. replace (base + - base) with 0 by lia. apply Z.mod_0_l. lia.
Qed.

Lemma place_inv p ti s d off gs2 sz2 al mn :
  Inv p -> (ti <= 6)%nat -> s = pow2 ti -> s <= Z.of_nat (length d) ->
  tree_get (nth ti (trees p) []) (slice d 0 s) = None ->
  0 <= off -> off mod s = 0 -> off + s <= sz2 -> psize p <= sz2 -> sz2 <= 4294967296 ->
  length gs2 = 7%nat -> (forall i g, In g (nth i gs2 []) -> gap_ok i sz2 g) ->
  pairwise disj ((off, s) :: flat_map stored (trees p) ++ concat gs2) ->
  let M := mkNode (slice d 0 s) (trunc32 off) false in
  let ts2 := share_loop 7 (upd ti (tree_insert M (nth ti (trees p) [])) (trees p)) ti s 1 d off in
  Inv (mkPool ts2 gs2 sz2 al mn) /\
  In M (nth ti ts2 []) /\ n_off M = off /\
  (forall j n, In n (nth j (trees p) []) -> In n (nth j ts2 [])) /\
  Permutation (flat_map stored ts2) ((off, s) :: flat_map stored (trees p)).
Proof.
  intros I Lti Es Hd G Ho Hal Hend Hsz Hsz2 Lg Gok PW M ts2.
  pose proof (inv_trees _ I) as T.
  pose proof (pow2_gt0 ti) as Ps. rewrite <- Es in Ps.
  assert (Eoff : trunc32 off = off) by (unfold trunc32; apply Z.mod_small; lia).
  set (t := nth ti (trees p) []).
  set (ts1 := upd ti (tree_insert M t) (trees p)) in *.
  assert (Lt : (ti < length (trees p))%nat) by (rewrite (t_len _ _ T); lia).
  assert (Mono1 : forall j n, In n (nth j (trees p) []) -> In n (nth j ts1 [])).
  { intros j n Hn. unfold ts1. destruct (Nat.eq_dec j ti) as [->|Ne].
    - rewrite nth_upd_eq by auto. apply tree_insert_in. right; auto.
    - rewrite nth_upd_neq by auto. auto. }
  assert (Klen : Z.of_nat (length (slice d 0 s)) = s) by (apply slice_length; lia).
  assert (IM1 : In M (nth ti ts1 [])).
  { unfold ts1. rewrite nth_upd_eq by auto. apply tree_insert_in. left; auto. }
  assert (T1 : TInv ts1 sz2).
  { constructor.
    - unfold ts1. rewrite upd_length. apply (t_len _ _ T).
    - intros j n Hn. unfold ts1 in Hn. apply in_nth_upd in Hn.
      assert (Old : In n (nth j (trees p) []) -> node_ok j sz2 n).
      { intros Hn'. eapply node_ok_mono; [|apply (t_nodes _ _ T); auto]. auto. }
      destruct Hn as [(-> & Hn)|(_ & Hn)]; auto.
      apply tree_insert_in in Hn. destruct Hn as [->|Hn]; auto.
      unfold node_ok, M; simpl. rewrite Eoff, <- Es. repeat split; auto.
    - intros j. unfold ts1. destruct (Nat.eq_dec j ti) as [->|Ne].
      + rewrite nth_upd_eq by auto.
        eapply Permutation_NoDup; [apply Permutation_map; symmetry; apply tree_insert_perm|].
        simpl. constructor; [|apply (t_keys _ _ T)].
        intros Hin. apply in_map_iff in Hin. destruct Hin as (n & En & Hn).
        eapply tree_get_none; eauto.
      + rewrite nth_upd_neq by auto. apply (t_keys _ _ T).
    - intros j n Hn Sh. unfold ts1 in Hn. apply in_nth_upd in Hn.
      assert (Old : In n (nth j (trees p) []) -> inside ts1 j n).
      { intros Hn'. eapply inside_mono; [apply Mono1|]. apply (t_shared _ _ T); auto. }
      destruct Hn as [(-> & Hn)|(_ & Hn)]; auto.
      apply tree_insert_in in Hn. destruct Hn as [->|Hn]; auto.
      unfold M in Sh; simpl in Sh; discriminate. }
  assert (P1 : Permutation (flat_map stored ts1) ((off, s) :: flat_map stored (trees p))).
  { unfold ts1.
    pose proof (flat_map_upd_perm stored ti (tree_insert M t) (trees p) Lt) as P. fold t in P.
    apply Permutation_app_inv_l with (l := stored t).
    etransitivity; [apply Permutation_app_comm|].
    etransitivity; [apply P|].
    etransitivity; [apply Permutation_app_tail; apply stored_perm; apply tree_insert_perm|].
    rewrite stored_cons. simpl. unfold rng; simpl. rewrite Eoff, Klen.
    change ((off, s) :: stored t ++ flat_map stored (trees p)) with ([(off, s)] ++ stored t ++ flat_map stored (trees p)).
    change (stored t ++ (off, s) :: flat_map stored (trees p)) with (stored t ++ [(off, s)] ++ flat_map stored (trees p)).
    apply Permutation_app_swap_app. }
  pose proof (share_loop_ext d off s sz2 ti M Es Lti Hd Ho Hal Hend Hsz2
                (conj Eoff (conj eq_refl eq_refl)) 7 ts1 ti s 1%nat T1 IM1 (le_n _) Es ltac:(lia)) as (T2 & Mono2 & P2).
  fold ts2 in T2, Mono2, P2.
  assert (P : Permutation (flat_map stored ts2) ((off, s) :: flat_map stored (trees p))) by (etransitivity; eauto).
  split; [|repeat split; auto].
  constructor; simpl; auto.
  - pose proof (inv_size _ I). lia.
  - unfold regions; simpl. eapply pairwise_perm; [apply disj_sym| |apply PW].
    symmetry. change ((off, s) :: flat_map stored (trees p) ++ concat gs2) with (((off, s) :: flat_map stored (trees p)) ++ concat gs2).
    apply Permutation_app_tail. auto.
Qed.

(* ---------------------------------------------------------------- one add *)

Definition new_storage (p p' : pool) (s off : Z) : Prop :=
  Permutation (flat_map stored (trees p')) ((off, s) :: flat_map stored (trees p)) /\
  palign p' = Z.max (palign p) s /\ pmin p' = (if pmin p =? 0 then s else Z.min (pmin p) s) /\
  off + s <= psize p' /\ (psize p' = psize p \/ psize p' = off + s) /\ 0 <= off /\ off mod s = 0.

Lemma cp_add_step p d s p' r :
  Inv p -> wf_cmd d s -> cp_add p d s = (p', r) -> psize p' <= 4294967296 ->
  Inv p' /\ psize p <= psize p' /\
  (forall j n, In n (nth j (trees p) []) -> In n (nth j (trees p') [])) /\
  match r with
  | InvalidArgument => ~ valid_size s /\ p' = p
  | Ok off => valid_size s /\
      (exists n, In n (nth (ctz s) (trees p') []) /\ n_key n = slice d 0 s /\ n_off n = off) /\
      (p' = p \/ new_storage p p' s off)
  end.
Proof.
  intros I Wf E Hsz. unfold cp_add in E.
  destruct ((s <=? 0) || (64 <? s)) eqn:C1.
  { inversion E; subst. split; [exact I|]. split; [lia|]. split; [auto|]. split; [|reflexivity].
    intros V. apply valid_size_checks in V. destruct V; congruence. }
  destruct (negb (pow2 (ctz s) =? s)) eqn:C2.
  { inversion E; subst. split; [exact I|]. split; [lia|]. split; [auto|]. split; [|reflexivity].
    intros V. apply valid_size_checks in V. destruct V; congruence. }
  pose proof (checks_valid_size s C1 C2) as V.
  destruct (valid_size_inv s C1 C2) as (Lti & Es). symmetry in Es.
  set (ti := ctz s) in *.
  assert (Hd : s <= Z.of_nat (length d)).
  { apply Wf. rewrite Es. change 64 with (pow2 6). apply pow2_mono; auto. }
  pose proof (inv_trees _ I) as T.
  pose proof (pow2_gt0 ti) as Ps. rewrite <- Es in Ps.
  destruct (tree_get (nth ti (trees p) []) (slice d 0 s)) as [n|] eqn:G.
  { inversion E; subst p' r. apply tree_get_some in G. destruct G as (Gi & Gk).
    split; [exact I|]. split; [lia|]. split; [auto|]. split; [exact V|]. split; [exists n; auto|left; reflexivity]. }
  destruct (gap_loop (6 - ti) ti s (gaps p) None) as (gs1, found) eqn:GL.
  assert (Hg : forall g, In g (nth ti (gaps p) []) -> snd g = s).
  { intros g Hg. destruct (inv_gaps _ I ti g Hg) as (A & _). rewrite Es; auto. }
  destruct (gap_loop_spec _ _ _ _ _ _ _ Hg GL) as (k & Egs & Ek).
  set (stack := nth ti (gaps p) []) in *.
  destruct found as [o|].
  - (* a gap is reused *)
    destruct Ek as [(_ & X)|(g & Hgk & X)]; [discriminate|]. inversion X; subst o; clear X.
    simpl in E.
    assert (Hgs : In g stack) by (eapply in_firstn; eauto).
    destruct (inv_gaps _ I ti g Hgs) as (G1 & G2 & G3 & G4 & G5).
    assert (Lg : (ti < length (gaps p))%nat) by (eapply in_nth_lt; eauto).
    assert (Hgaps : forall i g0, In g0 (nth i gs1 []) -> gap_ok i (psize p) g0).
    { intros i g0 H0. rewrite Egs in H0. apply in_nth_upd in H0. destruct H0 as [(-> & H0)|(_ & H0)].
      - apply (inv_gaps _ I). eapply in_skipn; eauto.
      - apply (inv_gaps _ I); auto. }
    assert (PW : pairwise disj ((fst g, s) :: flat_map stored (trees p) ++ concat gs1)).
    { destruct (in_split _ _ Hgk) as (l1 & l2 & Ef).
      assert (PC : Permutation (concat (gaps p)) (concat gs1 ++ l1 ++ g :: l2)).
      { rewrite <- Ef. rewrite Egs. apply pop_perm; auto. }
      pose proof (perm_helper (flat_map stored (trees p)) _ _ _ _ _ PC) as PH.
      pose proof (pairwise_perm disj disj_sym _ _ PH (inv_disj _ I)) as PW.
      apply pairwise_app in PW. destruct PW as (_ & PW & _).
      destruct g as (go, gsz). simpl in *. rewrite <- Es in G1. subst gsz. exact PW. }
    rewrite <- Es in G3. rewrite G1, <- Es in G4.
    pose proof (inv_size _ I).
    destruct (place_inv p ti s d (fst g) gs1 (psize p) (Z.max (palign p) s) (if pmin p =? 0 then s else Z.min (pmin p) s)
                I Lti Es Hd G G2 G3 G4 ltac:(lia)) as (I' & IM & EM & Mono & P); auto.
    { inversion E; subst p'. simpl in Hsz. auto. }
    { rewrite Egs, upd_length. apply (inv_lg _ I). }
    inversion E; subst p' r. split; [exact I'|]. simpl. split; [lia|]. split; [exact Mono|].
    split; auto. split.
    + eexists. split; [apply IM|]. simpl. auto.
    + right. unfold new_storage; simpl. repeat split; auto.
  - (* aligned append *)
    destruct Ek as [(-> & _)|(g & _ & X)]; [|discriminate].
    simpl in Egs. unfold stack in Egs. rewrite upd_nth_same in Egs. subst gs1.
    simpl in E.
    destruct (align_up_diff_spec (psize p) s Ps) as (Hdiff & Hmod).
    set (diff := align_up_diff (psize p) s) in *.
    set (gs2 := if diff =? 0 then gaps p else add_gap (gaps p) (psize p) diff) in *.
    pose proof (inv_size _ I) as S0.
    assert (X : exists new, Permutation (concat gs2) (new ++ concat (gaps p)) /\ length gs2 = 7%nat /\
              (forall i g, In g (nth i gs2 []) -> In g (nth i (gaps p) []) \/ (In g new /\ gap_shape i g)) /\
              Forall (fun g => psize p <= fst g /\ fst g + snd g <= psize p + diff) new /\ pairwise disj new).
    { unfold gs2. destruct (diff =? 0).
      - exists []. simpl. repeat split; auto. apply (inv_lg _ I).
      - destruct (add_gap_spec (gaps p) (psize p) diff) as (new & A1 & A2 & A3 & A4 & A5 & _); auto; try lia.
        { apply (inv_lg _ I). }
        exists new. auto. }
    destruct X as (new & PG & LG & InG & FG & PWG).
    assert (Hsz' : psize p + diff + s <= 4294967296) by (inversion E; subst p'; simpl in Hsz; auto).
    pose proof (regions_bound p I) as RB. rewrite Forall_forall in RB, FG.
    destruct (place_inv p ti s d (psize p + diff) gs2 (psize p + diff + s) (Z.max (palign p) s) (if pmin p =? 0 then s else Z.min (pmin p) s)
                I Lti Es Hd G ltac:(lia) Hmod ltac:(lia) ltac:(lia) Hsz' LG) as (I' & IM & EM & Mono & P).
    { intros i g Hg'. destruct (InG i g Hg') as [Old|(Hn & Sh)].
      - eapply gap_ok_mono; [|apply (inv_gaps _ I); auto]. lia.
      - destruct Sh as (A & B & C & D). destruct (FG g Hn). unfold gap_ok. repeat split; auto. lia. }
    { eapply pairwise_perm; [apply disj_sym| |].
      - symmetry. apply perm_skip. etransitivity; [apply Permutation_app_head; apply PG|]. apply Permutation_app_swap_app.
      - simpl. split.
        + apply Forall_forall. intros x Hx. unfold disj; simpl. right.
          apply in_app_or in Hx. destruct Hx as [Hx|Hx].
          * destruct (FG x Hx). lia.
          * destruct (RB x Hx). lia.
        + apply pairwise_app. split; auto. split; [apply (inv_disj _ I)|].
          intros x y Hx Hy. destruct (FG x Hx). destruct (RB y Hy). unfold disj. right. lia. }
    inversion E; subst p' r. split; [exact I'|]. simpl. split; [lia|]. split; [exact Mono|].
    split; auto. split.
    + eexists. split; [apply IM|]. simpl. auto.
    + right. unfold new_storage; simpl. repeat split; auto; lia.
Qed.

(* C19 — an executable judge of OBSERVED transcripts (definitions only, extracted): given the commands of a history, the
   answers some implementation gave, the image it wrote and the size/alignment it reported, decide the clauses of the
   property. It does not look at the model state: it is applied to the answers of the real ConstPool.
   Soundness (judge = true -> the Prop-level clauses) and "the model always passes" are in ConstPoolJudgeProofs.v. *)
From Coq Require Import ZArith List Bool.
From Verif Require Import ConstPool.ConstPoolModel.
Import ListNotations.
Local Open Scope Z_scope.

Definition entry := (list Z * Z * result)%type.    (* data, size, answer *)

Definition valid_sizeb (s : Z) : bool :=
  (s =? 1) || (s =? 2) || (s =? 4) || (s =? 8) || (s =? 16) || (s =? 32) || (s =? 64).

Fixpoint bytes_eqb (a b : list Z) : bool :=
  match a, b with
  | [], [] => true
  | x :: a', y :: b' => (x =? y) && bytes_eqb a' b'
  | _, _ => false
  end.

Definition entry_ok (img : list Z) (sz al : Z) (e : entry) : bool :=
  match e with
  | (d, s, InvalidArgument) => negb (valid_sizeb s)
  | (d, s, Ok off) =>
    valid_sizeb s && (0 <=? off) && (off mod s =? 0) && (off + s <=? sz) && (s <=? al) && (al mod s =? 0) &&
    bytes_eqb (slice img off s) (slice d 0 s)
  end.

Definition dedup_ok (a b : entry) : bool :=
  match a, b with
  | (d1, s1, Ok o1), (d2, s2, Ok o2) => negb ((s1 =? s2) && bytes_eqb (slice d1 0 s1) (slice d2 0 s2)) || (o1 =? o2)
  | _, _ => true
  end.

Definition covers_pos (x : Z) (e : entry) : bool :=
  match e with (_, s, Ok o) => (o <=? x) && (x <? o + s) | _ => false end.

Definition is_ok (e : entry) : bool := match e with (_, _, Ok _) => true | _ => false end.
Definition has_size (al : Z) (e : entry) : bool := match e with (_, s, Ok _) => s =? al | _ => false end.

(* the distinct ranges some add was answered with; every byte-owning region is one of them, so their total length bounds the
   payload from above *)
Definition range_eq_dec (a b : Z * Z) : {a = b} + {a <> b}.
Proof. decide equality; apply Z.eq_dec. Defined.
Definition ok_ranges (tr : list entry) : list (Z * Z) :=
  flat_map (fun e => match e with (_, s, Ok o) => [(o, s)] | _ => [] end) tr.
Definition total_len (l : list (Z * Z)) : Z := fold_right (fun r a => snd r + a) 0 l.

Definition judge (tr : list entry) (img : list Z) (sz al mn : Z) : bool :=
  (sz <=? 2 * total_len (nodup range_eq_dec (ok_ranges tr))) &&
  forallb (entry_ok img sz al) tr &&
  forallb (fun a => forallb (dedup_ok a) tr) tr &&
  (Z.of_nat (length img) =? sz) &&
  forallb (fun i => existsb (covers_pos (Z.of_nat i)) tr || (nth i img 0 =? 0)) (seq 0 (length img)) &&
  (existsb (has_size al) tr || ((al =? 0) && negb (existsb is_ok tr))) &&
  ((existsb (has_size mn) tr && (sz mod mn =? 0) && (0 <? mn) && (mn <=? al)) || ((mn =? 0) && negb (existsb is_ok tr))).

Definition transcript (cmds : list cmd) (rs : list result) : list entry :=
  map (fun cr => (fst (fst cr), snd (fst cr), snd cr)) (combine cmds rs).

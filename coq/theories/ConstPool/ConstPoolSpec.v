(* C19 — vocabulary of the property statements (definitions only, no proofs). *)
From Coq Require Import ZArith List Bool.
From Verif Require Import ConstPool.ConstPoolModel.
Import ListNotations.
Local Open Scope Z_scope.

(* the sizes ConstPool accepts *)
Definition valid_size (s : Z) : Prop := s = 1 \/ s = 2 \/ s = 4 \/ s = 8 \/ s = 16 \/ s = 32 \/ s = 64.

(* a command add(data, size) is well formed when `data` really points to `size` readable bytes (only sizes up to 64 are
   ever read) *)
Definition wf_cmd (d : list Z) (s : Z) : Prop := s <= 64 -> s <= Z.of_nat (length d).
Definition wf_cmds (cmds : list cmd) : Prop := Forall (fun c => wf_cmd (fst c) (snd c)) cmds.

(* Node::_offset is a uint32_t: the statements are about pools of at most 4 GiB *)
Definition guard (cmds : list cmd) : Prop := psize (final cmds) <= 4294967296.

(* the k-th command of the history was add(d, s) and it returned kOk with offset `off` *)
Definition added (cmds : list cmd) (k : nat) (d : list Z) (s off : Z) : Prop :=
  nth_error cmds k = Some (d, s) /\ nth_error (results cmds) k = Some (Ok off).

(* byte ranges (offset, length) *)
Definition disj (a b : Z * Z) : Prop := fst a + snd a <= fst b \/ fst b + snd b <= fst a.
Fixpoint pairwise {A} (R : A -> A -> Prop) (l : list A) : Prop :=
  match l with [] => True | x :: r => Forall (R x) r /\ pairwise R r end.

(* total length of a list of ranges *)
Definition total (l : list (Z * Z)) : Z := fold_right (fun r a => snd r + a) 0 l.

(* storage: the ranges of the nodes that own bytes (non-shared) and the free gaps *)
Definition rng (n : node) : Z * Z := (n_off n, Z.of_nat (length (n_key n))).
Definition nonshared (n : node) : bool := negb (n_shared n).
Definition stored (t : list node) : list (Z * Z) := map rng (filter nonshared t).
Definition regions (p : pool) : list (Z * Z) := flat_map stored (trees p) ++ concat (gaps p).

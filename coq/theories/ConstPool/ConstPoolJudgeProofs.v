(* C19 — the transcript judge is sound, and the model's own transcript always passes it. *)
From Coq Require Import ZArith List Bool Lia Permutation.
From Verif Require Import ConstPool.ConstPoolModel ConstPool.ConstPoolSpec ConstPool.ConstPoolLists ConstPool.ConstPoolInv
  ConstPool.ConstPoolProofs ConstPool.ConstPoolPartition ConstPool.ConstPoolJudge.
Import ListNotations.
Local Open Scope Z_scope.

(* what a passed transcript means *)
Definition Judged (tr : list entry) (img : list Z) (sz al mn : Z) : Prop :=
  (forall d s off, In (d, s, Ok off) tr ->
     valid_size s /\ 0 <= off /\ off mod s = 0 /\ off + s <= sz /\ s <= al /\ al mod s = 0 /\ slice img off s = slice d 0 s) /\
  (forall d s, In (d, s, InvalidArgument) tr -> ~ valid_size s) /\
  (forall d1 d2 s o1 o2, In (d1, s, Ok o1) tr -> In (d2, s, Ok o2) tr -> slice d1 0 s = slice d2 0 s -> o1 = o2) /\
  Z.of_nat (length img) = sz /\
  (forall x, 0 <= x < sz -> (forall d s off, In (d, s, Ok off) tr -> ~ (off <= x < off + s)) -> nth (Z.to_nat x) img 0 = 0) /\
  ((exists d off, In (d, al, Ok off) tr) \/ (al = 0 /\ forall d s off, ~ In (d, s, Ok off) tr)) /\
  (((exists d off, In (d, mn, Ok off) tr) /\ sz mod mn = 0 /\ 0 < mn <= al) \/ (mn = 0 /\ forall d s off, ~ In (d, s, Ok off) tr)) /\
  sz <= 2 * total_len (nodup range_eq_dec (ok_ranges tr)).

Lemma valid_sizeb_spec s : valid_sizeb s = true <-> valid_size s.
Proof.
  unfold valid_sizeb, valid_size. rewrite !orb_true_iff, !Z.eqb_eq. tauto.
Qed.

Lemma bytes_eqb_spec a : forall b, bytes_eqb a b = true <-> a = b.
Proof.
  induction a; destruct b; simpl; split; intros H; try discriminate; auto.
  - apply andb_prop in H. destruct H as (H1 & H2). apply Z.eqb_eq in H1. apply IHa in H2. congruence.
  - inversion H; subst. rewrite Z.eqb_refl. simpl. apply IHa. reflexivity.
Qed.

Lemma has_size_exists tr z : existsb (has_size z) tr = true -> exists d off, In (d, z, Ok off) tr.
Proof.
  intros E. apply existsb_exists in E. destruct E as (((d & s) & r) & Hin & E). destruct r as [off|]; simpl in E; [|discriminate].
  apply Z.eqb_eq in E. subst s. eauto.
Qed.

Lemma no_ok tr : negb (existsb is_ok tr) = true -> forall d s off, ~ In (d, s, Ok off) tr.
Proof.
  intros E2 d s off Hin. apply negb_true_iff in E2.
  assert (existsb is_ok tr = true) by (apply existsb_exists; exists (d, s, Ok off); auto). congruence.
Qed.

Theorem judge_sound tr img sz al mn : judge tr img sz al mn = true -> Judged tr img sz al mn.
Proof.
  unfold judge. rewrite !andb_true_iff. intros ((((((H0 & H1) & H2) & H3) & H4) & H5) & H6). apply Z.leb_le in H0.
  rewrite forallb_forall in H1, H2, H4. apply Z.eqb_eq in H3.
  unfold Judged. split; [|split; [|split; [|split; [auto|split; [|split; [|split; [|exact H0]]]]]]].
  - intros d s off Hin. specialize (H1 _ Hin). simpl in H1.
    rewrite !andb_true_iff in H1. destruct H1 as ((((((A & B) & C) & D) & E) & F) & G).
    apply valid_sizeb_spec in A. apply Z.leb_le in B. apply Z.eqb_eq in C. apply Z.leb_le in D. apply Z.leb_le in E.
    apply Z.eqb_eq in F. apply bytes_eqb_spec in G. tauto.
  - intros d s Hin. specialize (H1 _ Hin). simpl in H1. apply negb_true_iff in H1.
    intros V. apply valid_sizeb_spec in V. congruence.
  - intros d1 d2 s o1 o2 I1 I2 E. specialize (H2 _ I1). rewrite forallb_forall in H2. specialize (H2 _ I2).
    simpl in H2. apply orb_true_iff in H2. destruct H2 as [N|Eq]; [|apply Z.eqb_eq in Eq; auto].
    apply negb_true_iff in N. rewrite Z.eqb_refl in N. simpl in N.
    assert (bytes_eqb (slice d1 0 s) (slice d2 0 s) = true) by (apply bytes_eqb_spec; auto). congruence.
  - intros x Hx N. assert (Hi : In (Z.to_nat x) (seq 0 (length img))) by (apply in_seq; lia).
    specialize (H4 _ Hi). apply orb_true_iff in H4. destruct H4 as [C|Z0]; [|apply Z.eqb_eq in Z0; auto].
    exfalso. apply existsb_exists in C. destruct C as (((d & s) & r) & Hin & C). destruct r as [off|]; simpl in C; [|discriminate].
    apply andb_prop in C. destruct C as (C1 & C2). apply Z.leb_le in C1. apply Z.ltb_lt in C2.
    apply (N d s off Hin). lia.
  - apply orb_true_iff in H5. destruct H5 as [E|E].
    + left. apply existsb_exists in E. destruct E as (((d & s) & r) & Hin & E). destruct r as [off|]; simpl in E; [|discriminate].
      apply Z.eqb_eq in E. subst s. eauto.
    + right. apply andb_prop in E. destruct E as (E1 & E2). apply Z.eqb_eq in E1. split; auto.
      intros d s off Hin. apply negb_true_iff in E2.
      assert (existsb is_ok tr = true) by (apply existsb_exists; exists (d, s, Ok off); auto). congruence.
  - apply orb_true_iff in H6. destruct H6 as [E|E].
    + left. rewrite !andb_true_iff in E. destruct E as (((E1 & E2) & E3) & E4).
      apply has_size_exists in E1. apply Z.eqb_eq in E2. apply Z.ltb_lt in E3. apply Z.leb_le in E4. auto.
    + right. apply andb_prop in E. destruct E as (E1 & E2). apply Z.eqb_eq in E1. split; auto. apply no_ok; auto.
Qed.

(* ---- total length of duplicate-free lists of ranges *)
Lemma total_len_total l : total_len l = total l.
Proof. reflexivity. Qed.

Lemma total_incl (l : list (Z * Z)) : forall m, NoDup l -> NoDup m -> incl l m -> (forall r, In r m -> 0 <= snd r) -> total l <= total m.
Proof.
  induction l as [|a l IH]; intros m Nl Nm Inc Pos.
  - simpl. clear - Pos. induction m; simpl; [lia|]. pose proof (Pos a (or_introl eq_refl)).
    assert (0 <= total m) by (apply IHm; intros; apply Pos; right; auto). lia.
  - inversion Nl; subst.
    destruct (in_split a m (Inc a (or_introl eq_refl))) as (m1 & m2 & ->).
    pose proof (NoDup_remove_1 _ _ _ Nm) as Nm'. pose proof (NoDup_remove_2 _ _ _ Nm) as Na.
    assert (Inc' : incl l (m1 ++ m2)).
    { intros x Hx. pose proof (Inc x (or_intror Hx)) as Hm. apply in_app_or in Hm. apply in_or_app.
      destruct Hm as [Hm|[Hm|Hm]]; auto. subst x. contradiction. }
    specialize (IH (m1 ++ m2) H2 Nm' Inc' ltac:(intros r Hr; apply Pos; apply in_app_or in Hr; apply in_or_app; simpl; tauto)).
    rewrite total_app in *. simpl. lia.
Qed.

Lemma pairwise_disj_nodup (l : list (Z * Z)) : pairwise disj l -> (forall r, In r l -> 0 < snd r) -> NoDup l.
Proof.
  induction l as [|a l IH]; intros P Pos; constructor.
  - simpl in P. destruct P as (F & _). rewrite Forall_forall in F. intros Hin.
    specialize (F a Hin). pose proof (Pos a (or_introl eq_refl)). unfold disj in F. lia.
  - apply IH; [apply P|]. intros; apply Pos; right; auto.
Qed.

(* ---- the model's own transcript passes *)
Lemma in_transcript cmds rs d s r : length rs = length cmds ->
  (In (d, s, r) (transcript cmds rs) <-> exists k, nth_error cmds k = Some (d, s) /\ nth_error rs k = Some r).
Proof.
  revert rs. induction cmds as [|(d0, s0) cmds IH]; intros rs L; destruct rs as [|r0 rs]; simpl in L; try lia.
  - simpl. split; [tauto|]. intros (k & A & _). destruct k; discriminate.
  - unfold transcript in *. simpl. split.
    + intros [E|Hin].
      * inversion E; subst. exists 0%nat. auto.
      * apply IH in Hin; [|lia]. destruct Hin as (k & A & B). exists (S k). auto.
    + intros (k & A & B). destruct k as [|k]; simpl in A, B.
      * inversion A; inversion B; subst. auto.
      * right. apply IH; [lia|]. eauto.
Qed.

Theorem judge_model cmds : wf_cmds cmds -> guard cmds ->
  judge (transcript cmds (results cmds)) (cp_fill (final cmds)) (psize (final cmds)) (palign (final cmds)) (pmin (final cmds)) = true.
Proof.
  intros W G.
  assert (L : length (results cmds) = length cmds) by apply run_length.
  assert (InOk : forall d s off, In (d, s, Ok off) (transcript cmds (results cmds)) <-> exists k, added cmds k d s off).
  { intros. rewrite in_transcript by auto. unfold added. tauto. }
  destruct (fill_exact_thm cmds W G) as (FL & FE & FZ).
  destruct (size_alignment_cover_thm cmds W G) as (CV & AL).
  assert (NoOk : (forall k d s off, ~ added cmds k d s off) -> negb (existsb is_ok (transcript cmds (results cmds))) = true).
  { intros None. apply negb_true_iff. destruct (existsb is_ok _) eqn:E; auto.
    apply existsb_exists in E. destruct E as (((d & s) & r) & Hin & E). destruct r as [off|]; [|discriminate].
    apply InOk in Hin. destruct Hin as (k & A). exfalso. eapply None; eauto. }
  assert (HasSz : forall k d z off, added cmds k d z off -> existsb (has_size z) (transcript cmds (results cmds)) = true).
  { intros k d z off A. apply existsb_exists. exists (d, z, Ok off). split; [apply InOk; eauto|]. simpl. apply Z.eqb_refl. }
  unfold judge. rewrite !andb_true_iff. split; [split; [split; [split; [split; [split|]|]|]|]|].
  - (* size() <= 2 * total length of the distinct answered ranges, via C19_quirk_cost: size <= 2 * payload *)
    apply Z.leb_le.
    destruct (quirk_cost_thm cmds W G) as (_ & QB & _).
    destruct (no_overlap_thm cmds W G) as (PWr & _ & Hist & _).
    pose proof (final_spec cmds W G) as S. pose proof (sp_inv _ _ S) as I. fold (final cmds) in I.
    assert (Pst : pairwise disj (flat_map stored (trees (final cmds)))) by (apply inv_stored_pairwise; auto).
    assert (Pos : forall r, In r (flat_map stored (trees (final cmds))) -> 0 < snd r).
    { intros r Hr. destruct (Hist r Hr) as (k & d & s & off & A & ->). simpl.
      destruct (aligned_thm cmds k d s off W G A) as (V & _). destruct V as [->|[->|[->|[->|[->|[->| ->]]]]]]; lia. }
    assert (Inc : incl (flat_map stored (trees (final cmds))) (nodup range_eq_dec (ok_ranges (transcript cmds (results cmds))))).
    { intros r Hr. apply nodup_In. destruct (Hist r Hr) as (k & d & s & off & A & ->).
      unfold ok_ranges. apply in_flat_map. exists (d, s, Ok off). split; [apply InOk; eauto|left; reflexivity]. }
    assert (Pos2 : forall r, In r (nodup range_eq_dec (ok_ranges (transcript cmds (results cmds)))) -> 0 <= snd r).
    { intros r Hr. apply nodup_In in Hr. unfold ok_ranges in Hr. apply in_flat_map in Hr. destruct Hr as (((d & s) & res) & Hin & Hr).
      destruct res as [off|]; [|destruct Hr]. destruct Hr as [<-|[]]. simpl.
      apply InOk in Hin. destruct Hin as (k & A). destruct (aligned_thm cmds k d s off W G A) as (V & _).
      destruct V as [->|[->|[->|[->|[->|[->| ->]]]]]]; lia. }
    pose proof (total_incl _ _ (pairwise_disj_nodup _ Pst Pos) (NoDup_nodup _ _) Inc Pos2) as TI.
    rewrite total_len_total. unfold payload in QB. lia.
  - apply forallb_forall. intros ((d & s) & r) Hin. destruct r as [off|]; simpl.
    + apply InOk in Hin. destruct Hin as (k & A).
      destruct (aligned_thm cmds k d s off W G A) as (V & P & M).
      destruct (CV k d s off A) as (C1 & C2 & C3).
      rewrite !andb_true_iff. repeat split.
      * apply valid_sizeb_spec; auto.
      * apply Z.leb_le; auto.
      * apply Z.eqb_eq; auto.
      * apply Z.leb_le; auto.
      * apply Z.leb_le; auto.
      * apply Z.eqb_eq; auto.
      * apply bytes_eqb_spec. apply (FE k d s off A).
    + apply in_transcript in Hin; auto. destruct Hin as (k & A & B).
      apply negb_true_iff. destruct (valid_sizeb s) eqn:V; auto. apply valid_sizeb_spec in V.
      destruct (result_error_iff cmds k d s W G A) as (X & _). apply X in B. tauto.
  - apply forallb_forall. intros ((d1 & s1) & r1) I1. apply forallb_forall. intros ((d2 & s2) & r2) I2.
    destruct r1 as [o1|], r2 as [o2|]; simpl; auto.
    destruct ((s1 =? s2) && bytes_eqb (slice d1 0 s1) (slice d2 0 s2)) eqn:C; simpl; auto.
    apply andb_prop in C. destruct C as (C1 & C2). apply Z.eqb_eq in C1. subst s2. apply bytes_eqb_spec in C2.
    apply InOk in I1. apply InOk in I2. destruct I1 as (k1 & A1). destruct I2 as (k2 & A2).
    apply Z.eqb_eq. eapply dedup_thm; eauto.
  - apply Z.eqb_eq; auto.
  - apply forallb_forall. intros i Hi. apply in_seq in Hi.
    destruct (existsb (covers_pos (Z.of_nat i)) (transcript cmds (results cmds))) eqn:C; simpl; auto.
    apply Z.eqb_eq. rewrite <- (Nat2Z.id i) at 1. apply FZ; [lia|].
    intros k d s off A R.
    assert (existsb (covers_pos (Z.of_nat i)) (transcript cmds (results cmds)) = true); [|congruence].
    apply existsb_exists. exists (d, s, Ok off). split; [apply InOk; eauto|].
    simpl. apply andb_true_iff. split; [apply Z.leb_le|apply Z.ltb_lt]; lia.
  - apply orb_true_iff. destruct AL as [(A0 & _ & _ & None)|((k & d & off & A) & _)].
    + right. rewrite A0. simpl. auto.
    + left. eapply HasSz; eauto.
  - apply orb_true_iff. destruct AL as [(_ & M0 & _ & None)|(_ & (k & d & off & A) & Dv & Rg & _)].
    + right. rewrite M0. simpl. auto.
    + left. rewrite !andb_true_iff. repeat split.
      * eapply HasSz; eauto.
      * apply Z.eqb_eq; auto.
      * apply Z.ltb_lt; lia.
      * apply Z.leb_le; lia.
Qed.

(* ---- non-vacuity: the judge accepts a concrete observed transcript and rejects perturbed ones *)
Definition ex_tr : list entry := [([1], 1, Ok 0); ([2; 3; 4; 5], 4, Ok 4); ([9; 9; 9], 3, InvalidArgument); ([7; 7], 2, Ok 2); ([1], 1, Ok 0)].
Example judge_accepts_example : judge ex_tr [1; 0; 7; 7; 2; 3; 4; 5] 8 4 1 = true.
Proof. vm_compute. reflexivity. Qed.
Example judge_rejects_dirty_gap : judge ex_tr [1; 204; 7; 7; 2; 3; 4; 5] 8 4 1 = false.
Proof. vm_compute. reflexivity. Qed.
Example judge_rejects_misaligned : judge [([1], 1, Ok 0); ([7; 7], 2, Ok 1)] [1; 7; 7] 3 2 1 = false.
Proof. vm_compute. reflexivity. Qed.
Example judge_rejects_not_deduplicated : judge [([1], 1, Ok 0); ([1], 1, Ok 1)] [1; 1] 2 1 1 = false.
Proof. vm_compute. reflexivity. Qed.
Example judge_rejects_oversized_pool : judge [([1], 1, Ok 0); ([7; 7], 2, Ok 2)] [1; 0; 7; 7; 0; 0; 0; 0] 8 2 1 = false.
Proof. vm_compute. reflexivity. Qed.

(* ---- completeness: the judge rejects ONLY transcripts that violate a clause (judge = true <-> Judged) *)
Lemma exists_has_size tr z d off : In (d, z, Ok off) tr -> existsb (has_size z) tr = true.
Proof. intros H. apply existsb_exists. exists (d, z, Ok off). split; auto. simpl. apply Z.eqb_refl. Qed.

Lemma no_ok_rev tr : (forall d s off, ~ In (d, s, Ok off) tr) -> negb (existsb is_ok tr) = true.
Proof.
  intros N. apply negb_true_iff. destruct (existsb is_ok tr) eqn:E; auto.
  apply existsb_exists in E. destruct E as (((d & s) & r) & Hin & E). destruct r as [off|]; [|discriminate].
  exfalso. eapply N; eauto.
Qed.

Theorem judge_complete tr img sz al mn : Judged tr img sz al mn -> judge tr img sz al mn = true.
Proof.
  intros (J1 & J2 & J3 & J4 & J5 & J6 & J7 & J8).
  unfold judge. rewrite !andb_true_iff. split; [split; [split; [split; [split; [split|]|]|]|]|].
  - apply Z.leb_le. exact J8.
  - apply forallb_forall. intros ((d & s) & r) Hin. destruct r as [off|]; simpl.
    + destruct (J1 d s off Hin) as (V & A & B & C & D & E & F).
      rewrite !andb_true_iff. repeat split.
      * apply valid_sizeb_spec; auto.
      * apply Z.leb_le; auto.
      * apply Z.eqb_eq; auto.
      * apply Z.leb_le; auto.
      * apply Z.leb_le; auto.
      * apply Z.eqb_eq; auto.
      * apply bytes_eqb_spec; auto.
    + apply negb_true_iff. destruct (valid_sizeb s) eqn:V; auto. apply valid_sizeb_spec in V. exfalso. apply (J2 d s Hin V).
  - apply forallb_forall. intros ((d1 & s1) & r1) I1. apply forallb_forall. intros ((d2 & s2) & r2) I2.
    destruct r1 as [o1|], r2 as [o2|]; simpl; auto.
    destruct ((s1 =? s2) && bytes_eqb (slice d1 0 s1) (slice d2 0 s2)) eqn:C; simpl; auto.
    apply andb_prop in C. destruct C as (C1 & C2). apply Z.eqb_eq in C1. subst s2. apply bytes_eqb_spec in C2.
    apply Z.eqb_eq. eapply J3; eauto.
  - apply Z.eqb_eq; auto.
  - apply forallb_forall. intros i Hi. apply in_seq in Hi.
    destruct (existsb (covers_pos (Z.of_nat i)) tr) eqn:C; simpl; auto.
    apply Z.eqb_eq. rewrite <- (Nat2Z.id i) at 1. apply J5; [lia|].
    intros d s off Hin R.
    assert (existsb (covers_pos (Z.of_nat i)) tr = true); [|congruence].
    apply existsb_exists. exists (d, s, Ok off). split; auto. simpl. apply andb_true_iff. split; [apply Z.leb_le|apply Z.ltb_lt]; lia.
  - apply orb_true_iff. destruct J6 as [(d & off & H)|(-> & N)].
    + left. eapply exists_has_size; eauto.
    + right. simpl. apply no_ok_rev; auto.
  - apply orb_true_iff. destruct J7 as [((d & off & H) & Dv & Rg)|(-> & N)].
    + left. rewrite !andb_true_iff. repeat split.
      * eapply exists_has_size; eauto.
      * apply Z.eqb_eq; auto.
      * apply Z.ltb_lt; lia.
      * apply Z.leb_le; lia.
    + right. simpl. apply no_ok_rev; auto.
Qed.

Theorem judge_iff tr img sz al mn : judge tr img sz al mn = true <-> Judged tr img sz al mn.
Proof. split; [apply judge_sound|apply judge_complete]. Qed.

(* C19 — exact accounting of every byte of the pool: stored regions, free gaps and the gaps LOST by the pop-several quirk
   (DESIGN 7.12) partition [0, size()).  `lost` is a ghost computed from the history (not part of the model state). *)
From Coq Require Import ZArith List Bool Lia Permutation.
From Verif Require Import Base.ZBits ConstPool.ConstPoolModel ConstPool.ConstPoolSpec ConstPool.ConstPoolLists ConstPool.ConstPoolInv
  ConstPool.ConstPoolProofs.
Import ListNotations.
Local Open Scope Z_scope.

(* ---- ghost: the gaps an add pops from its class stack without using them (all popped ones but the last) *)
Definition lost_step (p : pool) (d : list Z) (s : Z) : list gap :=
  if (s <=? 0) || (64 <? s) then [] else
  let ti := ctz s in
  if negb (pow2 ti =? s) then [] else
  match tree_get (nth ti (trees p) []) (slice d 0 s) with
  | Some _ => []
  | None => removelast (firstn (6 - ti) (nth ti (gaps p) []))
  end.

Fixpoint lost_run (p : pool) (cmds : list cmd) : list gap :=
  match cmds with
  | [] => []
  | (d, s) :: r => lost_step p d s ++ lost_run (fst (cp_add p d s)) r
  end.
Definition lost (cmds : list cmd) : list gap := lost_run cp_init cmds.

(* ---- the gap loop, exactly *)
Definition last_off (popped : list gap) (acc : option Z) : option Z := fold_left (fun _ g => Some (fst g)) popped acc.

Lemma gap_loop_exact n : forall ti size gs acc,
  (forall g, In g (nth ti gs []) -> snd g = size) ->
  gap_loop n ti size gs acc = (upd ti (skipn n (nth ti gs [])) gs, last_off (firstn n (nth ti gs [])) acc).
Proof.
  induction n; intros ti size gs acc H; simpl gap_loop; unfold gap in *.
  - simpl. rewrite upd_nth_same. reflexivity.
  - destruct (nth ti gs []) as [|(goff, gsz) rest] eqn:St.
    + rewrite IHn by (rewrite St; intros g []). rewrite St. rewrite skipn_nil, firstn_nil. simpl. reflexivity.
    + pose proof (nth_nonempty_lt _ _ _ _ St) as Lt.
      assert (gsz = size) by (apply (H (goff, gsz)); left; auto). subst gsz.
      replace (0 <? size - size) with false by (symmetry; apply Z.ltb_ge; lia).
      rewrite IHn by (rewrite nth_upd_eq by auto; intros g Hg; apply H; right; auto).
      rewrite nth_upd_eq by auto. rewrite upd_upd. simpl. reflexivity.
Qed.

Lemma last_off_some popped : forall acc o, last_off popped acc = Some o ->
  (popped = [] /\ acc = Some o) \/ (popped <> [] /\ o = fst (last popped (0, 0))).
Proof.
  induction popped as [|g r IH]; intros acc o E; simpl in E.
  - left. auto.
  - right. split; [discriminate|]. destruct (IH _ _ E) as [(-> & X)|(N & ->)].
    + inversion X. reflexivity.
    + destruct r; [congruence|]. reflexivity.
Qed.

Lemma last_off_none popped : last_off popped None = None -> popped = [].
Proof.
  destruct popped as [|g r]; auto. simpl. intros E.
  assert (X : forall l a, last_off l (Some a) <> None).
  { induction l; simpl; intros; [discriminate|auto]. }
  exfalso. eapply X; eauto.
Qed.

(* ---- the partition invariant *)
Definition covered_by2 (x : Z) (l : list (Z * Z)) : Prop := exists r, In r l /\ fst r <= x < fst r + snd r.

Lemma total_app a b : total (a ++ b) = total a + total b.
Proof. induction a; simpl; lia. Qed.

Lemma total_perm a b : Permutation a b -> total a = total b.
Proof. induction 1; simpl; lia. Qed.

Definition payload (p : pool) : Z := total (flat_map stored (trees p)).   (* bytes owned by constants *)
Definition free_bytes (p : pool) : Z := total (concat (gaps p)).          (* bytes in registered free gaps *)

Record Part (p : pool) (L : list gap) : Prop := {
  pt_total : payload p + free_bytes p + total L = psize p;
  pt_payload : psize p <= 2 * payload p;
  pt_disj : pairwise disj (regions p ++ L);
  pt_cover : forall x, 0 <= x < psize p -> covered_by2 x (regions p ++ L);
  pt_bound : Forall (fun r => 0 <= fst r /\ 0 < snd r /\ fst r + snd r <= psize p) L
}.

Lemma covered_perm x l l' : Permutation l l' -> covered_by2 x l -> covered_by2 x l'.
Proof. intros P (r & Hr & C). exists r. split; auto. eapply Permutation_in; eauto. Qed.

Lemma perm_gap_path {A} (R R' F G1 RL L : list A) g :
  Permutation R (F ++ G1 ++ RL ++ [g]) -> Permutation R' ((g :: F) ++ G1) ->
  Permutation (R' ++ L ++ RL) (R ++ L).
Proof.
  intros P P'.
  etransitivity; [apply Permutation_app_tail; apply P'|].
  symmetry. etransitivity; [apply Permutation_app_tail; apply P|].
  simpl. rewrite <- !app_assoc. simpl.
  replace (F ++ G1 ++ RL ++ g :: L) with ((F ++ G1 ++ RL) ++ g :: L) by (rewrite <- !app_assoc; reflexivity).
  etransitivity; [symmetry; apply Permutation_middle|].
  apply perm_skip. rewrite <- !app_assoc.
  apply Permutation_app_head. apply Permutation_app_head. apply Permutation_app_comm.
Qed.

Lemma in_removelast_app {A} (l : list A) (d x : A) : l <> [] -> In x (removelast l) -> In x l.
Proof. intros N H. rewrite (app_removelast_last d N). apply in_or_app. left; auto. Qed.

Lemma part_step p L d s p' r :
  Inv p -> Part p L -> wf_cmd d s -> cp_add p d s = (p', r) -> psize p' <= 4294967296 ->
  Part p' (L ++ lost_step p d s).
Proof.
  intros I PT Wf E0 Hsz.
  destruct (cp_add_step p d s p' r I Wf E0 Hsz) as (I' & Sz & Mono & R).
  pose proof E0 as E. unfold cp_add in E. unfold lost_step.
  destruct ((s <=? 0) || (64 <? s)) eqn:C1.
  { inversion E; subst. rewrite app_nil_r. exact PT. }
  destruct (negb (pow2 (ctz s) =? s)) eqn:C2.
  { inversion E; subst. rewrite app_nil_r. exact PT. }
  destruct (valid_size_inv s C1 C2) as (Lti & Es). symmetry in Es.
  set (ti := ctz s) in *.
  pose proof (pow2_gt0 ti) as Ps. rewrite <- Es in Ps.
  destruct (tree_get (nth ti (trees p) []) (slice d 0 s)) as [n|] eqn:G.
  { injection E as E1 E2. subst p'. rewrite app_nil_r. exact PT. }
  assert (Hg : forall g, In g (nth ti (gaps p) []) -> snd g = s).
  { intros g Hg. destruct (inv_gaps _ I ti g Hg) as (A & _). rewrite Es; auto. }
  rewrite (gap_loop_exact _ _ _ _ _ Hg) in E.
  set (stack := @nth (list (Z * Z)) ti (gaps p) []) in *. set (popped := @firstn (Z * Z) (6 - ti) stack) in *.
  pose proof (regions_bound p I) as RB. rewrite Forall_forall in RB.
  pose proof (pt_bound _ _ PT) as LB. rewrite Forall_forall in LB.
  destruct (last_off popped None) as [o|] eqn:LO.
  - (* a gap is reused: the other popped gaps are lost *)
    destruct (last_off_some _ _ _ LO) as [(_ & X)|(NE & Eo)]; [discriminate|].
    set (g := last popped (0, 0)) in *.
    pose proof (app_removelast_last (0, 0) NE) as Epop. fold g in Epop.
    set (RL := removelast popped) in *.
    assert (Hgp : In g popped) by (rewrite Epop; apply in_or_app; right; left; auto).
    assert (Hgs : In g stack) by (eapply in_firstn; eauto).
    destruct (inv_gaps _ I ti g Hgs) as (G1 & G2 & G3 & G4 & G5).
    assert (Lg : (ti < length (gaps p))%nat) by (eapply in_nth_lt; eauto).
    cbv iota beta in E. injection E as Ep Er. subst p' r. simpl trees in *; simpl gaps in *; simpl psize in *.
    destruct R as (V & _ & [Eq|NS]).
    { (* the pool did change: its stack of class ti lost the popped gaps *)
      exfalso. apply (f_equal gaps) in Eq. change (upd ti (skipn (6 - ti) stack) (gaps p) = gaps p) in Eq.
      assert (Eq2 : nth ti (upd ti (skipn (6 - ti) stack) (gaps p)) [] = stack) by (rewrite Eq; reflexivity).
      rewrite nth_upd_eq in Eq2 by auto. apply (f_equal (@length _)) in Eq2. rewrite skipn_length in Eq2.
      assert (0 < length popped)%nat by (destruct (length popped) eqn:Z0; [apply length_zero_iff_nil in Z0; exfalso; apply NE; exact Z0|lia]).
      unfold popped in H. rewrite firstn_length in H. lia. }
    destruct NS as (P & _).
    match type of P with Permutation (flat_map stored ?T) _ => set (ts2 := T) in * end.
    assert (Eg : g = (o, s)) by (rewrite (surjective_pairing g); f_equal; [symmetry; exact Eo|rewrite G1; symmetry; exact Es]).
    assert (PC : Permutation (concat (gaps p)) (concat (upd ti (skipn (6 - ti) stack) (gaps p)) ++ RL ++ [g])).
    { rewrite <- Epop. apply pop_perm; auto. }
    assert (PR : Permutation (regions p) (flat_map stored (trees p) ++ concat (upd ti (skipn (6 - ti) stack) (gaps p)) ++ RL ++ [g])).
    { unfold regions. apply Permutation_app_head. exact PC. }
    assert (PR' : Permutation (flat_map stored ts2 ++ concat (upd ti (skipn (6 - ti) stack) (gaps p)))
                              ((g :: flat_map stored (trees p)) ++ concat (upd ti (skipn (6 - ti) stack) (gaps p)))).
    { apply Permutation_app_tail. rewrite Eg. exact P. }
    pose proof (perm_gap_path _ _ _ _ RL L g PR PR') as PP.
    pose proof (pt_total _ _ PT) as TT. pose proof (pt_payload _ _ PT) as TP.
    pose proof (total_perm _ _ PP) as TE. pose proof (total_perm _ _ P) as TF.
    unfold regions in TE. rewrite !total_app in TE. simpl total in TF. unfold payload, free_bytes in *.
    constructor.
    + change (total (flat_map stored ts2) + total (concat (upd ti (skipn (6 - ti) stack) (gaps p))) + total (L ++ RL) = psize p).
      rewrite total_app. lia.
    + change (psize p <= 2 * total (flat_map stored ts2)). lia.
    + apply (pairwise_perm disj disj_sym _ _ (Permutation_sym PP)). apply (pt_disj _ _ PT).
    + intros x Hx. apply (covered_perm x _ _ (Permutation_sym PP)). apply (pt_cover _ _ PT); auto.
    + apply Forall_app. split; [apply (pt_bound _ _ PT)|]. apply Forall_forall. intros x Hx.
      assert (In x stack) by (eapply in_firstn; apply (in_removelast_app popped (0, 0) x NE Hx)).
      destruct (inv_gaps _ I ti x H) as (A1 & A2 & A3 & A4 & A5). pose proof (pow2_gt0 ti). simpl psize. lia.
  - (* aligned append: nothing is lost *)
    pose proof (last_off_none _ LO) as Ep.
    assert (Er' : removelast (firstn (6 - ti) (nth ti (gaps p) [])) = []) by (change (removelast popped = []); rewrite Ep; reflexivity).
    rewrite Er'. rewrite app_nil_r.
    assert (Esk : upd ti (skipn (6 - ti) stack) (gaps p) = gaps p).
    { assert (stack = [] \/ (6 - ti = 0)%nat) as [St| Z0].
      { unfold popped in Ep. destruct stack; auto. destruct (6 - ti)%nat; auto. discriminate. }
      - rewrite St. rewrite skipn_nil. rewrite <- St. apply upd_nth_same.
      - rewrite Z0. simpl. apply upd_nth_same. }
    rewrite Esk in E. simpl in E.
    destruct (align_up_diff_spec (psize p) s Ps) as (Hdiff & Hmod).
    set (diff := align_up_diff (psize p) s) in *.
    set (gs2 := if diff =? 0 then gaps p else add_gap (gaps p) (psize p) diff) in *.
    pose proof (inv_size _ I) as S0.
    assert (X : exists new, Permutation (concat gs2) (new ++ concat (gaps p)) /\
              Forall (fun g => psize p <= fst g /\ fst g + snd g <= psize p + diff) new /\ pairwise disj new /\ total new = diff).
    { unfold gs2. destruct (Z.eqb_spec diff 0).
      - exists []. simpl. repeat split; auto.
      - destruct (add_gap_spec (gaps p) (psize p) diff) as (new & A1 & A2 & A3 & A4 & A5 & _ & A7); auto; try lia.
        { apply (inv_lg _ I). }
        exists new. auto. }
    destruct X as (new & PG & FG & PWG & TN). rewrite Forall_forall in FG.
    injection E as Ep2 Er. subst p' r. simpl trees in *; simpl gaps in *; simpl psize in *.
    destruct R as (V & _ & [Eq|NS]).
    { exfalso. apply (f_equal psize) in Eq. simpl psize in Eq. lia. }
    destruct NS as (P & _).
    set (off := psize p + diff) in *.
    match type of P with Permutation (flat_map stored ?T) _ => set (ts2 := T) in * end.
    assert (PP : Permutation ((flat_map stored ts2 ++ concat gs2) ++ L) (((off, s) :: new) ++ (regions p ++ L))).
    { unfold regions. rewrite <- !app_assoc. simpl.
      etransitivity; [apply Permutation_app_tail; apply P|]. simpl. apply perm_skip.
      etransitivity; [apply Permutation_app_head; apply Permutation_app_tail; apply PG|].
      rewrite <- !app_assoc. apply Permutation_app_swap_app. }
    pose proof (pt_total _ _ PT) as TT. pose proof (pt_payload _ _ PT) as TP.
    pose proof (total_perm _ _ PP) as TE. pose proof (total_perm _ _ P) as TF.
    unfold regions in TE. rewrite !total_app in TE. simpl total in TE, TF. unfold payload, free_bytes in *.
    constructor.
    + change (total (flat_map stored ts2) + total (concat gs2) + total L = psize p + diff + s). lia.
    + change (psize p + diff + s <= 2 * total (flat_map stored ts2)). lia.
    + apply (pairwise_perm disj disj_sym _ _ (Permutation_sym PP)).
      apply pairwise_app. split; [|split; [apply (pt_disj _ _ PT)|]].
      * simpl. split; auto. apply Forall_forall. intros x Hx. destruct (FG x Hx). unfold disj; simpl. right. unfold off. lia.
      * intros x y Hx Hy. unfold disj. right.
        assert (fst y + snd y <= psize p).
        { apply in_app_or in Hy. destruct Hy as [Hy|Hy]; [destruct (RB y Hy)|destruct (LB y Hy)]; lia. }
        destruct Hx as [<-|Hx]; [simpl; unfold off; lia|]. destruct (FG x Hx). lia.
    + intros x Hx. simpl psize in Hx. apply (covered_perm x _ _ (Permutation_sym PP)).
      destruct (Z.lt_ge_cases x (psize p)).
      * destruct (pt_cover _ _ PT x ltac:(lia)) as (r0 & Hr & C). exists r0. split; auto. apply in_or_app. right; auto.
      * destruct (fresh_area_covered_thm p d s _ off x I Wf E0 ltac:(simpl; lia)) as [C|(i & g & Hg' & C)].
        -- exists (off, s). split; [left; auto|simpl; auto].
        -- simpl in Hg'. assert (In g (concat gs2)).
           { apply in_concat. exists (nth i gs2 []). split; auto. apply nth_In. eapply in_nth_lt; eauto. }
           apply (Permutation_in _ PG) in H0. apply in_app_or in H0. destruct H0 as [Hn|Ho].
           ++ exists g. split; auto. right. apply in_or_app. left; auto.
           ++ exists g. split; auto. right. apply in_or_app. right. unfold regions. apply in_or_app. left. apply in_or_app. right; auto.
    + apply Forall_forall. intros x Hx. destruct (LB x Hx). simpl psize. lia.
Qed.

Lemma part_run cmds : forall p L, Inv p -> Part p L -> wf_cmds cmds -> psize (fst (run p cmds)) <= 4294967296 ->
  Part (fst (run p cmds)) (L ++ lost_run p cmds).
Proof.
  induction cmds as [|(d, s) r IH]; intros p L I PT W G.
  - simpl. rewrite app_nil_r. exact PT.
  - inversion W as [|? ? W1 W2]; subst. simpl in W1.
    rewrite run_cons in G |- *. simpl fst in G |- *. simpl lost_run.
    destruct (cp_add p d s) as (p1, res) eqn:E. simpl fst in G |- *.
    pose proof (inv_size _ I) as S0.
    pose proof (cp_add_psize_mono p d s S0) as S1. rewrite E in S1. simpl in S1.
    pose proof (run_psize_mono r p1 ltac:(lia)) as S2.
    destruct (cp_add_step p d s p1 res I W1 E ltac:(lia)) as (I1 & _).
    pose proof (part_step p L d s p1 res I PT W1 E ltac:(lia)) as PT1.
    rewrite app_assoc. apply IH; auto.
Qed.

Lemma part_init : Part cp_init [].
Proof.
  constructor.
  - reflexivity.
  - simpl. unfold payload. simpl. lia.
  - simpl. exact I.
  - intros x Hx. simpl in Hx. lia.
  - constructor.
Qed.

(* every byte of the pool is accounted for, exactly once: it belongs to a stored constant, to a free gap, or to a gap the
   pop-several quirk has thrown away; when the quirk never fired nothing is lost *)
Theorem partition_thm cmds : wf_cmds cmds -> guard cmds ->
  let p := final cmds in
  pairwise disj (regions p ++ lost cmds) /\
  (forall x, 0 <= x < psize p -> exists r, In r (regions p ++ lost cmds) /\ fst r <= x < fst r + snd r) /\
  Forall (fun r => 0 <= fst r /\ fst r + snd r <= psize p) (lost cmds) /\
  (lost cmds = [] -> forall x, 0 <= x < psize p -> exists r, In r (regions p) /\ fst r <= x < fst r + snd r).
Proof.
  intros W G p.
  pose proof (part_run cmds cp_init [] init_inv part_init W G) as PT. simpl app in PT. fold (final cmds) in PT. fold p in PT.
  fold (lost cmds) in PT.
  split; [apply (pt_disj _ _ PT)|]. split; [apply (pt_cover _ _ PT)|].
  split; [eapply Forall_impl; [|apply (pt_bound _ _ PT)]; simpl; intros; lia|].
  intros E x Hx. destruct (pt_cover _ _ PT x Hx) as (r & Hr & C). rewrite E, app_nil_r in Hr. eauto.
Qed.

(* the quirk witness of DESIGN 7.12 in this vocabulary: exactly the gap (10, 2) is lost *)
Lemma lost_quirk_witness : lost ex_quirk = [(10, 2)].
Proof. vm_compute. reflexivity. Qed.

Lemma total_nonneg (l : list (Z * Z)) sz : Forall (fun r => 0 <= fst r /\ 0 < snd r /\ fst r + snd r <= sz) l -> 0 <= total l.
Proof. induction 1; simpl; lia. Qed.

(* the cost of the quirk: exact byte accounting and a bound on the pool size in terms of the payload.
   size() = bytes owned by constants + bytes in free gaps + bytes of lost gaps, so the bytes that can never be used again are
   EXACTLY the lost gaps; and size() <= 2 * payload whatever the history (padding + free + lost never exceed the payload) *)
Theorem quirk_cost_thm cmds : wf_cmds cmds -> guard cmds ->
  let p := final cmds in
  psize p = payload p + free_bytes p + total (lost cmds) /\
  psize p <= 2 * payload p /\
  free_bytes p + total (lost cmds) <= payload p /\
  0 <= total (lost cmds).
Proof.
  intros W G p.
  pose proof (part_run cmds cp_init [] init_inv part_init W G) as PT. simpl app in PT. fold (final cmds) in PT. fold p in PT.
  fold (lost cmds) in PT.
  pose proof (pt_total _ _ PT) as TT. pose proof (pt_payload _ _ PT) as TP.
  assert (0 <= total (lost cmds)).
  { eapply total_nonneg. apply (pt_bound _ _ PT). }
  repeat split; lia.
Qed.

(* the gap loop in every reachable state: it pops min(6 - ti, |stack|) gaps of the class stack and answers the offset of the
   last one; its "split the rest of the gap" branch (which would re-register the remainder at the gap's ORIGINAL offset) is
   never taken, because every gap on stack ti is exactly 2^ti bytes *)
Theorem gap_loop_reachable_thm cmds ti : wf_cmds cmds -> guard cmds -> (ti <= 6)%nat ->
  let p := final cmds in
  let stack := nth ti (gaps p) [] in
  gap_loop (6 - ti) ti (pow2 ti) (gaps p) None =
    (upd ti (skipn (6 - ti) stack) (gaps p), last_off (firstn (6 - ti) stack) None) /\
  (forall g, In g stack -> snd g = pow2 ti /\ fst g mod pow2 ti = 0).
Proof.
  intros W G L p stack.
  pose proof (sp_inv _ _ (final_spec cmds W G)) as I. fold (final cmds) in I. fold p in I.
  assert (H : forall g, In g (nth ti (gaps p) []) -> snd g = pow2 ti).
  { intros g Hg. destruct (inv_gaps _ I ti g Hg) as (A & _). auto. }
  split; [apply gap_loop_exact; auto|].
  intros g Hg. destruct (inv_gaps _ I ti g Hg) as (A & _ & C & _). auto.
Qed.

(* ---------------------------------------------------------------- non-vacuity of the hypotheses used above *)
Example partition_hypotheses_satisfiable :
  wf_cmds ex_quirk /\ guard ex_quirk /\ lost ex_quirk = [(10, 2)] /\
  psize (final ex_quirk) = 18 /\ payload (final ex_quirk) = 15 /\ free_bytes (final ex_quirk) = 1 /\ total (lost ex_quirk) = 2.
Proof.
  split; [apply wf_cmds_by_length; reflexivity|]. split; [unfold guard; vm_compute; discriminate|].
  repeat split; vm_compute; reflexivity.
Qed.

(* a state/command pair to which C19_fresh_area_covered applies with a non-empty fresh area: 1 byte, then 8 bytes *)
Example fresh_area_hypotheses_satisfiable :
  exists p d s p' off, Inv p /\ wf_cmd d s /\ cp_add p d s = (p', Ok off) /\ psize p < psize p' /\
    concat (gaps p') = [(1, 1); (2, 2); (4, 4)].
Proof.
  exists (fst (cp_add cp_init [9] 1)), [1; 2; 3; 4; 5; 6; 7; 8], 8.
  eexists. exists 8. split.
  - destruct (cp_add_step cp_init [9] 1 (fst (cp_add cp_init [9] 1)) (snd (cp_add cp_init [9] 1)) init_inv) as (I & _).
    + unfold wf_cmd; simpl; lia.
    + destruct (cp_add cp_init [9] 1); reflexivity.
    + vm_compute. discriminate.
    + exact I.
  - split; [unfold wf_cmd; simpl; lia|]. split; [vm_compute; reflexivity|]. split; vm_compute; reflexivity.
Qed.

(* the reachable-state hypotheses of C19_gap_loop_exact with a non-empty stack: before the last add of ex_quirk's prefix *)
Example gap_loop_hypotheses_satisfiable :
  let cmds := firstn 5 ex_quirk in
  wf_cmds cmds /\ guard cmds /\ nth 1 (gaps (final cmds)) [] = [(10, 2); (2, 2)] /\
  gap_loop (6 - 1) 1 2 (gaps (final cmds)) None = ([[(9, 1)]; []; []; []; []; []; []], Some 2).
Proof.
  split; [apply wf_cmds_by_length; reflexivity|]. split; [unfold guard; vm_compute; discriminate|].
  split; vm_compute; reflexivity.
Qed.

(* C19 <-> C18 (unbounded): the key-sorted node list that models each per-size tree of the constant pool is realised by C18's
   POINTER-LEVEL red-black tree (Containers/TreeModel.v: heap of nodes, iterative top-down insertion) for insertion sequences of
   ANY length: after inserting the same keys (bytes -> big-endian number) the heap represents a valid red-black tree whose in-order
   key sequence is exactly the list, whose lookup finds exactly the keys tree_get finds, and whose traversal (ConstPool::fill's
   for_each) visits the keys in the list's order. Uses C18's tree_insert_any_height (any fuel above 2*height+1). *)
From Coq Require Import ZArith List Bool Lia.
From Verif Require Import Containers.TreeModel Containers.TreeGeneral Containers.TreeRotate Containers.TreeInsertRefine.
From Verif Require Import Base.ZBits ConstPool.ConstPoolInv ConstPool.ConstPoolTreeBridge.
From Verif Require ConstPool.ConstPoolModel ConstPool.ConstPoolLists ConstPool.ConstPoolProofs.
Import ListNotations.
Local Open Scope Z_scope.

Module CP := ConstPool.ConstPoolModel.

Definition bek (n : CP.node) : Z := be (CP.n_key n).

(* insertion into a strictly sorted list of numbers, the way ConstPoolModel.tree_insert walks its list *)
Fixpoint zins (k : Z) (l : list Z) : list Z :=
  match l with [] => [k] | x :: r => if k <? x then k :: l else x :: zins k r end.

Lemma tree_insert_zins L n : forall t, key_ok L (CP.n_key n) -> Forall (fun m => key_ok L (CP.n_key m)) t ->
  map bek (CP.tree_insert n t) = zins (bek n) (map bek t).
Proof.
  induction t as [|m t IH]; intros (Ln & Bn) F; simpl; [reflexivity|].
  inversion F as [|? ? (Lm & Bm) F']; subst. unfold bek at 2 3.
  rewrite (key_lt_be (CP.n_key n) (CP.n_key m)) by (auto; congruence).
  destruct (be (CP.n_key n) <? be (CP.n_key m)); simpl; [reflexivity|].
  f_equal. apply IH; auto. split; auto.
Qed.

Lemma sortedb_cons a l : sortedb (a :: l) = true -> sortedb l = true /\ forall x, In x l -> a < x.
Proof.
  revert a; induction l as [|b l IH]; intros a H; [split; [reflexivity|intros x []]|].
  simpl in H. apply andb_prop in H. destruct H as (H1 & H2). apply Z.ltb_lt in H1.
  split; [exact H2|]. intros x [<-|Hx]; [auto|]. destruct (IH b H2) as (_ & A). specialize (A x Hx). lia.
Qed.

Lemma sortedb_app_r a b : sortedb (a ++ b) = true -> sortedb b = true.
Proof.
  induction a as [|x a IH]; intros H; [exact H|]. apply IH. apply (sortedb_cons x (a ++ b) H).
Qed.

Lemma zins_unique k : forall Lf Rr, sortedb (Lf ++ k :: Rr) = true -> zins k (Lf ++ Rr) = Lf ++ k :: Rr.
Proof.
  induction Lf as [|a Lf IH]; intros Rr S; simpl.
  - destruct Rr as [|x Rr]; [reflexivity|]. destruct (sortedb_cons k (x :: Rr) S) as (_ & A).
    assert (k < x) by (apply A; left; reflexivity). simpl. replace (k <? x) with true by (symmetry; apply Z.ltb_lt; lia). reflexivity.
  - simpl in S. destruct (sortedb_cons a (Lf ++ k :: Rr) S) as (S' & A).
    assert (a < k) by (apply A; apply in_or_app; right; left; reflexivity).
    replace (k <? a) with false by (symmetry; apply Z.ltb_ge; lia).
    f_equal. apply IH; auto.
Qed.

Lemma tree_get_found t k : CP.tree_get t k <> None <-> exists m, In m t /\ CP.n_key m = k.
Proof.
  split.
  - destruct (CP.tree_get t k) as [m|] eqn:G; [|congruence]. intros _. apply tree_get_some in G. exists m. tauto.
  - intros (m & Hm & Km) G. eapply tree_get_none; eauto.
Qed.

(* the list t is realised by the heap-level tree ct (abstract shape T); `next` = first unused node id *)
Record RBRel (L : nat) (t : list CP.node) (ct : tree) (T : btree) (next : Z) : Prop := {
  rb_rep : rep (heap ct) (root ct) T;
  rb_nodup : NoDup (bids T);
  rb_ids : forall i, In i (bids T) -> 1 < i < next;
  rb_next : 1 < next;
  rb_bbh : exists b, bbh T = Some b /\ Z.of_nat (bheight T) <= 2 * (b - 1);
  rb_black : bred T = false;
  rb_sorted : sortedb (bkeys T) = true;
  rb_keys : bkeys T = map bek t;
  rb_lookup : forall k, key_ok L k -> (lookup T (be k) <> 0 <-> CP.tree_get t k <> None)
}.

Lemma rbrel_empty L : RBRel L [] tree_empty BL 2.
Proof.
  constructor.
  - reflexivity.
  - constructor.
  - intros i [].
  - lia.
  - exists 1. split; [reflexivity|simpl; lia].
  - reflexivity.
  - reflexivity.
  - reflexivity.
  - intros k _. unfold CP.tree_get. simpl. tauto.
Qed.

Theorem rb_insert_step L t ct T next n fuel :
  RBRel L t ct T next -> key_ok L (CP.n_key n) -> Forall (fun m => key_ok L (CP.n_key m)) t ->
  CP.tree_get t (CP.n_key n) = None -> (2 * bheight T + 1 < fuel)%nat ->
  let ct' := tree_insert_f fuel ct next (bek n) in
  exists R, RBRel L (CP.tree_insert n t) ct' R (next + 1) /\
    (forall f', (bheight R < f')%nat ->
       map (fun x => fst (fst x)) (inorder f' (heap ct') (root ct')) = map bek (CP.tree_insert n t) /\
       (forall k, get_loop f' (heap ct') (root ct') k = lookup R k)) /\
    (forall i, ~ In i (bids T) -> i <> HEAD -> i <> next -> hget (heap ct') i = hget (heap ct) i).
Proof.
  intros Rel Kn Kt G Hf ct'.
  destruct Rel as [Hrep Hnd Hids Hnx (b & Hb & _) Hbl Hs Hk _].
  assert (Hnin : ~ In (bek n) (bkeys T)).
  { rewrite Hk. intros Hin. apply in_map_iff in Hin. destruct Hin as (m & Em & Hm).
    rewrite Forall_forall in Kt. destruct (Kt m Hm) as (Lm & Bm). destruct Kn as (Ln & Bn).
    apply (tree_get_none t (CP.n_key n) m G Hm). apply be_inj; auto. congruence. }
  destruct (tree_insert_any_height next (bek n) fuel ct T b Hrep Hnd
              ltac:(intros i Hi; specialize (Hids i Hi); lia) Hnx Hb Hbl Hs Hnin Hf)
    as (R & b' & HR & HbR & HbbR & HhR & HsR & (Lf & Rr & E1 & E2) & Hlk & Hrd & HndR & HidsR & Hframe).
  fold ct' in HR, Hrd, Hframe.
  assert (EK : bkeys R = map bek (CP.tree_insert n t)).
  { rewrite (tree_insert_zins L n t Kn Kt). rewrite <- Hk, E1, E2. symmetry. apply zins_unique. rewrite <- E2. exact HsR. }
  assert (LK : forall k, key_ok L k -> (lookup R (be k) <> 0 <-> CP.tree_get (CP.tree_insert n t) k <> None)).
  { intros k Kk. rewrite Hlk. rewrite tree_get_found. split.
    + intros [E|Hin].
      * exists n. split; [apply tree_insert_in; left; reflexivity|]. destruct Kk, Kn. apply be_inj; auto; congruence.
      * rewrite Hk in Hin. apply in_map_iff in Hin. destruct Hin as (m & Em & Hm). exists m.
        split; [apply tree_insert_in; right; exact Hm|]. rewrite Forall_forall in Kt. destruct (Kt m Hm), Kk. apply be_inj; auto; congruence.
    + intros (m & Hm & Km). apply tree_insert_in in Hm. destruct Hm as [->|Hm].
      * left. unfold bek. congruence.
      * right. rewrite Hk. apply in_map_iff. exists m. split; [unfold bek; congruence|exact Hm]. }
  exists R. split; [|split].
  - constructor; auto; try lia.
    + intros i Hi. destruct (proj1 (HidsR i) Hi) as [->|Hi']; [lia|]. specialize (Hids i Hi'). lia.
    + exists b'. auto.
  - intros f' Hf'. destruct (Hrd f' Hf') as (A & B). split; [|exact A].
    rewrite B. rewrite <- EK. clear. induction R; simpl; [reflexivity|]. rewrite map_app. simpl. congruence.
  - exact Hframe.
Qed.

(* ---- any insertion sequence *)
Fixpoint build (t : list CP.node) (ns : list CP.node) : list CP.node :=
  match ns with [] => t | n :: r => build (CP.tree_insert n t) r end.
Fixpoint ct_build (ct : tree) (next : Z) (ns : list CP.node) (fuels : list nat) : tree :=
  match ns, fuels with
  | n :: r, f :: fs => ct_build (tree_insert_f f ct next (bek n)) (next + 1) r fs
  | _, _ => ct
  end.

Theorem rb_insert_run L : forall ns t ct T next,
  RBRel L t ct T next -> Forall (fun m => key_ok L (CP.n_key m)) (t ++ ns) -> NoDup (map CP.n_key (t ++ ns)) ->
  exists fuels T', length fuels = length ns /\
    RBRel L (build t ns) (ct_build ct next ns fuels) T' (next + Z.of_nat (length ns)).
Proof.
  induction ns as [|n ns IH]; intros t ct T next Rel F ND.
  - exists [], T. simpl. split; [reflexivity|]. replace (next + 0) with next by lia. exact Rel.
  - apply Forall_app in F. destruct F as (Ft & Fn). inversion Fn as [|? ? Kn Fns]; subst.
    assert (G : CP.tree_get t (CP.n_key n) = None).
    { destruct (CP.tree_get t (CP.n_key n)) as [m|] eqn:G; auto. exfalso. apply tree_get_some in G. destruct G as (Hm & Km).
      rewrite map_app in ND. simpl in ND. apply NoDup_remove_2 in ND. apply ND. apply in_or_app. left.
      rewrite <- Km. apply in_map. exact Hm. }
    destruct (rb_insert_step L t ct T next n (2 * bheight T + 2)%nat Rel Kn Ft G ltac:(lia)) as (R & Rel' & _).
    assert (F' : Forall (fun m => key_ok L (CP.n_key m)) (CP.tree_insert n t ++ ns)).
    { apply Forall_app. split; auto. apply Forall_forall. intros m Hm. apply tree_insert_in in Hm.
      destruct Hm as [->|Hm]; auto. rewrite Forall_forall in Ft. auto. }
    assert (ND' : NoDup (map CP.n_key (CP.tree_insert n t ++ ns))).
    { eapply Permutation.Permutation_NoDup; [|exact ND]. apply Permutation.Permutation_map.
      change (t ++ n :: ns) with (t ++ [n] ++ ns). rewrite app_assoc. apply Permutation.Permutation_app_tail.
      etransitivity; [apply Permutation.Permutation_app_comm|]. simpl. symmetry. apply tree_insert_perm. }
    destruct (IH _ _ _ _ Rel' F' ND') as (fs & T' & Lf & RelF).
    exists ((2 * bheight T + 2)%nat :: fs), T'. simpl. split; [lia|].
    replace (next + Z.pos (Pos.of_succ_nat (length ns))) with (next + 1 + Z.of_nat (length ns)) by lia. exact RelF.
Qed.

(* non-vacuity: three 2-byte keys inserted in descending order through the heap-level tree with fuel 200 (the executable
   tree_insert of C18): in-order keys and my list agree *)
Example rb_example :
  let n1 := CP.mkNode [2; 0] 0 false in let n2 := CP.mkNode [1; 0] 2 false in let n3 := CP.mkNode [0; 7] 4 false in
  let ct := ct_build tree_empty 2 [n1; n2; n3] [200; 200; 200]%nat in
  map bek (build [] [n1; n2; n3]) = [7; 256; 512] /\ tree_keys ct = [7; 256; 512] /\ rb_valid ct = true /\
  tree_get ct 256 = 3 /\ tree_get ct 300 = 0.
Proof. vm_compute. repeat split; reflexivity. Qed.

Lemma rb_example_full :
  (forall L, RBRel L [] tree_empty BL 2) /\
  (let n1 := CP.mkNode [2; 0] 0 false in let n2 := CP.mkNode [1; 0] 2 false in let n3 := CP.mkNode [0; 7] 4 false in
   let ct := ct_build tree_empty 2 [n1; n2; n3] [200; 200; 200]%nat in
   map bek (build [] [n1; n2; n3]) = [7; 256; 512] /\ tree_keys ct = [7; 256; 512] /\ rb_valid ct = true /\
   tree_get ct 256 = 3 /\ tree_get ct 300 = 0).
Proof. split; [exact rbrel_empty|exact rb_example]. Qed.

(* ---------------------------------------------------------------- the fixed fuel 200 of C18's executable tree_insert is enough for every pool within the guard *)
Lemma bbh_count T : forall b, bbh T = Some b -> 2 ^ (b - 1) <= Z.of_nat (length (bkeys T)) + 1 /\ 1 <= b.
Proof.
  induction T as [|l IHl id red k r IHr]; intros b H; simpl in H.
  - inversion H; subst. simpl. lia.
  - destruct (bbh l) as [a|] eqn:El; [|discriminate]. destruct (bbh r) as [c|] eqn:Er; [|discriminate].
    destruct (a =? c) eqn:Eac; simpl in H; [|discriminate]. apply Z.eqb_eq in Eac. subst c.
    destruct (red && (bred l || bred r)); [discriminate|].
    destruct (IHl a eq_refl) as (Cl & La). destruct (IHr a eq_refl) as (Cr & _).
    simpl bkeys. rewrite app_length. simpl length.
    assert (P : 2 ^ a = 2 * 2 ^ (a - 1)) by (rewrite <- Z.pow_succ_r by lia; f_equal; lia).
    destruct red; inversion H; subst b.
    + split; [|lia]. lia.
    + split; [|lia]. replace (a + 1 - 1) with a by lia. lia.
Qed.

Lemma map_nodup_on {A B} (f : A -> B) (l : list A) :
  NoDup l -> (forall a b, In a l -> In b l -> f a = f b -> a = b) -> NoDup (map f l).
Proof.
  induction l as [|x l IH]; intros N Inj; simpl; constructor.
  - inversion N; subst. intros Hin. apply in_map_iff in Hin. destruct Hin as (y & E & Hy).
    assert (y = x) by (apply Inj; simpl; auto). subst y. contradiction.
  - inversion N; subst. apply IH; auto. intros a b Ha Hb. apply Inj; simpl; auto.
Qed.

(* pigeonhole stated over Z (no unary numbers anywhere): a duplicate-free list of integers in [0, n) has at most n elements *)
Lemma nodup_range_length (n : Z) : 0 <= n -> forall l : list Z, NoDup l -> (forall x, In x l -> 0 <= x < n) -> Z.of_nat (length l) <= n.
Proof.
  intros Hn. pattern n. apply natlike_ind; [| |exact Hn]; clear n Hn.
  - intros l N B. destruct l as [|x l]; [simpl; lia|]. specialize (B x (or_introl eq_refl)). lia.
  - intros n Hn IH l N B.
    destruct (in_dec Z.eq_dec n l) as [Hin|Hnin].
    + destruct (in_split _ _ Hin) as (l1 & l2 & ->).
      pose proof (NoDup_remove_1 _ _ _ N) as N'. pose proof (NoDup_remove_2 _ _ _ N) as Nn.
      assert (Z.of_nat (length (l1 ++ l2)) <= n).
      { apply IH; auto. intros x Hx.
        assert (In x (l1 ++ n :: l2)) by (apply in_app_or in Hx; apply in_or_app; simpl; tauto).
        specialize (B x H). assert (x <> n) by (intros ->; contradiction). lia. }
      rewrite app_length in *. simpl length. lia.
    + assert (Z.of_nat (length l) <= n); [|lia]. apply IH; auto. intros x Hx. specialize (B x Hx).
      assert (x <> n) by (intros ->; contradiction). lia.
Qed.

(* a per-size tree of a pool of at most 2^32 bytes has at most 2^32 nodes: nodes of one tree sit at distinct offsets *)
Lemma tree_node_count p i : Inv p -> CP.psize p <= 4294967296 ->
  Z.of_nat (length (nth i (CP.trees p) [])) <= 4294967296.
Proof.
  intros I G. set (t := nth i (CP.trees p) []).
  pose proof (t_keys _ _ (inv_trees _ I) i) as NK. fold t in NK.
  assert (Nt : NoDup t) by (eapply NoDup_map_inv; eauto).
  assert (No : NoDup (map CP.n_off t)).
  { apply map_nodup_on; auto. intros a b Ha Hb E.
    eapply ConstPoolLists.NoDup_map_inj; eauto.
    rewrite <- (ConstPoolProofs.cp_fill_node p i a I Ha), <- (ConstPoolProofs.cp_fill_node p i b I Hb). congruence. }
  assert (Len : Z.of_nat (length (map CP.n_off t)) <= 4294967296).
  { apply nodup_range_length; [lia|auto|]. intros o Ho. apply in_map_iff in Ho. destruct Ho as (m & <- & Hm).
    destruct (t_nodes _ _ (inv_trees _ I) i m Hm) as (_ & A & _ & B). pose proof (pow2_gt0 i). lia. }
  rewrite map_length in Len. exact Len.
Qed.

Theorem rb_insert_fuel200 p i ct T next n :
  Inv p -> CP.psize p <= 4294967296 ->
  let t := nth i (CP.trees p) [] in let L := Z.to_nat (CP.pow2 i) in
  RBRel L t ct T next -> key_ok L (CP.n_key n) -> Forall (fun m => key_ok L (CP.n_key m)) t ->
  CP.tree_get t (CP.n_key n) = None ->
  exists R, RBRel L (CP.tree_insert n t) (tree_insert ct next (bek n)) R (next + 1) /\
    tree_keys (tree_insert ct next (bek n)) = map bek (CP.tree_insert n t) /\
    (forall k, tree_get (tree_insert ct next (bek n)) k = lookup R k).
Proof.
  intros I G t L Rel Kn Kt Gn.
  assert (H200 : (2 * bheight T + 1 < 200)%nat).
  { destruct (rb_bbh _ _ _ _ _ Rel) as (b & Hb & Hh). destruct (bbh_count T b Hb) as (C & B1).
    rewrite (rb_keys _ _ _ _ _ Rel), map_length in C.
    pose proof (tree_node_count p i I G) as N. fold t in N.
    assert (b <= 34).
    { destruct (Z.le_gt_cases b 34); auto. exfalso.
      assert (2 ^ 34 <= 2 ^ (b - 1)) by (apply Z.pow_le_mono_r; lia). change (2 ^ 34) with 17179869184 in H0. lia. }
    lia. }
  destruct (rb_insert_step L t ct T next n 200 Rel Kn Kt Gn H200) as (R & Rel' & Rd & _).
  change (tree_insert_f 200 ct next (bek n)) with (tree_insert ct next (bek n)) in *.
  exists R. split; [exact Rel'|].
  destruct (rb_bbh _ _ _ _ _ Rel') as (b' & Hb' & Hh'). destruct (bbh_count R b' Hb') as (C' & B1').
  assert (HR : (bheight R < 200)%nat).
  { rewrite (rb_keys _ _ _ _ _ Rel'), map_length in C'.
    assert (Z.of_nat (length (CP.tree_insert n t)) <= 4294967297).
    { rewrite (Permutation.Permutation_length (tree_insert_perm n t)). simpl length.
      pose proof (tree_node_count p i I G) as N. fold t in N. lia. }
    assert (b' <= 34).
    { destruct (Z.le_gt_cases b' 34); auto. exfalso.
      assert (2 ^ 34 <= 2 ^ (b' - 1)) by (apply Z.pow_le_mono_r; lia). change (2 ^ 34) with 17179869184 in H1. lia. }
    lia. }
  destruct (Rd 200%nat HR) as (A & B). split; [exact A|]. intros k. apply B.
Qed.

(* C19 — sub-constant sharing is complete: every aligned part of >= 4 bytes (sizes 4 .. size/2) of every byte-owning constant is
   registered as a node, so adding such a part later never allocates storage and leaves the pool untouched. *)
From Coq Require Import ZArith List Bool Lia Permutation.
From Verif Require Import Base.ZBits ConstPool.ConstPoolModel ConstPool.ConstPoolSpec ConstPool.ConstPoolLists ConstPool.ConstPoolInv
  ConstPool.ConstPoolProofs.
Import ListNotations.
Local Open Scope Z_scope.

(* every non-shared node of tree j has, for each level 2 <= i < j and each k < 2^(j-i), a node of tree i holding its k-th part *)
Definition SubInv (ts : list (list node)) : Prop :=
  forall j m, In m (nth j ts []) -> n_shared m = false ->
  forall i, (2 <= i < j)%nat -> forall k, 0 <= k -> (k + 1) * pow2 i <= pow2 j ->
  exists n, In n (nth i ts []) /\ n_key n = slice (n_key m) (k * pow2 i) (pow2 i).

Lemma share_one_mono ti ss data off ts i j n :
  In n (nth j ts []) -> In n (nth j (share_one ti ss data off ts i) []).
Proof.
  intros H. unfold share_one. destruct (tree_get (nth ti ts []) _); auto.
  destruct (Nat.eq_dec j ti) as [->|Ne].
  - pose proof (in_nth_lt _ _ _ H). rewrite nth_upd_eq by auto. apply tree_insert_in. right; auto.
  - rewrite nth_upd_neq by auto. auto.
Qed.

Lemma share_one_new_shared ti ss data off ts i j n :
  In n (nth j (share_one ti ss data off ts i) []) -> In n (nth j ts []) \/ n_shared n = true.
Proof.
  unfold share_one. destruct (tree_get (nth ti ts []) _); auto.
  intros H. apply in_nth_upd in H. destruct H as [(-> & H)|(_ & H)]; auto.
  apply tree_insert_in in H. destruct H as [->|H]; auto.
Qed.

Lemma share_one_has ti ss data off ts i : (ti < length ts)%nat ->
  exists n, In n (nth ti (share_one ti ss data off ts i) []) /\ n_key n = slice data (Z.of_nat i * ss) ss.
Proof.
  intros L. unfold share_one. destruct (tree_get (nth ti ts []) _) as [n|] eqn:G.
  - apply tree_get_some in G. exists n. auto.
  - eexists. split; [rewrite nth_upd_eq by auto; apply tree_insert_in; left; reflexivity|reflexivity].
Qed.

Lemma share_one_length ti ss data off ts i : length (share_one ti ss data off ts i) = length ts.
Proof. unfold share_one. destruct (tree_get _ _); auto. apply upd_length. Qed.

Lemma share_row_facts ti ss data off : forall (is : list nat) ts,
  length (fold_left (share_one ti ss data off) is ts) = length ts /\
  (forall j n, In n (nth j ts []) -> In n (nth j (fold_left (share_one ti ss data off) is ts) [])) /\
  (forall j n, In n (nth j (fold_left (share_one ti ss data off) is ts) []) -> In n (nth j ts []) \/ n_shared n = true) /\
  ((ti < length ts)%nat -> forall i, In i is ->
     exists n, In n (nth ti (fold_left (share_one ti ss data off) is ts) []) /\ n_key n = slice data (Z.of_nat i * ss) ss).
Proof.
  induction is as [|a is IH]; intros ts; simpl.
  - repeat split; auto. intros _ i [].
  - destruct (IH (share_one ti ss data off ts a)) as (L & Mo & Ns & Has).
    rewrite share_one_length in L. split; [auto|]. split; [|split].
    + intros j n H. apply Mo. apply share_one_mono; auto.
    + intros j n H. destruct (Ns j n H) as [H'|]; auto. apply share_one_new_shared in H'. auto.
    + intros Lt i [<-|Hi].
      * destruct (share_one_has ti ss data off ts a Lt) as (n & Hn & Kn). exists n. split; auto.
      * apply Has; auto. rewrite share_one_length; auto.
Qed.

(* the whole sharing loop: monotone, only adds shared nodes, and registers every part of every level below ti *)
Lemma share_loop_facts fuel : forall ts ti ss pc data off size,
  ss = pow2 ti -> Z.of_nat pc * ss = size -> (ti <= fuel + 2)%nat -> (ti <= 6)%nat -> length ts = 7%nat ->
  let ts' := share_loop fuel ts ti ss pc data off in
  length ts' = 7%nat /\
  (forall j n, In n (nth j ts []) -> In n (nth j ts' [])) /\
  (forall j n, In n (nth j ts' []) -> In n (nth j ts []) \/ n_shared n = true) /\
  (forall i, (2 <= i < ti)%nat -> forall k, 0 <= k -> (k + 1) * pow2 i <= size ->
     exists n, In n (nth i ts' []) /\ n_key n = slice data (k * pow2 i) (pow2 i)).
Proof.
  induction fuel; intros ts ti ss pc data off size E Hpc Lf L6 Len; simpl.
  - repeat split; auto. intros i Hi. lia.
  - destruct (Z.ltb_spec 4 ss).
    + assert (3 <= ti)%nat.
      { destruct (Nat.le_gt_cases 3 ti); auto. pose proof (pow2_mono ti 2 ltac:(lia)) as X. change (pow2 2) with 4 in X. lia. }
      assert (E' : ss / 2 = pow2 (pred ti)).
      { rewrite E, (pow2_pred ti) by lia. rewrite Z.mul_comm. apply Z.div_mul. lia. }
      assert (E2 : ss = 2 * (ss / 2)) by (rewrite E', E; apply pow2_pred; lia).
      unfold share_row.
      destruct (share_row_facts (pred ti) (ss / 2) data off (seq 0 (2 * pc)) ts) as (L1 & Mo1 & Ns1 & Has1).
      set (ts1 := fold_left (share_one (pred ti) (ss / 2) data off) (seq 0 (2 * pc)) ts) in *.
      destruct (IHfuel ts1 (pred ti) (ss / 2) (2 * pc)%nat data off size E' ltac:(nia) ltac:(lia) ltac:(lia) ltac:(lia))
        as (L2 & Mo2 & Ns2 & Has2).
      split; [auto|]. split; [intros; apply Mo2; apply Mo1; auto|]. split.
      * intros j n Hn. destruct (Ns2 j n Hn) as [Hn'|]; auto.
      * intros i Hi k Hk Hks. destruct (Nat.eq_dec i (pred ti)) as [->|Ne].
        -- pose proof (pow2_gt0 (pred ti)) as Pp. rewrite <- E' in *.
           destruct (Has1 ltac:(lia) (Z.to_nat k)) as (n & Hn & Kn).
           { apply in_seq. nia. }
           exists n. split; [apply Mo2; auto|]. rewrite Kn. rewrite Z2Nat.id by lia. reflexivity.
        -- apply Has2; auto. lia.
    + repeat split; auto. intros i Hi.
      assert (ti <= 2)%nat.
      { destruct (Nat.le_gt_cases ti 2); auto. pose proof (pow2_mono 3 ti ltac:(lia)) as X. change (pow2 3) with 8 in X. lia. }
      lia.
Qed.

Lemma sub_new ts ti s d off M :
  SubInv ts -> length ts = 7%nat -> (ti <= 6)%nat -> s = pow2 ti -> n_key M = slice d 0 s -> n_shared M = false ->
  SubInv (share_loop 7 (upd ti (tree_insert M (nth ti ts [])) ts) ti s 1 d off).
Proof.
  intros S Len L6 Es KM SM.
  set (ts1 := upd ti (tree_insert M (nth ti ts [])) ts).
  assert (Len1 : length ts1 = 7%nat) by (unfold ts1; rewrite upd_length; auto).
  destruct (share_loop_facts 7 ts1 ti s 1 d off s Es ltac:(lia) ltac:(lia) L6 Len1) as (_ & Mo & Ns & Has).
  set (ts2 := share_loop 7 ts1 ti s 1 d off) in *.
  assert (Mo1 : forall j n, In n (nth j ts []) -> In n (nth j ts1 [])).
  { intros j n Hn. unfold ts1. destruct (Nat.eq_dec j ti) as [->|Ne].
    - rewrite nth_upd_eq by lia. apply tree_insert_in. right; auto.
    - rewrite nth_upd_neq by auto. auto. }
  intros j m Hm Sm i Hi k Hk Hks.
  destruct (Ns j m Hm) as [Hm1|X]; [|congruence].
  assert (Old : In m (nth j ts []) -> exists n, In n (nth i ts2 []) /\ n_key n = slice (n_key m) (k * pow2 i) (pow2 i)).
  { intros Hm0. destruct (S j m Hm0 Sm i Hi k Hk Hks) as (n & Hn & Kn). exists n. split; auto. }
  unfold ts1 in Hm1. apply in_nth_upd in Hm1. destruct Hm1 as [(-> & Hm1)|(_ & Hm1)]; auto.
  apply tree_insert_in in Hm1. destruct Hm1 as [->|Hm1]; auto.
  pose proof (pow2_gt0 i) as Pi.
  destruct (Has i Hi k Hk ltac:(rewrite Es; auto)) as (n & Hn & Kn).
  exists n. split; auto. rewrite Kn, KM. rewrite slice_slice by (rewrite ?Es; nia). f_equal.
Qed.

Lemma sub_step p d s p' r : Inv p -> SubInv (trees p) -> cp_add p d s = (p', r) -> SubInv (trees p').
Proof.
  intros I S E. unfold cp_add in E.
  destruct ((s <=? 0) || (64 <? s)) eqn:C1; [inversion E; subst; auto|].
  destruct (negb (pow2 (ctz s) =? s)) eqn:C2; [inversion E; subst; auto|].
  destruct (valid_size_inv s C1 C2) as (Lti & Es). symmetry in Es.
  destruct (tree_get _ _); [inversion E; subst; auto|].
  pose proof (t_len _ _ (inv_trees _ I)) as Len.
  destruct (gap_loop _ _ _ _ _) as (gs1, [o|]); simpl in E; inversion E; subst p' r; simpl trees; apply sub_new; auto.
Qed.

Lemma sub_run cmds : forall p, Inv p -> SubInv (trees p) -> wf_cmds cmds -> psize (fst (run p cmds)) <= 4294967296 ->
  SubInv (trees (fst (run p cmds))).
Proof.
  induction cmds as [|(d, s) r IH]; intros p I S W G; [exact S|].
  inversion W as [|? ? W1 W2]; subst. simpl in W1.
  rewrite run_cons in G |- *. simpl fst in G |- *.
  destruct (cp_add p d s) as (p1, res) eqn:E. simpl fst in G |- *.
  pose proof (inv_size _ I) as S0.
  pose proof (cp_add_psize_mono p d s S0) as S1. rewrite E in S1. simpl in S1.
  pose proof (run_psize_mono r p1 ltac:(lia)) as S2.
  destruct (cp_add_step p d s p1 res I W1 E ltac:(lia)) as (I1 & _).
  apply IH; auto. apply (sub_step p d s p1 res I S E).
Qed.

Lemma slice_whole l : slice l 0 (Z.of_nat (length l)) = l.
Proof. unfold slice. simpl. rewrite Nat2Z.id. apply firstn_all. Qed.

(* adding any aligned part of >= 4 bytes (sizes 4 .. size/2) of any byte-owning constant, as it stands in the image, allocates
   nothing: the pool is left untouched and the answer is an offset at which exactly these bytes stand *)
Theorem subconstants_shared_thm cmds : wf_cmds cmds -> guard cmds ->
  let p := final cmds in
  forall off s, In (off, s) (flat_map stored (trees p)) ->
  forall s' i, valid_size s' -> 4 <= s' < s -> 0 <= i -> (i + 1) * s' <= s ->
  exists o', cp_add p (slice (cp_fill p) (off + i * s') s') s' = (p, Ok o') /\
             slice (cp_fill p) o' s' = slice (cp_fill p) (off + i * s') s'.
Proof.
  intros W G p off s Hr s' i V Hs Hi His.
  pose proof (sp_inv _ _ (final_spec cmds W G)) as I. fold (final cmds) in I. fold p in I.
  assert (S : SubInv (trees p)).
  { apply (sub_run cmds cp_init init_inv); auto. intros j m Hm. rewrite init_trees_empty in Hm. destruct Hm. }
  apply in_flat_map in Hr. destruct Hr as (t & Ht & Hr).
  unfold stored in Hr. apply in_map_iff in Hr. destruct Hr as (m & Em & Hm). apply filter_In in Hm. destruct Hm as (Hm & Sm).
  destruct (in_nth_exists _ _ Ht) as (j & <-).
  unfold nonshared in Sm. apply negb_true_iff in Sm.
  destruct (t_nodes _ _ (inv_trees _ I) j m Hm) as (M1 & M2 & M3 & M4).
  unfold rng in Em. inversion Em; subst off s. clear Em.
  destruct (valid_size_checks s' V) as (C1 & C2). destruct (valid_size_inv s' C1 C2) as (L6 & Es').
  set (i' := ctz s') in *.
  assert (Hi' : (2 <= i' < j)%nat).
  { split.
    - destruct (Nat.le_gt_cases 2 i'); auto. pose proof (pow2_mono i' 1 ltac:(lia)) as X. change (pow2 1) with 2 in X. lia.
    - destruct (Nat.lt_ge_cases i' j); auto. pose proof (pow2_mono j i' ltac:(lia)). lia. }
  rewrite M1 in *.
  destruct (S j m Hm Sm i' Hi' i Hi ltac:(rewrite Es'; auto)) as (n & Hn & Kn). rewrite Es' in Kn.
  destruct (t_nodes _ _ (inv_trees _ I) i' n Hn) as (N1 & N2 & N3 & N4). rewrite Es' in N1.
  pose proof (cp_fill_node p j m I Hm) as FM.
  pose proof (cp_fill_node p i' n I Hn) as FN. rewrite Es' in FN.
  assert (ED : slice (cp_fill p) (n_off m + i * s') s' = n_key n).
  { rewrite Kn, <- FM. rewrite slice_slice by nia. reflexivity. }
  exists (n_off n). rewrite ED. split; [|exact FN].
  apply readd; auto. exists n. split; [exact Hn|]. split; auto.
  rewrite <- N1. symmetry. apply slice_whole.
Qed.

(* non-vacuity: a 16-byte constant; its third 4-byte part is added again *)
Example subconstants_example :
  let cmds := [([0; 1; 2; 3; 4; 5; 6; 7; 8; 9; 10; 11; 12; 13; 14; 15], 16)] in
  wf_cmds cmds /\ guard cmds /\ In (0, 16) (flat_map stored (trees (final cmds))) /\
  cp_add (final cmds) [8; 9; 10; 11] 4 = (final cmds, Ok 8).
Proof.
  split; [apply wf_cmds_by_length; reflexivity|]. split; [unfold guard; vm_compute; discriminate|].
  split; [vm_compute; auto|vm_compute; reflexivity].
Qed.

(* ---------------------------------------------------------------- the same for EVERY node, shared or not *)
Lemma sub_all_nodes p : Inv p -> SubInv (trees p) ->
  forall j m, In m (nth j (trees p) []) ->
  forall i, (2 <= i < j)%nat -> forall k, 0 <= k -> (k + 1) * pow2 i <= pow2 j ->
  exists n, In n (nth i (trees p) []) /\ n_key n = slice (n_key m) (k * pow2 i) (pow2 i).
Proof.
  intros I S j m Hm i Hi k Hk Hks.
  destruct (n_shared m) eqn:Sh; [|apply (S j m Hm Sh i Hi k Hk Hks)].
  pose proof (inv_trees _ I) as T.
  destruct (t_shared _ _ T j m Hm Sh) as (J & M & HM & ShM & O1 & O2 & EK).
  destruct (t_nodes _ _ T j m Hm) as (A1 & A2 & A3 & A4).
  destruct (t_nodes _ _ T J M HM) as (B1 & B2 & B3 & B4).
  pose proof (pow2_gt0 i) as Pi. pose proof (pow2_gt0 j) as Pj. pose proof (pow2_gt0 J) as PJ.
  assert (LJ : (j <= J)%nat) by (apply pow2_le_inv; lia).
  (* the distance between the two nodes is a multiple of 2^i *)
  set (dist := n_off m - n_off M) in *.
  assert (Dm : dist mod pow2 i = 0).
  { unfold dist. apply (mod_pow2_le _ i j) in A3; [|lia]. apply (mod_pow2_le _ i J) in B3; [|lia].
    rewrite Zminus_mod, A3, B3. reflexivity. }
  assert (Dq : dist = (dist / pow2 i) * pow2 i).
  { rewrite (Z.div_mod dist (pow2 i)) at 1 by lia. rewrite Dm. lia. }
  assert (0 <= dist / pow2 i) by (apply Z.div_pos; unfold dist; lia).
  destruct (S J M HM ShM i ltac:(lia) (dist / pow2 i + k) ltac:(lia)) as (n & Hn & Kn).
  { replace ((dist / pow2 i + k + 1) * pow2 i) with (dist + (k + 1) * pow2 i) by lia. unfold dist. lia. }
  exists n. split; auto. rewrite Kn, EK. fold dist.
  rewrite slice_slice by lia. f_equal. lia.
Qed.

(* observable form: after ANY history, for EVERY successful add(d, s) -- whether it received storage of its own, hit an
   identical constant or was itself served from a part of a wider one -- adding any aligned part of >= 4 bytes of d later
   allocates nothing and leaves the pool untouched *)
Theorem parts_of_added_shared_thm cmds k d s off : wf_cmds cmds -> guard cmds -> added cmds k d s off ->
  forall s' i, valid_size s' -> 4 <= s' < s -> 0 <= i -> (i + 1) * s' <= s ->
  exists o', cp_add (final cmds) (slice d (i * s') s') s' = (final cmds, Ok o') /\
             slice (cp_fill (final cmds)) o' s' = slice d (i * s') s'.
Proof.
  intros W G A s' i V Hs Hi His.
  pose proof (final_spec cmds W G) as Sp. pose proof (sp_inv _ _ Sp) as I. fold (final cmds) in I.
  set (p := final cmds) in *.
  assert (S : SubInv (trees p)).
  { apply (sub_run cmds cp_init init_inv); auto. intros j m Hm. rewrite init_trees_empty in Hm. destruct Hm. }
  destruct (sp_rec _ _ Sp k d s off A) as (Vs & m & Hm & Km & Om). fold (final cmds) in Hm. fold p in Hm.
  destruct (valid_size_checks s Vs) as (D1 & D2). destruct (valid_size_inv s D1 D2) as (_ & Es). set (j := ctz s) in *.
  destruct (valid_size_checks s' V) as (C1 & C2). destruct (valid_size_inv s' C1 C2) as (L6 & Es'). set (i' := ctz s') in *.
  assert (Hi' : (2 <= i' < j)%nat).
  { split.
    - destruct (Nat.le_gt_cases 2 i'); auto. pose proof (pow2_mono i' 1 ltac:(lia)) as X. change (pow2 1) with 2 in X. lia.
    - destruct (Nat.lt_ge_cases i' j); auto. pose proof (pow2_mono j i' ltac:(lia)). lia. }
  destruct (sub_all_nodes p I S j m Hm i' Hi' i Hi ltac:(rewrite Es, Es'; auto)) as (n & Hn & Kn). rewrite Es' in Kn.
  destruct (t_nodes _ _ (inv_trees _ I) i' n Hn) as (N1 & N2 & N3 & N4). rewrite Es' in N1.
  pose proof (cp_fill_node p i' n I Hn) as FN. rewrite Es' in FN.
  assert (ED : slice d (i * s') s' = n_key n).
  { rewrite Kn, Km. rewrite slice_slice by nia. f_equal. }
  exists (n_off n). rewrite ED. split; [|exact FN].
  apply readd; auto. exists n. split; [exact Hn|]. split; auto.
  rewrite <- N1. symmetry. apply slice_whole.
Qed.

(* non-vacuity: an 8-byte part of a 16-byte constant is added (served from the shared node), then ITS second half *)
Example parts_of_added_example :
  let w := [0; 1; 2; 3; 4; 5; 6; 7; 8; 9; 10; 11; 12; 13; 14; 15] in
  let cmds := [(w, 16); ([8; 9; 10; 11; 12; 13; 14; 15], 8)] in
  wf_cmds cmds /\ guard cmds /\ added cmds 1 [8; 9; 10; 11; 12; 13; 14; 15] 8 8 /\
  cp_add (final cmds) [12; 13; 14; 15] 4 = (final cmds, Ok 12).
Proof.
  split; [apply wf_cmds_by_length; reflexivity|]. split; [unfold guard; vm_compute; discriminate|].
  split; [split; vm_compute; reflexivity|vm_compute; reflexivity].
Qed.

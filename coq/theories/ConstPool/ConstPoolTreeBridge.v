(* C19 <-> C18: the per-size tree of the constant-pool model (a list of nodes sorted by memcmp order, ConstPoolModel.tree_insert /
   tree_get) IS the abstract set against which C18 checks the red-black tree ArenaTree (Containers/TreeProofs.v: `ts_ids`, a list
   of (key, id) kept by sorted_insert / lookup), under the encoding key bytes -> big-endian number (memcmp order of equal-length
   byte strings = numeric order), id := the node's offset.  General (unbounded) statements; C18's own theorem relating that
   abstract set to the pointer-level red-black tree (C18_tree_set_and_rb_small_scope) is a bounded one. *)
From Coq Require Import ZArith List Bool Lia.
From Verif Require Containers.TreeProofs.
From Verif Require Import Base.ZBits ConstPool.ConstPoolModel ConstPool.ConstPoolInv.
Import ListNotations.
Local Open Scope Z_scope.

Fixpoint be (k : list Z) : Z :=
  match k with [] => 0 | x :: r => x * 256 ^ Z.of_nat (length r) + be r end.

Definition bytes_ok (k : list Z) : Prop := Forall (fun b => 0 <= b < 256) k.

Lemma be_bound k : bytes_ok k -> 0 <= be k < 256 ^ Z.of_nat (length k).
Proof.
  induction 1; simpl length; simpl be.
  - simpl. lia.
  - rewrite Nat2Z.inj_succ, Z.pow_succ_r by lia.
    assert (0 < 256 ^ Z.of_nat (length l)) by (apply Z.pow_pos_nonneg; lia). nia.
Qed.

Lemma key_lt_be a : forall b, length a = length b -> bytes_ok a -> bytes_ok b -> key_lt a b = (be a <? be b).
Proof.
  induction a as [|x a IH]; intros [|y b] L Ha Hb; simpl in L; try lia.
  - reflexivity.
  - inversion Ha; inversion Hb; subst. injection L as L.
    pose proof (be_bound a H2). pose proof (be_bound b H6). rewrite L in *.
    assert (0 < 256 ^ Z.of_nat (length b)) by (apply Z.pow_pos_nonneg; lia).
    simpl key_lt. simpl be. rewrite L.
    destruct (Z.ltb_spec x y).
    + symmetry. apply Z.ltb_lt. nia.
    + destruct (Z.ltb_spec y x).
      * symmetry. apply Z.ltb_ge. nia.
      * assert (x = y) by lia. subst y. rewrite IH by auto.
        destruct (Z.ltb_spec (be a) (be b)); symmetry; [apply Z.ltb_lt|apply Z.ltb_ge]; lia.
Qed.

Lemma be_inj a : forall b, length a = length b -> bytes_ok a -> bytes_ok b -> be a = be b -> a = b.
Proof.
  induction a as [|x a IH]; intros [|y b] L Ha Hb E; simpl in L; try lia; auto.
  inversion Ha; inversion Hb; subst. injection L as L.
  pose proof (be_bound a H2). pose proof (be_bound b H6). rewrite L in *.
  assert (0 < 256 ^ Z.of_nat (length b)) by (apply Z.pow_pos_nonneg; lia).
  simpl in E. rewrite L in E.
  assert (x = y) by nia. subst y. f_equal. apply IH; auto. lia.
Qed.

Definition enc (n : node) : Z * Z := (be (n_key n), n_off n).
Definition key_ok (L : nat) (k : list Z) : Prop := length k = L /\ bytes_ok k.

Theorem tree_insert_is_sorted_insert L n : forall t,
  key_ok L (n_key n) -> Forall (fun m => key_ok L (n_key m)) t ->
  map enc (tree_insert n t) = TreeProofs.sorted_insert (map enc t) (be (n_key n)) (n_off n).
Proof.
  induction t as [|m t IH]; intros (Ln & Bn) F; simpl.
  - reflexivity.
  - inversion F as [|? ? (Lm & Bm) F']; subst.
    rewrite (key_lt_be (n_key n) (n_key m)) by (auto; congruence).
    destruct (be (n_key n) <? be (n_key m)); simpl.
    + reflexivity.
    + f_equal. apply IH; auto. split; auto.
Qed.

Theorem tree_get_is_lookup L k : forall t,
  key_ok L k -> Forall (fun m => key_ok L (n_key m)) t ->
  TreeProofs.lookup (map enc t) (be k) = option_map n_off (tree_get t k).
Proof.
  induction t as [|m t IH]; intros (Lk & Bk) F; simpl.
  - reflexivity.
  - inversion F as [|? ? (Lm & Bm) F']; subst. unfold tree_get in *. simpl.
    destruct (key_eqb k (n_key m)) eqn:E.
    + apply key_eqb_true in E. subst k. rewrite Z.eqb_refl. reflexivity.
    + destruct (Z.eqb_spec (be (n_key m)) (be k)) as [Eq|Ne].
      * exfalso. assert (X : n_key m = k) by (apply be_inj; auto; congruence).
        assert (key_eqb k (n_key m) = true) by (apply key_eqb_true; auto). congruence.
      * apply IH; auto. split; auto.
Qed.

Theorem tree_bridge_thm : forall L,
  (forall n t, key_ok L (n_key n) -> Forall (fun m => key_ok L (n_key m)) t ->
     map enc (tree_insert n t) = TreeProofs.sorted_insert (map enc t) (be (n_key n)) (n_off n)) /\
  (forall k t, key_ok L k -> Forall (fun m => key_ok L (n_key m)) t ->
     TreeProofs.lookup (map enc t) (be k) = option_map n_off (tree_get t k)) /\
  (forall a b, key_ok L a -> key_ok L b -> key_lt a b = (be a <? be b) /\ (be a = be b -> a = b)).
Proof.
  intros L. split; [|split].
  - intros. eapply tree_insert_is_sorted_insert; eauto.
  - intros. eapply tree_get_is_lookup; eauto.
  - intros a b (La & Ba) (Lb & Bb). split; [apply key_lt_be; auto; congruence|apply be_inj; auto; congruence].
Qed.

(* non-vacuity: three 4-byte keys inserted out of order; both sides give the same sorted association list *)
Example tree_bridge_example :
  let n1 := mkNode [0; 0; 1; 0] 0 false in let n2 := mkNode [0; 0; 0; 255] 4 false in let n3 := mkNode [0; 0; 0; 7] 8 true in
  key_ok 4 (n_key n1) /\ Forall (fun m => key_ok 4 (n_key m)) [n2; n3] /\
  map enc (tree_insert n1 (tree_insert n2 (tree_insert n3 []))) = [(7, 8); (255, 4); (256, 0)] /\
  TreeProofs.sorted_insert (TreeProofs.sorted_insert (TreeProofs.sorted_insert [] 7 8) 255 4) 256 0 = [(7, 8); (255, 4); (256, 0)].
Proof.
  simpl. unfold key_ok, bytes_ok. repeat split; try reflexivity; repeat constructor; simpl; lia.
Qed.

(* C19 — executable Gallina model of asmjit::ConstPool (asmjit/core/constpool.{h,cpp}).  No proofs here.

   What is mirrored, statement by statement:
     ConstPool::reset            -> init
     ConstPool_addGap            -> add_gap (the if-chain is gap_class; the while loop is fuelled by the byte count)
     ConstPool::add              -> add     (size checks with ctz; lookup; the gap loop INCLUDING its quirk: it inspects
                                             _gaps[tree_index] on every iteration, never breaks and therefore pops up to
                                             6-tree_index gaps and uses the last one; the "split the rest of the gap"
                                             branch with its original arguments; aligned append; node insertion with the
                                             uint32_t truncation of Node::_offset; shared sub-constants >= 4 bytes;
                                             _alignment / _min_item_size updates)
     ConstPool::fill             -> fill    (memset 0, trees in index order, nodes in key (memcmp) order, shared skipped)
     size()/alignment()/min_item_size() -> psize / palign / pmin
   Abstractions (stated in design/C19.md): the red-black tree of each size class is a list sorted by memcmp order
   (set semantics of the tree is C18's subject); the Gap free list (_gap_pool) and the arena are not modelled, i.e.
   every allocation succeeds (allocation failure is C15's subject); size_t arithmetic is unbounded Z (the theorems carry
   the guard psize <= 2^32 under which neither size_t nor the uint32_t node offset can wrap). *)
From Coq Require Import ZArith List Bool.
Import ListNotations.
Local Open Scope Z_scope.

Record node := mkNode { n_key : list Z; n_off : Z; n_shared : bool }.
Definition gap := (Z * Z)%type.   (* (offset, size) *)

Record pool := mkPool {
  trees : list (list node);   (* _tree[0..6], each sorted by key *)
  gaps : list (list gap);     (* _gaps[0..6], stacks (head = most recently pushed) *)
  psize : Z;                  (* _size *)
  palign : Z;                 (* _alignment *)
  pmin : Z                    (* _min_item_size *)
}.

Inductive result := Ok (off : Z) | InvalidArgument.

Definition cp_init : pool := mkPool (repeat [] 7) (repeat [] 7) 0 0 0.

(* ---- small list helpers *)
Fixpoint upd {A} (i : nat) (v : A) (l : list A) : list A :=
  match l, i with
  | [], _ => []
  | _ :: r, O => v :: r
  | x :: r, S j => x :: upd j v r
  end.

Definition slice (data : list Z) (start len : Z) : list Z :=
  firstn (Z.to_nat len) (skipn (Z.to_nat start) data).

(* ---- Support::ctz on a non-zero size *)
Fixpoint ctz_pos (p : positive) : nat :=
  match p with xO q => S (ctz_pos q) | _ => O end.
Definition ctz (z : Z) : nat := match z with Zpos p => ctz_pos p | _ => O end.

Definition pow2 (i : nat) : Z := 2 ^ Z.of_nat i.

(* ---- per-size tree: list sorted by memcmp order (unsigned bytes, lexicographic) *)
Fixpoint key_lt (a b : list Z) : bool :=
  match a, b with
  | x :: a', y :: b' => if x <? y then true else if y <? x then false else key_lt a' b'
  | [], _ :: _ => true
  | _, _ => false
  end.

Definition key_eqb (a b : list Z) : bool := if list_eq_dec Z.eq_dec a b then true else false.

Definition tree_get (t : list node) (key : list Z) : option node :=
  find (fun n => key_eqb key (n_key n)) t.

Fixpoint tree_insert (n : node) (t : list node) : list node :=
  match t with
  | [] => [n]
  | m :: r => if key_lt (n_key n) (n_key m) then n :: t else m :: tree_insert n r
  end.

(* ---- ConstPool_addGap *)
Definition gap_class (off sz : Z) : nat * Z :=
  if (32 <=? sz) && (off mod 32 =? 0) then (5%nat, 32)
  else if (16 <=? sz) && (off mod 16 =? 0) then (4%nat, 16)
  else if (8 <=? sz) && (off mod 8 =? 0) then (3%nat, 8)
  else if (4 <=? sz) && (off mod 4 =? 0) then (2%nat, 4)
  else if (2 <=? sz) && (off mod 2 =? 0) then (1%nat, 2)
  else (0%nat, 1).

Fixpoint add_gap_f (fuel : nat) (gs : list (list gap)) (off sz : Z) : list (list gap) :=
  match fuel with
  | O => gs
  | S f =>
    if sz <=? 0 then gs else
    let '(gi, gsz) := gap_class off sz in
    add_gap_f f (upd gi ((off, gsz) :: nth gi gs []) gs) (off + gsz) (sz - gsz)
  end.
Definition add_gap (gs : list (list gap)) (off sz : Z) : list (list gap) := add_gap_f (Z.to_nat sz) gs off sz.

(* ---- the gap loop of ConstPool::add: `n` iterations (gap_index = tree_index .. kIndexCount-2), each one looking at
        _gaps[tree_index]; `acc` is the `offset` variable (None = ~size_t(0)) *)
Fixpoint gap_loop (n : nat) (ti : nat) (size : Z) (gs : list (list gap)) (acc : option Z) : list (list gap) * option Z :=
  match n with
  | O => (gs, acc)
  | S n' =>
    match nth ti gs [] with
    | [] => gap_loop n' ti size gs acc
    | (goff, gsz) :: rest =>
      let gs1 := upd ti rest gs in
      let gs2 := if 0 <? gsz - size then add_gap gs1 goff (gsz - size) else gs1 in
      gap_loop n' ti size gs2 (Some goff)
    end
  end.

(* ---- shared sub-constants *)
Definition trunc32 (z : Z) : Z := z mod 4294967296.

Definition share_one (ti : nat) (ss : Z) (data : list Z) (off : Z) (ts : list (list node)) (i : nat) : list (list node) :=
  let key := slice data (Z.of_nat i * ss) ss in
  match tree_get (nth ti ts []) key with
  | Some _ => ts
  | None => upd ti (tree_insert (mkNode key (trunc32 (off + Z.of_nat i * ss)) true) (nth ti ts [])) ts
  end.

Definition share_row (ti : nat) (ss : Z) (data : list Z) (off : Z) (pc : nat) (ts : list (list node)) : list (list node) :=
  fold_left (share_one ti ss data off) (seq 0 pc) ts.

Fixpoint share_loop (fuel : nat) (ts : list (list node)) (ti : nat) (ss : Z) (pc : nat) (data : list Z) (off : Z)
  : list (list node) :=
  match fuel with
  | O => ts
  | S f =>
    if 4 <? ss then
      let pc' := (2 * pc)%nat in
      let ss' := ss / 2 in
      let ti' := pred ti in
      share_loop f (share_row ti' ss' data off pc' ts) ti' ss' pc' data off
    else ts
  end.

Definition align_up_diff (base alignment : Z) : Z := (- base) mod alignment.

(* ---- ConstPool::add *)
Definition cp_add (p : pool) (data : list Z) (size : Z) : pool * result :=
  if (size <=? 0) || (64 <? size) then (p, InvalidArgument) else
  let ti := ctz size in
  if negb (pow2 ti =? size) then (p, InvalidArgument) else
  let key := slice data 0 size in
  match tree_get (nth ti (trees p) []) key with
  | Some n => (p, Ok (n_off n))
  | None =>
    let '(gs1, found) := gap_loop (6 - ti) ti size (gaps p) None in
    let '(gs2, off, sz2) :=
      match found with
      | Some o => (gs1, o, psize p)
      | None =>
        let diff := align_up_diff (psize p) size in
        ((if diff =? 0 then gs1 else add_gap gs1 (psize p) diff), psize p + diff, psize p + diff + size)
      end in
    let ts1 := upd ti (tree_insert (mkNode key (trunc32 off) false) (nth ti (trees p) [])) (trees p) in
    let ts2 := share_loop 7 ts1 ti size 1 data off in
    (mkPool ts2 gs2 sz2 (Z.max (palign p) size) (if pmin p =? 0 then size else Z.min (pmin p) size), Ok off)
  end.

(* ---- ConstPool::fill *)
Definition write_at (buf : list Z) (off : Z) (d : list Z) : list Z :=
  firstn (Z.to_nat off) buf ++ d ++ skipn (Z.to_nat off + length d) buf.

Definition fill_node (buf : list Z) (n : node) : list Z :=
  if n_shared n then buf else write_at buf (n_off n) (n_key n).

Definition cp_fill (p : pool) : list Z :=
  fold_left (fun buf t => fold_left fill_node t buf) (trees p) (repeat 0 (Z.to_nat (psize p))).

(* ---- BaseAssembler::embed_const_pool / BaseBuilder::embed_const_pool: align(kData, alignment()) [no-op for alignment <= 1],
        bind(label), then size() bytes written by fill(). `pre` = bytes already in the section. Returns (offset the label is
        bound to, section size afterwards); the bytes from the label on are cp_fill p. *)
Definition embed_layout (pre : Z) (p : pool) : Z * Z :=
  let lab := if palign p <=? 1 then pre else pre + align_up_diff pre (palign p) in
  (lab, lab + psize p).

(* ---- the logging branch of BaseAssembler::embed_const_pool: data_size_log2 = min(ctz(min_item_size()), 3); the image is logged
        as size() >> data_size_log2 items of 1 << data_size_log2 bytes. (item width, item count); nothing is logged for an
        empty pool *)
Definition log_layout (p : pool) : Z * Z :=
  if psize p =? 0 then (0, 0) else
  let w := pow2 (Nat.min (ctz (pmin p)) 3) in (w, psize p / w).

(* ---- BaseCompiler::_new_const: pool->add(data, size, Out(off)), then the operand BaseMem(..., from_size(uint32_t(size)),
        pool->label_id(), 0, int32_t(off)): (offset field, size field) of the memory operand; None when add refuses (the operand
        stays reset) *)
Definition wrap_i32 (z : Z) : Z := (z + 2147483648) mod 4294967296 - 2147483648.
Definition new_const_operand (p : pool) (data : list Z) (size : Z) : pool * option (Z * Z) :=
  let '(p', r) := cp_add p data size in
  match r with Ok off => (p', Some (wrap_i32 off, size)) | InvalidArgument => (p', None) end.

(* ---- the structural constants of constpool.{h,cpp} the model is built from, as data. tools/c19_params.py re-extracts the
        same record from /repo's source on every run (coq/gen/C19_Params.v proves the two equal); ConstPoolProofs.params_used
        proves that the model functions above really are the ones determined by these constants. *)
Record params := mkParams {
  par_index_count : nat;                 (* ConstPool::kIndexCount *)
  par_index_sizes : list (Z * nat);      (* enum Index: (bytes, index) for kIndex1 .. kIndex64 *)
  par_gap_chain : list (Z * Z * nat * Z);(* ConstPool_addGap if-chain: (size >=, offset aligned to, gap index, gap size), in order *)
  par_gap_else : nat * Z;                (* its final else branch *)
  par_share_above : Z;                   (* while (smaller_size > N): sub-constants are shared down to N bytes *)
  par_offset_bits : Z;                   (* width of Node::_offset *)
  par_loop_same_bucket : bool;           (* the gap loop reads _gaps[tree_index] (not _gaps[gap_index]) *)
  par_loop_breaks : bool;                (* the gap loop leaves after the first gap it finds *)
  par_fill_clears_all : bool;            (* fill() starts with memset(dst, 0, _size) *)
  par_fill_skips_shared : bool;          (* fill() copies only nodes with !_shared *)
  par_new_const_disp_bits : Z;           (* BaseCompiler::_new_const casts the offset to intN_t for the operand *)
  par_log_max_log2 : nat                 (* embed_const_pool logs items of min(ctz(min_item_size()), N) .. bytes *)
}.

Definition model_params : params :=
  mkParams 7 [(1, 0%nat); (2, 1%nat); (4, 2%nat); (8, 3%nat); (16, 4%nat); (32, 5%nat); (64, 6%nat)]
    [(32, 32, 5%nat, 32); (16, 16, 4%nat, 16); (8, 8, 3%nat, 8); (4, 4, 2%nat, 4); (2, 2, 1%nat, 2)] (0%nat, 1)
    4 32 true false true true 32 3.

(* the if-chain of ConstPool_addGap driven by data *)
Fixpoint gap_class_of (chain : list (Z * Z * nat * Z)) (els : nat * Z) (off sz : Z) : nat * Z :=
  match chain with
  | [] => els
  | (ge, al, gi, gsz) :: r => if (ge <=? sz) && (off mod al =? 0) then (gi, gsz) else gap_class_of r els off sz
  end.

(* ---- histories *)
Definition cmd := (list Z * Z)%type.   (* (data, size) *)

Fixpoint run (p : pool) (cmds : list cmd) : pool * list result :=
  match cmds with
  | [] => (p, [])
  | (d, s) :: r =>
    let '(p1, res) := cp_add p d s in
    let '(p2, rs) := run p1 r in
    (p2, res :: rs)
  end.

Definition final (cmds : list cmd) : pool := fst (run cp_init cmds).
Definition results (cmds : list cmd) : list result := snd (run cp_init cmds).

(* C19 — list lemmas used by the constant-pool proofs: upd/nth, pairwise-disjoint multisets, slices, write_at. *)
From Coq Require Import ZArith List Bool Lia Permutation.
From Verif Require Import ConstPool.ConstPoolModel ConstPool.ConstPoolSpec.
Import ListNotations.
Local Open Scope Z_scope.

(* ---------------------------------------------------------------- upd / nth *)
Lemma upd_length {A} i (v : A) l : length (upd i v l) = length l.
Proof. revert i; induction l; intros [|i]; simpl; auto. Qed.

Lemma nth_upd_eq {A} i (v : A) l d : (i < length l)%nat -> nth i (upd i v l) d = v.
Proof. revert i; induction l; intros [|i] H; simpl in *; try lia; auto. apply IHl; lia. Qed.

Lemma nth_upd_neq {A} i j (v : A) l d : i <> j -> nth i (upd j v l) d = nth i l d.
Proof. revert i j; induction l; intros [|i] [|j] H; simpl; auto; try congruence. Qed.

Lemma upd_split {A} i (v : A) l d : (i < length l)%nat ->
  exists a b, l = a ++ nth i l d :: b /\ upd i v l = a ++ v :: b /\ length a = i.
Proof.
  revert i; induction l; intros [|i] H; simpl in *; try lia.
  - exists [], l; auto.
  - destruct (IHl i ltac:(lia)) as (x & y & E1 & E2 & E3).
    exists (a :: x), y. simpl. rewrite E2. rewrite <- E1. auto.
Qed.

Lemma upd_nth_same {A} i (l : list A) d : upd i (nth i l d) l = l.
Proof. revert i; induction l; intros [|i]; simpl; auto. f_equal; auto. Qed.

Lemma upd_upd {A} i (v w : A) l : upd i v (upd i w l) = upd i v l.
Proof. revert i; induction l; intros [|i]; simpl; auto. f_equal; auto. Qed.

Lemma nth_nonempty_lt {A} i (l : list (list A)) x r : nth i l [] = x :: r -> (i < length l)%nat.
Proof.
  intros H. destruct (Nat.lt_ge_cases i (length l)); auto.
  rewrite nth_overflow in H by lia. discriminate.
Qed.

Lemma in_nth_lt {A} i (l : list (list A)) x : In x (nth i l []) -> (i < length l)%nat.
Proof.
  intros H. destruct (Nat.lt_ge_cases i (length l)); auto.
  rewrite nth_overflow in H by lia. destruct H.
Qed.

Lemma in_nth_upd {A} i j (v : list A) l x :
  In x (nth i (upd j v l) []) -> (i = j /\ In x v) \/ (i <> j /\ In x (nth i l [])).
Proof.
  intros H. destruct (Nat.eq_dec i j) as [->|N].
  - left. split; auto. pose proof (in_nth_lt _ _ _ H) as L. rewrite upd_length in L.
    rewrite nth_upd_eq in H; auto.
  - right. rewrite nth_upd_neq in H; auto.
Qed.

Lemma flat_map_upd_perm {A B} (f : list A -> list B) i v l :
  (i < length l)%nat -> Permutation (flat_map f (upd i v l) ++ f (nth i l [])) (f v ++ flat_map f l).
Proof.
  intros H. destruct (upd_split i v l [] H) as (a & b & E1 & E2 & _).
  rewrite E2. rewrite E1 at 2. rewrite !flat_map_app. simpl.
  set (X := flat_map f a). set (Y := flat_map f b). set (N := f (nth i l [])). set (V := f v).
  rewrite <- !app_assoc.
  etransitivity; [apply Permutation_app_swap_app|].
  apply Permutation_app_head. apply Permutation_app_head. apply Permutation_app_comm.
Qed.

Lemma concat_flat_map {A} (l : list (list A)) : concat l = flat_map (fun x => x) l.
Proof. induction l; simpl; congruence. Qed.

(* pushing one element on the i-th list *)
Lemma flat_map_push_perm {A B} (f : list A -> list B) i x l :
  (i < length l)%nat -> (forall t, Permutation (f (x :: t)) (f [x] ++ f t)) ->
  Permutation (flat_map f (upd i (x :: nth i l []) l)) (f [x] ++ flat_map f l).
Proof.
  intros H Hf. pose proof (flat_map_upd_perm f i (x :: nth i l []) l H) as P.
  rewrite (Hf (nth i l [])) in P.
  rewrite <- app_assoc in P.
  apply Permutation_app_inv_l with (l := f (nth i l [])).
  etransitivity; [apply Permutation_app_comm|].
  etransitivity; [apply P|].
  rewrite !app_assoc. apply Permutation_app_tail. apply Permutation_app_comm.
Qed.

(* ---------------------------------------------------------------- pairwise *)

Lemma disj_sym a b : disj a b -> disj b a.
Proof. unfold disj; tauto. Qed.


Lemma pairwise_app {A} (R : A -> A -> Prop) a b :
  pairwise R (a ++ b) <-> pairwise R a /\ pairwise R b /\ (forall x y, In x a -> In y b -> R x y).
Proof.
  induction a; simpl.
  - intuition.
  - rewrite Forall_app, IHa. rewrite !Forall_forall. split.
    + intros ((F1 & F2) & P1 & P2 & P3). repeat split; auto.
      intros x y [<-|Hx] Hy; auto.
    + intros ((F1 & P1) & P2 & P3). repeat split; auto.
Qed.

Lemma pairwise_perm {A} (R : A -> A -> Prop) (Rsym : forall x y, R x y -> R y x) l l' :
  Permutation l l' -> pairwise R l -> pairwise R l'.
Proof.
  induction 1; simpl; auto.
  - intros (F & P). split; auto. eapply Permutation_Forall; eauto.
  - intros (F1 & F2 & P). inversion F1; subst. repeat split; auto.
Qed.

Lemma pairwise_in {A} (R : A -> A -> Prop) (Rsym : forall x y, R x y -> R y x) l x y :
  pairwise R l -> In x l -> In y l -> x = y \/ R x y.
Proof.
  induction l; simpl; [tauto|].
  intros (F & P) [->|Hx] [->|Hy]; auto.
  - right. rewrite Forall_forall in F. auto.
  - right. rewrite Forall_forall in F. auto.
Qed.

(* two occurrences at different positions are related *)
Lemma pairwise_split {A} (R : A -> A -> Prop) a x b : pairwise R (a ++ x :: b) -> Forall (R x) b /\ (forall y, In y a -> R y x).
Proof.
  rewrite pairwise_app. simpl. intros (_ & (F & _) & H). split; [exact F|].
  intros y Hy. apply H; simpl; auto.
Qed.

(* ---------------------------------------------------------------- NoDup on a projection *)
Lemma NoDup_map_inj {A B} (f : A -> B) l a b : NoDup (map f l) -> In a l -> In b l -> f a = f b -> a = b.
Proof.
  induction l; simpl; [tauto|].
  intros ND Ha Hb E. inversion ND; subst. destruct Ha as [->|Ha], Hb as [->|Hb]; auto.
  - exfalso. apply H1. rewrite E. apply in_map; auto.
  - exfalso. apply H1. rewrite <- E. apply in_map; auto.
Qed.

(* ---------------------------------------------------------------- nth / firstn / skipn *)
Lemma nth_firstn_lt {A} (l : list A) n k d : (n < k)%nat -> nth n (firstn k l) d = nth n l d.
Proof.
  revert n k; induction l; intros n k H; destruct k; simpl; try lia; destruct n; auto.
  apply IHl; lia.
Qed.

Lemma nth_skipn_add {A} (l : list A) n k d : nth n (skipn k l) d = nth (k + n) l d.
Proof.
  revert l; induction k; intros l; simpl; auto.
  destruct l; simpl; auto. destruct n; auto.
Qed.

Lemma slice_length data start len :
  0 <= start -> 0 <= len -> start + len <= Z.of_nat (length data) -> Z.of_nat (length (slice data start len)) = len.
Proof.
  intros. unfold slice. rewrite firstn_length, skipn_length. lia.
Qed.

Lemma slice_nth data start len k d :
  0 <= start -> (Z.of_nat k < len) -> nth k (slice data start len) d = nth (Z.to_nat start + k) data d.
Proof.
  intros. unfold slice. rewrite nth_firstn_lt by lia. apply nth_skipn_add.
Qed.

Lemma skipn_skipn_add {A} (l : list A) a b : skipn b (skipn a l) = skipn (a + b) l.
Proof.
  revert l; induction a; intros l; simpl; auto.
  destruct l; simpl; auto. destruct b; auto.
Qed.

Lemma slice_slice data a la b lb :
  0 <= a -> 0 <= b -> 0 <= lb -> b + lb <= la -> slice (slice data a la) b lb = slice data (a + b) lb.
Proof.
  intros. unfold slice.
  rewrite skipn_firstn_comm. rewrite firstn_firstn.
  replace (Nat.min (Z.to_nat lb) (Z.to_nat la - Z.to_nat b)) with (Z.to_nat lb) by lia.
  f_equal. rewrite skipn_skipn_add. f_equal. lia.
Qed.

(* ---------------------------------------------------------------- write_at, pointwise *)
Lemma write_at_length buf off d :
  0 <= off -> off + Z.of_nat (length d) <= Z.of_nat (length buf) -> length (write_at buf off d) = length buf.
Proof.
  intros. unfold write_at. rewrite !app_length, firstn_length, skipn_length. lia.
Qed.

Lemma write_at_nth buf off d x dflt :
  0 <= off -> off + Z.of_nat (length d) <= Z.of_nat (length buf) ->
  nth x (write_at buf off d) dflt =
    if (Z.of_nat x <? off) then nth x buf dflt
    else if (Z.of_nat x <? off + Z.of_nat (length d)) then nth (x - Z.to_nat off) d dflt
    else nth x buf dflt.
Proof.
  intros. unfold write_at.
  destruct (Z.ltb_spec (Z.of_nat x) off).
  - rewrite app_nth1 by (rewrite firstn_length; lia). apply nth_firstn_lt; lia.
  - rewrite app_nth2 by (rewrite firstn_length; lia).
    rewrite firstn_length. replace (Nat.min (Z.to_nat off) (length buf)) with (Z.to_nat off) by lia.
    destruct (Z.ltb_spec (Z.of_nat x) (off + Z.of_nat (length d))).
    + rewrite app_nth1 by lia. reflexivity.
    + rewrite app_nth2 by lia. rewrite nth_skipn_add. f_equal. lia.
Qed.

Lemma fold_left_concat {A B} (f : A -> B -> A) (ls : list (list B)) a :
  fold_left (fun b t => fold_left f t b) ls a = fold_left f (concat ls) a.
Proof.
  revert a; induction ls; intros; simpl; auto. rewrite fold_left_app. auto.
Qed.

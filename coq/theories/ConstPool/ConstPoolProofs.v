(* C19 — the property theorems about the constant-pool model: byte image (cp_fill), histories (run), accessors. *)
From Coq Require Import ZArith List Bool Lia Permutation.
From Verif Require Import Base.ZBits ConstPool.ConstPoolModel ConstPool.ConstPoolSpec ConstPool.ConstPoolLists ConstPool.ConstPoolInv.
Import ListNotations.
Local Open Scope Z_scope.

(* ---------------------------------------------------------------- the byte image *)
Definition inb (ns : list node) (len : nat) : Prop :=
  forall n, In n ns -> n_shared n = false -> 0 <= n_off n /\ n_off n + Z.of_nat (length (n_key n)) <= Z.of_nat len.

Lemma fill_node_length buf n :
  (n_shared n = false -> 0 <= n_off n /\ n_off n + Z.of_nat (length (n_key n)) <= Z.of_nat (length buf)) ->
  length (fill_node buf n) = length buf.
Proof.
  intros H. unfold fill_node. destruct (n_shared n); auto. destruct (H eq_refl). apply write_at_length; auto.
Qed.

Lemma fill_nodes_length ns : forall buf, inb ns (length buf) -> length (fold_left fill_node ns buf) = length buf.
Proof.
  induction ns; intros buf H; simpl; auto.
  rewrite IHns.
  - apply fill_node_length. intros; apply H; simpl; auto.
  - rewrite fill_node_length by (intros; apply H; simpl; auto). intros n Hn. apply H. right; auto.
Qed.

Definition covers (n : node) (x : nat) : Prop := n_off n <= Z.of_nat x < n_off n + Z.of_nat (length (n_key n)).

Lemma fill_nodes_outside ns : forall buf x, inb ns (length buf) ->
  (forall n, In n ns -> n_shared n = false -> ~ covers n x) ->
  nth x (fold_left fill_node ns buf) 0 = nth x buf 0.
Proof.
  induction ns; intros buf x H N; simpl; auto.
  assert (L : length (fill_node buf a) = length buf) by (apply fill_node_length; intros; apply H; simpl; auto).
  rewrite IHns.
  - unfold fill_node. destruct (n_shared a) eqn:Sh; auto.
    destruct (H a (or_introl eq_refl) Sh) as (A & B).
    rewrite write_at_nth by auto.
    specialize (N a (or_introl eq_refl) Sh). unfold covers in N.
    destruct (Z.ltb_spec (Z.of_nat x) (n_off a)); auto.
    destruct (Z.ltb_spec (Z.of_nat x) (n_off a + Z.of_nat (length (n_key a)))); auto. lia.
  - rewrite L. intros n Hn. apply H. right; auto.
  - intros n Hn. apply N. right; auto.
Qed.

Lemma in_stored n t : In n t -> n_shared n = false -> In (rng n) (stored t).
Proof.
  intros H S. unfold stored. apply in_map. apply filter_In. split; auto. unfold nonshared. rewrite S. reflexivity.
Qed.

Lemma fill_nodes_inside ns : forall buf n x, inb ns (length buf) -> pairwise disj (stored ns) ->
  In n ns -> n_shared n = false -> covers n x ->
  nth x (fold_left fill_node ns buf) 0 = nth (x - Z.to_nat (n_off n)) (n_key n) 0.
Proof.
  induction ns; intros buf n x H PW Hn Sh C; simpl; [destruct Hn|].
  assert (L : length (fill_node buf a) = length buf) by (apply fill_node_length; intros; apply H; simpl; auto).
  assert (H' : inb ns (length (fill_node buf a))) by (rewrite L; intros m Hm; apply H; right; auto).
  rewrite stored_cons in PW. apply pairwise_app in PW. destruct PW as (_ & PW2 & PW3).
  destruct Hn as [->|Hn].
  - rewrite fill_nodes_outside; auto.
    + unfold fill_node. rewrite Sh. destruct (H n (or_introl eq_refl) Sh) as (A & B).
      rewrite write_at_nth by auto. unfold covers in C.
      destruct (Z.ltb_spec (Z.of_nat x) (n_off n)); [lia|].
      destruct (Z.ltb_spec (Z.of_nat x) (n_off n + Z.of_nat (length (n_key n)))); [auto|lia].
    + intros m Hm Shm Cm. rewrite Sh in PW3. simpl in PW3.
      specialize (PW3 (rng n) (rng m) (or_introl eq_refl) (in_stored _ _ Hm Shm)).
      unfold disj, rng, covers in *. simpl in *. lia.
  - apply IHns; auto.
Qed.

Lemma stored_app a b : stored (a ++ b) = stored a ++ stored b.
Proof. unfold stored. rewrite filter_app, map_app. reflexivity. Qed.

Lemma stored_concat ts : stored (concat ts) = flat_map stored ts.
Proof. induction ts; simpl; auto. rewrite stored_app. congruence. Qed.

Lemma cp_fill_flat p : cp_fill p = fold_left fill_node (concat (trees p)) (repeat 0 (Z.to_nat (psize p))).
Proof. unfold cp_fill. apply fold_left_concat. Qed.

Lemma in_concat_trees (ts : list (list node)) (n : node) : In n (concat ts) <-> exists i, In n (nth i ts []).
Proof.
  split.
  - intros H. apply in_concat in H. destruct H as (t & Ht & Hn). destruct (in_nth_exists _ _ Ht) as (i & <-). eauto.
  - intros (i & H). apply in_concat. exists (nth i ts []). split; auto. apply nth_In. eapply in_nth_lt; eauto.
Qed.

Lemma inv_inb p : Inv p -> inb (concat (trees p)) (Z.to_nat (psize p)).
Proof.
  intros I n Hn _. apply in_concat_trees in Hn. destruct Hn as (i & Hn).
  destruct (t_nodes _ _ (inv_trees _ I) i n Hn) as (A & B & C & D).
  pose proof (inv_size _ I). lia.
Qed.

Lemma cp_fill_length p : Inv p -> Z.of_nat (length (cp_fill p)) = psize p.
Proof.
  intros I. rewrite cp_fill_flat. rewrite fill_nodes_length.
  - rewrite repeat_length. pose proof (inv_size _ I). lia.
  - rewrite repeat_length. apply inv_inb; auto.
Qed.

Lemma inv_stored_pairwise p : Inv p -> pairwise disj (flat_map stored (trees p)).
Proof. intros I. pose proof (inv_disj _ I) as P. unfold regions in P. apply pairwise_app in P. tauto. Qed.

Lemma cp_fill_nonshared p i n x : Inv p -> In n (nth i (trees p) []) -> n_shared n = false -> covers n x ->
  nth x (cp_fill p) 0 = nth (x - Z.to_nat (n_off n)) (n_key n) 0.
Proof.
  intros I Hn Sh C. rewrite cp_fill_flat. apply fill_nodes_inside; auto.
  - rewrite repeat_length. apply inv_inb; auto.
  - rewrite stored_concat. apply inv_stored_pairwise; auto.
  - apply in_concat_trees; eauto.
Qed.

Lemma cp_fill_zero p x : Inv p ->
  (forall r, In r (flat_map stored (trees p)) -> ~ (fst r <= Z.of_nat x < fst r + snd r)) ->
  nth x (cp_fill p) 0 = 0.
Proof.
  intros I N. rewrite cp_fill_flat. rewrite fill_nodes_outside.
  - apply nth_repeat.
  - rewrite repeat_length. apply inv_inb; auto.
  - intros n Hn Sh C. apply (N (rng n)); [|exact C].
    rewrite <- stored_concat. apply in_stored; auto.
Qed.

(* every node (shared or not) reads back from the image *)
Lemma cp_fill_node p i n : Inv p -> In n (nth i (trees p) []) -> slice (cp_fill p) (n_off n) (pow2 i) = n_key n.
Proof.
  intros I Hn. pose proof (inv_trees _ I) as T.
  destruct (t_nodes _ _ T i n Hn) as (A & B & C & D).
  pose proof (pow2_gt0 i) as P.
  pose proof (cp_fill_length p I) as FL.
  assert (SL : Z.of_nat (length (slice (cp_fill p) (n_off n) (pow2 i))) = pow2 i) by (apply slice_length; lia).
  apply nth_ext with (d := 0) (d' := 0); [lia|].
  intros k Hk. rewrite slice_nth by lia.
  destruct (n_shared n) eqn:Sh.
  - destruct (t_shared _ _ T i n Hn Sh) as (j & m & Hm & Shm & O1 & O2 & EK).
    destruct (t_nodes _ _ T j m Hm) as (Am & Bm & Cm & Dm).
    rewrite (cp_fill_nonshared p j m) by (auto; unfold covers; lia).
    rewrite EK. rewrite slice_nth by lia. f_equal. lia.
  - rewrite (cp_fill_nonshared p i n) by (auto; unfold covers; lia). f_equal. lia.
Qed.

(* ---------------------------------------------------------------- accessors: alignment() and min_item_size() *)
Definition is_pow2z (z : Z) : Prop := z = 0 \/ exists k, (k <= 6)%nat /\ z = pow2 k.

Record Inv2 (p : pool) : Prop := {
  i2_al_ub : forall r, In r (flat_map stored (trees p)) -> snd r <= palign p;
  i2_mn_lb : forall r, In r (flat_map stored (trees p)) -> 0 < pmin p <= snd r;
  i2_al_pow : is_pow2z (palign p);
  i2_mn_pow : is_pow2z (pmin p);
  i2_empty : pmin p = 0 -> psize p = 0 /\ palign p = 0;
  i2_mn_div : pmin p <> 0 -> psize p mod pmin p = 0;
  i2_mn_att : pmin p <> 0 -> exists r, In r (flat_map stored (trees p)) /\ snd r = pmin p;
  i2_al_att : palign p <> 0 -> exists r, In r (flat_map stored (trees p)) /\ snd r = palign p
}.

Lemma pow2_le_inv i j : pow2 i <= pow2 j -> (i <= j)%nat.
Proof.
  intros H. destruct (Nat.le_gt_cases i j); auto.
  pose proof (pow2_mono (S j) i ltac:(lia)) as M. rewrite pow2_S in M. pose proof (pow2_gt0 j). lia.
Qed.

Lemma pow2z_div a b x : is_pow2z a -> is_pow2z b -> 0 < a <= b -> x mod b = 0 -> x mod a = 0.
Proof.
  intros [->|(i & _ & ->)] [->|(j & _ & ->)] L H; try lia.
  apply mod_pow2_le with (j := j); auto. apply pow2_le_inv. lia.
Qed.

Lemma is_pow2z_pos a : is_pow2z a -> a <> 0 -> 0 < a.
Proof. intros [->|(i & _ & ->)] H; [lia|apply pow2_gt0]. Qed.

Lemma valid_pow2 s : valid_size s -> exists k, (k <= 6)%nat /\ s = pow2 k.
Proof.
  intros V. destruct (valid_size_checks s V) as (A & B). destruct (valid_size_inv s A B). eauto.
Qed.

Lemma inv2_step p p' s off : Inv2 p -> valid_size s -> new_storage p p' s off -> Inv2 p'.
Proof.
  intros J V (P & EA & EM & Hend & Hps & Ho & Hal).
  assert (Ps : is_pow2z s) by (right; apply valid_pow2; auto).
  assert (s_pos : 0 < s) by (destruct V as [->|[->|[->|[->|[->|[->| ->]]]]]]; lia).
  pose proof (i2_mn_pow _ J) as MP. pose proof (i2_al_pow _ J) as AP.
  assert (InNew : In (off, s) (flat_map stored (trees p'))) by (apply (Permutation_in _ (Permutation_sym P)); left; auto).
  assert (InOld : forall r, In r (flat_map stored (trees p)) -> In r (flat_map stored (trees p')))
    by (intros r Hr; apply (Permutation_in _ (Permutation_sym P)); right; auto).
  assert (Cases : forall r, In r (flat_map stored (trees p')) -> r = (off, s) \/ In r (flat_map stored (trees p))).
  { intros r Hr. apply (Permutation_in _ P) in Hr. destruct Hr; auto. }
  assert (MN : 0 < pmin p' <= s /\ (pmin p <> 0 -> pmin p' <= pmin p) /\ is_pow2z (pmin p') /\
               (pmin p' = s \/ (pmin p' = pmin p /\ pmin p <> 0))).
  { rewrite EM. destruct (Z.eqb_spec (pmin p) 0).
    - repeat split; auto; lia.
    - pose proof (is_pow2z_pos _ MP n). destruct (Z.min_spec (pmin p) s) as [(A & ->)|(A & ->)]; repeat split; auto; lia. }
  destruct MN as (M1 & M2 & M3 & M4).
  constructor.
  - intros r Hr. rewrite EA. destruct (Cases r Hr) as [->|Old]; simpl; [lia|]. pose proof (i2_al_ub _ J r Old). lia.
  - intros r Hr. destruct (Cases r Hr) as [->|Old]; simpl; [lia|].
    pose proof (i2_mn_lb _ J r Old). specialize (M2 ltac:(lia)). lia.
  - rewrite EA. destruct (Z.max_spec (palign p) s) as [(_ & ->)|(_ & ->)]; auto.
  - exact M3.
  - intros Z0. lia.
  - intros _. destruct Hps as [E|E]; rewrite E.
    + destruct (Z.eq_dec (pmin p) 0) as [Z0|NZ].
      * destruct (i2_empty _ J Z0) as (-> & _). apply Z.mod_0_l. lia.
      * apply pow2z_div with (b := pmin p); auto. split; [lia|]. apply M2; auto. apply (i2_mn_div _ J); auto.
    + apply pow2z_div with (b := s); auto.
      replace (off + s) with (off + 1 * s) by lia. rewrite Z.mod_add by lia. auto.
  - intros _. destruct M4 as [E|(E & NZ)].
    + exists (off, s). split; auto.
    + destruct (i2_mn_att _ J NZ) as (r & Hr & Er). exists r. split; auto. congruence.
  - intros NZ. rewrite EA in *. destruct (Z.max_spec (palign p) s) as [(_ & E)|(_ & E)]; rewrite E in *.
    + exists (off, s). split; auto.
    + destruct (i2_al_att _ J NZ) as (r & Hr & Er). exists r. split; auto.
Qed.

(* ---------------------------------------------------------------- histories *)

Lemma run_cons p d s r :
  run p ((d, s) :: r) = (fst (run (fst (cp_add p d s)) r), snd (cp_add p d s) :: snd (run (fst (cp_add p d s)) r)).
Proof. simpl. destruct (cp_add p d s). simpl. destruct (run p0 r). reflexivity. Qed.

Lemma run_app a : forall p b,
  run p (a ++ b) = (fst (run (fst (run p a)) b), snd (run p a) ++ snd (run (fst (run p a)) b)).
Proof.
  induction a as [|(d, s) a IH]; intros p b.
  - simpl. destruct (run p b); reflexivity.
  - rewrite <- app_comm_cons. rewrite !run_cons. rewrite IH. simpl. reflexivity.
Qed.

Lemma cp_add_psize_mono p d s : 0 <= psize p -> psize p <= psize (fst (cp_add p d s)).
Proof.
  intros H. unfold cp_add.
  destruct ((s <=? 0) || (64 <? s)) eqn:C1; simpl; [lia|].
  destruct (negb (pow2 (ctz s) =? s)); simpl; [lia|].
  destruct (tree_get _ _); simpl; [lia|].
  destruct (gap_loop _ _ _ _ _) as (gs1, [o|]); simpl; [lia|].
  apply orb_false_iff in C1. destruct C1 as (A & _). apply Z.leb_gt in A.
  destruct (align_up_diff_spec (psize p) s A). lia.
Qed.

Lemma run_psize_mono cmds : forall p, 0 <= psize p -> psize p <= psize (fst (run p cmds)).
Proof.
  induction cmds as [|(d, s) r IH]; intros p H; [simpl; lia|].
  rewrite run_cons. simpl.
  pose proof (cp_add_psize_mono p d s H). specialize (IH (fst (cp_add p d s)) ltac:(lia)). lia.
Qed.

Lemma run_length cmds : forall p, length (snd (run p cmds)) = length cmds.
Proof. induction cmds as [|(d, s) r IH]; intros p; [reflexivity|]. rewrite run_cons. simpl. rewrite IH. reflexivity. Qed.

Definition added_from (p0 : pool) (cmds : list cmd) (k : nat) (d : list Z) (s off : Z) : Prop :=
  nth_error cmds k = Some (d, s) /\ nth_error (snd (run p0 cmds)) k = Some (Ok off).

Definition has_node (p : pool) (d : list Z) (s off : Z) : Prop :=
  exists n, In n (nth (ctz s) (trees p) []) /\ n_key n = slice d 0 s /\ n_off n = off.

Record Spec (p0 : pool) (cmds : list cmd) : Prop := {
  sp_inv : Inv (fst (run p0 cmds));
  sp_inv2 : Inv2 (fst (run p0 cmds));
  sp_size : psize p0 <= psize (fst (run p0 cmds));
  sp_mono : forall j n, In n (nth j (trees p0) []) -> In n (nth j (trees (fst (run p0 cmds))) []);
  sp_rec : forall k d s off, added_from p0 cmds k d s off -> valid_size s /\ has_node (fst (run p0 cmds)) d s off;
  sp_hist : forall r, In r (flat_map stored (trees (fst (run p0 cmds)))) ->
            In r (flat_map stored (trees p0)) \/ exists k d s off, added_from p0 cmds k d s off /\ r = (off, s);
  sp_err : forall k d s, nth_error cmds k = Some (d, s) ->
           (nth_error (snd (run p0 cmds)) k = Some InvalidArgument <-> ~ valid_size s)
}.

Lemma run_spec cmds : forall p0, Inv p0 -> Inv2 p0 -> wf_cmds cmds -> psize (fst (run p0 cmds)) <= 4294967296 -> Spec p0 cmds.
Proof.
  induction cmds as [|(d, s) r IH]; intros p0 I J W G.
  - simpl in *. constructor; simpl; auto; try lia.
    + intros k d s off (A & _). destruct k; discriminate.
    + intros k d s A. destruct k; discriminate.
  - inversion W as [|? ? W1 W2]; subst. simpl in W1.
    rewrite run_cons in G. simpl in G.
    destruct (cp_add p0 d s) as (p1, res) eqn:E. simpl in G.
    pose proof (inv_size _ I) as S0.
    pose proof (cp_add_psize_mono p0 d s S0) as S1. rewrite E in S1. simpl in S1.
    pose proof (run_psize_mono r p1 ltac:(lia)) as S2.
    destruct (cp_add_step p0 d s p1 res I W1 E ltac:(lia)) as (I1 & Sz1 & Mono1 & R).
    assert (J1 : Inv2 p1).
    { destruct res as [off|].
      - destruct R as (V & _ & [->|NS]); auto. eapply inv2_step; eauto.
      - destruct R as (_ & ->); auto. }
    specialize (IH p1 I1 J1 W2 G).
    assert (RC : run p0 ((d, s) :: r) = (fst (run p1 r), res :: snd (run p1 r))) by (rewrite run_cons, E; reflexivity).
    unfold cmd in *. constructor; rewrite RC; simpl.
    + apply (sp_inv _ _ IH).
    + apply (sp_inv2 _ _ IH).
    + pose proof (sp_size _ _ IH). lia.
    + intros j n Hn. apply (sp_mono _ _ IH). apply Mono1; auto.
    + intros k d' s' off (A & B). rewrite RC in B. simpl in B. destruct k as [|k]; simpl in A, B.
      * inversion A; subst d' s'. inversion B; subst res. destruct R as (V & (n & Hn & Kn & On) & _).
        split; auto. exists n. split; auto. apply (sp_mono _ _ IH); auto.
      * apply (sp_rec _ _ IH k). split; auto.
    + intros x Hx. destruct (sp_hist _ _ IH x Hx) as [Old|(k & d' & s' & off & (A & B) & Ex)].
      * destruct res as [off|].
        -- destruct R as (V & _ & [->|NS]); auto.
           destruct NS as (P & _). apply (Permutation_in _ P) in Old. destruct Old as [<-|Old]; auto.
           right. exists 0%nat, d, s, off. split; auto. split; [reflexivity|]. rewrite RC. reflexivity.
        -- destruct R as (_ & ->); auto.
      * right. exists (S k), d', s', off. split; auto. split; [exact A|]. rewrite RC. exact B.
    + intros k d' s' A. destruct k as [|k]; simpl in A |- *.
      * inversion A; subst d' s'. destruct res as [off|].
        -- destruct R as (V & _). split; [discriminate|tauto].
        -- destruct R as (NV & _). tauto.
      * apply (sp_err _ _ IH k d' s' A).
Qed.

(* ---------------------------------------------------------------- the empty pool *)
Lemma nth_repeat_nil {A} i n : nth i (repeat (@nil A) n) [] = [].
Proof. apply nth_repeat. Qed.

Lemma init_trees_empty i : nth i (trees cp_init) [] = [].
Proof. apply nth_repeat_nil. Qed.

Lemma init_stored : flat_map stored (trees cp_init) = [].
Proof. reflexivity. Qed.

Lemma init_inv : Inv cp_init.
Proof.
  assert (E : forall i, nth i (trees cp_init) [] = []) by (intros; apply nth_repeat_nil).
  assert (Eg : forall i, nth i (gaps cp_init) [] = []) by (intros; apply nth_repeat_nil).
  constructor.
  - constructor.
    + reflexivity.
    + intros i n H. rewrite E in H. destruct H.
    + intros i. rewrite E. constructor.
    + intros i n H. rewrite E in H. destruct H.
  - reflexivity.
  - simpl; lia.
  - intros i g H. rewrite Eg in H. destruct H.
  - simpl. exact I.
Qed.

Lemma init_inv2 : Inv2 cp_init.
Proof.
  constructor; simpl; try (intros r []); try (left; reflexivity); try (intros H; exfalso; apply H; reflexivity); auto.
Qed.

(* ---------------------------------------------------------------- statements about histories from the empty pool *)

Lemma final_spec cmds : wf_cmds cmds -> guard cmds -> Spec cp_init cmds.
Proof. intros W G. apply run_spec; auto. apply init_inv. apply init_inv2. Qed.

Lemma has_node_ok p d s off : Inv p -> valid_size s -> has_node p d s off ->
  0 <= off /\ off mod s = 0 /\ off + s <= psize p /\ slice (cp_fill p) off s = slice d 0 s.
Proof.
  intros I V (n & Hn & Kn & On).
  destruct (valid_size_checks s V) as (A & B). destruct (valid_size_inv s A B) as (L & E).
  destruct (t_nodes _ _ (inv_trees _ I) _ n Hn) as (N1 & N2 & N3 & N4).
  rewrite E in *. rewrite On in *. repeat split; auto.
  rewrite <- Kn, <- On. rewrite <- E. apply cp_fill_node; auto.
Qed.

Theorem aligned_thm cmds k d s off : wf_cmds cmds -> guard cmds -> added cmds k d s off ->
  valid_size s /\ 0 <= off /\ off mod s = 0.
Proof.
  intros W G A. pose proof (final_spec cmds W G) as S.
  destruct (sp_rec _ _ S k d s off A) as (V & HN).
  destruct (has_node_ok _ d s off (sp_inv _ _ S) V HN) as (X & Y & _). auto.
Qed.

Theorem dedup_thm cmds k1 k2 d1 d2 s off1 off2 : wf_cmds cmds -> guard cmds ->
  added cmds k1 d1 s off1 -> added cmds k2 d2 s off2 -> slice d1 0 s = slice d2 0 s -> off1 = off2.
Proof.
  intros W G A1 A2 E. pose proof (final_spec cmds W G) as S.
  destruct (sp_rec _ _ S k1 d1 s off1 A1) as (V & n1 & H1 & K1 & O1).
  destruct (sp_rec _ _ S k2 d2 s off2 A2) as (_ & n2 & H2 & K2 & O2).
  assert (n1 = n2).
  { eapply NoDup_map_inj; [apply (t_keys _ _ (inv_trees _ (sp_inv _ _ S)) (ctz s))| | |]; eauto. congruence. }
  congruence.
Qed.

Lemma readd p d s off : Inv p -> valid_size s -> has_node p d s off -> cp_add p d s = (p, Ok off).
Proof.
  intros I V (n & Hn & Kn & On). unfold cp_add.
  destruct (valid_size_checks s V) as (A & B). rewrite A, B.
  rewrite (tree_get_unique _ _ n (t_keys _ _ (inv_trees _ I) (ctz s)) Hn Kn). congruence.
Qed.

Lemma added_app cmds more k d s off : added cmds k d s off -> added (cmds ++ more) k d s off.
Proof.
  intros (A & B). unfold added, results in *. rewrite run_app. simpl. split.
  - rewrite nth_error_app1; auto. apply nth_error_Some. congruence.
  - rewrite nth_error_app1; auto. apply nth_error_Some. congruence.
Qed.

Lemma guard_prefix cmds more : guard (cmds ++ more) -> guard cmds.
Proof.
  unfold guard, final. rewrite run_app. simpl. intros H.
  pose proof (run_psize_mono cmds cp_init ltac:(simpl; lia)) as M.
  pose proof (run_psize_mono more (fst (run cp_init cmds)) ltac:(simpl in M; lia)). lia.
Qed.

Lemma wf_prefix cmds more : wf_cmds (cmds ++ more) -> wf_cmds cmds.
Proof. unfold wf_cmds. rewrite Forall_app. tauto. Qed.

Theorem stable_thm cmds more k d s off : wf_cmds (cmds ++ more) -> guard (cmds ++ more) -> added cmds k d s off ->
  added (cmds ++ more) k d s off /\
  cp_add (final (cmds ++ more)) d s = (final (cmds ++ more), Ok off) /\
  slice (cp_fill (final cmds)) off s = slice d 0 s /\
  slice (cp_fill (final (cmds ++ more))) off s = slice d 0 s.
Proof.
  intros W G A.
  pose proof (added_app cmds more k d s off A) as A'.
  pose proof (final_spec _ W G) as S'.
  pose proof (final_spec _ (wf_prefix _ _ W) (guard_prefix _ _ G)) as S.
  destruct (sp_rec _ _ S' k d s off A') as (V & HN').
  destruct (sp_rec _ _ S k d s off A) as (_ & HN).
  split; auto. split; [apply readd; auto; apply (sp_inv _ _ S')|].
  split.
  - apply (has_node_ok _ d s off (sp_inv _ _ S) V HN).
  - apply (has_node_ok _ d s off (sp_inv _ _ S') V HN').
Qed.

Theorem fill_exact_thm cmds : wf_cmds cmds -> guard cmds ->
  Z.of_nat (length (cp_fill (final cmds))) = psize (final cmds) /\
  (forall k d s off, added cmds k d s off -> slice (cp_fill (final cmds)) off s = slice d 0 s) /\
  (forall x, 0 <= x < psize (final cmds) ->
     (forall k d s off, added cmds k d s off -> ~ (off <= x < off + s)) ->
     nth (Z.to_nat x) (cp_fill (final cmds)) 0 = 0).
Proof.
  intros W G. pose proof (final_spec cmds W G) as S. pose proof (sp_inv _ _ S) as I.
  split; [apply cp_fill_length; auto|]. split.
  - intros k d s off A. destruct (sp_rec _ _ S k d s off A) as (V & HN).
    apply (has_node_ok _ d s off I V HN).
  - intros x Hx N. apply cp_fill_zero; auto.
    intros r Hr C. destruct (sp_hist _ _ S r Hr) as [Old|(k & d & s & off & A & ->)].
    + rewrite init_stored in Old. destruct Old.
    + apply (N k d s off A). simpl in C. lia.
Qed.

(* every returned range lies in exactly one stored region; stored regions and free gaps are pairwise disjoint and inside
   [0, size); every stored region is the range returned by some add *)
Theorem no_overlap_thm cmds : wf_cmds cmds -> guard cmds ->
  pairwise disj (regions (final cmds)) /\
  Forall (fun r => 0 <= fst r /\ fst r + snd r <= psize (final cmds)) (regions (final cmds)) /\
  (forall r, In r (flat_map stored (trees (final cmds))) -> exists k d s off, added cmds k d s off /\ r = (off, s)) /\
  (forall k d s off, added cmds k d s off ->
     exists r, In r (flat_map stored (trees (final cmds))) /\ fst r <= off /\ off + s <= fst r + snd r).
Proof.
  intros W G. pose proof (final_spec cmds W G) as S. pose proof (sp_inv _ _ S) as I.
  split; [apply (inv_disj _ I)|]. split; [apply regions_bound; auto|]. split.
  - intros r Hr. destruct (sp_hist _ _ S r Hr) as [Old|X]; auto. rewrite init_stored in Old. destruct Old.
  - intros k d s off A. destruct (sp_rec _ _ S k d s off A) as (V & n & Hn & Kn & On).
    destruct (valid_size_checks s V) as (C1 & C2). destruct (valid_size_inv s C1 C2) as (L & E).
    pose proof (inv_trees _ I) as T.
    destruct (t_nodes _ _ T _ n Hn) as (N1 & N2 & N3 & N4).
    destruct (n_shared n) eqn:Sh.
    + destruct (t_shared _ _ T _ n Hn Sh) as (j & m & Hm & Shm & O1 & O2 & _).
      destruct (t_nodes _ _ T _ m Hm) as (M1 & _).
      exists (rng m). split.
      * apply in_flat_map. exists (nth j (trees (final cmds)) []). split; [apply nth_In; eapply in_nth_lt; eauto|].
        apply in_stored; auto.
      * unfold rng; simpl. rewrite M1. lia.
    + exists (rng n). split.
      * apply in_flat_map. exists (nth (ctz s) (trees (final cmds)) []). split; [apply nth_In; eapply in_nth_lt; eauto|].
        apply in_stored; auto.
      * unfold rng; simpl. rewrite N1. lia.
Qed.

(* observable form: wherever two returned ranges share a byte position, the two constants agree on that byte *)
Theorem overlap_consistent_thm cmds k1 d1 s1 off1 k2 d2 s2 off2 x : wf_cmds cmds -> guard cmds ->
  added cmds k1 d1 s1 off1 -> added cmds k2 d2 s2 off2 ->
  off1 <= x < off1 + s1 -> off2 <= x < off2 + s2 ->
  nth (Z.to_nat (x - off1)) d1 0 = nth (Z.to_nat (x - off2)) d2 0.
Proof.
  intros W G A1 A2 R1 R2.
  destruct (fill_exact_thm cmds W G) as (_ & F & _).
  destruct (aligned_thm cmds k1 d1 s1 off1 W G A1) as (_ & P1 & _).
  destruct (aligned_thm cmds k2 d2 s2 off2 W G A2) as (_ & P2 & _).
  pose proof (F k1 d1 s1 off1 A1) as F1. pose proof (F k2 d2 s2 off2 A2) as F2.
  assert (E1 : nth (Z.to_nat (x - off1)) (slice d1 0 s1) 0 = nth (Z.to_nat x) (cp_fill (final cmds)) 0).
  { rewrite <- F1. rewrite slice_nth by lia. f_equal. lia. }
  assert (E2 : nth (Z.to_nat (x - off2)) (slice d2 0 s2) 0 = nth (Z.to_nat x) (cp_fill (final cmds)) 0).
  { rewrite <- F2. rewrite slice_nth by lia. f_equal. lia. }
  rewrite slice_nth in E1, E2 by lia. simpl in E1, E2. congruence.
Qed.

Theorem size_alignment_cover_thm cmds : wf_cmds cmds -> guard cmds ->
  let p := final cmds in
  (forall k d s off, added cmds k d s off -> off + s <= psize p /\ s <= palign p /\ palign p mod s = 0) /\
  ((palign p = 0 /\ pmin p = 0 /\ psize p = 0 /\ forall k d s off, ~ added cmds k d s off) \/
   (exists k d off, added cmds k d (palign p) off) /\
   (exists k d off, added cmds k d (pmin p) off) /\ psize p mod pmin p = 0 /\ 0 < pmin p <= palign p /\
   (forall r, In r (flat_map stored (trees p)) -> pmin p <= snd r <= palign p)).
Proof.
  intros W G p. pose proof (final_spec cmds W G) as S. pose proof (sp_inv _ _ S) as I. pose proof (sp_inv2 _ _ S) as J.
  fold (final cmds) in I, J. fold p in I, J.
  destruct (no_overlap_thm cmds W G) as (_ & _ & Hist & Cont). fold p in Hist, Cont.
  assert (Cover : forall k d s off, added cmds k d s off -> off + s <= psize p /\ s <= palign p /\ palign p mod s = 0).
  { intros k d s off A. destruct (sp_rec _ _ S k d s off A) as (V & HN).
    destruct (has_node_ok _ d s off I V HN) as (X1 & X2 & X3 & _). split; auto.
    destruct (Cont k d s off A) as (r & Hr & R1 & R2).
    pose proof (i2_al_ub _ J r Hr).
    assert (s <= palign p) by lia. split; auto.
    assert (0 < s) by (destruct V as [->|[->|[->|[->|[->|[->| ->]]]]]]; lia).
    apply pow2z_div with (b := palign p); auto.
    - right. apply valid_pow2; auto.
    - apply (i2_al_pow _ J).
    - apply Z.mod_same. lia. }
  split; auto.
  destruct (Z.eq_dec (pmin p) 0) as [Z0|NZ].
  - left. destruct (i2_empty _ J Z0) as (E1 & E2). repeat split; auto.
    intros k d s off A. destruct (Cover k d s off A) as (X & _).
    destruct (aligned_thm cmds k d s off W G A) as (V & Y & _).
    assert (0 < s) by (destruct V as [->|[->|[->|[->|[->|[->| ->]]]]]]; lia). lia.
  - right.
    destruct (i2_mn_att _ J NZ) as (r & Hr & Er).
    pose proof (i2_mn_lb _ J r Hr) as LB. pose proof (i2_al_ub _ J r Hr) as UB.
    assert (NZa : palign p <> 0) by lia.
    destruct (i2_al_att _ J NZa) as (ra & Hra & Era).
    destruct (Hist ra Hra) as (ka & da & sa & oa & Aa & ->). simpl in Era. subst sa.
    destruct (Hist r Hr) as (k & d & s & o & A & ->). simpl in Er. subst s.
    split; [eauto|]. split; [eauto|]. split; [apply (i2_mn_div _ J); auto|]. split; [lia|].
    intros x Hx. pose proof (i2_mn_lb _ J x Hx). pose proof (i2_al_ub _ J x Hx). lia.
Qed.

Theorem invalid_size_refused_thm p d s : ~ valid_size s -> cp_add p d s = (p, InvalidArgument).
Proof.
  intros N. unfold cp_add. destruct (invalid_size_checks s N) as [-> | H]; auto.
  destruct ((s <=? 0) || (64 <? s)); auto. rewrite H. reflexivity.
Qed.

Theorem result_error_iff cmds k d s : wf_cmds cmds -> guard cmds -> nth_error cmds k = Some (d, s) ->
  (nth_error (results cmds) k = Some InvalidArgument <-> ~ valid_size s) /\
  (valid_size s -> exists off, added cmds k d s off).
Proof.
  intros W G A. pose proof (final_spec cmds W G) as S. split; [apply (sp_err _ _ S k d s A)|].
  intros V. unfold added, results.
  assert (L : (k < length (snd (run cp_init cmds)))%nat) by (rewrite run_length; apply nth_error_Some; congruence).
  destruct (nth_error (snd (run cp_init cmds)) k) as [[off|]|] eqn:R.
  - eauto.
  - exfalso. apply (sp_err _ _ S k d s A); auto.
  - apply nth_error_None in R. lia.
Qed.

(* ---------------------------------------------------------------- after embedding at an aligned base *)
Theorem embedded_aligned_thm cmds k d s off base : wf_cmds cmds -> guard cmds -> added cmds k d s off ->
  base mod palign (final cmds) = 0 -> (base + off) mod s = 0.
Proof.
  intros W G A B.
  destruct (aligned_thm cmds k d s off W G A) as (V & _ & M).
  destruct (size_alignment_cover_thm cmds W G) as (C & _). destruct (C k d s off A) as (_ & L & D).
  assert (0 < s) by (destruct V as [->|[->|[->|[->|[->|[->| ->]]]]]]; lia).
  apply Z.mod_divide in D; [|lia]. apply Z.mod_divide in B; [|lia]. apply Z.mod_divide in M; [|lia].
  apply Z.mod_divide; [lia|]. apply Z.divide_add_r; auto. eapply Z.divide_trans; eauto.
Qed.

(* ---------------------------------------------------------------- embed_const_pool: where the label and the constants end up *)
Theorem embed_layout_thm cmds pre : wf_cmds cmds -> guard cmds -> 0 <= pre ->
  let p := final cmds in
  let lab := fst (embed_layout pre p) in
  pre <= lab < pre + Z.max (palign p) 1 /\ lab mod Z.max (palign p) 1 = 0 /\ snd (embed_layout pre p) = lab + psize p /\
  (forall k d s off, added cmds k d s off ->
     (lab + off) mod s = 0 /\ lab + off + s <= snd (embed_layout pre p) /\ slice (cp_fill p) off s = slice d 0 s).
Proof.
  intros W G Hp p lab.
  assert (L : pre <= lab < pre + Z.max (palign p) 1 /\ lab mod Z.max (palign p) 1 = 0).
  { unfold lab, embed_layout. destruct (Z.leb_spec (palign p) 1); simpl.
    - assert (E : Z.max (palign p) 1 = 1) by lia. rewrite E. split; [lia|apply Z.mod_1_r].
    - rewrite Z.max_l by lia. destruct (align_up_diff_spec pre (palign p) ltac:(lia)). split; [lia|auto]. }
  split; [apply L|]. split; [apply L|]. split; [reflexivity|].
  intros k d s off A.
  destruct (fill_exact_thm cmds W G) as (_ & FE & _).
  destruct (size_alignment_cover_thm cmds W G) as (CV & _). destruct (CV k d s off A) as (C1 & C2 & C3). fold p in C1, C2, C3.
  destruct (aligned_thm cmds k d s off W G A) as (V & _ & _).
  assert (0 < s) by (destruct V as [->|[->|[->|[->|[->|[->| ->]]]]]]; lia).
  split; [|split; [unfold lab, embed_layout; simpl; lia|apply FE with (k := k); auto]].
  apply (embedded_aligned_thm cmds k d s off lab W G A). fold p.
  destruct L as (_ & M). rewrite Z.max_l in M by lia. exact M.
Qed.

(* ---------------------------------------------------------------- the fuel of the model's loops never cuts them short *)
Lemma share_loop_fuel fuel : forall extra ts ti ss pc data off,
  ss = pow2 ti -> (ti <= fuel + 2)%nat ->
  share_loop (fuel + extra) ts ti ss pc data off = share_loop fuel ts ti ss pc data off.
Proof.
  induction fuel; intros extra ts ti ss pc data off E L.
  - simpl. assert (ss <= 4) by (rewrite E; change 4 with (pow2 2); apply pow2_mono; lia).
    destruct extra; simpl; auto. destruct (Z.ltb_spec 4 ss); auto. lia.
  - simpl. destruct (Z.ltb_spec 4 ss); auto.
    assert (3 <= ti)%nat.
    { destruct (Nat.le_gt_cases 3 ti); auto. pose proof (pow2_mono ti 2 ltac:(lia)) as X. change (pow2 2) with 4 in X. lia. }
    apply IHfuel; [|lia].
    rewrite E, (pow2_pred ti) by lia. rewrite Z.mul_comm. apply Z.div_mul. lia.
Qed.

Lemma add_gap_fuel fuel : forall extra gs off sz,
  (Z.to_nat sz <= fuel)%nat -> add_gap_f (fuel + extra) gs off sz = add_gap_f fuel gs off sz.
Proof.
  induction fuel; intros extra gs off sz L.
  - simpl. destruct extra; simpl; auto. destruct (Z.leb_spec sz 0); auto. lia.
  - simpl. destruct (Z.leb_spec sz 0); auto.
    destruct (gap_class off sz) as (gi, gsz) eqn:GC.
    destruct (gap_class_spec off sz gi gsz ltac:(lia) GC) as (_ & R & _).
    apply IHfuel. lia.
Qed.

Theorem model_loops_total : forall extra : nat,
  (forall ts ti pc data off, (ti <= 6)%nat ->
     share_loop (7 + extra)%nat ts ti (pow2 ti) pc data off = share_loop 7%nat ts ti (pow2 ti) pc data off) /\
  (forall gs off sz, add_gap_f (Z.to_nat sz + extra)%nat gs off sz = add_gap gs off sz).
Proof.
  intros extra. split.
  - intros. apply share_loop_fuel; auto. lia.
  - intros. unfold add_gap. apply add_gap_fuel. lia.
Qed.

(* ---------------------------------------------------------------- nothing of a freshly appended area is leaked *)
(* when an add grows the pool, every new byte belongs either to the constant just placed or to a free gap that is
   registered in the new state: ConstPool_addGap tiles the WHOLE alignment padding *)
Theorem fresh_area_covered_thm p d s p' off x : Inv p -> wf_cmd d s -> cp_add p d s = (p', Ok off) ->
  psize p <= x < psize p' ->
  off <= x < off + s \/ exists i g, In g (nth i (gaps p') []) /\ fst g <= x < fst g + snd g.
Proof.
  intros I Wf E Hx. unfold cp_add in E.
  destruct ((s <=? 0) || (64 <? s)) eqn:C1; [discriminate|].
  destruct (negb (pow2 (ctz s) =? s)) eqn:C2; [discriminate|].
  destruct (valid_size_inv s C1 C2) as (Lti & Es). symmetry in Es.
  pose proof (pow2_gt0 (ctz s)) as Ps. rewrite <- Es in Ps.
  destruct (tree_get _ _) as [n|]; [inversion E; subst; lia|].
  destruct (gap_loop _ _ _ _ _) as (gs1, [o|]) eqn:GL.
  - simpl in E. inversion E; subst p'. simpl in Hx. lia.
  - assert (Hg : forall g, In g (nth (ctz s) (gaps p) []) -> snd g = s).
    { intros g Hg. destruct (inv_gaps _ I _ g Hg) as (A & _). rewrite Es; auto. }
    destruct (gap_loop_spec _ _ _ _ _ _ _ Hg GL) as (k & Egs & [(-> & _)|(g & _ & X)]); [|discriminate].
    simpl in Egs. rewrite upd_nth_same in Egs. subst gs1.
    simpl in E. inversion E; subst p' off. simpl in *. clear E.
    destruct (align_up_diff_spec (psize p) s Ps) as (Hdiff & _).
    set (diff := align_up_diff (psize p) s) in *.
    destruct (Z.lt_ge_cases x (psize p + diff)); [|left; lia].
    right. destruct (Z.eqb_spec diff 0); [lia|].
    pose proof (inv_size _ I).
    destruct (add_gap_spec (gaps p) (psize p) diff ltac:(lia) ltac:(lia) (inv_lg _ I)) as (new & P & _ & _ & _ & _ & CV & _).
    destruct (CV x ltac:(lia)) as (g & Hg' & Cg).
    assert (In g (concat (add_gap (gaps p) (psize p) diff))).
    { apply (Permutation_in _ (Permutation_sym P)). apply in_or_app. left; auto. }
    apply in_concat in H1. destruct H1 as (l & Hl & Hgl). destruct (in_nth_exists _ _ Hl) as (i & <-).
    exists i, g. split; auto.
Qed.

(* ---------------------------------------------------------------- beyond the guard: Node::_offset is 32 bits wide *)
(* a state that satisfies the whole representation invariant but holds 2^32 bytes: a fresh 8-byte constant is appended
   at offset 2^32 and that is what add() returns; its node stores the offset truncated to 0, so adding the same constant
   again returns 0 (not stable, not deduplicated) and fill() would write its bytes at 0 *)
Definition pool_4g : pool := mkPool (repeat [] 7) (repeat [] 7) 4294967296 64 64.

Lemma pool_4g_inv : Inv pool_4g.
Proof.
  assert (E : forall i, nth i (trees pool_4g) [] = []) by (intros; apply nth_repeat_nil).
  assert (Eg : forall i, nth i (gaps pool_4g) [] = []) by (intros; apply nth_repeat_nil).
  constructor.
  - constructor.
    + reflexivity.
    + intros i n H. rewrite E in H. destruct H.
    + intros i. rewrite E. constructor.
    + intros i n H. rewrite E in H. destruct H.
  - reflexivity.
  - simpl; lia.
  - intros i g H. rewrite Eg in H. destruct H.
  - simpl. exact I.
Qed.

(* the same for EVERY state of 2^32 bytes (in particular the reachable ones): a new 8-byte constant that finds no free 8-byte gap *)
Lemma gap_loop_empty n : forall ti s gs acc, nth ti gs [] = [] -> gap_loop n ti s gs acc = (gs, acc).
Proof. induction n; intros ti s gs acc E; simpl; auto. unfold gap in *. rewrite E. auto. Qed.

Lemma tree_get_insert_new t : forall M, tree_get t (n_key M) = None -> tree_get (tree_insert M t) (n_key M) = Some M.
Proof.
  assert (Self : forall M, key_eqb (n_key M) (n_key M) = true) by (intros; apply key_eqb_true; auto).
  induction t as [|m t IH]; intros M G; unfold tree_get in *; simpl in *.
  - rewrite Self. reflexivity.
  - destruct (key_eqb (n_key M) (n_key m)) eqn:E; [discriminate|].
    destruct (key_lt (n_key M) (n_key m)); simpl.
    + rewrite Self. reflexivity.
    + rewrite E. apply IH; auto.
Qed.

Theorem offset_truncation_general p d : Inv p -> psize p = 4294967296 -> 8 <= Z.of_nat (length d) ->
  tree_get (nth 3 (trees p) []) (slice d 0 8) = None -> nth 3 (gaps p) [] = [] ->
  snd (cp_add p d 8) = Ok 4294967296 /\ snd (cp_add (fst (cp_add p d 8)) d 8) = Ok 0.
Proof.
  intros I Ps Ld G Eg.
  assert (L3 : (3 < length (trees p))%nat) by (rewrite (t_len _ _ (inv_trees _ I)); lia).
  set (M := mkNode (slice d 0 8) (trunc32 (4294967296 + 0)) false).
  set (ts1 := upd 3 (tree_insert M (nth 3 (trees p) [])) (trees p)).
  set (ts2 := share_loop 7 ts1 3 8 1 d (4294967296 + 0)).
  assert (E1 : cp_add p d 8 = (mkPool ts2 (gaps p) (4294967296 + 0 + 8) (Z.max (palign p) 8)
                                 (if pmin p =? 0 then 8 else Z.min (pmin p) 8), Ok (4294967296 + 0))).
  { unfold cp_add.
    change ((8 <=? 0) || (64 <? 8)) with false. cbv iota.
    change (ctz 8) with 3%nat. change (negb (pow2 3 =? 8)) with false. cbv iota.
    rewrite G. rewrite (gap_loop_empty (6 - 3) 3 8 (gaps p) None Eg). cbv iota beta. rewrite Ps.
    change (align_up_diff 4294967296 8) with 0. change (0 =? 0) with true. cbv iota beta. reflexivity. }
  rewrite E1. simpl fst. simpl snd. split; [reflexivity|].
  assert (E3 : nth 3 ts2 [] = tree_insert M (nth 3 (trees p) [])).
  { unfold ts2. cbn [share_loop]. change (4 <? 8) with true. cbv iota. change (8 / 2) with 4. change (4 <? 4) with false. cbv iota.
    unfold share_row. cbn [Nat.mul Nat.add seq fold_left Nat.pred].
    assert (One : forall ts i, nth 3 (share_one 2 4 d (4294967296 + 0) ts i) [] = nth 3 ts []).
    { intros ts i. unfold share_one. destruct (tree_get (nth 2 ts []) _); auto. apply nth_upd_neq. lia. }
    rewrite !One. unfold ts1. apply nth_upd_eq. auto. }
  unfold cp_add.
  change ((8 <=? 0) || (64 <? 8)) with false. cbv iota.
  change (ctz 8) with 3%nat. change (negb (pow2 3 =? 8)) with false. cbv iota.
  cbn [trees]. rewrite E3.
  pose proof (tree_get_insert_new (nth 3 (trees p) []) M G) as X. change (n_key M) with (slice d 0 8) in X.
  rewrite X. reflexivity.
Qed.

Lemma offset_truncation_refuted :
  exists p d s off off', Inv p /\ wf_cmd d s /\ psize p = 4294967296 /\
    snd (cp_add p d s) = Ok off /\ snd (cp_add (fst (cp_add p d s)) d s) = Ok off' /\ off <> off' /\
    psize (fst (cp_add p d s)) = 4294967304.
Proof.
  exists pool_4g, [1; 2; 3; 4; 5; 6; 7; 8], 8, 4294967296, 0.
  split; [apply pool_4g_inv|]. split; [unfold wf_cmd; simpl; lia|].
  split; [reflexivity|]. split; [vm_compute; reflexivity|]. split; [vm_compute; reflexivity|]. split; [discriminate|].
  vm_compute; reflexivity.
Qed.

(* ---------------------------------------------------------------- satisfiability of the hypotheses, witnesses *)
Definition ex_unit_test : list cmd :=
  [(repeat 0 32, 1); (repeat 0 32, 2); (repeat 0 32, 4); (repeat 0 32, 4); (repeat 0 32, 3); (repeat 0 32, 32)].

Lemma wf_cmds_by_length cmds : forallb (fun c => (snd c <=? Z.of_nat (length (fst c))) || (64 <? snd c)) cmds = true -> wf_cmds cmds.
Proof.
  intros H. rewrite forallb_forall in H. apply Forall_forall. intros c Hc. specialize (H c Hc).
  unfold wf_cmd. apply orb_true_iff in H. destruct H as [H|H]; [apply Z.leb_le in H|apply Z.ltb_lt in H]; lia.
Qed.

Example hypotheses_satisfiable :
  wf_cmds ex_unit_test /\ guard ex_unit_test /\
  results ex_unit_test = [Ok 0; Ok 2; Ok 4; Ok 4; InvalidArgument; Ok 32] /\
  added ex_unit_test 1 (repeat 0 32) 2 2 /\ psize (final ex_unit_test) = 64 /\ palign (final ex_unit_test) = 32.
Proof.
  split; [apply wf_cmds_by_length; reflexivity|].
  split; [unfold guard; vm_compute; discriminate|].
  split; [vm_compute; reflexivity|].
  split; [split; vm_compute; reflexivity|].
  split; vm_compute; reflexivity.
Qed.

(* the header comment of min_item_size() ("minimum size of all items added") does not hold when the smaller item was
   served from a shared sub-constant: only constants that received storage of their own are counted *)
Definition ex_min : list cmd := [([1; 2; 3; 4; 5; 6; 7; 8], 8); ([5; 6; 7; 8], 4)].

Lemma min_item_size_all_added_refuted :
  exists cmds, wf_cmds cmds /\ guard cmds /\ (exists k d off, added cmds k d 4 off) /\ pmin (final cmds) = 8.
Proof.
  exists ex_min. split; [apply wf_cmds_by_length; reflexivity|]. split; [unfold guard; vm_compute; discriminate|].
  split; [exists 1%nat, [5; 6; 7; 8], 4; split; vm_compute; reflexivity|vm_compute; reflexivity].
Qed.

(* DESIGN 7.12: the gap loop looks at _gaps[tree_index] on each of its 6-tree_index iterations and never breaks, so with
   two free 2-byte gaps (at 10 and at 2) one add(2 bytes) pops both, uses the last one (2) and forgets the other: the next
   2-byte constant is appended at 16 although bytes 10..11 are free.  Space is wasted; nothing overlaps. *)
Definition ex_quirk : list cmd :=
  [([1], 1); ([2; 2; 2; 2], 4); ([3], 1); ([4], 1); ([5; 5; 5; 5], 4); ([6; 6], 2); ([7; 7], 2)].

Lemma gap_quirk_witness :
  results ex_quirk = [Ok 0; Ok 4; Ok 1; Ok 8; Ok 12; Ok 2; Ok 16] /\
  cp_fill (final ex_quirk) = [1; 3; 6; 6; 2; 2; 2; 2; 4; 0; 0; 0; 5; 5; 5; 5; 7; 7] /\
  concat (gaps (final ex_quirk)) = [(9, 1)].   (* the gap (10, 2) is gone *)
Proof. repeat split; vm_compute; reflexivity. Qed.

(* ---------------------------------------------------------------- converse of dedup: an offset determines its constant *)
Theorem offset_determines_thm cmds k1 k2 d1 d2 s off : wf_cmds cmds -> guard cmds ->
  added cmds k1 d1 s off -> added cmds k2 d2 s off -> slice d1 0 s = slice d2 0 s.
Proof.
  intros W G A1 A2. destruct (fill_exact_thm cmds W G) as (_ & F & _).
  rewrite <- (F k1 d1 s off A1). apply (F k2 d2 s off A2).
Qed.

(* ---------------------------------------------------------------- frame: what one add must NOT change *)
Theorem add_frame_thm p d s p' r : Inv p -> wf_cmd d s -> cp_add p d s = (p', r) -> psize p' <= 4294967296 ->
  (forall j n, In n (nth j (trees p) []) -> In n (nth j (trees p') [])) /\
  psize p <= psize p' /\ palign p <= palign p' /\
  (r = InvalidArgument -> p' = p) /\
  (forall j n x, In n (nth j (trees p) []) -> n_shared n = false -> covers n x ->
     nth x (cp_fill p') 0 = nth x (cp_fill p) 0).
Proof.
  intros I Wf E G. destruct (cp_add_step p d s p' r I Wf E G) as (I' & Sz & Mono & R).
  split; [exact Mono|]. split; [exact Sz|]. split.
  { destruct r as [off|]; [destruct R as (_ & _ & [->|NS])|destruct R as (_ & ->)]; try lia.
    destruct NS as (_ & EA & _). rewrite EA. lia. }
  split.
  { intros ->. destruct R as (_ & ->). reflexivity. }
  intros j n x Hn Sh C.
  rewrite (cp_fill_nonshared p j n x I Hn Sh C).
  apply (cp_fill_nonshared p' j n x I' (Mono j n Hn) Sh C).
Qed.

(* ---------------------------------------------------------------- Compiler::_new_const: the operand carries the offset *)
Theorem new_const_operand_thm p d s p' o : Inv p -> wf_cmd d s -> new_const_operand p d s = (p', o) -> psize p' <= 2147483648 ->
  match o with
  | Some (disp, sz) => cp_add p d s = (p', Ok disp) /\ sz = s /\ valid_size s /\ 0 <= disp /\ disp + s <= psize p'
  | None => ~ valid_size s /\ p' = p
  end.
Proof.
  intros I Wf E G. unfold new_const_operand in E. destruct (cp_add p d s) as (p1, r) eqn:EA.
  destruct (cp_add_step p d s p1 r I Wf EA) as (I1 & _ & _ & R).
  { destruct r; inversion E; subst; lia. }
  destruct r as [off|]; inversion E; subst p' o; clear E.
  - destruct R as (V & HN & _). destruct (has_node_ok p1 d s off I1 V HN) as (A & _ & B & _).
    assert (W : wrap_i32 off = off).
    { unfold wrap_i32. rewrite Z.mod_small by (destruct V as [->|[->|[->|[->|[->|[->| ->]]]]]]; lia). lia. }
    rewrite W. auto.
  - destruct R as (NV & ->). auto.
Qed.

(* beyond 2 GiB the int32 cast wraps: a state-level witness (not reachable in practice: 2^25 64-byte constants) *)
Definition pool_2g : pool := mkPool (repeat [] 7) (repeat [] 7) 2147483648 64 64.

Lemma pool_2g_inv : Inv pool_2g.
Proof.
  assert (E : forall i, nth i (trees pool_2g) [] = []) by (intros; apply nth_repeat_nil).
  assert (Eg : forall i, nth i (gaps pool_2g) [] = []) by (intros; apply nth_repeat_nil).
  constructor.
  - constructor.
    + reflexivity.
    + intros i n H. rewrite E in H. destruct H.
    + intros i. rewrite E. constructor.
    + intros i n H. rewrite E in H. destruct H.
  - reflexivity.
  - simpl; lia.
  - intros i g H. rewrite Eg in H. destruct H.
  - simpl. exact I.
Qed.

Lemma new_const_operand_2GiB_refuted :
  exists p d s, Inv p /\ wf_cmd d s /\ psize p = 2147483648 /\
    snd (cp_add p d s) = Ok 2147483648 /\ snd (new_const_operand p d s) = Some (-2147483648, s).
Proof.
  exists pool_2g, [1; 2; 3; 4; 5; 6; 7; 8], 8.
  split; [apply pool_2g_inv|]. split; [unfold wf_cmd; simpl; lia|]. split; [reflexivity|]. split; vm_compute; reflexivity.
Qed.

(* ---------------------------------------------------------------- the log of embed_const_pool covers the image exactly *)
Lemma ctz_pow2 k : ctz (pow2 k) = k.
Proof.
  induction k; [reflexivity|]. rewrite pow2_S. pose proof (pow2_gt0 k).
  destruct (pow2 k) as [|q|q] eqn:E; try lia. simpl in *. congruence.
Qed.

Theorem log_layout_thm cmds : wf_cmds cmds -> guard cmds -> 0 < psize (final cmds) ->
  let p := final cmds in
  let w := fst (log_layout p) in let c := snd (log_layout p) in
  (w = 1 \/ w = 2 \/ w = 4 \/ w = 8) /\ w * c = psize p /\ w <= pmin p /\ pmin p mod w = 0 /\ (pmin p <= 8 -> w = pmin p).
Proof.
  intros W G Pos p w c. fold p in Pos.
  pose proof (sp_inv2 _ _ (final_spec cmds W G)) as J. fold (final cmds) in J. fold p in J.
  destruct (Z.eq_dec (pmin p) 0) as [Z0|NZ]; [destruct (i2_empty _ J Z0); lia|].
  destruct (i2_mn_pow _ J) as [Z0|(k & Lk & Ek)]; [lia|].
  pose proof (i2_mn_div _ J NZ) as Dv.
  unfold w, c, log_layout. replace (psize p =? 0) with false by (symmetry; apply Z.eqb_neq; lia). cbn [fst snd].
  rewrite Ek, ctz_pow2.
  set (m := Nat.min k 3).
  assert (Hm : (m <= k)%nat /\ (m <= 3)%nat) by (unfold m; lia).
  pose proof (pow2_gt0 m) as Pm. pose proof (pow2_mono m k ltac:(lia)) as Mk.
  assert (Dw : psize p mod pow2 m = 0) by (apply (mod_pow2_le _ m k); [lia|rewrite <- Ek; auto]).
  split.
  { destruct m as [|[|[|[|m']]]]; try lia; vm_compute; tauto. }
  split.
  { rewrite (Z.div_mod (psize p) (pow2 m)) at 2 by lia. rewrite Dw. lia. }
  split; [lia|]. split.
  { apply (mod_pow2_le _ m k); [lia|]. apply Z.mod_same. pose proof (pow2_gt0 k). lia. }
  intros L8. assert (k <= 3)%nat.
  { destruct (Nat.le_gt_cases k 3); auto. pose proof (pow2_mono 4 k ltac:(lia)) as X. change (pow2 4) with 16 in X. lia. }
  unfold m. rewrite Nat.min_l by lia. reflexivity.
Qed.

(* ---------------------------------------------------------------- the model is the one determined by model_params *)
Theorem params_used :
  (forall off sz, gap_class off sz = gap_class_of (par_gap_chain model_params) (par_gap_else model_params) off sz) /\
  cp_init = mkPool (repeat [] (par_index_count model_params)) (repeat [] (par_index_count model_params)) 0 0 0 /\
  (forall s, valid_size s <-> exists i, In (s, i) (par_index_sizes model_params)) /\
  (forall s i, In (s, i) (par_index_sizes model_params) -> ctz s = i /\ pow2 i = s /\ (i < par_index_count model_params)%nat) /\
  (forall z, trunc32 z = z mod 2 ^ par_offset_bits model_params) /\
  (forall f ts ti ss pc d off, share_loop (S f) ts ti ss pc d off =
     if par_share_above model_params <? ss
     then share_loop f (share_row (pred ti) (ss / 2) d off (2 * pc) ts) (pred ti) (ss / 2) (2 * pc)%nat d off else ts) /\
  (forall n ti size gs acc, (* par_loop_same_bucket = true, par_loop_breaks = false: every iteration looks at stack ti again *)
     gap_loop (S n) ti size gs acc =
       match nth ti gs [] with
       | [] => gap_loop n ti size gs acc
       | (goff, gsz) :: rest =>
         gap_loop n ti size (if 0 <? gsz - size then add_gap (upd ti rest gs) goff (gsz - size) else upd ti rest gs) (Some goff)
       end) /\
  (forall p, (* par_fill_clears_all, par_fill_skips_shared *)
     cp_fill p = fold_left (fun buf t => fold_left (fun b n => if n_shared n then b else write_at b (n_off n) (n_key n)) t buf)
                           (trees p) (repeat 0 (Z.to_nat (psize p)))) /\
  (forall z, wrap_i32 z = (z + 2 ^ (par_new_const_disp_bits model_params - 1)) mod 2 ^ par_new_const_disp_bits model_params
                          - 2 ^ (par_new_const_disp_bits model_params - 1)) /\
  (forall p, psize p <> 0 ->
     log_layout p = (pow2 (Nat.min (ctz (pmin p)) (par_log_max_log2 model_params)),
                     psize p / pow2 (Nat.min (ctz (pmin p)) (par_log_max_log2 model_params)))).
Proof.
  split; [intros; reflexivity|]. split; [reflexivity|]. split.
  { intros s. unfold valid_size. simpl. split.
    - intros [->|[->|[->|[->|[->|[->| ->]]]]]]; eexists; eauto 10.
    - intros (i & H). repeat (destruct H as [H|H]; [inversion H; auto 10|]). destruct H. }
  split.
  { intros s i H. simpl in H. repeat (destruct H as [H|H]; [inversion H; subst; repeat split; simpl; lia|]). destruct H. }
  split; [intros; reflexivity|]. split; [intros; reflexivity|]. split; [intros; reflexivity|].
  split; [intros; reflexivity|]. split; [intros; reflexivity|].
  intros p H. unfold log_layout. replace (psize p =? 0) with false by (symmetry; apply Z.eqb_neq; auto). reflexivity.
Qed.

(* ---------------------------------------------------------------- non-vacuity of later theorems' hypotheses *)
Example embed_layout_example :
  wf_cmds ex_unit_test /\ guard ex_unit_test /\ embed_layout 3 (final ex_unit_test) = (32, 96) /\
  embed_layout 7 cp_init = (7, 7).
Proof.
  split; [apply wf_cmds_by_length; reflexivity|]. split; [unfold guard; vm_compute; discriminate|]. split; vm_compute; reflexivity.
Qed.

Example offset_truncation_general_hypotheses_satisfiable :
  Inv pool_4g /\ psize pool_4g = 4294967296 /\ 8 <= Z.of_nat (length [1; 2; 3; 4; 5; 6; 7; 8]) /\
  tree_get (nth 3 (trees pool_4g) []) (slice [1; 2; 3; 4; 5; 6; 7; 8] 0 8) = None /\ nth 3 (gaps pool_4g) [] = [].
Proof. split; [apply pool_4g_inv|]. repeat split; vm_compute; try reflexivity. discriminate. Qed.

Example log_layout_example :
  0 < psize (final ex_unit_test) /\ log_layout (final ex_unit_test) = (1, 64) /\
  log_layout (final [([1; 2; 3; 4; 5; 6; 7; 8; 9; 10; 11; 12; 13; 14; 15; 16], 16)]) = (8, 2) /\ log_layout cp_init = (0, 0).
Proof. repeat split; vm_compute; reflexivity. Qed.

Example offset_determines_example : added ex_unit_test 2 (repeat 0 32) 4 4 /\ added ex_unit_test 3 (repeat 0 32) 4 4.
Proof. repeat split; vm_compute; reflexivity. Qed.

(* C11 — soundness of the reflective lock-discipline checker: every trace of a checked skeleton is well-locked. *)
From Coq Require Import String List Bool ZArith Lia.
From Verif Require Import Conc.LockModel.
Import ListNotations.
Local Open Scope string_scope.

Lemma field_eqb_refl : forall f, field_eqb f f = true.
Proof. intros [a b]. unfold field_eqb. cbn. now rewrite !String.eqb_refl. Qed.

Lemma field_eqb_eq : forall a b, field_eqb a b = true <-> a = b.
Proof.
  intros [a1 a2] [b1 b2]. unfold field_eqb. cbn. rewrite andb_true_iff, !String.eqb_eq.
  split; [intros [-> ->]; reflexivity | intros H; inversion H; auto].
Qed.

Lemma mem_field_in : forall f l, In f l -> mem_field f l = true.
Proof.
  intros f l H. unfold mem_field. apply existsb_exists. exists f. split; [assumption | apply field_eqb_refl].
Qed.

Lemma wl_app : forall prot t1 t2 h,
  wl prot h (t1 ++ t2) = match wl prot h t1 with Some h' => wl prot h' t2 | None => None end.
Proof.
  induction t1 as [|e t1 IH]; intros t2 h; cbn [app wl]; [reflexivity|].
  destruct e; try (destruct h; auto); try (destruct (prot f); cbn; auto).
Qed.

Lemma wl_prefix : forall prot t1 t2 h, wl prot h (t1 ++ t2) <> None -> wl prot h t1 <> None.
Proof. intros prot t1 t2 h H. rewrite wl_app in H. destruct (wl prot h t1); congruence. Qed.

Lemma flat_map_nil : forall (A B : Type) (f : A -> list B) l, flat_map f l = [] -> forall x, In x l -> f x = [].
Proof.
  induction l as [|a l IH]; cbn; intros H x Hin; [contradiction|].
  apply app_eq_nil in H. destruct H as [Ha Hl]. destruct Hin as [<-|Hin]; auto.
Qed.

(* the checker is sound for the trace semantics: a checked skeleton keeps the lock state and never touches a
   protected field without the lock, on every path, whatever the abrupt exits *)
Lemma chk_sound : forall wr s t fl, exec s t fl ->
  forall h, chk wr h s = [] -> incl (fields_written s) wr -> wl (prot_of wr) h t = Some h.
Proof.
  intros wr s t fl H. induction H; intros h Hc Hi; cbn [chk fields_written] in *.
  - reflexivity.
  - reflexivity.
  - (* read *) rewrite H in Hc. cbn [wl]. unfold prot_of.
    destruct (mem_field (cls, fld) wr && negb h); [discriminate | reflexivity].
  - (* write *) rewrite H in Hc, Hi. cbn [wl]. unfold prot_of.
    assert (Hm : mem_field (cls, fld) wr = true) by (apply mem_field_in, Hi; left; reflexivity).
    rewrite Hm in *. destruct h; cbn in *; [reflexivity | discriminate].
  - reflexivity.
  - reflexivity.
  - reflexivity.
  - reflexivity.
  - discriminate.
  - apply IHexec; assumption.
  - apply app_eq_nil in Hc. destruct Hc as [Ha Hb]. rewrite wl_app.
    rewrite IHexec1; [| assumption | intros x Hx; apply Hi, in_or_app; auto].
    apply IHexec2; [assumption | intros x Hx; apply Hi, in_or_app; auto].
  - apply app_eq_nil in Hc. destruct Hc as [Ha Hb].
    apply IHexec; [assumption | intros x Hx; apply Hi, in_or_app; auto].
  - apply app_eq_nil in Hc. destruct Hc as [Ha Hb].
    apply IHexec; [assumption | intros x Hx; apply Hi, in_or_app; auto].
  - apply app_eq_nil in Hc. destruct Hc as [Ha Hb].
    apply IHexec; [assumption | intros x Hx; apply Hi, in_or_app; auto].
  - reflexivity.
  - rewrite wl_app. rewrite IHexec1 by assumption. apply IHexec2; assumption.
  - apply IHexec; assumption.
  - (* locked region *)
    apply app_eq_nil in Hc. destruct Hc as [Hh Hc]. apply app_eq_nil in Hc. destruct Hc as [_ Hb].
    destruct h; [discriminate|]. cbn [wl]. rewrite wl_app. rewrite IHexec by assumption. reflexivity.
Qed.

Lemma in_written : forall eps name s, In (name, s) eps -> incl (fields_written s) (written eps).
Proof.
  intros eps name s Hin x Hx. unfold written. apply in_flat_map. exists (name, s). split; assumption.
Qed.

Theorem entry_point_well_locked : forall eps name s t fl,
  check_program eps = [] -> In (name, s) eps -> exec s t fl ->
  wl (prot_of (written eps)) false t = Some false.
Proof.
  intros eps name s t fl Hc Hin He. unfold check_program in Hc.
  pose proof (flat_map_nil _ _ _ _ Hc _ Hin) as H1. cbn in H1. apply map_eq_nil in H1.
  eapply chk_sound; eauto using in_written.
Qed.

Theorem thread_well_locked : forall eps t,
  check_program eps = [] -> thread_trace eps t -> wl (prot_of (written eps)) false t = Some false.
Proof.
  intros eps t Hc [ts [Hf ->]]. induction Hf as [|t1 ts [name [s [fl [Hin He]]]] Hf IH]; cbn; [reflexivity|].
  rewrite wl_app. erewrite entry_point_well_locked by eauto. exact IH.
Qed.

(* writes never target an immutable (unprotected) field in a well-locked trace *)
Lemma wl_write_protected : forall prot t1 o f v t2 h, wl prot h (t1 ++ EWr o f v :: t2) <> None -> prot f = true.
Proof.
  intros prot t1 o f v t2 h H. rewrite wl_app in H. destruct (wl prot h t1) as [h'|]; [|congruence].
  cbn in H. destruct (prot f); [reflexivity|]. cbn in H. congruence.
Qed.

Lemma check_globals_sound : forall gs, check_globals gs = [] -> forall g, In g gs -> global_allowed g = true.
Proof.
  intros gs H g Hg. unfold check_globals in H. pose proof (flat_map_nil _ _ _ _ H g Hg) as E. cbv beta in E.
  destruct (global_allowed g); [reflexivity | discriminate E].
Qed.

(* the canonical path is an execution of the skeleton: the hypotheses of entry_point_well_locked are satisfiable *)
Lemma default_trace_exec : forall s, exec s (fst (default_trace s)) (snd (default_trace s)).
Proof.
  induction s; cbn [default_trace].
  - constructor.
  - constructor.
  - destruct (is_shared cls) eqn:E; cbn [fst snd].
    + destruct m; [apply X_rd | apply X_wr | apply X_init]; assumption.
    + apply X_own; assumption.
  - constructor.
  - constructor.
  - constructor.
  - cbn [fst snd]. econstructor; eassumption.
  - destruct (snd (default_trace s1)) eqn:E; cbn [fst snd].
    + apply X_seq_abrupt. assumption.
    + eapply X_seq; eassumption.
  - cbv zeta. destruct (has_acq (fst (default_trace s1))); [apply X_alt_l; assumption|].
    destruct (has_acq (fst (default_trace s2))); [apply X_alt_r; assumption|].
    destruct (snd (default_trace s1)) eqn:E; [apply X_alt_r; assumption | apply X_alt_l; rewrite E; assumption].
  - cbn [fst snd]. destruct (snd (default_trace s)) eqn:E.
    + apply X_loop_exit. assumption.
    + rewrite <- (app_nil_r (fst (default_trace s))). eapply X_loop_next; [eassumption | constructor].
  - cbn [fst snd]. constructor. assumption.
Qed.

Lemma wl_unlocked_local : forall prot t h h', wl prot h t = Some h' -> unlocked_local prot h t = true.
Proof.
  induction t as [|e t IH]; intros h h' H; cbn [wl unlocked_local] in *; [reflexivity|].
  destruct e.
  - destruct h; [discriminate | eapply IH; eauto].
  - destruct h; [eapply IH; eauto | discriminate].
  - destruct (prot f) eqn:P, h; cbn in *; try discriminate; eapply IH; eauto.
  - destruct (prot f) eqn:P, h; cbn in *; try discriminate; eapply IH; eauto.
  - eapply IH; eauto.
Qed.

(* outside its critical sections an entry point only performs thread-local steps (owned objects such as the caller's CodeHolder,
   Span and the bytes of its own span; opaque callees) and reads of members that no entry point ever writes *)
Theorem entry_point_unlocked_part_local : forall eps name s t fl,
  check_program eps = [] -> In (name, s) eps -> exec s t fl ->
  unlocked_local (prot_of (written eps)) false t = true.
Proof. intros. eapply wl_unlocked_local. eapply entry_point_well_locked; eauto. Qed.

(* a thread that holds the lock in the middle of a well-locked (balanced) trace still has the release ahead of it, and no
   acquire before that release: together with holder_never_blocks this excludes a deadlock on the allocator lock *)
Lemma holder_will_release : forall prot rest, wl prot true rest = Some false ->
  exists r1 r2, rest = (r1 ++ ERel :: r2)%list /\ ~ In EAcq r1 /\ ~ In ERel r1.
Proof.
  intros prot. induction rest as [|e rest IH]; intros H; cbn [wl] in H; [discriminate|].
  destruct e.
  - discriminate.
  - exists [], rest. split; [reflexivity|]. split; intros [].
  - destruct (prot f && negb true); [discriminate|]. destruct (IH H) as [r1 [r2 [-> [H1 H2]]]].
    exists (ERd o f v :: r1), r2. split; [reflexivity|]. split; intros [E|Hin]; try discriminate; auto.
  - destruct (prot f && true); [|discriminate]. destruct (IH H) as [r1 [r2 [-> [H1 H2]]]].
    exists (EWr o f v :: r1), r2. split; [reflexivity|]. split; intros [E|Hin]; try discriminate; auto.
  - destruct (IH H) as [r1 [r2 [-> [H1 H2]]]].
    exists (ETau :: r1), r2. split; [reflexivity|]. split; intros [E|Hin]; try discriminate; auto.
Qed.

Theorem thread_holder_releases : forall eps t done rest,
  check_program eps = [] -> thread_trace eps t -> t = (done ++ rest)%list ->
  wl (prot_of (written eps)) false done = Some true ->
  exists r1 r2, rest = (r1 ++ ERel :: r2)%list /\ ~ In EAcq r1 /\ ~ In ERel r1.
Proof.
  intros eps t done rest Hc Ht -> Hd. pose proof (thread_well_locked eps _ Hc Ht) as Hw.
  rewrite wl_app, Hd in Hw. eapply holder_will_release; eauto.
Qed.

Lemma excluded_unsafe_sound : forall eps ex, excluded_unsafe_diag eps ex = [] ->
  forall p, In p ex -> chk (written eps) false (snd p) <> [].
Proof.
  intros eps ex H p Hin Hc. unfold excluded_unsafe_diag in H.
  pose proof (flat_map_nil _ _ _ _ H p Hin) as E. cbv beta in E. rewrite Hc in E. discriminate.
Qed.

(* ------------------------------------------------------------------ completeness of the checker on live code *)
Local Close Scope string_scope.

Definition keeps_or_fails (prot : field -> bool) (t : list ev) : Prop :=
  forall h, wl prot h t = None \/ wl prot h t = Some h.

Lemma kof_nil : forall prot, keeps_or_fails prot [].
Proof. intros prot h. right. reflexivity. Qed.

Lemma kof_tau : forall prot, keeps_or_fails prot [ETau].
Proof. intros prot h. right. reflexivity. Qed.

Lemma kof_app : forall prot t1 t2, keeps_or_fails prot t1 -> keeps_or_fails prot t2 -> keeps_or_fails prot (t1 ++ t2).
Proof.
  intros prot t1 t2 H1 H2 h. rewrite wl_app. destruct (H1 h) as [E|E]; rewrite E; [left; reflexivity | apply H2].
Qed.

Lemma kof_locked : forall prot t, keeps_or_fails prot t -> keeps_or_fails prot (EAcq :: t ++ [ERel]).
Proof.
  intros prot t H h. cbn [wl]. destruct h; [left; reflexivity|]. rewrite wl_app.
  destruct (H true) as [E|E]; rewrite E; [left; reflexivity | right; reflexivity].
Qed.

Lemma kof_acc : forall prot cls fld m, is_shared cls = true ->
  exists e, (forall fn, exec (SAcc fn cls fld m) [e] false) /\ keeps_or_fails prot [e].
Proof.
  intros prot cls fld m Hs. destruct m.
  - exists (ERd 0 (cls, fld) 0%Z). split; [intros; apply X_rd; assumption|]. intros h. cbn. destruct (prot (cls, fld) && negb h); auto.
  - exists (EWr 0 (cls, fld) 0%Z). split; [intros; apply X_wr; assumption|]. intros h. cbn. destruct (prot (cls, fld) && h); auto.
  - exists ETau. split; [intros; apply X_init | apply kof_tau].
Qed.

(* every skeleton has an execution that keeps the lock state or already breaks the discipline *)
Lemma nice_exec : forall prot s, exists t fl, exec s t fl /\ keeps_or_fails prot t.
Proof.
  intros prot. induction s.
  - exists [], false. split; [constructor | apply kof_nil].
  - exists [], true. split; [constructor | apply kof_nil].
  - destruct (is_shared cls) eqn:E.
    + destruct (kof_acc prot cls fld m E) as [e [He Hk]]. exists [e], false. auto.
    + exists [ETau], false. split; [apply X_own; assumption | apply kof_tau].
  - exists [ETau], false. split; [constructor | apply kof_tau].
  - exists [ETau], false. split; [constructor | apply kof_tau].
  - exists [ETau], false. split; [apply X_raw | apply kof_tau].
  - destruct IHs as [t [fl [He Hk]]]. exists t, false. split; [econstructor; eassumption | assumption].
  - destruct IHs1 as [t1 [f1 [H1 K1]]]. destruct IHs2 as [t2 [f2 [H2 K2]]]. destruct f1.
    + exists t1, true. split; [apply X_seq_abrupt; assumption | assumption].
    + exists (t1 ++ t2), f2. split; [eapply X_seq; eassumption | apply kof_app; assumption].
  - destruct IHs1 as [t1 [f1 [H1 K1]]]. exists t1, f1. split; [apply X_alt_l; assumption | assumption].
  - exists [], false. split; [constructor | apply kof_nil].
  - destruct IHs as [t [fl [He Hk]]]. exists (EAcq :: t ++ [ERel]), fl. split; [constructor; assumption | apply kof_locked; assumption].
Qed.

Lemma can_normal_exec : forall prot s, can_normal s = true -> exists t, exec s t false /\ keeps_or_fails prot t.
Proof.
  intros prot. induction s; intros Hc; cbn [can_normal] in Hc; try discriminate.
  - exists []. split; [constructor | apply kof_nil].
  - destruct (is_shared cls) eqn:E.
    + destruct (kof_acc prot cls fld m E) as [e [He Hk]]. exists [e]. auto.
    + exists [ETau]. split; [apply X_own; assumption | apply kof_tau].
  - exists [ETau]. split; [constructor | apply kof_tau].
  - exists [ETau]. split; [constructor | apply kof_tau].
  - exists [ETau]. split; [apply X_raw | apply kof_tau].
  - destruct (nice_exec prot s) as [t [fl [He Hk]]]. exists t. split; [econstructor; eassumption | assumption].
  - apply andb_true_iff in Hc. destruct Hc as [C1 C2].
    destruct (IHs1 C1) as [t1 [H1 K1]]. destruct (IHs2 C2) as [t2 [H2 K2]].
    exists (t1 ++ t2). split; [eapply X_seq; eassumption | apply kof_app; assumption].
  - apply orb_true_iff in Hc. destruct Hc as [C|C].
    + destruct (IHs1 C) as [t [H K]]. exists t. split; [apply X_alt_l; assumption | assumption].
    + destruct (IHs2 C) as [t [H K]]. exists t. split; [apply X_alt_r; assumption | assumption].
  - exists []. split; [constructor | apply kof_nil].
  - destruct (IHs Hc) as [t [H K]]. exists (EAcq :: t ++ [ERel]). split; [constructor; assumption | apply kof_locked; assumption].
Qed.

(* COMPLETENESS on live code: a violation found on code that can be reached is a real one - some execution of the skeleton
   breaks the lock discipline (the checker raises no false UNLOCKED / REACQUIRE alarm except on dead code) *)
Theorem viol_complete : forall wr s h, viol wr h s = true ->
  exists t fl, exec s t fl /\ wl (prot_of wr) h t = None.
Proof.
  intros wr. induction s; intros h Hv; cbn [viol] in Hv; try discriminate.
  - (* access *)
    destruct m; try discriminate.
    + apply andb_true_iff in Hv. destruct Hv as [Hv Hh]. apply andb_true_iff in Hv. destruct Hv as [Hs Hm].
      exists [ERd 0 (cls, fld) 0%Z], false. split; [apply X_rd; assumption|]. cbn. unfold prot_of. rewrite Hm, Hh. reflexivity.
    + apply andb_true_iff in Hv. destruct Hv as [Hv Hh]. apply andb_true_iff in Hv. destruct Hv as [Hs Hm].
      exists [EWr 0 (cls, fld) 0%Z], false. split; [apply X_wr; assumption|]. cbn. unfold prot_of. rewrite Hm.
      destruct h; [discriminate | reflexivity].
  - (* raw lock construct: it may be an acquire while held or a release while free *)
    exists [if h then EAcq else ERel], false. split; [apply X_raw|]. destruct h; reflexivity.
  - destruct (IHs h Hv) as [t [fl [He Hw]]]. exists t, false. split; [econstructor; eassumption | assumption].
  - apply orb_true_iff in Hv. destruct Hv as [Hv|Hv].
    + destruct (IHs1 h Hv) as [t [fl [He Hw]]]. destruct fl.
      * exists t, true. split; [apply X_seq_abrupt; assumption | assumption].
      * destruct (nice_exec (prot_of wr) s2) as [t2 [f2 [H2 _]]]. exists (t ++ t2), f2.
        split; [eapply X_seq; eassumption|]. rewrite wl_app, Hw. reflexivity.
    + apply andb_true_iff in Hv. destruct Hv as [Hn Hv].
      destruct (can_normal_exec (prot_of wr) s1 Hn) as [t1 [H1 K1]].
      destruct (IHs2 h Hv) as [t2 [f2 [H2 W2]]].
      exists (t1 ++ t2), f2. split; [eapply X_seq; eassumption|]. rewrite wl_app.
      destruct (K1 h) as [E|E]; rewrite E; [reflexivity | assumption].
  - apply orb_true_iff in Hv. destruct Hv as [Hv|Hv].
    + destruct (IHs1 h Hv) as [t [fl [He Hw]]]. exists t, fl. split; [apply X_alt_l; assumption | assumption].
    + destruct (IHs2 h Hv) as [t [fl [He Hw]]]. exists t, fl. split; [apply X_alt_r; assumption | assumption].
  - destruct (IHs h Hv) as [t [fl [He Hw]]]. destruct fl.
    + exists t, true. split; [apply X_loop_exit; assumption | assumption].
    + exists (t ++ []), false. split; [eapply X_loop_next; [eassumption | constructor]|]. rewrite app_nil_r. assumption.
  - apply orb_true_iff in Hv. destruct Hv as [Hh|Hv].
    + subst h. destruct (nice_exec (prot_of wr) s) as [t [fl [He _]]]. exists (EAcq :: t ++ [ERel]), fl.
      split; [constructor; assumption | reflexivity].
    + destruct (IHs true Hv) as [t [fl [He Hw]]]. exists (EAcq :: t ++ [ERel]), fl. split; [constructor; assumption|].
      cbn [wl]. destruct h; [reflexivity|]. rewrite wl_app, Hw. reflexivity.
Qed.

(* the two checkers agree in the sound direction: a skeleton the reflective checker accepts has no violation on live code *)
Lemma chk_nil_no_viol : forall wr s h, chk wr h s = [] -> viol wr h s = false.
Proof.
  intros wr. induction s; intros h Hc; cbn [chk viol] in *; try reflexivity.
  - destruct m; [| | reflexivity]; destruct (is_shared cls); cbn [andb]; try reflexivity;
      (destruct (mem_field (cls, fld) wr && negb h) eqn:E; [discriminate | reflexivity]).
  - discriminate.
  - apply IHs; assumption.
  - apply app_eq_nil in Hc. destruct Hc as [Ha Hb]. rewrite (IHs1 h Ha), (IHs2 h Hb). cbn. apply andb_false_r.
  - apply app_eq_nil in Hc. destruct Hc as [Ha Hb]. rewrite (IHs1 h Ha), (IHs2 h Hb). reflexivity.
  - apply IHs; assumption.
  - apply app_eq_nil in Hc. destruct Hc as [Hh Hc]. apply app_eq_nil in Hc. destruct Hc as [_ Hb].
    destruct h; [discriminate|]. cbn. apply IHs; assumption.
Qed.

(* non-vacuity: an unlocked write after a locked region is a violation on live code; the same write after a return is dead code *)
Example viol_example :
  let w := SAcc "f"%string "JitAllocatorPool"%string "cursor"%string W in
  let wr := [("JitAllocatorPool"%string, "cursor"%string)] in
  viol wr false (SSeq (SLocked "f"%string "JitAllocatorPrivateImpl"%string "lock"%string w) w) = true /\
  viol wr false (SSeq SRet w) = false /\ chk wr false (SSeq SRet w) <> [].
Proof. cbv zeta. split; [reflexivity|]. split; [reflexivity|]. vm_compute. discriminate. Qed.

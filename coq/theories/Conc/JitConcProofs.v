(* C11 — lifting the sequential C09 theorems to concurrent histories.
   By C11_linearizable every concurrent execution is equivalent to one in which the critical sections (= allocator operations)
   run one after the other in the order of their lock acquisitions.  A concurrent history is therefore a sequence of C09 model
   steps, each tagged with the thread that performed it.  What the sequential theory needs (`valid_op`: release/shrink only of
   live span starts) is a GLOBAL condition; what a multi-threaded client can guarantee is a PER-THREAD one: it releases/shrinks
   only spans it obtained itself and has not released.  This file proves that the per-thread discipline implies the global one
   in every interleaving (other threads' operations never invalidate my spans: frame theorems of C09), hence every state of
   every concurrent history is `reach`able in the sequential model and all C09 theorems apply; and that spans owned by
   different threads are different live spans. *)
From Coq Require Import ZArith List Bool Lia.
From Verif Require Import Jit.JitModel Jit.JitBits Jit.JitBlockProofs Jit.JitProofs Jit.JitWitness.
Import ListNotations.
Local Open Scope Z_scope.

Definition key := (Z * Z)%type.                       (* (block id, start granule) of a span *)
Definition key_eqb (a b : key) : bool := (fst a =? fst b) && (snd a =? snd b).
Definition owners := list (nat * key).                (* (thread, span) *)

Lemma key_eqb_eq : forall a b, key_eqb a b = true <-> a = b.
Proof.
  intros [a1 a2] [b1 b2]. unfold key_eqb. cbn. rewrite andb_true_iff, !Z.eqb_eq.
  split; [intros [-> ->]; reflexivity | intros H; inversion H; auto].
Qed.

Definition drop_key (k : key) (own : owners) : owners := filter (fun e => negb (key_eqb (snd e) k)) own.

(* concurrent histories of disciplined threads (linearisation order); reset is excluded (not thread-safe by contract) *)
Inductive conc_reach (c : config) : state -> owners -> Prop :=
| cr_init : conc_reach c (init_state c) []
| cr_alloc : forall st own (i : nat) size,
    conc_reach c st own -> 0 <= size -> size + c_gran c <= two64 ->
    conc_reach c (fst (alloc c st size))
      (match snd (alloc c st size) with
       | RAlloc Ok id off len => (i, (id, off / pool_gran c (size_to_pool c len))) :: own
       | _ => own end)
| cr_release : forall st own (i : nat) id off b,
    conc_reach c st own -> find_block id (blocks st) = Some b ->
    In (i, (id, off / pool_gran c (b_pool b))) own ->           (* thread i releases a span it owns *)
    conc_reach c (fst (release c st id off)) (drop_key (id, off / pool_gran c (b_pool b)) own)
| cr_shrink : forall st own (i : nat) id off ns b,
    conc_reach c st own -> find_block id (blocks st) = Some b ->
    In (i, (id, off / pool_gran c (b_pool b))) own -> 1 <= ns ->  (* thread i shrinks a span it owns *)
    conc_reach c (fst (shrink c st id off ns)) own
| cr_query : forall st own (i : nat) id off,
    conc_reach c st own -> conc_reach c (fst (step c st (OQuery id off))) own.

Definition keys_live (bl : list block) (own : owners) : Prop :=
  forall i k, In (i, k) own -> exists n, In (fst k, (snd k, n)) (all_live bl).

(* ------------------------------------------------------------------ counting live spans *)
Lemma all_live_cons b r : all_live (b :: r) = map (fun sp => (b_id b, sp)) (b_live b) ++ all_live r.
Proof. reflexivity. Qed.

Lemma all_live_length l : Z.of_nat (length (all_live l)) = total_live l.
Proof.
  induction l as [|b r IH]; [reflexivity|].
  rewrite all_live_cons, app_length, map_length, Nat2Z.inj_add, IH. cbn [total_live]. unfold livef. reflexivity.
Qed.

Lemma nodup_app_intro {A} (l1 l2 : list A) : NoDup l1 -> NoDup l2 -> (forall x, In x l1 -> ~ In x l2) -> NoDup (l1 ++ l2).
Proof.
  induction l1 as [|a l1 IH]; intros H1 H2 Hd; cbn; [assumption|].
  inversion H1 as [|? ? Ha Hl]; subst. constructor.
  - intros Hin. apply in_app_or in Hin. destruct Hin as [Hin|Hin]; [contradiction|]. apply (Hd a); [left; reflexivity|assumption].
  - apply IH; try assumption. intros x Hx. apply Hd. right; assumption.
Qed.

Lemma nodup_map_inj {A B} (f : A -> B) l : (forall x y, f x = f y -> x = y) -> NoDup l -> NoDup (map f l).
Proof.
  intros Hf H. induction H as [|a l Ha Hl IH]; cbn; constructor; [|assumption].
  intros Hin. apply in_map_iff in Hin. destruct Hin as [x [E Hx]]. apply Hf in E. subst x. contradiction.
Qed.

Lemma all_live_nodup l : (forall b, In b l -> NoDup (b_live b)) -> NoDup (map b_id l) -> NoDup (all_live l).
Proof.
  induction l as [|b r IH]; intros Hl Hid; [constructor|].
  rewrite all_live_cons. cbn [map] in Hid. inversion Hid as [|? ? Hb Hr]; subst.
  apply nodup_app_intro.
  - apply nodup_map_inj; [intros x y E; inversion E; reflexivity | apply Hl; left; reflexivity].
  - apply IH; [intros x Hx; apply Hl; right; assumption | assumption].
  - intros x Hx Hin. apply in_map_iff in Hx. destruct Hx as [sp [<- Hsp]].
    apply in_all_live in Hin. destruct Hin as [b' [Hb' [E _]]]. apply Hb. rewrite <- E. apply in_map. assumption.
Qed.

Lemma ginv_all_live_nodup c st : ginv c st -> NoDup (all_live (blocks st)).
Proof.
  intros [GB GI _ _ _ _]. apply all_live_nodup; [|assumption].
  intros b Hb. rewrite Forall_forall in GB. destruct (GB b Hb) as ([S _] & _). exact (bs_nodup b S).
Qed.

(* a start granule identifies its span *)
Lemma live_same_start c st id s n1 n2 : ginv c st ->
  In (id, (s, n1)) (all_live (blocks st)) -> In (id, (s, n2)) (all_live (blocks st)) -> n1 = n2.
Proof.
  intros [GB GI _ _ _ _] H1 H2. apply in_all_live in H1. apply in_all_live in H2.
  destruct H1 as [b1 [B1 [E1 L1]]]. destruct H2 as [b2 [B2 [E2 L2]]].
  assert (b1 = b2) by (apply (nodup_ids_inj (blocks st)); congruence). subst b2.
  rewrite Forall_forall in GB. destruct (GB b1 B1) as ([S _] & _).
  pose proof (live_uniq b1 s n1 S L1 (s, n2) L2 eq_refl) as E. inversion E. reflexivity.
Qed.

(* ------------------------------------------------------------------ shape of alloc *)
Lemma alloc_shape c st size :
  (exists e, e <> Ok /\ exists a b d, alloc c st size = (st, RAlloc e a b d)) \/
  (exists id off len, snd (alloc c st size) = RAlloc Ok id off len /\ acount (fst (alloc c st size)) = acount st + 1).
Proof.
  unfold alloc. cbv zeta.
  destruct (_ =? 0); [left; exists InvalidArgument; split; [discriminate | eauto]|].
  destruct (2147483647 <=? _); [left; exists TooLarge; split; [discriminate | eauto]|].
  destruct (try_blocks _ _ _ _) as [bl' [[[id s] we]|]]; right; cbn [fst snd acount]; eauto.
Qed.

(* the span returned by a successful alloc was not live before *)
Lemma alloc_fresh c st size id off len : cfg_ok c -> reach c st -> 0 <= size -> size + c_gran c <= two64 ->
  snd (alloc c st size) = RAlloc Ok id off len ->
  forall n, ~ In (id, (off / pool_gran c (size_to_pool c len), n)) (all_live (blocks st)).
Proof.
  intros Hc R Hs0 Hs1 Hres n Hold.
  destruct (alloc c st size) as [st' res] eqn:EA. cbn [snd fst] in *. subst res.
  pose proof (alloc_frame c st size st' id off len Hc R Hs0 Hs1 EA) as F. cbv zeta in F.
  assert (R' : reach c st').
  { replace st' with (fst (step c st (OAlloc size))) by (cbn [step]; rewrite EA; reflexivity).
    apply reach_step; [assumption | exact I]. }
  pose proof (reach_ginv c st Hc R) as G. pose proof (reach_ginv c st' Hc R') as G'.
  set (g := pool_gran c (size_to_pool c len)) in *.
  (* the old span with that start is the new span *)
  assert (Hnew : In (id, (off / g, len / g)) (all_live (blocks st'))) by (apply F; left; reflexivity).
  assert (Hold' : In (id, (off / g, n)) (all_live (blocks st'))) by (apply F; right; assumption).
  pose proof (live_same_start c st' id (off / g) _ _ G' Hnew Hold') as En. subst n.
  (* so the two states have the same set of live spans, but the counter grew *)
  assert (I1 : incl (all_live (blocks st')) (all_live (blocks st))).
  { intros x Hx. apply F in Hx. destruct Hx as [->|Hx]; assumption. }
  assert (I2 : incl (all_live (blocks st)) (all_live (blocks st'))).
  { intros x Hx. apply F. right; assumption. }
  pose proof (NoDup_incl_length (ginv_all_live_nodup c st' G') I1) as L1.
  pose proof (NoDup_incl_length (ginv_all_live_nodup c st G) I2) as L2.
  pose proof (all_live_length (blocks st)) as C1. pose proof (all_live_length (blocks st')) as C2.
  destruct G as [_ _ _ _ GC _]. destruct G' as [_ _ _ _ GC' _].
  destruct (alloc_shape c st size) as [[e [He [a [b [d E]]]]]|[id' [off' [len' [E1 E2]]]]].
  - rewrite EA in E. inversion E; subst. contradiction.
  - rewrite EA in E2. cbn [fst] in E2. lia.
Qed.

Lemma nodup_drop_key k own : NoDup (map snd own) -> NoDup (map snd (drop_key k own)).
Proof.
  induction own as [|e own IH]; cbn; intros H; [constructor|].
  inversion H as [|? ? Hn Hr]; subst. destruct (negb (key_eqb (snd e) k)); cbn; [|apply IH; assumption].
  constructor; [|apply IH; assumption].
  intros Hin. apply Hn. apply in_map_iff in Hin. destruct Hin as [x [E Hx]]. apply in_map_iff. exists x. split; [assumption|].
  unfold drop_key in Hx. apply filter_In in Hx. tauto.
Qed.

Lemma in_drop_key k own i k' : In (i, k') (drop_key k own) -> In (i, k') own /\ k' <> k.
Proof.
  unfold drop_key. intros H. apply filter_In in H. destruct H as [H1 H2]. split; [assumption|].
  cbn in H2. intros ->. rewrite (proj2 (key_eqb_eq k k) eq_refl) in H2. discriminate.
Qed.

(* owned span -> the facts the sequential theorems need *)
Lemma owned_live c st own i id off b : ginv c st -> keys_live (blocks st) own ->
  find_block id (blocks st) = Some b -> In (i, (id, off / pool_gran c (b_pool b))) own ->
  exists n, In (off / pool_gran c (b_pool b), n) (b_live b) /\ valid_ptr c st id off.
Proof.
  intros G KL Hf Hin. destruct (KL _ _ Hin) as [n Hn]. cbn [fst snd] in Hn.
  apply in_all_live in Hn. destruct Hn as [b0 [B0 [E0 L0]]].
  destruct (find_block_in _ _ _ Hf) as [Bb Eb].
  assert (b0 = b) by (destruct G as [_ GI _ _ _ _]; apply (nodup_ids_inj (blocks st)); congruence). subst b0.
  exists n. split; [assumption|]. intros b' Hf'. rewrite Hf in Hf'. inversion Hf'; subst. eauto.
Qed.

(* ------------------------------------------------------------------ the lifting theorem *)
Theorem conc_reach_sound : forall c st own, cfg_ok c -> conc_reach c st own ->
  reach c st /\ keys_live (blocks st) own /\ NoDup (map snd own).
Proof.
  intros c st own Hc H. induction H as [| st own i size H IH Hs0 Hs1 | st own i id off b H IH Hf Hin
                                        | st own i id off ns b H IH Hf Hin Hns | st own i id off H IH].
  - split; [constructor|]. split; [intros i k []|constructor].
  - (* alloc *)
    destruct IH as [R [KL ND]].
    assert (R' : reach c (fst (alloc c st size))) by (apply (reach_step c st (OAlloc size) R I)).
    split; [exact R'|].
    destruct (alloc_shape c st size) as [[e [He [a [b [d E]]]]]|[id [off [len [E1 E2]]]]].
    + rewrite E. cbn [fst snd]. destruct e; try contradiction; auto.
    + rewrite E1. destruct (alloc c st size) as [st' res] eqn:EA. cbn [fst snd] in *. subst res.
      pose proof (alloc_frame c st size st' id off len Hc R Hs0 Hs1 EA) as F. cbv zeta in F.
      split.
      * intros j k [Ek|Hk].
        -- inversion Ek; subst. cbn [fst snd]. exists (len / pool_gran c (size_to_pool c len)). apply F. left; reflexivity.
        -- destruct (KL j k Hk) as [n Hn]. exists n. apply F. right; assumption.
      * cbn [map snd]. constructor; [|assumption].
        intros Hin. apply in_map_iff in Hin. destruct Hin as [[j k] [Ek Hk]]. cbn [snd] in Ek. subst k.
        destruct (KL j _ Hk) as [n Hn]. cbn [fst snd] in Hn.
        refine (alloc_fresh c st size id off len Hc R Hs0 Hs1 _ n Hn). rewrite EA. reflexivity.
  - (* release *)
    destruct IH as [R [KL ND]]. pose proof (reach_ginv c st Hc R) as G.
    destruct (owned_live c st own i id off b G KL Hf Hin) as [n [Hl Hv]].
    split; [apply (reach_step c st (ORelease id off) R Hv)|].
    destruct (release_frame c st id off b _ n Hc R Hf eq_refl Hl) as [_ F].
    split; [|apply nodup_drop_key; assumption].
    intros j k Hk. apply in_drop_key in Hk. destruct Hk as [Hk Hne].
    destruct (KL j k Hk) as [n' Hn']. exists n'. apply F. split; [assumption|].
    intros E. apply Hne. destruct k as [k1 k2]. cbn [fst snd] in E. inversion E. reflexivity.
  - (* shrink *)
    destruct IH as [R [KL ND]]. pose proof (reach_ginv c st Hc R) as G.
    destruct (owned_live c st own i id off b G KL Hf Hin) as [n [Hl Hv]].
    split; [apply (reach_step c st (OShrink id off ns) R); split; [assumption | lia]|].
    split; [|assumption].
    pose proof (shrink_frame c st id off ns b _ n Hc R Hf eq_refl Hl Hns) as F. cbv zeta in F.
    destruct F as [F1 [F2 F3]].
    set (g := pool_gran c (b_pool b)) in *. set (m := (ns + g - 1) / g) in *.
    destruct (Z.lt_trichotomy n m) as [Hlt|[Heq|Hgt]].
    + rewrite (F1 Hlt). exact KL.
    + rewrite (F2 (eq_sym Heq)). exact KL.
    + destruct (F3 Hgt) as [_ F]. intros j [k1 k2] Hk. destruct (KL j _ Hk) as [n' Hn']. cbn [fst snd] in *.
      destruct (key_eqb (k1, k2) (id, off / g)) eqn:Ek.
      * apply key_eqb_eq in Ek. injection Ek as E1 E2. exists m. apply F. left. rewrite E1, E2. reflexivity.
      * exists n'. apply F. right. split; [assumption|]. intros E. injection E as E1 E2 E3.
        rewrite E1, E2 in Ek. rewrite (proj2 (key_eqb_eq _ _) eq_refl) in Ek. discriminate.
  - (* query *)
    cbn [step fst]. exact IH.
Qed.

(* spans owned by different threads are different spans, and both are live (so C09_live_disjoint separates their memory) *)
Theorem owned_spans_distinct : forall c st own i j k1 k2, cfg_ok c -> conc_reach c st own ->
  In (i, k1) own -> In (j, k2) own -> i <> j ->
  k1 <> k2 /\ (exists n1, In (fst k1, (snd k1, n1)) (all_live (blocks st))) /\
              (exists n2, In (fst k2, (snd k2, n2)) (all_live (blocks st))).
Proof.
  intros c st own i j k1 k2 Hc H H1 H2 Hij. destruct (conc_reach_sound c st own Hc H) as [_ [KL ND]].
  split; [|split; eauto].
  intros ->. apply Hij. clear KL Hij H. induction own as [|e own IH]; [contradiction|].
  cbn [map] in ND. inversion ND as [|? ? Hn Hr]; subst.
  destruct H1 as [E1|H1], H2 as [E2|H2].
  - rewrite E1 in E2. injection E2 as E. exact E.
  - exfalso. apply Hn. rewrite E1. cbn [snd]. apply in_map_iff. exists (j, k2). auto.
  - exfalso. apply Hn. rewrite E2. cbn [snd]. apply in_map_iff. exists (i, k2). auto.
  - apply IH; assumption.
Qed.

(* every C09 theorem that is stated for `reach`able states therefore holds of every state of every concurrent history *)
Corollary conc_reach_reach : forall c st own, cfg_ok c -> conc_reach c st own -> reach c st.
Proof. intros c st own Hc H. exact (proj1 (conc_reach_sound c st own Hc H)). Qed.

Corollary conc_ginv : forall c st own, cfg_ok c -> conc_reach c st own -> ginv c st.
Proof. intros c st own Hc H. apply reach_ginv; [assumption | exact (conc_reach_reach c st own Hc H)]. Qed.

Corollary conc_live_disjoint : forall c st own, cfg_ok c -> conc_reach c st own ->
  forall b1 b2 sp1 sp2, In b1 (blocks st) -> In b2 (blocks st) -> In sp1 (b_live b1) -> In sp2 (b_live b2) ->
  (b_id b1 = b_id b2 -> b1 = b2) /\
  (1 <= snd sp1 /\ b_pad b1 <= fst sp1 /\ fst sp1 + snd sp1 <= b_area b1) /\
  (b1 = b2 -> forall i, in_span sp1 i -> in_span sp2 i -> sp1 = sp2).
Proof. intros c st own Hc H. exact (live_spans_disjoint c st Hc (conc_reach_reach c st own Hc H)). Qed.

Corollary conc_stats_exact : forall c st own, cfg_ok c -> conc_reach c st own ->
  s_allocs (statistics c st) = total_live (blocks st) /\
  s_used (statistics c st) =
    fold_right (fun b a => (b_pad b + sum_len (b_live b)) * pool_gran c (b_pool b) + a) 0 (blocks st) /\
  s_reserved (statistics c st) = fold_right (fun b a => b_area b * pool_gran c (b_pool b) + a) 0 (blocks st).
Proof. intros c st own Hc H. exact (stats_exact c st Hc (conc_reach_reach c st own Hc H)). Qed.

(* what a thread gets from a successful alloc in the middle of any concurrent history: at least the requested size, aligned,
   live in the new state, a new block only if no existing block of the pool had room - and (alloc_fresh) a span nobody owns *)
Corollary conc_alloc_result : forall c st own size st' id off len, cfg_ok c -> conc_reach c st own ->
  0 <= size -> size + c_gran c <= two64 -> alloc c st size = (st', RAlloc Ok id off len) ->
  (size <= len < size + c_gran c /\ len mod c_gran c = 0 /\
   exists b, In b (blocks st') /\ b_id b = id /\ b_pool b = size_to_pool c len /\
             off mod pool_gran c (b_pool b) = 0 /\ len mod pool_gran c (b_pool b) = 0 /\
             In (off / pool_gran c (b_pool b), len / pool_gran c (b_pool b)) (b_live b) /\
             (nextid st' <> nextid st ->
              forall b0, In b0 (blocks st) -> b_pool b0 = b_pool b -> no_room b0 (len / pool_gran c (b_pool b)))) /\
  (forall j k, In (j, k) own -> k <> (id, off / pool_gran c (size_to_pool c len))).
Proof.
  intros c st own size st' id off len Hc H Hs0 Hs1 HA.
  destruct (conc_reach_sound c st own Hc H) as [R [KL _]].
  split; [exact (alloc_result c st size st' id off len Hc R Hs0 Hs1 HA)|].
  intros j k Hin ->. destruct (KL j _ Hin) as [n Hn]. cbn [fst snd] in Hn.
  refine (alloc_fresh c st size id off len Hc R Hs0 Hs1 _ n Hn). rewrite HA. reflexivity.
Qed.

(* the hypotheses are satisfiable: thread 0 allocates, thread 1 allocates, thread 0 releases its span *)
Example conc_reach_example : exists st own, conc_reach JitWitness.cfg_f st own /\ map fst own = [1%nat].
Proof.
  eexists. eexists. split.
  - eapply (cr_release JitWitness.cfg_f _ _ 0%nat 0 64).
    + eapply (cr_alloc JitWitness.cfg_f _ _ 1%nat 200).
      * eapply (cr_alloc JitWitness.cfg_f _ _ 0%nat 100); [apply cr_init | lia | vm_compute; discriminate].
      * lia.
      * vm_compute. discriminate.
    + vm_compute. reflexivity.
    + vm_compute. right. left. reflexivity.
  - vm_compute. reflexivity.
Qed.

(* C11 — ONE theorem from the cell-level event model to the sequential C09 allocator model.
   Composition closed here:  (1) serialisability of critical sections (ConcProofs.serialisable)
                             (2) "a critical section executed alone implements one step of the C09 model" — the sequential
                                 correspondence that C09's check establishes by its differential run; here an explicit hypothesis
                                 (seq_refines) over an abstraction function abs : memory -> JitModel.state and a labelling of sections
                             (3) per-thread ownership discipline => every operation is valid in every interleaving (JitConcProofs)
   Result: for every concurrent cell-level execution of disciplined threads the abstraction of the final memory is the state the
   sequential model reaches by running the labels of the critical sections in the order of their lock acquisitions, it is
   `reach`able, and the C09 invariant holds of it. *)
From Coq Require Import ZArith List Bool Lia.
From Verif Require Import Jit.JitModel Jit.JitBits Jit.JitBlockProofs Jit.JitProofs Jit.JitWitness Conc.JitConcProofs.
From Verif Require Import Conc.LockModel Conc.LockProofs Conc.ConcModel Conc.ConcProofs.
Import ListNotations.

(* the critical sections of a serial execution, in order: (thread, events between its Acq and its Rel) *)
Fixpoint sections (cur : option (nat * list ev)) (tr : list (nat * ev)) : list (nat * list ev) :=
  match tr with
  | [] => []
  | (i, EAcq) :: r => sections (Some (i, [])) r
  | (_, ERel) :: r => match cur with Some sec => sec :: sections None r | None => sections None r end
  | (_, e) :: r => match cur with Some (j, body) => sections (Some (j, body ++ [e])) r | None => sections None r end
  end.

(* every write is performed by the current owner of the lock *)
Definition writes_locked (o0 : option nat) (tr : list (nat * ev)) : Prop :=
  forall a i o f v b, tr = a ++ (i, EWr o f v) :: b -> fold_left owner_step a o0 = Some i.

Lemma disciplined_writes_locked : forall prot m tr s, run (init m) tr = Some s -> disciplined prot tr -> writes_locked None tr.
Proof.
  intros prot m tr s Hr Hd a i o f v b ->.
  pose proof (disc_write_prot _ _ _ _ _ _ _ Hd) as Hp.
  pose proof (access_holds prot a i (EWr o f v) b Hd Hp) as Hh.
  apply run_app_some in Hr. destruct Hr as [sa [Hra _]].
  apply (own_inv prot m a sa Hra (disciplined_prefix _ _ _ Hd)) in Hh.
  pose proof (run_owner _ _ _ Hra) as Ho. cbn in Ho. rewrite <- Ho. exact Hh.
Qed.

Lemma writes_locked_tail : forall o0 x r, writes_locked o0 (x :: r) -> writes_locked (owner_step o0 x) r.
Proof. intros o0 x r H a i o f v b ->. apply (H (x :: a) i o f v b). reflexivity. Qed.

Lemma jit_run_fold : forall c ops st, JitModel.run c st ops = fold_left (fun s o => fst (JitModel.step c s o)) ops st.
Proof. induction ops as [|o r IH]; intros st; cbn; [reflexivity | apply IH]. Qed.

Section Refinement.
  Variable c : config.
  Variable abs : memory -> JitModel.state.                 (* abstraction of the protected cells *)
  Variable lab : nat -> list ev -> op.                     (* which allocator operation a critical section is *)
  Variable is_section : nat -> list ev -> Prop.            (* the critical sections the program can produce *)

  (* sequential correspondence (C09's tie), per critical section executed alone *)
  Definition seq_refines : Prop :=
    forall j body m0 m1, is_section j body ->
      run (mkst m0 (Some j)) (map (pair j) body) = Some (mkst m1 (Some j)) ->
      abs m1 = fst (JitModel.step c (abs m0) (lab j body)).

  Definition sec_step (st : JitModel.state) (sec : nat * list ev) : JitModel.state :=
    fst (JitModel.step c st (lab (fst sec) (snd sec))).

  Lemma sections_sound : seq_refines -> forall tr m o cur st0 s,
    run (mkst m o) tr = Some s -> serial o tr -> st_owner s = None -> writes_locked o tr ->
    Forall (fun sec => is_section (fst sec) (snd sec)) (sections cur tr) ->
    (match o with
     | None => cur = None /\ abs m = st0
     | Some j => exists body m0, cur = Some (j, body) /\ abs m0 = st0 /\
                                 run (mkst m0 (Some j)) (map (pair j) body) = Some (mkst m (Some j))
     end) ->
    abs (st_mem s) = fold_left sec_step (sections cur tr) st0.
  Proof.
    intros Hseq. induction tr as [|[i e] r IH]; intros m o cur st0 s Hr Hser Hfin Hw Hall Hinv.
    - cbn in Hr. inversion Hr; subst. cbn in *. subst o. cbn. exact (proj2 Hinv).
    - cbn [run] in Hr. destruct (step (mkst m o) (i, e)) as [s1|] eqn:Hs; [|discriminate].
      cbn [serial] in Hser. destruct Hser as [Hown Hser].
      pose proof (writes_locked_tail _ _ _ Hw) as Hw'.
      unfold step in Hs. cbn [fst snd st_owner st_mem] in Hs.
      destruct o as [j|].
      + (* inside the section of j *)
        cbn [fst] in Hown. subst i. destruct Hinv as [body [m0 [-> [Ha Hb]]]].
        destruct e.
        * discriminate.
        * rewrite Nat.eqb_refl in Hs. inversion Hs; subst s1. cbn [sections] in *.
          inversion Hall as [|? ? Hsec Hall']; subst. cbn [fold_left].
          apply (IH m None None _ s Hr Hser Hfin Hw' Hall').
          split; [reflexivity|]. unfold sec_step. cbn [fst snd]. apply (Hseq j body m0 m Hsec Hb).
        * destruct (Z.eqb (m o f) v) eqn:Hv; [|discriminate]. inversion Hs; subst s1. cbn [sections] in *.
          apply (IH m (Some j) _ st0 s Hr Hser Hfin Hw' Hall).
          exists (body ++ [ERd o f v]), m0. split; [reflexivity|]. split; [assumption|].
          rewrite map_app, run_app, Hb. cbn. unfold step. cbn. rewrite Hv. reflexivity.
        * inversion Hs; subst s1. cbn [sections] in *.
          apply (IH _ (Some j) _ st0 s Hr Hser Hfin Hw' Hall).
          exists (body ++ [EWr o f v]), m0. split; [reflexivity|]. split; [assumption|].
          rewrite map_app, run_app, Hb. reflexivity.
        * inversion Hs; subst s1. cbn [sections] in *.
          apply (IH m (Some j) _ st0 s Hr Hser Hfin Hw' Hall).
          exists (body ++ [ETau]), m0. split; [reflexivity|]. split; [assumption|].
          rewrite map_app, run_app, Hb. reflexivity.
      + (* no section open *)
        destruct Hinv as [-> Hinv]. destruct e; cbn [sections] in Hall |- *.
        * inversion Hs; subst s1.
          apply (IH m (Some i) _ st0 s Hr Hser Hfin Hw' Hall).
          exists [], m. split; [reflexivity|]. split; [assumption | reflexivity].
        * discriminate.
        * destruct (Z.eqb (m o f) v); [|discriminate]. inversion Hs; subst s1.
          apply (IH m None None st0 s Hr Hser Hfin Hw' Hall (conj eq_refl Hinv)).
        * exfalso. specialize (Hw [] i o f v r eq_refl). cbn in Hw. discriminate.
        * inversion Hs; subst s1.
          apply (IH m None None st0 s Hr Hser Hfin Hw' Hall (conj eq_refl Hinv)).
  Qed.
End Refinement.

Lemma fold_sec_step_map : forall c lab l st0,
  fold_left (sec_step c lab) l st0 =
  fold_left (fun s o => fst (JitModel.step c s o)) (map (fun sec : nat * list ev => lab (fst sec) (snd sec)) l) st0.
Proof. induction l as [|sec l IH]; intros st0; cbn; [reflexivity | apply IH]. Qed.

(* ------------------------------------------------------------------ per-thread ownership discipline on a labelled history *)
Local Open Scope Z_scope.

Fixpoint conc_ok (c : config) (st : JitModel.state) (own : owners) (ops : list (nat * op)) : Prop :=
  match ops with
  | [] => True
  | (i, OAlloc size) :: r =>
      0 <= size /\ size + c_gran c <= two64 /\
      conc_ok c (fst (alloc c st size))
        (match snd (alloc c st size) with
         | RAlloc Ok id off len => (i, (id, off / pool_gran c (size_to_pool c len))) :: own
         | _ => own end) r
  | (i, ORelease id off) :: r =>
      match find_block id (blocks st) with
      | Some b => In (i, (id, off / pool_gran c (b_pool b))) own /\
                  conc_ok c (fst (release c st id off)) (drop_key (id, off / pool_gran c (b_pool b)) own) r
      | None => False end
  | (i, OShrink id off ns) :: r =>
      match find_block id (blocks st) with
      | Some b => In (i, (id, off / pool_gran c (b_pool b))) own /\ 1 <= ns /\ conc_ok c (fst (shrink c st id off ns)) own r
      | None => False end
  | (i, OQuery id off) :: r => conc_ok c st own r
  | (_, OReset _) :: _ => False
  end.

Lemma conc_ok_reach : forall c ops st own, conc_reach c st own -> conc_ok c st own ops ->
  exists own', conc_reach c (JitModel.run c st (map snd ops)) own'.
Proof.
  induction ops as [|[i o] r IH]; intros st own H Hok; cbn [map snd JitModel.run]; [eauto|].
  destruct o; cbn [conc_ok JitModel.step] in *.
  - destruct Hok as [H0 [H1 Hr]]. eapply IH; [|exact Hr]. apply cr_alloc; assumption.
  - destruct (find_block id (blocks st)) as [b|] eqn:Hf; [|contradiction]. destruct Hok as [Hin Hr].
    eapply IH; [|exact Hr]. eapply cr_release; eauto.
  - destruct (find_block id (blocks st)) as [b|] eqn:Hf; [|contradiction]. destruct Hok as [Hin [Hns Hr]].
    eapply IH; [|exact Hr]. eapply cr_shrink; eauto.
  - eapply IH; [|exact Hok]. apply (cr_query c st own i id off H).
  - contradiction.
Qed.

(* ------------------------------------------------------------------ the one theorem *)
Theorem concurrent_refines_c09 : forall c prot abs lab is_section m tr s,
  cfg_ok c ->
  run (init m) tr = Some s -> disciplined prot tr -> st_owner s = None ->          (* a cell-level concurrent execution, all sections closed *)
  abs m = init_state c ->
  seq_refines c abs lab is_section ->                                              (* each section alone = one C09 step *)
  Forall (fun sec => is_section (fst sec) (snd sec)) (sections None (ser tr)) ->
  let ops := map (fun sec => (fst sec, lab (fst sec) (snd sec))) (sections None (ser tr)) in
  conc_ok c (init_state c) [] ops ->                                               (* threads release/shrink only their own spans *)
  abs (st_mem s) = JitModel.run c (init_state c) (map snd ops) /\
  reach c (abs (st_mem s)) /\ ginv c (abs (st_mem s)) /\ exists own, conc_reach c (abs (st_mem s)) own.
Proof.
  intros c prot abs lab is_section m tr s Hc Hr Hd Hfin Ha Hseq Hall ops Hok.
  destruct (serialisable prot m tr s Hr Hd) as [Hr' [Hproj [Hser _]]].
  assert (Hd' : disciplined prot (ser tr)) by (intros i; rewrite Hproj; apply Hd).
  pose proof (disciplined_writes_locked prot m (ser tr) s Hr' Hd') as Hw.
  pose proof (sections_sound c abs lab is_section Hseq (ser tr) m None None (init_state c) s Hr' Hser Hfin Hw Hall (conj eq_refl Ha)) as E.
  assert (E2 : abs (st_mem s) = JitModel.run c (init_state c) (map snd ops)).
  { rewrite E, jit_run_fold. unfold ops. rewrite map_map. cbn [snd]. apply fold_sec_step_map. }
  destruct (conc_ok_reach c ops (init_state c) [] (cr_init c) Hok) as [own Hown].
  rewrite <- E2 in Hown.
  split; [exact E2|]. split; [eapply conc_reach_reach; eauto|]. split; [eapply conc_ginv; eauto | eauto].
Qed.

(* the hypotheses are jointly satisfiable (a degenerate instance: one thread, one critical section labelled as a query) *)
Example refine_hyps_sat :
  let c := JitWitness.cfg_f in
  let abs := fun _ : memory => init_state c in
  let lab := fun (_ : nat) (_ : list ev) => OQuery 0 0 in
  let is_section := fun (_ : nat) (_ : list ev) => True in
  let m := fun (_ : nat) (_ : field) => 0%Z in
  let tr := [(0%nat, EAcq); (0%nat, ETau); (0%nat, ERel)] in
  cfg_ok c /\ (exists s, run (init m) tr = Some s /\ st_owner s = None) /\ disciplined (fun _ => true) tr /\
  abs m = init_state c /\ seq_refines c abs lab is_section /\
  Forall (fun sec => is_section (fst sec) (snd sec)) (sections None (ser tr)) /\
  conc_ok c (init_state c) [] (map (fun sec => (fst sec, lab (fst sec) (snd sec))) (sections None (ser tr))).
Proof.
  cbv zeta. split; [exact JitWitness.cfg_f_ok|]. split; [eexists; split; reflexivity|]. split.
  - intros i. destruct i as [|i]; cbn; discriminate.
  - split; [reflexivity|]. split; [intros j body m0 m1 _ _; reflexivity|]. split.
    + cbn. constructor; [exact I | constructor].
    + cbn. exact I.
Qed.

(* ------------------------------------------------------------------ executable ownership discipline *)
Definition own_eqb (a b : nat * key) : bool := Nat.eqb (fst a) (fst b) && key_eqb (snd a) (snd b).
Definition owns (own : owners) (e : nat * key) : bool := existsb (own_eqb e) own.

Lemma owns_in : forall own e, owns own e = true -> In e own.
Proof.
  intros own [i k] H. unfold owns in H. apply existsb_exists in H. destruct H as [[j k'] [Hin E]].
  unfold own_eqb in E. cbn in E. apply andb_true_iff in E. destruct E as [E1 E2].
  apply Nat.eqb_eq in E1. apply key_eqb_eq in E2. subst. assumption.
Qed.

Fixpoint conc_okb (c : config) (st : JitModel.state) (own : owners) (ops : list (nat * op)) : bool :=
  match ops with
  | [] => true
  | (i, OAlloc size) :: r =>
      (0 <=? size) && (size + c_gran c <=? two64) &&
      conc_okb c (fst (alloc c st size))
        (match snd (alloc c st size) with
         | RAlloc Ok id off len => (i, (id, off / pool_gran c (size_to_pool c len))) :: own
         | _ => own end) r
  | (i, ORelease id off) :: r =>
      match find_block id (blocks st) with
      | Some b => owns own (i, (id, off / pool_gran c (b_pool b))) &&
                  conc_okb c (fst (release c st id off)) (drop_key (id, off / pool_gran c (b_pool b)) own) r
      | None => false end
  | (i, OShrink id off ns) :: r =>
      match find_block id (blocks st) with
      | Some b => owns own (i, (id, off / pool_gran c (b_pool b))) && (1 <=? ns) && conc_okb c (fst (shrink c st id off ns)) own r
      | None => false end
  | (i, OQuery id off) :: r => conc_okb c st own r
  | (_, OReset _) :: _ => false
  end.

(* the boolean discipline check decides (one direction) the hypothesis conc_ok of concurrent_refines_c09 *)
Lemma conc_okb_sound : forall c ops st own, conc_okb c st own ops = true -> conc_ok c st own ops.
Proof.
  induction ops as [|[i o] r IH]; intros st own H; cbn [conc_okb conc_ok] in *; [exact I|].
  destruct o.
  - apply andb_true_iff in H. destruct H as [H H3]. apply andb_true_iff in H. destruct H as [H1 H2].
    apply Z.leb_le in H1. apply Z.leb_le in H2. auto.
  - destruct (find_block id (blocks st)); [|discriminate]. apply andb_true_iff in H. destruct H as [H1 H2].
    split; [apply owns_in; assumption | apply IH; assumption].
  - destruct (find_block id (blocks st)); [|discriminate]. apply andb_true_iff in H. destruct H as [H H3].
    apply andb_true_iff in H. destruct H as [H1 H2]. apply Z.leb_le in H2.
    split; [apply owns_in; assumption|]. split; [assumption | apply IH; assumption].
  - apply IH; assumption.
  - discriminate.
Qed.

(* a non-trivial disciplined history, decided by computation: two threads interleave alloc / shrink / query / release *)
Example conc_ok_example :
  conc_ok JitWitness.cfg_f (init_state JitWitness.cfg_f) []
    [(0%nat, OAlloc 100); (1%nat, OAlloc 5000); (0%nat, OShrink 0 64 64); (1%nat, OQuery 0 64); (1%nat, ORelease 0 192); (0%nat, ORelease 0 64)].
Proof. apply conc_okb_sound. vm_compute. reflexivity. Qed.

(* ------------------------------------------------------------------ completeness of the executable discipline check *)
Lemma in_owns : forall own e, In e own -> owns own e = true.
Proof.
  intros own [i k] H. unfold owns. apply existsb_exists. exists (i, k). split; [assumption|].
  unfold own_eqb. cbn. rewrite Nat.eqb_refl. rewrite (proj2 (key_eqb_eq k k) eq_refl). reflexivity.
Qed.

Lemma conc_okb_complete : forall c ops st own, conc_ok c st own ops -> conc_okb c st own ops = true.
Proof.
  induction ops as [|[i o] r IH]; intros st own H; cbn [conc_okb conc_ok] in *; [reflexivity|].
  destruct o.
  - destruct H as [H1 [H2 H3]]. rewrite (proj2 (Z.leb_le _ _) H1), (proj2 (Z.leb_le _ _) H2). cbn. apply IH; assumption.
  - destruct (find_block id (blocks st)); [|contradiction]. destruct H as [H1 H2].
    rewrite (in_owns _ _ H1). cbn. apply IH; assumption.
  - destruct (find_block id (blocks st)); [|contradiction]. destruct H as [H1 [H2 H3]].
    rewrite (in_owns _ _ H1), (proj2 (Z.leb_le _ _) H2). cbn. apply IH; assumption.
  - apply IH; assumption.
  - contradiction.
Qed.

(* the ownership discipline is DECIDABLE: the executable check accepts exactly the disciplined histories *)
Theorem conc_okb_iff : forall c ops st own, conc_okb c st own ops = true <-> conc_ok c st own ops.
Proof. intros. split; [apply conc_okb_sound | apply conc_okb_complete]. Qed.

(* a history that breaks the discipline (thread 1 releases the span of thread 0) is rejected *)
Example conc_ok_negative_example :
  ~ conc_ok JitWitness.cfg_f (init_state JitWitness.cfg_f) [] [(0%nat, OAlloc 100); (1%nat, ORelease 0 64)].
Proof. intros H. apply conc_okb_complete in H. vm_compute in H. discriminate. Qed.

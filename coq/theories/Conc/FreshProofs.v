(* C11 — publication of init-once members (fresh-object refinement).
   Members that are only ever written by the constructor of their object (CXXCtorInitializer, mode I in the skeleton) while the
   constructing thread holds the lock are not "protected": they may be read without the lock.  This file gives the soundness
   argument: if the object is fresh when it is initialised (no other thread has touched it) and every other thread touches the
   object for the first time while holding the lock (it learns the pointer from the lock-protected tree / list / cursor, or from a
   span handed out by a locked alloc), then the initialising write happens-before every read by another thread. *)
From Coq Require Import String List Bool ZArith Lia.
From Verif Require Import Conc.LockModel Conc.LockProofs Conc.ConcModel Conc.ConcProofs.
Import ListNotations.

(* lock state of a thread computed from its own lock events only *)
Fixpoint holds (h : bool) (t : list ev) : bool :=
  match t with
  | [] => h
  | EAcq :: t' => holds true t'
  | ERel :: t' => holds false t'
  | _ :: t' => holds h t'
  end.

Lemma holds_app : forall t1 t2 h, holds h (t1 ++ t2) = holds (holds h t1) t2.
Proof. induction t1 as [|e t1 IH]; intros; cbn; [reflexivity|]. destruct e; apply IH. Qed.

(* validity of the run alone ties the thread-local view to the global owner *)
Lemma own_inv_run : forall m tr s, run (init m) tr = Some s ->
  forall i, holds false (proj i tr) = true <-> st_owner s = Some i.
Proof.
  intros m tr. induction tr as [|x tr IH] using rev_ind; intros s Hr i.
  - cbn in Hr. inversion Hr; subst. cbn. split; discriminate.
  - apply run_app_some in Hr. destruct Hr as [s0 [Hr0 Hx]]. cbn [run] in Hx.
    destruct (step s0 x) as [s1|] eqn:Hs; [|discriminate]. inversion Hx; subst s1. clear Hx.
    pose proof (IH s0 Hr0) as IH0. destruct x as [k e].
    rewrite proj_app, holds_app.
    unfold step in Hs. cbn [fst snd] in Hs.
    destruct (Nat.eq_dec k i) as [->|Hk].
    + rewrite proj_one_eq. pose proof (IH0 i) as IHi.
      destruct e; cbn [holds].
      * destruct (st_owner s0) eqn:Ho; [discriminate|]. inversion Hs; subst; cbn. tauto.
      * destruct (st_owner s0) as [j|] eqn:Ho; [|discriminate]. destruct (Nat.eqb i j); [|discriminate].
        inversion Hs; subst; cbn. split; discriminate.
      * destruct (Z.eqb _ _); [|discriminate]. inversion Hs; subst. exact IHi.
      * inversion Hs; subst; cbn. exact IHi.
      * inversion Hs; subst. exact IHi.
    + rewrite (proj_one_neq i k e Hk). cbn [holds]. pose proof (IH0 i) as IHi.
      destruct e.
      * destruct (st_owner s0) eqn:Ho; [discriminate|]. inversion Hs; subst; cbn.
        split; intros H; [apply IHi in H; discriminate | inversion H; congruence].
      * destruct (st_owner s0) as [j|] eqn:Ho; [|discriminate].
        destruct (Nat.eqb_spec k j); [|discriminate]. subst j. inversion Hs; subst; cbn.
        split; intros H; [apply IHi in H; congruence | discriminate].
      * destruct (Z.eqb _ _); [|discriminate]. inversion Hs; subst. exact IHi.
      * inversion Hs; subst; cbn. exact IHi.
      * inversion Hs; subst. exact IHi.
Qed.

Definition mentions (e : ev) (o : nat) : bool :=
  match e with ERd o' _ _ | EWr o' _ _ => Nat.eqb o o' | _ => false end.

Lemma first_occurrence : forall (A : Type) (P : A -> bool) (l : list A) x, In x l -> P x = true ->
  exists l1 y l2, l = l1 ++ y :: l2 /\ P y = true /\ forall z, In z l1 -> P z = false.
Proof.
  intros A P. induction l as [|a l IH]; intros x Hin Hp; [contradiction|].
  destruct (P a) eqn:Ea.
  - exists [], a, l. repeat split; auto. intros z [].
  - destruct Hin as [->|Hin]; [congruence|].
    destruct (IH x Hin Hp) as [l1 [y [l2 [-> [Hy Hl1]]]]].
    exists (a :: l1), y, l2. repeat split; auto. intros z [<-|Hz]; auto.
Qed.

(* PUBLICATION: the initialisation of a member of a fresh object under the lock is ordered (release -> acquire) before every
   read of that member by another thread, provided other threads first touch the object while holding the lock. *)
Theorem init_once_published : forall m tr s a i o f v b j v' c,
  run (init m) tr = Some s ->
  tr = a ++ (i, EWr o f v) :: b ++ (j, ERd o f v') :: c -> i <> j ->
  holds false (proj i a) = true ->
  (forall k e, In (k, e) a -> k <> i -> mentions e o = false) ->
  (forall pre k e post, tr = pre ++ (k, e) :: post -> k <> i -> mentions e o = true ->
     (forall e0, In (k, e0) pre -> mentions e0 o = false) -> holds false (proj k pre) = true) ->
  exists b1 b2 b3, b = b1 ++ (i, ERel) :: b2 ++ (j, EAcq) :: b3.
Proof.
  intros m tr s a i o f v b j v' c Hr Htr Hij Hi Hfresh Hknow.
  (* first event of j after the initialisation that mentions o *)
  set (P := fun x : nat * ev => Nat.eqb (fst x) j && mentions (snd x) o).
  assert (HP : P (j, ERd o f v') = true) by (unfold P; cbn; now rewrite !Nat.eqb_refl).
  destruct (first_occurrence _ P (b ++ [(j, ERd o f v')]) (j, ERd o f v')) as [b' [y [rest [Hsplit [Hy Hb']]]]];
    [apply in_or_app; right; left; reflexivity | exact HP |].
  destruct y as [k e]. unfold P in Hy. cbn [fst snd] in Hy. apply andb_true_iff in Hy. destruct Hy as [Hk He].
  apply Nat.eqb_eq in Hk. subst k.
  (* b' is a prefix of b *)
  assert (Hpre : exists tail, b = b' ++ tail).
  { destruct rest as [|r rest] using rev_ind.
    - apply app_inj_tail in Hsplit. destruct Hsplit as [-> _]. exists []. now rewrite app_nil_r.
    - clear IHrest. rewrite app_comm_cons, app_assoc in Hsplit. apply app_inj_tail in Hsplit. destruct Hsplit as [-> _].
      exists ((j, e) :: rest). reflexivity. }
  destruct Hpre as [tail ->].
  (* j holds the lock when it first touches o *)
  assert (Htr2 : exists post, tr = (a ++ (i, EWr o f v) :: b') ++ (j, e) :: post).
  { exists (rest ++ c). rewrite Htr.
    replace ((a ++ (i, EWr o f v) :: b') ++ (j, e) :: rest ++ c) with (a ++ (i, EWr o f v) :: (b' ++ (j, e) :: rest) ++ c)
      by (repeat (rewrite <- app_assoc; cbn [app]); reflexivity).
    rewrite <- Hsplit. repeat (rewrite <- app_assoc; cbn [app]). reflexivity. }
  destruct Htr2 as [post Htr2].
  assert (Hj : holds false (proj j (a ++ (i, EWr o f v) :: b')) = true).
  { apply (Hknow _ j e post Htr2 (not_eq_sym Hij) He).
    intros e0 Hin. apply in_app_or in Hin. destruct Hin as [Hin|[Heq|Hin]].
    - apply (Hfresh j e0 Hin). auto.
    - inversion Heq. congruence.
    - specialize (Hb' (j, e0) Hin). unfold P in Hb'. cbn [fst snd] in Hb'. rewrite Nat.eqb_refl in Hb'. exact Hb'. }
  (* owners *)
  rewrite Htr2 in Hr. apply run_app_some in Hr. destruct Hr as [s2 [Hr2 _]].
  pose proof Hr2 as Hr2'. apply run_app_some in Hr2'. destruct Hr2' as [sa [Hra Hrb]].
  apply (own_inv_run m a sa Hra) in Hi.
  apply (own_inv_run m _ s2 Hr2) in Hj.
  cbn [run] in Hrb. destruct (step sa (i, EWr o f v)) as [s1|] eqn:Hs; [|discriminate].
  assert (Ho1 : st_owner s1 = Some i).
  { rewrite (step_access_owner _ _ _ _ Hs); [assumption | exact I]. }
  destruct (release_then_acquire b' s1 s2 i j Hrb Ho1 Hj Hij) as [b1 [b2 [b3 ->]]].
  exists b1, b2, (b3 ++ tail). rewrite <- !app_assoc. cbn. rewrite <- app_assoc. reflexivity.
Qed.

(* ------------------------------------------------------------------ object knowledge instead of the first-touch proviso
   A thread cannot touch an object whose address it has not obtained.  Block addresses are stored only in lock-protected pointer
   members (tree / list links, pool cursor: `block_pointer_fields`, checked against the regenerated skeleton), so another thread
   LEARNS the address of a fresh object by a read of a protected cell - which the lock discipline forces to happen under the
   lock - and that read cannot precede the creation.  Hence the first-touch-under-the-lock proviso of init_once_published follows
   from the discipline plus "j read o's address from a protected pointer cell before using it". *)
Theorem init_once_published_by_knowledge : forall prot m tr s a i o f v b j v' c,
  run (init m) tr = Some s -> disciplined prot tr ->
  tr = a ++ (i, EWr o f v) :: b ++ (j, ERd o f v') :: c -> i <> j ->
  holds false (proj i a) = true ->                                              (* constructor runs under the lock (checker: Ini rule) *)
  (forall k o' f', In (k, ERd o' f' (Z.of_nat o)) a -> prot f' = true -> k = i) ->   (* fresh: nobody else has seen o's address before *)
  (exists pre o' f' post, a ++ (i, EWr o f v) :: b = pre ++ (j, ERd o' f' (Z.of_nat o)) :: post /\ prot f' = true) ->
                                                                                (* j learnt o's address from a protected pointer cell *)
  exists b1 b2 b3, b = b1 ++ (i, ERel) :: b2 ++ (j, EAcq) :: b3.
Proof.
  intros prot m tr s a i o f v b j v' c Hr Hd Htr Hij Hi Hfresh [pre [o' [f' [post [Hsplit Hp]]]]].
  (* the learning read lies in b *)
  assert (Hb : exists b' b'', b = b' ++ (j, ERd o' f' (Z.of_nat o)) :: b'' /\ pre = a ++ (i, EWr o f v) :: b').
  { clear - Hsplit Hfresh Hp Hij. revert pre Hsplit. induction a as [|x a IH]; intros pre Hsplit.
    - cbn [app] in Hsplit. destruct pre as [|y pre]; cbn [app] in Hsplit.
      + inversion Hsplit.
      + inversion Hsplit; subst. exists pre, post. auto.
    - destruct pre as [|y pre]; cbn [app] in Hsplit.
      + inversion Hsplit; subst. exfalso. apply Hij. symmetry. apply (Hfresh j o' f'); [left; reflexivity | assumption].
      + inversion Hsplit; subst. destruct (IH (fun k o0 f0 H => Hfresh k o0 f0 (or_intror H)) pre H1) as [b' [b'' [E1 E2]]].
        exists b', b''. split; [assumption|]. cbn [app]. rewrite E2. reflexivity. }
  destruct Hb as [b' [b'' [-> ->]]].
  (* j holds the lock at the learning read, i at the initialisation *)
  assert (Htr2 : tr = (a ++ (i, EWr o f v) :: b') ++ (j, ERd o' f' (Z.of_nat o)) :: (b'' ++ (j, ERd o f v') :: c)).
  { rewrite Htr. repeat (rewrite <- app_assoc; cbn [app]). reflexivity. }
  assert (Hd2 : disciplined prot ((a ++ (i, EWr o f v) :: b') ++ (j, ERd o' f' (Z.of_nat o)) :: (b'' ++ (j, ERd o f v') :: c)))
    by (rewrite <- Htr2; exact Hd).
  pose proof (access_holds prot _ j _ _ Hd2 Hp) as Hj.
  rewrite Htr2 in Hr. apply run_app_some in Hr. destruct Hr as [s2 [Hr2 _]].
  apply (own_inv prot m _ s2 Hr2 (disciplined_prefix _ _ _ Hd2)) in Hj.
  pose proof Hr2 as Hr2'. apply run_app_some in Hr2'. destruct Hr2' as [sa [Hra Hrb]].
  apply (own_inv_run m a sa Hra) in Hi.
  cbn [run] in Hrb. destruct (step sa (i, EWr o f v)) as [s1|] eqn:Hs; [|discriminate].
  assert (Ho1 : st_owner s1 = Some i).
  { rewrite (step_access_owner _ _ _ _ Hs); [assumption | exact I]. }
  destruct (release_then_acquire b' s1 s2 i j Hrb Ho1 Hj Hij) as [b1 [b2 [b3 ->]]].
  exists b1, b2, (b3 ++ (j, ERd o' f' (Z.of_nat o)) :: b''). repeat (rewrite <- app_assoc; cbn [app]). reflexivity.
Qed.

(* C11 — the generic theorems instantiated for a checked program (list of entry-point skeletons), and non-interference of
   threads that only touch objects they own. *)
From Coq Require Import String List Bool ZArith Lia.
From Verif Require Import Conc.LockModel Conc.LockProofs Conc.ConcModel Conc.ConcProofs.
Import ListNotations.

Lemma program_disciplined : forall eps tr,
  check_program eps = [] -> runs_program eps tr -> disciplined (prot_of (written eps)) tr.
Proof.
  intros eps tr Hc Hp i. destruct (Hp i) as [t [rest [Ht E]]].
  pose proof (thread_well_locked eps t Hc Ht) as Hw. rewrite E in Hw.
  eapply wl_prefix. rewrite Hw. discriminate.
Qed.

Theorem program_drf : forall eps m tr s a i e1 b j e2 c,
  check_program eps = [] -> runs_program eps tr -> run (init m) tr = Some s ->
  tr = a ++ (i, e1) :: b ++ (j, e2) :: c -> i <> j -> conflict e1 e2 ->
  exists b1 b2 b3, b = b1 ++ (i, ERel) :: b2 ++ (j, EAcq) :: b3.
Proof. intros. eapply drf_hb; eauto using program_disciplined. Qed.

Theorem program_serialisable : forall eps m tr s,
  check_program eps = [] -> runs_program eps tr -> run (init m) tr = Some s ->
  run (init m) (ser tr) = Some s /\
  (forall i, proj i (ser tr) = proj i tr) /\
  serial None (ser tr) /\
  filter (keyb (prot_of (written eps))) (ser tr) = filter (keyb (prot_of (written eps))) tr.
Proof. intros. eapply serialisable; eauto using program_disciplined. Qed.

Theorem program_holder_never_blocks : forall eps m tr s i e rest,
  check_program eps = [] -> runs_program eps (tr ++ (i, e) :: rest) -> run (init m) tr = Some s ->
  st_owner s = Some i -> e <> EAcq.
Proof. intros. eapply holder_never_blocks; eauto using program_disciplined. Qed.

(* ------------------------------------------------------------------ independent threads *)

Lemma alone_app : forall i a b, alone i (a ++ b) = alone i a ++ alone i b.
Proof. intros. unfold alone. apply filter_app. Qed.

(* NON-INTERFERENCE: if every memory cell is touched only by the thread that owns its object (no shared mutable state)
   and no lock is involved, each thread's events form a valid execution on their own from the same initial memory
   (it reads exactly the values it would read alone) and leaves the cells it owns as in the concurrent execution. *)
Theorem independent_threads_alone : forall (own : nat -> nat) m tr s,
  run (init m) tr = Some s ->
  (forall k e, In (k, e) tr ->
     match e with ERd o _ _ | EWr o _ _ => own o = k | ETau => True | EAcq | ERel => False end) ->
  forall i, exists si, run (init m) (alone i tr) = Some si /\
                       forall o f, own o = i -> st_mem si o f = st_mem s o f.
Proof.
  intros own m tr. induction tr as [|x tr IH] using rev_ind; intros s Hr Hown i.
  - cbn in *. inversion Hr; subst. exists (init m). auto.
  - apply run_app_some in Hr. destruct Hr as [s0 [Hr0 Hx]]. cbn [run] in Hx.
    destruct (step s0 x) as [s1|] eqn:Hs; [|discriminate]. inversion Hx; subst s1.
    assert (Hown0 : forall k e, In (k, e) tr ->
              match e with ERd o _ _ | EWr o _ _ => own o = k | ETau => True | EAcq | ERel => False end).
    { intros k e Hin. apply Hown. apply in_or_app. left; assumption. }
    destruct (IH s0 Hr0 Hown0 i) as [si [Hri Heq]].
    destruct x as [k e].
    assert (Hk := Hown k e (in_or_app tr [(k, e)] (k, e) (or_intror (in_eq (k, e) [])))).
    rewrite alone_app. unfold alone at 2. cbn [filter fst].
    unfold step in Hs. cbn [fst snd] in Hs.
    destruct (Nat.eqb_spec k i) as [->|Hki].
    + (* own step *)
      destruct e; try contradiction.
      * destruct (Z.eqb (st_mem s0 o f) v) eqn:Hv; [|discriminate]. inversion Hs; subst s.
        exists si. split; [|assumption]. rewrite run_app, Hri. cbn. unfold step. cbn [fst snd].
        rewrite (Heq o f Hk), Hv. reflexivity.
      * inversion Hs; subst s. exists (mkst (upd (st_mem si) o f v) (st_owner si)). split.
        -- rewrite run_app, Hri. reflexivity.
        -- intros o' f' Ho'. cbn. unfold upd. rewrite (Heq o' f' Ho'). reflexivity.
      * inversion Hs; subst s. exists si. split; [|assumption]. rewrite run_app, Hri. reflexivity.
    + (* step of another thread: cells of i are untouched *)
      exists si. rewrite app_nil_r. split; [assumption|].
      intros o' f' Ho'. rewrite (Heq o' f' Ho').
      destruct e; try contradiction.
      * destruct (Z.eqb _ _); [now inversion Hs | discriminate].
      * inversion Hs; subst s. cbn. unfold upd.
        destruct (Nat.eqb_spec o o') as [->|]; [|reflexivity]. congruence.
      * now inversion Hs.
Qed.

(* C11 — process-wide caches behind the API (VirtMem function-local statics, CpuInfo::host()): skeleton of the accesses to
   variables with static storage duration, reflective checker, trace semantics.  Definitions only. *)
From Coq Require Import String List Bool.
Import ListNotations.
Local Open Scope string_scope.

Inductive vsk :=
| VSkip | VRet
| VAtomic (fn name : string)                    (* operation on a std::atomic static: never a data race (C++ [intro.races]) *)
| VPlain (fn name : string) (write : bool)      (* access to a non-atomic static *)
| VCall (fn callee : string)
| VSet (fn flag : string)                       (* flag.store(<non-zero literal>) on an atomic static *)
| VFn (b : vsk)                                 (* body of a function (entry point or inlined callee): `return` ends here *)
| VGuard (flag : string) (b : vsk)              (* `if (!flag.load())` / `if (!flag)`: b runs only if flag was observed zero *)
| VSeq (a b : vsk) | VAlt (a b : vsk) | VLoop (a : vsk).

(* non-atomic statics, each with the flag that guards its initialisation (name, guard flag, why) *)
Definition init_once_statics : list (string * string * string) :=
  [ ("VirtMem::info::vm_info", "VirtMem::info::vm_info_initialized",
       "written only by callers that observed the atomic flag zero; the flag is stored after the write; every writer stores the same value");
    ("CpuInfo::host::cpu_info_global", "CpuInfo::host::cpu_info_initialized_flag",
       "as vm_info (the source says so itself); excluded at cold start by the property's premise");
    ("VirtMem::AnonymousMemory::open::memfd_create_not_supported", "VirtMem::AnonymousMemory::open::memfd_create_not_supported",
       "volatile flag guarding itself: only ever set 0 -> 1 on ENOSYS (idempotent)") ].

Definition guard_of (name : string) : option string :=
  match filter (fun e => String.eqb name (fst (fst e))) init_once_statics with
  | (_, g, _) :: _ => Some g | [] => None end.

Definition mem_s (s : string) (l : list string) : bool := existsb (String.eqb s) l.

(* G = flags whose zero-test encloses the current position *)
Fixpoint vchk (G : list string) (s : vsk) : list string :=
  match s with
  | VSkip | VRet | VAtomic _ _ | VCall _ _ | VSet _ _ => []
  | VPlain fn name w =>
      match guard_of name with
      | None => ["UNLISTED non-atomic static " ++ name ++ " accessed in " ++ fn]
      | Some g => if w && negb (mem_s g G)
                  then ["UNGUARDED write of non-atomic static " ++ name ++ " in " ++ fn ++ " (not inside `if (!" ++ g ++ ")`)"]
                  else []
      end
  | VGuard g b => vchk (g :: G) b
  | VFn b => vchk G b
  | VSeq a b | VAlt a b => vchk G a ++ vchk G b
  | VLoop a => vchk G a
  end.

Definition vcheck_program (eps : list (string * vsk)) : list string :=
  flat_map (fun p => map (fun d => fst p ++ ": " ++ d) (vchk [] (snd p))) eps.

Inductive vev := VWr (name : string) | VRd (name : string) | VZero (flag : string) | VTau.

(* same over-approximation of control flow as the lock skeleton; a guard is either skipped (flag non-zero) or entered after the
   flag was observed zero *)
Inductive vexec : vsk -> list vev -> bool -> Prop :=
| VX_skip : vexec VSkip [] false
| VX_ret : vexec VRet [] true
| VX_atomic : forall fn n, vexec (VAtomic fn n) [VTau] false
| VX_plain_w : forall fn n, vexec (VPlain fn n true) [VWr n] false
| VX_plain_r : forall fn n, vexec (VPlain fn n false) [VRd n] false
| VX_call : forall fn c, vexec (VCall fn c) [VTau] false
| VX_set : forall fn g, vexec (VSet fn g) [VTau] false
| VX_fn : forall b t fl, vexec b t fl -> vexec (VFn b) t false
| VX_guard_skip : forall g b, vexec (VGuard g b) [] false
| VX_guard_enter : forall g b t fl, vexec b t fl -> vexec (VGuard g b) (VZero g :: t) fl
| VX_seq : forall a b t1 t2 fl, vexec a t1 false -> vexec b t2 fl -> vexec (VSeq a b) (t1 ++ t2) fl
| VX_seq_abrupt : forall a b t1, vexec a t1 true -> vexec (VSeq a b) t1 true
| VX_alt_l : forall a b t fl, vexec a t fl -> vexec (VAlt a b) t fl
| VX_alt_r : forall a b t fl, vexec b t fl -> vexec (VAlt a b) t fl
| VX_loop_0 : forall a, vexec (VLoop a) [] false
| VX_loop_next : forall a t1 fl1 t2 fl, vexec a t1 fl1 -> vexec (VLoop a) t2 fl -> vexec (VLoop a) (t1 ++ t2) fl
| VX_loop_exit : forall a t1 fl, vexec a t1 true -> vexec (VLoop a) t1 fl.

(* ------------------------------------------------------------------ value-aware semantics of the guard flags *)

(* nz g = true: flag g holds a non-zero value.  A guard `if (!g)` is entered iff g is zero; VSet makes g non-zero. *)
Definition flags := string -> bool.
Definition set_flag (nz : flags) (g : string) : flags := fun x => if String.eqb x g then true else nz x.

Inductive vrun : flags -> vsk -> list vev -> bool -> flags -> Prop :=
| VR_skip : forall nz, vrun nz VSkip [] false nz
| VR_ret : forall nz, vrun nz VRet [] true nz
| VR_atomic : forall nz fn n, vrun nz (VAtomic fn n) [VTau] false nz
| VR_plain_w : forall nz fn n, vrun nz (VPlain fn n true) [VWr n] false nz
| VR_plain_r : forall nz fn n, vrun nz (VPlain fn n false) [VRd n] false nz
| VR_call : forall nz fn c, vrun nz (VCall fn c) [VTau] false nz
| VR_set : forall nz fn g, vrun nz (VSet fn g) [VTau] false (set_flag nz g)
| VR_fn : forall nz b t fl nz', vrun nz b t fl nz' -> vrun nz (VFn b) t false nz'
| VR_guard_skip : forall nz g b, nz g = true -> vrun nz (VGuard g b) [] false nz
| VR_guard_enter : forall nz g b t fl nz', nz g = false -> vrun nz b t fl nz' -> vrun nz (VGuard g b) (VZero g :: t) fl nz'
| VR_seq : forall nz a b t1 t2 fl nz1 nz2, vrun nz a t1 false nz1 -> vrun nz1 b t2 fl nz2 -> vrun nz (VSeq a b) (t1 ++ t2) fl nz2
| VR_seq_abrupt : forall nz a b t1 nz1, vrun nz a t1 true nz1 -> vrun nz (VSeq a b) t1 true nz1
| VR_alt_l : forall nz a b t fl nz', vrun nz a t fl nz' -> vrun nz (VAlt a b) t fl nz'
| VR_alt_r : forall nz a b t fl nz', vrun nz b t fl nz' -> vrun nz (VAlt a b) t fl nz'
| VR_loop_0 : forall nz a, vrun nz (VLoop a) [] false nz
| VR_loop_next : forall nz a t1 fl1 nz1 t2 fl nz2, vrun nz a t1 fl1 nz1 -> vrun nz1 (VLoop a) t2 fl nz2 -> vrun nz (VLoop a) (t1 ++ t2) fl nz2
| VR_loop_exit : forall nz a t1 fl nz1, vrun nz a t1 true nz1 -> vrun nz (VLoop a) t1 fl nz1.

(* s cannot be left by return/break/continue *)
Fixpoint noabrupt (s : vsk) : bool :=
  match s with
  | VRet => false
  | VGuard _ b | VLoop b => noabrupt b
  | VSeq a b | VAlt a b => noabrupt a && noabrupt b
  | _ => true
  end.

(* every path of s (normal or abrupt) sets flag g *)
Fixpoint must_set (g : string) (s : vsk) : bool :=
  match s with
  | VSet _ g' => String.eqb g' g
  | VFn b => must_set g b
  | VSeq a b => must_set g a || (noabrupt a && must_set g b)
  | VAlt a b => must_set g a && must_set g b
  | _ => false
  end.

(* after every path of s flag g is non-zero: an `if (!g) { ...; g.store(1); }` that is always reached *)
Fixpoint always_sets (g : string) (s : vsk) : bool :=
  match s with
  | VSet _ g' => String.eqb g' g
  | VGuard g' b => String.eqb g' g && must_set g b
  | VFn b => always_sets g b
  | VSeq a b => always_sets g a || (noabrupt a && always_sets g b)
  | VAlt a b => always_sets g a && always_sets g b
  | _ => false
  end.

(* (entry point prefix, flag): one normal call of the entry point leaves the flag set *)
Definition warmup_pairs : list (string * string) :=
  [ ("VirtMem::info :", "VirtMem::info::vm_info_initialized"); ("CpuInfo::host :", "CpuInfo::host::cpu_info_initialized_flag") ].

Definition find_entry (p : string) (eps : list (string * vsk)) : option vsk :=
  match filter (fun e => String.prefix p (fst e)) eps with (_, s) :: _ => Some s | [] => None end.

Definition warmup_diag (eps : list (string * vsk)) : list string :=
  flat_map (fun pf => match find_entry (fst pf) eps with
                      | None => ["MISSING entry point " ++ fst pf]
                      | Some s => if always_sets (snd pf) s then []
                                  else ["a normal call of " ++ fst pf ++ " does not always leave " ++ snd pf ++ " set"] end) warmup_pairs.

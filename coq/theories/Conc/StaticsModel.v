(* C11 — process-wide caches behind the API (VirtMem function-local statics, CpuInfo::host()): skeleton of the accesses to
   variables with static storage duration, reflective checker, trace semantics.  Definitions only. *)
From Coq Require Import String List Bool.
Import ListNotations.
Local Open Scope string_scope.

Inductive vsk :=
| VSkip | VRet
| VAtomic (fn name : string)                    (* operation on a std::atomic static: never a data race (C++ [intro.races]) *)
| VPlain (fn name : string) (write : bool)      (* access to a non-atomic static *)
| VCall (fn callee : string)
| VGuard (flag : string) (b : vsk)              (* `if (!flag.load())` / `if (!flag)`: b runs only if flag was observed zero *)
| VSeq (a b : vsk) | VAlt (a b : vsk) | VLoop (a : vsk).

(* non-atomic statics, each with the flag that guards its initialisation (name, guard flag, why) *)
Definition init_once_statics : list (string * string * string) :=
  [ ("VirtMem::info::vm_info", "VirtMem::info::vm_info_initialized",
       "written only by callers that observed the atomic flag zero; the flag is stored after the write; every writer stores the same value");
    ("CpuInfo::host::cpu_info_global", "CpuInfo::host::cpu_info_initialized_flag",
       "as vm_info (the source says so itself); excluded at cold start by the property's premise");
    ("VirtMem::AnonymousMemory::open::memfd_create_not_supported", "VirtMem::AnonymousMemory::open::memfd_create_not_supported",
       "volatile flag guarding itself: only ever set 0 -> 1 on ENOSYS (idempotent)") ].

Definition guard_of (name : string) : option string :=
  match filter (fun e => String.eqb name (fst (fst e))) init_once_statics with
  | (_, g, _) :: _ => Some g | [] => None end.

Definition mem_s (s : string) (l : list string) : bool := existsb (String.eqb s) l.

(* G = flags whose zero-test encloses the current position *)
Fixpoint vchk (G : list string) (s : vsk) : list string :=
  match s with
  | VSkip | VRet | VAtomic _ _ | VCall _ _ => []
  | VPlain fn name w =>
      match guard_of name with
      | None => ["UNLISTED non-atomic static " ++ name ++ " accessed in " ++ fn]
      | Some g => if w && negb (mem_s g G)
                  then ["UNGUARDED write of non-atomic static " ++ name ++ " in " ++ fn ++ " (not inside `if (!" ++ g ++ ")`)"]
                  else []
      end
  | VGuard g b => vchk (g :: G) b
  | VSeq a b | VAlt a b => vchk G a ++ vchk G b
  | VLoop a => vchk G a
  end.

Definition vcheck_program (eps : list (string * vsk)) : list string :=
  flat_map (fun p => map (fun d => fst p ++ ": " ++ d) (vchk [] (snd p))) eps.

Inductive vev := VWr (name : string) | VRd (name : string) | VZero (flag : string) | VTau.

(* same over-approximation of control flow as the lock skeleton; a guard is either skipped (flag non-zero) or entered after the
   flag was observed zero *)
Inductive vexec : vsk -> list vev -> bool -> Prop :=
| VX_skip : vexec VSkip [] false
| VX_ret : vexec VRet [] true
| VX_atomic : forall fn n, vexec (VAtomic fn n) [VTau] false
| VX_plain_w : forall fn n, vexec (VPlain fn n true) [VWr n] false
| VX_plain_r : forall fn n, vexec (VPlain fn n false) [VRd n] false
| VX_call : forall fn c, vexec (VCall fn c) [VTau] false
| VX_guard_skip : forall g b, vexec (VGuard g b) [] false
| VX_guard_enter : forall g b t fl, vexec b t fl -> vexec (VGuard g b) (VZero g :: t) fl
| VX_seq : forall a b t1 t2 fl, vexec a t1 false -> vexec b t2 fl -> vexec (VSeq a b) (t1 ++ t2) fl
| VX_seq_abrupt : forall a b t1, vexec a t1 true -> vexec (VSeq a b) t1 true
| VX_alt_l : forall a b t fl, vexec a t fl -> vexec (VAlt a b) t fl
| VX_alt_r : forall a b t fl, vexec b t fl -> vexec (VAlt a b) t fl
| VX_loop_0 : forall a, vexec (VLoop a) [] false
| VX_loop_next : forall a t1 fl1 t2 fl, vexec a t1 fl1 -> vexec (VLoop a) t2 fl -> vexec (VLoop a) (t1 ++ t2) fl
| VX_loop_exit : forall a t1 fl, vexec a t1 true -> vexec (VLoop a) t1 fl.

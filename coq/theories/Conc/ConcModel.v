(* C11 — interleaving semantics of threads over one mutex and a shared memory of (object, field) cells. Definitions only. *)
From Coq Require Import String List Bool ZArith.
From Verif Require Import Conc.LockModel.
Import ListNotations.

Notation tev := (nat * ev)%type (only parsing).   (* (thread id, event) *)
Definition memory := nat -> field -> Z.

Definition upd (m : memory) (o : nat) (f : field) (v : Z) : memory :=
  fun o' f' => if Nat.eqb o o' && field_eqb f f' then v else m o' f'.

Record state := mkst { st_mem : memory; st_owner : option nat }.

(* one step of thread i; None = the step is not enabled (lock busy / not owner / the value read is not the one in memory) *)
Definition step (s : state) (x : tev) : option state :=
  match snd x with
  | EAcq => match st_owner s with None => Some (mkst (st_mem s) (Some (fst x))) | Some _ => None end
  | ERel => match st_owner s with
            | Some j => if Nat.eqb (fst x) j then Some (mkst (st_mem s) None) else None
            | None => None end
  | ERd o f v => if Z.eqb (st_mem s o f) v then Some s else None
  | EWr o f v => Some (mkst (upd (st_mem s) o f v) (st_owner s))
  | ETau => Some s
  end.

Fixpoint run (s : state) (tr : list tev) : option state :=
  match tr with
  | [] => Some s
  | x :: tr' => match step s x with Some s' => run s' tr' | None => None end
  end.

Definition init (m : memory) : state := mkst m None.

Definition proj (i : nat) (tr : list tev) : list ev := map snd (filter (fun x => Nat.eqb (fst x) i) tr).

(* every thread's events so far are a prefix of a well-locked trace *)
Definition disciplined (prot : field -> bool) (tr : list tev) : Prop := forall i, wl prot false (proj i tr) <> None.

(* conflicting accesses: same cell, at least one write *)
Definition conflict (a b : ev) : Prop :=
  match a, b with
  | EWr o f _, EWr o' f' _ => o = o' /\ f = f'
  | EWr o f _, ERd o' f' _ => o = o' /\ f = f'
  | ERd o f _, EWr o' f' _ => o = o' /\ f = f'
  | _, _ => False
  end.

(* serial execution: while the lock is owned only its owner takes steps (critical sections are contiguous) *)
Definition owner_step (o : option nat) (x : tev) : option nat :=
  match snd x with EAcq => Some (fst x) | ERel => None | _ => o end.

Fixpoint serial (o : option nat) (tr : list tev) : Prop :=
  match tr with
  | [] => True
  | x :: tr' => (match o with Some j => fst x = j | None => True end) /\ serial (owner_step o x) tr'
  end.

(* events whose relative order is observable: lock operations and accesses to protected fields *)
Definition keyb (prot : field -> bool) (x : tev) : bool :=
  match snd x with
  | EAcq | ERel => true
  | ERd _ f _ | EWr _ f _ => prot f
  | ETau => false
  end.

(* the serialisation: events of other threads that occur inside an open critical section are moved in front of it *)
Definition ser_step (st : list tev * list tev) (x : tev) : list tev * list tev :=
  let '(A, C) := st in
  match C with
  | [] => match snd x with EAcq => (A, [x]) | _ => (A ++ [x], []) end
  | y :: _ => if Nat.eqb (fst x) (fst y)
              then match snd x with ERel => (A ++ C ++ [x], []) | _ => (A, C ++ [x]) end
              else (A ++ [x], C)
  end.

Definition ser (tr : list tev) : list tev := let '(A, C) := fold_left ser_step tr ([], []) in A ++ C.

(* every thread of the execution runs the program: its events so far are a prefix of a sequence of entry-point calls *)
Definition runs_program (eps : list (string * sk)) (tr : list tev) : Prop :=
  forall i, exists t rest, thread_trace eps t /\ t = proj i tr ++ rest.

(* restriction of an execution to one thread *)
Definition alone (i : nat) (tr : list tev) : list tev := filter (fun x => Nat.eqb (fst x) i) tr.

(* C11 — once the guarding flags are set (host information initialised) the cache functions write no non-atomic static. *)
From Coq Require Import String List Bool.
From Verif Require Import Conc.StaticsModel.
Import ListNotations.
Local Open Scope string_scope.

Lemma mem_s_in : forall s l, mem_s s l = true -> In s l.
Proof.
  intros s l H. unfold mem_s in H. apply existsb_exists in H. destruct H as [x [Hx E]]. apply String.eqb_eq in E. subst. assumption.
Qed.

(* every write of a non-atomic static in a trace of a checked skeleton is justified by a zero observation of its guard flag:
   an enclosing one (G) or one recorded in the trace *)
Lemma vchk_sound : forall s t fl, vexec s t fl -> forall G, vchk G s = [] ->
  forall n, In (VWr n) t -> exists g, guard_of n = Some g /\ (In g G \/ In (VZero g) t).
Proof.
  intros s t fl H. induction H; intros G Hc x Hin; cbn [vchk] in Hc.
  - contradiction.
  - contradiction.
  - destruct Hin as [E|[]]; discriminate.
  - destruct Hin as [E|[]]. inversion E; subst x.
    destruct (guard_of n) as [g|]; [|discriminate]. exists g. split; [reflexivity|]. left.
    cbn in Hc. destruct (mem_s g G) eqn:M; [apply mem_s_in; assumption | discriminate].
  - destruct Hin as [E|[]]; discriminate.
  - destruct Hin as [E|[]]; discriminate.
  - contradiction.
  - destruct Hin as [E|Hin]; [discriminate|].
    destruct (IHvexec (g :: G) Hc x Hin) as [g' [Hg [[E|HG]|HZ]]].
    + exists g'. split; [assumption|]. right. left. rewrite E. reflexivity.
    + exists g'. split; [assumption|]. left. assumption.
    + exists g'. split; [assumption|]. right. right. assumption.
  - apply app_eq_nil in Hc. destruct Hc as [Ha Hb]. apply in_app_or in Hin. destruct Hin as [Hin|Hin].
    + destruct (IHvexec1 G Ha x Hin) as [g [Hg [HG|HZ]]]; exists g; (split; [assumption|]); [left | right; apply in_or_app; left]; assumption.
    + destruct (IHvexec2 G Hb x Hin) as [g [Hg [HG|HZ]]]; exists g; (split; [assumption|]); [left | right; apply in_or_app; right]; assumption.
  - apply app_eq_nil in Hc. destruct Hc as [Ha Hb]. apply (IHvexec G Ha x Hin).
  - apply app_eq_nil in Hc. destruct Hc as [Ha Hb]. apply (IHvexec G Ha x Hin).
  - apply app_eq_nil in Hc. destruct Hc as [Ha Hb]. apply (IHvexec G Hb x Hin).
  - contradiction.
  - apply in_app_or in Hin. destruct Hin as [Hin|Hin].
    + destruct (IHvexec1 G Hc x Hin) as [g [Hg [HG|HZ]]]; exists g; (split; [assumption|]); [left | right; apply in_or_app; left]; assumption.
    + destruct (IHvexec2 G Hc x Hin) as [g [Hg [HG|HZ]]]; exists g; (split; [assumption|]); [left | right; apply in_or_app; right]; assumption.
  - apply (IHvexec G Hc x Hin).
Qed.

Lemma flat_map_nil' : forall (A B : Type) (f : A -> list B) l, flat_map f l = [] -> forall x, In x l -> f x = [].
Proof.
  induction l as [|a l IH]; cbn; intros H x Hin; [contradiction|].
  apply app_eq_nil in H. destruct H as [Ha Hl]. destruct Hin as [<-|Hin]; auto.
Qed.

(* WARM START: in an execution in which no guard flag is observed zero (the caches have been initialised) no non-atomic static is
   written at all - the remaining accesses are atomic operations and reads, which cannot race *)
Theorem warm_no_plain_writes : forall eps name s t fl,
  vcheck_program eps = [] -> In (name, s) eps -> vexec s t fl ->
  (forall g, ~ In (VZero g) t) -> forall n, ~ In (VWr n) t.
Proof.
  intros eps name s t fl Hc Hin He Hwarm n Hw. unfold vcheck_program in Hc.
  pose proof (flat_map_nil' _ _ _ _ Hc _ Hin) as H1. cbn in H1. apply map_eq_nil in H1.
  destruct (vchk_sound s t fl He [] H1 n Hw) as [g [_ [[]|HZ]]]. exact (Hwarm g HZ).
Qed.

(* C11 — once the guarding flags are set (host information initialised) the cache functions write no non-atomic static. *)
From Coq Require Import String List Bool.
From Verif Require Import Conc.StaticsModel.
Import ListNotations.
Local Open Scope string_scope.

Lemma mem_s_in : forall s l, mem_s s l = true -> In s l.
Proof.
  intros s l H. unfold mem_s in H. apply existsb_exists in H. destruct H as [x [Hx E]]. apply String.eqb_eq in E. subst. assumption.
Qed.

(* every write of a non-atomic static in a trace of a checked skeleton is justified by a zero observation of its guard flag:
   an enclosing one (G) or one recorded in the trace *)
Lemma vchk_sound : forall s t fl, vexec s t fl -> forall G, vchk G s = [] ->
  forall n, In (VWr n) t -> exists g, guard_of n = Some g /\ (In g G \/ In (VZero g) t).
Proof.
  intros s t fl H. induction H; intros G Hc x Hin; cbn [vchk] in Hc.
  - contradiction.
  - contradiction.
  - destruct Hin as [E|[]]; discriminate.
  - destruct Hin as [E|[]]. inversion E; subst x.
    destruct (guard_of n) as [g|]; [|discriminate]. exists g. split; [reflexivity|]. left.
    cbn in Hc. destruct (mem_s g G) eqn:M; [apply mem_s_in; assumption | discriminate].
  - destruct Hin as [E|[]]; discriminate.
  - destruct Hin as [E|[]]; discriminate.
  - destruct Hin as [E|[]]; discriminate.
  - apply (IHvexec G Hc x Hin).
  - contradiction.
  - destruct Hin as [E|Hin]; [discriminate|].
    destruct (IHvexec (g :: G) Hc x Hin) as [g' [Hg [[E|HG]|HZ]]].
    + exists g'. split; [assumption|]. right. left. rewrite E. reflexivity.
    + exists g'. split; [assumption|]. left. assumption.
    + exists g'. split; [assumption|]. right. right. assumption.
  - apply app_eq_nil in Hc. destruct Hc as [Ha Hb]. apply in_app_or in Hin. destruct Hin as [Hin|Hin].
    + destruct (IHvexec1 G Ha x Hin) as [g [Hg [HG|HZ]]]; exists g; (split; [assumption|]); [left | right; apply in_or_app; left]; assumption.
    + destruct (IHvexec2 G Hb x Hin) as [g [Hg [HG|HZ]]]; exists g; (split; [assumption|]); [left | right; apply in_or_app; right]; assumption.
  - apply app_eq_nil in Hc. destruct Hc as [Ha Hb]. apply (IHvexec G Ha x Hin).
  - apply app_eq_nil in Hc. destruct Hc as [Ha Hb]. apply (IHvexec G Ha x Hin).
  - apply app_eq_nil in Hc. destruct Hc as [Ha Hb]. apply (IHvexec G Hb x Hin).
  - contradiction.
  - apply in_app_or in Hin. destruct Hin as [Hin|Hin].
    + destruct (IHvexec1 G Hc x Hin) as [g [Hg [HG|HZ]]]; exists g; (split; [assumption|]); [left | right; apply in_or_app; left]; assumption.
    + destruct (IHvexec2 G Hc x Hin) as [g [Hg [HG|HZ]]]; exists g; (split; [assumption|]); [left | right; apply in_or_app; right]; assumption.
  - apply (IHvexec G Hc x Hin).
Qed.

Lemma flat_map_nil' : forall (A B : Type) (f : A -> list B) l, flat_map f l = [] -> forall x, In x l -> f x = [].
Proof.
  induction l as [|a l IH]; cbn; intros H x Hin; [contradiction|].
  apply app_eq_nil in H. destruct H as [Ha Hl]. destruct Hin as [<-|Hin]; auto.
Qed.

(* WARM START: in an execution in which no guard flag is observed zero (the caches have been initialised) no non-atomic static is
   written at all - the remaining accesses are atomic operations and reads, which cannot race *)
Theorem warm_no_plain_writes : forall eps name s t fl,
  vcheck_program eps = [] -> In (name, s) eps -> vexec s t fl ->
  (forall g, ~ In (VZero g) t) -> forall n, ~ In (VWr n) t.
Proof.
  intros eps name s t fl Hc Hin He Hwarm n Hw. unfold vcheck_program in Hc.
  pose proof (flat_map_nil' _ _ _ _ Hc _ Hin) as H1. cbn in H1. apply map_eq_nil in H1.
  destruct (vchk_sound s t fl He [] H1 n Hw) as [g [_ [[]|HZ]]]. exact (Hwarm g HZ).
Qed.

(* ------------------------------------------------------------------ value-aware runs *)

Lemma set_flag_mono : forall nz g x, nz x = true -> set_flag nz g x = true.
Proof. intros. unfold set_flag. destruct (String.eqb x g); auto. Qed.

Lemma set_flag_same : forall nz g, set_flag nz g g = true.
Proof. intros. unfold set_flag. now rewrite String.eqb_refl. Qed.

(* a value-aware run is a run of the over-approximating semantics; flags only ever get set; a flag that is set is never
   observed zero *)
Lemma vrun_facts : forall nz s t fl nz', vrun nz s t fl nz' ->
  vexec s t fl /\ (forall x, nz x = true -> nz' x = true) /\ (forall x, nz x = true -> ~ In (VZero x) t).
Proof.
  intros nz s t fl nz' H. induction H.
  - split; [constructor|]. split; auto.
  - split; [constructor|]. split; auto.
  - split; [constructor|]. split; auto. intros x _ [E|[]]; discriminate.
  - split; [constructor|]. split; auto. intros x _ [E|[]]; discriminate.
  - split; [constructor|]. split; auto. intros x _ [E|[]]; discriminate.
  - split; [constructor|]. split; auto. intros x _ [E|[]]; discriminate.
  - split; [constructor|]. split; [intros; apply set_flag_mono; assumption|]. intros x _ [E|[]]; discriminate.
  - destruct IHvrun as [E [M Z]]. split; [econstructor; eassumption|]. auto.
  - split; [constructor|]. split; auto.
  - destruct IHvrun as [E [M Z]]. split; [constructor; assumption|]. split; [assumption|].
    intros x Hx [Eq|Hin]; [inversion Eq; subst; congruence | exact (Z x Hx Hin)].
  - destruct IHvrun1 as [E1 [M1 Z1]]. destruct IHvrun2 as [E2 [M2 Z2]].
    split; [econstructor; eassumption|]. split; [auto|].
    intros x Hx Hin. apply in_app_or in Hin. destruct Hin as [Hin|Hin]; [exact (Z1 x Hx Hin) | exact (Z2 x (M1 x Hx) Hin)].
  - destruct IHvrun as [E [M Z]]. split; [apply VX_seq_abrupt; assumption|]. auto.
  - destruct IHvrun as [E [M Z]]. split; [apply VX_alt_l; assumption|]. auto.
  - destruct IHvrun as [E [M Z]]. split; [apply VX_alt_r; assumption|]. auto.
  - split; [constructor|]. split; auto.
  - destruct IHvrun1 as [E1 [M1 Z1]]. destruct IHvrun2 as [E2 [M2 Z2]].
    split; [eapply VX_loop_next; eassumption|]. split; [auto|].
    intros x Hx Hin. apply in_app_or in Hin. destruct Hin as [Hin|Hin]; [exact (Z1 x Hx Hin) | exact (Z2 x (M1 x Hx) Hin)].
  - destruct IHvrun as [E [M Z]]. split; [apply VX_loop_exit; assumption|]. auto.
Qed.

Lemma noabrupt_sound : forall nz s t fl nz', vrun nz s t fl nz' -> noabrupt s = true -> fl = false.
Proof.
  intros nz s t fl nz' H. induction H; intros Hn; cbn [noabrupt] in Hn; try reflexivity; try discriminate.
  - apply IHvrun; assumption.
  - apply andb_true_iff in Hn. apply IHvrun2; tauto.
  - apply andb_true_iff in Hn. apply IHvrun; tauto.
  - apply andb_true_iff in Hn. apply IHvrun; tauto.
  - apply andb_true_iff in Hn. apply IHvrun; tauto.
  - apply IHvrun2; assumption.
  - pose proof (IHvrun Hn). discriminate.
Qed.

Lemma must_set_sound : forall g nz s t fl nz', vrun nz s t fl nz' -> must_set g s = true -> nz' g = true.
Proof.
  intros g nz s t fl nz' H. induction H; intros Hm; cbn [must_set] in Hm; try discriminate.
  - apply String.eqb_eq in Hm. subst. apply set_flag_same.
  - apply IHvrun; assumption.
  - apply orb_true_iff in Hm. destruct Hm as [Hm|Hm].
    + destruct (vrun_facts _ _ _ _ _ H0) as [_ [M _]]. apply M. apply IHvrun1; auto.
    + apply andb_true_iff in Hm. apply IHvrun2; tauto.
  - apply orb_true_iff in Hm. destruct Hm as [Hm|Hm]; [apply IHvrun; assumption|].
    apply andb_true_iff in Hm. destruct Hm as [Hn _]. pose proof (noabrupt_sound _ _ _ _ _ H Hn). discriminate.
  - apply andb_true_iff in Hm. apply IHvrun; tauto.
  - apply andb_true_iff in Hm. apply IHvrun; tauto.
Qed.

Lemma always_sets_sound : forall g nz s t fl nz', vrun nz s t fl nz' -> always_sets g s = true -> nz' g = true.
Proof.
  intros g nz s t fl nz' H. induction H; intros Hm; cbn [always_sets] in Hm; try discriminate.
  - apply String.eqb_eq in Hm. subst. apply set_flag_same.
  - apply IHvrun; assumption.
  - apply andb_true_iff in Hm. destruct Hm as [Eg _]. apply String.eqb_eq in Eg. subst. assumption.
  - apply andb_true_iff in Hm. destruct Hm as [Eg Hm]. apply String.eqb_eq in Eg. subst g0.
    eapply must_set_sound; eauto.
  - apply orb_true_iff in Hm. destruct Hm as [Hm|Hm].
    + destruct (vrun_facts _ _ _ _ _ H0) as [_ [M _]]. apply M. apply IHvrun1; auto.
    + apply andb_true_iff in Hm. apply IHvrun2; tauto.
  - apply orb_true_iff in Hm. destruct Hm as [Hm|Hm]; [apply IHvrun; assumption|].
    apply andb_true_iff in Hm. destruct Hm as [Hn _]. pose proof (noabrupt_sound _ _ _ _ _ H Hn). discriminate.
  - apply andb_true_iff in Hm. apply IHvrun; tauto.
  - apply andb_true_iff in Hm. apply IHvrun; tauto.
Qed.

(* WARM-UP: after one normally completing call of an entry point that always sets its guard flag g, every later call (from any
   later flag state) never observes g zero and therefore writes no non-atomic static guarded by g *)
Theorem warm_after_first_call : forall eps name s g nz t1 fl1 nz1 nz1' t2 fl nz2,
  vcheck_program eps = [] -> In (name, s) eps -> always_sets g s = true ->
  vrun nz s t1 fl1 nz1 ->                               (* the warming call *)
  (forall x, nz1 x = true -> nz1' x = true) ->            (* whatever happens in between, flags only get set *)
  vrun nz1' s t2 fl nz2 ->                                (* any later call *)
  ~ In (VZero g) t2 /\ forall n, guard_of n = Some g -> ~ In (VWr n) t2.
Proof.
  intros eps name s g nz t1 fl1 nz1 nz1' t2 fl nz2 Hc Hin Ha H1 Hmono H2.
  pose proof (always_sets_sound g nz s t1 fl1 nz1 H1 Ha) as Hg.
  destruct (vrun_facts _ _ _ _ _ H2) as [E2 [_ Z2]].
  assert (Hz : ~ In (VZero g) t2) by (apply Z2; apply Hmono; assumption).
  split; [assumption|]. intros n Hn Hw.
  unfold vcheck_program in Hc. pose proof (flat_map_nil' _ _ _ _ Hc _ Hin) as Hs. cbn in Hs. apply map_eq_nil in Hs.
  destruct (vchk_sound s t2 fl E2 [] Hs n Hw) as [g' [Hg' [[]|HZ]]]. rewrite Hn in Hg'. inversion Hg'; subst g'. contradiction.
Qed.

(* ------------------------------------------------------------------ frame: what a run must NOT change *)
Fixpoint sets_of (s : vsk) : list string :=
  match s with
  | VSet _ g => [g]
  | VFn b | VGuard _ b | VLoop b => sets_of b
  | VSeq a b | VAlt a b => sets_of a ++ sets_of b
  | _ => []
  end.

Lemma set_flag_other : forall nz g x, x <> g -> set_flag nz g x = nz x.
Proof. intros nz g x H. unfold set_flag. destruct (String.eqb_spec x g); [contradiction | reflexivity]. Qed.

(* a run leaves every flag it has no store for exactly as it was (in particular it never clears a flag) *)
Theorem vrun_frame : forall nz s t fl nz', vrun nz s t fl nz' -> forall x, ~ In x (sets_of s) -> nz' x = nz x.
Proof.
  intros nz s t fl nz' H. induction H; intros x Hx; cbn [sets_of] in Hx; try reflexivity.
  - apply set_flag_other. intros ->. apply Hx. left; reflexivity.
  - apply IHvrun; assumption.
  - apply IHvrun; assumption.
  - rewrite IHvrun2 by (intros Hin; apply Hx, in_or_app; right; assumption).
    apply IHvrun1. intros Hin; apply Hx, in_or_app; left; assumption.
  - apply IHvrun. intros Hin; apply Hx, in_or_app; left; assumption.
  - apply IHvrun. intros Hin; apply Hx, in_or_app; left; assumption.
  - apply IHvrun. intros Hin; apply Hx, in_or_app; right; assumption.
  - rewrite IHvrun2 by assumption. apply IHvrun1; assumption.
  - apply IHvrun; assumption.
Qed.

(* ------------------------------------------------------------------ non-vacuity of warm_after_first_call *)
Definition info_like : vsk :=
  VFn (VSeq (VAtomic "f" "VirtMem::info::vm_info_initialized")
      (VSeq (VGuard "VirtMem::info::vm_info_initialized"
               (VSeq (VPlain "f" "VirtMem::info::vm_info" true) (VSet "f" "VirtMem::info::vm_info_initialized")))
      (VSeq (VPlain "f" "VirtMem::info::vm_info" false) VRet))).

(* cold call: the guard is entered, the cache is written, the flag gets set; warm call: no write *)
Example warm_after_first_call_sat :
  vcheck_program [("f", info_like)] = [] /\ always_sets "VirtMem::info::vm_info_initialized" info_like = true /\
  exists t1 nz1 t2 nz2,
    vrun (fun _ => false) info_like t1 false nz1 /\ In (VWr "VirtMem::info::vm_info") t1 /\
    vrun nz1 info_like t2 false nz2 /\ ~ In (VWr "VirtMem::info::vm_info") t2.
Proof.
  split; [reflexivity|]. split; [reflexivity|].
  eexists. eexists. eexists. eexists. split; [|split; [|split]].
  - unfold info_like. eapply VR_fn. eapply VR_seq; [apply VR_atomic|].
    eapply VR_seq; [eapply VR_guard_enter; [reflexivity|]; eapply VR_seq; [apply VR_plain_w | apply VR_set] |].
    eapply VR_seq; [apply VR_plain_r | apply VR_ret].
  - cbn. tauto.
  - unfold info_like. eapply VR_fn. eapply VR_seq; [apply VR_atomic|].
    eapply VR_seq; [apply VR_guard_skip; reflexivity|].
    eapply VR_seq; [apply VR_plain_r | apply VR_ret].
  - cbn. intros [H|[H|H]]; try discriminate; contradiction.
Qed.

(* ------------------------------------------------------------------ warm threads cannot race on the caches *)
Definition vconflict (a b : vev) : Prop :=
  match a, b with
  | VWr n, VWr n' | VWr n, VRd n' | VRd n, VWr n' => n = n'
  | _, _ => False
  end.

(* any number of threads, each performing calls of the checked cache functions in which no guard flag is observed zero: no two
   events of any two of them conflict (same non-atomic static, at least one write) - whatever the interleaving, because there is
   no write at all.  The remaining shared accesses are atomic operations (VTau) and reads. *)
Theorem warm_threads_race_free : forall eps (ts : list (list vev)),
  vcheck_program eps = [] ->
  (forall t, In t ts -> exists name s fl, In (name, s) eps /\ vexec s t fl /\ forall g, ~ In (VZero g) t) ->
  forall t1 t2 a b, In t1 ts -> In t2 ts -> In a t1 -> In b t2 -> ~ vconflict a b.
Proof.
  intros eps ts Hc Hall t1 t2 a b H1 H2 Ha Hb Hcf.
  destruct (Hall t1 H1) as [n1 [s1 [f1 [I1 [E1 W1]]]]]. destruct (Hall t2 H2) as [n2 [s2 [f2 [I2 [E2 W2]]]]].
  destruct a, b; cbn in Hcf; try contradiction.
  - exact (warm_no_plain_writes eps n1 s1 t1 f1 Hc I1 E1 W1 _ Ha).
  - exact (warm_no_plain_writes eps n1 s1 t1 f1 Hc I1 E1 W1 _ Ha).
  - exact (warm_no_plain_writes eps n2 s2 t2 f2 Hc I2 E2 W2 _ Hb).
Qed.

(* non-vacuity: two warm calls of the info()-shaped function *)
Example warm_threads_race_free_sat :
  let t := [VTau; VRd "VirtMem::info::vm_info"] in
  vcheck_program [("f", info_like)] = [] /\ vexec info_like t false /\ (forall g, ~ In (VZero g) t) /\ In (VRd "VirtMem::info::vm_info") t.
Proof.
  cbv zeta. split; [reflexivity|]. split; [|split].
  - unfold info_like. eapply VX_fn. change [VTau; VRd "VirtMem::info::vm_info"] with (([VTau] ++ ([] ++ ([VRd "VirtMem::info::vm_info"] ++ [])))%list).
    eapply VX_seq; [apply VX_atomic|]. eapply VX_seq; [apply VX_guard_skip|]. eapply VX_seq; [apply VX_plain_r | apply VX_ret].
  - intros g [H|[H|[]]]; discriminate.
  - right. left. reflexivity.
Qed.

(* ------------------------------------------------------------------ sequence-level lift of the warm-up theorem *)
(* a sequence of calls of checked cache functions, each starting from the flag state the previous one left *)
Inductive vrun_calls (eps : list (string * vsk)) : flags -> list (list vev) -> flags -> Prop :=
| VC_nil : forall nz, vrun_calls eps nz [] nz
| VC_cons : forall nz name s t fl nz1 ts nz2,
    In (name, s) eps -> vrun nz s t fl nz1 -> vrun_calls eps nz1 ts nz2 -> vrun_calls eps nz (t :: ts) nz2.

Lemma vrun_calls_mono : forall eps nz ts nz', vrun_calls eps nz ts nz' -> forall x, nz x = true -> nz' x = true.
Proof.
  intros eps nz ts nz' H. induction H; intros x Hx; [assumption|].
  apply IHvrun_calls. destruct (vrun_facts _ _ _ _ _ H0) as [_ [M _]]. apply M. assumption.
Qed.

(* once a guard flag g is set, NO call in ANY later sequence of calls (of any of the checked functions, in any order, any number
   of them) observes g zero or writes a non-atomic static guarded by g: the warm state is stable under arbitrary continuations *)
Theorem warm_stable_under_calls : forall eps g nz ts nz',
  vcheck_program eps = [] -> nz g = true -> vrun_calls eps nz ts nz' ->
  nz' g = true /\ forall t, In t ts -> ~ In (VZero g) t /\ forall n, guard_of n = Some g -> ~ In (VWr n) t.
Proof.
  intros eps g nz ts nz' Hc Hg H. split; [exact (vrun_calls_mono eps nz ts nz' H g Hg)|].
  induction H as [|nz name s t fl nz1 ts nz2 Hin Hr Hrest IH]; intros t0 Ht0; [contradiction|].
  destruct (vrun_facts _ _ _ _ _ Hr) as [He [M Z]].
  destruct Ht0 as [<-|Ht0].
  - split; [exact (Z g Hg)|]. intros n Hn Hw.
    unfold vcheck_program in Hc. pose proof (flat_map_nil' _ _ _ _ Hc _ Hin) as Hs. cbn in Hs. apply map_eq_nil in Hs.
    destruct (vchk_sound s t fl He [] Hs n Hw) as [g' [Hg' [[]|HZ]]]. rewrite Hn in Hg'. inversion Hg'; subst g'. exact (Z g Hg HZ).
  - apply IH; [apply M; assumption | assumption].
Qed.

(* one warming call followed by any sequence of calls: combination with always_sets *)
Corollary warm_call_then_any_calls : forall eps name s g nz t1 fl1 nz1 ts nz2,
  vcheck_program eps = [] -> In (name, s) eps -> always_sets g s = true ->
  vrun nz s t1 fl1 nz1 -> vrun_calls eps nz1 ts nz2 ->
  forall t, In t ts -> ~ In (VZero g) t /\ forall n, guard_of n = Some g -> ~ In (VWr n) t.
Proof.
  intros eps name s g nz t1 fl1 nz1 ts nz2 Hc Hin Ha H1 H2.
  exact (proj2 (warm_stable_under_calls eps g nz1 ts nz2 Hc (always_sets_sound g nz s t1 fl1 nz1 H1 Ha) H2)).
Qed.

(* non-vacuity: a cold call of the info()-shaped function followed by two further calls *)
Example warm_call_then_any_calls_sat :
  exists t1 nz1 ts nz2,
    vrun (fun _ => false) info_like t1 false nz1 /\ vrun_calls [("f", info_like)] nz1 ts nz2 /\ length ts = 2%nat /\
    In (VWr "VirtMem::info::vm_info") t1.
Proof.
  eexists. eexists. eexists. eexists. split; [|split; [|split]].
  - unfold info_like. eapply VR_fn. eapply VR_seq; [apply VR_atomic|].
    eapply VR_seq; [eapply VR_guard_enter; [reflexivity|]; eapply VR_seq; [apply VR_plain_w | apply VR_set] |].
    eapply VR_seq; [apply VR_plain_r | apply VR_ret].
  - eapply VC_cons; [left; reflexivity | | eapply VC_cons; [left; reflexivity | | apply VC_nil]];
      (unfold info_like; eapply VR_fn; eapply VR_seq; [apply VR_atomic|];
       eapply VR_seq; [apply VR_guard_skip; reflexivity|]; eapply VR_seq; [apply VR_plain_r | apply VR_ret]).
  - reflexivity.
  - cbn. tauto.
Qed.

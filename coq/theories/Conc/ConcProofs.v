(* C11 — generic theorems of the mutex model: ownership invariant, data-race freedom (conflicting accesses are ordered by
   release -> acquire), the lock holder never blocks, and serialisability of critical sections. *)
From Coq Require Import String List Bool ZArith Lia.
From Verif Require Import Conc.LockModel Conc.LockProofs Conc.ConcModel.
Import ListNotations.

(* ------------------------------------------------------------------ basic facts *)

Lemma option_eq_dec_nat : forall a b : option nat, {a = b} + {a <> b}.
Proof. decide equality. apply Nat.eq_dec. Qed.

Lemma run_app : forall a b s, run s (a ++ b) = match run s a with Some s' => run s' b | None => None end.
Proof.
  induction a as [|x a IH]; intros b s; cbn [app run]; [reflexivity|].
  destruct (step s x); [apply IH | reflexivity].
Qed.

Lemma run_app_some : forall a b s s', run s (a ++ b) = Some s' -> exists s1, run s a = Some s1 /\ run s1 b = Some s'.
Proof. intros a b s s' H. rewrite run_app in H. destruct (run s a) as [s1|]; [eauto | discriminate]. Qed.

Lemma proj_app : forall i a b, proj i (a ++ b) = proj i a ++ proj i b.
Proof. intros. unfold proj. now rewrite filter_app, map_app. Qed.

Lemma proj_one_eq : forall i e, proj i (@cons tev (i, e) nil) = [e].
Proof. intros. unfold proj. cbn. now rewrite Nat.eqb_refl. Qed.

Lemma proj_one_neq : forall i k e, k <> i -> proj i (@cons tev (k, e) nil) = [].
Proof. intros. unfold proj. cbn. destruct (Nat.eqb_spec k i); [contradiction | reflexivity]. Qed.

Lemma disciplined_prefix : forall prot a b, disciplined prot (a ++ b) -> disciplined prot a.
Proof. intros prot a b H i. specialize (H i). rewrite proj_app in H. eapply wl_prefix; eauto. Qed.

Lemma step_owner : forall s x s', step s x = Some s' -> st_owner s' = owner_step (st_owner s) x \/ False.
Proof.
  intros s [i e] s' H. left. unfold step, owner_step in *. cbn [fst snd] in *.
  destruct e; cbn in *.
  - destruct (st_owner s); [discriminate | now inversion H].
  - destruct (st_owner s) as [j|]; [|discriminate]. destruct (Nat.eqb i j); [now inversion H | discriminate].
  - destruct (Z.eqb _ _); [now inversion H | discriminate].
  - now inversion H.
  - now inversion H.
Qed.

(* ------------------------------------------------------------------ ownership invariant *)

(* a thread believes it holds the lock (by its own well-locked history) iff it is the owner in the global state *)
Lemma own_inv : forall prot m tr s, run (init m) tr = Some s -> disciplined prot tr ->
  forall i, wl prot false (proj i tr) = Some true <-> st_owner s = Some i.
Proof.
  intros prot m tr. induction tr as [|x tr IH] using rev_ind; intros s Hr Hd i.
  - cbn in Hr. inversion Hr; subst. cbn. split; discriminate.
  - apply run_app_some in Hr. destruct Hr as [s0 [Hr0 Hx]]. cbn [run] in Hx.
    destruct (step s0 x) as [s1|] eqn:Hs; [|discriminate]. inversion Hx; subst s1. clear Hx.
    pose proof (disciplined_prefix _ _ _ Hd) as Hd0.
    pose proof (IH s0 Hr0 Hd0) as IH0.
    destruct x as [k e].
    pose proof (Hd i) as Hdi. rewrite proj_app in *. rewrite wl_app in *.
    destruct (Nat.eq_dec k i) as [->|Hk].
    + (* the step is by thread i *)
      rewrite proj_one_eq in *.
      pose proof (IH0 i) as IHi.
      destruct (wl prot false (proj i tr)) as [h|] eqn:Hh; [|congruence].
      unfold step in Hs. cbn [fst snd] in Hs.
      destruct e; cbn [wl] in *.
      * destruct h; [congruence|]. destruct (st_owner s0) eqn:Ho; [discriminate|]. inversion Hs; subst; cbn. tauto.
      * destruct h; [|congruence]. destruct (st_owner s0) as [j|] eqn:Ho; [|discriminate].
        destruct (Nat.eqb i j); [|discriminate]. inversion Hs; subst; cbn. split; discriminate.
      * destruct (Z.eqb _ _); [|discriminate]. inversion Hs; subst.
        destruct (prot f && negb h); [congruence|]. exact IHi.
      * inversion Hs; subst; cbn. destruct (prot f && h); [|congruence]. exact IHi.
      * inversion Hs; subst. exact IHi.
    + (* the step is by another thread k *)
      rewrite (proj_one_neq i k e Hk) in Hdi |- *.
      pose proof (IH0 i) as IHi. pose proof (IH0 k) as IHk.
      destruct (wl prot false (proj i tr)) as [h|] eqn:Hh; [|congruence]. cbn [wl] in *.
      unfold step in Hs. cbn [fst snd] in Hs.
      destruct e.
      * destruct (st_owner s0) eqn:Ho; [discriminate|]. inversion Hs; subst; cbn.
        split; intros H; [apply IHi in H; discriminate | inversion H; congruence].
      * destruct (st_owner s0) as [j|] eqn:Ho; [|discriminate].
        destruct (Nat.eqb_spec k j); [|discriminate]. subst j. inversion Hs; subst; cbn.
        split; intros H; [apply IHi in H; congruence | discriminate].
      * destruct (Z.eqb _ _); [|discriminate]. inversion Hs; subst. exact IHi.
      * inversion Hs; subst; cbn. exact IHi.
      * inversion Hs; subst. exact IHi.
Qed.

(* mutual exclusion *)
Corollary mutual_exclusion : forall prot m tr s i j, run (init m) tr = Some s -> disciplined prot tr ->
  wl prot false (proj i tr) = Some true -> wl prot false (proj j tr) = Some true -> i = j.
Proof.
  intros prot m tr s i j Hr Hd Hi Hj.
  apply (own_inv prot m tr s Hr Hd) in Hi. apply (own_inv prot m tr s Hr Hd) in Hj. congruence.
Qed.

(* a thread that performs a conflicting access holds the lock at that moment *)
Lemma access_holds : forall prot tr i e rest, disciplined prot (tr ++ (i, e) :: rest) ->
  (match e with ERd _ f _ | EWr _ f _ => prot f = true | _ => False end) ->
  wl prot false (proj i tr) = Some true.
Proof.
  intros prot tr i e rest Hd Hp. specialize (Hd i).
  replace (tr ++ (i, e) :: rest) with ((tr ++ [(i, e)]) ++ rest) in Hd by (rewrite <- app_assoc; reflexivity).
  rewrite proj_app in Hd. apply wl_prefix in Hd. rewrite proj_app, proj_one_eq, wl_app in Hd.
  destruct (wl prot false (proj i tr)) as [h|]; [|congruence].
  destruct e; try contradiction; cbn [wl] in Hd; rewrite Hp in Hd; destruct h; cbn in Hd; congruence.
Qed.

(* ------------------------------------------------------------------ data-race freedom *)

Lemma acquire_between : forall b s s' j, run s b = Some s' -> st_owner s <> Some j -> st_owner s' = Some j ->
  exists b2 b3, b = b2 ++ (j, EAcq) :: b3.
Proof.
  induction b as [|x b IH]; intros s s' j Hr Hn Ho; cbn [run] in Hr.
  - inversion Hr; subst. contradiction.
  - destruct (step s x) as [s1|] eqn:Hs; [|discriminate].
    destruct (option_eq_dec_nat (st_owner s1) (Some j)) as [He|He].
    + (* this very step made j the owner: it is (j, EAcq) *)
      destruct x as [k e]. unfold step in Hs. cbn [fst snd] in Hs. destruct e.
      * destruct (st_owner s); [discriminate|]. inversion Hs; subst; cbn in He. inversion He; subst.
        exists [], b. reflexivity.
      * destruct (st_owner s) as [q|]; [|discriminate]. destruct (Nat.eqb k q); [|discriminate].
        inversion Hs; subst; cbn in He. discriminate.
      * destruct (Z.eqb _ _); [|discriminate]. inversion Hs; subst. contradiction.
      * inversion Hs; subst; cbn in He. contradiction.
      * inversion Hs; subst. contradiction.
    + destruct (IH s1 s' j Hr He Ho) as [b2 [b3 ->]]. exists (x :: b2), b3. reflexivity.
Qed.

Lemma release_then_acquire : forall b s s' i j, run s b = Some s' -> st_owner s = Some i -> st_owner s' = Some j -> i <> j ->
  exists b1 b2 b3, b = b1 ++ (i, ERel) :: b2 ++ (j, EAcq) :: b3.
Proof.
  induction b as [|x b IH]; intros s s' i j Hr Hi Hj Hij; cbn [run] in Hr.
  - inversion Hr; subst. congruence.
  - destruct (step s x) as [s1|] eqn:Hs; [|discriminate].
    destruct x as [k e]. unfold step in Hs. cbn [fst snd] in Hs. rewrite Hi in Hs. destruct e.
    + discriminate.
    + destruct (Nat.eqb_spec k i); [|discriminate]. subst k. inversion Hs; subst.
      assert (Hn : st_owner (mkst (st_mem s) None) <> Some j) by (cbn; discriminate).
      destruct (acquire_between b _ s' j Hr Hn Hj) as [b2 [b3 ->]].
      exists [], b2, b3. reflexivity.
    + destruct (Z.eqb _ _); [|discriminate]. inversion Hs; subst.
      destruct (IH _ _ i j Hr Hi Hj Hij) as [b1 [b2 [b3 ->]]]. exists ((k, ERd o f v) :: b1), b2, b3. reflexivity.
    + inversion Hs; subst.
      assert (Hi' : st_owner (mkst (upd (st_mem s) o f v) (Some i)) = Some i) by reflexivity.
      destruct (IH _ s' i j Hr Hi' Hj Hij) as [b1 [b2 [b3 ->]]].
      exists ((k, EWr o f v) :: b1), b2, b3. reflexivity.
    + inversion Hs; subst.
      destruct (IH _ _ i j Hr Hi Hj Hij) as [b1 [b2 [b3 ->]]]. exists ((k, ETau) :: b1), b2, b3. reflexivity.
Qed.

Lemma proj_cons_eq : forall i e (y : list tev), proj i ((i, e) :: y) = e :: proj i y.
Proof. intros. unfold proj. cbn. now rewrite Nat.eqb_refl. Qed.

Lemma disc_write_prot : forall prot x k o f v y, disciplined prot (x ++ (k, EWr o f v) :: y) -> prot f = true.
Proof.
  intros prot x k o f v y Hd. specialize (Hd k). rewrite proj_app, proj_cons_eq in Hd.
  eapply wl_write_protected; eauto.
Qed.

Lemma step_access_owner : forall s k e s', step s (k, e) = Some s' ->
  (match e with ERd _ _ _ | EWr _ _ _ => True | _ => False end) -> st_owner s' = st_owner s.
Proof.
  intros s k e s' H He. unfold step in H. cbn [fst snd] in H. destruct e; try contradiction.
  - destruct (Z.eqb _ _); [now inversion H | discriminate].
  - now inversion H.
Qed.

(* DATA-RACE FREEDOM: in every execution of disciplined threads, two conflicting accesses (same cell, at least one write)
   of different threads are separated by a release of the lock by the first thread followed by an acquire by the second,
   i.e. they are ordered by the synchronises-with edge of the mutex (happens-before): no data race. *)
Theorem drf_hb : forall prot m tr s a i e1 b j e2 c,
  run (init m) tr = Some s -> disciplined prot tr ->
  tr = a ++ (i, e1) :: b ++ (j, e2) :: c -> i <> j -> conflict e1 e2 ->
  exists b1 b2 b3, b = b1 ++ (i, ERel) :: b2 ++ (j, EAcq) :: b3.
Proof.
  intros prot m tr s a i e1 b j e2 c Hr Hd -> Hij Hc.
  (* both events are accesses to one protected field *)
  assert (Hp : (match e1 with ERd _ f _ | EWr _ f _ => prot f = true | _ => False end) /\
               (match e2 with ERd _ f _ | EWr _ f _ => prot f = true | _ => False end)).
  { pose proof Hd as Hd2.
    replace (a ++ (i, e1) :: b ++ (j, e2) :: c) with ((a ++ (i, e1) :: b) ++ (j, e2) :: c) in Hd2
      by (rewrite <- app_assoc; reflexivity).
    destruct e1, e2; cbn in Hc; try contradiction; destruct Hc as [-> ->].
    - pose proof (disc_write_prot _ _ _ _ _ _ _ Hd2). auto.
    - pose proof (disc_write_prot _ _ _ _ _ _ _ Hd). auto.
    - pose proof (disc_write_prot _ _ _ _ _ _ _ Hd). auto. }
  destruct Hp as [Hp1 Hp2].
  pose proof (access_holds prot a i e1 _ Hd Hp1) as Hi.
  assert (Hd2 : disciplined prot ((a ++ (i, e1) :: b) ++ (j, e2) :: c)) by (rewrite <- app_assoc; exact Hd).
  pose proof (access_holds prot _ j e2 _ Hd2 Hp2) as Hj.
  (* split the run *)
  replace (a ++ (i, e1) :: b ++ (j, e2) :: c) with (a ++ [(i, e1)] ++ b ++ (j, e2) :: c) in Hr by reflexivity.
  apply run_app_some in Hr. destruct Hr as [sa [Hra Hr]].
  apply run_app_some in Hr. destruct Hr as [s1 [Hr1 Hr]].
  apply run_app_some in Hr. destruct Hr as [s2 [Hr2 _]].
  pose proof (disciplined_prefix _ _ _ Hd) as Hda.
  apply (own_inv prot m a sa Hra Hda) in Hi.
  assert (Hr12 : run (init m) (a ++ (i, e1) :: b) = Some s2).
  { rewrite run_app, Hra. change ((i, e1) :: b) with ([(i, e1)] ++ b). rewrite run_app, Hr1. exact Hr2. }
  pose proof (disciplined_prefix _ _ _ Hd2) as Hdb.
  apply (own_inv prot m _ s2 Hr12 Hdb) in Hj.
  cbn [run] in Hr1. destruct (step sa (i, e1)) as [s1'|] eqn:Hs; [|discriminate]. inversion Hr1; subst s1'.
  assert (Ho1 : st_owner s1 = Some i).
  { rewrite (step_access_owner _ _ _ _ Hs); [assumption|]. destruct e1; auto. }
  exact (release_then_acquire b s1 s2 i j Hr2 Ho1 Hj Hij).
Qed.

(* the holder of the lock is never blocked by the lock (no self-deadlock): its next event is not an acquire *)
Theorem holder_never_blocks : forall prot m tr s i e rest,
  run (init m) tr = Some s -> disciplined prot (tr ++ (i, e) :: rest) -> st_owner s = Some i -> e <> EAcq.
Proof.
  intros prot m tr s i e rest Hr Hd Ho ->.
  pose proof (disciplined_prefix _ _ _ Hd) as Hd0.
  apply (own_inv prot m tr s Hr Hd0) in Ho.
  specialize (Hd i). rewrite proj_app, proj_cons_eq, wl_app, Ho in Hd. cbn in Hd. congruence.
Qed.

(* ------------------------------------------------------------------ serialisability of critical sections *)

Lemma run_owner : forall tr s s', run s tr = Some s' -> st_owner s' = fold_left owner_step tr (st_owner s).
Proof.
  induction tr as [|x tr IH]; intros s s' H; cbn [run fold_left] in *.
  - now inversion H.
  - destruct (step s x) as [s1|] eqn:Hs; [|discriminate].
    destruct (step_owner _ _ _ Hs) as [<-|[]]. apply IH; assumption.
Qed.

Lemma serial_app : forall a b o, serial o (a ++ b) <-> serial o a /\ serial (fold_left owner_step a o) b.
Proof.
  induction a as [|x a IH]; intros b o; cbn [app serial fold_left].
  - tauto.
  - rewrite IH. tauto.
Qed.

Lemma proj_none : forall i (C : list tev), (forall y, In y C -> fst y <> i) -> proj i C = [].
Proof.
  induction C as [|y C IH]; intros H; [reflexivity|].
  unfold proj in *. cbn. destruct (Nat.eqb_spec (fst y) i) as [E|E].
  - exfalso. apply (H y); [left; reflexivity | exact E].
  - apply IH. intros z Hz. apply H. right; assumption.
Qed.

Lemma proj_one : forall i (x : tev), proj i [x] = if Nat.eqb (fst x) i then [snd x] else [].
Proof. intros. unfold proj. cbn. destruct (Nat.eqb (fst x) i); reflexivity. Qed.

Lemma disc_in_write_prot : forall prot tr k o f v, disciplined prot tr -> In (k, EWr o f v) tr -> prot f = true.
Proof.
  intros prot tr k o f v Hd Hin. apply in_split in Hin. destruct Hin as [x [y ->]].
  eapply disc_write_prot; eauto.
Qed.

Lemma upd_other : forall m o f v o' f', field_eqb f f' = false -> upd m o f v o' f' = m o' f'.
Proof. intros. unfold upd. rewrite H. now rewrite andb_false_r. Qed.

(* immutable (unprotected) fields keep their initial value in every execution of disciplined threads *)
Lemma imm_preserved : forall prot tr s s', run s tr = Some s' ->
  (forall k o f v, In (k, EWr o f v) tr -> prot f = true) ->
  forall o f, prot f = false -> st_mem s' o f = st_mem s o f.
Proof.
  intros prot. induction tr as [|x tr IH]; intros s s' Hr Hw o f Hp; cbn [run] in Hr.
  - now inversion Hr.
  - destruct (step s x) as [s1|] eqn:Hs; [|discriminate].
    rewrite (IH s1 s' Hr); [| intros; eapply Hw; right; eauto | assumption].
    destruct x as [k e]. unfold step in Hs. cbn [fst snd] in Hs. destruct e.
    + destruct (st_owner s); [discriminate | now inversion Hs].
    + destruct (st_owner s) as [q|]; [|discriminate]. destruct (Nat.eqb k q); [now inversion Hs | discriminate].
    + destruct (Z.eqb _ _); [now inversion Hs | discriminate].
    + inversion Hs; subst; cbn. apply upd_other.
      destruct (field_eqb f0 f) eqn:E; [|reflexivity]. apply field_eqb_eq in E. subst f0.
      rewrite (Hw k o0 f v) in Hp; [discriminate | left; reflexivity].
    + now inversion Hs.
Qed.

Record ser_inv (prot : field -> bool) (m : memory) (tr A C : list tev) (s : state) : Prop := mk_ser_inv {
  si_run : exists sA, run (init m) A = Some sA /\ st_owner sA = None /\ run sA C = Some s;
  si_open : (C = [] /\ st_owner s = None) \/
            (exists j C', C = (j, EAcq) :: C' /\ (forall y, In y C -> fst y = j) /\ st_owner s = Some j);
  si_proj : forall i, proj i (A ++ C) = proj i tr;
  si_serial : serial None (A ++ C);
  si_key : filter (keyb prot) (A ++ C) = filter (keyb prot) tr
}.

Lemma ser_inv_run : forall prot m tr A C s, ser_inv prot m tr A C s -> run (init m) (A ++ C) = Some s.
Proof. intros prot m tr A C s [[sA [H1 [_ H2]]] _ _ _ _]. now rewrite run_app, H1. Qed.

Lemma ser_inv_step : forall prot m tr A C s x s',
  run (init m) tr = Some s -> disciplined prot (tr ++ [x]) ->
  ser_inv prot m tr A C s -> step s x = Some s' ->
  ser_inv prot m (tr ++ [x]) (fst (ser_step (A, C) x)) (snd (ser_step (A, C) x)) s'.
Proof.
  intros prot m tr A C s x s' Hrun Hd Hinv Hs.
  pose proof (ser_inv_run _ _ _ _ _ _ Hinv) as HrunAC.
  destruct Hinv as [[sA [HrA [HoA HrC]]] Hopen Hproj Hserial Hkey].
  pose proof (run_owner _ _ _ HrunAC) as HownAC. cbn in HownAC.
  pose proof (run_owner _ _ _ HrA) as HownA. cbn in HownA. rewrite HoA in HownA.
  destruct x as [i e].
  destruct Hopen as [[-> Hos] | [j [C' [HC [Hall Hos]]]]].
  - (* no open critical section *)
    rewrite app_nil_r in *. cbn in HrC. inversion HrC; subst sA. clear HrC.
    unfold ser_step. cbn [snd fst].
    destruct e; cbn [fst snd].
    + (* EAcq opens a section *)
      unfold step in Hs. cbn [fst snd] in Hs. rewrite Hos in Hs. inversion Hs; subst s'.
      constructor.
      * exists s. repeat split; auto. cbn. unfold step. cbn. now rewrite Hos.
      * right. exists i, []. repeat split; auto. intros y [<-|[]]. reflexivity.
      * intros k. rewrite !proj_app. now rewrite Hproj.
      * apply serial_app. split; [assumption|]. rewrite <- HownA. cbn. auto.
      * rewrite !filter_app. now rewrite Hkey.
    + (* ERel with no owner: impossible *)
      unfold step in Hs. cbn [fst snd] in Hs. rewrite Hos in Hs. discriminate.
    + unfold step in Hs. cbn [fst snd] in Hs. destruct (Z.eqb _ _) eqn:Hv; [|discriminate]. inversion Hs; subst s'.
      constructor.
      * exists s. repeat split; auto. rewrite run_app, HrA. cbn. unfold step. cbn. now rewrite Hv.
      * left. auto.
      * intros k. rewrite app_nil_r, !proj_app. now rewrite Hproj.
      * rewrite app_nil_r. apply serial_app. split; [assumption|]. rewrite <- HownA. cbn. auto.
      * rewrite app_nil_r, !filter_app. now rewrite Hkey.
    + unfold step in Hs. cbn [fst snd] in Hs. inversion Hs; subst s'.
      constructor.
      * exists (mkst (upd (st_mem s) o f v) (st_owner s)). split; [|split]; [rewrite run_app, HrA; reflexivity | cbn; assumption | reflexivity].
      * left. cbn. auto.
      * intros k. rewrite app_nil_r, !proj_app. now rewrite Hproj.
      * rewrite app_nil_r. apply serial_app. split; [assumption|]. rewrite <- HownA. cbn. auto.
      * rewrite app_nil_r, !filter_app. now rewrite Hkey.
    + unfold step in Hs. cbn [fst snd] in Hs. inversion Hs; subst s'.
      constructor.
      * exists s. repeat split; auto. rewrite run_app, HrA. reflexivity.
      * left. auto.
      * intros k. rewrite app_nil_r, !proj_app. now rewrite Hproj.
      * rewrite app_nil_r. apply serial_app. split; [assumption|]. rewrite <- HownA. cbn. auto.
      * rewrite app_nil_r, !filter_app. now rewrite Hkey.
  - (* open critical section of thread j *)
    unfold ser_step. rewrite HC. cbn [fst snd]. rewrite <- HC.
    destruct (Nat.eqb_spec i j) as [->|Hij].
    + (* the owner continues *)
      destruct e; cbn [fst snd].
      * unfold step in Hs. cbn [fst snd] in Hs. rewrite Hos in Hs. discriminate.
      * (* ERel closes the section *)
        unfold step in Hs. cbn [fst snd] in Hs. rewrite Hos, Nat.eqb_refl in Hs. inversion Hs; subst s'.
        constructor.
        -- exists (mkst (st_mem s) None). repeat split; auto.
           rewrite app_assoc, run_app, HrunAC. cbn. unfold step. cbn. now rewrite Hos, Nat.eqb_refl.
        -- left. auto.
        -- intros k. rewrite app_nil_r, app_assoc. rewrite (proj_app k (A ++ C)), (proj_app k tr). now rewrite Hproj.
        -- rewrite app_nil_r, app_assoc. apply serial_app. split; [assumption|]. rewrite <- HownAC, Hos. cbn. auto.
        -- rewrite app_nil_r, app_assoc. rewrite (filter_app _ (A ++ C)), (filter_app _ tr). now rewrite Hkey.
      * unfold step in Hs. cbn [fst snd] in Hs. destruct (Z.eqb _ _) eqn:Hv; [|discriminate]. inversion Hs; subst s'.
        constructor.
        -- exists sA. repeat split; auto. rewrite run_app, HrC. cbn. unfold step. cbn. now rewrite Hv.
        -- right. exists j, (C' ++ [(j, ERd o f v)]). rewrite HC. repeat split; auto.
           intros y Hy. change ((j, EAcq) :: C' ++ [(j, ERd o f v)]) with (((j, EAcq) :: C') ++ [(j, ERd o f v)]) in Hy.
           apply in_app_or in Hy. destruct Hy as [Hy|[<-|[]]]; [apply Hall; rewrite HC; exact Hy | reflexivity].
        -- intros k. rewrite app_assoc. rewrite (proj_app k (A ++ C)), (proj_app k tr). now rewrite Hproj.
        -- rewrite app_assoc. apply serial_app. split; [assumption|]. rewrite <- HownAC, Hos. cbn. auto.
        -- rewrite app_assoc. rewrite (filter_app _ (A ++ C)), (filter_app _ tr). now rewrite Hkey.
      * unfold step in Hs. cbn [fst snd] in Hs. inversion Hs; subst s'.
        constructor.
        -- exists sA. repeat split; auto. rewrite run_app, HrC. reflexivity.
        -- right. exists j, (C' ++ [(j, EWr o f v)]). rewrite HC. repeat split; auto.
           intros y Hy. change ((j, EAcq) :: C' ++ [(j, EWr o f v)]) with (((j, EAcq) :: C') ++ [(j, EWr o f v)]) in Hy.
           apply in_app_or in Hy. destruct Hy as [Hy|[<-|[]]]; [apply Hall; rewrite HC; exact Hy | reflexivity].
        -- intros k. rewrite app_assoc. rewrite (proj_app k (A ++ C)), (proj_app k tr). now rewrite Hproj.
        -- rewrite app_assoc. apply serial_app. split; [assumption|]. rewrite <- HownAC, Hos. cbn. auto.
        -- rewrite app_assoc. rewrite (filter_app _ (A ++ C)), (filter_app _ tr). now rewrite Hkey.
      * unfold step in Hs. cbn [fst snd] in Hs. inversion Hs; subst s'.
        constructor.
        -- exists sA. repeat split; auto. rewrite run_app, HrC. reflexivity.
        -- right. exists j, (C' ++ [(j, ETau)]). rewrite HC. repeat split; auto.
           intros y Hy. change ((j, EAcq) :: C' ++ [(j, ETau)]) with (((j, EAcq) :: C') ++ [(j, ETau)]) in Hy.
           apply in_app_or in Hy. destruct Hy as [Hy|[<-|[]]]; [apply Hall; rewrite HC; exact Hy | reflexivity].
        -- intros k. rewrite app_assoc. rewrite (proj_app k (A ++ C)), (proj_app k tr). now rewrite Hproj.
        -- rewrite app_assoc. apply serial_app. split; [assumption|]. rewrite <- HownAC, Hos. cbn. auto.
        -- rewrite app_assoc. rewrite (filter_app _ (A ++ C)), (filter_app _ tr). now rewrite Hkey.
    + (* another thread i steps while j holds the lock: its event is unprotected and is moved in front of the section *)
      assert (Hhi : wl prot false (proj i tr) = Some false).
      { pose proof (disciplined_prefix _ _ _ Hd) as Hd0. pose proof (Hd0 i) as Hn.
        destruct (wl prot false (proj i tr)) as [[|]|] eqn:Hh; [|reflexivity|congruence].
        apply (own_inv prot m tr s Hrun Hd0) in Hh. congruence. }
      pose proof (Hd i) as Hdi. rewrite proj_app, proj_one_eq, wl_app, Hhi in Hdi.
      assert (HprojC : proj i C = []).
      { apply proj_none. intros y Hy E. apply Hij. rewrite <- E. apply Hall. exact Hy. }
      assert (Hserial' : serial None A /\ serial None C).
      { apply serial_app in Hserial. rewrite <- HownA in Hserial. exact Hserial. }
      assert (Hdisc : forall k o f v, In (k, EWr o f v) (A ++ C) -> prot f = true).
      { intros k o f v Hin. eapply (disc_in_write_prot prot (A ++ C)); eauto.
        intros q. rewrite Hproj. apply (disciplined_prefix _ _ _ Hd). }
      assert (Hgeneric : forall (keyfalse : keyb prot (i, e) = false) (sameA : run sA [(i, e)] = Some sA)
                                (same : s' = s) (nosync : owner_step None (i, e) = None),
                 ser_inv prot m (tr ++ [(i, e)]) (A ++ [(i, e)]) C s').
      { intros keyfalse sameA same nosync. subst s'. constructor.
        - exists sA. repeat split; auto. now rewrite run_app, HrA.
        - right. exists j, C'. auto.
        - intros k. rewrite <- app_assoc, !proj_app. rewrite <- Hproj, proj_app.
          destruct (Nat.eq_dec k i) as [->|Hk].
          + rewrite HprojC, !app_nil_r. reflexivity.
          + rewrite (proj_one_neq k i e) by auto. now rewrite app_nil_r.
        - rewrite <- app_assoc. apply serial_app. split; [tauto|]. rewrite <- HownA. cbn [app serial].
          split; [exact I|]. rewrite nosync. tauto.
        - rewrite <- app_assoc, !filter_app. rewrite <- Hkey, filter_app. cbn [filter]. rewrite keyfalse.
          now rewrite !app_nil_r. }
      destruct e; cbn [fst snd].
      * unfold step in Hs. cbn [fst snd] in Hs. rewrite Hos in Hs. discriminate.
      * unfold step in Hs. cbn [fst snd] in Hs. rewrite Hos in Hs.
        destruct (Nat.eqb_spec i j); [contradiction | discriminate].
      * cbn [wl] in Hdi. destruct (prot f) eqn:Hpf; [cbn in Hdi; congruence|].
        unfold step in Hs. cbn [fst snd] in Hs. destruct (Z.eqb (st_mem s o f) v) eqn:Hv; [|discriminate].
        inversion Hs; subst s'.
        apply Hgeneric; [cbn; exact Hpf | | reflexivity | reflexivity].
        assert (E : st_mem sA o f = st_mem s o f).
        { rewrite (imm_preserved prot C sA s HrC); auto. intros; eapply Hdisc; apply in_or_app; right; eauto. }
        cbn. rewrite E, Hv. reflexivity.
      * cbn [wl] in Hdi. destruct (prot f); cbn in Hdi; congruence.
      * unfold step in Hs. cbn [fst snd] in Hs. inversion Hs; subst s'. apply Hgeneric; auto.
Qed.

Lemma fold_ser_inv : forall prot m tr s, run (init m) tr = Some s -> disciplined prot tr ->
  ser_inv prot m tr (fst (fold_left ser_step tr ([], []))) (snd (fold_left ser_step tr ([], []))) s.
Proof.
  intros prot m tr. induction tr as [|x tr IH] using rev_ind; intros s Hr Hd.
  - cbn in *. inversion Hr; subst. constructor; cbn; auto.
    exists (init m). cbn. auto.
  - apply run_app_some in Hr. destruct Hr as [s0 [Hr0 Hx]]. cbn [run] in Hx.
    destruct (step s0 x) as [s1|] eqn:Hs; [|discriminate]. inversion Hx; subst s1.
    rewrite fold_left_app. cbn [fold_left].
    pose proof (IH s0 Hr0 (disciplined_prefix _ _ _ Hd)) as I0.
    destruct (fold_left ser_step tr ([], [])) as [A C]. cbn [fst snd] in I0.
    eapply ser_inv_step; eauto.
Qed.

(* SERIALISABILITY: every execution of disciplined threads has an equivalent serial execution — same initial and final
   state, every thread performs exactly the same events with the same values read (so it computes the same results),
   the order of all lock operations and of all accesses to protected fields is unchanged (critical sections keep their
   order, which is the order of the acquires: real-time order of operations is respected), and in the serial execution
   no thread takes a step while another one holds the lock: each critical section runs alone, i.e. sequentially. *)
Theorem serialisable : forall prot m tr s, run (init m) tr = Some s -> disciplined prot tr ->
  run (init m) (ser tr) = Some s /\
  (forall i, proj i (ser tr) = proj i tr) /\
  serial None (ser tr) /\
  filter (keyb prot) (ser tr) = filter (keyb prot) tr.
Proof.
  intros prot m tr s Hr Hd. pose proof (fold_ser_inv prot m tr s Hr Hd) as I.
  unfold ser. destruct (fold_left ser_step tr ([], [])) as [A C]. cbn [fst snd] in I.
  pose proof (ser_inv_run _ _ _ _ _ _ I) as R. destruct I as [_ _ P S K]. auto.
Qed.

(* satisfiability of the hypotheses: two threads, each with one critical section writing the same protected cell *)
Example serialisable_hyp_sat :
  let prot := fun _ : field => true in
  let f := ("C", "x")%string in
  let tr := [(0, EAcq); (1, ETau); (0, EWr 0 f 1%Z); (0, ERel); (1, EAcq); (1, ERd 0 f 1%Z); (1, EWr 0 f 2%Z); (1, ERel)] in
  (exists s, run (init (fun _ _ => 0%Z)) tr = Some s) /\ disciplined prot tr /\ ser tr <> tr.
Proof.
  cbn zeta. split; [eexists; reflexivity|]. split.
  - intros i. destruct i as [|[|i]]; cbn; discriminate.
  - cbn. discriminate.
Qed.

(* ------------------------------------------------------------------ the serialisation only reorders: nothing is dropped or invented *)
From Coq Require Import Permutation.

Lemma ser_step_perm : forall A C x, Permutation (A ++ C ++ [x]) (fst (ser_step (A, C) x) ++ snd (ser_step (A, C) x)).
Proof.
  intros A C x. unfold ser_step. destruct C as [|y C'].
  - cbn [app]. destruct (snd x); cbn [fst snd]; rewrite ?app_nil_r; apply Permutation_refl.
  - destruct (Nat.eqb (fst x) (fst y)).
    + destruct (snd x); cbn [fst snd]; rewrite ?app_nil_r; apply Permutation_refl.
    + cbn [fst snd]. rewrite <- !app_assoc. apply Permutation_app_head. cbn [app].
      apply Permutation_sym. apply (Permutation_cons_app (y :: C') [] x). rewrite app_nil_r. apply Permutation_refl.
Qed.

Lemma fold_ser_perm : forall tr A C,
  Permutation (A ++ C ++ tr) (fst (fold_left ser_step tr (A, C)) ++ snd (fold_left ser_step tr (A, C))).
Proof.
  induction tr as [|x tr IH]; intros A C; cbn [fold_left].
  - rewrite app_nil_r. apply Permutation_refl.
  - destruct (ser_step (A, C) x) as [A' C'] eqn:E.
    eapply Permutation_trans; [|apply IH].
    pose proof (ser_step_perm A C x) as P. rewrite E in P. cbn [fst snd] in P.
    replace (A ++ C ++ x :: tr) with ((A ++ C ++ [x]) ++ tr) by (rewrite <- !app_assoc; reflexivity).
    replace (A' ++ C' ++ tr) with ((A' ++ C') ++ tr) by (rewrite <- app_assoc; reflexivity).
    apply Permutation_app_tail. exact P.
Qed.

Theorem ser_permutation : forall tr, Permutation tr (ser tr).
Proof.
  intros tr. unfold ser. pose proof (fold_ser_perm tr [] []) as P. cbn [app] in P.
  destruct (fold_left ser_step tr ([], [])) as [A C]. exact P.
Qed.

(* ------------------------------------------------------------------ the serialisation leaves serial executions alone *)
Definition open_inv (o : option nat) (C : list (nat * ev)) : Prop :=
  match o with None => C = [] | Some j => exists y C', C = y :: C' /\ fst y = j end.

Lemma ser_step_serial : forall o A C x,
  (match o with Some j => fst x = j | None => True end) -> open_inv o C ->
  fst (ser_step (A, C) x) ++ snd (ser_step (A, C) x) = A ++ C ++ [x] /\ open_inv (owner_step o x) (snd (ser_step (A, C) x)).
Proof.
  intros o A C [i e] Hown Hinv. unfold ser_step, owner_step. cbn [fst snd] in *.
  destruct o as [j|]; cbn [open_inv] in Hinv.
  - destruct Hinv as [y [C' [-> Hy]]]. subst i. rewrite Hy, Nat.eqb_refl.
    destruct e; cbn [fst snd open_inv]; (split; [rewrite <- ?app_assoc; reflexivity|]);
      try (exists y; eexists; split; [reflexivity | assumption]); reflexivity.
  - subst C. destruct e; cbn [fst snd open_inv app]; (split; [rewrite ?app_nil_r; reflexivity|]);
      try reflexivity. exists (i, EAcq), []. auto.
Qed.

Lemma fold_ser_serial : forall tr o A C, serial o tr -> open_inv o C ->
  fst (fold_left ser_step tr (A, C)) ++ snd (fold_left ser_step tr (A, C)) = A ++ C ++ tr.
Proof.
  induction tr as [|x tr IH]; intros o A C Hs Hinv; cbn [fold_left].
  - rewrite app_nil_r. reflexivity.
  - cbn [serial] in Hs. destruct Hs as [Hown Hs].
    destruct (ser_step_serial o A C x Hown Hinv) as [E Hinv'].
    destruct (ser_step (A, C) x) as [A1 C1]. cbn [fst snd] in *.
    rewrite (IH _ A1 C1 Hs Hinv'). rewrite app_assoc, E. rewrite <- !app_assoc. reflexivity.
Qed.

(* an execution that is already serial is not touched at all (frame condition of the serialisation) *)
Theorem ser_serial_id : forall tr, serial None tr -> ser tr = tr.
Proof.
  intros tr H. unfold ser. pose proof (fold_ser_serial tr None [] [] H eq_refl) as E.
  destruct (fold_left ser_step tr ([], [])) as [A C]. exact E.
Qed.

(* hence serialising twice is serialising once, for every execution of disciplined threads *)
Corollary ser_idempotent : forall prot m tr s, run (init m) tr = Some s -> disciplined prot tr -> ser (ser tr) = ser tr.
Proof. intros prot m tr s Hr Hd. apply ser_serial_id. exact (proj1 (proj2 (proj2 (serialisable prot m tr s Hr Hd)))). Qed.

(* ------------------------------------------------------------------ the classic formulation of data-race freedom *)
(* no reachable state enables two conflicting accesses of different threads at the same time *)
Theorem no_simultaneous_conflict : forall prot m tr s i e1 j e2,
  run (init m) tr = Some s ->
  disciplined prot (tr ++ [(i, e1)]) -> disciplined prot (tr ++ [(j, e2)]) ->
  conflict e1 e2 -> i = j.
Proof.
  intros prot m tr s i e1 j e2 Hr H1 H2 Hc.
  assert (Hp : (match e1 with ERd _ f _ | EWr _ f _ => prot f = true | _ => False end) /\
               (match e2 with ERd _ f _ | EWr _ f _ => prot f = true | _ => False end)).
  { destruct e1, e2; cbn in Hc; try contradiction; destruct Hc as [-> ->].
    - pose proof (disc_write_prot _ _ _ _ _ _ _ H2). auto.
    - pose proof (disc_write_prot _ _ _ _ _ _ _ H1). auto.
    - pose proof (disc_write_prot _ _ _ _ _ _ _ H1). auto. }
  destruct Hp as [P1 P2].
  pose proof (access_holds prot tr i e1 [] H1 P1) as Hi.
  pose proof (access_holds prot tr j e2 [] H2 P2) as Hj.
  exact (mutual_exclusion prot m tr s i j Hr (disciplined_prefix _ _ _ H1) Hi Hj).
Qed.

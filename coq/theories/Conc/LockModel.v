(* C11 — lock-discipline model: structured skeletons of the entry points, the reflective checker, the trace semantics of
   skeletons and the well-lockedness predicate on traces.  Definitions only (proofs: LockProofs.v). *)
From Coq Require Import String List Bool ZArith.
Import ListNotations.
Local Open Scope string_scope.

(* R read, W write, Ini initialisation of a member by the constructor of its object (CXXCtorInitializer) *)
Inductive mode := R | W | Ini.

(* skeleton of a function body as produced by tools/c11_skeleton.py *)
Inductive sk :=
| SSkip
| SRet                                            (* return / break / continue: abrupt exit *)
| SAcc (fn cls fld : string) (m : mode)           (* access to data member cls::fld inside function fn *)
| SGlob (fn name : string) (m : mode) (const : bool)   (* variable with static storage duration *)
| SCall (fn callee : string)                      (* call of a function whose body is not visible *)
| SRaw (fn what : string)                         (* construct the checker does not support (explicit lock()/unlock(), goto) *)
| SInl (callee : string) (b : sk)                 (* inlined callee *)
| SSeq (a b : sk)
| SAlt (a b : sk)
| SLoop (a : sk)
| SLocked (fn cls fld : string) (b : sk).         (* LockGuard on cls::fld: Acq; b; Rel on every exit *)

Definition field := (string * string)%type.
Definition field_eqb (a b : field) : bool := String.eqb (fst a) (fst b) && String.eqb (snd a) (snd b).
Definition mem_field (f : field) (l : list field) : bool := existsb (field_eqb f) l.
Definition mem_str (s : string) (l : list string) : bool := existsb (String.eqb s) l.

(* ------------------------------------------------------------------ reviewed classification lists *)

(* the one mutex of the allocator *)
Definition the_lock : field := ("JitAllocatorPrivateImpl", "lock").

(* classes whose objects are reachable from a JitAllocator / JitRuntime shared between threads: every data member is tracked *)
Definition shared_classes : list string :=
  [ "JitAllocator"; "JitAllocator::Impl"; "JitAllocatorPrivateImpl"; "JitAllocatorPool"; "JitAllocatorBlock";
    "ArenaTree"; "ArenaTreeNode"; "ArenaTreeNodeT"; "ArenaList"; "ArenaListNode"; "VirtMem::DualMapping";
    "JitRuntime"; "Target"; "Environment"; "CpuFeatures"; "CpuHints"; "Lock" ].

(* classes whose objects are owned by the calling thread by the contract of the property (class, why) *)
Definition owned_classes : list (string * string) :=
  [ ("JitAllocator::Span", "spans are owned by the thread that allocated them (per-thread ownership in the property)");
    ("JitAllocator::Statistics", "returned by value, local to the caller");
    ("JitAllocator::WriteScopeData", "write scope object of the calling thread");
    ("JitAllocator::WriteScope", "write scope object of the calling thread");
    ("Out", "reference wrapper around a caller-provided output variable");
    ("BitVectorRangeIterator", "local iterator object (its buffer argument is tracked as the pointee of the bit-vector member)");
    ("VirtMem::ProtectJitReadWriteScope", "local RAII object");
    ("LockGuard", "local RAII object");
    ("CodeHolder", "the holder passed to JitRuntime::add is owned by the calling thread (second half of the property)");
    ("CodeHolder::RelocationSummary", "local");
    ("Section", "part of the caller's CodeHolder");
    ("CodeBuffer", "part of the caller's CodeHolder");
    ("ArenaVectorBase", "vector inside the caller's CodeHolder");
    ("ArenaVector", "vector inside the caller's CodeHolder");
    ("Support::ArrayReverseIterator", "local iterator") ].

(* callees without a visible body that an entry point may call (callee, why it is harmless for the lock discipline) *)
Definition allowed_callees : list (string * string) :=
  [ ("memset", "libc; writes only through its pointer argument, which the translator records as a pointee access");
    ("memcpy", "libc; as memset");
    ("malloc", "libc allocator, thread-safe");
    ("free", "libc allocator, thread-safe");
    ("std::swap", "swaps its two reference arguments (recorded as accesses by the translator)");
    ("realloc", "libc allocator, thread-safe");
    ("CodeWriterUtils::write_offset", "function of its arguments only (C17): patches the caller's code buffer");
    ("VirtMem::alloc", "mmap wrapper; static state: atomics only (WritableGlobals)");
    ("VirtMem::release", "munmap wrapper");
    ("VirtMem::alloc_dual_mapping", "mmap/memfd wrapper; static state: atomics + idempotent volatile flag (WritableGlobals)");
    ("VirtMem::release_dual_mapping", "munmap wrapper");
    ("VirtMem::large_page_size", "cached in a function-local std::atomic (WritableGlobals)");
    ("VirtMem::protect_jit_memory", "per-thread W^X toggle (no-op outside Apple MAP_JIT)");
    ("VirtMem::flush_instruction_cache", "cache maintenance of the given range");
    ("VirtMem::hardened_runtime_info", "cached in a function-local std::atomic");
    ("VirtMem::info", "init-once cache (WritableGlobals), initialised before threads start by the property's premise");
    ("CodeHolder::flatten", "acts on the caller's CodeHolder");
    ("CodeHolder::resolve_cross_section_fixups", "acts on the caller's CodeHolder");
    ("CodeHolder::relocate_to_base", "acts on the caller's CodeHolder");
    ("CodeHolder::code_size", "acts on the caller's CodeHolder");
    ("CodeHolder::copy_flattened_data", "acts on the caller's CodeHolder") ].

(* user callbacks: allowed only while the lock is NOT held *)
Definition callback_callees : list string := [ "<indirect:write_fn>"; "<indirect:lambda_fn>" ].

(* non-const variables with static storage the entry points may touch: none *)
Definition allowed_entry_globals : list string := [].

(* ------------------------------------------------------------------ the checker *)

Definition is_shared (cls : string) : bool := mem_str cls shared_classes.
Definition is_owned (cls : string) : bool := existsb (fun p => String.eqb cls (fst p)) owned_classes.

(* fields of shared classes written somewhere in the skeleton *)
Fixpoint fields_written (s : sk) : list field :=
  match s with
  | SAcc _ cls fld W => if is_shared cls then [(cls, fld)] else []
  | SInl _ b | SLoop b | SLocked _ _ _ b => fields_written b
  | SSeq a b | SAlt a b => fields_written a ++ fields_written b
  | _ => []
  end.

Definition written (eps : list (string * sk)) : list field := flat_map (fun p => fields_written (snd p)) eps.

Definition mode_str (m : mode) : string := match m with R => "read" | W => "write" | Ini => "initialisation" end.

(* diagnostics; [] = fine. wr = fields some entry point writes (these must be accessed under the lock, everywhere);
   shared fields never written by an entry point are immutable after construction and may be read without the lock. *)
Fixpoint chk (wr : list field) (held : bool) (s : sk) : list string :=
  match s with
  | SSkip | SRet => []
  | SAcc fn cls fld m =>
      if is_shared cls then
        match m with
        | Ini => (* constructor of a shared object inside an entry point: the object is fresh (not yet reachable by other threads);
                  it must be published through the lock, so the constructor has to run while the lock is held (FreshProofs.v) *)
               if held then [] else ["UNLOCKED initialisation of " ++ cls ++ "::" ++ fld ++ " (object constructed outside the lock) in " ++ fn]
        | _ => if mem_field (cls, fld) wr && negb held
               then ["UNLOCKED " ++ mode_str m ++ " of " ++ cls ++ "::" ++ fld ++ " in " ++ fn]
               else []
        end
      else if is_owned cls then []
      else ["UNCLASSIFIED class " ++ cls ++ " (member " ++ fld ++ ") accessed in " ++ fn]
  | SGlob fn name m const =>
      if const || mem_str name allowed_entry_globals then []
      else ["GLOBAL " ++ mode_str m ++ " of non-const static " ++ name ++ " in " ++ fn]
  | SCall fn callee =>
      if existsb (fun p => String.eqb callee (fst p)) allowed_callees then []
      else if mem_str callee callback_callees
           then if held then ["CALLBACK " ++ callee ++ " invoked with the lock held in " ++ fn] else []
           else ["UNKNOWN callee " ++ callee ++ " in " ++ fn]
  | SRaw fn what => ["UNSUPPORTED " ++ what ++ " in " ++ fn]
  | SInl _ b => chk wr held b
  | SSeq a b | SAlt a b => chk wr held a ++ chk wr held b
  | SLoop a => chk wr held a
  | SLocked fn cls fld b =>
      (if held then ["REACQUIRE of " ++ cls ++ "::" ++ fld ++ " while held (self-deadlock) in " ++ fn] else []) ++
      (if field_eqb (cls, fld) the_lock then [] else ["SECOND LOCK " ++ cls ++ "::" ++ fld ++ " in " ++ fn]) ++
      chk wr true b
  end.

Definition check_program (eps : list (string * sk)) : list string :=
  flat_map (fun p => map (fun d => fst p ++ ": " ++ d) (chk (written eps) false (snd p))) eps.

(* does the skeleton contain at least one locked region / one access? (non-vacuity of the generated data) *)
Fixpoint count_locked (s : sk) : nat :=
  match s with
  | SLocked _ _ _ b => S (count_locked b)
  | SInl _ b | SLoop b => count_locked b
  | SSeq a b | SAlt a b => count_locked a + count_locked b
  | _ => 0
  end.

(* ------------------------------------------------------------------ the lock itself (osutils.h / osutils_p.h) *)

(* SLocked stands for "Acq at the declaration, Rel at every exit of the block": that is what LockGuard must do, with a real mutex *)
Definition expected_lock_impl : list (string * list string) :=
  [ ("LockGuard::LockGuard", ["Lock::lock"]); ("LockGuard::~LockGuard", ["Lock::unlock"]);
    ("Lock::lock", ["pthread_mutex_lock"]); ("Lock::unlock", ["pthread_mutex_unlock"]) ].

Fixpoint list_str_eqb (a b : list string) : bool :=
  match a, b with
  | [], [] => true
  | x :: a', y :: b' => String.eqb x y && list_str_eqb a' b'
  | _, _ => false
  end.

Definition check_lock_impl (li : list (string * list string)) : list string :=
  flat_map (fun e => match filter (fun g => String.eqb (fst g) (fst e)) li with
                     | (_, cs) :: _ => if list_str_eqb cs (snd e) then []
                                       else ["LOCK IMPLEMENTATION: " ++ fst e ++ " calls [" ++ String.concat "; " cs ++ "] instead of [" ++ String.concat "; " (snd e) ++ "]"]
                     | [] => ["LOCK IMPLEMENTATION: " ++ fst e ++ " not found"]
                     end) expected_lock_impl.

(* ------------------------------------------------------------------ the excluded entry points *)

(* reset() is excluded by the documented contract; the exclusion is justified only if reset really is unsafe *)
Definition excluded_unsafe_diag (eps ex : list (string * sk)) : list string :=
  flat_map (fun p => match chk (written eps) false (snd p) with
                     | [] => ["EXCLUDED entry point " ++ fst p ++ " obeys the lock discipline: its exclusion is not needed any more"]
                     | _ => [] end) ex.

(* ------------------------------------------------------------------ coverage of the generated skeleton (non-vacuity) *)

(* entry points that must be present (prefix of "Class::name : signature") and must contain a locked region *)
Definition required_locked : list string :=
  [ "JitAllocator::alloc :"; "JitAllocator::release :"; "JitAllocator::shrink :"; "JitAllocator::query :";
    "JitAllocator::statistics :"; "JitRuntime::_add :"; "JitRuntime::_release :";
    "JitAllocator::write : asmjit::Error (asmjit::JitAllocator::Span &, asmjit::JitAllocator::WriteFunc";
    "JitAllocator::scoped_write : asmjit::Error (asmjit::JitAllocator::WriteScopeData &, asmjit::JitAllocator::Span &, asmjit::JitAllocator::WriteFunc" ].

(* entry points that must be present (they may be lock-free) *)
Definition required_present : list string :=
  [ "JitAllocator::write : asmjit::Error (asmjit::JitAllocator::Span &, size_t"; "JitAllocator::options :";
    "JitAllocator::block_size :"; "JitAllocator::granularity :"; "JitAllocator::fill_pattern :"; "JitRuntime::allocator :" ].

(* bookkeeping members the translator must have seen being written (hence protected) *)
Definition required_protected : list field :=
  [ ("JitAllocatorPrivateImpl", "allocation_count"); ("ArenaTree", "_root"); ("ArenaTreeNode", "_tree_nodes");
    ("ArenaList", "_nodes"); ("ArenaListNode", "_list_nodes");
    ("JitAllocatorPool", "cursor"); ("JitAllocatorPool", "block_count"); ("JitAllocatorPool", "empty_block_count");
    ("JitAllocatorPool", "total_area_size"); ("JitAllocatorPool", "total_area_used"); ("JitAllocatorPool", "total_overhead_bytes");
    ("JitAllocatorBlock", "_flags"); ("JitAllocatorBlock", "_area_used"); ("JitAllocatorBlock", "_largest_unused_area");
    ("JitAllocatorBlock", "_search_start"); ("JitAllocatorBlock", "_search_end");
    ("JitAllocatorBlock", "_used_bit_vector[]"); ("JitAllocatorBlock", "_stop_bit_vector[]");
    (* bytes of the blocks' virtual memory reached through the allocator's own pointers (rw_ptr()/rx_ptr()/_mapping/virt_mem):
       fill patterns, unmapping.  Bytes reached through a caller's Span are owned by that caller and are not this cell. *)
    ("JitAllocatorBlock", "<jit memory>") ].

Definition find_prefix (p : string) (eps : list (string * sk)) : option sk :=
  match filter (fun e => String.prefix p (fst e)) eps with (_, s) :: _ => Some s | [] => None end.

Definition coverage_diag (eps : list (string * sk)) : list string :=
  flat_map (fun p => match find_prefix p eps with
                     | None => ["MISSING entry point " ++ p]
                     | Some s => if Nat.eqb (count_locked s) 0 then ["NO LOCKED REGION in " ++ p] else [] end) required_locked ++
  flat_map (fun p => match find_prefix p eps with None => ["MISSING entry point " ++ p] | Some _ => [] end) required_present ++
  flat_map (fun f => if mem_field f (written eps) then [] else ["NOT SEEN WRITTEN: " ++ fst f ++ "::" ++ snd f]) required_protected.

(* ------------------------------------------------------------------ writable globals of the whole library *)

(* (translation unit, demangled symbol, required kind of the declaration, why it is race-free / outside the property).
   The kind is re-derived on every run from the declared type in the clang AST: "atomic" = std::atomic<...>. *)
Definition allowed_globals : list (string * string * string * string) :=
  [ ("core_cpuinfo", "asmjit::CpuInfo::host()::cpu_info_global", "plain",
       "host CPU cache: written only before cpu_info_initialized_flag is published; every writer stores the same value; excluded by the premise 'once the host information has been initialised'");
    ("core_cpuinfo", "asmjit::CpuInfo::host()::cpu_info_initialized_flag", "atomic", "std::atomic<uint32_t>");
    ("core_cpuinfo", "guard variable for asmjit::CpuInfo::host()::cpu_info_global", "compiler", "compiler-generated thread-safe static-init guard");
    ("core_virtmem", "asmjit::VirtMem::info()::vm_info", "plain",
       "init-once cache guarded by an atomic flag; every writer stores the same value; part of 'host information'");
    ("core_virtmem", "asmjit::VirtMem::info()::vm_info_initialized", "atomic", "std::atomic<uint32_t>");
    ("core_virtmem", "asmjit::VirtMem::large_page_size()::large_page_size", "atomic", "std::atomic<size_t>");
    ("core_virtmem", "asmjit::VirtMem::get_mfd_exec_flag()::cached_mfd_exec_supported", "atomic", "std::atomic<uint32_t>");
    ("core_virtmem", "asmjit::VirtMem::generate_random_bits(unsigned long, unsigned int)::internal_counter", "atomic", "std::atomic<uint32_t>");
    ("core_virtmem", "asmjit::VirtMem::get_anonymous_memory_strategy(asmjit::VirtMem::AnonymousMemoryStrategy*)::cached_strategy", "atomic", "std::atomic<uint32_t>");
    ("core_virtmem", "asmjit::VirtMem::has_hardened_runtime()::cached_hardened_flag", "atomic", "std::atomic<uint32_t>");
    ("core_virtmem", "asmjit::VirtMem::AnonymousMemory::open(bool)::memfd_create_not_supported", "volatile",
       "volatile flag, only ever set 0 -> 1 (idempotent) on ENOSYS; dual mapping only")
  ].

(* g = (translation unit, kind, symbol) *)
Definition global_allowed (g : string * string * string) : bool :=
  existsb (fun a => match a with (tu, sym, kind, _) =>
                      String.eqb (fst (fst g)) tu && String.eqb (snd g) sym && String.eqb (snd (fst g)) kind end) allowed_globals.

Definition check_globals (gs : list (string * string * string)) : list string :=
  flat_map (fun g => if global_allowed g then []
                     else ["WRITABLE GLOBAL " ++ snd g ++ " (" ++ snd (fst g) ++ ") in " ++ fst (fst g)]) gs.

(* ------------------------------------------------------------------ trace semantics of skeletons *)

(* events of one thread; accesses carry an object identity and the value read/written (arbitrary in the skeleton semantics) *)
Inductive ev :=
| EAcq | ERel
| ERd (o : nat) (f : field) (v : Z)
| EWr (o : nat) (f : field) (v : Z)
| ETau.                                             (* thread-local step: owned object, const global, opaque callee *)

(* exec s t abrupt: t is a possible event sequence of s; abrupt = left by return/break/continue.
   Over-approximation of control flow: both branches of every conditional, any number of loop iterations,
   an abrupt exit inside a loop may end the iteration (continue), the loop (break) or the function (return). *)
Inductive exec : sk -> list ev -> bool -> Prop :=
| X_skip : exec SSkip [] false
| X_ret : exec SRet [] true
| X_rd : forall fn cls fld o v, is_shared cls = true -> exec (SAcc fn cls fld R) [ERd o (cls, fld) v] false
| X_wr : forall fn cls fld o v, is_shared cls = true -> exec (SAcc fn cls fld W) [EWr o (cls, fld) v] false
| X_own : forall fn cls fld m, is_shared cls = false -> exec (SAcc fn cls fld m) [ETau] false
| X_init : forall fn cls fld, exec (SAcc fn cls fld Ini) [ETau] false     (* fresh object: thread-local until published *)
| X_glob : forall fn name m c, exec (SGlob fn name m c) [ETau] false
| X_call : forall fn callee, exec (SCall fn callee) [ETau] false
| X_raw : forall fn what e, exec (SRaw fn what) [e] false
| X_inl : forall c b t fl, exec b t fl -> exec (SInl c b) t false
| X_seq : forall a b t1 t2 fl, exec a t1 false -> exec b t2 fl -> exec (SSeq a b) (t1 ++ t2) fl
| X_seq_abrupt : forall a b t1, exec a t1 true -> exec (SSeq a b) t1 true
| X_alt_l : forall a b t fl, exec a t fl -> exec (SAlt a b) t fl
| X_alt_r : forall a b t fl, exec b t fl -> exec (SAlt a b) t fl
| X_loop_0 : forall a, exec (SLoop a) [] false
| X_loop_next : forall a t1 fl1 t2 fl, exec a t1 fl1 -> exec (SLoop a) t2 fl -> exec (SLoop a) (t1 ++ t2) fl
| X_loop_exit : forall a t1 fl, exec a t1 true -> exec (SLoop a) t1 fl
| X_locked : forall fn cls fld b t fl, exec b t fl -> exec (SLocked fn cls fld b) (EAcq :: t ++ [ERel]) fl.

(* ------------------------------------------------------------------ well-locked traces *)

(* prot f = true: f is protected by the lock (must be held for every access); prot f = false: f is immutable (read only).
   wl prot h t = Some h': t respects the discipline starting with lock state h (true = held by this thread) and ends in h'. *)
Fixpoint wl (prot : field -> bool) (h : bool) (t : list ev) : option bool :=
  match t with
  | [] => Some h
  | EAcq :: t' => if h then None else wl prot true t'
  | ERel :: t' => if h then wl prot false t' else None
  | ERd _ f _ :: t' => if prot f && negb h then None else wl prot h t'
  | EWr _ f _ :: t' => if prot f && h then wl prot h t' else None
  | ETau :: t' => wl prot h t'
  end.

Definition prot_of (wr : list field) (f : field) : bool := mem_field f wr.

(* what a thread does while it does NOT hold the lock: thread-local steps and reads of members that are never written *)
Fixpoint unlocked_local (prot : field -> bool) (h : bool) (t : list ev) : bool :=
  match t with
  | [] => true
  | EAcq :: t' => unlocked_local prot true t'
  | ERel :: t' => unlocked_local prot false t'
  | ERd _ f _ :: t' => (h || negb (prot f)) && unlocked_local prot h t'
  | EWr _ _ _ :: t' => h && unlocked_local prot h t'
  | ETau :: t' => unlocked_local prot h t'
  end.

(* a thread of the program: any sequence of calls of entry points *)
Definition thread_trace (eps : list (string * sk)) (t : list ev) : Prop :=
  exists ts, Forall (fun t1 => exists name s fl, In (name, s) eps /\ exec s t1 fl) ts /\ t = concat ts.

(* ------------------------------------------------------------------ a canonical execution of a skeleton (non-vacuity witness) *)

Definition has_acq (t : list ev) : bool := existsb (fun e => match e with EAcq => true | _ => false end) t.

(* one concrete path: at a conditional the branch that takes the lock if there is one, else the first branch unless it exits
   abruptly; every loop body once *)
Fixpoint default_trace (s : sk) : list ev * bool :=
  match s with
  | SSkip => ([], false)
  | SRet => ([], true)
  | SAcc _ cls fld m =>
      if is_shared cls then ([match m with R => ERd 0 (cls, fld) 0%Z | W => EWr 0 (cls, fld) 0%Z | Ini => ETau end], false) else ([ETau], false)
  | SGlob _ _ _ _ | SCall _ _ | SRaw _ _ => ([ETau], false)
  | SInl _ b => (fst (default_trace b), false)
  | SSeq a b => let ra := default_trace a in
                if snd ra then (fst ra, true) else let rb := default_trace b in ((fst ra ++ fst rb)%list, snd rb)
  | SAlt a b => let ra := default_trace a in let rb := default_trace b in
                if has_acq (fst ra) then ra else if has_acq (fst rb) then rb else if snd ra then rb else ra
  | SLoop a => (fst (default_trace a), false)
  | SLocked _ _ _ b => let rb := default_trace b in ((EAcq :: fst rb ++ [ERel])%list, snd rb)
  end.

(* the trace takes the lock and touches at least one protected member while holding it *)
Fixpoint locked_work (prot : field -> bool) (h : bool) (t : list ev) : bool :=
  match t with
  | [] => false
  | EAcq :: t' => locked_work prot true t'
  | ERel :: t' => locked_work prot false t'
  | ERd _ f _ :: t' | EWr _ f _ :: t' => (h && prot f) || locked_work prot h t'
  | ETau :: t' => locked_work prot h t'
  end.

Definition nonvacuous_diag (eps : list (string * sk)) : list string :=
  flat_map (fun p => match find_prefix p eps with
                     | None => ["MISSING entry point " ++ p]
                     | Some s => if locked_work (prot_of (written eps)) false (fst (default_trace s)) then []
                                 else ["canonical execution of " ++ p ++ " does no protected access under the lock"] end) required_locked.

(* ------------------------------------------------------------------ completeness direction of the checker (live code) *)

(* s has an execution that completes normally *)
Fixpoint can_normal (s : sk) : bool :=
  match s with
  | SRet => false
  | SSeq a b => can_normal a && can_normal b
  | SAlt a b => can_normal a || can_normal b
  | SLocked _ _ _ b => can_normal b
  | _ => true
  end.

(* a lock-discipline violation on LIVE code: a protected member accessed without the lock, a re-acquire, an unsupported lock
   construct - not counting code that follows a statement which cannot complete normally (dead code) *)
Fixpoint viol (wr : list field) (h : bool) (s : sk) : bool :=
  match s with
  | SAcc _ cls fld m =>
      match m with Ini => false | _ => is_shared cls && mem_field (cls, fld) wr && negb h end
  | SRaw _ _ => true
  | SInl _ b | SLoop b => viol wr h b
  | SSeq a b => viol wr h a || (can_normal a && viol wr h b)
  | SAlt a b => viol wr h a || viol wr h b
  | SLocked _ _ _ b => h || viol wr true b
  | _ => false
  end.

(* C12, round 7: the {k} and memory forms of the narrowing / widening move categories at byte level. *)
From Coq Require Import NArith ZArith List Bool Lia.
From Verif Require Import RwInfo.RwModel RwInfo.RegWrite RwInfo.RegWriteProofs RwInfo.FrameProofs.
Import ListNotations.
Local Open Scope N_scope.

(* the {k} forms of the narrowing moves (vpmovqb xmm1 {k1}, zmm2 ...): with merge-masking the destination is returned READ with a read mask
   equal to its write mask; with {z} (or an implicitly zeroing instruction) the destination is not read; the write/extend masks
   are those of the unmasked form in both cases *)
Lemma cat_vmov_narrow_masked ta tb ida idb shift rm av mode64 opt out :
  In ta [11; 12; 13] -> In tb [11; 12; 13] -> In shift [1; 2; 3] ->
  let q := {| q_arch64 := mode64; q_id := 0; q_options := opt; q_extra_mask := true; q_ops := [OReg ta ida; OReg tb idb] |} in
  let n := N.to_nat (N.shiftr (reg_size tb) shift) in
  exists o0 o1 r, cat_vmov_narrow q shift rm av out = Some r /\ i_ops r = [o0; o1] /\
    o_w o0 = o_w (reported_avx_vec n) /\ o_e o0 = o_e (reported_avx_vec n) /\
    (if negb (test opt optZMask) && negb (test av kImplicitZ)
     then test (o_flags o0) fR = true /\ o_r o0 = o_w o0
     else test (o_flags o0) fR = false /\ o_r o0 = 0).
Proof.
  intros Ha Hb Hs q n. subst q n. unfold cat_vmov_narrow. cbv zeta. cbn [q_ops length Nat.ltb Nat.leb].
  unfold handle_avx512. cbn [q_extra_mask q_options andb].
  destruct Ha as [<- | [<- | [<- | []]]]; destruct Hb as [<- | [<- | [<- | []]]]; destruct Hs as [<- | [<- | [<- | []]]];
    cbn [is_reg andb]; destruct (test (rm_ops rm) 1), (test (rm_ops rm) 2);
    destruct (negb (test opt optZMask) && negb (test av kImplicitZ));
    do 3 eexists; (split; [reflexivity|]); (split; [reflexivity|]); repeat split; vm_compute; reflexivity.
Qed.

(* memory forms of the narrowing moves: the store writes (source size >> shift) bytes of memory and reads the whole source register; the
   load form (vcvtpd2ps xmm, m256 ...) writes the narrowed size with the VEX/EVEX extension and reads the full memory operand *)
Lemma cat_vmov_narrow_memory_forms tv id sz b x shift rm av mode64 opt out :
  In tv [11; 12; 13] -> In shift [1; 2; 3] -> In sz [16; 32; 64] ->
  (exists o0 o1, option_map i_ops (cat_vmov_narrow {| q_arch64 := mode64; q_id := 0; q_options := opt; q_extra_mask := false;
                                                      q_ops := [OMem sz b x; OReg tv id] |} shift rm av out) = Some [o0; o1] /\
     o_w o0 = lsb_mask (N.shiftr (reg_size tv) shift) /\ o_e o0 = 0 /\ o_r o0 = 0 /\ o_r o1 = lsb_mask (reg_size tv) /\ o_w o1 = 0) /\
  (exists o0 o1, option_map i_ops (cat_vmov_narrow {| q_arch64 := mode64; q_id := 0; q_options := opt; q_extra_mask := false;
                                                      q_ops := [OReg tv id; OMem sz b x] |} shift rm av out) = Some [o0; o1] /\
     o_w o0 = o_w (reported_avx_vec (N.to_nat (N.shiftr sz shift))) /\ o_e o0 = o_e (reported_avx_vec (N.to_nat (N.shiftr sz shift))) /\
     o_r o0 = 0 /\ o_r o1 = lsb_mask sz /\ o_w o1 = 0 /\ o_e o1 = 0).
Proof.
  intros Hv Hs Hz. split; unfold cat_vmov_narrow; cbv zeta; cbn [q_ops length Nat.ltb Nat.leb];
    destruct Hv as [<- | [<- | [<- | []]]]; destruct Hs as [<- | [<- | [<- | []]]]; destruct Hz as [<- | [<- | [<- | []]]];
    cbn [is_reg is_mem andb]; rewrite handle_avx512_no_mask by reflexivity;
    do 2 eexists; (split; [reflexivity|]); repeat split; vm_compute; reflexivity.
Qed.

(* memory form of the widening moves (vpmovzxbq zmm, m64 ...): destination written in full with the VEX/EVEX extension, memory read in
   (destination size >> shift) bytes *)
Lemma cat_vmov_widen_memory_form tv id sz b x shift rm av mode64 opt out :
  In tv [11; 12; 13] -> In shift [1; 2; 3] ->
  exists o0 o1, option_map i_ops (cat_vmov_widen {| q_arch64 := mode64; q_id := 0; q_options := opt; q_extra_mask := false;
                                                    q_ops := [OReg tv id; OMem sz b x] |} shift rm av out) = Some [o0; o1] /\
    o_w o0 = o_w (reported_avx_vec (N.to_nat (reg_size tv))) /\ o_e o0 = o_e (reported_avx_vec (N.to_nat (reg_size tv))) /\ o_r o0 = 0 /\
    o_r o1 = lsb_mask (N.shiftr (reg_size tv) shift) /\ o_w o1 = 0 /\ o_e o1 = 0.
Proof.
  intros Hv Hs. unfold cat_vmov_widen. cbv zeta. cbn [q_ops length Nat.ltb Nat.leb].
  destruct Hv as [<- | [<- | [<- | []]]]; destruct Hs as [<- | [<- | [<- | []]]];
    cbn [is_reg is_mem andb]; rewrite handle_avx512_no_mask by reflexivity;
    do 2 eexists; (split; [reflexivity|]); repeat split; vm_compute; reflexivity.
Qed.

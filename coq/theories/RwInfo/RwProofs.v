(* C12: soundness of the boolean checkers of RwSpec.v with respect to their Prop-level reading. *)
From Coq Require Import NArith ZArith List Bool Lia.
From Verif Require Import RwInfo.RwModel RwInfo.FeatModel RwInfo.RwSpec.
Import ListNotations.
Local Open Scope N_scope.

Lemma subset_spec a b : subset a b = true -> forall i, byte_in a i -> byte_in b i.
Proof.
  unfold subset, byte_in. intros H i Ha. apply N.eqb_eq in H.
  assert (E : N.testbit (N.ldiff a b) i = false) by (rewrite H; apply N.bits_0).
  rewrite N.ldiff_spec, Ha in E. simpl in E. destruct (N.testbit b i); [reflexivity | discriminate].
Qed.

Lemma subset_lor_spec a b c : subset a (N.lor b c) = true -> forall i, byte_in a i -> byte_in b i \/ byte_in c i.
Proof.
  intros H i Ha. pose proof (subset_spec _ _ H i Ha) as Hb. unfold byte_in in *.
  rewrite N.lor_spec in Hb. apply orb_true_iff in Hb. exact Hb.
Qed.

Lemma lor_subset_spec a b c : subset (N.lor a b) c = true -> forall i, byte_in a i \/ byte_in b i -> byte_in c i.
Proof.
  intros H i Hab. apply (subset_spec _ _ H). unfold byte_in in *. rewrite N.lor_spec. apply orb_true_iff. exact Hab.
Qed.

Lemma test_spec a f : test a f = true <-> has_flag a f.
Proof.
  unfold test, has_flag. rewrite negb_true_iff, N.eqb_neq. reflexivity.
Qed.

Lemma all2_Forall2 {A B} (f : A -> B -> bool) (P : A -> B -> Prop) :
  (forall a b, f a b = true -> P a b) -> forall la lb, all2 f la lb = true -> Forall2 P la lb.
Proof.
  intros H la. induction la as [|a ra IH]; intros [|b rb] E; simpl in E; try discriminate.
  - constructor.
  - apply andb_true_iff in E as [E1 E2]. constructor; auto.
Qed.

Lemma op_covers_sound e o : op_covers e o = true -> op_covers_P e o.
Proof.
  unfold op_covers, op_covers_P. intros H.
  repeat (apply andb_true_iff in H; destruct H as [H ?]).
  rename H into Hr, H4 into Hw, H3 into Hx, H2 into Hp, H1 into Hc, H0 into Hs.
  split; [|split; [|split; [|split; [|split]]]].
  - intros E. rewrite E in Hr. simpl in Hr. apply andb_true_iff in Hr as [F S]. split; [apply test_spec; exact F | apply subset_spec; exact S].
  - intros E. rewrite E in Hw. simpl in Hw. apply andb_true_iff in Hw as [F S]. split; [apply test_spec; exact F | apply subset_lor_spec; exact S].
  - intros E. rewrite E in Hx. simpl in Hx. destruct (e_write e).
    + apply lor_subset_spec; exact Hx.
    + intros C. apply test_spec in C. rewrite C in Hx. discriminate.
  - intros fl id E. rewrite E in Hp. apply andb_true_iff in Hp as [F I]. split; [apply test_spec; exact F | apply N.eqb_eq; exact I].
  - intros NE. apply orb_true_iff in Hc as [Z | Z]; apply N.eqb_eq in Z; [contradiction | exact Z].
  - intros E. rewrite E in Hs. simpl in Hs. apply test_spec; exact Hs.
Qed.

Lemma out_covers_sound c out : out_covers c out = true -> covers c out.
Proof.
  unfold out_covers, covers. intros H.
  repeat (apply andb_true_iff in H; destruct H as [H ?]).
  split; [|split; [|split; [|split]]].
  - eapply all2_Forall2; [apply op_covers_sound | exact H].
  - apply subset_spec; assumption.
  - apply subset_spec; assumption.
  - intros E. rewrite E in H1. simpl in H1. apply test_spec; exact H1.
  - intros E. rewrite E in H0. simpl in H0. unfold merge_ok in H0. destruct (i_ops out) as [|o r]; [discriminate|].
    apply andb_true_iff in H0 as [F S]. exists o, r. split; [reflexivity | split; [apply test_spec; exact F | apply subset_spec; exact S]].
Qed.

Lemma case_covered_sound T c : case_covered T c = true -> exists out, query_rw_info T (c_q c) = Some out /\ covers c out.
Proof.
  unfold case_covered. destruct (query_rw_info T (c_q c)) as [out|]; [|discriminate].
  intros H. exists out. split; [reflexivity | apply out_covers_sound; exact H].
Qed.

Lemma op_rm_ok_sound e o : op_rm_ok e o = true -> has_flag (o_flags o) fRegM -> In (o_rmsize o) (e_memsizes e).
Proof.
  unfold op_rm_ok. intros H F. apply test_spec in F. rewrite F in H. simpl in H.
  apply existsb_exists in H as [x [I E]]. apply N.eqb_eq in E. subst x. exact I.
Qed.

Lemma case_rm_ok_sound T c : case_rm_ok T c = true -> c_rmcheck c = true ->
  exists out, query_rw_info T (c_q c) = Some out /\ rm_claims_true c out.
Proof.
  unfold case_rm_ok. destruct (query_rw_info T (c_q c)) as [out|]; [|discriminate].
  intros H R. rewrite R in H. simpl in H. exists out. split; [reflexivity|].
  unfold rm_claims_true. eapply all2_Forall2; [|exact H]. intros e o; apply op_rm_ok_sound.
Qed.

(* lifting of the reflection lemmas of the generated files *)
Lemma covered_list T l : forallb (case_covered T) l = true ->
  forall c, In c l -> exists out, query_rw_info T (c_q c) = Some out /\ covers c out.
Proof. intros H c I. apply case_covered_sound. exact (proj1 (forallb_forall _ _) H c I). Qed.

Lemma rm_ok_list T l : forallb (case_rm_ok T) l = true ->
  forall c, In c l -> c_rmcheck c = true -> exists out, query_rw_info T (c_q c) = Some out /\ rm_claims_true c out.
Proof. intros H c I. apply case_rm_ok_sound. exact (proj1 (forallb_forall _ _) H c I). Qed.

Lemma not_covered_list T l : forallb (fun c => negb (case_covered T c)) l = true -> forall c, In c l -> case_covered T c = false.
Proof. intros H c I. apply negb_true_iff. exact (proj1 (forallb_forall _ _) H c I). Qed.

Lemma rm_bad_list T l : forallb (fun c => negb (case_rm_ok T c)) l = true -> forall c, In c l -> case_rm_ok T c = false.
Proof. intros H c I. apply negb_true_iff. exact (proj1 (forallb_forall _ _) H c I). Qed.

(* a refuted case really violates the Prop-level reading (completeness of the checker on the write/read-flag part is not
   needed: the refutation theorems are stated on the boolean checker, whose definition is spelled out in RwSpec.v) *)

(* ------------------------------------------------------------------ features *)
Lemma has_In l f : has l f = true -> In f l.
Proof. unfold has. intros H. apply existsb_exists in H as [x [I E]]. apply N.eqb_eq in E. subst. exact I. Qed.

Lemma case_feat_ok_sound T C c : case_feat_ok T C c = true ->
  exists rep, query_features T C (c_q c) = Some rep /\ features_cover c rep.
Proof.
  unfold case_feat_ok, feat_case_ok. destruct (query_features T C (c_q c)) as [rep|]; [|discriminate].
  intros H. exists rep. split; [reflexivity|]. apply existsb_exists in H as [alt [I A]].
  exists alt. split; [exact I|]. intros f F. apply has_In. exact (proj1 (forallb_forall _ _) A f F).
Qed.

Lemma feat_good_list T C l : forallb (case_feat_good T C) l = true ->
  forall c, In c l -> (c_featcheck c = true -> exists rep, query_features T C (c_q c) = Some rep /\ features_cover c rep) /\
                      (c_featcheck c = false -> case_feat_ok T C c = false).
Proof.
  intros H c I. pose proof (proj1 (forallb_forall _ _) H c I) as G. unfold case_feat_good in G.
  split; intros E; rewrite E in G; [apply case_feat_ok_sound; exact G | apply negb_true_iff; exact G].
Qed.

(* ------------------------------------------------------------------ rm_feature *)
Lemma op_rmfeat_ok_sound avail e o : op_rmfeat_ok avail e o = true -> has_flag (o_flags o) fRegM ->
  exists sf, In sf (e_memforms e) /\ fst sf = o_rmsize o /\ forall x, In x (snd sf) -> In x avail.
Proof.
  unfold op_rmfeat_ok. intros H F. apply test_spec in F. rewrite F in H. simpl in H.
  apply existsb_exists in H as [sf [I E]]. apply andb_true_iff in E as [E1 E2]. apply N.eqb_eq in E1.
  exists sf. split; [exact I|]. split; [exact E1|]. intros x Hx. apply has_In. exact (proj1 (forallb_forall _ _) E2 x Hx).
Qed.

Lemma rmfeat_ok_list T C l : forallb (case_rmfeat_ok T C) l = true ->
  forall c, In c l -> c_rmcheck c = true ->
  exists out feats, query_rw_info T (c_q c) = Some out /\ query_features T C (c_q c) = Some feats /\ rm_feature_claims_true C c out feats.
Proof.
  intros H c I R. pose proof (proj1 (forallb_forall _ _) H c I) as G. unfold case_rmfeat_ok in G.
  destruct (query_rw_info T (c_q c)) as [out|]; [|discriminate].
  destruct (query_features T C (c_q c)) as [feats|]; [|discriminate].
  rewrite R in G. simpl in G. exists out, feats. split; [reflexivity|]. split; [reflexivity|].
  unfold rm_feature_claims_true. eapply all2_Forall2; [|exact G]. intros e o; apply op_rmfeat_ok_sound.
Qed.

(* ------------------------------------------------------------------ the fused checker implies the four individual ones *)
Lemma case_fused_split T C c : case_fused T C c = true ->
  case_covered T c = true /\ case_rm_ok T c = true /\ case_feat_good T C c = true /\ case_rmfeat_ok T C c = true.
Proof.
  unfold case_fused, case_covered, case_rm_ok, case_feat_good, case_feat_ok, feat_case_ok, case_rmfeat_ok.
  destruct (query_rw_info T (c_q c)) as [out|]; [|discriminate].
  destruct (query_features T C (c_q c)) as [feats|]; [|discriminate].
  intros H. do 3 (apply andb_true_iff in H; destruct H as [H ?]). cbv beta iota. repeat split; assumption.
Qed.

Lemma fused_list T C l : forallb (case_fused T C) l = true ->
  forallb (case_covered T) l = true /\ forallb (case_rm_ok T) l = true /\ forallb (case_feat_good T C) l = true /\
  forallb (case_rmfeat_ok T C) l = true.
Proof.
  intros H. repeat split; apply forallb_forall; intros c I;
    destruct (case_fused_split T C c (proj1 (forallb_forall _ _) H c I)) as [A [B [D E]]]; assumption.
Qed.

(* C12, round 6 (second part): statements about query_rw_info itself (top level), byte-level meaning of special categories
   (mov loads / immediates, movhps/movhpd, punpckl*, narrowing moves), AArch64 access flags. *)
From Coq Require Import NArith ZArith List Bool Lia.
From Verif Require Import RwInfo.RwModel RwInfo.FeatModel RwInfo.RegWrite RwInfo.RegWriteProofs RwInfo.FeatProofs RwInfo.FrameProofs RwInfo.CompleteProofs RwInfo.A64RwModel.
Import ListNotations.
Local Open Scope N_scope.


(* top level, legacy SSE *)
Lemma query_rw_info_legacy_vec T q out i rt id :
  query_rw_info T q = Some out -> selected_category T q <= 1 ->
  test (ir_cflags (nthN (t_inst T) (q_id q) d_inst)) (t_vex_flags T) = false ->
  (i < length (q_ops q))%nat -> nth i (q_ops q) ONone = OReg rt id -> reg_group rt = grp_vec ->
  N.land (o_e (nth i (i_ops out) op_zero)) (not64 (lsb_mask (N.min (reg_size rt) 64))) = 0.
Proof.
  intros H C V Hi Hop G. rewrite (query_rw_info_generic T q out H C). unfold generic_call. cbv zeta. rewrite V.
  apply (generic_whole_path_legacy_vec _ _ _ _ _ _ _ i rt id); assumption.
Qed.

(* top level, reg/mem claims *)
Lemma query_rw_info_regmem_only_on_registers T q out i :
  query_rw_info T q = Some out -> selected_category T q <= 1 -> (i < length (q_ops q))%nat ->
  let ro := select_row T (nthN (t_inst T) (q_id q) d_inst) (length (q_ops q)) in
  let o0 := generic_op_v T (test (ir_cflags (nthN (t_inst T) (q_id q) d_inst)) (t_vex_flags T)) (native_gp_size (q_arch64 q))
                         (fst ro) (nth i (snd ro) i) (nth i (q_ops q) ONone) in
  test (o_flags o0) fRegM = false -> test (o_flags (nth i (i_ops out) op_zero)) fRegM = true ->
  is_reg (nth i (q_ops q) ONone) = true /\ test (q_options q) optER = false.
Proof.
  intros H C Hi ro o0 H0 H1. rewrite (query_rw_info_generic T q out H C) in H1. unfold generic_call in H1. cbv zeta in H1. fold ro in H1.
  match type of H1 with context [generic T q ?v ?r ?om ?rmr ?av ?oo] =>
    destruct i as [|i];
    [ apply (generic_regmem_operand0 T q v r om rmr av oo Hi H0 H1)
    | apply (generic_regmem_only_on_registers T q v r om rmr av oo (S i)); [lia|];
      intros E; cbv zeta in E; rewrite E in H1; fold ro in H1; fold o0 in H1; rewrite H0 in H1; discriminate ]
  end.
Qed.

(* query_features: total on valid ids, empty record -> nothing reported *)
Lemma query_features_total T C q : q_id q < N.of_nat (length (t_inst T)) -> exists rep, query_features T C q = Some rep.
Proof.
  intros H. unfold query_features. apply N.ltb_lt in H. rewrite H. cbn [negb].
  destruct (take_nonzero _); [eexists; reflexivity|].
  destruct (reg_analysis (q_arch64 q) (q_ops q)). eexists. reflexivity.
Qed.

(* a64: immediates / absent operands are silent; and the R/W flags of a register operand are the table's *)
Lemma a64_non_regmem_silent T id ops out i :
  a64_query_rw_info T id ops = Some out -> (i < length ops)%nat -> a_is_reg_or_mem (nth i ops ANone) = false ->
  let row := nthN (at_inst T) (N.land id (at_real_id_mask T)) {| ai_rw := 0; ai_flags := 0 |} in
  (test (ai_flags row) (at_consecutive T) && Nat.ltb 2 (length ops)) = false ->
  existsb (N.eqb (N.land id (at_real_id_mask T))) (at_tbl_ids T) = false ->
  nth i (i_ops out) op_zero = op_zero.
Proof.
  unfold a64_query_rw_info. cbv zeta.
  destruct (negb (_ <? _)); [discriminate|]. destruct (Nat.ltb 6 (length ops)); [discriminate|].
  intros H Hi Hop Hc Ht. inversion H. clear H. subst out. cbn [i_ops]. rewrite Hc, Ht. cbn [negb andb].
  rewrite (nth_mapi0 _ ANone op_zero) by exact Hi. cbn [Nat.add]. rewrite Hop. reflexivity.
Qed.


(* kCategoryMov, loads and immediates: mov r, [mem] (not the moffs64 form) and mov r, imm return the architectural masks for the destination *)
Lemma cat_mov_load_masks mode64 (d : gp_dest) id sz b x opt k out :
  b <> 0 ->
  let q := {| q_arch64 := mode64; q_id := 0; q_options := opt; q_extra_mask := k;
              q_ops := [OReg (gp_regtype d) id; OMem sz b x] |} in
  exists o0 o1, option_map i_ops (cat_mov q out) = Some [o0; o1] /\
    o_w o0 = o_w (reported_gp mode64 d (dest_size d)) /\ o_e o0 = o_e (reported_gp mode64 d (dest_size d)) /\
    o_r o0 = 0 /\ o_w o1 = 0 /\ o_e o1 = 0 /\ o_r o1 = lsb_mask (reg_size (gp_regtype d)).
Proof.
  intros Hb q. subst q. apply N.eqb_neq in Hb.
  destruct d, mode64; cbv [cat_mov q_ops q_arch64]; cbn -[N.lor clear lsb_mask]; rewrite Hb; cbn -[N.lor clear];
    do 2 eexists; (split; [reflexivity|]); repeat split; reflexivity.
Qed.

Lemma cat_mov_imm_masks mode64 (d : gp_dest) id v opt k out :
  let q := {| q_arch64 := mode64; q_id := 0; q_options := opt; q_extra_mask := k;
              q_ops := [OReg (gp_regtype d) id; OImm v] |} in
  exists o0, option_map i_ops (cat_mov q out) = Some [o0; op_zero] /\
    o_w o0 = o_w (reported_gp mode64 d (dest_size d)) /\ o_e o0 = o_e (reported_gp mode64 d (dest_size d)) /\ o_r o0 = 0.
Proof.
  intros q. subst q.
  destruct d, mode64; cbv [cat_mov q_ops q_arch64]; cbn -[N.lor clear];
    eexists; (split; [reflexivity|]); repeat split; reflexivity.
Qed.

(* kCategoryMovh64: movhps / movhpd xmm, m64 write exactly bytes 8..15 of the register, extend nothing, read 8 bytes of memory;
   the store form reads exactly bytes 8..15 *)
Lemma cat_movh64_masks rt id sz b x mode64 opt k out : reg_group rt = grp_vec ->
  (exists o0 o1, option_map i_ops (cat_movh64 {| q_arch64 := mode64; q_id := 0; q_options := opt; q_extra_mask := k;
                                                  q_ops := [OReg rt id; OMem sz b x] |} out) = Some [o0; o1] /\
     o_w o0 = 65280 /\ o_e o0 = 0 /\ o_r o0 = 0 /\ o_r o1 = 255 /\ o_w o1 = 0) /\
  (exists o0 o1, option_map i_ops (cat_movh64 {| q_arch64 := mode64; q_id := 0; q_options := opt; q_extra_mask := k;
                                                  q_ops := [OMem sz b x; OReg rt id] |} out) = Some [o0; o1] /\
     o_w o0 = 255 /\ o_r o1 = 65280 /\ o_w o1 = 0 /\ o_e o1 = 0).
Proof.
  intros G. split; cbv [cat_movh64 q_ops is_vec is_reg_group is_mem]; rewrite G; cbn;
    do 2 eexists; (split; [reflexivity|]); repeat split; reflexivity.
Qed.

(* a64: R / W flags of a plain or by-element register operand are the table's (non-list path) *)
Lemma rd_add_consecutive o : rd (add_flags o fConsecutive) = rd o.
Proof.
  unfold rd, add_flags, test. cbn [o_flags]. f_equal. f_equal. rewrite N.land_lor_distr_l. change (N.land fConsecutive fR) with 0. apply N.lor_0_r.
Qed.
Definition wr (o : op_rw) : bool := test (o_flags o) fW.
Lemma wr_add_consecutive o : wr (add_flags o fConsecutive) = wr o.
Proof.
  unfold wr, add_flags, test. cbn [o_flags]. f_equal. f_equal. rewrite N.land_lor_distr_l. change (N.land fConsecutive fW) with 0. apply N.lor_0_r.
Qed.

Lemma a64_register_access_flags_from_table T id ops out i el :
  a64_query_rw_info T id ops = Some out -> (i < length ops)%nat -> nth i ops ANone = AReg el ->
  let row := nthN (at_inst T) (N.land id (at_real_id_mask T)) {| ai_rw := 0; ai_flags := 0 |} in
  (test (ai_flags row) (at_consecutive T) && Nat.ltb 2 (length ops)) = false ->
  let e := clear (nth i (nthN (at_rwx T) (ai_rw row) []) 0) fZExt in
  rd (nth i (i_ops out) op_zero) = test e fR /\ wr (nth i (i_ops out) op_zero) = test e fW.
Proof.
  unfold a64_query_rw_info. cbv zeta.
  destruct (negb (_ <? _)); [discriminate|]. destruct (Nat.ltb 6 (length ops)); [discriminate|].
  intros H Hi Hop Hc. inversion H. clear H. subst out. cbn [i_ops]. rewrite Hc. cbn [negb andb].
  match goal with |- context [if ?c then mapi ?f 0 ?l else ?l] =>
    assert (K : forall (g : op_rw -> bool), (forall o, g (set_clc o (u8 (N.of_nat (length ops - 2)))) = g o) -> (forall o, g (add_flags o fConsecutive) = g o) ->
                g (nth i (if c then mapi f 0 l else l) op_zero) = g (nth i l op_zero));
    [ intros g G1 G2; destruct c; [|reflexivity];
      rewrite (nth_mapi0 f op_zero op_zero) by (rewrite length_mapi; exact Hi); cbn [Nat.add]; cbv beta;
      destruct (Nat.eqb i 1); [apply G1|]; destruct (Nat.ltb 1 i && Nat.ltb i (length ops - 1)); [apply G2 | reflexivity] |]
  end.
  rewrite (K rd), (K wr) by (try reflexivity; intros; first [apply rd_add_consecutive | apply wr_add_consecutive]).
  rewrite (nth_mapi0 _ ANone op_zero) by exact Hi. cbn [Nat.add]. rewrite Hop. cbn [a_is_reg_or_mem negb].
  destruct el as [[et idx]|]; split; reflexivity.
Qed.


(* PUNPCKL{BW,WD,DQ,QDQ}: interleave the low halves; element size es bytes, register size n bytes (SDM vol. 2 "PUNPCKLBW...": even result
   elements come from the destination, odd ones from the source, both counted from element 0) *)
Definition punpckl_src (es j : nat) : nat := ((j / es / 2) * es + j mod es)%nat.
Definition punpckl (es n : nat) (a b : list N) : list N :=
  tabulate n (fun j => if Nat.even (j / es) then byte_at a (punpckl_src es j) else byte_at b (punpckl_src es j)).

Definition punpckl_shapes : list (nat * nat) := [(1, 8); (2, 8); (4, 8); (1, 16); (2, 16); (4, 16); (8, 16)]%nat.
Definition punpckl_shape_ok (s : nat * nat) : bool :=
  let '(es, n) := s in
  forallb (fun j => Nat.ltb (punpckl_src es j) (n / 2)) (seq 0 n) &&
  forallb (fun k => existsb (fun j => Nat.even (j / es) && Nat.eqb (punpckl_src es j) k) (seq 0 n) &&
                    existsb (fun j => negb (Nat.even (j / es)) && Nat.eqb (punpckl_src es j) k) (seq 0 n)) (seq 0 (n / 2)).
Lemma punpckl_table : forallb punpckl_shape_ok punpckl_shapes = true.
Proof. vm_compute. reflexivity. Qed.

(* the result depends on the low halves of both operands only ... *)
Lemma punpckl_reads_low_halves_only es n a a' b b' : In (es, n) punpckl_shapes ->
  (forall k, (k < n / 2)%nat -> byte_at a k = byte_at a' k) -> (forall k, (k < n / 2)%nat -> byte_at b k = byte_at b' k) ->
  punpckl es n a b = punpckl es n a' b'.
Proof.
  intros Hs Ha Hb. pose proof (proj1 (forallb_forall _ _) punpckl_table _ Hs) as R. cbn [punpckl_shape_ok] in R.
  apply andb_true_iff in R as [R _].
  unfold punpckl, tabulate. apply map_ext_in. intros j Hj.
  pose proof (proj1 (forallb_forall _ _) R j Hj) as Rj. apply Nat.ltb_lt in Rj.
  destruct (Nat.even (j / es)); [apply Ha | apply Hb]; exact Rj.
Qed.

(* ... and on every byte of them: each low-half byte of each operand is copied to some result byte *)
Lemma punpckl_reads_every_low_byte es n a b k : In (es, n) punpckl_shapes -> (k < n / 2)%nat ->
  (exists j, (j < n)%nat /\ byte_at (punpckl es n a b) j = byte_at a k) /\ (exists j, (j < n)%nat /\ byte_at (punpckl es n a b) j = byte_at b k).
Proof.
  intros Hs Hk. pose proof (proj1 (forallb_forall _ _) punpckl_table _ Hs) as R. cbn [punpckl_shape_ok] in R.
  apply andb_true_iff in R as [_ R].
  assert (Ik : In k (seq 0 (n / 2))) by (apply in_seq; lia).
  pose proof (proj1 (forallb_forall _ _) R k Ik) as Rk. apply andb_true_iff in Rk as [RA RB].
  apply existsb_exists in RA as [j [Ij Hj]]. apply existsb_exists in RB as [j' [Ij' Hj']].
  apply in_seq in Ij. apply in_seq in Ij'. apply andb_true_iff in Hj as [E1 E2]. apply andb_true_iff in Hj' as [E1' E2'].
  apply Nat.eqb_eq in E2. apply Nat.eqb_eq in E2'. apply negb_true_iff in E1'.
  split; [exists j | exists j']; (split; [lia|]); unfold punpckl; rewrite tabulate_nth by lia.
  - rewrite E1, E2. reflexivity.
  - rewrite E1', E2'. reflexivity.
Qed.

(* the model's kCategoryPunpcklxx: both operands are reported read in their low half (lsb_mask (n/2)) and the destination written in full *)
Lemma cat_punpcklxx_masks id1 id2 mode64 opt k out :
  (exists o0 o1, option_map i_ops (cat_punpcklxx {| q_arch64 := mode64; q_id := 0; q_options := opt; q_extra_mask := k;
                                                     q_ops := [OReg rt_vec128 id1; OReg rt_vec128 id2] |} out) = Some [o0; o1] /\
     o_r o0 = lsb_mask 8 /\ o_w o0 = lsb_mask 16 /\ o_r o1 = lsb_mask 8 /\ o_w o1 = 0 /\ o_e o0 = 0) /\
  (exists o0 o1, option_map i_ops (cat_punpcklxx {| q_arch64 := mode64; q_id := 0; q_options := opt; q_extra_mask := k;
                                                     q_ops := [OReg rt_mm id1; OReg rt_mm id2] |} out) = Some [o0; o1] /\
     o_r o0 = lsb_mask 4 /\ o_w o0 = lsb_mask 8 /\ o_r o1 = lsb_mask 4 /\ o_w o1 = 0 /\ o_e o0 = 0).
Proof. split; vm_compute; do 2 eexists; (split; [reflexivity|]); repeat split; reflexivity. Qed.


(* kCategoryVmov1_2 / 1_4 / 1_8 (vpmovqb, vcvtpd2ps ...), register forms without {k}: the destination's write mask is the source size
   shifted down and everything above it is reported zero-extended - the masks of reported_avx_vec, whose byte-level meaning is
   C12_vec_bytes_exact (VEX/EVEX write of an n-byte result) *)
Lemma cat_vmov_narrow_masks ta tb ida idb shift rm av mode64 opt out :
  In ta [11; 12; 13] -> In tb [11; 12; 13] -> In shift [1; 2; 3] ->
  let q := {| q_arch64 := mode64; q_id := 0; q_options := opt; q_extra_mask := false; q_ops := [OReg ta ida; OReg tb idb] |} in
  exists o0 o1, option_map i_ops (cat_vmov_narrow q shift rm av out) = Some [o0; o1] /\
    o_w o0 = o_w (reported_avx_vec (N.to_nat (N.shiftr (reg_size tb) shift))) /\
    o_e o0 = o_e (reported_avx_vec (N.to_nat (N.shiftr (reg_size tb) shift))) /\
    o_r o0 = 0 /\ o_r o1 = lsb_mask (reg_size tb) /\ o_w o1 = 0 /\ o_e o1 = 0.
Proof.
  intros Ha Hb Hs q. subst q. unfold cat_vmov_narrow. cbv zeta. cbn [q_ops length Nat.ltb Nat.leb].
  rewrite handle_avx512_no_mask by reflexivity.
  destruct Ha as [<- | [<- | [<- | []]]]; destruct Hb as [<- | [<- | [<- | []]]]; destruct Hs as [<- | [<- | [<- | []]]];
    cbn [is_reg andb]; destruct (test (rm_ops rm) 1), (test (rm_ops rm) 2);
    do 2 eexists; (split; [reflexivity|]); repeat split; vm_compute; reflexivity.
Qed.


(* kCategoryVmovmskps/pd with a 32-bit destination: one byte written, the rest of the register reported zero-extended - the masks of a
   1-byte result into r32 (C12_gp_bytes_exact_zero_extended_x64 / _x86); the vector source is read in full *)
Lemma cat_vmovmsk_masks mode64 id1 tb id2 opt k out : In tb [11; 12] ->
  let q := {| q_arch64 := mode64; q_id := 0; q_options := opt; q_extra_mask := k; q_ops := [OReg (gp_regtype D32) id1; OReg tb id2] |} in
  exists o0 o1, option_map i_ops (cat_vmovmsk q out) = Some [o0; o1] /\
    o_w o0 = o_w (reported_gp mode64 D32 1) /\ o_e o0 = o_e (reported_gp mode64 D32 1) /\ o_r o0 = 0 /\
    o_r o1 = lsb_mask (reg_size tb) /\ o_w o1 = 0.
Proof.
  intros Hb q. subst q. destruct Hb as [<- | [<- | []]]; destruct mode64; vm_compute;
    do 2 eexists; (split; [reflexivity|]); repeat split; reflexivity.
Qed.

(* kCategoryVmov2_1 / 4_1 / 8_1 (vpmovzxbq, vcvtps2pd ...), register forms without {k}: the destination is written in full with the VEX/EVEX
   extension above it, the source is read in its low (destination size >> shift) bytes only *)
Lemma cat_vmov_widen_masks ta tb ida idb shift rm av mode64 opt out :
  In ta [11; 12; 13] -> In tb [11; 12; 13] -> In shift [1; 2; 3] ->
  let q := {| q_arch64 := mode64; q_id := 0; q_options := opt; q_extra_mask := false; q_ops := [OReg ta ida; OReg tb idb] |} in
  exists o0 o1, option_map i_ops (cat_vmov_widen q shift rm av out) = Some [o0; o1] /\
    o_w o0 = o_w (reported_avx_vec (N.to_nat (reg_size ta))) /\ o_e o0 = o_e (reported_avx_vec (N.to_nat (reg_size ta))) /\
    o_r o0 = 0 /\ o_r o1 = lsb_mask (N.shiftr (reg_size ta) shift) /\ o_w o1 = 0 /\ o_e o1 = 0.
Proof.
  intros Ha Hb Hs q. subst q. unfold cat_vmov_widen. cbv zeta. cbn [q_ops length Nat.ltb Nat.leb].
  destruct Ha as [<- | [<- | [<- | []]]]; destruct Hb as [<- | [<- | [<- | []]]]; destruct Hs as [<- | [<- | [<- | []]]];
    cbn [is_reg andb]; rewrite handle_avx512_no_mask by reflexivity; destruct (test (rm_ops rm) 1), (test (rm_ops rm) 2);
    do 2 eexists; (split; [reflexivity|]); repeat split; vm_compute; reflexivity.
Qed.

(* (V)MOVDDUP: every even quadword of the source is duplicated (SDM vol. 2 "MOVDDUP") *)
Definition movddup_src (j : nat) : nat := ((j / 16) * 16 + j mod 8)%nat.
Definition movddup (n : nat) (src : list N) : list N := tabulate n (fun j => byte_at src (movddup_src j)).
Definition ddup_pattern : N := 71777214294589695.    (* 0x00FF00FF00FF00FF: the constant of kCategoryVmovddup *)

Definition movddup_shape_ok (n : nat) : bool :=
  forallb (fun j => N.testbit ddup_pattern (N.of_nat (movddup_src j)) && Nat.ltb (movddup_src j) n) (seq 0 n) &&
  forallb (fun k => implb (N.testbit ddup_pattern (N.of_nat k)) (existsb (fun j => Nat.eqb (movddup_src j) k) (seq 0 n))) (seq 0 n).
Lemma movddup_table : forallb movddup_shape_ok [32; 64]%nat = true.
Proof. vm_compute. reflexivity. Qed.

(* for 256- and 512-bit forms: the result depends exactly on the source bytes the pattern selects *)
Lemma movddup_reads_pattern_only n s s' : In n [32; 64]%nat ->
  (forall k, (k < n)%nat -> N.testbit ddup_pattern (N.of_nat k) = true -> byte_at s k = byte_at s' k) -> movddup n s = movddup n s'.
Proof.
  intros Hn H. pose proof (proj1 (forallb_forall _ _) movddup_table _ Hn) as R. apply andb_true_iff in R as [R _].
  unfold movddup, tabulate. apply map_ext_in. intros j Hj.
  pose proof (proj1 (forallb_forall _ _) R j Hj) as Rj. apply andb_true_iff in Rj as [P L]. apply Nat.ltb_lt in L. apply H; assumption.
Qed.
Lemma movddup_reads_every_pattern_byte n s k : In n [32; 64]%nat -> (k < n)%nat -> N.testbit ddup_pattern (N.of_nat k) = true ->
  exists j, (j < n)%nat /\ byte_at (movddup n s) j = byte_at s k.
Proof.
  intros Hn Hk P. pose proof (proj1 (forallb_forall _ _) movddup_table _ Hn) as R. apply andb_true_iff in R as [_ R].
  assert (Ik : In k (seq 0 n)) by (apply in_seq; lia).
  pose proof (proj1 (forallb_forall _ _) R k Ik) as Rk. cbv beta in Rk. rewrite P in Rk. cbn [implb] in Rk.
  apply existsb_exists in Rk as [j [Ij E]]. apply in_seq in Ij. apply Nat.eqb_eq in E.
  exists j. split; [lia|]. unfold movddup. rewrite tabulate_nth by lia. rewrite E. reflexivity.
Qed.

(* the model: the 256/512-bit register form reports the source read exactly in the pattern's bytes (inside the register), the destination
   written in full with the VEX/EVEX extension; the 128-bit form reads the low 8 bytes *)
Lemma cat_vmovddup_masks tb ida idb av mode64 opt out : In tb [11; 12; 13] ->
  let q := {| q_arch64 := mode64; q_id := 0; q_options := opt; q_extra_mask := false; q_ops := [OReg tb ida; OReg tb idb] |} in
  exists o0 o1, option_map i_ops (cat_vmovddup q av out) = Some [o0; o1] /\
    o_w o0 = o_w (reported_avx_vec (N.to_nat (reg_size tb))) /\ o_e o0 = o_e (reported_avx_vec (N.to_nat (reg_size tb))) /\ o_r o0 = 0 /\
    o_r o1 = (if reg_size tb =? 16 then lsb_mask 8 else N.land (lsb_mask (reg_size tb)) ddup_pattern) /\ o_w o1 = 0.
Proof.
  intros Hb q. subst q. unfold cat_vmovddup. cbv zeta. cbn [q_ops].
  destruct Hb as [<- | [<- | [<- | []]]]; cbn [is_vec is_reg_group andb reg_group N.eqb Pos.eqb grp_vec]; rewrite handle_avx512_no_mask by reflexivity;
    do 2 eexists; (split; [reflexivity|]); repeat split; vm_compute; reflexivity.
Qed.


(* kCategoryMovabs: mov rax/eax/ax/al, [moffs64] - the accumulator (fixed register id 0) gets the architectural masks, the store form reads it *)
Lemma cat_movabs_masks mode64 (d : gp_dest) id sz b x opt k out : d <> D8hi ->
  (exists o0 o1, option_map i_ops (cat_movabs {| q_arch64 := mode64; q_id := 0; q_options := opt; q_extra_mask := k;
                                                  q_ops := [OReg (gp_regtype d) id; OMem sz b x] |} out) = Some [o0; o1] /\
     o_w o0 = o_w (reported_gp mode64 d (dest_size d)) /\ o_e o0 = o_e (reported_gp mode64 d (dest_size d)) /\
     test (o_flags o0) fRegPhys = true /\ o_phys o0 = gpAx /\ o_r o0 = 0 /\ o_r o1 = lsb_mask (reg_size (gp_regtype d)) /\ o_w o1 = 0) /\
  (exists o0 o1, option_map i_ops (cat_movabs {| q_arch64 := mode64; q_id := 0; q_options := opt; q_extra_mask := k;
                                                  q_ops := [OMem sz b x; OReg (gp_regtype d) id] |} out) = Some [o0; o1] /\
     o_w o0 = lsb_mask (reg_size (gp_regtype d)) /\ o_r o1 = lsb_mask (reg_size (gp_regtype d)) /\ o_w o1 = 0 /\ o_e o1 = 0 /\
     test (o_flags o1) fRegPhys = true /\ o_phys o1 = gpAx).
Proof.
  intros Hd. split; destruct d, mode64; try congruence; vm_compute;
    do 2 eexists; (split; [reflexivity|]); repeat split; reflexivity.
Qed.

(* kCategoryImul, two-operand form imul r, r/m (16/32/64-bit): the destination is read AND written with the architectural masks, the source read *)
Lemma cat_imul_two_operand_masks mode64 (d : gp_dest) id1 id2 opt k out : In d [D16; D32; D64] ->
  let q := {| q_arch64 := mode64; q_id := 0; q_options := opt; q_extra_mask := k; q_ops := [OReg (gp_regtype d) id1; OReg (gp_regtype d) id2] |} in
  exists o0 o1, option_map i_ops (cat_imul q out) = Some [o0; o1] /\
    o_w o0 = o_w (reported_gp mode64 d (dest_size d)) /\ o_e o0 = o_e (reported_gp mode64 d (dest_size d)) /\
    o_r o0 = lsb_mask (reg_size (gp_regtype d)) /\ test (o_flags o0) fR = true /\ test (o_flags o0) fW = true /\
    o_r o1 = lsb_mask (reg_size (gp_regtype d)) /\ o_w o1 = 0 /\ test (o_flags o1) fRegM = true.
Proof.
  intros Hd q. subst q. destruct Hd as [<- | [<- | [<- | []]]]; destruct mode64; vm_compute;
    do 2 eexists; (split; [reflexivity|]); repeat split; reflexivity.
Qed.

(* kCategoryVmaskmov: the load writes the whole destination (VEX extension above it) and reads mask and memory; the masked STORE reports the
   memory operand as read AND written (bytes the mask leaves alone keep their old value) *)
Lemma cat_vmaskmov_masks tv id1 id2 id3 sz b x mode64 opt k out : In tv [11; 12] ->
  (exists o0 o1 o2, option_map i_ops (cat_vmaskmov {| q_arch64 := mode64; q_id := 0; q_options := opt; q_extra_mask := k;
                                                      q_ops := [OReg tv id1; OReg tv id2; OMem sz b x] |} out) = Some [o0; o1; o2] /\
     o_w o0 = o_w (reported_avx_vec (N.to_nat (reg_size tv))) /\ o_e o0 = o_e (reported_avx_vec (N.to_nat (reg_size tv))) /\ o_r o0 = 0 /\
     o_r o1 = lsb_mask (reg_size tv) /\ o_w o1 = 0 /\ o_r o2 = lsb_mask (reg_size tv) /\ o_w o2 = 0) /\
  (exists o0 o1 o2, option_map i_ops (cat_vmaskmov {| q_arch64 := mode64; q_id := 0; q_options := opt; q_extra_mask := k;
                                                      q_ops := [OMem sz b x; OReg tv id2; OReg tv id3] |} out) = Some [o0; o1; o2] /\
     test (o_flags o0) fR = true /\ test (o_flags o0) fW = true /\ o_r o0 = lsb_mask (reg_size tv) /\ o_w o0 = lsb_mask (reg_size tv) /\ o_e o0 = 0 /\
     o_r o1 = lsb_mask (reg_size tv) /\ o_w o1 = 0 /\ o_r o2 = lsb_mask (reg_size tv) /\ o_w o2 = 0).
Proof.
  intros Hv. split; destruct Hv as [<- | [<- | []]]; vm_compute;
    do 3 eexists; (split; [reflexivity|]); repeat split; reflexivity.
Qed.
